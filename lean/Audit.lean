/-
  Lists every theorem of a property module with the axioms it depends on, as JSON lines.
  usage: lake env lean --run Audit.lean Exmex.Props.C01 [more modules]
-/
import Lean
open Lean

def allowed : List Name := [``propext, ``Classical.choice, ``Quot.sound]

unsafe def main (args : List String) : IO UInt32 := do
  initSearchPath (← findSysroot)
  enableInitializersExecution
  let mods := args.map (fun s => s.toName)
  let env ← importModules (mods.map (fun m => { module := m })).toArray {} (loadExts := true)
  let mut bad := false
  for m in mods do
    let some idx := env.getModuleIdx? m | throw (IO.userError s!"module {m} not found")
    for (n, ci) in env.constants.toList do
      if env.getModuleIdxFor? n == some idx then
        match ci with
        | .thmInfo _ =>
          if n.isInternal then continue
          let axsArr ← (Lean.collectAxioms n : CoreM (Array Name)).run' { fileName := "<audit>", fileMap := default } { env := env } |>.toIO (fun _ => IO.userError "collectAxioms failed")
          let axs := axsArr.toList
          let ok := axs.all (fun a => allowed.contains a)
          if !ok then bad := true
          IO.println (Json.compress (Json.mkObj [("module", toString m), ("theorem", toString n),
            ("axioms", Json.arr (axs.map (fun a => Json.str (toString a))).toArray), ("ok", ok)]))
        | _ => pure ()
  return if bad then 1 else 0
