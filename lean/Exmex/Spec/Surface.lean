/-
  Specification layer: the surface syntax of well-formed expressions and its documented meaning.

  * parentheses first,
  * unary operators bind tighter than any binary operator and compose right-to-left,
  * binary operators apply in descending priority, left-to-right among equal priorities,
  * constants stand for their values,
  * `op(a, b)` means `((a) op (b))`.

  Nothing here mentions flat nodes, depth-scaled priorities, bit tricks or masks.
-/
import Exmex.Model.Basic
namespace Exmex

mutual
/-- an operand position: literal, variable, constant, parenthesised chain, call, or a unary
    operator applied to an operand -/
inductive Atom (α : Type) where
  | lit (text : Str) (value : α)
  | var (name : Str) (braced : Bool)
  | const (k : Nat)
  | par (c : Chain α)
  | call (o : Nat) (a b : Chain α)
  | un (u : Nat) (a : Atom α)
/-- operands joined by binary operators: `a₀ o₁ a₁ o₂ a₂ …` -/
inductive Chain (α : Type) where
  | single (a : Atom α)
  | cons (a : Atom α) (o : Nat) (rest : Chain α)
end

/-- variable assignment by name -/
abbrev Env (α : Type) := Str → α

/-! ### reduction of a chain of values by priorities -/

/-- position of the left-most maximal priority in a non-empty list (0 for the empty list) -/
def argmaxL : List Int → Nat
  | [] => 0
  | [_] => 0
  | p :: q :: rest =>
    let j := argmaxL (q :: rest)
    if (q :: rest).getD j 0 > p then j + 1 else 0

/-- Repeatedly apply the left-most operator of highest priority to the values standing
    immediately left and right of it. `fuel` bounds the number of steps (`os.length` suffices). -/
def reduceChain {α} (bin : Nat → α → α → α) (prio : Nat → Int) :
    Nat → List α → List Nat → Option α
  | _, [v], [] => some v
  | 0, _, _ => none
  | fuel + 1, vs, os =>
    let k := argmaxL (os.map prio)
    match os[k]?, vs[k]?, vs[k + 1]? with
    | some o, some a, some b =>
      reduceChain bin prio fuel ((vs.take k) ++ [bin o a b] ++ vs.drop (k + 2)) (os.eraseIdx k)
    | _, _, _ => none

def tblPrio (t : Table) (o : Nat) : Int := (((t[o]?).bind (·.bin)).map (·.prio)).getD 0

mutual
def Atom.denote {α} (I : Interp α) (t : Table) (ρ : Env α) : Atom α → Option α
  | .lit _ v => some v
  | .var x _ => some (ρ x)
  | .const k => some (I.const k)
  | .par c => c.denote I t ρ
  | .call o a b =>
    match a.denote I t ρ, b.denote I t ρ with
    | some x, some y => some (I.bin o x y)
    | _, _ => none
  | .un u a => (a.denote I t ρ).map (I.un u)
/-- values of the operands of a chain, and its operators -/
def Chain.operands {α} (I : Interp α) (t : Table) (ρ : Env α) : Chain α → Option (List α × List Nat)
  | .single a => (a.denote I t ρ).map (fun v => ([v], []))
  | .cons a o rest =>
    match a.denote I t ρ, rest.operands I t ρ with
    | some v, some (vs, os) => some (v :: vs, o :: os)
    | _, _ => none
/-- the documented value of a chain (always `some` — see `denote_isSome`) -/
def Chain.denote {α} (I : Interp α) (t : Table) (ρ : Env α) : Chain α → Option α
  | c =>
    match c.operands I t ρ with
    | some (vs, os) => reduceChain I.bin (tblPrio t) os.length vs os
    | none => none
end

/-! ### canonical token stream of an expression -/

mutual
def Atom.toks {α} (I : Interp α) : Atom α → List (Tok α)
  | .lit _ v => [.num v]
  | .var x _ => [.var x]
  | .const k => [.num (I.const k)]
  | .par c => [.popen] ++ c.toks I ++ [.pclose]
  | .call o a b => [.popen, .popen] ++ a.toks I ++ [.pclose, .op o, .popen] ++ b.toks I ++ [.pclose, .pclose]
  | .un u a => .op u :: a.toks I
def Chain.toks {α} (I : Interp α) : Chain α → List (Tok α)
  | .single a => a.toks I
  | .cons a o rest => a.toks I ++ [.op o] ++ rest.toks I
end

/-! ### variables -/

mutual
def Atom.varOcc {α} : Atom α → List Str
  | .lit _ _ => []
  | .var x _ => [x]
  | .const _ => []
  | .par c => c.varOcc
  | .call _ a b => a.varOcc ++ b.varOcc
  | .un _ a => a.varOcc
def Chain.varOcc {α} : Chain α → List Str
  | .single a => a.varOcc
  | .cons a _ rest => a.varOcc ++ rest.varOcc
end

/-- the variables of an expression: distinct names in `str` order -/
def Chain.vars {α} (c : Chain α) : List Str := sortDedup c.varOcc

/-- bind the n-th value to the n-th name -/
def envOf {α} (names : List Str) (vals : List α) (dflt : α) : Env α :=
  fun x => match names.idxOf? x with
    | some i => vals.getD i dflt
    | none => dflt

/-! ### rendering

  `sp` is a stream of space counts, one taken before every token; a call is rendered either as
  `op(a, b)` (when `callForm`) or as `((a) op (b))`. The rendering functions thread the stream.
-/

def spaces (n : Nat) : Str := List.replicate n ' '

def takeSp : List Nat → Nat × List Nat
  | [] => (0, [])
  | n :: rest => (n, rest)

structure RenderCfg where
  callForm : Bool := true

mutual
def Atom.render {α} (t : Table) (cfg : RenderCfg) : Atom α → List Nat → Str × List Nat
  | .lit s _, sp => let (n, sp) := takeSp sp; (spaces n ++ s, sp)
  | .var x braced, sp =>
    let (n, sp) := takeSp sp
    (spaces n ++ (if braced then ['{'] ++ x ++ ['}'] else x), sp)
  | .const k, sp => let (n, sp) := takeSp sp; (spaces n ++ ((t[k]?).map (·.repr)).getD [], sp)
  | .par c, sp =>
    let (n, sp) := takeSp sp
    let (s, sp) := c.render t cfg sp
    let (m, sp) := takeSp sp
    (spaces n ++ ['('] ++ s ++ spaces m ++ [')'], sp)
  | .call o a b, sp =>
    let name := ((t[o]?).map (·.repr)).getD []
    if cfg.callForm then
      let (n, sp) := takeSp sp
      let (m, sp) := takeSp sp
      let (sa, sp) := a.render t cfg sp
      let (k, sp) := takeSp sp
      let (sb, sp) := b.render t cfg sp
      let (l, sp) := takeSp sp
      (spaces n ++ name ++ spaces m ++ ['('] ++ sa ++ spaces k ++ [','] ++ sb ++ spaces l ++ [')'], sp)
    else
      let (n, sp) := takeSp sp
      let (sa, sp) := a.render t cfg sp
      let (m, sp) := takeSp sp
      let (sb, sp) := b.render t cfg sp
      (spaces n ++ ['(', '('] ++ sa ++ [')'] ++ spaces (m + 1) ++ name ++ [' ', '('] ++ sb ++ [')', ')'], sp)
  | .un u a, sp =>
    let (n, sp) := takeSp sp
    let (s, sp) := a.render t cfg sp
    (spaces n ++ ((t[u]?).map (·.repr)).getD [] ++ s, sp)
def Chain.render {α} (t : Table) (cfg : RenderCfg) : Chain α → List Nat → Str × List Nat
  | .single a, sp => a.render t cfg sp
  | .cons a o rest, sp =>
    let (sa, sp) := a.render t cfg sp
    let (n, sp) := takeSp sp
    let (sr, sp) := rest.render t cfg sp
    (sa ++ spaces n ++ ((t[o]?).map (·.repr)).getD [] ++ sr, sp)
end

/-! ### operator listings (C03)

  `opsAll`: every operator occurring in the text (upper bound of a listing).
  `opsVar`: every operator applied to a variable-dependent operand (lower bound of a listing). -/

mutual
/-- (binary operators, unary operators) occurring anywhere -/
def Atom.opsAll {α} : Atom α → List Nat × List Nat
  | .lit _ _ => ([], [])
  | .var _ _ => ([], [])
  | .const _ => ([], [])
  | .par c => c.opsAll
  | .call o a b => (o :: (a.opsAll.1 ++ b.opsAll.1), a.opsAll.2 ++ b.opsAll.2)
  | .un u a => (a.opsAll.1, u :: a.opsAll.2)
def Chain.opsAll {α} : Chain α → List Nat × List Nat
  | .single a => a.opsAll
  | .cons a o rest => (o :: (a.opsAll.1 ++ rest.opsAll.1), a.opsAll.2 ++ rest.opsAll.2)
end

/-! ### tables whose printed expressions lex unambiguously (hypothesis of C12)

  The printer of deep expressions writes a binary operator name directly in front of `{`, `(`,
  a literal or a unary operator name. `lexSafe t` says no longer operator name of the table can
  swallow that next character. -/

def printedNextStarts (t : Table) : List Char :=
  ['{', '(', '.', '0', '1', '2', '3', '4', '5', '6', '7', '8', '9'] ++
    (t.filter (·.unary)).filterMap (·.repr.head?)

def lexSafe (t : Table) : Bool :=
  t.all (fun p => !p.hasBin || t.all (fun r =>
    !(p.repr.isPrefixOf r.repr && p.repr.length < r.repr.length) ||
      !(printedNextStarts t).contains (r.repr.getD p.repr.length ' ')))

end Exmex
