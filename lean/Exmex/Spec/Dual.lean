/-
  Reference semantics of differentiation: evaluation over dual numbers.

  A dual number carries a value, the derivative of that value with respect to one chosen
  variable, and a flag saying that every operation so far was applied inside the domain on which
  its textbook derivative rule is valid (`b ≠ 0` for `a / b`, `a ≠ 0` for the general power
  rule `a ^ b`, which mentions `ln a`).  Comparisons are carried along unchanged and `x if c`,
  `y else z` are differentiated branch-wise (C18).  The rules below are the ones of a calculus textbook, written
  down here independently of src/expression/partial.rs; "the mathematical derivative" of C05 is the
  `der` component of evaluating the *same expression* over this interpretation.
-/
import Exmex.Model.Diff
namespace Exmex

/-- the arithmetic of the default operators -/
structure DArith (K : Type) where
  add : K → K → K
  sub : K → K → K
  mul : K → K → K
  div : K → K → K
  pow : K → K → K
  /-- the unary operators by name (`-`, `sqrt`, `ln`, `sin`, ...) -/
  fn : String → K → K
  /-- the other binary operators by name (comparisons, `if`, `else`) -/
  bop : String → K → K → K
  zero : K
  one : K
  two : K
  ten : K

structure DVal (K : Type) where
  val : K
  der : K
  ok : Bool

section
variable {K : Type} [DecidableEq K] (D : DArith K)

/-- sum, difference, product, quotient and general power rule -/
def dualBin : String → DVal K → DVal K → Option (DVal K)
  | "+", ⟨a, a', p⟩, ⟨b, b', q⟩ => some ⟨D.add a b, D.add a' b', p && q⟩
  | "-", ⟨a, a', p⟩, ⟨b, b', q⟩ => some ⟨D.sub a b, D.sub a' b', p && q⟩
  | "*", ⟨a, a', p⟩, ⟨b, b', q⟩ => some ⟨D.mul a b, D.add (D.mul a' b) (D.mul a b'), p && q⟩
  | "/", ⟨a, a', p⟩, ⟨b, b', q⟩ =>
    some ⟨D.div a b, D.div (D.sub (D.mul a' b) (D.mul a b')) (D.mul b b), p && q && decide (b ≠ D.zero)⟩
  | "^", ⟨a, a', p⟩, ⟨b, b', q⟩ =>
    some ⟨D.pow a b,
          D.add (D.mul (D.mul (D.pow a (D.sub b D.one)) b) a')
                (D.mul (D.mul (D.pow a b) (D.fn "ln" a)) b'),
          p && q && decide (a ≠ D.zero)⟩
  -- a comparison is carried along unchanged: value and "derivative" are the comparison itself
  | ">", ⟨a, _, p⟩, ⟨b, _, q⟩ => some ⟨D.bop ">" a b, D.bop ">" a b, p && q⟩
  | "<", ⟨a, _, p⟩, ⟨b, _, q⟩ => some ⟨D.bop "<" a b, D.bop "<" a b, p && q⟩
  | ">=", ⟨a, _, p⟩, ⟨b, _, q⟩ => some ⟨D.bop ">=" a b, D.bop ">=" a b, p && q⟩
  | "<=", ⟨a, _, p⟩, ⟨b, _, q⟩ => some ⟨D.bop "<=" a b, D.bop "<=" a b, p && q⟩
  | "==", ⟨a, _, p⟩, ⟨b, _, q⟩ => some ⟨D.bop "==" a b, D.bop "==" a b, p && q⟩
  | "!=", ⟨a, _, p⟩, ⟨b, _, q⟩ => some ⟨D.bop "!=" a b, D.bop "!=" a b, p && q⟩
  -- `x if c` and `y else z` are differentiated operand-wise (branch-wise): the condition of the
  -- derivative is the carried condition
  | "if", ⟨a, a', p⟩, ⟨b, b', q⟩ => some ⟨D.bop "if" a b, D.bop "if" a' b', p && q⟩
  | "else", ⟨a, a', p⟩, ⟨b, b', q⟩ => some ⟨D.bop "else" a b, D.bop "else" a' b', p && q⟩
  | _, _, _ => none

/-- the derivative of each differentiable unary operator at `a` -/
def outerDeriv : String → K → Option K
  | "+", _ => some D.one
  | "-", _ => some (D.fn "-" D.one)
  | "sqrt", a => some (D.div D.one (D.mul D.two (D.fn "sqrt" a)))
  | "ln", a => some (D.div D.one a)
  | "log", a => some (D.div D.one a)
  | "log10", a => some (D.div D.one (D.mul a (D.fn "ln" D.ten)))
  | "log2", a => some (D.div D.one (D.mul a (D.fn "ln" D.two)))
  | "exp", a => some (D.fn "exp" a)
  | "sin", a => some (D.fn "cos" a)
  | "cos", a => some (D.fn "-" (D.fn "sin" a))
  | "tan", a => some (D.div D.one (D.pow (D.fn "cos" a) D.two))
  | "asin", a => some (D.div D.one (D.fn "sqrt" (D.sub D.one (D.pow a D.two))))
  | "acos", a => some (D.fn "-" (D.div D.one (D.fn "sqrt" (D.sub D.one (D.pow a D.two)))))
  | "atan", a => some (D.div D.one (D.add D.one (D.pow a D.two)))
  | "sinh", a => some (D.fn "cosh" a)
  | "cosh", a => some (D.fn "sinh" a)
  | "tanh", a => some (D.sub D.one (D.pow (D.fn "tanh" a) D.two))
  | "asinh", a => some (D.div D.one (D.fn "sqrt" (D.add D.one (D.pow a D.two))))
  | "acosh", a => some (D.div D.one (D.mul (D.fn "sqrt" (D.sub a D.one)) (D.fn "sqrt" (D.add a D.one))))
  | "atanh", a => some (D.div D.one (D.sub D.one (D.pow a D.two)))
  | _, _ => none

/-- chain rule -/
def dualUn (name : String) : DVal K → Option (DVal K)
  | ⟨a, a', p⟩ => (outerDeriv D name a).map (fun d => ⟨D.fn name a, D.mul d a', p⟩)

end

section
variable {K : Type} [DecidableEq K] (I : Interp K) (C : CalcOps K) (t : Table)

/-- the arithmetic the table provides under the names the rules mention -/
def dArith : DArith K where
  add := fun a b => match findBinOp t "+".toList with | .ok o => I.bin o.idx a b | .error _ => I.dflt
  sub := fun a b => match findBinOp t "-".toList with | .ok o => I.bin o.idx a b | .error _ => I.dflt
  mul := fun a b => match findBinOp t "*".toList with | .ok o => I.bin o.idx a b | .error _ => I.dflt
  div := fun a b => match findBinOp t "/".toList with | .ok o => I.bin o.idx a b | .error _ => I.dflt
  pow := fun a b => match findBinOp t "^".toList with | .ok o => I.bin o.idx a b | .error _ => I.dflt
  fn := fun n a => match findUnaryOp t n.toList with | .ok u => I.un u a | .error _ => I.dflt
  bop := fun n a b => match findBinOp t n.toList with | .ok o => I.bin o.idx a b | .error _ => I.dflt
  zero := C.zero
  one := C.one
  two := C.two
  ten := C.ten

/-- the dual-number interpretation of the operator table: every operator acts by its rule, looked
    up under its name; an operator without a rule marks the result as outside the domain -/
def dualInterp : Interp (DVal K) where
  bin := fun i x y =>
    (dualBin (dArith I C t) (String.ofList (reprOf t i)) x y).getD ⟨I.bin i x.val y.val, C.zero, false⟩
  un := fun i x =>
    (dualUn (dArith I C t) (String.ofList (reprOf t i)) x).getD ⟨I.un i x.val, C.zero, false⟩
  const := fun i => ⟨I.const i, C.zero, true⟩
  ofLit := fun s => (I.ofLit s).map (fun a => ⟨a, C.zero, true⟩)
  dflt := ⟨I.dflt, C.zero, true⟩

mutual
/-- the same expression over dual numbers: literals are constants -/
def DeepEx.lift : DeepEx K → DeepEx (DVal K)
  | .mk nodes ops un vars => .mk (liftList nodes) ops un vars
def DeepNode.lift : DeepNode K → DeepNode (DVal K)
  | .num a => .num ⟨a, C.zero, true⟩
  | .var i n => .var i n
  | .expr e => .expr e.lift
def liftList : List (DeepNode K) → List (DeepNode (DVal K))
  | [] => []
  | n :: ns => n.lift :: liftList ns
end

/-- the environment seeding the derivative with respect to the variable named `x` -/
def seed (ρ : Str → K) (x : Str) (n : Str) : DVal K :=
  ⟨ρ n, if n = x then C.one else C.zero, true⟩

/-- value, derivative with respect to `x`, and regularity of `d` at `ρ` -/
def DeepEx.dualEval (d : DeepEx K) (ρ : Str → K) (x : Str) : Res (DVal K) :=
  (d.lift C).evalRelaxed (dualInterp I C t) (d.vars.map (seed C ρ x))

end
end Exmex
