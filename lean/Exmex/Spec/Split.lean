/-
  "The operator applied last is the right-most one of lowest priority": a second, recursive
  formulation of the documented evaluation order, used as the bridge between the order-based
  evaluation of the implementation and the left-to-right reduction of the specification.
-/
import Exmex.Model.Basic
namespace Exmex

/-- position of the right-most minimum of a list (0 for the empty list) -/
def argminR : List Int → Nat
  | [] => 0
  | [_] => 0
  | k :: k' :: ks =>
    let j := argminR (k' :: ks)
    if (k' :: ks).getD j 0 ≤ k then j + 1 else 0

/-- Value of the chain `v₀ o₀ v₁ o₁ … vₙ` when the operator applied last is the right-most one
    of minimal key, recursively on both sides. `ω` is the type of operators (positions, or
    operator records). `fuel ≥ os.length` suffices. -/
def splitEval {α ω : Type} (apply : ω → α → α → α) (key : ω → Int) :
    Nat → List α → List ω → Option α
  | _, [v], [] => some v
  | 0, _, _ => none
  | fuel + 1, vs, os =>
    let p := argminR (os.map key)
    match os[p]? with
    | none => none
    | some o =>
      match splitEval apply key fuel (vs.take (p + 1)) (os.take p),
            splitEval apply key fuel (vs.drop (p + 1)) (os.drop (p + 1)) with
      | some l, some r => some (apply o l r)
      | _, _ => none

end Exmex
