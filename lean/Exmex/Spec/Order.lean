/-
  Specification of "apply the binary operators of a chain in a given order": the documented
  behaviour C14 speaks about. Operators are identified by their original position `k`
  (operator `k` stands between operand `k` and operand `k+1`). Applying operator `k` combines
  the two results standing immediately left and right of it at that moment.
-/
import Exmex.Model.Basic
namespace Exmex

/-- state: the current results, and the original indices of the operators still between them -/
abbrev OrderSt (α : Type) := List α × List Nat

/-- apply the operator with original index `k` to its two current neighbours -/
def reduceStep {α} (apply : Nat → α → α → α) (st : OrderSt α) (k : Nat) : Option (OrderSt α) :=
  match st.2.idxOf? k with
  | none => none
  | some p =>
    match st.1[p]?, st.1[p + 1]? with
    | some a, some b => some (st.1.take p ++ [apply k a b] ++ st.1.drop (p + 2), st.2.eraseIdx p)
    | _, _ => none

def reduceLoop {α} (apply : Nat → α → α → α) : List Nat → OrderSt α → Option (OrderSt α)
  | [], st => some st
  | k :: ks, st =>
    match reduceStep apply st k with
    | none => none
    | some st' => reduceLoop apply ks st'

/-- Reduce `vals` by applying the operators in the order `π`; the result is the first
    remaining value (the fully reduced chain when `π` covers every operator). -/
def reduceByOrder {α} (apply : Nat → α → α → α) (vals : List α) (π : List Nat) : Option α :=
  match reduceLoop apply π (vals, List.range (vals.length - 1)) with
  | none => none
  | some (vs, _) => vs.head?

end Exmex
