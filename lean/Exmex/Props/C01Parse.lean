/-
  C01/C02 at parser level: for every well-formed expression and every text that the tokenizer
  turns into the canonical token stream of that expression (the rendering hypothesis, checked at
  run time on every generated case), `parse_wo_compile` and `parse` succeed and evaluation yields
  the documented value.
-/
import Exmex.Props.C01
import Exmex.Props.C02
import Exmex.Proofs.MakeFlat
import Exmex.Proofs.ParseAssembly
namespace Exmex.C01

-- the role conditions alone suffice; well-formedness `hc` (priority ranges) is not needed here
set_option linter.unusedVariables false in
/-- the canonical token stream passes `check_parsed_token_preconditions` -/
theorem checkPre_toks {α} (I : Interp α) (t : Table) (c : Chain α) (hc : c.WF t) (hr : c.Roles t) :
    checkPre t (c.toks I) = .ok () :=
  ParseAssembly.checkPre_of_good (ParseAssembly.chain_good I t c hr)

/-- the variables found in the token stream are the documented variable list -/
theorem findVars_toks {α} (I : Interp α) (c : Chain α) : findVars (c.toks I) = c.vars :=
  ParseAssembly.findVars_toks I c

/-- **C01 (parser level, without folding).** -/
theorem parseWoCompile_eval_eq_denote {α} (I : Interp α) (t : Table) (lm : Str → Option Nat)
    (hA : FlaggedAssoc I t) (c : Chain α) (hc : c.WF t) (hr : c.Roles t) (text : Str)
    (hlex : tokenize I t lm text = .ok (c.toks I))
    (vals : List α) (hlen : vals.length = c.vars.length) :
    ∃ f v, Flat.parseWoCompile I t lm text = .ok f ∧ f.vars = c.vars ∧
      c.denote I t (envOf c.vars vals I.dflt) = some v ∧ f.eval I vals = .ok v := by
  obtain ⟨v, hv, he⟩ := ParseAssembly.parsedFlat_eval I t hA c hc text vals hlen
  exact ⟨_, v, ParseAssembly.parseWoCompile_eq I t lm c hc hr text hlex, rfl, hv, he⟩

/-- **C01 + C02 (parser level, with folding, and re-folded).** -/
theorem parse_eval_eq_denote {α} (I : Interp α) (t : Table) (lm : Str → Option Nat)
    (hA : FlaggedAssoc I t) (c : Chain α) (hc : c.WF t) (hr : c.Roles t) (text : Str)
    (hlex : tokenize I t lm text = .ok (c.toks I))
    (vals : List α) (hlen : vals.length = c.vars.length) :
    ∃ f f2 v, Flat.parse I t lm text = .ok f ∧ f.compile I = .ok f2 ∧ f.vars = c.vars ∧
      c.denote I t (envOf c.vars vals I.dflt) = some v ∧ f.eval I vals = .ok v ∧
      f2.eval I vals = .ok v := by
  obtain ⟨v, hv, he⟩ := ParseAssembly.parsedFlat_eval I t hA c hc text vals hlen
  have hp := ParseAssembly.parseWoCompile_eq I t lm c hc hr text hlex
  have hinv := ParseAssembly.parsedFlat_inv I t hA c hc text vals hlen
  have hidx := ParseAssembly.parsedFlat_idx I t c text vals hlen
  obtain ⟨f, h1, hf, hidx', hvars, hev⟩ := C02.compile_sound I _ hinv vals hidx
  obtain ⟨f2, h2, -, -, hvars2, hev2⟩ := C02.compile_sound I f hf vals hidx'
  have hfv : f.vars = c.vars := hvars
  have hf2v : f2.vars = c.vars := hvars2.trans hvars
  rw [ParseAssembly.eval_eq_evalCloning I _ vals hlen.symm] at he
  refine ⟨f, f2, v, ?_, h2, hfv, hv, ?_, ?_⟩
  · unfold Flat.parse
    rw [hp]
    exact h1
  · rw [ParseAssembly.eval_eq_evalCloning I f vals (by rw [hfv, hlen]), hev]
    exact he
  · rw [ParseAssembly.eval_eq_evalCloning I f2 vals (by rw [hf2v, hlen]), hev2, hev]
    exact he

end Exmex.C01

