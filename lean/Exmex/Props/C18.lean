/-
  C18 — Derivatives of value-typed and piecewise expressions.

  The rule table of the derivative engine (Model/Diff.lean, tied to partial.rs by exact symbolic
  correspondence) treats comparison operators and the two halves of `a if c else b` as follows.
-/
import Exmex.Model.Diff
namespace Exmex.C18

variable {α : Type} (I : Interp α) (C : CalcOps α) (t : Table)

/-- comparison conditions are carried, not differentiated: the "derivative" of `a ⋚ b` is `a ⋚ b` -/
theorem cmp_untouched (name : String) (hn : name ∈ [">", "<", "!=", "==", "<=", ">="]) (f g : ValDer α) :
    binRule I C t name f g =
      (match DeepEx.operateBin I t f.val g.val name.toList, DeepEx.operateBin I t f.val g.val name.toList with
       | .ok v, .ok d => .ok { val := v, der := d }
       | .error e, _ => .error e
       | _, .error e => .error e) := by
  simp only [List.mem_cons, List.mem_nil_iff, or_false] at hn
  rcases hn with rfl | rfl | rfl | rfl | rfl | rfl <;> rfl

/-- `a if c` is differentiated per operand: value `a if c`, derivative `a' if c'` where the
    "derivative" `c'` of a comparison is the comparison itself -/
theorem piecewise_if (f g : ValDer α) :
    binRule I C t "if" f g =
      (match DeepEx.operateBin I t f.val g.val "if".toList, DeepEx.operateBin I t f.der g.der "if".toList with
       | .ok v, .ok d => .ok { val := v, der := d }
       | .error e, _ => .error e
       | _, .error e => .error e) := rfl

/-- `r else b` likewise: value `r else b`, derivative `r' else b'` -/
theorem piecewise_else (f g : ValDer α) :
    binRule I C t "else" f g =
      (match DeepEx.operateBin I t f.val g.val "else".toList, DeepEx.operateBin I t f.der g.der "else".toList with
       | .ok v, .ok d => .ok { val := v, der := d }
       | .error e, _ => .error e
       | _, .error e => .error e) := rfl

/-- an operator without a rule makes differentiation fail with an error, never a wrong expression -/
theorem no_rule_is_error (name : String) (hb : name ∉ binRuleNames) (f g : ValDer α)
    (h : ¬ ([">", "<", "!=", "==", "<=", ">="].contains name = true) ∧ ¬ (["if", "else"].contains name = true))
    (h2 : name ≠ "^" ∧ name ≠ "+" ∧ name ≠ "-" ∧ name ≠ "*" ∧ name ≠ "/") :
    binRule I C t name f g = .error (.err "norule") := by
  obtain ⟨h2a, h2b, h2c, h2d, h2e⟩ := h2
  unfold binRule
  split <;> simp_all

end Exmex.C18
