/-
  The calculation, substitution, differentiation and printing theorems restated for REACHABLE
  expressions: their structural hypotheses are discharged by `Reach.reach_inv`, so what remains are
  only the hypotheses that are about values (laws of exact arithmetic, domain conditions), about the
  table (`TblOK`, names), or about the lexer (`PrintLexOK`).
-/
import Exmex.Props.Reach
import Exmex.Props.C12Lex
import Exmex.Proofs.ReachBridge
namespace Exmex.Reach

variable {α : Type} (I : Interp α) (C : CalcOps α) (t : Table) (lm : Str → Option Nat)

/-- C10: operator application on reachable expressions is a homomorphism -/
theorem reach_operateBin_sound (ht : TblOK I t) (a b : DeepEx α) (ha : Reachable I C t lm a) (hb : Reachable I C t lm b)
    (repr : Str) (op : DBin) (hop : findBinOp t repr = .ok op) (ρ : Str → α) :
    ∃ r va vb, a.operateBin I t b repr = .ok r ∧ r.vars = C10.unionVars a.vars b.vars ∧
      a.evalRelaxed I (a.vars.map ρ) = .ok va ∧ b.evalRelaxed I (b.vars.map ρ) = .ok vb ∧
      r.evalRelaxed I (r.vars.map ρ) = .ok (I.bin op.idx va vb) := by
  have ia := reach_inv I C t lm ht a ha
  have ib := reach_inv I C t lm ht b hb
  obtain ⟨r, va, vb, h1, h2, -, -, h5, h6, h7⟩ :=
    C10.operateBin_sound I t a b repr op hop (ReachBridge.findBinOp_assoc I t ht.assoc repr op hop)
      ia.namedOk ib.namedOk ia.nodup ib.nodup ia.assoc ib.assoc ρ
  exact ⟨r, va, vb, h1, h2, h5, h6, h7⟩

/-- C10: `a * b` with its shortcuts, on reachable expressions -/
theorem reach_mul_sound (ht : TblOK I t) (A : C10.Arith I C t) (a b : DeepEx α)
    (ha : Reachable I C t lm a) (hb : Reachable I C t lm b) (ρ : Str → α)
    (va vb : α) (hva : a.evalRelaxed I (a.vars.map ρ) = .ok va) (hvb : b.evalRelaxed I (b.vars.map ρ) = .ok vb)
    (hzl : I.bin A.mul.idx C.zero vb = C.zero) (hzr : I.bin A.mul.idx va C.zero = C.zero)
    (hol : I.bin A.mul.idx C.one vb = vb) (hor : I.bin A.mul.idx va C.one = va) :
    C10.Yields I (a.mul I C t b) (C10.unionVars a.vars b.vars) ρ (I.bin A.mul.idx va vb) := by
  have ia := reach_inv I C t lm ht a ha
  have ib := reach_inv I C t lm ht b hb
  exact C10.mul_sound I C t A a b ia.namedOk ib.namedOk ia.nodup ib.nodup ia.assoc ib.assoc
    (Shortcut.wrapOK_of_folded a ia.foldedOk) (Shortcut.wrapOK_of_folded b ib.foldedOk) ρ
    va vb hva hvb hzl hzr hol hor

/-- C11: substitution on reachable expressions -/
theorem reach_subs_sound (ht : TblOK I t) (d : DeepEx α) (hd : Reachable I C t lm d)
    (σ : Str → Option (DeepEx α)) (hσ : ∀ v r, σ v = some r → Reachable I C t lm r) (ρ : Str → α) :
    ∃ d' v, d.subs I σ = .ok d' ∧
      (∀ n, n ∈ d'.vars ↔ n ∈ C11.subsNames σ d.vars) ∧ d'.vars = sortBy strLe d'.vars ∧ d'.vars.Nodup ∧
      d.evalRelaxed I (d.vars.map (C11.subsEnv I σ ρ)) = .ok v ∧
      d'.evalRelaxed I (d'.vars.map ρ) = .ok v := by
  have id := reach_inv I C t lm ht d hd
  obtain ⟨d', v, h1, h2, h3, h4, -, -, h7, h8⟩ :=
    C11.subs_sound I d σ id.namedOk
      (ReachBridge.listed_of_named_scoped t d.vars d id.namedOk id.scopedOk) id.nodup id.assoc
      (fun v r h => by
        have ir := reach_inv I C t lm ht r (hσ v r h)
        exact ⟨ir.namedOk, ir.nodup, ir.assoc⟩) ρ
  exact ⟨d', v, h1, h2, h3, h4, h7, h8⟩

/-- C09: a derivative of a reachable expression lists the variables of its antiderivative -/
theorem reach_partial_vars (ht : TblOK I t) (d : DeepEx α) (hd : Reachable I C t lm d) (hr : C05.Ruled t d)
    (i fuel : Nat) (d' : DeepEx α) (hp : partialDeepex I C t i fuel d = .ok d') : d'.vars = d.vars := by
  have id := reach_inv I C t lm ht d hd
  exact C09.partial_vars I C t d d' id.namedOk id.nodup id.sorted hr id.scopedOk i fuel hp

/-- flagged operators of the table are associative (`TblOK.assoc`), in particular those named like
    a comparison, `if` or `else` (`C05.BopAssoc`) -/
theorem bopAssoc_of_flagged (h : C01.FlaggedAssoc I t) : C05.BopAssoc I t := by
  intro n _ o ho hc
  unfold findBinOp at ho
  cases hf : findOp t (String.toList n) with
  | none => rw [hf] at ho; cases ho
  | some i =>
    rw [hf] at ho
    simp only [] at ho
    unfold tblBin at ho
    cases hb : (t[i]?.bind (·.bin)) with
    | none => rw [hb] at ho; cases ho
    | some bb =>
      rw [hb] at ho
      simp only [Option.map] at ho
      cases ho
      exact h i bb hb hc

/-- C05: the derivative of a reachable expression evaluates to the dual-number derivative -/
theorem reach_partial_sound [DecidableEq α] (ht : TblOK I t) (A : C10.Arith I C t) (L : C05.Laws (dArith I C t))
    (hnames : (t.map (·.repr)).Nodup)
    (hfn : ∀ n ∈ ["-", "ln", "sqrt", "sin", "cos", "sinh", "cosh", "tanh"],
      ∃ u, findUnaryOp t (String.toList n) = .ok u)
    (d : DeepEx α) (hd : Reachable I C t lm d) (hr : C05.Ruled t d)
    (i : Nat) (x : Str) (hi : d.vars[i]? = some x) (ρ : Str → α)
    (fuel : Nat) (d' : DeepEx α) (hp : partialDeepex I C t i fuel d = .ok d')
    (w : DVal α) (hw : d.dualEval I C t ρ x = .ok w) (hreg : w.ok = true) :
    d'.vars = d.vars ∧ d.evalRelaxed I (d.vars.map ρ) = .ok w.val ∧
      d'.evalRelaxed I (d'.vars.map ρ) = .ok w.der := by
  have id := reach_inv I C t lm ht d hd
  obtain ⟨h1, -, -, -, h5, h6⟩ :=
    C05.partial_sound I C t A L hnames hfn (bopAssoc_of_flagged I t ht.assoc) d id.namedOk id.nodup id.sorted id.assoc id.foldedOk
      hr id.scopedOk i x hi ρ fuel d' hp w hw hreg
  exact ⟨h1, h5, h6⟩

/-- C12: printing a reachable expression and parsing the text gives the same function -/
theorem reach_unparse_parse_sound (ht : TblOK I t) (d : DeepEx α) (hd : Reachable I C t lm d)
    (hl : C12.PrintLexOK I t lm d) (ρ : Str → α) :
    ∃ f v, Flat.parse I t lm (d.unparse I t) = .ok f ∧ (∀ x ∈ f.vars, x ∈ d.vars) ∧
      f.text = d.unparse I t ∧
      d.evalRelaxed I (d.vars.map ρ) = .ok v ∧ f.eval I (f.vars.map ρ) = .ok v := by
  have id := reach_inv I C t lm ht d hd
  exact C12.unparse_parse_sound' I t lm ht.assoc d id.namedOk id.prio id.fromTable hl ρ

end Exmex.Reach
