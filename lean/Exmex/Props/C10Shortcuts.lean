/-
  C10 — the overloaded arithmetic on deep expressions with neutral-element shortcuts
  (`+`, `*`, `/`, `pow`, `-`, unary minus): same variables and same value as the plain operator
  application, at every assignment at which the algebraic law the shortcut relies on holds for
  the values involved.
-/
import Exmex.Props.C10
import Exmex.Proofs.ShortcutLemmas
import Exmex.Proofs.WrapOK
namespace Exmex.C10
open Exmex.Shortcut

/-- what the shortcuts assume about the interpretation: `PartialEq` is equality, and the table
    has the operators the shortcuts name -/
structure Arith {α} (I : Interp α) (C : CalcOps α) (t : Table) where
  add : DBin
  sub : DBin
  mul : DBin
  div : DBin
  pow : DBin
  hadd : findBinOp t "+".toList = .ok add
  hsub : findBinOp t "-".toList = .ok sub
  hmul : findBinOp t "*".toList = .ok mul
  hdiv : findBinOp t "/".toList = .ok div
  hpow : findBinOp t "^".toList = .ok pow
  eqv_sound : ∀ a b, C.eqv a b = true → a = b
  assoc : ∀ (o : DBin), o ∈ [add, sub, mul, div, pow] → o.comm = true →
    ∀ x y z, I.bin o.idx (I.bin o.idx x y) z = I.bin o.idx x (I.bin o.idx y z)

/-- the result of a calculation: it succeeds, lists the sorted union of the variables, keeps the
    invariants (including `Shortcut.WrapOK`, so that the result can be an operand of a further
    calculation) and has the value `v` under the environment -/
def Yields {α} (I : Interp α) (r : Res (DeepEx α)) (vars : List Str) (ρ : Str → α) (v : α) : Prop :=
  ∃ e, r = .ok e ∧ e.vars = vars ∧ Named e.vars e ∧ e.Assoc I ∧ WrapOK e ∧
    e.evalRelaxed I (vars.map ρ) = .ok v

variable {α : Type} (I : Interp α) (C : CalcOps α) (t : Table) (A : Arith I C t)

/-- an operand (already re-indexed against `all`) returned unchanged -/
theorem yields_operand (e : DeepEx α) (all : List Str) (ρ : Str → α) (v w : α)
    (hv : e.vars = all) (hn : Named all e) (hA : e.Assoc I) (hwo : WrapOK e)
    (he : e.evalRelaxed I (all.map ρ) = .ok v) (hw : w = v) : Yields I (.ok e) all ρ w := by
  subst hw
  exact ⟨e, rfl, hv, by rw [hv]; exact hn, hA, hwo, he⟩

/-- a literal like `other` (`zero_like`, `one_like`) -/
theorem yields_lit (x : α) (all : List Str) (ρ : Str → α) (w : α) (hw : w = x) :
    Yields I (.ok (DeepEx.mk [.num x] [] [] all)) all ρ w := by
  subst hw
  obtain ⟨h1, h2, h3, h4⟩ := lit_facts I w all ρ
  exact ⟨_, rfl, h1, h2, h3, wrapOK_of_folded _ (folded_lit_group w [] all), h4⟩

/-- the general branch: `operate_bin` on the two re-indexed operands -/
theorem yields_bin (a' b' : DeepEx α) (all : List Str) (ρ : Str → α) (repr : Str) (op : DBin)
    (hop : findBinOp t repr = .ok op)
    (hopA : op.comm = true → ∀ x y z, I.bin op.idx (I.bin op.idx x y) z = I.bin op.idx x (I.bin op.idx y z))
    (av : a'.vars = all) (bv : b'.vars = all) (an : Named all a') (bn : Named all b')
    (aA : a'.Assoc I) (bA : b'.Assoc I) (hnd : all.Nodup) (huu : unionVars all all = all)
    (va vb : α) (ae : a'.evalRelaxed I (all.map ρ) = .ok va) (be : b'.evalRelaxed I (all.map ρ) = .ok vb) :
    Yields I (a'.operateBin I t b' repr) all ρ (I.bin op.idx va vb) := by
  obtain ⟨r, va', vb', h1, h2, h3, h4, h5, h6, h7⟩ := operateBin_sound I t a' b' repr op hop hopA
    (by rw [av]; exact an) (by rw [bv]; exact bn) (by rw [av]; exact hnd) (by rw [bv]; exact hnd) aA bA ρ
  rw [av, bv, huu] at h2
  rw [av, ae] at h5
  rw [bv, be] at h6
  cases h5
  cases h6
  rw [h2] at h7
  exact ⟨r, h1, h2, h3, h4, operateBin_wrapOK I t _ _ r repr h1, h7⟩


/-- `a + b`: adding a zero literal returns the other operand — sound when `0 + x = x = x + 0`.

    `hwa`, `hwb`: `is_num` ignores the unary chain of a wrapper group `[Expr(e)]`; the operands
    must not be wrappers of a literal with a non-empty unary chain (`Shortcut.WrapOK`) -/
theorem add_sound (a b : DeepEx α) (ha : Named a.vars a) (hb : Named b.vars b)
    (hnda : a.vars.Nodup) (hndb : b.vars.Nodup) (hAa : a.Assoc I) (hAb : b.Assoc I)
    (hwa : WrapOK a) (hwb : WrapOK b) (ρ : Str → α)
    (va vb : α) (hva : a.evalRelaxed I (a.vars.map ρ) = .ok va) (hvb : b.evalRelaxed I (b.vars.map ρ) = .ok vb)
    (hzl : I.bin A.add.idx C.zero vb = vb) (hzr : I.bin A.add.idx va C.zero = va) :
    Yields I (a.add I C t b) (unionVars a.vars b.vars) ρ (I.bin A.add.idx va vb) := by
  have _ := hndb
  obtain ⟨a', b', hu, av, bv, an, bn, aA, bA, ae, be, ai, bi, hnd, huu⟩ :=
    union_sound I C a b ha hb hnda hAa hAb ρ
  obtain ⟨aw, bw⟩ := union_wrapOK a b a' b' hu hwa hwb
  rw [hva] at ae
  rw [hvb] at be
  have hna : ∀ x, a'.isNum I C x = true → va = x := fun x h =>
    isNum_sound I C A.eqv_sound a.vars _ a x va ha hwa (by rw [← ai]; exact h) hva
  have hnb : ∀ x, b'.isNum I C x = true → vb = x := fun x h =>
    isNum_sound I C A.eqv_sound b.vars _ b x vb hb hwb (by rw [← bi]; exact h) hvb
  unfold DeepEx.add
  rw [hu]
  simp only []
  by_cases h1 : a'.isZero I C = true
  · rw [if_pos h1]
    exact yields_operand I b' _ ρ vb _ bv bn bA bw be (by rw [hna _ h1, hzl])
  · rw [if_neg h1]
    by_cases h2 : b'.isZero I C = true
    · rw [if_pos h2]
      exact yields_operand I a' _ ρ va _ av an aA aw ae (by rw [hnb _ h2, hzr])
    · rw [if_neg h2]
      exact yields_bin I t a' b' _ ρ _ A.add A.hadd (A.assoc A.add (by simp)) av bv an bn aA bA hnd huu
        va vb ae be

/-- `a * b`: zero annihilates, one is neutral — sound when these laws hold for the values -/
theorem mul_sound (a b : DeepEx α) (ha : Named a.vars a) (hb : Named b.vars b)
    (hnda : a.vars.Nodup) (hndb : b.vars.Nodup) (hAa : a.Assoc I) (hAb : b.Assoc I)
    (hwa : WrapOK a) (hwb : WrapOK b) (ρ : Str → α)
    (va vb : α) (hva : a.evalRelaxed I (a.vars.map ρ) = .ok va) (hvb : b.evalRelaxed I (b.vars.map ρ) = .ok vb)
    (hzl : I.bin A.mul.idx C.zero vb = C.zero) (hzr : I.bin A.mul.idx va C.zero = C.zero)
    (hol : I.bin A.mul.idx C.one vb = vb) (hor : I.bin A.mul.idx va C.one = va) :
    Yields I (a.mul I C t b) (unionVars a.vars b.vars) ρ (I.bin A.mul.idx va vb) := by
  have _ := hndb
  obtain ⟨a', b', hu, av, bv, an, bn, aA, bA, ae, be, ai, bi, hnd, huu⟩ :=
    union_sound I C a b ha hb hnda hAa hAb ρ
  obtain ⟨aw, bw⟩ := union_wrapOK a b a' b' hu hwa hwb
  rw [hva] at ae
  rw [hvb] at be
  have hna : ∀ x, a'.isNum I C x = true → va = x := fun x h =>
    isNum_sound I C A.eqv_sound a.vars _ a x va ha hwa (by rw [← ai]; exact h) hva
  have hnb : ∀ x, b'.isNum I C x = true → vb = x := fun x h =>
    isNum_sound I C A.eqv_sound b.vars _ b x vb hb hwb (by rw [← bi]; exact h) hvb
  unfold DeepEx.mul
  rw [hu]
  simp only []
  by_cases h1 : (a'.isZero I C || b'.isZero I C) = true
  · rw [if_pos h1, zeroLike_eq, av]
    apply yields_lit
    rcases Bool.or_eq_true _ _ ▸ h1 with h | h
    · rw [hna _ h, hzl]
    · rw [hnb _ h, hzr]
  · rw [if_neg h1]
    by_cases h2 : a'.isOne I C = true
    · rw [if_pos h2]
      exact yields_operand I b' _ ρ vb _ bv bn bA bw be (by rw [hna _ h2, hol])
    · rw [if_neg h2]
      by_cases h3 : b'.isOne I C = true
      · rw [if_pos h3]
        exact yields_operand I a' _ ρ va _ av an aA aw ae (by rw [hnb _ h3, hor])
      · rw [if_neg h3]
        exact yields_bin I t a' b' _ ρ _ A.mul A.hmul (A.assoc A.mul (by simp)) av bv an bn aA bA hnd huu
          va vb ae be

/-- `a / b`: a zero numerator over a denominator that is not the zero literal gives zero, a unit
    denominator returns the numerator — sound when `0 / vb = 0` and `va / 1 = va` -/
theorem div_sound (a b : DeepEx α) (ha : Named a.vars a) (hb : Named b.vars b)
    (hnda : a.vars.Nodup) (hndb : b.vars.Nodup) (hAa : a.Assoc I) (hAb : b.Assoc I)
    (hwa : WrapOK a) (hwb : WrapOK b) (ρ : Str → α)
    (va vb : α) (hva : a.evalRelaxed I (a.vars.map ρ) = .ok va) (hvb : b.evalRelaxed I (b.vars.map ρ) = .ok vb)
    (hz : I.bin A.div.idx C.zero vb = C.zero) (ho : I.bin A.div.idx va C.one = va) :
    Yields I (a.div I C t b) (unionVars a.vars b.vars) ρ (I.bin A.div.idx va vb) := by
  have _ := hndb
  obtain ⟨a', b', hu, av, bv, an, bn, aA, bA, ae, be, ai, bi, hnd, huu⟩ :=
    union_sound I C a b ha hb hnda hAa hAb ρ
  obtain ⟨aw, bw⟩ := union_wrapOK a b a' b' hu hwa hwb
  rw [hva] at ae
  rw [hvb] at be
  have hna : ∀ x, a'.isNum I C x = true → va = x := fun x h =>
    isNum_sound I C A.eqv_sound a.vars _ a x va ha hwa (by rw [← ai]; exact h) hva
  have hnb : ∀ x, b'.isNum I C x = true → vb = x := fun x h =>
    isNum_sound I C A.eqv_sound b.vars _ b x vb hb hwb (by rw [← bi]; exact h) hvb
  unfold DeepEx.div
  rw [hu]
  simp only []
  by_cases h1 : (a'.isZero I C && !b'.isZero I C) = true
  · rw [if_pos h1, zeroLike_eq, av]
    apply yields_lit
    rw [Bool.and_eq_true] at h1
    rw [hna _ h1.1, hz]
  · rw [if_neg h1]
    by_cases h2 : b'.isOne I C = true
    · rw [if_pos h2]
      exact yields_operand I a' _ ρ va _ av an aA aw ae (by rw [hnb _ h2, ho])
    · rw [if_neg h2]
      exact yields_bin I t a' b' _ ρ _ A.div A.hdiv (A.assoc A.div (by simp)) av bv an bn aA bA hnd huu
        va vb ae be

/-- `a.pow(b)`: `0^0` (both literals zero) is an error; otherwise the shortcuts `0^e = 0`,
    `x^0 = 1`, `x^1 = x` — sound when these laws hold for the values -/
theorem pow_sound (a b : DeepEx α) (ha : Named a.vars a) (hb : Named b.vars b)
    (hnda : a.vars.Nodup) (hndb : b.vars.Nodup) (hAa : a.Assoc I) (hAb : b.Assoc I)
    (hwa : WrapOK a) (hwb : WrapOK b) (ρ : Str → α)
    (va vb : α) (hva : a.evalRelaxed I (a.vars.map ρ) = .ok va) (hvb : b.evalRelaxed I (b.vars.map ρ) = .ok vb)
    (hzb : I.bin A.pow.idx C.zero vb = C.zero) (hze : I.bin A.pow.idx va C.zero = C.one)
    (hoe : I.bin A.pow.idx va C.one = va) :
    a.pow I C t b = .error (.err "zero_pow_zero") ∨
      Yields I (a.pow I C t b) (unionVars a.vars b.vars) ρ (I.bin A.pow.idx va vb) := by
  have _ := hndb
  obtain ⟨a', b', hu, av, bv, an, bn, aA, bA, ae, be, ai, bi, hnd, huu⟩ :=
    union_sound I C a b ha hb hnda hAa hAb ρ
  obtain ⟨aw, bw⟩ := union_wrapOK a b a' b' hu hwa hwb
  rw [hva] at ae
  rw [hvb] at be
  have hna : ∀ x, a'.isNum I C x = true → va = x := fun x h =>
    isNum_sound I C A.eqv_sound a.vars _ a x va ha hwa (by rw [← ai]; exact h) hva
  have hnb : ∀ x, b'.isNum I C x = true → vb = x := fun x h =>
    isNum_sound I C A.eqv_sound b.vars _ b x vb hb hwb (by rw [← bi]; exact h) hvb
  unfold DeepEx.pow
  rw [hu]
  simp only []
  by_cases h0 : (a'.isZero I C && b'.isZero I C) = true
  · rw [if_pos h0]
    exact Or.inl rfl
  · rw [if_neg h0]
    refine Or.inr ?_
    by_cases h1 : a'.isZero I C = true
    · rw [if_pos h1, zeroLike_eq, av]
      apply yields_lit
      rw [hna _ h1, hzb]
    · rw [if_neg h1]
      by_cases h2 : b'.isZero I C = true
      · rw [if_pos h2, oneLike_eq, av]
        apply yields_lit
        rw [hnb _ h2, hze]
      · rw [if_neg h2]
        by_cases h3 : b'.isOne I C = true
        · rw [if_pos h3]
          exact yields_operand I a' _ ρ va _ av an aA aw ae (by rw [hnb _ h3, hoe])
        · rw [if_neg h3]
          exact yields_bin I t a' b' _ ρ _ A.pow A.hpow (A.assoc A.pow (by simp)) av bv an bn aA bA hnd huu
            va vb ae be

/-- `a - b` has no shortcut -/
theorem sub_sound (a b : DeepEx α) (ha : Named a.vars a) (hb : Named b.vars b)
    (hnda : a.vars.Nodup) (hndb : b.vars.Nodup) (hAa : a.Assoc I) (hAb : b.Assoc I) (ρ : Str → α)
    (va vb : α) (hva : a.evalRelaxed I (a.vars.map ρ) = .ok va) (hvb : b.evalRelaxed I (b.vars.map ρ) = .ok vb) :
    Yields I (a.sub I t b) (unionVars a.vars b.vars) ρ (I.bin A.sub.idx va vb) := by
  obtain ⟨r, va', vb', h1, h2, h3, h4, h5, h6, h7⟩ := operateBin_sound I t a b "-".toList A.sub A.hsub
    (A.assoc A.sub (by simp)) ha hb hnda hndb hAa hAb ρ
  rw [hva] at h5
  rw [hvb] at h6
  cases h5
  cases h6
  rw [h2] at h7
  exact ⟨r, h1, h2, h3, h4, operateBin_wrapOK I t a b r _ h1, h7⟩

/-- `operate_unary`, in the same form. The operand must satisfy the hereditary invariant
    `Shortcut.Folded` (`WrapOK a` alone does not make the result `WrapOK`, see ShortcutCex) -/
theorem operateUnary_yields (a : DeepEx α) (repr : Str) (u : Nat) (hu : findUnaryOp t repr = .ok u)
    (ha : Named a.vars a) (hAa : a.Assoc I) (hfa : Folded a) (ρ : Str → α)
    (va : α) (hva : a.evalRelaxed I (a.vars.map ρ) = .ok va) :
    Yields I (a.operateUnary I t repr) a.vars ρ (I.un u va) := by
  obtain ⟨r, va', h1, h2, h3, h4, h5, h6⟩ := operateUnary_sound I t a repr u hu ha hAa ρ
  rw [hva] at h5
  cases h5
  rw [h2] at h6
  exact ⟨r, h1, h2, h3, h4, operateUnary_wrapOK I t a r repr h1 hfa, h6⟩

/-- unary minus: `-a` is `operate_unary("-")` -/
theorem neg_sound (a : DeepEx α) (u : Nat) (hu : findUnaryOp t "-".toList = .ok u)
    (ha : Named a.vars a) (hAa : a.Assoc I) (hfa : Folded a) (ρ : Str → α)
    (va : α) (hva : a.evalRelaxed I (a.vars.map ρ) = .ok va) :
    Yields I (a.neg I t) a.vars ρ (I.un u va) :=
  operateUnary_yields I t a _ u hu ha hAa hfa ρ va hva

end Exmex.C10
