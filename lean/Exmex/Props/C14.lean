/-
  C14 — Operands are tracked correctly for every application order and size.

  For *every* duplicate-free order of the operators of a chain, of any length, the in-place
  `eval_binary` with the bit trackers of number_tracker.rs (one word up to 64 operands, several
  words beyond) computes what the specification `reduceByOrder` says: each operator is applied
  to the results standing immediately left and right of it at that moment.
-/
import Exmex.Proofs.EvalOrder
import Exmex.Proofs.TrackerRefine
import Exmex.Proofs.FlattenDefs
namespace Exmex.C14

theorem evalBinaryStep_congr {α τ} (T : TrackerOps τ) (dflt : α) (ap ap' : Nat → α → α → Option α)
    (st : List α × τ) (idx : Nat) (h : ∀ a b, ap idx a b = ap' idx a b) :
    evalBinaryStep T dflt ap st idx = evalBinaryStep T dflt ap' st idx := by
  unfold evalBinaryStep
  simp only [h]

theorem evalBinaryLoop_congr {α τ} (T : TrackerOps τ) (dflt : α) (ap ap' : Nat → α → α → Option α)
    (π : List Nat) (h : ∀ k ∈ π, ∀ a b, ap k a b = ap' k a b) (st : List α × τ) :
    evalBinaryLoop T dflt ap π st = evalBinaryLoop T dflt ap' π st := by
  induction π generalizing st with
  | nil => rfl
  | cons k ks ih =>
    unfold evalBinaryLoop
    rw [evalBinaryStep_congr T dflt ap ap' st k (h k (by simp))]
    cases evalBinaryStep T dflt ap' st k with
    | error e => rfl
    | ok st' => exact ih (fun k' hk' => h k' (by simp [hk'])) st'

theorem evalBinary_congr {α τ} (T : TrackerOps τ) (dflt : α) (ap ap' : Nat → α → α → Option α)
    (numbers : List α) (π : List Nat) (t0 : τ) (h : ∀ k ∈ π, ∀ a b, ap k a b = ap' k a b) :
    evalBinary T dflt ap numbers π t0 = evalBinary T dflt ap' numbers π t0 := by
  unfold evalBinary
  rw [evalBinaryLoop_congr T dflt ap ap' π h]

/-- **Any order, one word** (at most 64 operands): `eval_binary` over a `usize` tracker. -/
theorem evalBinary_word_any_order {α} (dflt : α) (apply : Nat → α → α → α)
    (numbers : List α) (π : List Nat) (hπ : ValidOrder π (numbers.length - 1))
    (hne : numbers ≠ []) (h64 : numbers.length ≤ 64) :
    ∃ v, reduceByOrder apply numbers π = some v ∧
      evalBinary wordTracker dflt (fun k a b => some (apply k a b)) numbers π (0#64) = .ok v := by
  obtain ⟨v, hv, he⟩ := evalBinary_flags_eq_reduceByOrder dflt apply numbers π hπ hne
  refine ⟨v, hv, ?_⟩
  rw [evalBinary_refines wordTracker WordRel wordRefines dflt apply numbers π hπ hne (0#64)
    (wordRel_init numbers.length h64)]
  exact he

/-- **Any order, several words** (any number of operands, across the 64/128/… boundaries):
    `eval_binary` over a `[usize]` tracker of `1 + n/64` words. -/
theorem evalBinary_words_any_order {α} (dflt : α) (apply : Nat → α → α → α)
    (numbers : List α) (π : List Nat) (hπ : ValidOrder π (numbers.length - 1))
    (hne : numbers ≠ []) :
    ∃ v, reduceByOrder apply numbers π = some v ∧
      evalBinary wordsTracker dflt (fun k a b => some (apply k a b)) numbers π
        (List.replicate (1 + numbers.length / 64) (0#64)) = .ok v := by
  obtain ⟨v, hv, he⟩ := evalBinary_flags_eq_reduceByOrder dflt apply numbers π hπ hne
  refine ⟨v, hv, ?_⟩
  rw [evalBinary_refines wordsTracker WordsRel wordsRefines dflt apply numbers π hπ hne _
    (wordsRel_init numbers.length)]
  exact he

/-- **`eval_numbers`** (the tracker selection of flat.rs: one word iff at most 64 operands)
    computes `reduceByOrder` for every legal order and every size; never a panic, and the
    placeholder left by `mem::take` (`I.dflt`) never reaches the result. -/
theorem evalNumbers_any_order {α} (I : Interp α) (numbers : List α) (ops : List FlatOp)
    (π : List Nat) (hlen : numbers.length = ops.length + 1) (hπ : ValidOrder π ops.length) :
    ∃ v, reduceByOrder (flatApplyT I ops) numbers π = some v ∧
      evalNumbers I numbers ops π = .ok v := by
  have hne : numbers ≠ [] := by
    intro h; rw [h] at hlen; simp at hlen
  have hπ' : ValidOrder π (numbers.length - 1) := by
    rw [hlen]; simpa using hπ
  have hcongr : ∀ k ∈ π, ∀ a b, flatApply I ops k a b = (fun k a b => some (flatApplyT I ops k a b)) k a b := by
    intro k hk a b
    have hk' : k < ops.length := hπ.lt k hk
    simp [flatApply, flatApplyT, List.getElem?_eq_getElem hk']
  unfold evalNumbers
  split
  · next h64 =>
    obtain ⟨v, hv, he⟩ := evalBinary_word_any_order I.dflt (flatApplyT I ops) numbers π hπ' hne h64
    exact ⟨v, hv, by rw [evalBinary_congr _ _ _ _ _ _ _ hcongr]; exact he⟩
  · obtain ⟨v, hv, he⟩ := evalBinary_words_any_order I.dflt (flatApplyT I ops) numbers π hπ' hne
    exact ⟨v, hv, by rw [evalBinary_congr _ _ _ _ _ _ _ hcongr]; exact he⟩

/-- non-vacuity: a legal order exists for every chain length (e.g. right-to-left) -/
example : ValidOrder [2, 0, 1] 3 := ⟨by decide, by decide⟩

/-- a concrete instance: `a - b - c - d` applied in the order 2, 0, 1 -/
example : reduceByOrder (fun _ a b => a - b) [10, 4, 3, (1 : Int)] [2, 0, 1] = some ((10 - 4) - (3 - 1)) := by
  decide

end Exmex.C14
