/-
  C03, operator listings: both forms report SORTED, DUPLICATE-FREE listings (binary, unary, all
  operators) that contain NOTHING ABSENT FROM THE TEXT — for every flat / deep expression and every
  accepted text.  (That they contain every operator applied to a variable-dependent operand is judged
  at run time against the documented value.)
-/
import Exmex.Props.Reach
import Exmex.Props.C04
import Exmex.Proofs.Listing
namespace Exmex.C03

/-- strictly increasing in the string order: sorted and duplicate-free -/
def StrictlySorted (l : List Str) : Prop := l.Pairwise (fun a b => strLt a b = true)

theorem flat_listings_sorted {α} (t : Table) (f : FlatEx α) :
    StrictlySorted (f.binaryReprs t) ∧ StrictlySorted (f.unaryReprs t) ∧ StrictlySorted (f.operatorReprs t) := by
  exact ⟨ParseAssembly.sortDedup_strict _, ParseAssembly.sortDedup_strict _,
    ParseAssembly.sortDedup_strict _⟩

theorem deep_listings_sorted {α} (t : Table) (d : DeepEx α) :
    StrictlySorted (d.binaryReprs t) ∧ StrictlySorted (d.unaryReprs t) ∧ StrictlySorted (d.operatorReprs t) := by
  exact ⟨ParseAssembly.sortDedup_strict _, ParseAssembly.sortDedup_strict _,
    ParseAssembly.sortDedup_strict _⟩

/-- the operator tokens of a token list, by name -/
def opNames {α} (t : Table) (toks : List (Tok α)) : List Str :=
  toks.filterMap (fun tk => match tk with | .op k => some (reprOf t k) | _ => none)

theorem mem_opNames {α} (t : Table) (toks : List (Tok α)) (k : Nat) (h : Tok.op k ∈ toks) :
    reprOf t k ∈ opNames t toks :=
  List.mem_filterMap.2 ⟨Tok.op k, h, rfl⟩

/-- nothing absent from the text (flat, folded or unfolded, any accepted text) -/
theorem flat_listings_from_text {α} (I : Interp α) (t : Table) (lm : Str → Option Nat) (text : Str)
    (toks : List (Tok α)) (htok : tokenize I t lm text = .ok toks) (f : FlatEx α)
    (h : Flat.parse I t lm text = .ok f ∨ Flat.parseWoCompile I t lm text = .ok f) :
    (∀ n ∈ f.binaryReprs t, n ∈ opNames t toks) ∧ (∀ n ∈ f.unaryReprs t, n ∈ opNames t toks) ∧
      (∀ n ∈ f.operatorReprs t, n ∈ opNames t toks) := by
  -- the unfolded expression stores operator tokens only; folding only removes
  have key : ∀ g : FlatEx α, Listing.Good toks g.nodes g.ops →
      (∀ n ∈ g.binaryReprs t, n ∈ opNames t toks) ∧ (∀ n ∈ g.unaryReprs t, n ∈ opNames t toks) ∧
        (∀ n ∈ g.operatorReprs t, n ∈ opNames t toks) := by
    intro g hg
    have hb : ∀ n ∈ g.ops.map (fun o => reprOf t o.idx), n ∈ opNames t toks := by
      intro n hn
      obtain ⟨o, ho, rfl⟩ := List.mem_map.1 hn
      exact mem_opNames t toks _ (hg.bin o ho)
    have hu : ∀ n ∈ (g.ops.flatMap (·.un) ++ g.nodes.flatMap (·.un)).map (reprOf t),
        n ∈ opNames t toks := by
      intro n hn
      obtain ⟨u, hu, rfl⟩ := List.mem_map.1 hn
      rcases List.mem_append.1 hu with h1 | h1
      · obtain ⟨o, ho, hu'⟩ := List.mem_flatMap.1 h1
        exact mem_opNames t toks _ (hg.opun o ho u hu')
      · obtain ⟨m, hm, hu'⟩ := List.mem_flatMap.1 h1
        exact mem_opNames t toks _ (hg.ndun m hm u hu')
    refine ⟨?_, ?_, ?_⟩
    · intro n hn
      exact hb n ((C01Assembly.mem_sortDedup n _).1 hn)
    · intro n hn
      exact hu n ((C01Assembly.mem_sortDedup n _).1 hn)
    · intro n hn
      rcases List.mem_append.1 ((C01Assembly.mem_sortDedup n _).1 hn) with h1 | h1
      · exact hb n h1
      · exact hu n h1
  rcases h with h | h
  · unfold Flat.parse at h
    cases hw : Flat.parseWoCompile I t lm text with
    | error e => rw [hw] at h; cases h
    | ok w =>
      rw [hw] at h
      have gw := Listing.parseWoCompile_good I t lm text toks htok w hw
      obtain ⟨c1, c2⟩ := Listing.compile_from I w f h
      refine key f ⟨fun o ho => gw.bin o (c1 o ho), fun o ho => gw.opun o (c1 o ho), ?_⟩
      intro m hm u hu
      obtain ⟨m', hm', hu'⟩ := c2 m hm u hu
      exact gw.ndun m' hm' u hu'
  · exact key f (Listing.parseWoCompile_good I t lm text toks htok f h)

/-- nothing absent from the text (deep, any accepted text) -/
theorem deep_listings_from_text {α} (I : Interp α) (t : Table) (lm : Str → Option Nat) (text : Str)
    (toks : List (Tok α)) (htok : tokenize I t lm text = .ok toks) (d : DeepEx α)
    (h : Deep.parse I t lm text = .ok d) :
    (∀ n ∈ d.binaryReprs t, n ∈ opNames t toks) ∧ (∀ n ∈ d.unaryReprs t, n ∈ opNames t toks) ∧
      (∀ n ∈ d.operatorReprs t, n ∈ opNames t toks) := by
  obtain ⟨g1, g2⟩ := Listing.deepParse_good I t lm text toks htok d h
  have hb : ∀ n ∈ d.binaryReprs t, n ∈ opNames t toks := by
    intro n hn
    obtain ⟨k, hk, rfl⟩ := List.mem_map.1 ((C01Assembly.mem_sortDedup n _).1 hn)
    exact mem_opNames t toks _ (g1 k hk)
  have hu : ∀ n ∈ d.unaryReprs t, n ∈ opNames t toks := by
    intro n hn
    obtain ⟨k, hk, rfl⟩ := List.mem_map.1 ((C01Assembly.mem_sortDedup n _).1 hn)
    exact mem_opNames t toks _ (g2 k hk)
  refine ⟨hb, hu, ?_⟩
  intro n hn
  rcases List.mem_append.1 ((C01Assembly.mem_sortDedup n _).1 hn) with h1 | h1
  · exact hb n h1
  · exact hu n h1

/-- folding only removes operators: the folded flat expression lists a subset of the unfolded one's -/
theorem flat_folded_listing_subset {α} (I : Interp α) (t : Table) (lm : Str → Option Nat) (text : Str)
    (f w : FlatEx α) (hf : Flat.parse I t lm text = .ok f) (hw : Flat.parseWoCompile I t lm text = .ok w) :
    (∀ n ∈ f.binaryReprs t, n ∈ w.binaryReprs t) ∧ (∀ n ∈ f.unaryReprs t, n ∈ w.unaryReprs t) := by
  unfold Flat.parse at hf
  rw [hw] at hf
  obtain ⟨c1, c2⟩ := Listing.compile_from I w f hf
  refine ⟨?_, ?_⟩
  · intro n hn
    obtain ⟨o, ho, rfl⟩ := List.mem_map.1 ((C01Assembly.mem_sortDedup n _).1 hn)
    exact (C01Assembly.mem_sortDedup _ _).2 (List.mem_map.2 ⟨o, c1 o ho, rfl⟩)
  · intro n hn
    obtain ⟨u, hu, rfl⟩ := List.mem_map.1 ((C01Assembly.mem_sortDedup n _).1 hn)
    refine (C01Assembly.mem_sortDedup _ _).2 (List.mem_map.2 ⟨u, ?_, rfl⟩)
    rcases List.mem_append.1 hu with h1 | h1
    · obtain ⟨o, ho, hu'⟩ := List.mem_flatMap.1 h1
      exact List.mem_append_left _ (List.mem_flatMap.2 ⟨o, c1 o ho, hu'⟩)
    · obtain ⟨m, hm, hu'⟩ := List.mem_flatMap.1 h1
      obtain ⟨m', hm', hu''⟩ := c2 m hm u hu'
      exact List.mem_append_right _ (List.mem_flatMap.2 ⟨m', hm', hu''⟩)

end Exmex.C03
