/-
  C07, first clause, for ALL texts: a text whose parentheses (outside `{...}`, at token starts) do
  not balance is rejected by every parser — whatever the comma rewriting of call notation does.

  HISTORY / FINDING. As originally stated (hypothesis `CleanTokens` only) the claim was FALSE for
  the modelled parser, in three independent ways:

  1. (REPAIRED in the crate and in the model) the comma rewrite `op(a,b)` ↦ `((a)op(b))` REPAIRED
     unmatched closing parentheses: `find_op_of_comma` takes the last operator whose token suffix
     has paren balance 1, whether or not that suffix is a well-nested call, and replaces the
     operator by `(`.
       * `1+max 1)*((1,2)`              ↦ `1+(1)*((1)max(2))`              was accepted, value 3
       * `max(max 1)))*max(1,(2,(3,4))` ↦ `(((1)))*((1)max((2)max((3)max(4))))` was accepted, value 4
     The tokenizer now records an unmatched `)` (`LexSt.dipped`, `unmatched_closing_paren`) and
     rejects every later comma; both texts are rejected (`Exmex/Proofs/BalanceCex.lean`:
     `repaired₁`, `repaired₂`), and the former extra hypothesis `CommasBeforeDip` is gone.
  2. a literal matcher that matches the empty string yields a token of length 0, after which the
     tokenizer loop never reaches a token start again: the rest of the text is ignored
     (`1+?)))` is accepted when `?)))` "starts with" an empty literal).
  3. an operator with an empty name does the same.

  What is true, and proved here: with non-empty tokens (`NonemptyTokens`, excluding 2 and 3) an
  unbalanced text is rejected by every parser. The argument: while the source depth has never been
  negative the invariant `Balance.Inv` holds (`dipped` unset, token total = depth + owed); at the
  first unmatched `)` the flag `dipped` is set and the token total is −1; afterwards a comma is an
  error and every other step only appends tokens, so `parenBalance` fails (`loop_tracks`,
  `dipped_iff`). Corollaries: `too_many_open_rejected`, `unbalanced_commafree_rejected`.
-/
import Exmex.Props.C07
import Exmex.Proofs.Balance
import Exmex.Proofs.LexLemmas
namespace Exmex.C07
open Exmex.Balance

/-- running depth of the parentheses of a text, independent of the tokenizer: characters inside
    `{...}` do not count; `none` as soon as the depth would become negative -/
def srcDepth : Str → Bool → Int → Option Int
  | [], _, d => some d
  | c :: cs, true, d => if c == '}' then srcDepth cs false d else srcDepth cs true d
  | c :: cs, false, d =>
    if c == '{' then srcDepth cs true d
    else if c == '(' then srcDepth cs false (d + 1)
    else if c == ')' then (if d - 1 < 0 then none else srcDepth cs false (d - 1))
    else srcDepth cs false d

/-- the parentheses of the text balance -/
def Balanced (text : Str) : Prop := srcDepth text false 0 = some 0

def parenChar (c : Char) : Bool := c == '(' || c == ')' || c == '{' || c == '}'

/-- tokens other than parentheses and braced variables contain no parenthesis or brace:
    operator names, and whatever the literal matcher covers -/
structure CleanTokens (t : Table) (lm : Str → Option Nat) : Prop where
  ops : ∀ o ∈ t, ∀ c ∈ o.repr, parenChar c = false
  lits : ∀ s n, lm s = some n → ∀ c ∈ s.take n, parenChar c = false

/-- ADDED hypothesis: operator names are non-empty and the literal matcher never matches the
    empty string. (A token of length 0 makes the tokenizer ignore the rest of the text.) -/
structure NonemptyTokens (t : Table) (lm : Str → Option Nat) : Prop where
  ops : ∀ o ∈ t, o.repr ≠ []
  lits : ∀ s n, lm s = some n → 0 < n

/-- HISTORY: against the tokenizer before the repair the theorems below needed this extra
    hypothesis (no comma after the first unmatched closing parenthesis, i.e. after a prefix at
    which the depth has become negative; later commas could repair the token balance). It is no
    longer used: the repaired tokenizer rejects such a comma. -/
def CommasBeforeDip (text : Str) : Prop :=
  ∀ pre suf, text = pre ++ suf → srcDepth pre false 0 = none → ',' ∉ suf

/-! ### characters covered by tokens -/

theorem identCont_clean (c : Char) (h : isIdentCont c = true) : parenChar c = false := by
  cases hp : parenChar c with
  | false => rfl
  | true =>
    simp only [parenChar, Bool.or_eq_true, beq_iff_eq] at hp
    rcases hp with ((rfl | rfl) | rfl) | rfl <;> revert h <;> decide

theorem mem_takeWhile_imp {p : Char → Bool} : ∀ (l : Str) (x : Char), x ∈ l.takeWhile p → p x = true
  | [], x, hx => by simp at hx
  | a :: as, x, hx => by
    simp only [List.takeWhile_cons] at hx
    split at hx
    · rcases List.mem_cons.mp hx with rfl | h
      · assumption
      · exact mem_takeWhile_imp as x h
    · simp at hx

theorem take_length_takeWhile (p : Char → Bool) (l : Str) : l.take (l.takeWhile p).length = l.takeWhile p :=
  (List.prefix_iff_eq_take.mp (List.takeWhile_prefix p)).symm

theorem findOps_mem {t : Table} {rest : Str} {idx : Nat} {o : OpSpec} (h : findOps t rest = some (idx, o)) :
    o ∈ t ∧ rest.take o.repr.length = o.repr := by
  rw [findOps_eq] at h
  have hm := List.mem_of_find?_eq_some h
  have hp := List.find?_some h
  rw [mem_sortedOps] at hm
  refine ⟨List.mem_of_getElem? hm, ?_⟩
  rw [opMatches_iff] at hp
  have := List.isPrefixOf_iff_prefix.mp hp.1
  exact (List.prefix_iff_eq_take.mp this).symm

variable {α : Type} {I : Interp α} {t : Table} {lm : Str → Option Nat}

theorem plain_clean (hc : CleanTokens t lm) {rest : Str} {n : Nat} (h : Plain I t lm rest n) :
    ∀ x ∈ rest.take n, parenChar x = false := by
  cases h with
  | lit h => exact hc.lits _ _ h
  | op idx o h hn =>
    obtain ⟨hm, ht⟩ := findOps_mem h
    rw [hn, ht]
    exact hc.ops o hm
  | ident h =>
    cases rest with
    | nil => simp [identPrefixLen] at h
    | cons c cs =>
      simp only [identPrefixLen] at h
      split at h
      · rename_i hs
        simp at h
        subst h
        have : 1 + (cs.takeWhile isIdentCont).length = (cs.takeWhile isIdentCont).length + 1 := by omega
        rw [this, List.take_succ_cons, take_length_takeWhile]
        intro x hx
        rcases List.mem_cons.mp hx with rfl | hx
        · exact identCont_clean _ (by simp [isIdentCont, hs])
        · exact identCont_clean _ (mem_takeWhile_imp _ _ hx)
      · cases h

theorem plain_pos (hp : NonemptyTokens t lm) {rest : Str} {n : Nat} (h : Plain I t lm rest n) : 1 ≤ n := by
  cases h with
  | lit h => exact hp.lits _ _ h
  | op idx o h hn =>
    obtain ⟨hm, -⟩ := findOps_mem h
    have := hp.ops o hm
    have : o.repr.length ≠ 0 := fun e => this (List.eq_nil_of_length_eq_zero e)
    omega
  | ident h =>
    cases rest with
    | nil => simp [identPrefixLen] at h
    | cons c cs =>
      simp only [identPrefixLen] at h
      split at h
      · simp at h; omega
      · cases h

/-! ### the text scan against the tokenizer loop -/

/-- what the `skip` counter of the tokenizer loop covers: inside a braced variable it reaches
    exactly to the closing brace (or beyond the end of the text); otherwise it covers characters
    that are neither parentheses nor braces -/
def SkipOK : Str → Nat → Bool → Prop
  | text, skip, true => skip = (text.takeWhile (· != '}')).length + 1
  | text, skip, false => ∀ x ∈ text.take skip, parenChar x = false

theorem step_clean {c : Char} (hc : parenChar c = false) (d : Int) :
    ∀ X, srcDepth (c :: X) false d = srcDepth X false d := by
  intro X
  simp only [parenChar, Bool.or_eq_false_iff] at hc
  obtain ⟨⟨⟨h1, h2⟩, h3⟩, -⟩ := hc
  simp [srcDepth, h1, h2, h3]

/-- the final tokenizer state against the result `r` of the source scan: if the depth has never
    been negative the invariant `Inv` holds (in particular `dipped` is unset) and the depths agree;
    if it has, `dipped` is set and the tokens fail the balance check -/
def Tracks (r : Option Int) (st' : LexSt α) : Prop :=
  match r with
  | some d => Inv st' ∧ st'.depth = d ∧ 0 ≤ d
  | none => st'.dipped = true ∧ parenBalance st'.res 0 ≠ some 0

/-- the tokenizer loop follows the source scan: as long as the source depth has not been negative
    the invariant holds; at the first unmatched `)` the flag `dipped` is set and the token total
    is −1; afterwards a comma is an error and every other step only appends tokens -/
theorem loop_tracks (hc : CleanTokens t lm) (hp : NonemptyTokens t lm) :
    ∀ (text : Str) (skip : Nat) (st : LexSt α) (b : Bool) (st' : LexSt α),
      Inv st → 0 ≤ st.depth → SkipOK text skip b →
      lexLoop I t lm text skip st = .ok st' → Tracks (srcDepth text b st.depth) st'
  | [], _, st, b, st', inv, hd, _, h => by
    simp [lexLoop] at h
    subst h
    cases b <;> exact ⟨inv, rfl, hd⟩
  | c :: cs, skip + 1, st, true, st', inv, hd, hsk, h => by
    simp only [lexLoop] at h
    simp only [SkipOK] at hsk
    by_cases hcb : c = '}'
    · subst hcb
      have hstep : ∀ X, srcDepth ('}' :: X) true st.depth = srcDepth X false st.depth := by
        intro X; simp [srcDepth]
      have hs0 : skip = 0 := by simpa using hsk
      subst hs0
      rw [hstep]
      exact loop_tracks hc hp cs 0 st false st' inv hd (by simp [SkipOK]) h
    · have hstep : ∀ X, srcDepth (c :: X) true st.depth = srcDepth X true st.depth := by
        intro X; simp [srcDepth, hcb]
      have hne' : (c != '}') = true := by simpa using hcb
      have hs' : skip = (cs.takeWhile (· != '}')).length + 1 := by
        simpa [List.takeWhile_cons, hne'] using hsk
      rw [hstep]
      exact loop_tracks hc hp cs skip st true st' inv hd hs' h
  | c :: cs, skip + 1, st, false, st', inv, hd, hsk, h => by
    simp only [lexLoop] at h
    simp only [SkipOK] at hsk
    have hcc : parenChar c = false := hsk c (by simp)
    rw [step_clean hcc st.depth]
    refine loop_tracks hc hp cs skip st false st' inv hd ?_ h
    intro x hx
    exact hsk x (by simp [hx])
  | c :: cs, 0, st, true, st', _, _, hsk, _ => by
    simp [SkipOK] at hsk
  | c :: cs, 0, st, false, st', inv, hd, _, h => by
    simp only [lexLoop] at h
    split at h
    · rename_i hsp
      have hsp := eq_of_beq hsp
      subst hsp
      rw [step_clean (by decide) st.depth]
      exact loop_tracks hc hp cs 0 st false st' inv hd (by simp [SkipOK]) h
    · split at h
      · cases h
      · rename_i n st1 hs
        have close : c = ')' → n = 1 → st1.depth = st.depth - 1 →
            Tracks (srcDepth (c :: cs) false st.depth) st' := by
          intro hc1 hn hD
          subst hc1 hn
          simp only [Nat.succ_ne_zero, if_false, Nat.sub_self] at h
          by_cases hdip : st.depth = 0
          · -- the first unmatched `)`: `dipped` is set, the token total is negative
            obtain ⟨-, hneg, hdp⟩ := lexStep_dip I t lm cs st st1 1 hs inv hdip
            have hsrc : srcDepth (')' :: cs) false st.depth = none := by simp [srcDepth, hdip]
            rw [hsrc]
            exact ⟨(lexLoop_dipped_append I t lm cs 0 st1 st' hdp h).1,
              lexLoop_dipped_unbalanced I t lm cs 0 st1 st' hdp hneg h⟩
          · have hstep : ∀ X, srcDepth (')' :: X) false st.depth = srcDepth X false st1.depth := by
              intro X
              have : ¬ (st.depth - 1 < 0) := by omega
              simp [srcDepth, hD, this]
            have hd1 : 0 ≤ st1.depth := by omega
            rw [hstep]
            exact loop_tracks hc hp cs 0 st1 false st' (lexStep_inv I t lm _ cs st st1 1 hs inv hd1)
              hd1 (by simp [SkipOK]) h
        rcases lexStep_cases I t lm c cs st st1 n hs with
          ⟨hc1, hn, -, -, hD⟩ | ⟨hc1, hn, -, -, -, hD⟩ | ⟨hc1, hn, -, -, -, hD⟩ |
          ⟨hc1, hn, -, -, -, -, -, -, -, hD⟩ | ⟨hc1, hn, name, -, -, hD⟩ |
          ⟨hc1, hc2, hc3, hc4, hpl, tk, -, -, -, hD⟩
        · -- `(`
          subst hc1 hn
          have hstep : ∀ X, srcDepth ('(' :: X) false st.depth = srcDepth X false st1.depth := by
            intro X; simp [srcDepth, hD]
          have hd1 : 0 ≤ st1.depth := by omega
          simp only [Nat.succ_ne_zero, if_false, Nat.sub_self] at h
          rw [hstep]
          exact loop_tracks hc hp cs 0 st1 false st' (lexStep_inv I t lm _ cs st st1 1 hs inv hd1)
            hd1 (by simp [SkipOK]) h
        · exact close hc1 hn hD
        · exact close hc1 hn hD
        · -- `,`
          subst hc1 hn
          have hstep : ∀ X, srcDepth (',' :: X) false st.depth = srcDepth X false st1.depth := by
            intro X; rw [hD]; exact step_clean (by decide) _ X
          have hd1 : 0 ≤ st1.depth := by omega
          simp only [Nat.succ_ne_zero, if_false, Nat.sub_self] at h
          rw [hstep]
          exact loop_tracks hc hp cs 0 st1 false st' (lexStep_inv I t lm _ cs st st1 1 hs inv hd1)
            hd1 (by simp [SkipOK]) h
        · -- `{`
          subst hc1
          have hstep : ∀ X, srcDepth ('{' :: X) false st.depth = srcDepth X true st1.depth := by
            intro X; simp [srcDepth, hD]
          have hd1 : 0 ≤ st1.depth := by omega
          have hk : n - 1 = (cs.takeWhile (· != '}')).length + 1 := by
            have : (('{' :: cs).takeWhile (· != '}')).length = (cs.takeWhile (· != '}')).length + 1 := by
              simp
            omega
          rw [if_neg (by omega)] at h
          rw [hstep]
          exact loop_tracks hc hp cs (n - 1) st1 true st' (lexStep_inv I t lm _ cs st st1 n hs inv hd1)
            hd1 hk h
        · -- literal, operator, identifier
          have hpos := plain_pos hp hpl
          have hcl := plain_clean hc hpl
          obtain ⟨m, rfl⟩ : ∃ m, n = m + 1 := ⟨n - 1, by omega⟩
          rw [List.take_succ_cons] at hcl
          have hstep : ∀ X, srcDepth (c :: X) false st.depth = srcDepth X false st1.depth := by
            intro X; rw [hD]; exact step_clean (hcl c (by simp)) _ X
          have hd1 : 0 ≤ st1.depth := by omega
          rw [if_neg (by omega)] at h
          rw [hstep]
          refine loop_tracks hc hp cs (m + 1 - 1) st1 false st'
            (lexStep_inv I t lm _ cs st st1 _ hs inv hd1) hd1 ?_ h
          intro x hx
          exact hcl x (by simp at hx; simp [hx])

/-- the tokens of an unbalanced text fail the balance check (if the tokenizer succeeds at all) -/
theorem loop_rejects (hc : CleanTokens t lm) (hp : NonemptyTokens t lm)
    (text : Str) (st' : LexSt α) (hne : ¬ Balanced text)
    (h : lexLoop I t lm text 0 {} = .ok st') : parenBalance st'.res 0 ≠ some 0 := by
  have htr := loop_tracks hc hp text 0 {} false st' Inv_init (Int.le_refl 0) (by simp [SkipOK]) h
  have e0 : ({} : LexSt α).depth = 0 := rfl
  rw [e0] at htr
  cases hs : srcDepth text false 0 with
  | none => rw [hs] at htr; exact htr.2
  | some d =>
    rw [hs] at htr
    obtain ⟨inv, hD, hd⟩ := htr
    have hd0 : d ≠ 0 := fun e => hne (by rw [Balanced, hs, e])
    apply not_balanced_of_sum
    rw [inv.exc]
    omega

/-- **the flag `dipped` of the tokenizer is exactly "the source depth has been negative"**
    (at the end of the text; by `srcDepth_none_append` below also at every earlier point) -/
theorem dipped_iff (hc : CleanTokens t lm) (hp : NonemptyTokens t lm)
    (text : Str) (st' : LexSt α) (h : lexLoop I t lm text 0 {} = .ok st') :
    st'.dipped = true ↔ srcDepth text false 0 = none := by
  have htr := loop_tracks hc hp text 0 {} false st' Inv_init (Int.le_refl 0) (by simp [SkipOK]) h
  have e0 : ({} : LexSt α).depth = 0 := rfl
  rw [e0] at htr
  cases hs : srcDepth text false 0 with
  | none => rw [hs] at htr; exact ⟨fun _ => rfl, fun _ => htr.1⟩
  | some d =>
    rw [hs] at htr
    have := htr.1.nd
    constructor
    · intro hd; rw [this] at hd; cases hd
    · intro hn; cases hn

/-! ### the theorems -/

/-- an unbalanced text is rejected by the common front end of all parsers -/
theorem unbalanced_frontEnd (I : Interp α) (t : Table) (lm : Str → Option Nat)
    (hc : CleanTokens t lm) (hp : NonemptyTokens t lm) (text : Str) (hb : ¬ Balanced text) :
    ∃ e, frontEnd I t lm text = .error e := by
  unfold frontEnd tokenize
  cases hl : lexLoop I t lm text 0 {} with
  | error e => exact ⟨e, rfl⟩
  | ok st' =>
    have hnb : parenBalance st'.res 0 ≠ some 0 := loop_rejects hc hp text st' hb hl
    obtain ⟨k, hk⟩ := unbalanced_rejected t st'.res hnb
    exact ⟨.err k, by simp [hk]⟩

/-- **C07 (unbalanced parentheses).** every parser rejects a text that is not balanced.

    CHANGED w.r.t. the original statement, which is false (see the head of this file and
    `Exmex/Proofs/BalanceCex.lean`): added hypothesis `hp` (no tokens of length 0). The former
    hypothesis `CommasBeforeDip` is no longer needed with the repaired tokenizer. -/
theorem unbalanced_text_rejected {α} (I : Interp α) (t : Table) (lm : Str → Option Nat)
    (hc : CleanTokens t lm) (hp : NonemptyTokens t lm) (text : Str) (hb : ¬ Balanced text) :
    (∃ e, Flat.parse I t lm text = .error e) ∧ (∃ e, Flat.parseWoCompile I t lm text = .error e) ∧
      (∃ e, Deep.parse I t lm text = .error e) := by
  obtain ⟨e, he⟩ := unbalanced_frontEnd I t lm hc hp text hb
  obtain ⟨h1, h2⟩ := flat_rejects_frontEnd I t lm text e he
  exact ⟨⟨e, h2⟩, ⟨e, h1⟩, ⟨e, deep_rejects_frontEnd I t lm text e he⟩⟩

/-- equivalently: whatever is accepted is balanced (same added hypothesis) -/
theorem accepted_balanced {α} (I : Interp α) (t : Table) (lm : Str → Option Nat)
    (hc : CleanTokens t lm) (hp : NonemptyTokens t lm) (text : Str)
    (f : FlatEx α) (h : Flat.parse I t lm text = .ok f) :
    Balanced text := by
  apply Classical.byContradiction
  intro hb
  obtain ⟨⟨e, he⟩, -⟩ := unbalanced_text_rejected I t lm hc hp text hb
  rw [h] at he
  cases he

/-! ### special cases (now corollaries) -/

theorem srcDepth_none_append : ∀ (pre suf : Str) (b : Bool) (d : Int),
    srcDepth pre b d = none → srcDepth (pre ++ suf) b d = none
  | [], _, _, _, h => by simp [srcDepth] at h
  | c :: cs, suf, true, d, h => by
    simp only [srcDepth, List.cons_append] at h ⊢
    split
    · rename_i hc; rw [if_pos hc] at h; exact srcDepth_none_append cs suf _ _ h
    · rename_i hc; rw [if_neg hc] at h; exact srcDepth_none_append cs suf _ _ h
  | c :: cs, suf, false, d, h => by
    simp only [srcDepth, List.cons_append] at h ⊢
    split
    · rename_i h1; rw [if_pos h1] at h; exact srcDepth_none_append cs suf _ _ h
    · rename_i h1; rw [if_neg h1] at h
      split
      · rename_i h2; rw [if_pos h2] at h; exact srcDepth_none_append cs suf _ _ h
      · rename_i h2; rw [if_neg h2] at h
        split
        · rename_i h3; rw [if_pos h3] at h
          split
          · rfl
          · rename_i h4; rw [if_neg h4] at h; exact srcDepth_none_append cs suf _ _ h
        · rename_i h3; rw [if_neg h3] at h; exact srcDepth_none_append cs suf _ _ h

/-- more opening than closing parentheses, no unmatched closing one: always rejected -/
theorem too_many_open_rejected {α} (I : Interp α) (t : Table) (lm : Str → Option Nat)
    (hc : CleanTokens t lm) (hp : NonemptyTokens t lm) (text : Str) (d : Int)
    (hd : srcDepth text false 0 = some d) (hd0 : d ≠ 0) :
    (∃ e, Flat.parse I t lm text = .error e) ∧ (∃ e, Flat.parseWoCompile I t lm text = .error e) ∧
      (∃ e, Deep.parse I t lm text = .error e) := by
  refine unbalanced_text_rejected I t lm hc hp text ?_
  intro hb
  rw [Balanced, hd] at hb
  cases hb
  exact hd0 rfl

/-- a text without commas: unbalanced parentheses are always rejected -/
theorem unbalanced_commafree_rejected {α} (I : Interp α) (t : Table) (lm : Str → Option Nat)
    (hc : CleanTokens t lm) (hp : NonemptyTokens t lm) (text : Str) (hb : ¬ Balanced text)
    (_hnc : ',' ∉ text) :
    (∃ e, Flat.parse I t lm text = .error e) ∧ (∃ e, Flat.parseWoCompile I t lm text = .error e) ∧
      (∃ e, Deep.parse I t lm text = .error e) :=
  unbalanced_text_rejected I t lm hc hp text hb

end Exmex.C07
