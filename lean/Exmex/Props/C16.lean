/-
  C16 — Value-typed arithmetic follows the documented typing and error rules.
-/
import Exmex.Model.ValModel
import Exmex.Proofs.ValLemmas
namespace Exmex.C16
open Exmex.ValLemmas

/-- integer with integer stays integer; overflow is an error value, never wrapped -/
theorem int_add {F} (O : FloatOps F) (a b : Int) :
    valBin O "+" (.int a) (.int b) = .ok (if inI32 (a + b) then .int (a + b) else .err) := by
  rw [valBin_add]
  show Except.ok (match chk (a + b) with | some r => Val.int r | Option.none => Val.err) = _
  rw [chk_eq]
  by_cases h : inI32 (a + b) = true
  · rw [if_pos h, if_pos h]
  · rw [if_neg h, if_neg h]
theorem int_sub {F} (O : FloatOps F) (a b : Int) :
    valBin O "-" (.int a) (.int b) = .ok (if inI32 (a - b) then .int (a - b) else .err) := by
  rw [valBin_sub]
  show Except.ok (match chk (a - b) with | some r => Val.int r | Option.none => Val.err) = _
  rw [chk_eq]
  by_cases h : inI32 (a - b) = true
  · rw [if_pos h, if_pos h]
  · rw [if_neg h, if_neg h]
theorem int_mul {F} (O : FloatOps F) (a b : Int) :
    valBin O "*" (.int a) (.int b) = .ok (if inI32 (a * b) then .int (a * b) else .err) := by
  rw [valBin_mul]
  show Except.ok (match chk (a * b) with | some r => Val.int r | Option.none => Val.err) = _
  rw [chk_eq]
  by_cases h : inI32 (a * b) = true
  · rw [if_pos h, if_pos h]
  · rw [if_neg h, if_neg h]
/-- division truncates toward zero; division by zero and `MIN / -1` are errors -/
theorem int_div {F} (O : FloatOps F) (a b : Int) :
    valBin O "/" (.int a) (.int b) =
      .ok (if b = 0 then .err else if inI32 (Int.tdiv a b) then .int (Int.tdiv a b) else .err) := by
  rw [valBin_div]
  by_cases hb : b = 0
  · subst hb; rfl
  · rw [if_neg hb]
    have h1 : vDiv O (.int a) (.int b) = vDivBase O (.int a) (.int b) := by
      unfold vDiv
      split
      · next h => cases h; exact absurd rfl hb
      · rfl
    rw [h1]
    show Except.ok (match checkedDiv a b with | some r => Val.int r | Option.none => Val.err) = _
    have h2 : checkedDiv a b = chk (Int.tdiv a b) := by
      unfold checkedDiv
      rw [if_neg (by simpa using hb)]; rfl
    rw [h2, chk_eq]
    by_cases h : inI32 (Int.tdiv a b) = true
    · rw [if_pos h, if_pos h]
    · rw [if_neg h, if_neg h]
/-- remainder has the sign of the dividend; by zero and `MIN % -1` are errors -/
theorem int_rem {F} (O : FloatOps F) (a b : Int) :
    valBin O "%" (.int a) (.int b) =
      .ok (if b = 0 then .err else if a = I32_MIN ∧ b = -1 then .err else .int (Int.tmod a b)) := by
  rw [valBin_rem]
  show (if b == 0 then Except.ok Val.err else if a == I32_MIN && b == -1 then Except.ok Val.err
    else match remPrim a b with
      | some r => Except.ok (Val.int r)
      | Option.none => Except.error "value.rs:rem a % b") = _
  by_cases hb : b = 0
  · rw [if_pos (by simpa using hb), if_pos hb]
  · rw [if_neg (by simpa using hb), if_neg hb]
    by_cases hm : a = I32_MIN ∧ b = -1
    · rw [if_pos (by simpa using hm), if_pos hm]
    · have hm' : ¬ ((a == I32_MIN && b == -1) = true) := by simpa using hm
      rw [if_neg hm', if_neg hm]
      have : remPrim a b = some (tmod a b) := by
        unfold remPrim; rw [if_neg (by simpa using hb), if_neg hm']
      rw [this]; rfl
theorem int_min_max {F} (O : FloatOps F) (a b : Int) :
    valBin O "min" (.int a) (.int b) = .ok (.int (min a b)) ∧
    valBin O "max" (.int a) (.int b) = .ok (.int (max a b)) := by
  exact ⟨rfl, rfl⟩
/-- shifts by a negative amount or by 32 and more are errors -/
theorem int_shift_range {F} (O : FloatOps F) (a b : Int) (h : b < 0 ∨ 32 ≤ b) :
    valBin O "<<" (.int a) (.int b) = .ok .err ∧ valBin O ">>" (.int a) (.int b) = .ok .err := by
  have hc : ¬ ((decide (0 ≤ b) && decide (b < 32)) = true) := by
    simp only [Bool.and_eq_true, decide_eq_true_eq]; omega
  rw [valBin_shl, valBin_shr]
  constructor
  · show Except.ok (if (decide (0 ≤ b) && decide (b < 32)) = true then Val.int (shl32 a b.toNat) else Val.err) = _
    rw [if_neg hc]
  · show Except.ok (if (decide (0 ≤ b) && decide (b < 32)) = true then Val.int (shr32 a b.toNat) else Val.err) = _
    rw [if_neg hc]
/-- a negative integer exponent is an error; otherwise the exact power or an overflow error -/
theorem int_pow_neg {F} (O : FloatOps F) (a b : Int) (h : b < 0) :
    valBin O "^" (.int a) (.int b) = .ok .err := by
  rw [valBin_pow]
  show Except.ok (if b < 0 then Val.err else _) = _
  rw [if_pos h]

/-- in `+ - * / min max` an integer meeting a float is promoted to float -/
theorem promote_left {F} (O : FloatOps F) (a : Int) (y : F) :
    valBin O "+" (.int a) (.flt y) = .ok (.flt (O.add (O.ofInt a) y)) ∧
    valBin O "-" (.int a) (.flt y) = .ok (.flt (O.sub (O.ofInt a) y)) ∧
    valBin O "*" (.int a) (.flt y) = .ok (.flt (O.mul (O.ofInt a) y)) ∧
    valBin O "/" (.int a) (.flt y) = .ok (.flt (O.div (O.ofInt a) y)) ∧
    valBin O "min" (.int a) (.flt y) = .ok (.flt (O.min (O.ofInt a) y)) ∧
    valBin O "max" (.int a) (.flt y) = .ok (.flt (O.max (O.ofInt a) y)) := by
  exact ⟨rfl, rfl, rfl, rfl, rfl, rfl⟩
theorem promote_right {F} (O : FloatOps F) (x : F) (b : Int) :
    valBin O "+" (.flt x) (.int b) = .ok (.flt (O.add x (O.ofInt b))) ∧
    valBin O "-" (.flt x) (.int b) = .ok (.flt (O.sub x (O.ofInt b))) ∧
    valBin O "*" (.flt x) (.int b) = .ok (.flt (O.mul x (O.ofInt b))) ∧
    (b ≠ 0 → valBin O "/" (.flt x) (.int b) = .ok (.flt (O.div x (O.ofInt b)))) ∧
    valBin O "min" (.flt x) (.int b) = .ok (.flt (O.min x (O.ofInt b))) ∧
    valBin O "max" (.flt x) (.int b) = .ok (.flt (O.max x (O.ofInt b))) := by
  refine ⟨rfl, rfl, rfl, fun hb => ?_, rfl, rfl⟩
  rw [valBin_div]
  unfold vDiv
  split
  · next h => cases h; exact absurd rfl hb
  · rfl

/-- equality compares numbers across int and float … -/
theorem eq_int_float {F} (O : FloatOps F) (a : Int) (y : F) :
    valBin O "==" (.int a) (.flt y) = .ok (.bool (O.eq (O.ofInt a) y)) ∧
    valBin O "==" (.flt y) (.int a) = .ok (.bool (O.eq y (O.ofInt a))) ∧
    valBin O "!=" (.int a) (.flt y) = .ok (.bool (!O.eq (O.ofInt a) y)) := by
  exact ⟨rfl, rfl, rfl⟩
/-- … and is false (true for `!=`) for mismatched kinds, none and errors -/
def numeric {F} : Val F → Bool
  | .int _ => true
  | .flt _ => true
  | _ => false
theorem eq_mismatch {F} (O : FloatOps F) (a b : Val F)
    (h : (numeric a = false ∨ numeric b = false) ∧ ¬ (∃ x y, a = .bool x ∧ b = .bool y)) :
    valBin O "==" a b = .ok (.bool false) ∧ valBin O "!=" a b = .ok (.bool true) := by
  have hv : valEq O a b = false := by
    obtain ⟨h1, h2⟩ := h
    cases a <;> cases b <;> first | rfl | (exact absurd ⟨_, _, rfl, rfl⟩ h2) | (simp [numeric] at h1)
  rw [valBin_eq, valBin_ne, hv]
  exact ⟨rfl, rfl⟩
/-- ordering is false whenever an operand is not a number -/
theorem ord_mismatch {F} (O : FloatOps F) (a b : Val F) (h : numeric a = false ∨ numeric b = false) :
    valBin O "<" a b = .ok (.bool false) ∧ valBin O "<=" a b = .ok (.bool false) ∧
    valBin O ">" a b = .ok (.bool false) ∧ valBin O ">=" a b = .ok (.bool false) := by
  have hv : valCmp O a b = Option.none := by
    cases a <;> cases b <;> first | rfl | (simp [numeric] at h)
  rw [valBin_lt, valBin_le, valBin_gt, valBin_ge]
  simp [valLt, valLe, valGt, valGe, hv]

/-- arithmetic, bitwise, power and vector operators turn an error operand into an error result -/
def absorbing : List String :=
  ["^", "+", "-", "*", "/", "%", "|", "&", "XOR", ">>", "<<", "min", "max", "atan2", "dot", "cross", "."]
theorem error_absorbs {F} (O : FloatOps F) (name : String) (hn : name ∈ absorbing) (x : Val F) :
    valBin O name .err x = .ok .err ∧ valBin O name x .err = .ok .err := by
  simp only [absorbing, List.mem_cons, List.not_mem_nil, or_false] at hn
  rcases hn with rfl | rfl | rfl | rfl | rfl | rfl | rfl | rfl | rfl | rfl | rfl | rfl | rfl | rfl
    | rfl | rfl | rfl
  · rw [valBin_pow, valBin_pow]; constructor <;> cases x <;> rfl
  · rw [valBin_add, valBin_add]; constructor <;> cases x <;> rfl
  · rw [valBin_sub, valBin_sub]; constructor <;> cases x <;> rfl
  · rw [valBin_mul, valBin_mul]; constructor <;> cases x <;> rfl
  · rw [valBin_div, valBin_div]
    constructor
    · unfold vDiv
      split
      · rfl
      · cases x <;> rfl
    · cases x <;> rfl
  · rw [valBin_rem, valBin_rem]; constructor <;> cases x <;> rfl
  · rw [valBin_bitor, valBin_bitor]; constructor <;> cases x <;> rfl
  · rw [valBin_bitand, valBin_bitand]; constructor <;> cases x <;> rfl
  · rw [valBin_xor, valBin_xor]; constructor <;> cases x <;> rfl
  · rw [valBin_shr, valBin_shr]; constructor <;> cases x <;> rfl
  · rw [valBin_shl, valBin_shl]; constructor <;> cases x <;> rfl
  · rw [valBin_min, valBin_min]; constructor <;> cases x <;> rfl
  · rw [valBin_max, valBin_max]; constructor <;> cases x <;> rfl
  · rw [valBin_atan2, valBin_atan2]; constructor <;> cases x <;> rfl
  · rw [valBin_dot, valBin_dot]; constructor <;> cases x <;> rfl
  · rw [valBin_cross, valBin_cross]; constructor <;> cases x <;> rfl
  · rw [valBin_comp, valBin_comp]; constructor <;> cases x <;> rfl
/-- unary operators keep an error -/
theorem unary_error {F} (O : FloatOps F) (name : String) (hn : name ∈ valUnNames) :
    valUn O name (.err : Val F) = .ok .err := by
  rw [valUnNames, List.mem_append, List.mem_append] at hn
  rcases hn with (h1 | h2) | h3
  · simp only [List.mem_cons, List.not_mem_nil, or_false] at h1
    rcases h1 with rfl | rfl | rfl | rfl <;> rfl
  · rw [valUn_float O name h2]; rfl
  · simp only [List.mem_cons, List.not_mem_nil, or_false] at h3
    rcases h3 with rfl | rfl | rfl | rfl | rfl | rfl | rfl | rfl <;> rfl

set_option linter.unusedVariables false in
/-- `a if c else b` yields `a` when `c` is true and `b` otherwise (`a` any value except none) -/
theorem if_else {F} (O : FloatOps F) (a b c : Val F) (ha : ∀ (h : a = .none), False) (t : Bool)
    (hc : toBool O c = some t) :
    (match valBin O "if" a c with
      | .ok r => valBin O "else" r b
      | .error e => .error e) = .ok (if t then a else b) := by
  rw [valBin_if]
  unfold vIf
  rw [hc]
  cases t
  · rfl
  · show valBin O "else" a b = Except.ok a
    rw [valBin_else]
    cases a <;> first | rfl | exact (ha rfl).elim
/-- a condition that is not a boolean, integer or float makes `if` an error -/
theorem if_bad_condition {F} (O : FloatOps F) (a c : Val F) (hc : toBool O c = Option.none) :
    valBin O "if" a c = .ok .err := by
  rw [valBin_if]; unfold vIf; rw [hc]

end Exmex.C16
