/-
  C16 — the operator table of the value type, as the library builds it at run time
  (`Generated.valTable`, re-extracted on every run through `ValOpsFactory::make()`), is the
  documented one: names, roles, priorities, flags. It also ties the *model*: the names the model
  dispatches on (`valBinNames`, `valUnNames`) are exactly the binary / unary names of the table,
  and the default float table seen at run time agrees with the one extracted from the source text.
-/
import Exmex.Generated.RuntimeTables
import Exmex.Generated.FloatTable
import Exmex.Model.ValModel
namespace Exmex.C16
open Exmex.Generated

/-- the documented value operator table (after the repairs: `==`, `!=`, `cross` not flagged) -/
def docValTable : List OpRow := [
  { repr := "^", bin := some (6, false), unary := false, const := false },
  { repr := "+", bin := some (3, true), unary := true, const := false },
  { repr := "-", bin := some (3, false), unary := true, const := false },
  { repr := "cross", bin := some (4, false), unary := false, const := false },
  { repr := "dot", bin := some (4, true), unary := false, const := false },
  { repr := "*", bin := some (4, true), unary := false, const := false },
  { repr := "/", bin := some (5, false), unary := false, const := false },
  { repr := "atan2", bin := some (0, false), unary := false, const := false },
  { repr := "%", bin := some (5, false), unary := false, const := false },
  { repr := "|", bin := some (2, true), unary := false, const := false },
  { repr := "&", bin := some (2, true), unary := false, const := false },
  { repr := "XOR", bin := some (2, true), unary := false, const := false },
  { repr := ">>", bin := some (2, false), unary := false, const := false },
  { repr := "<<", bin := some (2, false), unary := false, const := false },
  { repr := "&&", bin := some (2, true), unary := false, const := false },
  { repr := "||", bin := some (2, true), unary := false, const := false },
  { repr := "==", bin := some (1, false), unary := false, const := false },
  { repr := ">=", bin := some (1, false), unary := false, const := false },
  { repr := ">", bin := some (1, false), unary := false, const := false },
  { repr := "<=", bin := some (1, false), unary := false, const := false },
  { repr := "<", bin := some (1, false), unary := false, const := false },
  { repr := "!=", bin := some (1, false), unary := false, const := false },
  { repr := "if", bin := some (0, false), unary := false, const := false },
  { repr := "else", bin := some (0, false), unary := false, const := false },
  { repr := "min", bin := some (0, false), unary := false, const := false },
  { repr := "max", bin := some (0, false), unary := false, const := false },
  { repr := ".", bin := some (5, false), unary := false, const := false },
  { repr := "signum", bin := none, unary := true, const := false },
  { repr := "abs", bin := none, unary := true, const := false },
  { repr := "sin", bin := none, unary := true, const := false },
  { repr := "cos", bin := none, unary := true, const := false },
  { repr := "tan", bin := none, unary := true, const := false },
  { repr := "asin", bin := none, unary := true, const := false },
  { repr := "acos", bin := none, unary := true, const := false },
  { repr := "atan", bin := none, unary := true, const := false },
  { repr := "sinh", bin := none, unary := true, const := false },
  { repr := "cosh", bin := none, unary := true, const := false },
  { repr := "tanh", bin := none, unary := true, const := false },
  { repr := "asinh", bin := none, unary := true, const := false },
  { repr := "acosh", bin := none, unary := true, const := false },
  { repr := "atanh", bin := none, unary := true, const := false },
  { repr := "floor", bin := none, unary := true, const := false },
  { repr := "ceil", bin := none, unary := true, const := false },
  { repr := "trunc", bin := none, unary := true, const := false },
  { repr := "fract", bin := none, unary := true, const := false },
  { repr := "exp", bin := none, unary := true, const := false },
  { repr := "sqrt", bin := none, unary := true, const := false },
  { repr := "cbrt", bin := none, unary := true, const := false },
  { repr := "round", bin := none, unary := true, const := false },
  { repr := "ln", bin := none, unary := true, const := false },
  { repr := "log10", bin := none, unary := true, const := false },
  { repr := "log2", bin := none, unary := true, const := false },
  { repr := "log", bin := none, unary := true, const := false },
  { repr := "swap_bytes", bin := none, unary := true, const := false },
  { repr := "to_le", bin := none, unary := true, const := false },
  { repr := "to_be", bin := none, unary := true, const := false },
  { repr := "fact", bin := none, unary := true, const := false },
  { repr := "to_int", bin := none, unary := true, const := false },
  { repr := "to_float", bin := none, unary := true, const := false },
  { repr := "length", bin := none, unary := true, const := false },
  { repr := "PI", bin := none, unary := false, const := true },
  { repr := "π", bin := none, unary := false, const := true },
  { repr := "E", bin := none, unary := false, const := true },
  { repr := "TAU", bin := none, unary := false, const := true },
  { repr := "τ", bin := none, unary := false, const := true }
]

theorem val_table_matches_doc : valTable = docValTable := by decide

theorem val_table_names_nodup : (valTable.map (·.repr)).Nodup := by decide

/-- the model dispatches on exactly the binary names of the table, in table order -/
theorem val_bin_names : (valTable.filter (·.bin.isSome)).map (·.repr) = valBinNames := by decide

/-- … and on exactly the unary names -/
theorem val_un_names : (valTable.filter (·.unary)).map (·.repr) = valUnNames := by decide

/-- flagged (re-associable) operators of the value table: only + * dot | & XOR && || -/
theorem val_flagged : (valTable.filter (fun r => match r.bin with | some (_, c) => c | none => false)).map (·.repr)
    = ["+", "dot", "*", "|", "&", "XOR", "&&", "||"] := by decide

/-- the float table built at run time is the one written in the source text -/
theorem float_runtime_matches_source :
    floatRuntimeTable.map (fun r => (r.repr, r.bin, r.unary, r.const)) =
      floatTable.map (fun e => (e.repr,
        (if e.kind == "bin" || e.kind == "binun" then some (e.prio, e.comm) else none),
        (e.kind == "un" || e.kind == "binun"), e.kind == "const")) := by decide

end Exmex.C16
