/-
  C02 — Constant folding never changes what an expression computes (flat form).

  `FlatEx::compile` applied to any flat expression satisfying the structural invariant yields an
  expression that satisfies the invariant again and evaluates to the same value for every
  variable assignment (given that flagged operators are associative — the freedom the property
  grants); hence compiling twice is also invisible.
-/
import Exmex.Proofs.Bump
import Exmex.Proofs.SortSplit
import Exmex.Proofs.ReduceSplitAux
import Exmex.Props.C14
import Exmex.Proofs.CompileLoop
namespace Exmex.C02

/-- structural invariant of flat expressions produced by the library -/
structure FlatInv {α : Type} (I : Interp α) (f : FlatEx α) : Prop where
  len : f.nodes.length = f.ops.length + 1
  prio : f.prioIdx = prioIdxFlat f.ops f.nodes
  bump : BumpOK I f.ops

/-- all variable indices are in range of the value slice -/
def IdxOK {α : Type} (f : FlatEx α) (n : Nat) : Prop :=
  ∀ nd ∈ f.nodes, ∀ i, nd.kind = .var i → i < n

/-- evaluation of an invariant-satisfying flat expression = split evaluation by priority -/
theorem evalCloning_eq_split {α : Type} (I : Interp α) (f : FlatEx α) (hf : FlatInv I f)
    (vals : List α) (hidx : IdxOK f vals.length) :
    ∃ numbers v, nodeValues I f.nodes vals = some numbers ∧
      splitEval (FlatOp.act I) (fun o => o.prio) f.ops.length numbers f.ops = some v ∧
      evalCloning I f vals = .ok v := by
  obtain ⟨v, h1, h2, h3⟩ := CompileSound.evalCloning_eq_splitKey I f hf.len hf.prio vals hidx
  refine ⟨_, v, h1, ?_, h3⟩
  rw [← h2]
  exact (CompileSound.splitKey_eq_splitPrio I f.ops f.nodes _
    (by rw [List.length_map]; exact hf.len) hf.bump).symm

/-- **C02 (flat).** One compile step is sound and preserves the invariant. -/
theorem compile_sound {α : Type} (I : Interp α) (f : FlatEx α) (hf : FlatInv I f)
    (vals : List α) (hidx : IdxOK f vals.length) :
    ∃ f', f.compile I = .ok f' ∧ FlatInv I f' ∧ IdxOK f' vals.length ∧ f'.vars = f.vars ∧
      evalCloning I f' vals = evalCloning I f vals := by
  obtain ⟨f', h1, h2, h3, h4, h5, h6, h7⟩ :=
    CompileSound.compile_core I f hf.len hf.prio hf.bump vals hidx
  exact ⟨f', h1, ⟨h2, h3, h4⟩, h5, h6, h7⟩

/-- re-compiling is invisible too -/
theorem compile_twice_sound {α : Type} (I : Interp α) (f : FlatEx α) (hf : FlatInv I f)
    (vals : List α) (hidx : IdxOK f vals.length) :
    ∃ f' f'', f.compile I = .ok f' ∧ f'.compile I = .ok f'' ∧
      evalCloning I f'' vals = evalCloning I f vals := by
  obtain ⟨f', h1, hf', hidx', -, he⟩ := compile_sound I f hf vals hidx
  obtain ⟨f'', h2, -, -, -, he'⟩ := compile_sound I f' hf' vals hidx'
  exact ⟨f', f'', h1, h2, he'.trans he⟩

end Exmex.C02
