/-
  C09 — iterated differentiation (`partial_iter`): what one differentiation preserves (so that
  C05 can be iterated), the bookkeeping of `DeepEx::partial_iter` (index check first, order zero =
  `compile`, the loop = sequential single differentiations in the given order), soundness of a
  single index, and the variable list of the result for any list of indices.

  The structural statements (`partial_vars`, `partial_preserves`, `partialIter_vars`) need neither
  arithmetic laws nor a regular dual evaluation: the variable list and the operators of the result
  do not depend on values (proofs in Proofs/DiffStruct.lean, Proofs/DiffIter.lean).
-/
import Exmex.Props.C05
import Exmex.Proofs.DiffStruct
import Exmex.Proofs.DiffIter
import Exmex.Proofs.DiffFlat
namespace Exmex.C09
open Exmex.C05

section
variable {K : Type} (I : Interp K) (C : CalcOps K) (t : Table)

theorem strict_of_sorted (l : List Str) (hnd : l.Nodup) (hs : sortBy strLe l = l) :
    l.Pairwise (fun a b => strLt a b = true) := by
  have := sortBy_strLe_strict l hnd
  rwa [hs] at this

/-! ### 1. what one differentiation preserves -/

/-- **the variable list of the derivative is the variable list of the operand** — from structure
    alone: no laws, no evaluation, no regularity, any fuel. -/
theorem partial_vars (d d' : DeepEx K) (hn : C10.Named d.vars d) (hnd : d.vars.Nodup)
    (hsorted : sortBy strLe d.vars = d.vars) (hr : Ruled t d) (hsc : Scoped t d.vars d)
    (i fuel : Nat) (hp : partialDeepex I C t i fuel d = .ok d') : d'.vars = d.vars :=
  (Diff.partial_struct I C t Diff.TT i d d' fuel
    (Diff.si_of t Diff.TT d.vars d hn hr hsc (Diff.opE_trivial d))
    (strict_of_sorted d.vars hnd hsorted) hp).1

/-- **C05 can be iterated**: the derivative again has only operators with rules (`Ruled`), and is
    again `Scoped` (in fact every nested group of `d'` lists exactly `d'.vars`, `Diff.Full`).
    Also from structure alone. The remaining hypotheses of `C05.partial_sound` for `d'`
    (`Named`, `Assoc`, `Folded`) are conclusions of `partial_sound` itself; `Nodup`/sortedness of
    `d'.vars` follow from `d'.vars = d.vars`. -/
theorem partial_preserves (d d' : DeepEx K) (hn : C10.Named d.vars d) (hnd : d.vars.Nodup)
    (hsorted : sortBy strLe d.vars = d.vars) (hr : Ruled t d) (hsc : Scoped t d.vars d)
    (i fuel : Nat) (hp : partialDeepex I C t i fuel d = .ok d') :
    d'.vars = d.vars ∧ Ruled t d' ∧ Scoped t d'.vars d' ∧ Diff.Full d' := by
  obtain ⟨h1, h2, h3⟩ := Diff.partial_struct I C t Diff.TT i d d' fuel
    (Diff.si_of t Diff.TT d.vars d hn hr hsc (Diff.opE_trivial d))
    (strict_of_sorted d.vars hnd hsorted) hp
  obtain ⟨h4, h5⟩ := Diff.si_to t Diff.TT d.vars d' h2
  exact ⟨h1, h4, by rw [h1]; exact h5, h3⟩

/-! ### 2. bookkeeping of `DeepEx::partial_iter` -/

/-- (a) **the index check comes first**: an index out of range makes the result the error "index",
    whatever else would happen -/
theorem partialIter_index_error (e : DeepEx K) (idxs : List Nat)
    (h : ∃ i ∈ idxs, i ≥ e.vars.length) : e.partialIter I C t idxs = .error (.err "index") :=
  Diff.partialIter_index_error I C t e idxs h

/-- (a') hence success implies that all indices are in range -/
theorem partialIter_ok_inrange (e r : DeepEx K) (idxs : List Nat)
    (h : e.partialIter I C t idxs = .ok r) : ∀ i ∈ idxs, i < e.vars.length :=
  Diff.partialIter_ok_inrange I C t e r idxs h

/-- (b) **order zero is `compile`** -/
theorem partialIter_nil (e : DeepEx K) : e.partialIter I C t [] = e.compile I :=
  Diff.partialIter_nil I C t e

/-- (b') order zero succeeds and preserves the value (C02); it lists the variables of
    `e.liftNodes`, which are those of `e` unless `e` is a bare wrapper `[Expr(sub)]` without unary
    chain (then `sub`'s): in particular for a literal or a group with at least two nodes
    (`Diff.liftNodes_vars_wide`) and for full expressions (`Diff.liftNodes_vars_full`) -/
theorem partialIter_nil_sound (e : DeepEx K) (vals : List K) (hs : e.Shape vals.length)
    (hA : e.Assoc I) :
    ∃ e', e.partialIter I C t [] = .ok e' ∧ e'.Shape vals.length ∧ e'.Assoc I ∧
      e'.evalRelaxed I vals = e.evalRelaxed I vals ∧ e'.vars = e.liftNodes.vars := by
  obtain ⟨e', h1, h2, h3, h4⟩ := C02.deep_compile_sound I e vals hs hA
  refine ⟨e', by rw [partialIter_nil]; exact h1, h2, h3, h4, ?_⟩
  exact (Diff.compile_op Diff.TT Diff.TT Diff.TT Diff.TT I e e' h1 (Diff.opE_trivial e)).2

/-- (c) with all indices in range, `partial_iter` is the loop followed by `compile` -/
theorem partialIter_inrange (e : DeepEx K) (idxs : List Nat) (h : ∀ i ∈ idxs, i < e.vars.length) :
    e.partialIter I C t idxs =
      match DeepEx.partialIter.go I C t idxs e with
      | .error err => .error err
      | .ok d => d.compile I :=
  Diff.partialIter_inrange I C t e idxs h

/-- (c) the loop: nothing to do for no index -/
theorem go_nil (d : DeepEx K) : DeepEx.partialIter.go I C t [] d = .ok d := Diff.go_nil I C t d

/-- (c) the loop: differentiate w.r.t. the first index (fuel `4 * size + 8`), go on with the rest -/
theorem go_cons (i : Nat) (is : List Nat) (d : DeepEx K) :
    DeepEx.partialIter.go I C t (i :: is) d =
      match partialDeepex I C t i (4 * d.sizeAll + 8) d with
      | .error err => .error err
      | .ok d' => DeepEx.partialIter.go I C t is d' :=
  Diff.go_cons I C t i is d

/-- (c) **sequential in the given order**: the loop over `is ++ js` is the loop over `is`, then
    over `js` -/
theorem go_append (is js : List Nat) (d : DeepEx K) :
    DeepEx.partialIter.go I C t (is ++ js) d =
      match DeepEx.partialIter.go I C t is d with
      | .error err => .error err
      | .ok d' => DeepEx.partialIter.go I C t js d' :=
  Diff.go_append I C t is js d

/-- (c) the `n+1`-st derivative w.r.t. one variable is one step followed by the `n`-th -/
theorem go_replicate_succ (n i : Nat) (d : DeepEx K) :
    DeepEx.partialIter.go I C t (List.replicate (n + 1) i) d =
      match partialDeepex I C t i (4 * d.sizeAll + 8) d with
      | .error err => .error err
      | .ok d' => DeepEx.partialIter.go I C t (List.replicate n i) d' :=
  Diff.go_replicate_succ I C t n i d

/-- (c) `partial_iter (i :: is)` = differentiate once w.r.t. `i`, then `partial_iter is` on the
    result (which lists as many variables, so that the index check of the rest is the same) -/
theorem partialIter_cons (e d' : DeepEx K) (i : Nat) (is : List Nat) (hi : i < e.vars.length)
    (hp : partialDeepex I C t i (4 * e.sizeAll + 8) e = .ok d')
    (hv : d'.vars.length = e.vars.length) :
    e.partialIter I C t (i :: is) = d'.partialIter I C t is :=
  Diff.partialIter_cons I C t e d' i is hi hp hv

/-- (c) a failing first step fails the whole (indices in range) -/
theorem partialIter_cons_error (e : DeepEx K) (i : Nat) (is : List Nat) (err : Fail)
    (hr : ∀ j ∈ i :: is, j < e.vars.length)
    (hp : partialDeepex I C t i (4 * e.sizeAll + 8) e = .error err) :
    e.partialIter I C t (i :: is) = .error err :=
  Diff.partialIter_cons_error I C t e i is err hr hp

/-- (c) a single index: one differentiation, then `compile` -/
theorem partialIter_single (e : DeepEx K) (i : Nat) (hi : i < e.vars.length) :
    e.partialIter I C t [i] =
      match partialDeepex I C t i (4 * e.sizeAll + 8) e with
      | .error err => .error err
      | .ok d' => d'.compile I :=
  Diff.partialIter_single I C t e i hi

/-- (c) the `n`-th derivative w.r.t. one variable, for the structurally well-formed expressions of
    `partial_vars`: one step, then the `(n-1)`-st derivative of the result -/
theorem partialIter_replicate_succ (d d' : DeepEx K) (hn : C10.Named d.vars d) (hnd : d.vars.Nodup)
    (hsorted : sortBy strLe d.vars = d.vars) (hr : Ruled t d) (hsc : Scoped t d.vars d)
    (n i : Nat) (hi : i < d.vars.length)
    (hp : partialDeepex I C t i (4 * d.sizeAll + 8) d = .ok d') :
    d.partialIter I C t (List.replicate (n + 1) i) = d'.partialIter I C t (List.replicate n i) := by
  rw [List.replicate_succ]
  exact partialIter_cons I C t d d' i _ hi hp
    (by rw [partial_vars I C t d d' hn hnd hsorted hr hsc i _ hp])

/-- (e) **the result of `partial_iter` lists exactly the variables of the operand**, for any list
    of indices — from structure alone (no laws, no regularity). For the empty list the result is
    `compile` of `d` itself, whence `h0` (see `partialIter_nil_sound`). The result is again `Ruled`
    and `Scoped`. -/
theorem partialIter_vars (d r : DeepEx K) (hn : C10.Named d.vars d) (hnd : d.vars.Nodup)
    (hsorted : sortBy strLe d.vars = d.vars) (hr : Ruled t d) (hsc : Scoped t d.vars d)
    (idxs : List Nat) (h0 : idxs = [] → d.liftNodes.vars = d.vars)
    (hp : d.partialIter I C t idxs = .ok r) :
    r.vars = d.vars ∧ Ruled t r ∧ Scoped t r.vars r := by
  obtain ⟨hv, s2⟩ := Diff.partialIter_si I C t Diff.TT d r
    (Diff.si_of t Diff.TT d.vars d hn hr hsc (Diff.opE_trivial d))
    (strict_of_sorted d.vars hnd hsorted) idxs h0 hp
  obtain ⟨h4, h5⟩ := Diff.si_to t Diff.TT d.vars r s2
  exact ⟨hv, h4, by rw [hv]; exact h5⟩

end

/-! ### 2(d). soundness of a single index -/

section
variable {K : Type} [DecidableEq K] (I : Interp K) (C : CalcOps K) (t : Table)

/-- **C05 + C09 for one index**: `partial_iter [i]` (one differentiation with the fuel
    `4 * size + 8`, then `compile`), when it succeeds at a regular point, lists the variables of
    `d`, evaluates to the derivative component of the dual evaluation, and again satisfies all the
    hypotheses made on `d`. The `Shape` hypothesis of `C02.deep_compile_sound` is derived from
    `Named`. -/
theorem partialIter_sound_single (A : C10.Arith I C t) (L : Laws (dArith I C t))
    (hnames : (t.map (·.repr)).Nodup)
    (hfn : ∀ n ∈ ["-", "ln", "sqrt", "sin", "cos", "sinh", "cosh", "tanh"],
      ∃ u, findUnaryOp t (String.toList n) = .ok u)
    (hbop : BopAssoc I t)
    (d : DeepEx K) (hn : C10.Named d.vars d) (hnd : d.vars.Nodup)
    (hsorted : sortBy strLe d.vars = d.vars) (hA : d.Assoc I) (hf : Shortcut.Folded d)
    (hr : Ruled t d) (hsc : Scoped t d.vars d)
    (i : Nat) (x : Str) (hi : d.vars[i]? = some x) (ρ : Str → K)
    (r : DeepEx K) (hp : d.partialIter I C t [i] = .ok r)
    (w : DVal K) (hw : d.dualEval I C t ρ x = .ok w) (hreg : w.ok = true) :
    r.vars = d.vars ∧ C10.Named r.vars r ∧ r.Assoc I ∧ Shortcut.Folded r ∧ Ruled t r ∧
      Scoped t r.vars r ∧
      d.evalRelaxed I (d.vars.map ρ) = .ok w.val ∧
      r.evalRelaxed I (r.vars.map ρ) = .ok w.der := by
  have hil : i < d.vars.length := (List.getElem?_eq_some_iff.1 hi).1
  rw [Diff.partialIter_single I C t d i hil] at hp
  split at hp
  · cases hp
  rename_i d' hpd
  obtain ⟨c1, c2, c3, c4, c5, c6⟩ := partial_sound I C t A L hnames hfn hbop d hn hnd hsorted hA hf hr hsc
    i x hi ρ _ d' hpd w hw hreg
  obtain ⟨-, s1, f1⟩ := Diff.partial_struct I C t Diff.TT i d d' _
    (Diff.si_of t Diff.TT d.vars d hn hr hsc (Diff.opE_trivial d))
    (strict_of_sorted d.vars hnd hsorted) hpd
  have hg := (C10.named_iff_gen _ d').1 c2
  have hsh := C10.shape_of_gen d'.vars ρ (fun vs hv => hv) d' hg
  obtain ⟨r', k1, k2, k3, k4⟩ := C02.deep_compile_sound I d' (d'.vars.map ρ) hsh c3
  rw [k1] at hp
  cases hp
  obtain ⟨v2, s2⟩ := Diff.compile_struct I t Diff.TT d.vars d' r s1 (Diff.liftNodes_vars_full d' f1) k1
  obtain ⟨g, -⟩ := CalcLemmas.compile_gen I _ _ d' r k1 hg (CalcLemmas.shape_len r k2)
  obtain ⟨h4, h5⟩ := Diff.si_to t Diff.TT d.vars r s2
  have hv : r.vars = d.vars := v2.trans c1
  refine ⟨hv, ?_, k3, ?_, h4, by rw [hv]; exact h5, c5, ?_⟩
  · rw [v2]; exact (C10.named_iff_gen _ r).2 g
  · exact Shortcut.compile_folded I d' r k1 (Shortcut.weakList_of_folded _ (Shortcut.folded_nodes d' c4))
  · rw [v2, k4]; exact c6

/-! ### 3. the flat form -/

/-- **C05 + C09 for a flat expression and one index.** `FlatEx::partial_iter [i]` is
    `to_deepex`, `DeepEx::partial_iter [i]`, `from_deepex`. For a flat expression satisfying the
    library invariant (`C02.FlatInv`, operators in the table, indices in range, duplicate-free
    sorted variables), whose operators have derivative rules (`Diff.FlatRuled`), over a table with
    priorities `0..=99`: the deep form `d` exists, has the same variables and value, and — at every
    assignment at which the dual evaluation of `d` is regular — the result, when there is one,
    lists the variables of `f`, satisfies the library invariant, and evaluates to the derivative
    component of the dual evaluation; `f` itself evaluates to the value component. -/
theorem flat_partialIter_single_sound (A : C10.Arith I C t) (L : Laws (dArith I C t))
    (hnames : (t.map (·.repr)).Nodup)
    (hfn : ∀ n ∈ ["-", "ln", "sqrt", "sin", "cos", "sinh", "cosh", "tanh"],
      ∃ u, findUnaryOp t (String.toList n) = .ok u)
    (hbop : BopAssoc I t)
    (f : FlatEx K) (hf : C02.FlatInv I f) (ht : C03.OpsInTable t f.ops)
    (hidx : C02.IdxOK f f.vars.length) (hnd : f.vars.Nodup)
    (hsorted : sortBy strLe f.vars = f.vars) (hr : Diff.FlatRuled t f) (htp : Diff.TblPrio t)
    (i : Nat) (x : Str) (hi : f.vars[i]? = some x) (ρ : Str → K)
    (g : FlatEx K) (hp : f.partialIter I C t [i] = .ok g) :
    ∃ d, f.toDeep I t = .ok d ∧ d.vars = f.vars ∧
      d.evalRelaxed I (f.vars.map ρ) = evalCloning I f (f.vars.map ρ) ∧
      ∀ w, d.dualEval I C t ρ x = .ok w → w.ok = true →
        g.vars = f.vars ∧ C02.FlatInv I g ∧
        evalCloning I f (f.vars.map ρ) = .ok w.val ∧
        evalCloning I g (f.vars.map ρ) = .ok w.der := by
  obtain ⟨d, htd, hdv, -, -, hde⟩ := C03.toDeep_sound I t f hf ht (f.vars.map ρ)
    (by rw [List.length_map]) hidx hnd
  refine ⟨d, htd, hdv, hde, ?_⟩
  intro w hw hreg
  obtain ⟨-, dn, df, ds, dA⟩ := Diff.toDeep_inv I t f hf ht hidx hnd hr htp d htd
  obtain ⟨dr, dsc⟩ := Diff.si_to t Diff.prioB f.vars d ds
  unfold FlatEx.partialIter at hp
  rw [htd] at hp
  simp only [] at hp
  split at hp
  · cases hp
  rename_i r hpr
  cases hp
  have hi' : d.vars[i]? = some x := by rw [hdv]; exact hi
  obtain ⟨r1, r2, r3, -, -, -, r7, r8⟩ := partialIter_sound_single I C t A L hnames hfn hbop d dn
    (by rw [hdv]; exact hnd) (by rw [hdv]; exact hsorted) dA df dr (by rw [hdv]; exact dsc)
    i x hi' ρ r hpr w hw hreg
  -- priorities of the result
  obtain ⟨-, rs⟩ := Diff.partialIter_si I C t Diff.prioB d r (by rw [hdv]; exact ds)
    (by rw [hdv]; exact strict_of_sorted f.vars hnd hsorted) [i] (fun h => by cases h) hpr
  have rp : r.PrioOK := Diff.prio_to r
    (Diff.si_ops t Diff.prioB d.vars (fun repr o h => Diff.prioB_of_find t htp repr o h) r rs)
  have hrv : r.vars = f.vars := r1.trans hdv
  have hsh : r.Shape (f.vars.map ρ).length := by
    have := C10.shape_of_gen r.vars ρ (fun vs hv => hv) r ((C10.named_iff_gen _ r).1 r2)
    rw [hrv] at this
    exact this
  obtain ⟨g1, g2, g3⟩ := C03.fromDeep_sound I t r (f.vars.map ρ) hsh rp r3
  refine ⟨g1.trans hrv, g2, ?_, ?_⟩
  · rw [← hde, ← hdv]; exact r7
  · rw [g3, ← hrv]; exact r8

end

end Exmex.C09
