/-
  C03 — Flat and deep expression forms are interchangeable (flat → deep direction).

  `FlatEx::to_deepex` (`flatex_to_deepex`: replay the priority order over a word-slice tracker,
  building one binary `DeepEx` per operator, then `reset_vars` and `compile`) preserves the
  variable list and the value for every assignment.
-/
import Exmex.Model.Conv
import Exmex.Props.C02
import Exmex.Props.C02Deep
import Exmex.Proofs.ToDeep
namespace Exmex.C03

/-- every binary operator of the flat expression is a binary operator of the table with the same
    flag (true for everything the parser and `from_deepex` produce) -/
def OpsInTable (t : Table) (ops : List FlatOp) : Prop :=
  ∀ o ∈ ops, ∃ b, tblBin t o.idx = some b ∧ b.comm = o.comm

/-- **C03 (flat → deep).** The variable list has to be duplicate-free (`hnd`): `reset_vars`
    re-indexes every variable by the first position of its name, so with `f.vars = [x, x]` a node
    `var 1` would be turned into `var 0`. -/
theorem toDeep_sound {α} (I : Interp α) (t : Table) (f : FlatEx α) (hf : C02.FlatInv I f)
    (ht : OpsInTable t f.ops) (vals : List α) (hlen : vals.length = f.vars.length)
    (hidx : C02.IdxOK f f.vars.length) (hnd : f.vars.Nodup) :
    ∃ d, f.toDeep I t = .ok d ∧ d.vars = f.vars ∧ d.Shape vals.length ∧ d.Assoc I ∧
      d.evalRelaxed I vals = evalCloning I f vals :=
  ToDeep.toDeep_core I t f hf.len hf.prio hf.bump.assoc ht hnd vals hlen hidx

end Exmex.C03
