/-
  C10 / C04 / C11 — calculations on expressions (deep form): re-indexing of variables by name,
  operator application as a homomorphism, substitution.

  Variables are bound by *name* through an environment `ρ : Str → α`; an expression `d` is
  evaluated on the slice `d.vars.map ρ`. `Named top d` says that every variable node of `d`
  (at any nesting depth) carries the index of its name in the list `top`, and that no nested
  group lists more variables than `top` (so that no arity error can occur inside).
-/
import Exmex.Model.Calc
import Exmex.Props.C02Deep
import Exmex.Proofs.CalcLemmas
namespace Exmex.C10
open Exmex.CalcLemmas Exmex.DeepCompile

mutual
def Named {α} (top : List Str) : DeepEx α → Prop
  | .mk nodes ops _ vars => nodes.length = ops.length + 1 ∧ vars.length ≤ top.length ∧ namedList top nodes
def NamedNode {α} (top : List Str) : DeepNode α → Prop
  | .num _ => True
  | .var i name => top[i]? = some name
  | .expr e => Named top e
def namedList {α} (top : List Str) : List (DeepNode α) → Prop
  | [] => True
  | nd :: rest => NamedNode top nd ∧ namedList top rest
end


mutual
theorem named_iff_gen {α} (top : List Str) :
    ∀ e : DeepEx α, Named top e ↔ GenEx (NQ top) (NV top) e
  | .mk nodes ops un vars => by
    rw [Named, GenEx, namedList_iff_gen top nodes]
theorem namedNode_iff_gen {α} (top : List Str) :
    ∀ nd : DeepNode α, NamedNode top nd ↔ GenNode (NQ top) (NV top) nd
  | .num a => by rw [NamedNode, GenNode]
  | .var i nm => by rw [NamedNode, GenNode]
  | .expr e => by rw [NamedNode, GenNode, named_iff_gen top e]
theorem namedList_iff_gen {α} (top : List Str) :
    ∀ l : List (DeepNode α), namedList top l ↔ genList (NQ top) (NV top) l
  | [] => by rw [namedList, genList]
  | nd :: rest => by
    rw [namedList, genList, namedNode_iff_gen top nd, namedList_iff_gen top rest]
end

/-- an expression all of whose groups carry `all` is `Named all` -/
theorem named_of_full {α} (all : List Str) (e : DeepEx α) (h : GenEx (FQ all) (NV all) e) :
    Named all e :=
  (named_iff_gen all e).2
    (genEx_mono (fun vs (hv : vs = all) => by rw [hv]; exact Nat.le_refl _) (fun _ _ hv => hv) e h)

/-- `Named top` expressions are well shaped for value lists of the length of `top` -/
theorem shape_of_gen {α} {Q : List Str → Prop} (top : List Str) (ρ : Str → α)
    (hQ : ∀ vs, Q vs → vs.length ≤ top.length) (e : DeepEx α) (h : GenEx Q (NV top) e) :
    e.Shape (top.map ρ).length := by
  rw [List.length_map]
  exact genEx_shape hQ (fun i nm (hv : top[i]? = some nm) => (List.getElem?_eq_some_iff.1 hv).1) e h

/-- **`reset_vars` is sound (C04).** Re-indexing by name against a duplicate-free list `all` that
    contains every variable of the expression succeeds, and the re-indexed expression evaluates,
    on the values of `all`, to what the original evaluates to on the values of its own list. -/
theorem resetVars_sound {α} (I : Interp α) (d : DeepEx α) (hn : Named d.vars d) (hnd : d.vars.Nodup)
    (all : List Str) (hall : ∀ x ∈ d.vars, x ∈ all) (hnda : all.Nodup) (ρ : Str → α) :
    ∃ d', d.resetVars all = some d' ∧ d'.vars = all ∧ Named all d' ∧
      d'.evalRelaxed I (all.map ρ) = d.evalRelaxed I (d.vars.map ρ) := by
  have _ := hnd
  have _ := hnda
  obtain ⟨d', h1, h2, h3, -⟩ := reset_ex I d.vars all hall ρ d ((named_iff_gen _ d).1 hn)
  exact ⟨d', h1, genEx_vars d' h2, named_of_full all d' h2, h3⟩

/-- the sorted, duplicate-free union of two variable lists -/
def unionVars (a b : List Str) : List Str := sortBy strLe (b.foldl pushNew a)

/-- **Operator application is a homomorphism (C10).** `operate_bin`: the result lists the sorted
    union of the variables, and its value under any environment is the operator applied to the
    operands' values (flagged operators associative). -/
theorem operateBin_sound {α} (I : Interp α) (t : Table) (a b : DeepEx α) (repr : Str) (op : DBin)
    (hop : findBinOp t repr = .ok op)
    (hopA : op.comm = true → ∀ x y z, I.bin op.idx (I.bin op.idx x y) z = I.bin op.idx x (I.bin op.idx y z))
    (ha : Named a.vars a) (hb : Named b.vars b) (hnda : a.vars.Nodup) (hndb : b.vars.Nodup)
    (hAa : a.Assoc I) (hAb : b.Assoc I) (ρ : Str → α) :
    ∃ r va vb, a.operateBin I t b repr = .ok r ∧ r.vars = unionVars a.vars b.vars ∧ Named r.vars r ∧ r.Assoc I ∧
      a.evalRelaxed I (a.vars.map ρ) = .ok va ∧ b.evalRelaxed I (b.vars.map ρ) = .ok vb ∧
      r.evalRelaxed I (r.vars.map ρ) = .ok (I.bin op.idx va vb) := by
  have _ := hndb
  obtain ⟨all, hall⟩ : ∃ all, all = unionVars a.vars b.vars := ⟨_, rfl⟩
  obtain ⟨-, hstrict, hina, hinb⟩ := union_facts a.vars b.vars hnda
  rw [show sortBy strLe (b.vars.foldl pushNew a.vars) = all from hall.symm] at hstrict hina hinb
  obtain ⟨a', a1, a2, a3, a4⟩ := reset_ex I a.vars all hina ρ a ((named_iff_gen _ a).1 ha)
  obtain ⟨b', b1, b2, b3, b4⟩ := reset_ex I b.vars all hinb ρ b ((named_iff_gen _ b).1 hb)
  have hQ : ∀ vs, FQ all vs → vs.length ≤ all.length := fun vs (hv : vs = all) => by
    rw [hv]; exact Nat.le_refl _
  have hsa := shape_of_gen all ρ hQ a' a2
  have hsb := shape_of_gen all ρ hQ b' b2
  obtain ⟨va, hea⟩ := eval_total I (all.map ρ) a' hsa
  obtain ⟨vb, heb⟩ := eval_total I (all.map ρ) b' hsb
  have hfound : foundVars [DeepNode.expr a', DeepNode.expr b'] = all :=
    foundVars_two a' b' all (genEx_vars a' a2) (genEx_vars b' b2) hstrict
  have hAop : DeepAssoc I [op] := by
    intro o ho
    rw [List.mem_singleton] at ho
    subst ho
    exact hopA
  have hlenv : all.length ≤ (all.map ρ).length := by rw [List.length_map]; exact Nat.le_refl _
  -- `DeepEx::new`
  obtain ⟨r0, n1, n2, n3, n4⟩ := C02.deep_new_sound I [.expr a', .expr b'] [op] [] (all.map ρ) rfl
    (by rw [shapeList, shapeList, shapeList, DeepNode.ShapeN, DeepNode.ShapeN]
        exact ⟨hsa, hsb, trivial⟩)
    (by rw [hfound]; exact hlenv)
    ⟨hAop, by rw [assocList, assocList, assocList]; exact ⟨a4 hAa, b4 hAb, trivial⟩⟩
  rw [hfound, eval_two I (all.map ρ) a' b' op all va vb hlenv hea heb hAop] at n4
  have hg0 : GenEx (FQ all) (NV all) (DeepEx.mk [.expr a', .expr b'] [op] [] (foundVars [.expr a', .expr b'])) := by
    rw [GenEx, genList, genList, genList, GenNode, GenNode]
    exact ⟨rfl, hfound, a2, b2, trivial⟩
  have hc0 := n1
  rw [new_eq_compile I _ _ _ rfl] at hc0
  obtain ⟨g0, -⟩ := compile_gen I (FQ all) (NV all) _ r0 hc0 hg0 (shape_len r0 n2)
  -- the second `compile`
  obtain ⟨r, c1, c2, c3, c4⟩ := C02.deep_compile_sound I r0 (all.map ρ) n2 n3
  obtain ⟨g, -⟩ := compile_gen I (FQ all) (NV all) r0 r c1 g0 (shape_len r c2)
  have hrv : r.vars = all := genEx_vars r g
  have hres : a.operateBin I t b repr = .ok r := by
    unfold DeepEx.operateBin
    rw [hop]
    simp only []
    unfold operateBinOp varNamesUnion
    simp only []
    rw [show sortBy strLe (b.vars.foldl pushNew a.vars) = all from hall.symm, a1, b1]
    simp only [n1]
    exact c1
  refine ⟨r, va, vb, hres, hrv.trans hall, ?_, c3, ?_, ?_, ?_⟩
  · rw [hrv]; exact named_of_full all r g
  · rw [← a3]; exact hea
  · rw [← b3]; exact heb
  · rw [hrv, c4]; exact n4

/-- applying an unknown operator name is an error -/
theorem operateBin_unknown {α} (I : Interp α) (t : Table) (a b : DeepEx α) (repr : Str)
    (h : findOp t repr = none) : a.operateBin I t b repr = .error (.err "opname") := by
  unfold DeepEx.operateBin findBinOp
  rw [h]

/-- `operate_unary`: same variables, value = the unary operator applied to the operand's value -/
theorem operateUnary_sound {α} (I : Interp α) (t : Table) (a : DeepEx α) (repr : Str) (u : Nat)
    (hu : findUnaryOp t repr = .ok u) (ha : Named a.vars a) (hAa : a.Assoc I) (ρ : Str → α) :
    ∃ r va, a.operateUnary I t repr = .ok r ∧ r.vars = a.vars ∧ Named r.vars r ∧ r.Assoc I ∧
      a.evalRelaxed I (a.vars.map ρ) = .ok va ∧
      r.evalRelaxed I (r.vars.map ρ) = .ok (I.un u va) := by
  obtain ⟨nodes, ops, un, vars⟩ := a
  change Named vars _ at ha
  have hg := (named_iff_gen vars _).1 ha
  have hQ : ∀ vs, NQ vars vs → vs.length ≤ vars.length := fun vs hv => hv
  have hsa := shape_of_gen vars ρ hQ _ hg
  obtain ⟨va, hea⟩ := eval_total I (vars.map ρ) _ hsa
  have hg1 : GenEx (NQ vars) (NV vars) (DeepEx.mk nodes ops (u :: un) vars) := by
    rw [GenEx] at hg ⊢; exact hg
  have hs1 : (DeepEx.mk nodes ops (u :: un) vars).Shape (vars.map ρ).length := by
    rw [DeepEx.Shape] at hsa ⊢; exact hsa
  have hA1 : (DeepEx.mk nodes ops (u :: un) vars).Assoc I := by
    rw [DeepEx.Assoc] at hAa ⊢; exact hAa
  obtain ⟨r, c1, c2, c3, c4⟩ := C02.deep_compile_sound I _ (vars.map ρ) hs1 hA1
  obtain ⟨g, hv⟩ := compile_gen I (NQ vars) (NV vars) _ r c1 hg1 (shape_len r c2)
  rw [liftNodes_vars_of_un] at hv
  have hrv : r.vars = vars := hv
  have hres : (DeepEx.mk nodes ops un vars).operateUnary I t repr = .ok r := by
    unfold DeepEx.operateUnary
    rw [hu]
    exact c1
  refine ⟨r, va, hres, hrv, ?_, c3, hea, ?_⟩
  · rw [hrv]; exact (named_iff_gen vars r).2 g
  · rw [hrv, c4]; exact eval_un_cons I _ nodes ops u un vars va hea

end Exmex.C10
