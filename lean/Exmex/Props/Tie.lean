/-
  The numeric constants of the algorithms, re-extracted from the source text on every run,
  are the ones the model uses.
-/
import Exmex.Generated.Constants
import Exmex.Generated.DiffTable
import Exmex.Model.Conv
import Exmex.Model.Diff
namespace Exmex.Tie
open Exmex.Generated

/-- `DEPTH_PRIO_STEP` of flat.rs -/
theorem depth_prio_step : depthPrioStep = Exmex.DEPTH_PRIO_STEP := by decide

/-- the model's `mkFlatOp`-style priorities, the `+ 100` per nesting level of `flatten_vecs` and the
    sort key `prio * 10 (+ 5)` use these literals -/
theorem literals : nestingOffset = 100 ∧ bumpIncrement = 5 ∧ prioScale = 10 := by decide

/-- the model really uses them: a flagged operator between two literals gets key `prio*10+5` -/
example : sortKey [{ idx := 0, prio := 7, comm := true }] [({ kind := .num (0 : Nat) } : FlatNode Nat), { kind := .num 1 }] 0
    = 7 * prioScale + bumpIncrement := by decide

/-- the derivative rule table of partial.rs (re-extracted on every run: which operator names have a
    binary rule, which an outer rule, in source order; the shapes of the two macros and of
    `partial_derisval` are checked by the extractor) is the one the model dispatches on -/
theorem diff_rule_names : diffBinNames = Exmex.binRuleNames ∧ diffUnNames = Exmex.unRuleNames := by decide

end Exmex.Tie
