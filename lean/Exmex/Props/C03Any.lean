/-
  C03 — "for arbitrary (also sloppy or ill-formed) strings that both parsers accept, the two forms
  still agree".

  **As stated for EVERY accepted text this is FALSE** (`Exmex.AnyTextCex`): accepted token streams
  are more general than renderings of chains — a parenthesis group may start with a binary-only
  operator as long as two of its operands stand next to each other (`* 1 2`), and the two parsers
  read such a group differently as soon as an operand of the group in front of the adjacent pair
  contains a binary operator:

      `*(1+2)(3)`     FlatEx: `1*(2+3)` = 5       DeepEx: `(1+2)*3` = 9

  (the flat evaluator applies operator number `k` to the operands number `k` and `k+1` still
  present, so the operators of `(1+2)` are shifted by one operand; the deep parser keeps the
  group together).

  The theorems below therefore carry the hypothesis `AnyText.noAdjacent toks`: in the token
  stream no number / variable directly follows a number / variable and no `(` directly follows a
  `)`. For a text accepted by the flat parser this is the same as `AnyText.noLeadingBinary t toks`
  ("every binary-only operator directly follows a number, a variable or a `)`", i.e. no
  parenthesis group starts with a binary operator): the count check `nodes = ops + 1` excludes
  one without the other (`AnyText.flat_facts`, `AnyText.noAdjacent_of_noLead`); the primed
  theorems state the result with that hypothesis. Under either hypothesis the token stream of a
  text accepted by both parsers is the canonical token stream of a chain
  (`AnyText.chain_of_accepted`), and the parser-level theorems for chains apply.

  The hypothesis is sufficient, not necessary: `* 1 2` violates it and is read alike by both
  parsers (`AnyTextCex.agree_prefix`).
-/
import Exmex.Props.Reach
import Exmex.Props.C03Parse
import Exmex.Proofs.AnyTextTokens
import Exmex.Proofs.AnyTextCex
import Exmex.Proofs.AnyTextLead
namespace Exmex.C03

/-- the pieces of an accepted text -/
theorem accepted_chain {α} (I : Interp α) (t : Table) (lm : Str → Option Nat)
    (ht : Reach.TblOK I t) (text : Str) (f : FlatEx α) (d : DeepEx α)
    (hf : Flat.parseWoCompile I t lm text = .ok f) (hd : Deep.parse I t lm text = .ok d)
    (hadj : ∀ toks, tokenize I t lm text = .ok toks → AnyText.noAdjacent toks = true) :
    ∃ c : Chain α, tokenize I t lm text = .ok (c.toks I) ∧ c.WF t ∧ c.Roles t := by
  unfold Flat.parseWoCompile at hf
  unfold Deep.parse at hd
  split at hf
  · cases hf
  rename_i toks htoks
  rw [htoks] at hd
  simp only [] at hd
  split at hf
  · cases hf
  rename_i hpre
  rw [hpre] at hd
  simp only [] at hd
  split at hd
  · cases hd
  rename_i d' k hmake
  obtain ⟨c, hc, hwf, hroles⟩ := AnyText.chain_of_accepted I t ht.assoc ht.prio text toks
    (findVars toks) (findVars toks) _ f d' k hpre (hadj toks htoks) hf hmake
  exact ⟨c, by rw [hc]; exact htoks, hwf, hroles⟩

/-- **C03 (arbitrary accepted strings without adjacent operands), unfolded flat expression.** -/
theorem flatWo_deep_agree_any {α} (I : Interp α) (t : Table) (lm : Str → Option Nat)
    (ht : Reach.TblOK I t) (text : Str) (f : FlatEx α) (d : DeepEx α)
    (hf : Flat.parseWoCompile I t lm text = .ok f) (hd : Deep.parse I t lm text = .ok d)
    (hadj : ∀ toks, tokenize I t lm text = .ok toks → AnyText.noAdjacent toks = true) :
    f.vars = d.vars ∧ ∀ vals : List α, vals.length = f.vars.length →
      ∃ v, f.eval I vals = .ok v ∧ d.eval I vals = .ok v := by
  obtain ⟨c, hlex, hwf, hroles⟩ := accepted_chain I t lm ht text f d hf hd hadj
  have hfv : f.vars = c.vars := by
    obtain ⟨f', -, hf', hv, -, -⟩ := C01.parseWoCompile_eval_eq_denote I t lm ht.assoc c hwf hroles
      text hlex (List.replicate c.vars.length I.dflt) (by simp)
    rw [hf] at hf'
    cases hf'
    exact hv
  have hdv : d.vars = c.vars := by
    obtain ⟨d', -, hd', hv, -, -⟩ := deep_parse_eval_eq_denote I t lm ht.assoc c hwf hroles
      text hlex (List.replicate c.vars.length I.dflt) (by simp)
    rw [hd] at hd'
    cases hd'
    exact hv
  refine ⟨hfv.trans hdv.symm, ?_⟩
  intro vals hlen
  rw [hfv] at hlen
  obtain ⟨f', v, hf', -, hv, hfe⟩ := C01.parseWoCompile_eval_eq_denote I t lm ht.assoc c hwf hroles
    text hlex vals hlen
  obtain ⟨d', v', hd', -, hv', hde⟩ := deep_parse_eval_eq_denote I t lm ht.assoc c hwf hroles
    text hlex vals hlen
  rw [hf] at hf'
  cases hf'
  rw [hd] at hd'
  cases hd'
  rw [hv] at hv'
  cases hv'
  exact ⟨v, hfe, hde⟩

/-- **C03 (arbitrary accepted strings without adjacent operands).** -/
theorem flat_deep_agree_any {α} (I : Interp α) (t : Table) (lm : Str → Option Nat)
    (ht : Reach.TblOK I t) (text : Str) (f : FlatEx α) (d : DeepEx α)
    (hf : Flat.parse I t lm text = .ok f) (hd : Deep.parse I t lm text = .ok d)
    (hadj : ∀ toks, tokenize I t lm text = .ok toks → AnyText.noAdjacent toks = true) :
    f.vars = d.vars ∧ ∀ vals : List α, vals.length = f.vars.length →
      ∃ v, f.eval I vals = .ok v ∧ d.eval I vals = .ok v := by
  have hf0 := hf
  unfold Flat.parse at hf0
  split at hf0
  · cases hf0
  rename_i fw hfw
  obtain ⟨c, hlex, hwf, hroles⟩ := accepted_chain I t lm ht text fw d hfw hd hadj
  have hfv : f.vars = c.vars := by
    obtain ⟨f', -, -, hf', -, hv, -, -, -⟩ := C01.parse_eval_eq_denote I t lm ht.assoc c hwf hroles
      text hlex (List.replicate c.vars.length I.dflt) (by simp)
    rw [hf] at hf'
    cases hf'
    exact hv
  have hdv : d.vars = c.vars := by
    obtain ⟨d', -, hd', hv, -, -⟩ := deep_parse_eval_eq_denote I t lm ht.assoc c hwf hroles
      text hlex (List.replicate c.vars.length I.dflt) (by simp)
    rw [hd] at hd'
    cases hd'
    exact hv
  refine ⟨hfv.trans hdv.symm, ?_⟩
  intro vals hlen
  rw [hfv] at hlen
  obtain ⟨f', -, v, hf', -, -, hv, hfe, -⟩ := C01.parse_eval_eq_denote I t lm ht.assoc c hwf hroles
    text hlex vals hlen
  obtain ⟨d', v', hd', -, hv', hde⟩ := deep_parse_eval_eq_denote I t lm ht.assoc c hwf hroles
    text hlex vals hlen
  rw [hf] at hf'
  cases hf'
  rw [hd] at hd'
  cases hd'
  rw [hv] at hv'
  cases hv'
  exact ⟨v, hfe, hde⟩

/-- **the statement without the hypothesis is false**: `*(1+2)(3)` is accepted by both parsers,
    `FlatEx` evaluates it to 5, `DeepEx` to 9 (`AnyTextCex.differ₁`) -/
theorem flat_deep_agree_any_unrestricted_false :
    ¬ (∀ {α : Type} (I : Interp α) (t : Table) (lm : Str → Option Nat) (_ : Reach.TblOK I t)
        (text : Str) (f : FlatEx α) (d : DeepEx α),
        Flat.parse I t lm text = .ok f → Deep.parse I t lm text = .ok d →
        f.vars = d.vars ∧ ∀ vals : List α, vals.length = f.vars.length →
          ∃ v, f.eval I vals = .ok v ∧ d.eval I vals = .ok v) :=
  fun H => AnyTextCex.agree_any_needs_hypothesis (fun text f d hf hd =>
    H AnyTextCex.II AnyTextCex.tbl isNumericText ⟨AnyTextCex.flaggedAssoc, AnyTextCex.tblPrio⟩
      text f d hf hd)

/-- for a text accepted by the flat parser, "no leading binary operator" implies "no two operands
    adjacent" -/
theorem noAdjacent_of_noLeadingBinary {α} (I : Interp α) (t : Table) (lm : Str → Option Nat)
    (text : Str) (f : FlatEx α) (hf : Flat.parseWoCompile I t lm text = .ok f)
    (hnl : ∀ toks, tokenize I t lm text = .ok toks → AnyText.noLeadingBinary t toks = true) :
    ∀ toks, tokenize I t lm text = .ok toks → AnyText.noAdjacent toks = true := by
  intro toks htoks
  unfold Flat.parseWoCompile at hf
  rw [htoks] at hf
  simp only [] at hf
  split at hf
  · cases hf
  rename_i hpre
  exact AnyText.noAdjacent_of_noLead t text toks (findVars toks) f hpre (hnl toks htoks) hf

/-- **C03 (accepted strings in which no group starts with a binary operator), unfolded.** -/
theorem flatWo_deep_agree_any' {α} (I : Interp α) (t : Table) (lm : Str → Option Nat)
    (ht : Reach.TblOK I t) (text : Str) (f : FlatEx α) (d : DeepEx α)
    (hf : Flat.parseWoCompile I t lm text = .ok f) (hd : Deep.parse I t lm text = .ok d)
    (hnl : ∀ toks, tokenize I t lm text = .ok toks → AnyText.noLeadingBinary t toks = true) :
    f.vars = d.vars ∧ ∀ vals : List α, vals.length = f.vars.length →
      ∃ v, f.eval I vals = .ok v ∧ d.eval I vals = .ok v :=
  flatWo_deep_agree_any I t lm ht text f d hf hd
    (noAdjacent_of_noLeadingBinary I t lm text f hf hnl)

/-- **C03 (accepted strings in which no group starts with a binary operator).** -/
theorem flat_deep_agree_any' {α} (I : Interp α) (t : Table) (lm : Str → Option Nat)
    (ht : Reach.TblOK I t) (text : Str) (f : FlatEx α) (d : DeepEx α)
    (hf : Flat.parse I t lm text = .ok f) (hd : Deep.parse I t lm text = .ok d)
    (hnl : ∀ toks, tokenize I t lm text = .ok toks → AnyText.noLeadingBinary t toks = true) :
    f.vars = d.vars ∧ ∀ vals : List α, vals.length = f.vars.length →
      ∃ v, f.eval I vals = .ok v ∧ d.eval I vals = .ok v := by
  have hf0 := hf
  unfold Flat.parse at hf0
  split at hf0
  · cases hf0
  rename_i fw hfw
  exact flat_deep_agree_any I t lm ht text f d hf hd
    (noAdjacent_of_noLeadingBinary I t lm text fw hfw hnl)

end Exmex.C03
