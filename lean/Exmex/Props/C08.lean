/-
  C08 — Function-call notation `op(a, b)` means `((a) op (b))` at any nesting.

  The tokenizer treats `(`, `)` and `,` without looking at the rest of the text; `feed` is that
  part of `lexStep` as a function on tokenizer states. The theorem: feeding the raw token
  sequence of an expression in which calls are written `op ( a , b )` yields exactly the canonical
  tokens, in which every call is `( ( a ) op ( b ) )` — at top level, inside parentheses, under
  unary operators, as operand of other operators, nested in the first or second argument of
  another call, to any depth — and restores the depth and the stack of owed closing parentheses.
-/
import Exmex.Model.Lex
import Exmex.Spec.Surface
import Exmex.Proofs.CallTokens
namespace Exmex.C08

/-- raw tokens: what the tokenizer sees before the call rewrite -/
inductive Raw (α : Type) where
  | popen
  | pclose
  | comma
  | tok (t : Tok α)     -- a number, operator or variable token

/-- what `lexStep` does with the state for one raw token (`.tok` tokens are simply appended) -/
def feed {α} (st : LexSt α) : Raw α → Res (LexSt α)
  | .popen => .ok { st with res := st.res ++ [.popen], depth := st.depth + 1 }
  | .pclose =>
    let d := st.depth - 1
    -- `unmatched_closing_paren`: the source depth has become negative
    let dip := st.dipped || decide (d < 0)
    if st.owed.getLast? == some d then
      .ok { res := st.res ++ [.pclose, .pclose], owed := st.owed.dropLast, depth := d, dipped := dip }
    else .ok { st with res := st.res ++ [.pclose], depth := d, dipped := dip }
  | .comma =>
    -- a comma after an unmatched `)` is an error (the rewrite must not repair a paren mismatch)
    if st.dipped then .error (.err "comma_after_unmatched_paren") else
    match findOpOfComma st.res with
    | none => .error (.err "comma")
    | some i =>
      match st.res[i]? with
      | none => .error (.panic "parser.rs:find_op_of_comma index")
      | some opTok =>
        if st.owed.getLast? == some (st.depth - 1) then .error (.err "second_comma") else
        .ok { res := st.res.set i .popen ++ [.pclose, opTok, .popen],
              owed := st.owed ++ [st.depth - 1], depth := st.depth, dipped := st.dipped }
  | .tok tk => .ok { st with res := st.res ++ [tk] }

def feedAll {α} : List (Raw α) → LexSt α → Res (LexSt α)
  | [], st => .ok st
  | r :: rs, st =>
    match feed st r with
    | .error e => .error e
    | .ok st' => feedAll rs st'

/-- `feed` is what `lexStep` does at `(`, `)` and `,` (whatever follows in the text) -/
theorem lexStep_open {α} (I : Interp α) (t : Table) (lm : Str → Option Nat) (rest : Str) (st : LexSt α) :
    lexStep I t lm ('(' :: rest) st = (feed st .popen).map (fun s => (1, s)) := by
  simp [lexStep, feed, Except.map]
theorem lexStep_close {α} (I : Interp α) (t : Table) (lm : Str → Option Nat) (rest : Str) (st : LexSt α) :
    lexStep I t lm (')' :: rest) st = (feed st .pclose).map (fun s => (1, s)) := by
  have h1 : (')' == '(') = false := by decide
  simp only [lexStep, feed, h1, beq_self_eq_true, if_true, Bool.false_eq_true, if_false]
  split <;> rfl
theorem lexStep_comma {α} (I : Interp α) (t : Table) (lm : Str → Option Nat) (rest : Str) (st : LexSt α) :
    lexStep I t lm (',' :: rest) st = (feed st .comma).map (fun s => (1, s)) := by
  have h1 : (',' == '(') = false := by decide
  have h2 : (',' == ')') = false := by decide
  simp only [lexStep, feed, h1, h2, beq_self_eq_true, if_true, Bool.false_eq_true, if_false]
  cases st.dipped with
  | true => rfl
  | false =>
  simp only [Bool.false_eq_true, if_false]
  generalize findOpOfComma st.res = r
  cases r with
  | none => rfl
  | some i =>
    simp only []
    generalize st.res[i]? = q
    cases q with
    | none => rfl
    | some opTok => simp only []; split <;> rfl

mutual
/-- raw tokens of an expression with every call written as `op ( a , b )` -/
def rawAtom {α} (I : Interp α) : Atom α → List (Raw α)
  | .lit _ v => [.tok (.num v)]
  | .var x _ => [.tok (.var x)]
  | .const k => [.tok (.num (I.const k))]
  | .par c => [.popen] ++ rawChain I c ++ [.pclose]
  | .call o a b => [.tok (.op o), .popen] ++ rawChain I a ++ [.comma] ++ rawChain I b ++ [.pclose]
  | .un u a => .tok (.op u) :: rawAtom I a
def rawChain {α} (I : Interp α) : Chain α → List (Raw α)
  | .single a => rawAtom I a
  | .cons a o rest => rawAtom I a ++ [.tok (.op o)] ++ rawChain I rest
end

/-! ### single steps on explicit states -/

theorem feedAll_append {α} (xs ys : List (Raw α)) (st : LexSt α) :
    feedAll (xs ++ ys) st = match feedAll xs st with
      | .ok st' => feedAll ys st'
      | .error e => .error e := by
  induction xs generalizing st with
  | nil => simp [feedAll]
  | cons x xs ih =>
    simp only [List.cons_append, feedAll]
    cases feed st x with
    | error e => rfl
    | ok s => exact ih s

theorem feedAll_append_ok {α} {xs : List (Raw α)} {st st' : LexSt α} (ys : List (Raw α))
    (h : feedAll xs st = .ok st') : feedAll (xs ++ ys) st = feedAll ys st' := by
  rw [feedAll_append, h]

theorem feedAll_cons_ok {α} {x : Raw α} {st st' : LexSt α} (xs : List (Raw α))
    (h : feed st x = .ok st') : feedAll (x :: xs) st = feedAll xs st' := by
  simp only [feedAll, h]

theorem feed_tok {α} (res : List (Tok α)) (owed : List Int) (depth : Int) (dp : Bool) (tk : Tok α) :
    feed ⟨res, owed, depth, dp⟩ (.tok tk) = .ok ⟨res ++ [tk], owed, depth, dp⟩ := rfl

theorem feed_open {α} (res : List (Tok α)) (owed : List Int) (depth : Int) (dp : Bool) :
    feed ⟨res, owed, depth, dp⟩ .popen = .ok ⟨res ++ [.popen], owed, depth + 1, dp⟩ := rfl

/-- a `)` that closes an ordinary `(` (back to a non-negative depth: the flag is unchanged) -/
theorem feed_close_plain {α} (res : List (Tok α)) (owed : List Int) (depth : Int) (dp : Bool)
    (h : ∀ d ∈ owed, d < depth) (hd : 0 ≤ depth) :
    feed ⟨res, owed, depth + 1, dp⟩ .pclose = .ok ⟨res ++ [.pclose], owed, depth, dp⟩ := by
  have e : depth + 1 - 1 = depth := by omega
  have hn : decide (depth < 0) = false := by simpa using hd
  simp only [feed, e, CallTokens.getLast?_ne h, hn]
  simp

/-- a `)` that closes the `(` of a call: two closing parentheses, the owed entry is popped -/
theorem feed_close_owed {α} (res : List (Tok α)) (owed : List Int) (depth : Int) (dp : Bool)
    (hd : 0 ≤ depth) :
    feed ⟨res, owed ++ [depth], depth + 1, dp⟩ .pclose
      = .ok ⟨res ++ [.pclose, .pclose], owed, depth, dp⟩ := by
  have e : depth + 1 - 1 = depth := by omega
  have hn : decide (depth < 0) = false := by simpa using hd
  simp [feed, e, hn]

/-- the `,` of `op ( a , …` when no unmatched `)` has been seen: `op` is replaced by `(`,
    `) op (` is appended, one `)` is owed -/
theorem feed_comma_call {α} (pre ta : List (Tok α)) (o : Nat) (owed : List Int) (depth : Int)
    (hta : CallTokens.Skip ta) (h : ∀ d ∈ owed, d < depth) :
    feed ⟨pre ++ [.op o, .popen] ++ ta, owed, depth + 1, false⟩ .comma
      = .ok ⟨pre ++ [.popen, .popen] ++ ta ++ [.pclose, .op o, .popen], owed ++ [depth], depth + 1, false⟩ := by
  have e : depth + 1 - 1 = depth := by omega
  simp only [feed, CallTokens.findOpOfComma_call pre ta o hta, CallTokens.getElem?_call,
    CallTokens.set_call, e, CallTokens.getLast?_ne h]
  simp

/-- after an unmatched `)` a comma is rejected, whatever the tokens so far -/
theorem feed_comma_dipped {α} (st : LexSt α) (h : st.dipped = true) :
    feed st .comma = .error (.err "comma_after_unmatched_paren") := by
  simp [feed, h]

mutual
theorem atom_tokens {α} (I : Interp α) : (a : Atom α) → (res : List (Tok α)) → (owed : List Int) →
    (depth : Int) → (∀ d ∈ owed, d < depth) → 0 ≤ depth →
    feedAll (rawAtom I a) ⟨res, owed, depth, false⟩ = .ok ⟨res ++ a.toks I, owed, depth, false⟩
  | .lit _ v, res, owed, depth, _, _ => by simp [rawAtom, Atom.toks, feedAll, feed]
  | .var x _, res, owed, depth, _, _ => by simp [rawAtom, Atom.toks, feedAll, feed]
  | .const k, res, owed, depth, _, _ => by simp [rawAtom, Atom.toks, feedAll, feed]
  | .par c, res, owed, depth, h, hd => by
    have ih := chain_tokens I c (res ++ [.popen]) owed (depth + 1)
      (fun d hd => by have := h d hd; omega) (by omega)
    have e : rawAtom I (.par c) = .popen :: (rawChain I c ++ [.pclose]) := by simp [rawAtom]
    rw [e, feedAll_cons_ok _ (feed_open ..), feedAll_append_ok _ ih,
      feedAll_cons_ok _ (feed_close_plain _ _ _ _ h hd)]
    simp [feedAll, Atom.toks]
  | .call o a b, res, owed, depth, h, hd => by
    have iha := chain_tokens I a (res ++ [.op o] ++ [.popen]) owed (depth + 1)
      (fun d hd => by have := h d hd; omega) (by omega)
    have ea : res ++ [Tok.op o] ++ [Tok.popen] ++ a.toks I
        = res ++ [Tok.op o, Tok.popen] ++ a.toks I := by simp
    rw [ea] at iha
    have ihb := chain_tokens I b
      (res ++ [.popen, .popen] ++ a.toks I ++ [.pclose, .op o, .popen]) (owed ++ [depth]) (depth + 1)
      (fun d hd => by
        rcases List.mem_append.1 hd with hd | hd
        · have := h d hd; omega
        · simp at hd; omega) (by omega)
    have e : rawAtom I (.call o a b)
        = .tok (.op o) :: .popen :: (rawChain I a ++ (.comma :: (rawChain I b ++ [.pclose]))) := by
      simp [rawAtom]
    rw [e, feedAll_cons_ok _ (feed_tok ..), feedAll_cons_ok _ (feed_open ..),
      feedAll_append_ok _ iha,
      feedAll_cons_ok _ (feed_comma_call _ _ _ _ _ (CallTokens.chain_skip I a) h),
      feedAll_append_ok _ ihb, feedAll_cons_ok _ (feed_close_owed _ _ _ _ hd)]
    simp [feedAll, Atom.toks]
  | .un u a, res, owed, depth, h, hd => by
    have ih := atom_tokens I a (res ++ [.op u]) owed depth h hd
    have e : rawAtom I (.un u a) = .tok (.op u) :: rawAtom I a := by simp [rawAtom]
    rw [e, feedAll_cons_ok _ (feed_tok ..), ih]
    simp [Atom.toks]
theorem chain_tokens {α} (I : Interp α) : (c : Chain α) → (res : List (Tok α)) → (owed : List Int) →
    (depth : Int) → (∀ d ∈ owed, d < depth) → 0 ≤ depth →
    feedAll (rawChain I c) ⟨res, owed, depth, false⟩ = .ok ⟨res ++ c.toks I, owed, depth, false⟩
  | .single a, res, owed, depth, h, hd => by
    simpa [rawChain, Chain.toks] using atom_tokens I a res owed depth h hd
  | .cons a o rest, res, owed, depth, h, hd => by
    have iha := atom_tokens I a res owed depth h hd
    have ihr := chain_tokens I rest (res ++ a.toks I ++ [.op o]) owed depth h hd
    have e : rawChain I (.cons a o rest) = rawAtom I a ++ (.tok (.op o) :: rawChain I rest) := by
      simp [rawChain]
    rw [e, feedAll_append_ok _ iha, feedAll_cons_ok _ (feed_tok ..), ihr]
    simp [Chain.toks]
end

/-- **C08.** Call notation at any nesting produces the tokens of `((a) op (b))`; depth, owed
    stack and the unmatched-`)` flag are restored. The requirements on the start state: no closing
    parenthesis is owed at the current depth or deeper, the source depth is not negative and no
    unmatched `)` has been seen (all true at the start of a text and, inductively, inside a
    well-formed expression; after an unmatched `)` every comma is rejected, `feed_comma_dipped`). -/
theorem call_tokens {α} (I : Interp α) (c : Chain α) (st : LexSt α)
    (hst : ∀ d ∈ st.owed, d < st.depth) (hdepth : 0 ≤ st.depth) (hdip : st.dipped = false) :
    feedAll (rawChain I c) st = .ok { st with res := st.res ++ c.toks I } := by
  obtain ⟨res, owed, depth, dp⟩ := st
  cases hdip
  exact chain_tokens I c res owed depth hst hdepth

/-- in particular the unmatched-`)` flag is still unset afterwards -/
theorem call_tokens_dipped {α} (I : Interp α) (c : Chain α) (st : LexSt α)
    (hst : ∀ d ∈ st.owed, d < st.depth) (hdepth : 0 ≤ st.depth) (hdip : st.dipped = false) :
    ∃ st', feedAll (rawChain I c) st = .ok st' ∧ st'.dipped = false ∧ st'.depth = st.depth :=
  ⟨_, call_tokens I c st hst hdepth hdip, hdip, rfl⟩

/-- from the initial state: the token stream is exactly the canonical one -/
theorem call_tokens_init {α} (I : Interp α) (c : Chain α) :
    feedAll (rawChain I c) ({} : LexSt α) = .ok { res := c.toks I, owed := [], depth := 0 } := by
  have := call_tokens I c ({} : LexSt α) (by simp) (by simp) rfl
  simpa using this

/-! ### non-vacuity: `max(1, min(2, 3))` — a call nested in the second argument of a call -/

/-- a concrete interpretation over `Nat` (operator 0 = `max`, operator 1 = `min`) -/
def natInterp : Interp Nat where
  bin := fun o x y => if o = 0 then max x y else min x y
  un := fun _ x => x
  const := fun _ => 0
  ofLit := fun _ => none
  dflt := 0

/-- `max(1, min(2, 3))` -/
def nestedCall : Chain Nat :=
  .single (.call 0 (.single (.lit [] 1)) (.single (.call 1 (.single (.lit [] 2)) (.single (.lit [] 3)))))

/-- the raw sequence `max ( 1 , min ( 2 , 3 ) )` really becomes `( ( 1 ) max ( ( ( 2 ) min ( 3 ) ) ) )` -/
example : feedAll (rawChain natInterp nestedCall) {} =
    .ok { res := nestedCall.toks natInterp, owed := [], depth := 0 } := by rfl

example : nestedCall.toks natInterp =
    [.popen, .popen, .num 1, .pclose, .op 0, .popen,
      .popen, .popen, .num 2, .pclose, .op 1, .popen, .num 3, .pclose, .pclose,
     .pclose, .pclose] := by decide

end Exmex.C08
