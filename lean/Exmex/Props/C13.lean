/-
  C13 — Operator names match exactly; numbers, signs and braces tokenise as documented.
-/
import Exmex.Model.Lex
import Exmex.Proofs.LexLemmas
namespace Exmex.C13

def isNumChar (c : Char) : Bool := isAsciiDigit c || c == '.'

/-- Number literals: the maximal run of digits and dots, accepted iff it has at most one dot and
    is not a lone dot. -/
theorem isNumericText_spec (s : Str) (n : Nat) :
    isNumericText s = some n ↔
      (n = (s.takeWhile isNumChar).length ∧ 1 ≤ n ∧
        ((s.takeWhile isNumChar).filter (· == '.')).length ≤ 1 ∧
        ¬ (n = 1 ∧ ((s.takeWhile isNumChar).filter (· == '.')).length = 1)) := by
  have hfun : (fun c => isAsciiDigit c || c == '.') = isNumChar := rfl
  have hle := List.length_filter_le (· == '.') (s.takeWhile isNumChar)
  simp only [isNumericText, hfun]
  split
  · rename_i hc
    simp only [Bool.or_eq_true, Bool.and_eq_true, decide_eq_true_eq, beq_iff_eq] at hc
    simp only [Option.some.injEq]
    omega
  · rename_i hc
    simp only [Bool.or_eq_true, Bool.and_eq_true, decide_eq_true_eq, beq_iff_eq] at hc
    simp only [reduceCtorEq, false_iff]
    omega

/-- `1.2.3` (two dots in the run) is not a number -/
example : isNumericText "1.2.3".toList = none := by decide
example : isNumericText ".5+x".toList = some 2 := by decide
example : isNumericText ".".toList = none := by decide

/-- What `findOps` returns is an operator of the table whose name is a prefix of the text and
    which is binary or not continued by an identifier character. -/
theorem findOps_sound (t : Table) (rest : Str) (i : Nat) (op : OpSpec)
    (h : findOps t rest = some (i, op)) :
    t[i]? = some op ∧ op.repr.isPrefixOf rest = true ∧
      (op.hasBin = true ∨ rest.drop op.repr.length = [] ∨
        ∃ c cs, rest.drop op.repr.length = c :: cs ∧ isIdentExact (op.repr ++ [c]) = false) := by
  rw [findOps_eq] at h
  exact ⟨(mem_sortedOps t i op).1 (List.mem_of_find?_eq_some h),
    (opMatches_iff rest i op).1 (List.find?_some h)⟩

/-- Longest match: no other operator of the table that also matches (prefix + look-ahead) has a
    name that properly extends the chosen one. -/
theorem findOps_longest (t : Table) (rest : Str) (i : Nat) (op : OpSpec)
    (h : findOps t rest = some (i, op)) (j : Nat) (op' : OpSpec) (hj : t[j]? = some op')
    (hpre : op'.repr.isPrefixOf rest = true)
    (hla : op'.hasBin = true ∨ rest.drop op'.repr.length = [] ∨
        ∃ c cs, rest.drop op'.repr.length = c :: cs ∧ isIdentExact (op'.repr ++ [c]) = false) :
    op'.repr.length ≤ op.repr.length := by
  -- `op'` matches, so it is not sorted before `op`: its name is not strictly greater …
  have hnlt := findOps_first t rest i op h j op' hj ((opMatches_iff rest j op').2 ⟨hpre, hla⟩)
  -- … but both names are prefixes of `rest`, and a proper extension would be strictly greater.
  have hp := List.isPrefixOf_iff_prefix.1 (findOps_sound t rest i op h).2.1
  have hp' := List.isPrefixOf_iff_prefix.1 hpre
  apply Nat.le_of_not_lt
  intro hlt
  have := strLt_of_prefix_of_length_lt (List.prefix_of_prefix_length_le hp hp' (Nat.le_of_lt hlt)) hlt
  rw [hnlt] at this
  cases this

/-- Shared core of the two `name_continued_not_matched` variants: an entry that is found in
    front of an identifier character and has the name `op.repr` must be binary. -/
theorem name_continued_found_hasBin (t : Table) (op : OpSpec) (c : Char) (cs : Str)
    (hid : isIdentExact (op.repr ++ [c]) = true)
    (i : Nat) (op' : OpSpec) (h : findOps t (op.repr ++ c :: cs) = some (i, op'))
    (he : op'.repr = op.repr) : op'.hasBin = true := by
  obtain ⟨_, _, hla⟩ := findOps_sound t _ i op' h
  rw [he, List.drop_left] at hla
  rcases hla with hb | hnil | ⟨c', cs', hcons, hne⟩
  · exact hb
  · cases hnil
  · obtain ⟨rfl, rfl⟩ := List.cons.inj hcons
    rw [hid] at hne
    cases hne

/-- CHANGED STATEMENT (extra hypothesis `hop`). The original statement (only `hbin`, about `op`
    itself) is false: the table may contain a *different* entry with the same name that is binary,
    and `findOps` then returns that entry (see the counterexample below). `hop` says that no entry
    of the table with the name of `op` is binary; the original `hbin` is kept for documentation.

    An identifier that merely *starts* with the name of a unary-only operator or a constant is
    not read as that operator: `sin4`, `PI5`, `expx`. -/
theorem name_continued_not_matched (t : Table) (op : OpSpec) (c : Char) (cs : Str)
    (hbin : op.hasBin = false) (hid : isIdentExact (op.repr ++ [c]) = true)
    (hop : ∀ (j : Nat) (o : OpSpec), t[j]? = some o → o.repr = op.repr → o.hasBin = false)
    (i : Nat) (op' : OpSpec) (h : findOps t (op.repr ++ c :: cs) = some (i, op')) :
    op'.repr ≠ op.repr := by
  have _ := hbin -- unused: subsumed by `hop` when `op` is in the table
  intro he
  have hb := name_continued_found_hasBin t op c cs hid i op' h he
  rw [hop i op' (findOps_sound t _ i op' h).1 he] at hb
  cases hb

/-- Variant with the original hypotheses and the weaker conclusion `op' ≠ op`: whatever is found,
    it is not the non-binary entry `op` itself. -/
theorem name_continued_not_matched_ne (t : Table) (op : OpSpec) (c : Char) (cs : Str)
    (hbin : op.hasBin = false) (hid : isIdentExact (op.repr ++ [c]) = true)
    (i : Nat) (op' : OpSpec) (h : findOps t (op.repr ++ c :: cs) = some (i, op')) :
    op' ≠ op := by
  intro he
  have hb := name_continued_found_hasBin t op c cs hid i op' h (congrArg OpSpec.repr he)
  rw [he, hbin] at hb
  cases hb

/-- Counterexample to the original statement of `name_continued_not_matched`: a unary `s` and a
    binary `s` in the same table; on the text `sx` the binary entry is returned. -/
example : ∃ (t : Table) (op : OpSpec) (c : Char) (cs : Str) (i : Nat) (op' : OpSpec),
    op.hasBin = false ∧ isIdentExact (op.repr ++ [c]) = true ∧
    findOps t (op.repr ++ c :: cs) = some (i, op') ∧ op'.repr = op.repr :=
  ⟨[{ repr := ['s'], unary := true }, { repr := ['s'], bin := some ⟨1, true⟩ }],
    { repr := ['s'], unary := true }, 'x', [], 1, { repr := ['s'], bin := some ⟨1, true⟩ },
    by decide⟩

/-- … and an exact name followed by a non-identifier character (or the end) *is* matched when it
    is the only candidate: `sin(`, `sin 4`. -/
theorem exact_name_matched (t : Table) (i : Nat) (op : OpSpec) (rest : Str)
    (hi : t[i]? = some op) (hne : op.repr ≠ [])
    (honly : ∀ j op', t[j]? = some op' → op'.repr.isPrefixOf (op.repr ++ rest) = true → j = i)
    (hla : op.hasBin = true ∨ rest = [] ∨ ∃ c cs, rest = c :: cs ∧ isIdentExact (op.repr ++ [c]) = false) :
    findOps t (op.repr ++ rest) = some (i, op) := by
  have _ := hne -- unused: the proof does not need the name to be non-empty
  rw [findOps_eq]
  apply find?_eq_some_of_unique _ _ _ ((mem_sortedOps t i op).2 hi)
  · rw [opMatches_iff, List.drop_left]
    exact ⟨List.isPrefixOf_iff_prefix.2 (List.prefix_append _ _), hla⟩
  · rintro ⟨j, op'⟩ hmem hm
    have hj := (mem_sortedOps t j op').1 hmem
    obtain rfl := honly j op' hj ((opMatches_iff _ j op').1 hm).1
    rw [hi] at hj
    rw [Option.some.inj hj]

/-- A sign (operator with both roles) is binary exactly when the token on its left is a number,
    a variable or a closing parenthesis; otherwise (start, operator, opening parenthesis) unary. -/
theorem sign_role {α} (t : Table) (o : Nat) (hb : tblHasBin t o = true) (hu : tblHasUnary t o = true)
    (left : Option (Tok α)) :
    isOperatorBinary t o left = .ok (match left with
      | some (.num _) => true
      | some (.var _) => true
      | some .pclose => true
      | _ => false) := by
  rcases left with _ | (_ | _ | _ | _ | _) <;> simp [isOperatorBinary, hb, hu]

/-- anything in curly braces is one variable, whatever characters it contains -/
theorem brace_var {α} (I : Interp α) (t : Table) (lm : Str → Option Nat) (u rest : Str)
    (hu : '}' ∉ u) (st : LexSt α) :
    lexStep I t lm ('{' :: u ++ '}' :: rest) st =
      .ok (u.length + 2, { st with res := st.res ++ [.var u] }) := by
  have h4 : ('{' != '}') = true := by decide
  have htw : ('{' :: u ++ '}' :: rest).takeWhile (· != '}') = '{' :: u := by
    rw [List.cons_append, List.takeWhile_cons, h4, if_pos rfl, takeWhile_ne_append u rest hu]
  simp only [lexStep, htw]
  simp

end Exmex.C13
