/-
  C12 — printed expressions parse back to the same expression.

  The text printed by a deep expression is the (space-free) rendering of a surface chain
  (`topChain`) that has the same value at every assignment; hence, whenever the tokenizer reads the
  printed text as the canonical tokens of that chain (`hlex`: the per-case run-time guard, and
  a theorem for tables/literals satisfying the conditions of `C13Lex`), parsing the printed text
  yields an expression with the variables occurring in the text and the same value everywhere.
-/
import Exmex.Props.C01Parse
import Exmex.Props.C02Deep
import Exmex.Props.C10
import Exmex.Proofs.Print
namespace Exmex.C12
open Exmex.Print Exmex.DeepCompile

/-- a flat expression obtained by parsing prints exactly the text it was parsed from -/
theorem flat_parse_text {α} (I : Interp α) (t : Table) (lm : Str → Option Nat) (text : Str) (f : FlatEx α)
    (h : Flat.parse I t lm text = .ok f) : f.text = text :=
  parse_text I t lm text f h

/-- a unary chain `u1(u2(...(a)))` as the printer writes it -/
def wrapUn {α} : List Nat → Chain α → Atom α
  | [], c => .par c
  | u :: us, c => .un u (match us with
      | [] => .par c
      | _ => .par (.single (wrapUn us c)))

mutual
/-- the chain of the nodes and operators of a group (no unary chain, no outer parentheses) -/
def bodyChain {α} (I : Interp α) : List (DeepNode α) → List DBin → Chain α
  | [], _ => .single (.lit [] I.dflt)
  | [n], _ => .single (nodeAtom I n)
  | n :: _, [] => .single (nodeAtom I n)
  | n :: ns, o :: os => .cons (nodeAtom I n) o.idx (bodyChain I ns os)
/-- a node as the printer writes it: literal by `dbg`, variable in braces, plain group in
    parentheses, group with unary chain as nested function applications -/
def nodeAtom {α} (I : Interp α) : DeepNode α → Atom α
  | .num a => .lit (I.dbg a) a
  | .var _ name => .var name true
  | .expr (.mk nodes ops un _) => wrapUn un (bodyChain I nodes ops)
end

/-- the chain a whole expression prints -/
def topChain {α} (I : Interp α) : DeepEx α → Chain α
  | .mk nodes ops [] _ => bodyChain I nodes ops
  | .mk nodes ops (u :: us) _ => .single (wrapUn (u :: us) (bodyChain I nodes ops))

/-! ### rendering -/

section render
variable {α : Type} (I : Interp α) (t : Table) (cfg : RenderCfg)

theorem wrapUn_nil (c : Chain α) : wrapUn [] c = .par c := by rw [wrapUn]
theorem wrapUn_one (u : Nat) (c : Chain α) : wrapUn [u] c = .un u (.par c) := by rw [wrapUn]
theorem wrapUn_two (u u' : Nat) (us : List Nat) (c : Chain α) :
    wrapUn (u :: u' :: us) c = .un u (.par (.single (wrapUn (u' :: us) c))) := by
  rw [wrapUn]
  exact fun h => by cases h

/-- a non-empty unary chain renders as `u1(u2(` body `))` -/
theorem wrapUn_render (c : Chain α) (h : (c.render t cfg []).2 = []) : ∀ (u : Nat) (us : List Nat),
    (wrapUn (u :: us) c).render t cfg [] =
      (unPre t (u :: us) ++ (c.render t cfg []).1 ++ List.replicate (u :: us).length ')', [])
  | u, [] => by
    rw [wrapUn_one, render_un, render_par t cfg c h, unPre_cons]
    simp [unPre]
  | u, u' :: us => by
    have ih := wrapUn_render c h u' us
    rw [wrapUn_two, render_un, render_par t cfg _ (by rw [render_single, ih]), render_single, ih,
      unPre_cons t u]
    simp only [List.length_cons, List.replicate_succ' (n := us.length + 1), List.append_assoc]

theorem wrapUn_render_nil (c : Chain α) (h : (c.render t cfg []).2 = []) :
    (wrapUn [] c).render t cfg [] = (['('] ++ (c.render t cfg []).1 ++ [')'], []) := by
  rw [wrapUn_nil, render_par t cfg c h]

theorem wrapUn_render_snd (c : Chain α) (h : (c.render t cfg []).2 = []) (us : List Nat) :
    ((wrapUn us c).render t cfg []).2 = [] := by
  cases us with
  | nil => rw [wrapUn_render_nil t cfg c h]
  | cons u us => rw [wrapUn_render t cfg c h]

mutual
theorem node_render {n : Nat} : ∀ nd : DeepNode α, nd.ShapeN n →
    (nodeAtom I nd).render t cfg [] = (nd.unparseNode I t, [])
  | .num a, _ => by rw [nodeAtom, DeepNode.unparseNode, render_lit]
  | .var i name, _ => by rw [nodeAtom, DeepNode.unparseNode, render_var]
  | .expr (.mk nodes ops un vars), h => by
    rw [DeepNode.ShapeN, DeepEx.Shape] at h
    have hb := body_render nodes h.2.2 ops h.1
    rw [nodeAtom, DeepNode.unparseNode, DeepEx.unparse]
    cases un with
    | nil =>
      rw [wrapUn_render_nil t cfg _ (by rw [hb]), hb]
      rfl
    | cons u us =>
      rw [wrapUn_render t cfg _ (by rw [hb]), hb]
      simp only [DeepEx.un, List.isEmpty_cons, Bool.false_eq_true, if_false]
      rfl
theorem body_render {n : Nat} : ∀ ns : List (DeepNode α), shapeList n ns → ∀ ops : List DBin,
    ns.length = ops.length + 1 →
    (bodyChain I ns ops).render t cfg [] = (joinWithOps t (unparseNodeList I t ns) ops, [])
  | [], _, _, hl => by simp at hl
  | [nd], h, ops, _ => by
    rw [shapeList] at h
    rw [bodyChain, render_single, node_render nd h.1, unparseNodeList, unparseNodeList, joinWithOps]
  | nd :: nd' :: ns, h, [], hl => by simp at hl
  | nd :: nd' :: ns, h, o :: os, hl => by
    rw [shapeList] at h
    have h1 := node_render (n := n) nd h.1
    have h2 := body_render (nd' :: ns) h.2 os (by simpa using hl)
    have hbc : bodyChain I (nd :: nd' :: ns) (o :: os) =
        .cons (nodeAtom I nd) o.idx (bodyChain I (nd' :: ns) os) := by
      rw [bodyChain]
      exact fun h => by cases h
    have hj : joinWithOps t (unparseNodeList I t (nd :: nd' :: ns)) (o :: os) =
        nd.unparseNode I t ++ reprOf t o.idx ++ joinWithOps t (unparseNodeList I t (nd' :: ns)) os := by
      rw [unparseNodeList, unparseNodeList, joinWithOps]
      exact fun h => by cases h
    rw [hbc, render_cons t cfg _ _ _ (by rw [h1]), h1, h2, hj]
end

end render

/-- the printed text is the space-free rendering of `topChain` -/
theorem unparse_eq_render {α} (I : Interp α) (t : Table) (d : DeepEx α) {n : Nat} (hs : d.Shape n) :
    d.unparse I t = ((topChain I d).render t { callForm := false } []).1 := by
  obtain ⟨nodes, ops, un, vars⟩ := d
  rw [DeepEx.Shape] at hs
  have hb := body_render I t { callForm := false } nodes hs.2.2 ops hs.1
  cases un with
  | nil => rw [topChain, hb, DeepEx.unparse]; rfl
  | cons u us =>
    rw [topChain, render_single, wrapUn_render t _ _ (by rw [hb]), hb, DeepEx.unparse]
    simp only [List.isEmpty_cons, Bool.false_eq_true, if_false]
    rfl

mutual
/-- the operators stored in the expression are the table's (same priority and flag), unary
    operators have a unary role -/
def FromTable {α} (t : Table) : DeepEx α → Prop
  | .mk nodes ops un _ => (∀ o ∈ ops, tblBin t o.idx = some o) ∧ (∀ u ∈ un, tblHasUnary t u = true) ∧ fromTableList t nodes
def fromTableList {α} (t : Table) : List (DeepNode α) → Prop
  | [] => True
  | .expr e :: rest => FromTable t e ∧ fromTableList t rest
  | _ :: rest => fromTableList t rest
end

/-! ### value of the printed chain -/

section denote
variable {α : Type} (I : Interp α) (t : Table)

theorem tblBin_inv {i : Nat} {o : DBin} (h : tblBin t i = some o) :
    ∃ b, (t[i]?).bind (·.bin) = some b ∧ o = DeepParse.mkDBin t i ∧ o.idx = i ∧ o.prio = b.prio := by
  cases hb : (t[i]?).bind (·.bin) with
  | none => unfold tblBin at h; rw [hb] at h; cases h
  | some b =>
    have h2 := DeepParse.tblBin_of_bin hb
    rw [h] at h2
    cases h2
    refine ⟨b, rfl, rfl, rfl, ?_⟩
    show tblPrio t i = b.prio
    unfold tblPrio; rw [hb]; rfl

theorem tblBin_mk {o : DBin} (h : tblBin t o.idx = some o) : o = DeepParse.mkDBin t o.idx := by
  obtain ⟨b, -, h2, -, -⟩ := tblBin_inv t h
  exact h2

theorem hasBin_of_bin {i : Nat} {b : BinSpec} (h : (t[i]?).bind (·.bin) = some b) :
    tblHasBin t i = true := by
  unfold tblHasBin
  cases ht : t[i]? with
  | none => rw [ht] at h; cases h
  | some p =>
    rw [ht] at h
    show p.bin.isSome = true
    have : p.bin = some b := h
    rw [this]; rfl

theorem denoteS_single (ρ : Env α) (a : Atom α) :
    (Chain.single a).denoteS I t ρ = a.denoteS I t ρ := by
  rw [Chain.denoteS, Chain.operandsS]
  cases a.denoteS I t ρ with
  | none => rfl
  | some v => simp [splitEval]

/-- what the induction carries for an operand -/
def AtomGood (top : List Str) (ρ : Env α) (a : Atom α) (v : α) : Prop :=
  a.WF t ∧ a.Roles t ∧ (∀ x ∈ a.varOcc, x ∈ top) ∧ a.denoteS I t ρ = some v

/-- the same for a chain -/
def ChainGood (top : List Str) (ρ : Env α) (c : Chain α) (v : α) : Prop :=
  c.WF t ∧ c.Roles t ∧ (∀ x ∈ c.varOcc, x ∈ top) ∧ c.denoteS I t ρ = some v

theorem atomGood_par {top : List Str} {ρ : Env α} {c : Chain α} {v : α}
    (h : ChainGood I t top ρ c v) : AtomGood I t top ρ (.par c) v := by
  obtain ⟨h1, h2, h3, h4⟩ := h
  refine ⟨?_, ?_, ?_, ?_⟩
  · rw [Atom.WF]; exact h1
  · rw [Atom.Roles]; exact h2
  · rw [Atom.varOcc]; exact h3
  · rw [Atom.denoteS]; exact h4

theorem chainGood_single {top : List Str} {ρ : Env α} {a : Atom α} {v : α}
    (h : AtomGood I t top ρ a v) : ChainGood I t top ρ (.single a) v := by
  obtain ⟨h1, h2, h3, h4⟩ := h
  refine ⟨?_, ?_, ?_, ?_⟩
  · rw [Chain.WF]; exact h1
  · rw [Chain.Roles]; exact h2
  · rw [Chain.varOcc]; exact h3
  · rw [denoteS_single]; exact h4

theorem atomGood_un {top : List Str} {ρ : Env α} {a : Atom α} {v : α} {u : Nat}
    (hu : tblHasUnary t u = true) (h : AtomGood I t top ρ a v) :
    AtomGood I t top ρ (.un u a) (I.un u v) := by
  obtain ⟨h1, h2, h3, h4⟩ := h
  refine ⟨?_, ?_, ?_, ?_⟩
  · rw [Atom.WF]; exact h1
  · rw [Atom.Roles]; exact ⟨hu, h2⟩
  · rw [Atom.varOcc]; exact h3
  · rw [Atom.denoteS, h4]; rfl

/-- a unary chain in front of a chain -/
theorem atomGood_wrapUn {top : List Str} {ρ : Env α} {c : Chain α} {v : α}
    (h : ChainGood I t top ρ c v) : ∀ us : List Nat, (∀ u ∈ us, tblHasUnary t u = true) →
    AtomGood I t top ρ (wrapUn us c) (applyUn I us v)
  | [], _ => by rw [wrapUn_nil]; exact atomGood_par I t h
  | [u], hu => by
    rw [wrapUn_one]
    exact atomGood_un I t (hu u List.mem_cons_self) (atomGood_par I t h)
  | u :: u' :: us, hu => by
    rw [wrapUn_two]
    have ih := atomGood_wrapUn h (u' :: us) (fun x hx => hu x (List.mem_cons_of_mem _ hx))
    exact atomGood_un I t (hu u List.mem_cons_self)
      (atomGood_par I t (chainGood_single I t ih))

theorem prioOKList_cons (nd : DeepNode α) (rest : List (DeepNode α)) :
    prioOKList (nd :: rest) ↔ prioOKList [nd] ∧ prioOKList rest := by
  cases nd <;> simp [prioOKList]

theorem fromTableList_cons (nd : DeepNode α) (rest : List (DeepNode α)) :
    fromTableList t (nd :: rest) ↔ fromTableList t [nd] ∧ fromTableList t rest := by
  cases nd <;> simp [fromTableList]

variable (hA : C01.FlaggedAssoc I t) (top : List Str) (ρ : Env α)
include hA
set_option linter.unusedSectionVars false

mutual
theorem group_good : ∀ e : DeepEx α, C10.Named top e → e.PrioOK → FromTable t e →
    ∃ v, e.evalRelaxed I (top.map ρ) = .ok (applyUn I e.un v) ∧
      ChainGood I t top ρ (bodyChain I e.nodes e.ops) v
  | .mk nodes ops un vars, hn, hp, ht => by
    rw [C10.Named] at hn
    rw [DeepEx.PrioOK] at hp
    rw [FromTable] at ht
    obtain ⟨vs, hes, hwf, hr, hv, hops⟩ := body_good nodes hn.2.2 hp.2 ht.2.2 ops hn.1
      (fun o ho => ⟨ht.1 o ho, hp.1 o ho⟩)
    have hmk : ops = (ops.map (·.idx)).map (DeepParse.mkDBin t) := by
      rw [List.map_map]
      have hid : ∀ o ∈ ops, (DeepParse.mkDBin t ∘ fun x => x.idx) o = id o :=
        fun o ho => (tblBin_mk t (ht.1 o ho)).symm
      rw [List.map_congr_left hid, List.map_id]
    have hDA : DeepAssoc I ops := by
      rw [hmk]; exact DeepParse.deepAssoc_mk I t hA _
    have hvl : vars.length ≤ (top.map ρ).length := by rw [List.length_map]; exact hn.2.1
    have hnl : vs.length = ops.length + 1 := by
      rw [evalNodeList_length I _ nodes vs hes]; exact hn.1
    obtain ⟨v, hsp, hev⟩ := eval_mk I (top.map ρ) nodes ops un vars vs hvl hes hnl hDA
    refine ⟨v, hev, hwf, hr, hv, ?_⟩
    show (bodyChain I nodes ops).denoteS I t ρ = some v
    rw [Chain.denoteS, hops]
    have hsp' : splitEval (fun (o : DBin) a b => I.bin o.idx a b) (fun o => o.prio) ops.length vs
        ((ops.map (·.idx)).map (DeepParse.mkDBin t)) = some v := by rw [← hmk]; exact hsp
    rw [splitEval_map] at hsp'
    show splitEval I.bin (tblPrio t) (ops.map (·.idx)).length vs (ops.map (·.idx)) = some v
    rw [List.length_map]
    exact hsp'
theorem node_good : ∀ nd : DeepNode α, C10.NamedNode top nd → prioOKList [nd] →
    fromTableList t [nd] →
    ∃ v, nd.evalNode I (top.map ρ) = .ok v ∧ AtomGood I t top ρ (nodeAtom I nd) v
  | .num a, _, _, _ => by
    refine ⟨a, by rw [DeepNode.evalNode], ?_, ?_, ?_, ?_⟩
    · rw [nodeAtom, Atom.WF]; trivial
    · rw [nodeAtom, Atom.Roles]; trivial
    · rw [nodeAtom, Atom.varOcc]; intro x hx; cases hx
    · rw [nodeAtom, Atom.denoteS]
  | .var i name, hn, _, _ => by
    rw [C10.NamedNode] at hn
    refine ⟨ρ name, ?_, ?_, ?_, ?_, ?_⟩
    · rw [DeepNode.evalNode, List.getElem?_map, hn]; rfl
    · rw [nodeAtom, Atom.WF]; trivial
    · rw [nodeAtom, Atom.Roles]; trivial
    · rw [nodeAtom, Atom.varOcc]
      intro x hx
      rw [List.mem_singleton] at hx
      subst hx
      exact List.mem_of_getElem? hn
    · rw [nodeAtom, Atom.denoteS]
  | .expr (.mk nodes ops un vars), hn, hp, ht => by
    rw [C10.NamedNode] at hn
    rw [prioOKList] at hp
    rw [fromTableList] at ht
    obtain ⟨v, hev, hg⟩ := group_good (.mk nodes ops un vars) hn hp.1 ht.1
    refine ⟨applyUn I un v, by rw [DeepNode.evalNode]; exact hev, ?_⟩
    rw [nodeAtom]
    have htt := ht.1
    rw [FromTable] at htt
    exact atomGood_wrapUn I t hg un htt.2.1
theorem body_good : ∀ ns : List (DeepNode α), C10.namedList top ns → prioOKList ns →
    fromTableList t ns → ∀ ops : List DBin, ns.length = ops.length + 1 →
    (∀ o ∈ ops, tblBin t o.idx = some o ∧ 0 ≤ o.prio ∧ o.prio ≤ 99) →
    ∃ vs, evalNodeList I (top.map ρ) ns = .ok vs ∧ (bodyChain I ns ops).WF t ∧
      (bodyChain I ns ops).Roles t ∧ (∀ x ∈ (bodyChain I ns ops).varOcc, x ∈ top) ∧
      (bodyChain I ns ops).operandsS I t ρ = some (vs, ops.map (·.idx))
  | [], _, _, _, _, hl, _ => by simp at hl
  | [nd], hn, hp, ht, ops, hl, _ => by
    have hops : ops = [] := List.eq_nil_of_length_eq_zero (by simpa using hl.symm)
    subst hops
    rw [C10.namedList] at hn
    obtain ⟨v, hev, h1, h2, h3, h4⟩ := node_good nd hn.1 hp ht
    refine ⟨[v], by rw [evalNodeList, hev, evalNodeList], ?_, ?_, ?_, ?_⟩
    · rw [bodyChain, Chain.WF]; exact h1
    · rw [bodyChain, Chain.Roles]; exact h2
    · rw [bodyChain, Chain.varOcc]; exact h3
    · rw [bodyChain, Chain.operandsS, h4]; rfl
  | nd :: nd' :: ns, hn, hp, ht, [], hl, _ => by simp at hl
  | nd :: nd' :: ns, hn, hp, ht, o :: os, hl, ho => by
    rw [C10.namedList] at hn
    rw [prioOKList_cons] at hp
    rw [fromTableList_cons] at ht
    obtain ⟨v, hev, h1, h2, h3, h4⟩ := node_good nd hn.1 hp.1 ht.1
    obtain ⟨vs, hes, g1, g2, g3, g4⟩ := body_good (nd' :: ns) hn.2 hp.2 ht.2 os
      (by simpa using hl) (fun x hx => ho x (List.mem_cons_of_mem _ hx))
    have hbc : bodyChain I (nd :: nd' :: ns) (o :: os) =
        .cons (nodeAtom I nd) o.idx (bodyChain I (nd' :: ns) os) := by
      rw [bodyChain]
      exact fun h => by cases h
    obtain ⟨hto, hlo, hhi⟩ := ho o List.mem_cons_self
    obtain ⟨b, hb, -, -, hpr⟩ := tblBin_inv t hto
    rw [hbc]
    refine ⟨v :: vs, by rw [evalNodeList, hev, hes], ?_, ?_, ?_, ?_⟩
    · rw [Chain.WF]
      exact ⟨⟨b, hb, by rw [← hpr]; exact hlo, by rw [← hpr]; exact hhi⟩, h1, g1⟩
    · rw [Chain.Roles]; exact ⟨hasBin_of_bin t hb, h2, g2⟩
    · rw [Chain.varOcc]
      intro x hx
      rcases List.mem_append.1 hx with hx | hx
      · exact h3 x hx
      · exact g3 x hx
    · rw [Chain.operandsS, h4, g4]; rfl
end

end denote

/-- the printed chain is well-formed and has the value of the expression at every assignment -/
theorem topChain_denote {α} (I : Interp α) (t : Table) (hA : C01.FlaggedAssoc I t) (d : DeepEx α)
    (hn : C10.Named d.vars d) (hp : d.PrioOK) (ht : FromTable t d)
    (ρ : Str → α) :
    (topChain I d).WF t ∧ (topChain I d).Roles t ∧
    (∀ x ∈ (topChain I d).vars, x ∈ d.vars) ∧
    ∃ v, d.evalRelaxed I (d.vars.map ρ) = .ok v ∧
      (topChain I d).denote I t ρ = some v := by
  obtain ⟨v, hev, hg⟩ := group_good I t hA d.vars ρ d hn hp ht
  obtain ⟨nodes, ops, un, vars⟩ := d
  have hu : ∀ u ∈ un, tblHasUnary t u = true := by rw [FromTable] at ht; exact ht.2.1
  have key : ChainGood I t vars ρ (topChain I (.mk nodes ops un vars)) (applyUn I un v) := by
    cases un with
    | nil => rw [topChain]; exact hg
    | cons u us =>
      rw [topChain]
      exact chainGood_single I t (atomGood_wrapUn I t hg (u :: us) hu)
  obtain ⟨k1, k2, k3, k4⟩ := key
  refine ⟨k1, k2, ?_, applyUn I un v, hev, ?_⟩
  · intro x hx
    exact k3 x ((C01Assembly.mem_sortDedup x _).1 hx)
  · rw [← denoteS_eq_denote]; exact k4

/-- `Named` expressions have the shape `unparse_eq_render` asks for -/
theorem shape_of_named {α} (d : DeepEx α) (hn : C10.Named d.vars d) : d.Shape d.vars.length :=
  CalcLemmas.genEx_shape (Q := CalcLemmas.NQ d.vars) (V := CalcLemmas.NV d.vars) (fun _ hv => hv)
    (fun i nm (hv : d.vars[i]? = some nm) => (List.getElem?_eq_some_iff.1 hv).1) d
    ((C10.named_iff_gen _ d).1 hn)

/-- **C12 (deep print → parse).** -/
theorem unparse_parse_sound {α} (I : Interp α) (t : Table) (lm : Str → Option Nat)
    (hA : C01.FlaggedAssoc I t) (d : DeepEx α)
    (hn : C10.Named d.vars d) (hp : d.PrioOK) (ht : FromTable t d)
    (hlex : tokenize I t lm (d.unparse I t) = .ok ((topChain I d).toks I))
    (ρ : Str → α) :
    ∃ f v, Flat.parse I t lm (d.unparse I t) = .ok f ∧ (∀ x ∈ f.vars, x ∈ d.vars) ∧
      f.text = d.unparse I t ∧
      d.evalRelaxed I (d.vars.map ρ) = .ok v ∧ f.eval I (f.vars.map ρ) = .ok v := by
  obtain ⟨hwf, hr, hvars, v, hev, hden⟩ := topChain_denote I t hA d hn hp ht ρ
  obtain ⟨f, -, v', hparse, -, hfv, hden', hfe, -⟩ :=
    C01.parse_eval_eq_denote I t lm hA (topChain I d) hwf hr (d.unparse I t) hlex
      ((topChain I d).vars.map ρ) (by rw [List.length_map])
  have hcongr : (topChain I d).denote I t (envOf (topChain I d).vars ((topChain I d).vars.map ρ) I.dflt) =
      (topChain I d).denote I t ρ :=
    chain_denote_congr I t _ ρ (topChain I d) (fun x hx =>
      envOf_map _ ρ I.dflt x ((C01Assembly.mem_sortDedup x _).2 hx))
  rw [hcongr, hden] at hden'
  cases hden'
  refine ⟨f, v, hparse, ?_, flat_parse_text I t lm _ f hparse, hev, ?_⟩
  · rw [hfv]; exact hvars
  · rw [hfv]; exact hfe

/-! ### non-vacuity: `{x}*-(-(2+{x}))` over `Int` (table and interpretation of `C01.Demo`) -/
namespace Demo
open C01.Demo

/-- `{x}*-(-(2+{x}))`: a variable, a nested group with a unary chain of length two -/
def ex : DeepEx Int :=
  .mk [.var 0 ['x'], .expr (.mk [.num 2, .var 0 ['x']] [⟨0, 0, true⟩] [1, 1] [['x']])]
    [⟨2, 1, true⟩] [] [['x']]

theorem named : C10.Named ex.vars ex := by
  simp [ex, DeepEx.vars, C10.Named, C10.namedList, C10.NamedNode]

theorem prioOK : ex.PrioOK := by
  simp [ex, DeepEx.PrioOK, prioOKList]

theorem fromTable : FromTable tbl ex := by
  simp [ex, FromTable, fromTableList, tblBin, tblHasUnary, tbl, OpSpec.hasUnary]

/-- the hypotheses of `topChain_denote` are satisfiable (with variables and unary chains) -/
example (ρ : Str → Int) : ∃ v, ex.evalRelaxed interp (ex.vars.map ρ) = .ok v ∧
    (topChain interp ex).denote interp tbl ρ = some v :=
  (topChain_denote interp tbl flaggedAssoc ex named prioOK fromTable ρ).2.2.2

end Demo

end Exmex.C12
