/-
  C04 — Variables are found, ordered and bound exactly as documented.
-/
import Exmex.Model.Flat
import Exmex.Model.Deep
import Exmex.Proofs.Vars
namespace Exmex.C04

/-- `strLt` is a strict total order (it models Rust's `str` ordering) -/
theorem strLt_irrefl (a : Str) : strLt a a = false := by
  exact strLt_irrefl' a
theorem strLt_trans (a b c : Str) : strLt a b = true → strLt b c = true → strLt a c = true := by
  exact strLt_trans' a b c
theorem strLt_total (a b : Str) : strLt a b = true ∨ a = b ∨ strLt b a = true := by
  exact strLt_total' a b

/-- the variable list is strictly ascending in `str` order (sorted and duplicate-free) -/
theorem findVars_sorted {α} (toks : List (Tok α)) :
    (findVars toks).Pairwise (fun a b => strLt a b = true) := by
  rw [findVars_eq]
  exact sortBy_strLe_strict _ (nodup_foldl_varStep toks [] List.nodup_nil)

/-- the variable list contains exactly the names that occur -/
theorem mem_findVars {α} (toks : List (Tok α)) (x : Str) :
    x ∈ findVars toks ↔ Tok.var x ∈ toks := by
  rw [findVars_eq, (sortBy_perm strLe _).mem_iff, mem_foldl_varStep]
  simp

/-- wrong number of values: an error, never a wrong result or a crash (flat) -/
theorem flat_eval_wrong_arity {α} (I : Interp α) (f : FlatEx α) (vs : List α)
    (h : f.vars.length ≠ vs.length) : f.eval I vs = .error (.err "arity") := by
  simp [FlatEx.eval, h]

/-- consuming variants likewise -/
theorem flat_evalConsuming_wrong_arity {α} (I : Interp α) (f : FlatEx α) (vs : List α)
    (h : f.vars.length ≠ vs.length) : f.evalConsuming I vs = .error (.err "arity") := by
  simp [FlatEx.evalConsuming, h]

/-- relaxed evaluation rejects too few values (flat) -/
theorem flat_evalRelaxed_too_few {α} (I : Interp α) (f : FlatEx α) (vs : List α)
    (h : vs.length < f.vars.length) : f.evalRelaxed I vs = .error (.err "arity") := by
  simp [FlatEx.evalRelaxed, h]

/-- relaxed evaluation ignores surplus values (flat), given in-range variable indices -/
theorem flat_evalRelaxed_surplus {α} (I : Interp α) (f : FlatEx α) (vs : List α)
    (h : f.vars.length ≤ vs.length)
    (hidx : ∀ nd ∈ f.nodes, ∀ i, nd.kind = .var i → i < f.vars.length) :
    f.evalRelaxed I vs = f.eval I (vs.take f.vars.length) := by
  have hlen : (vs.take f.vars.length).length = f.vars.length := by
    rw [List.length_take]; omega
  simp only [FlatEx.evalRelaxed, FlatEx.eval, hlen, evalCloning,
    nodeValues_take I f.nodes vs f.vars.length hidx]
  rw [if_neg (by omega)]
  simp

/-- wrong number of values: an error (deep) -/
theorem deep_eval_wrong_arity {α} (I : Interp α) (e : DeepEx α) (vs : List α)
    (h : e.vars.length ≠ vs.length) : e.eval I vs = .error (.err "arity") := by
  simp [DeepEx.eval, h]

/-- relaxed evaluation rejects too few values (deep) -/
theorem deep_evalRelaxed_too_few {α} (I : Interp α) (e : DeepEx α) (vs : List α)
    (h : vs.length < e.vars.length) : e.evalRelaxed I vs = .error (.err "arity") := by
  cases e with
  | mk nodes ops un vars =>
    simp only [DeepEx.vars] at h
    simp [DeepEx.evalRelaxed, h]

/-- a braced name and a bare identifier are the same token: `{x}` lexes to `Tok.var x` for every
    text `x` without `}` -/
theorem braced_is_var {α} (I : Interp α) (t : Table) (lm : Str → Option Nat) (x rest : Str)
    (hx : '}' ∉ x) (st : LexSt α) :
    lexStep I t lm ('{' :: x ++ '}' :: rest) st =
      .ok (x.length + 2, { st with res := st.res ++ [.var x] }) := by
  have htw := takeWhile_braced x rest hx
  simp only [lexStep]
  rw [htw]
  simp

/-- a bare identifier that no literal or operator claims lexes to `Tok.var` of its longest
    identifier prefix -/
theorem bare_is_var {α} (I : Interp α) (t : Table) (lm : Str → Option Nat) (c : Char) (cs : Str)
    (st : LexSt α) (hc : isIdentStart c = true) (hlm : lm (c :: cs) = none)
    (hop : findOps t (c :: cs) = none) :
    lexStep I t lm (c :: cs) st =
      .ok (1 + (cs.takeWhile isIdentCont).length,
        { st with res := st.res ++ [.var (c :: cs.takeWhile isIdentCont)] }) := by
  obtain ⟨h1, h2, h3, h4⟩ := identStart_not_punct c hc
  have htk : (c :: cs).take (1 + (cs.takeWhile isIdentCont).length) =
      c :: cs.takeWhile isIdentCont := by
    rw [Nat.add_comm, List.take_succ_cons, take_length_takeWhile]
  simp [lexStep, h1, h2, h3, h4, hlm, hop, identPrefixLen, hc, htk]

end Exmex.C04
