/-
  C15 — Consuming evaluation (`eval_vec`, `eval_iter`) agrees with borrowing evaluation (`eval`).
-/
import Exmex.Model.Flat
import Exmex.Proofs.Consume
namespace Exmex.C15

/-- number of occurrences of variable `i` among the nodes -/
def occ {α} (nodes : List (FlatNode α)) (i : Nat) : Nat := (varOccurrences nodes).count (some i)

/-- clones the property allows: one per occurrence beyond the first, for each variable -/
def allowedClones {α} (nodes : List (FlatNode α)) (nvars : Nat) : Nat :=
  ((List.range nvars).map (fun i => occ nodes i - 1)).sum

/-- all variable indices of the nodes are in range -/
def IdxOK {α} (nodes : List (FlatNode α)) (n : Nat) : Prop :=
  ∀ nd ∈ nodes, ∀ i, nd.kind = .var i → i < n

/-- The node loop of the consuming evaluation builds exactly the operand vector of the borrowing
    evaluation (so a moved-out placeholder `I.dflt` is never read), and clones a variable's value
    once per occurrence beyond the first (a variable occurring once is moved, not cloned). -/
theorem consumeNodes_spec {α} (I : Interp α) (nodes : List (FlatNode α)) (vs : List α)
    (h : IdxOK nodes vs.length) :
    ∃ st, consumeNodes I nodes { varIdx := varOccurrences nodes, vars := vs } = .ok st ∧
      nodeValues I nodes vs = some st.numbers ∧
      st.clones = allowedClones nodes vs.length := by
  obtain ⟨st, vals, h1, h2, h3, h4⟩ :=
    Consume.consumeNodes_inv I vs nodes { varIdx := varOccurrences nodes, vars := vs } h
      (fun _ _ => ⟨rfl, rfl⟩)
  refine ⟨st, h1, ?_, ?_⟩
  · rw [h2, h3]; rfl
  · rw [h4]; simp [allowedClones, occ]

/-- **C15.** `eval_vec`/`eval_iter` = `eval`, for every expression and assignment, with exactly
    the allowed number of clones; wrong slice length is the same error on both paths. -/
theorem consuming_eq_cloning {α} (I : Interp α) (f : FlatEx α) (vs : List α)
    (h : IdxOK f.nodes f.vars.length) :
    f.evalConsuming I vs =
      (match f.eval I vs with
       | .ok v => .ok (v, allowedClones f.nodes vs.length)
       | .error e => .error e) := by
  unfold FlatEx.evalConsuming FlatEx.eval
  by_cases hlen : f.vars.length = vs.length
  · obtain ⟨st, h1, h2, h3⟩ := consumeNodes_spec I f.nodes vs (hlen ▸ h)
    simp only [hlen, bne_self_eq_false, Bool.false_eq_true, if_false, h1, evalCloning, h2, h3]
    cases evalNumbers I st.numbers f.ops f.prioIdx <;> rfl
  · simp [hlen]

/-- non-vacuity: `x * x + y` with x twice, y once: one clone -/
example : allowedClones [({ kind := .var 0 } : FlatNode Nat), { kind := .var 0 }, { kind := .var 1 }] 2 = 1 := by
  decide

end Exmex.C15
