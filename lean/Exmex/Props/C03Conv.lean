/-
  C03 — conversions, for EVERY accepted text: whatever `FlatEx::parse` / `DeepEx::parse` accept
  (also sloppy texts such as `* 1 2` or `+ s(x+2)(3+4)`), converting to the other form and back
  keeps the variable list and the value at every assignment.

  No hypothesis on the text is needed. For sloppy texts the flat parser's output violates
  `UnaryOK` / `BumpOK` (`FoldAnyCex`), so `C03.toDeep_sound` (stated with `C02.FlatInv`) does not
  apply — but its core `ToDeep.toDeep_core` uses neither: `flatex_to_deepex` replays exactly the
  order `prioritized_indices_flat` (the bumped keys) and builds one two-node group per operator,
  so the value of the result is the value of `eval_flatex_cloning` by construction. What it needs
  (lengths, key order, associative flagged operators, operators from the table, duplicate-free
  variables, variable indices in range) holds for every accepted text (`ConvAny.parse_facts`,
  via `FoldAny.compile_any`). The deep expression obtained is reachable, hence satisfies
  `Reach.Inv`, and `C03.fromDeep_sound` applies. For the deep parser: `Reach.Inv` gives
  `fromDeep_sound`, whose result satisfies `FlatInv`; its operators are operators of the table
  (`ConvAny.flatten_tbl`), so `toDeep_sound` applies.

  (The two directions start from different parsers: for `*(1+2)(3)` the flat parser reads
  `1*(2+3)` and the deep parser `(1+2)*3` (`AnyTextCex`); each reading is preserved by the round
  trip.)
-/
import Exmex.Props.Reach
import Exmex.Props.C02Any
import Exmex.Props.C03
import Exmex.Props.C03ToDeep
import Exmex.Proofs.ConvAny
namespace Exmex.C03

/-- flat → deep → flat, from any accepted text -/
theorem flat_conversions_any {α} (I : Interp α) (t : Table) (lm : Str → Option Nat)
    (ht : Reach.TblOK I t) (text : Str) (f : FlatEx α) (hf : Flat.parse I t lm text = .ok f) :
    ∃ d, f.toDeep I t = .ok d ∧ d.vars = f.vars ∧ (FlatEx.fromDeep I t d).vars = f.vars ∧
      ∀ vals : List α, vals.length = f.vars.length →
        ∃ v, f.eval I vals = .ok v ∧ d.eval I vals = .ok v ∧ (FlatEx.fromDeep I t d).eval I vals = .ok v := by
  obtain ⟨hlen, hprio, hA, htbl, hnd, hidx⟩ := ConvAny.parse_facts I t lm ht text f hf
  -- one run with default values to name the deep expression
  obtain ⟨d, hd, hdv, -, -, -⟩ := ToDeep.toDeep_core I t f hlen hprio hA htbl hnd
    (List.replicate f.vars.length I.dflt) (by simp) hidx
  have hgood := ReachLemmas.good_fromFlat I t ht.assoc ht.prio lm text f d hf hd
  have hinv := Reach.inv_of_good I t ht d hgood
  refine ⟨d, hd, hdv, hdv, ?_⟩
  intro vals hvals
  obtain ⟨d', hd', -, hs, hAd, hev⟩ := ToDeep.toDeep_core I t f hlen hprio hA htbl hnd vals hvals hidx
  rw [hd] at hd'
  cases hd'
  obtain ⟨hgv, -, hge⟩ := fromDeep_sound I t d vals hs hinv.prio hAd
  obtain ⟨v, -, -, hv⟩ := CompileSound.evalCloning_eq_splitKey I f hlen hprio vals
    (by rw [hvals]; exact hidx)
  refine ⟨v, ?_, ?_, ?_⟩
  · unfold FlatEx.eval
    rw [if_neg (by simp [hvals])]
    exact hv
  · unfold DeepEx.eval
    rw [if_neg (by simp [hvals, hdv])]
    rw [hev]; exact hv
  · unfold FlatEx.eval
    rw [if_neg (by simp [hvals, hdv, hgv])]
    rw [hge, hev]; exact hv

/-- deep → flat → deep, from any accepted text -/
theorem deep_conversions_any {α} (I : Interp α) (t : Table) (lm : Str → Option Nat)
    (ht : Reach.TblOK I t) (text : Str) (d : DeepEx α) (hd : Deep.parse I t lm text = .ok d) :
    (FlatEx.fromDeep I t d).vars = d.vars ∧
    ∃ d2, (FlatEx.fromDeep I t d).toDeep I t = .ok d2 ∧ d2.vars = d.vars ∧
      ∀ vals : List α, vals.length = d.vars.length →
        ∃ v, d.eval I vals = .ok v ∧ (FlatEx.fromDeep I t d).eval I vals = .ok v ∧ d2.eval I vals = .ok v := by
  have hgood := ReachLemmas.good_parse I t ht.assoc ht.prio lm text d hd
  have hinv := Reach.inv_of_good I t ht d hgood
  have hshape := C12.shape_of_named d hinv.namedOk
  have htbl : OpsInTable t (FlatEx.fromDeep I t d).ops :=
    ConvAny.flatten_tbl t 0 d hinv.fromTable
  -- everything needed to convert back, at an assignment of the right length
  have key : ∀ vals : List α, vals.length = d.vars.length →
      ∃ d2 v, (FlatEx.fromDeep I t d).toDeep I t = .ok d2 ∧ d2.vars = d.vars ∧
        d.evalRelaxed I vals = .ok v ∧ evalCloning I (FlatEx.fromDeep I t d) vals = .ok v ∧
        d2.evalRelaxed I vals = .ok v := by
    intro vals hvals
    have hs : d.Shape vals.length := by rw [hvals]; exact hshape
    obtain ⟨hgv, hgi, hge⟩ := fromDeep_sound I t d vals hs hinv.prio hinv.assoc
    obtain ⟨v, hev, hok⟩ := FromDeep.flatten_ok I vals 0 d hs hinv.prio hinv.assoc
    obtain ⟨ns, hns, -⟩ := hok.val
    have hidx : C02.IdxOK (FlatEx.fromDeep I t d) (FlatEx.fromDeep I t d).vars.length := by
      rw [hgv, ← hvals]
      exact FromDeep.nodeValues_idx I vals hns
    obtain ⟨d2, h2, h2v, -, -, h2e⟩ := toDeep_sound I t _ hgi htbl vals (by rw [hgv]; exact hvals)
      hidx (by rw [hgv]; exact hinv.nodup)
    exact ⟨d2, v, h2, h2v.trans hgv, hev, hge.trans hev, by rw [h2e, hge]; exact hev⟩
  refine ⟨rfl, ?_⟩
  obtain ⟨d2, -, h2, h2v, -⟩ := key (List.replicate d.vars.length I.dflt) (by simp)
  refine ⟨d2, h2, h2v, ?_⟩
  intro vals hvals
  obtain ⟨d2', v, h2', -, e1, e2, e3⟩ := key vals hvals
  rw [h2] at h2'
  cases h2'
  refine ⟨v, ?_, ?_, ?_⟩
  · unfold DeepEx.eval
    rw [if_neg (by simp [hvals])]
    exact e1
  · unfold FlatEx.eval
    rw [if_neg (by simp [hvals]; rfl)]
    exact e2
  · unfold DeepEx.eval
    rw [if_neg (by simp [hvals, h2v])]
    exact e3

end Exmex.C03
