/-
  Lexer, text level (C13 / C01): the tokenizer run on the *text* of a well-formed expression, rendered
  with at least one space before every token and in the parenthesised form of calls, returns exactly
  the canonical token stream — for every table and literal matcher under which each token text is
  lexed to its token when followed by a separator.  With `C01.parse_eval_eq_denote` this gives the
  end-to-end statement text -> parse -> eval = documented value without any run-time hypothesis.
-/
import Exmex.Props.C01Parse
import Exmex.Props.C13
import Exmex.Proofs.LexText
namespace Exmex.C13

/-- what may follow a token in a spaced rendering -/
def Sep (rest : Str) : Prop := rest = [] ∨ rest.head? = some ' ' ∨ rest.head? = some ')'

/-- the text `s`, followed by a separator, is lexed as the one token `tk` -/
def TokText {α} (I : Interp α) (t : Table) (lm : Str → Option Nat) (s : Str) (tk : Tok α) : Prop :=
  (∃ c cs, s = c :: cs ∧ c ≠ ' ') ∧
  ∀ (rest : Str) (st : LexSt α), Sep rest →
    lexStep I t lm (s ++ rest) st = .ok (s.length, { st with res := st.res ++ [tk] })

def nameOf (t : Table) (i : Nat) : Str := ((t[i]?).map (·.repr)).getD []

mutual
/-- every leaf of the expression has a text that is lexed to its token -/
def AtomLexOK {α} (I : Interp α) (t : Table) (lm : Str → Option Nat) : Atom α → Prop
  | .lit s v => TokText I t lm s (.num v)
  | .var x braced => TokText I t lm (if braced then ['{'] ++ x ++ ['}'] else x) (.var x)
  | .const k => TokText I t lm (nameOf t k) (.num (I.const k))
  | .par c => ChainLexOK I t lm c
  | .call o a b => TokText I t lm (nameOf t o) (.op o) ∧ ChainLexOK I t lm a ∧ ChainLexOK I t lm b
  | .un u a => TokText I t lm (nameOf t u) (.op u) ∧ AtomLexOK I t lm a
def ChainLexOK {α} (I : Interp α) (t : Table) (lm : Str → Option Nat) : Chain α → Prop
  | .single a => AtomLexOK I t lm a
  | .cons a o rest => AtomLexOK I t lm a ∧ TokText I t lm (nameOf t o) (.op o) ∧ ChainLexOK I t lm rest
end

mutual
/-- number of space counts the rendering takes from the stream -/
def atomSpCount {α} : Atom α → Nat
  | .lit _ _ => 1
  | .var _ _ => 1
  | .const _ => 1
  | .par c => chainSpCount c + 2
  | .call _ a b => chainSpCount a + chainSpCount b + 4
  | .un _ a => atomSpCount a + 1
def chainSpCount {α} : Chain α → Nat
  | .single a => atomSpCount a
  | .cons a _ rest => atomSpCount a + 1 + chainSpCount rest
end

/-! ### the induction over the rendering -/

section Induction
open LexText
variable {α : Type} (I : Interp α) (t : Table) (lm : Str → Option Nat)

theorem sep_cases {rest : Str} (h : Sep rest) :
    rest = [] ∨ ∃ c cs, rest = c :: cs ∧ (c = ' ' ∨ c = ')') := by
  cases rest with
  | nil => exact Or.inl rfl
  | cons c cs =>
    right
    rcases h with h | h | h
    · cases h
    · exact ⟨c, cs, rfl, Or.inl (by simpa using h)⟩
    · exact ⟨c, cs, rfl, Or.inr (by simpa using h)⟩

theorem sep_space (x : Str) : Sep (' ' :: x) := Or.inr (Or.inl rfl)
theorem sep_pclose (x : Str) : Sep (')' :: x) := Or.inr (Or.inr rfl)
theorem sep_spaces (n : Nat) (hn : 1 ≤ n) (x : Str) : Sep (spaces n ++ x) := by
  obtain ⟨k, rfl⟩ : ∃ k, n = k + 1 := ⟨n - 1, by omega⟩
  have e : spaces (k + 1) ++ x = ' ' :: (spaces k ++ x) := by simp [spaces, List.replicate_succ]
  rw [e]
  exact sep_space _

theorem st_congr {res res' : List (Tok α)} {d d' : Int} {dp : Bool} (h1 : res = res') (h2 : d = d') :
    (⟨res, [], d, dp⟩ : LexSt α) = ⟨res', [], d', dp⟩ := by
  subst h1; subst h2; rfl

/-- one token text in the loop -/
theorem tok_loop {s : Str} {tk : Tok α} (h : TokText I t lm s tk) (rest : Str) (hsep : Sep rest)
    (res : List (Tok α)) (d : Int) (dp : Bool) :
    lexLoop I t lm (s ++ rest) 0 ⟨res, [], d, dp⟩ = lexLoop I t lm rest 0 ⟨res ++ [tk], [], d, dp⟩ := by
  obtain ⟨⟨c, cs, rfl, hc⟩, hstep⟩ := h
  exact lexLoop_step I t lm c cs rest _ _ hc (hstep rest ⟨res, [], d, dp⟩ hsep)

theorem lexLoop_space (x : Str) (st : LexSt α) :
    lexLoop I t lm (' ' :: x) 0 st = lexLoop I t lm x 0 st := by
  simpa [spaces] using lexLoop_spaces I t lm 1 x st

/-- a stream of space counts all of which are positive -/
def Good (sp : List Nat) : Prop := ∀ n ∈ sp, 1 ≤ n

theorem Good.tail {n : Nat} {sp : List Nat} (h : Good (n :: sp)) : Good sp :=
  fun k hk => h k (List.mem_cons_of_mem _ hk)
theorem Good.head {n : Nat} {sp : List Nat} (h : Good (n :: sp)) : 1 ≤ n :=
  h n (List.mem_cons_self ..)

abbrev cfg0 : RenderCfg := { callForm := false }

/-- what the induction proves about a rendering `r` made from the stream `sp`; parentheses are
    balanced inside `r`, so from a non-negative source depth the depth never becomes negative and
    the unmatched-`)` flag `dp` is unchanged -/
def Lexes (r : Str × List Nat) (sp : List Nat) (count : Nat) (toks : List (Tok α)) : Prop :=
  Good r.2 ∧ sp.length ≤ r.2.length + count ∧ (∀ rest, Sep (r.1 ++ rest)) ∧
  ∀ rest res d dp, Sep rest → 0 ≤ d →
    lexLoop I t lm (r.1 ++ rest) 0 ⟨res, [], d, dp⟩ = lexLoop I t lm rest 0 ⟨res ++ toks, [], d, dp⟩

theorem lexes_leaf {s : Str} {tk : Tok α} (h : TokText I t lm s tk) (n : Nat) (sp1 : List Nat)
    (hg : Good (n :: sp1)) : Lexes I t lm (spaces n ++ s, sp1) (n :: sp1) 1 [tk] := by
  refine ⟨hg.tail, by simp, ?_, ?_⟩
  · intro rest
    simp only [List.append_assoc]
    exact sep_spaces n hg.head _
  · intro rest res d dp hsep _
    simp only [List.append_assoc]
    rw [lexLoop_spaces, tok_loop I t lm h rest hsep]

mutual
theorem atom_lexes : (a : Atom α) → AtomLexOK I t lm a → ∀ sp, Good sp → atomSpCount a ≤ sp.length →
    Lexes I t lm (a.render t cfg0 sp) sp (atomSpCount a) (a.toks I)
  | .lit s v => by
    intro hlex sp hg hl
    cases sp with
    | nil => simp [atomSpCount] at hl
    | cons n sp1 =>
      simp only [AtomLexOK] at hlex
      simp only [Atom.render, takeSp, atomSpCount, Atom.toks]
      exact lexes_leaf I t lm hlex n sp1 hg
  | .var x braced => by
    intro hlex sp hg hl
    cases sp with
    | nil => simp [atomSpCount] at hl
    | cons n sp1 =>
      simp only [AtomLexOK] at hlex
      simp only [Atom.render, takeSp, atomSpCount, Atom.toks]
      exact lexes_leaf I t lm hlex n sp1 hg
  | .const k => by
    intro hlex sp hg hl
    cases sp with
    | nil => simp [atomSpCount] at hl
    | cons n sp1 =>
      simp only [AtomLexOK] at hlex
      simp only [Atom.render, takeSp, atomSpCount, Atom.toks]
      exact lexes_leaf I t lm hlex n sp1 hg
  | .par c => by
    intro hlex sp hg hl
    simp only [AtomLexOK] at hlex
    simp only [atomSpCount] at hl ⊢
    cases sp with
    | nil => simp at hl
    | cons n sp1 =>
      have ih := chain_lexes c hlex sp1 hg.tail (by simp at hl; omega)
      simp only [Atom.render, takeSp, Atom.toks]
      generalize c.render t cfg0 sp1 = r at ih ⊢
      obtain ⟨s, sp2⟩ := r
      obtain ⟨hg2, hl2, hs2, hloop⟩ := ih
      simp only at hg2 hl2 hs2 hloop
      cases sp2 with
      | nil => simp at hl hl2; omega
      | cons m sp3 =>
        refine ⟨hg2.tail, by simp at hl hl2 ⊢; omega, ?_, ?_⟩
        · intro rest
          simp only [List.append_assoc]
          exact sep_spaces n hg.head _
        · intro rest res d dp hsep hd
          simp only [List.append_assoc, List.cons_append, List.nil_append]
          rw [lexLoop_spaces, lexLoop_popen, hloop _ _ _ _ (sep_spaces m hg2.head _) (by omega),
            lexLoop_spaces, lexLoop_pclose _ _ _ _ _ _ _ (by omega)]
          exact congrArg (lexLoop I t lm rest 0) (st_congr (by simp) (by omega))
  | .call o a b => by
    intro hlex sp hg hl
    simp only [AtomLexOK] at hlex
    obtain ⟨hop, hla, hlb⟩ := hlex
    unfold nameOf at hop
    simp only [atomSpCount] at hl ⊢
    cases sp with
    | nil => simp at hl
    | cons n sp1 =>
      have iha := chain_lexes a hla sp1 hg.tail (by simp at hl; omega)
      simp only [Atom.render, takeSp, Atom.toks, Bool.false_eq_true, if_false]
      generalize a.render t cfg0 sp1 = ra at iha ⊢
      obtain ⟨sa, sp2⟩ := ra
      obtain ⟨hg2, hl2, hs2, hloopa⟩ := iha
      simp only at hg2 hl2 hs2 hloopa
      cases sp2 with
      | nil => simp at hl hl2; omega
      | cons m sp3 =>
        have ihb := chain_lexes b hlb sp3 hg2.tail (by simp at hl hl2; omega)
        generalize b.render t cfg0 sp3 = rb at ihb ⊢
        obtain ⟨sb, sp4⟩ := rb
        obtain ⟨hg4, hl4, hs4, hloopb⟩ := ihb
        simp only at hg4 hl4 hs4 hloopb
        refine ⟨hg4, by simp at hl hl2 ⊢; omega, ?_, ?_⟩
        · intro rest
          simp only [List.append_assoc]
          exact sep_spaces n hg.head _
        · intro rest res d dp hsep hd
          simp only [List.append_assoc, List.cons_append, List.nil_append]
          rw [lexLoop_spaces, lexLoop_popen, lexLoop_popen, hloopa _ _ _ _ (sep_pclose _) (by omega),
            lexLoop_pclose _ _ _ _ _ _ _ (by omega), lexLoop_spaces,
            tok_loop I t lm hop _ (sep_space _), lexLoop_space,
            lexLoop_popen, hloopb _ _ _ _ (sep_pclose _) (by omega),
            lexLoop_pclose _ _ _ _ _ _ _ (by omega), lexLoop_pclose _ _ _ _ _ _ _ (by omega)]
          exact congrArg (lexLoop I t lm rest 0) (st_congr (by simp) (by omega))
  | .un u a => by
    intro hlex sp hg hl
    simp only [AtomLexOK] at hlex
    obtain ⟨hop, hla⟩ := hlex
    unfold nameOf at hop
    simp only [atomSpCount] at hl ⊢
    cases sp with
    | nil => simp at hl
    | cons n sp1 =>
      have iha := atom_lexes a hla sp1 hg.tail (by simp at hl; omega)
      simp only [Atom.render, takeSp, Atom.toks]
      generalize a.render t cfg0 sp1 = ra at iha ⊢
      obtain ⟨sa, sp2⟩ := ra
      obtain ⟨hg2, hl2, hs2, hloopa⟩ := iha
      simp only at hg2 hl2 hs2 hloopa
      refine ⟨hg2, by simp at hl ⊢; omega, ?_, ?_⟩
      · intro rest
        simp only [List.append_assoc]
        exact sep_spaces n hg.head _
      · intro rest res d dp hsep hd
        simp only [List.append_assoc]
        rw [lexLoop_spaces, tok_loop I t lm hop _ (hs2 rest), hloopa _ _ _ _ hsep hd]
        exact congrArg (lexLoop I t lm rest 0) (st_congr (by simp) rfl)
theorem chain_lexes : (c : Chain α) → ChainLexOK I t lm c → ∀ sp, Good sp → chainSpCount c ≤ sp.length →
    Lexes I t lm (c.render t cfg0 sp) sp (chainSpCount c) (c.toks I)
  | .single a => by
    intro hlex sp hg hl
    simp only [ChainLexOK] at hlex
    simp only [chainSpCount] at hl ⊢
    simp only [Chain.render, Chain.toks]
    exact atom_lexes a hlex sp hg hl
  | .cons a o rest => by
    intro hlex sp hg hl
    simp only [ChainLexOK] at hlex
    obtain ⟨hla, hop, hlr⟩ := hlex
    unfold nameOf at hop
    simp only [chainSpCount] at hl ⊢
    have iha := atom_lexes a hla sp hg (by omega)
    simp only [Chain.render, Chain.toks]
    generalize a.render t cfg0 sp = ra at iha ⊢
    obtain ⟨sa, sp1⟩ := ra
    obtain ⟨hg1, hl1, hs1, hloopa⟩ := iha
    simp only at hg1 hl1 hs1 hloopa
    cases sp1 with
    | nil => simp at hl1; omega
    | cons n sp2 =>
      have ihr := chain_lexes rest hlr sp2 hg1.tail (by simp at hl1; omega)
      simp only [takeSp]
      generalize rest.render t cfg0 sp2 = rr at ihr ⊢
      obtain ⟨sr, sp3⟩ := rr
      obtain ⟨hg3, hl3, hs3, hloopr⟩ := ihr
      simp only at hg3 hl3 hs3 hloopr
      refine ⟨hg3, by simp at hl1 ⊢; omega, ?_, ?_⟩
      · intro rest'
        simp only [List.append_assoc]
        exact hs1 _
      · intro rest' res d dp hsep hd
        simp only [List.append_assoc]
        rw [hloopa _ _ _ _ (sep_spaces n hg1.head _) hd, lexLoop_spaces,
          tok_loop I t lm hop _ (hs3 rest'), hloopr _ _ _ _ hsep hd]
        exact congrArg (lexLoop I t lm rest' 0) (st_congr (by simp) rfl)
end

end Induction


/-- **L7.** the tokenizer on the spaced rendering returns the canonical tokens -/
theorem tokenize_render_spaced {α} (I : Interp α) (t : Table) (lm : Str → Option Nat) (c : Chain α)
    (hlex : ChainLexOK I t lm c) (sp : List Nat) (hsp : ∀ n ∈ sp, 1 ≤ n) (hlen : chainSpCount c ≤ sp.length) :
    tokenize I t lm (c.render t { callForm := false } sp).1 = .ok (c.toks I) := by
  obtain ⟨-, -, -, hloop⟩ := chain_lexes I t lm c hlex sp hsp hlen
  have h := hloop [] [] 0 false (Or.inl rfl) (by omega)
  simp only [List.append_nil, List.nil_append] at h
  unfold tokenize
  show (match lexLoop I t lm (c.render t cfg0 sp).1 0 ⟨[], [], 0, false⟩ with
    | .ok st => Except.ok st.res
    | .error e => .error e) = _
  rw [h]
  rfl

/-- **C01, end to end for the spaced rendering**: no hypothesis about the tokenizer's output -/
theorem parse_spaced_eval_eq_denote {α} (I : Interp α) (t : Table) (lm : Str → Option Nat)
    (hA : C01.FlaggedAssoc I t) (c : Chain α) (hc : c.WF t) (hr : c.Roles t)
    (hlex : ChainLexOK I t lm c) (sp : List Nat) (hsp : ∀ n ∈ sp, 1 ≤ n) (hlen : chainSpCount c ≤ sp.length)
    (vals : List α) (hvl : vals.length = c.vars.length) :
    ∃ f v, Flat.parse I t lm (c.render t { callForm := false } sp).1 = .ok f ∧ f.vars = c.vars ∧
      c.denote I t (envOf c.vars vals I.dflt) = some v ∧ f.eval I vals = .ok v := by
  obtain ⟨f, _, v, hp, _, hv, hd, he, _⟩ := C01.parse_eval_eq_denote I t lm hA c hc hr _
    (tokenize_render_spaced I t lm c hlex sp hsp hlen) vals hvl
  exact ⟨f, v, hp, hv, hd, he⟩

/-! ### when a text is lexed to its token -/

/-- anything in braces is one variable -/
theorem tokText_braced {α} (I : Interp α) (t : Table) (lm : Str → Option Nat) (x : Str)
    (hx : '}' ∉ x) : TokText I t lm (['{'] ++ x ++ ['}']) (.var x) := by
  refine ⟨⟨'{', x ++ ['}'], by simp, by decide⟩, ?_⟩
  intro rest st _
  have h := brace_var I t lm x rest hx st
  have e : ['{'] ++ x ++ ['}'] ++ rest = '{' :: x ++ '}' :: rest := by simp
  rw [e, h]
  simp

def special (c : Char) : Bool := c == '(' || c == ')' || c == ',' || c == '{' || c == ' '

/-- a literal the matcher recognises before a separator -/
theorem tokText_lit {α} (I : Interp α) (t : Table) (lm : Str → Option Nat) (s : Str) (v : α)
    (c : Char) (cs : Str) (hs : s = c :: cs) (hc : special c = false)
    (hlm : ∀ rest, Sep rest → lm (s ++ rest) = some s.length) (hv : I.ofLit s = some v) :
    TokText I t lm s (.num v) := by
  subst hs
  refine ⟨⟨c, cs, rfl, ?_⟩, ?_⟩
  · rintro rfl
    revert hc
    decide
  · intro rest st hsep
    refine LexText.lexStep_lit I t lm c (cs ++ rest) st hc (c :: cs).length v (hlm rest hsep) ?_
    show I.ofLit (((c :: cs) ++ rest).take (c :: cs).length) = some v
    rw [List.take_left]
    exact hv

/-- an operator or constant name: names are distinct, free of separators, do not start with a
    special character, and the literal matcher does not fire on them -/
theorem tokText_op {α} (I : Interp α) (t : Table) (lm : Str → Option Nat) (i : Nat) (o : OpSpec)
    (hi : t[i]? = some o) (c : Char) (cs : Str) (hs : o.repr = c :: cs) (hc : special c = false)
    (hnd : (t.map (·.repr)).Nodup)
    (hsep : ∀ p ∈ t, ' ' ∉ p.repr ∧ ')' ∉ p.repr)
    (hlm : ∀ rest, lm (o.repr ++ rest) = none) :
    TokText I t lm o.repr (if o.const then .num (I.const i) else .op i) := by
  refine ⟨⟨c, cs, hs, ?_⟩, ?_⟩
  · rintro rfl
    revert hc
    decide
  · intro rest st hsp
    have hf : findOps t (o.repr ++ rest) = some (i, o) := by
      apply LexText.findOps_name_sep t i o rest hi (by rw [hs]; simp) hnd
      rcases sep_cases hsp with rfl | ⟨c', cs', rfl, hc'⟩
      · exact Or.inl rfl
      · refine Or.inr ⟨c', cs', rfl, ?_, ?_⟩
        · rcases hc' with rfl | rfl <;> decide
        · intro p hp
          rcases hc' with rfl | rfl
          · exact (hsep p hp).1
          · exact (hsep p hp).2
    have hl := hlm rest
    rw [hs] at hf hl ⊢
    have h := LexText.lexStep_op I t lm c (cs ++ rest) st hc i o hl hf
    rw [hs] at h
    exact h

/-- an identifier that no operator name claims -/
theorem tokText_ident {α} (I : Interp α) (t : Table) (lm : Str → Option Nat) (x : Str)
    (hid : isIdentExact x = true)
    (hlm : ∀ rest, Sep rest → lm (x ++ rest) = none)
    (hop : ∀ rest, Sep rest → findOps t (x ++ rest) = none) :
    TokText I t lm x (.var x) := by
  cases x with
  | nil => simp [isIdentExact] at hid
  | cons c cs =>
    have hstart : isIdentStart c = true := by
      simp only [isIdentExact, Bool.and_eq_true] at hid
      exact hid.1
    have hc := LexText.not_special_of_identStart c hstart
    refine ⟨⟨c, cs, rfl, ?_⟩, ?_⟩
    · rintro rfl
      revert hc
      decide
    · intro rest st hsp
      have hip : identPrefixLen ((c :: cs) ++ rest) = some (c :: cs).length := by
        apply LexText.identPrefixLen_ident _ _ hid
        rcases sep_cases hsp with rfl | ⟨c', cs', rfl, hc'⟩
        · exact Or.inl rfl
        · exact Or.inr ⟨c', cs', rfl, by rcases hc' with rfl | rfl <;> decide⟩
      have h := LexText.lexStep_ident I t lm c (cs ++ rest) st hc (c :: cs).length
        (hlm rest hsp) (hop rest hsp) hip
      have e : (c :: (cs ++ rest)).take (c :: cs).length = c :: cs := by
        show ((c :: cs) ++ rest).take (c :: cs).length = c :: cs
        rw [List.take_left]
      rw [e] at h
      exact h

end Exmex.C13
