/-
  C17 — Value-typed operators are total: problems surface as error values.

  Every place where the Rust operator functions could trap (`-a`, `a.abs()`, `a % b`,
  `a[i]`, unwrapped casts) is an `Except.error` (= panic) branch in the model; the theorems
  show that no operator of the value table reaches such a branch for any operands.
-/
import Exmex.Model.ValModel
import Exmex.Proofs.ValLemmas
namespace Exmex.C17
open Exmex.ValLemmas

/-- integers of a value are 32-bit integers -/
def Val.WF {F} : Val F → Prop
  | .int i => inI32 i = true
  | _ => True

theorem wf_iff {F} (v : Val F) : Val.WF v ↔ VWF v := by cases v <;> exact Iff.rfl

theorem of_tot {F} {r : VR F} (h : Tot r) : ∃ v, r = .ok v ∧ Val.WF v := by
  obtain ⟨v, h1, h2⟩ := h
  exact ⟨v, h1, (wf_iff v).2 h2⟩

set_option linter.unusedVariables false in
/-- no binary operator of the table panics; results are well-formed values again -/
theorem valBin_total {F} (O : FloatOps F) (hO : ∀ x r, O.toI32 x = some r → inI32 r = true)
    (name : String) (hn : name ∈ valBinNames) (a b : Val F) (ha : Val.WF a) (hb : Val.WF b) :
    ∃ v, valBin O name a b = .ok v ∧ Val.WF v := by
  have ha' : VWF a := (wf_iff a).1 ha
  have hb' : VWF b := (wf_iff b).1 hb
  apply of_tot
  simp only [valBinNames, List.mem_cons, List.not_mem_nil, or_false] at hn
  rcases hn with rfl | rfl | rfl | rfl | rfl | rfl | rfl | rfl | rfl | rfl | rfl | rfl | rfl | rfl
    | rfl | rfl | rfl | rfl | rfl | rfl | rfl | rfl | rfl | rfl | rfl | rfl | rfl
  · rw [valBin_pow]; exact vPow_total O a b
  · rw [valBin_add]; exact vAdd_total O a b ha' hb'
  · rw [valBin_sub]; exact vSub_total O a b ha' hb'
  · rw [valBin_cross]; exact vCross_total O a b
  · rw [valBin_dot]; exact vDot_total O a b
  · rw [valBin_mul]; exact vMul_total O a b ha' hb'
  · rw [valBin_div]; exact vDiv_total O a b ha' hb'
  · rw [valBin_atan2]; exact vAtan2_total O a b
  · rw [valBin_rem]; exact vRem_total a b ha' hb'
  · rw [valBin_bitor]; exact vBitOr_total a b ha' hb'
  · rw [valBin_bitand]; exact vBitAnd_total a b ha' hb'
  · rw [valBin_xor]; exact vBitXor_total a b ha' hb'
  · rw [valBin_shr]; exact vShr_total a b ha' hb'
  · rw [valBin_shl]; exact vShl_total a b ha' hb'
  · rw [valBin_and]; exact vAnd_total O a b ha' hb'
  · rw [valBin_or]; exact vOr_total O a b ha' hb'
  · rw [valBin_eq]; exact tot_ok (v := .bool _) trivial
  · rw [valBin_ge]; exact tot_ok (v := .bool _) trivial
  · rw [valBin_gt]; exact tot_ok (v := .bool _) trivial
  · rw [valBin_le]; exact tot_ok (v := .bool _) trivial
  · rw [valBin_lt]; exact tot_ok (v := .bool _) trivial
  · rw [valBin_ne]; exact tot_ok (v := .bool _) trivial
  · rw [valBin_if]; exact vIf_total O a b ha'
  · rw [valBin_else]; exact vElse_total a b ha' hb'
  · rw [valBin_min]; exact vMin_total O a b ha' hb'
  · rw [valBin_max]; exact vMax_total O a b ha' hb'
  · rw [valBin_comp]; exact vComponent_total a b

/-- no unary operator of the table panics -/
theorem valUn_total {F} (O : FloatOps F) (hO : ∀ x r, O.toI32 x = some r → inI32 r = true)
    (name : String) (hn : name ∈ valUnNames) (a : Val F) (ha : Val.WF a) :
    ∃ v, valUn O name a = .ok v ∧ Val.WF v := by
  have ha' : VWF a := (wf_iff a).1 ha
  apply of_tot
  rw [valUnNames, List.mem_append, List.mem_append] at hn
  rcases hn with (h1 | h2) | h3
  · simp only [List.mem_cons, List.not_mem_nil, or_false] at h1
    rcases h1 with rfl | rfl | rfl | rfl
    · rw [valUn_plus]; exact tot_ok ha'
    · rw [valUn_minus]; exact vMinus_total O a ha'
    · rw [valUn_signum]; exact vSignum_total O a
    · rw [valUn_abs]; exact vAbs_total O a ha'
  · rw [valUn_float O name h2]; exact vFloatFn_total O name a
  · simp only [List.mem_cons, List.not_mem_nil, or_false] at h3
    rcases h3 with rfl | rfl | rfl | rfl | rfl | rfl | rfl | rfl
    · rw [valUn_log]; exact vFloatFn_total O "ln" a
    · rw [valUn_swap_bytes]; exact vIntFn_total _ (fun x _ => inI32_swapBytes x) a ha'
    · rw [valUn_to_le]; exact vIntFn_total _ (fun _ h => h) a ha'
    · rw [valUn_to_be]; exact vIntFn_total _ (fun x _ => inI32_swapBytes x) a ha'
    · rw [valUn_fact]; exact vFact_total a
    · rw [valUn_to_int]; exact vToInt_total O hO a ha'
    · rw [valUn_to_float]; exact vToFloat_total O a
    · rw [valUn_length]; exact vLength_total O a

/-- the specific problem inputs are error values -/
theorem neg_min {F} (O : FloatOps F) : valUn O "-" (.int I32_MIN) = .ok .err := by
  rw [valUn_minus]; rfl
theorem abs_min {F} (O : FloatOps F) : valUn O "abs" (.int I32_MIN) = .ok .err := by
  rw [valUn_abs]; rfl
theorem rem_min_neg_one {F} (O : FloatOps F) : valBin O "%" (.int I32_MIN) (.int (-1)) = .ok .err := by
  rw [valBin_rem]; rfl
theorem rem_zero {F} (O : FloatOps F) (a : Int) : valBin O "%" (.int a) (.int 0) = .ok .err := by
  rw [valBin_rem]; rfl
theorem div_zero {F} (O : FloatOps F) (a : Val F) : valBin O "/" a (.int 0) = .ok .err := by
  rw [valBin_div]; rfl
theorem div_min_neg_one {F} (O : FloatOps F) : valBin O "/" (.int I32_MIN) (.int (-1)) = .ok .err := by
  rw [valBin_div]; rfl
theorem to_int_invalid {F} (O : FloatOps F) (x : F) (h : O.toI32 x = Option.none) :
    valUn O "to_int" (.flt x) = .ok .err := by
  rw [valUn_to_int]; simp only [vToInt, h]
theorem add_overflow {F} (O : FloatOps F) (a b : Int) (h : inI32 (a + b) = false) :
    valBin O "+" (.int a) (.int b) = .ok .err := by
  rw [valBin_add]; simp [vAdd, baseArith, chk_eq, h]
theorem wrong_kind_bitwise {F} (O : FloatOps F) (x : F) (b : Val F) :
    valBin O "&" (.flt x) b = .ok .err := by
  rw [valBin_bitand]; cases b <;> rfl

end Exmex.C17
