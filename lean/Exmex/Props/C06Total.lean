/-
  C06 — no input text can crash the library: for EVERY text, operator table, literal matcher and
  interpretation, the parsers return an expression or a proper error, never a panic (the model has
  an explicit panic outcome at every indexing / unwrap site of the code and at the exhaustion of its
  own fuel), and evaluating anything they accept with a value slice of the right length never
  panics either.
-/
import Exmex.Props.Reach
import Exmex.Props.C14
import Exmex.Props.C02
import Exmex.Proofs.TotalWalk
namespace Exmex.C06

def Res.isPanic {β} : Res β → Bool
  | .error (.panic _) => true
  | _ => false

theorem isPanic_of_np {β} (r : Res β) (h : Total.NP r) : Res.isPanic r = false := by
  cases r with
  | ok b => rfl
  | error e =>
    cases e with
    | err s => rfl
    | panic s => exact h.elim

/-- the flat parsers never panic -/
theorem flat_parse_no_panic {α} (I : Interp α) (t : Table) (lm : Str → Option Nat) (text : Str) :
    Res.isPanic (Flat.parseWoCompile I t lm text) = false ∧ Res.isPanic (Flat.parse I t lm text) = false :=
  ⟨isPanic_of_np _ (Total.parseWoCompile_post I t lm text).np,
    isPanic_of_np _ (Total.parse_post I t lm text).np⟩

/-- the deep parser never panics (in particular the fuel `2 * tokens + 4` always suffices) -/
theorem deep_parse_no_panic {α} (I : Interp α) (t : Table) (lm : Str → Option Nat) (text : Str) :
    Res.isPanic (Deep.parse I t lm text) = false :=
  isPanic_of_np _ (Total.deep_parse_post I t lm text).np

/-- evaluating an accepted flat expression never panics: strict, relaxed and consuming entry points -/
theorem flat_eval_no_panic {α} (I : Interp α) (t : Table) (lm : Str → Option Nat) (text : Str) (f : FlatEx α)
    (h : Flat.parse I t lm text = .ok f ∨ Flat.parseWoCompile I t lm text = .ok f) (vals : List α) :
    Res.isPanic (f.eval I vals) = false ∧
    (f.vars.length ≤ vals.length → Res.isPanic (f.evalRelaxed I vals) = false) ∧
    (vals.length = f.vars.length → Res.isPanic (f.evalConsuming I vals) = false) := by
  have hf : Total.FlatOK f := by
    rcases h with h | h
    · exact (Total.parse_post I t lm text).of_ok h
    · exact (Total.parseWoCompile_post I t lm text).of_ok h
  exact ⟨isPanic_of_np _ (Total.eval_np I f hf vals),
    fun _ => isPanic_of_np _ (Total.evalRelaxed_np I f hf vals),
    fun _ => isPanic_of_np _ (Total.evalConsuming_np I f hf vals)⟩

/-- evaluating an accepted deep expression never panics -/
theorem deep_eval_no_panic {α} (I : Interp α) (t : Table) (lm : Str → Option Nat) (text : Str) (d : DeepEx α)
    (h : Deep.parse I t lm text = .ok d) (vals : List α) :
    Res.isPanic (d.eval I vals) = false ∧
    (d.vars.length ≤ vals.length → Res.isPanic (d.evalRelaxed I vals) = false) := by
  have hg := (Total.deep_parse_post I t lm text).of_ok h
  refine ⟨?_, ?_⟩
  · unfold DeepEx.eval
    split
    · rfl
    · rename_i hne
      have hl : d.vars.length = vals.length := by simpa using hne
      obtain ⟨v, hv⟩ := Total.deep_evalRelaxed_ok I d hg vals (by omega)
      rw [hv]
      rfl
  · intro hl
    obtain ⟨v, hv⟩ := Total.deep_evalRelaxed_ok I d hg vals hl
    rw [hv]
    rfl

end Exmex.C06
