/-
  C19 — Default float operators and constants compute the functions they name.

  `Generated.floatTable` is re-extracted from the text of src/operators.rs on every run: name,
  role, the closure body (with `$1`, `$2` for the closure parameters), priority and flag of every
  entry of `FloatOpsFactory::make()`. `docTable` is written by hand from the documentation: the
  Rust primitive each name stands for, with the documented argument order. A closure that *is*
  the primitive call agrees with the primitive on every argument, incl. NaN, infinities and
  signed zero (Rust semantics of a method call; cross-checked bit for bit at run time).
-/
import Exmex.Generated.FloatTable
namespace Exmex.C19
open Exmex.Generated

def un (name prim : String) : FloatEntry :=
  { repr := name, kind := "un", body := "", ubody := "$1." ++ prim ++ "()", prio := 0, comm := false }
def konst (name item : String) : FloatEntry :=
  { repr := name, kind := "const", body := "consts::" ++ item, ubody := "", prio := 0, comm := false }

/-- the documented table: 8 binary operators (two of them also unary), 26 unary functions,
    6 constants -/
def docTable : List FloatEntry := [
  { repr := "^", kind := "bin", body := "$1.powf($2)", ubody := "", prio := 4, comm := false },
  { repr := "*", kind := "bin", body := "$1*$2", ubody := "", prio := 2, comm := true },
  { repr := "/", kind := "bin", body := "$1/$2", ubody := "", prio := 3, comm := false },
  { repr := "+", kind := "binun", body := "$1+$2", ubody := "$1", prio := 0, comm := true },
  { repr := "-", kind := "binun", body := "$1-$2", ubody := "-$1", prio := 1, comm := false },
  { repr := "atan2", kind := "bin", body := "$1.atan2($2)", ubody := "", prio := 0, comm := false },
  { repr := "min", kind := "bin", body := "$1.min($2)", ubody := "", prio := 0, comm := false },
  { repr := "max", kind := "bin", body := "$1.max($2)", ubody := "", prio := 0, comm := false },
  un "abs" "abs", un "signum" "signum", un "sin" "sin", un "cos" "cos", un "tan" "tan",
  un "asin" "asin", un "acos" "acos", un "atan" "atan", un "sinh" "sinh", un "cosh" "cosh",
  un "tanh" "tanh", un "asinh" "asinh", un "acosh" "acosh", un "atanh" "atanh",
  un "floor" "floor", un "round" "round", un "ceil" "ceil", un "trunc" "trunc", un "fract" "fract",
  un "exp" "exp", un "sqrt" "sqrt", un "cbrt" "cbrt", un "ln" "ln", un "log2" "log2",
  un "log10" "log10", un "log" "ln",
  konst "PI" "PI", konst "π" "PI", konst "E" "E", konst "e" "E", konst "TAU" "TAU", konst "τ" "TAU"
]

/-- **C19 (table).** The operator table in the source is the documented one: same names, same
    primitives with the same argument order, same priorities and flags, nothing extra, nothing
    missing. -/
theorem float_table_matches_doc : floatTable = docTable := by decide

/-- names are pairwise distinct (so lookup by name is unambiguous) -/
theorem float_table_names_nodup : (floatTable.map (·.repr)).Nodup := by decide

/-- `log` and `ln` are both the natural logarithm; `atan2(y, x)` passes its arguments in order -/
example : (floatTable.find? (·.repr == "log")).map (·.ubody) = some "$1.ln()" := by decide
example : (floatTable.find? (·.repr == "atan2")).map (·.body) = some "$1.atan2($2)" := by decide

end Exmex.C19
