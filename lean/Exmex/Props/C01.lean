/-
  C01 — Evaluation follows the documented operator semantics.

  Structure-level theorem: the flat expression with the structure the parser builds for a
  well-formed expression (`Chain.flat`; that `make_expression` builds exactly this structure is
  checked at run time on every generated case and stated separately), evaluated by the real
  evaluation path — operand vector, stable priority order with the commutative bump, in-place
  `eval_binary` over the bit tracker — yields the documented value `Chain.denote`, for every
  expression, every operator table with priorities 0..=99, every data type and every variable
  assignment, provided operators flagged commutative are associative (the re-grouping freedom the
  property grants).
-/
import Exmex.Proofs.FlatDenote
import Exmex.Proofs.Bump
import Exmex.Proofs.SortSplit
import Exmex.Proofs.ReduceSplit
import Exmex.Proofs.Vars
import Exmex.Props.C14
import Exmex.Proofs.C01Assembly
namespace Exmex.C01

/-- unary operators compose right-to-left: the first of the chain is applied last -/
theorem applyUn_cons {α} (I : Interp α) (u : Nat) (us : List Nat) (x : α) :
    applyUn I (u :: us) x = I.un u (applyUn I us x) := rfl

/-- operators flagged commutative in the table are associative under the interpretation -/
def FlaggedAssoc {α} (I : Interp α) (t : Table) : Prop :=
  ∀ o b, (t[o]?).bind (·.bin) = some b → b.comm = true →
    ∀ x y z, I.bin o (I.bin o x y) z = I.bin o x (I.bin o y z)

/-- the flat expression with the structure of a well-formed expression -/
def flatOf {α} (I : Interp α) (t : Table) (c : Chain α) : FlatEx α :=
  { nodes := (c.flat I t c.vars 0).1, ops := (c.flat I t c.vars 0).2,
    prioIdx := prioIdxFlat (c.flat I t c.vars 0).2 (c.flat I t c.vars 0).1,
    vars := c.vars, text := [] }

/-- **C01 (structure level).** -/
theorem flat_eval_eq_denote {α} (I : Interp α) (t : Table) (hA : FlaggedAssoc I t)
    (c : Chain α) (hc : c.WF t) (vals : List α) (hlen : vals.length = c.vars.length) :
    ∃ v, c.denote I t (envOf c.vars vals I.dflt) = some v ∧
      (flatOf I t c).eval I vals = .ok v :=
  C01Assembly.eval_flat I t hA c hc vals hlen (flatOf I t c) rfl rfl rfl rfl

/-- wrong number of values is an error, not a wrong result -/
theorem flat_eval_arity {α} (I : Interp α) (t : Table) (c : Chain α) (vals : List α)
    (hlen : vals.length ≠ c.vars.length) :
    (flatOf I t c).eval I vals = .error (.err "arity") := by
  have h : (c.vars.length != vals.length) = true := by
    rw [bne_iff_ne]; exact fun e => hlen e.symm
  simp only [FlatEx.eval, flatOf, h, if_true]

/-! ### non-vacuity: `7 - -(2 + (x * 3)) + 1` over `Int` -/
namespace Demo

/-- `+` (priority 0, commutative), `-` (priority 0, binary and unary), `*` (priority 1, commutative) -/
def tbl : Table :=
  [{ repr := ['+'], bin := some ⟨0, true⟩ },
   { repr := ['-'], bin := some ⟨0, false⟩, unary := true },
   { repr := ['*'], bin := some ⟨1, true⟩ }]

def interp : Interp Int where
  bin := fun o x y => match o with | 0 => x + y | 1 => x - y | 2 => x * y | _ => 0
  un := fun u x => match u with | 1 => -x | _ => x
  const := fun _ => 0
  ofLit := fun _ => none
  dflt := 0

/-- `7 - -(2 + (x * 3)) + 1`: paren depth 2, `-` and `+` of equal priority, a unary `-` on a group -/
def chain : Chain Int :=
  .cons (.lit ['7'] 7) 1
    (.cons (.un 1 (.par (.cons (.lit ['2'] 2) 0
        (.single (.par (.cons (.var ['x'] false) 2 (.single (.lit ['3'] 3)))))))) 0
      (.single (.lit ['1'] 1)))

theorem flaggedAssoc : FlaggedAssoc interp tbl := by
  intro o b h hc x y z
  match o, h with
  | 0, _ => exact Int.add_assoc x y z
  | 1, h =>
    simp only [tbl] at h
    cases h
    cases hc
  | 2, _ => exact Int.mul_assoc x y z
  | _ + 3, h => simp [tbl] at h

theorem wf : chain.WF tbl := by
  simp [chain, Chain.WF, Atom.WF, tbl]

/-- the hypotheses of C01 are satisfiable, and its conclusion on this instance -/
example : ∃ v, chain.denote interp tbl (envOf chain.vars [5] interp.dflt) = some v ∧
    (flatOf interp tbl chain).eval interp [5] = .ok v :=
  flat_eval_eq_denote interp tbl flaggedAssoc chain wf [5] (by decide)

/-- the documented value: `7 - -(2 + 5 * 3) + 1 = 25` (left-to-right among `-`, `+`) -/
theorem denote_val : chain.denote interp tbl (envOf chain.vars [5] interp.dflt) = some 25 := by
  rw [show chain.vars = [['x']] by decide]
  simp [chain, Chain.denote, Chain.operands, Atom.denote, reduceChain, argmaxL, tblPrio, tbl,
    interp, envOf]

/-- and the flat evaluation (bumped `*`, unary `-` on the inner `+`, tracker) returns it -/
example : (flatOf interp tbl chain).eval interp [5] = .ok 25 := by
  obtain ⟨v, h1, h2⟩ := flat_eval_eq_denote interp tbl flaggedAssoc chain wf [5] (by decide)
  rw [denote_val] at h1
  cases h1
  exact h2

end Demo

end Exmex.C01
