import Exmex.Model.Flat
import Exmex.Spec.Surface
namespace Exmex.C01

/-- unary operators compose right-to-left: the first of the chain is applied last -/
theorem applyUn_cons {α} (I : Interp α) (u : Nat) (us : List Nat) (x : α) :
    applyUn I (u :: us) x = I.un u (applyUn I us x) := rfl

end Exmex.C01
