/-
  The calculation API on FLAT expressions (`trait Calculate` for `FlatEx`: every operation goes
  through `to_deepex`, the deep operation and `from_deepex`; Model/FlatCalc.lean, and
  `FlatEx.partialIter` in Model/Diff.lean): C10 / C11 / C05 / C09 / C12 "hold for flat and deep
  expressions alike".

  `FGood` is the invariant of every flat expression the API returns: it holds for whatever the
  flat parsers accept (any text) and for `from_deepex` of every reachable deep expression, and it is
  what `to_deepex` needs to succeed with a result that satisfies `Reach.Inv` and has the same
  variables and value.
-/
import Exmex.Model.FlatCalc
import Exmex.Props.ReachCorollaries
import Exmex.Props.C03Conv
import Exmex.Proofs.FlatApiLemmas
namespace Exmex.FlatApi

variable {α : Type} (I : Interp α) (C : CalcOps α) (t : Table) (lm : Str → Option Nat)

/-- the invariant of flat expressions returned by the API -/
structure FGood (f : FlatEx α) : Prop where
  len : f.nodes.length = f.ops.length + 1
  prio : f.prioIdx = prioIdxFlat f.ops f.nodes
  assoc : FoldAny.AssocOps I f.ops
  tbl : ∀ o ∈ f.ops, ConvAny.InTbl t o
  sorted : sortBy strLe f.vars = f.vars
  nodup : f.vars.Nodup
  vidx : ∀ nd ∈ f.nodes, ∀ i, nd.kind = .var i → i < f.vars.length
  /-- unary chains consist of operators with a unary role in the table (needed for
      `Reach.Inv.fromTable` / `scopedOk` of `to_deepex`'s result) -/
  opUn : ∀ o ∈ f.ops, ∀ u ∈ o.un, tblHasUnary t u = true
  ndUn : ∀ nd ∈ f.nodes, ∀ u ∈ nd.un, tblHasUnary t u = true

theorem inTbl_of_opOK (o : FlatOp) (h : ReachFlat.OpOK t o) : ConvAny.InTbl t o := by
  obtain ⟨⟨b, hb, hc⟩, -⟩ := h
  refine ⟨{ idx := o.idx, prio := b.prio, comm := b.comm }, ?_, hc.symm⟩
  unfold tblBin
  rw [hb]
  rfl

theorem opOK_of_inTbl (o : FlatOp) (h : ConvAny.InTbl t o)
    (hu : ∀ u ∈ o.un, tblHasUnary t u = true) : ReachFlat.OpOK t o := by
  obtain ⟨b, hb, hc⟩ := h
  refine ⟨?_, hu⟩
  unfold tblBin at hb
  cases hbb : (t[o.idx]?).bind (·.bin) with
  | none => rw [hbb] at hb; cases hb
  | some bb =>
    rw [hbb] at hb
    simp only [Option.map] at hb
    cases hb
    exact ⟨bb, rfl, hc.symm⟩

/-- whatever the flat parsers accept is good -/
theorem fgood_parse (ht : Reach.TblOK I t) (text : Str) (f : FlatEx α)
    (h : Flat.parse I t lm text = .ok f ∨ Flat.parseWoCompile I t lm text = .ok f) : FGood I t f := by
  rcases h with h | h
  · obtain ⟨h1, h2, h3, h4, h5, h6⟩ := ConvAny.parse_facts I t lm ht text f h
    obtain ⟨hstrict, hops, hnodes⟩ := ReachFlat.parse_ok I t lm text f h
    exact ⟨h1, h2, h3, h4, CalcLemmas.sortBy_strLe_of_strict _ hstrict, h5, h6,
      fun o ho => (hops o ho).2, hnodes⟩
  · obtain ⟨hok, hA⟩ := C02.parseWoCompile_facts I t lm ht text f h
    unfold Flat.parseWoCompile at h
    split at h
    · cases h
    rename_i toks htoks
    split at h
    · cases h
    obtain ⟨m1, m2, m3⟩ := ReachFlat.makeExpression_ok t text toks _ f h
    have hstrict : f.vars.Pairwise (fun x y => strLt x y = true) := by
      rw [m1]; exact C04.findVars_sorted toks
    exact ⟨hok.len, hok.prio, hA, fun o ho => inTbl_of_opOK t o (m2 o ho),
      CalcLemmas.sortBy_strLe_of_strict _ hstrict, Diff.nodup_of_strict _ hstrict, hok.vidx,
      fun o ho => (m2 o ho).2, m3⟩

/-- `from_deepex` of an expression satisfying the deep invariant is good, with the same variables and value -/
theorem fgood_fromDeep (ht : Reach.TblOK I t) (d : DeepEx α) (hd : Reach.Inv I t d) :
    FGood I t (FlatEx.fromDeep I t d) ∧ (FlatEx.fromDeep I t d).vars = d.vars ∧
      ∀ ρ : Str → α, ∃ v, d.evalRelaxed I (d.vars.map ρ) = .ok v ∧
        (FlatEx.fromDeep I t d).eval I (d.vars.map ρ) = .ok v := by
  have _ := ht
  have hshape := C12.shape_of_named d hd.namedOk
  have hun := FlatApiLemmas.flatten_un t 0 d hd.fromTable
  have key : ∀ vals : List α, vals.length = d.vars.length →
      ∃ v, d.evalRelaxed I vals = .ok v ∧ evalCloning I (FlatEx.fromDeep I t d) vals = .ok v ∧
        C02.FlatInv I (FlatEx.fromDeep I t d) ∧ FoldAny.AssocOps I (FlatEx.fromDeep I t d).ops ∧
        C02.IdxOK (FlatEx.fromDeep I t d) d.vars.length := by
    intro vals hvals
    have hs : d.Shape vals.length := by rw [hvals]; exact hshape
    obtain ⟨-, hgi, hge⟩ := C03.fromDeep_sound I t d vals hs hd.prio hd.assoc
    obtain ⟨v, hev, hok⟩ := FromDeep.flatten_ok I vals 0 d hs hd.prio hd.assoc
    obtain ⟨ns, hns, -⟩ := hok.val
    refine ⟨v, hev, hge.trans hev, hgi, hok.assoc, ?_⟩
    rw [← hvals]
    exact FromDeep.nodeValues_idx I vals hns
  refine ⟨?_, rfl, ?_⟩
  · obtain ⟨-, -, -, hgi, hA, hidx⟩ := key (List.replicate d.vars.length I.dflt) (by simp)
    exact ⟨hgi.len, hgi.prio, hA, ConvAny.flatten_tbl t 0 d hd.fromTable, hd.sorted, hd.nodup,
      hidx, hun.1, hun.2⟩
  · intro ρ
    obtain ⟨v, e1, e2, -⟩ := key (d.vars.map ρ) (by simp)
    refine ⟨v, e1, ?_⟩
    unfold FlatEx.eval
    rw [if_neg (by simp; rfl)]
    exact e2

/-- `toDeep_good` with the inductive invariant `ReachLemmas.Good` (which implies `Reach.Inv`) -/
theorem toDeep_good' (ht : Reach.TblOK I t) (f : FlatEx α) (hf : FGood I t f) :
    ∃ d, f.toDeep I t = .ok d ∧ ReachLemmas.Good t d ∧ d.vars = f.vars ∧
      ∀ ρ : Str → α, ∃ v, f.eval I (f.vars.map ρ) = .ok v ∧ d.evalRelaxed I (d.vars.map ρ) = .ok v := by
  obtain ⟨d, hd, hdv, -, -, -⟩ := ToDeep.toDeep_core I t f hf.len hf.prio hf.assoc hf.tbl hf.nodup
    (List.replicate f.vars.length I.dflt) (by simp) hf.vidx
  have hstrict := C09.strict_of_sorted f.vars hf.nodup hf.sorted
  have hgood := FlatApiLemmas.good_toDeep I t ht.assoc ht.prio f d hstrict
    (fun o ho => opOK_of_inTbl t o (hf.tbl o ho) (hf.opUn o ho)) hf.ndUn hd
  refine ⟨d, hd, hgood, hdv, ?_⟩
  intro ρ
  obtain ⟨d', hd', -, -, -, hev⟩ := ToDeep.toDeep_core I t f hf.len hf.prio hf.assoc hf.tbl hf.nodup
    (f.vars.map ρ) (by simp) hf.vidx
  rw [hd] at hd'
  cases hd'
  obtain ⟨v, -, -, hv⟩ := CompileSound.evalCloning_eq_splitKey I f hf.len hf.prio (f.vars.map ρ)
    (by rw [List.length_map]; exact hf.vidx)
  refine ⟨v, ?_, ?_⟩
  · unfold FlatEx.eval
    rw [if_neg (by simp)]
    exact hv
  · rw [hdv, hev]; exact hv

/-- `to_deepex` of a good flat expression succeeds with a deep expression that satisfies the deep
    invariant and has the same variables and value -/
theorem toDeep_good (ht : Reach.TblOK I t) (f : FlatEx α) (hf : FGood I t f) :
    ∃ d, f.toDeep I t = .ok d ∧ Reach.Inv I t d ∧ d.vars = f.vars ∧
      ∀ ρ : Str → α, ∃ v, f.eval I (f.vars.map ρ) = .ok v ∧ d.evalRelaxed I (d.vars.map ρ) = .ok v := by
  obtain ⟨d, h1, h2, h3, h4⟩ := toDeep_good' I t ht f hf
  exact ⟨d, h1, Reach.inv_of_good I t ht d h2, h3, h4⟩

/-- **C10 (flat).** `operate_binary` on flat expressions is a homomorphism -/
theorem flat_operateBin_sound (ht : Reach.TblOK I t) (a b : FlatEx α) (ha : FGood I t a) (hb : FGood I t b)
    (repr : Str) (op : DBin) (hop : findBinOp t repr = .ok op) (ρ : Str → α) :
    ∃ r va vb, a.operateBin I t b repr = .ok r ∧ FGood I t r ∧ r.vars = C10.unionVars a.vars b.vars ∧
      a.eval I (a.vars.map ρ) = .ok va ∧ b.eval I (b.vars.map ρ) = .ok vb ∧
      r.eval I (r.vars.map ρ) = .ok (I.bin op.idx va vb) := by
  obtain ⟨da, hda, ga, hva, hea⟩ := toDeep_good' I t ht a ha
  obtain ⟨db, hdb, gb, hvb, heb⟩ := toDeep_good' I t ht b hb
  have ia := Reach.inv_of_good I t ht da ga
  have ib := Reach.inv_of_good I t ht db gb
  obtain ⟨r, va, vb, h1, h2, -, -, h5, h6, h7⟩ :=
    C10.operateBin_sound I t da db repr op hop (ReachBridge.findBinOp_assoc I t ht.assoc repr op hop)
      ia.namedOk ib.namedOk ia.nodup ib.nodup ia.assoc ib.assoc ρ
  have gr := ReachLemmas.good_operateBin I t ht.assoc ht.prio da db r repr ga gb h1
  obtain ⟨fg, fv, fe⟩ := fgood_fromDeep I t ht r (Reach.inv_of_good I t ht r gr)
  refine ⟨FlatEx.fromDeep I t r, va, vb, ?_, fg, ?_, ?_, ?_, ?_⟩
  · unfold FlatEx.operateBin
    rw [hda, hdb]
    simp only [h1]
  · rw [fv, h2, hva, hvb]
  · obtain ⟨v, e1, e2⟩ := hea ρ
    rw [e2] at h5
    cases h5
    exact e1
  · obtain ⟨v, e1, e2⟩ := heb ρ
    rw [e2] at h6
    cases h6
    exact e1
  · obtain ⟨v, e1, e2⟩ := fe ρ
    rw [e1] at h7
    cases h7
    rw [fv]
    exact e2

/-- **C10 (flat).** `operate_unary` -/
theorem flat_operateUnary_sound (ht : Reach.TblOK I t) (a : FlatEx α) (ha : FGood I t a)
    (repr : Str) (u : Nat) (hu : findUnaryOp t repr = .ok u) (ρ : Str → α) :
    ∃ r va, a.operateUnary I t repr = .ok r ∧ FGood I t r ∧ r.vars = a.vars ∧
      a.eval I (a.vars.map ρ) = .ok va ∧ r.eval I (r.vars.map ρ) = .ok (I.un u va) := by
  obtain ⟨da, hda, ga, hva, hea⟩ := toDeep_good' I t ht a ha
  have ia := Reach.inv_of_good I t ht da ga
  obtain ⟨r, va, h1, h2, -, -, h5, h6⟩ :=
    C10.operateUnary_sound I t da repr u hu ia.namedOk ia.assoc ρ
  have gr := ReachLemmas.good_operateUnary I t ht.assoc ht.prio da r repr ga h1
  obtain ⟨fg, fv, fe⟩ := fgood_fromDeep I t ht r (Reach.inv_of_good I t ht r gr)
  refine ⟨FlatEx.fromDeep I t r, va, ?_, fg, ?_, ?_, ?_⟩
  · unfold FlatEx.operateUnary
    rw [hda]
    simp only [h1]
  · rw [fv, h2, hva]
  · obtain ⟨v, e1, e2⟩ := hea ρ
    rw [e2] at h5
    cases h5
    exact e1
  · obtain ⟨v, e1, e2⟩ := fe ρ
    rw [e1] at h6
    cases h6
    rw [fv]
    exact e2

/-- an unknown operator name is an error -/
theorem flat_operateBin_unknown (a b : FlatEx α) (repr : Str) (e : Fail) (h : findBinOp t repr = .error e)
    (da db : DeepEx α) (hda : a.toDeep I t = .ok da) (hdb : b.toDeep I t = .ok db) :
    a.operateBin I t b repr = .error e := by
  unfold FlatEx.operateBin
  rw [hda, hdb]
  simp only
  unfold DeepEx.operateBin
  rw [h]

/-- the substitution handed to the deep `subs` by `FlatEx.subs` -/
def subsConv (σ : Str → Option (FlatEx α)) : Str → Option (DeepEx α) := fun v =>
  match σ v with
  | none => none
  | some f => match f.toDeep I t with | .ok r => some r | .error _ => none

theorem subs_eq (a : FlatEx α) (σ : Str → Option (FlatEx α)) :
    a.subs I t σ =
      match a.toDeep I t with
      | .error e => .error e
      | .ok d =>
        match d.subs I (subsConv I t σ) with
        | .error e => .error e
        | .ok r => .ok (FlatEx.fromDeep I t r) := rfl

/-- **C11 (flat).** substitution on flat expressions -/
theorem flat_subs_sound (ht : Reach.TblOK I t) (a : FlatEx α) (ha : FGood I t a)
    (σ : Str → Option (FlatEx α)) (hσ : ∀ v r, σ v = some r → FGood I t r) (ρ : Str → α) :
    ∃ r v, a.subs I t σ = .ok r ∧ FGood I t r ∧
      (∀ n, n ∈ r.vars ↔ n ∈ a.vars.flatMap (fun x => match σ x with | none => [x] | some e => e.vars)) ∧
      a.eval I (a.vars.map (fun x => match σ x with
          | none => ρ x
          | some e => match e.eval I (e.vars.map ρ) with | .ok y => y | .error _ => I.dflt)) = .ok v ∧
      r.eval I (r.vars.map ρ) = .ok v := by
  obtain ⟨d, hd, gd, hdv, hed⟩ := toDeep_good' I t ht a ha
  have id := Reach.inv_of_good I t ht d gd
  have conv : ∀ x, (σ x = none ∧ subsConv I t σ x = none) ∨
      ∃ e r, σ x = some e ∧ subsConv I t σ x = some r ∧ ReachLemmas.Good t r ∧ r.vars = e.vars ∧
        ∀ ρ : Str → α, ∃ w, e.eval I (e.vars.map ρ) = .ok w ∧
          r.evalRelaxed I (r.vars.map ρ) = .ok w := by
    intro x
    cases hx : σ x with
    | none =>
      refine .inl ⟨rfl, ?_⟩
      unfold subsConv
      rw [hx]
    | some e =>
      obtain ⟨r, hr, gr, hrv, her⟩ := toDeep_good' I t ht e (hσ x e hx)
      refine .inr ⟨e, r, rfl, ?_, gr, hrv, her⟩
      unfold subsConv
      rw [hx]
      simp only [hr]
  have gσ : ∀ x r, subsConv I t σ x = some r → ReachLemmas.Good t r := by
    intro x r h
    rcases conv x with ⟨-, h0⟩ | ⟨e, r', -, h1, g, -⟩
    · rw [h0] at h; cases h
    · rw [h1] at h; cases h; exact g
  obtain ⟨d', v, h1, h2, -, -, -, -, h7, h8⟩ :=
    C11.subs_sound I d (subsConv I t σ) id.namedOk
      (ReachBridge.listed_of_named_scoped t d.vars d id.namedOk id.scopedOk) id.nodup id.assoc
      (fun x r h => by
        have ir := Reach.inv_of_good I t ht r (gσ x r h)
        exact ⟨ir.namedOk, ir.nodup, ir.assoc⟩) ρ
  have gd' := ReachLemmas.good_subs I t ht.assoc d d' (subsConv I t σ) gd gσ h1
  obtain ⟨fg, fv, fe⟩ := fgood_fromDeep I t ht d' (Reach.inv_of_good I t ht d' gd')
  have hval : ∀ env : Str → α, (∀ x, env x = C11.subsEnv I (subsConv I t σ) ρ x) →
      a.eval I (a.vars.map env) = .ok v := by
    intro env henv
    obtain ⟨w, e1, e2⟩ := hed env
    have hm : d.vars.map env = d.vars.map (C11.subsEnv I (subsConv I t σ) ρ) :=
      List.map_congr_left (fun x _ => henv x)
    rw [hm, h7] at e2
    cases e2
    exact e1
  refine ⟨FlatEx.fromDeep I t d', v, ?_, fg, ?_, ?_, ?_⟩
  · rw [subs_eq, hd]
    simp only [h1]
  · intro n
    rw [fv, h2, C11.subsNames, hdv]
    simp only [List.mem_flatMap]
    constructor
    · rintro ⟨x, hx, hn⟩
      refine ⟨x, hx, ?_⟩
      rcases conv x with ⟨h0, h0'⟩ | ⟨e, r, h0, h0', -, hv, -⟩
      · simpa only [h0, h0'] using hn
      · simpa only [h0, h0', hv] using hn
    · rintro ⟨x, hx, hn⟩
      refine ⟨x, hx, ?_⟩
      rcases conv x with ⟨h0, h0'⟩ | ⟨e, r, h0, h0', -, hv, -⟩
      · simpa only [h0, h0'] using hn
      · simpa only [h0, h0', hv] using hn
  · apply hval
    intro x
    unfold C11.subsEnv
    rcases conv x with ⟨h0, h0'⟩ | ⟨e, r, h0, h0', -, -, hw⟩
    · simp only [h0, h0']
    · obtain ⟨w, e1, e2⟩ := hw ρ
      simp only [h0, h0', e1, e2]
  · obtain ⟨w, e1, e2⟩ := fe ρ
    rw [h8] at e1
    cases e1
    rw [fv]
    exact e2

/-- **C09 (flat).** a derivative of a good flat expression lists its variables and is good again -/
theorem flat_partialIter_vars (ht : Reach.TblOK I t) (f : FlatEx α) (hf : FGood I t f)
    (hr : ∀ d, f.toDeep I t = .ok d → C05.Ruled t d)
    (idxs : List Nat) (hne : idxs ≠ []) (g : FlatEx α) (hg : f.partialIter I C t idxs = .ok g) :
    g.vars = f.vars ∧ FGood I t g := by
  obtain ⟨d, hd, gd, hdv, -⟩ := toDeep_good' I t ht f hf
  have id := Reach.inv_of_good I t ht d gd
  unfold FlatEx.partialIter at hg
  rw [hd] at hg
  simp only at hg
  split at hg
  · cases hg
  rename_i d' hd'
  cases hg
  obtain ⟨hv, -, -⟩ := C09.partialIter_vars I C t d d' id.namedOk id.nodup id.sorted (hr d hd)
    id.scopedOk idxs (fun h0 => absurd h0 hne) hd'
  have gd' := ReachLemmas.good_partialIter I C t ht.assoc ht.prio d d' idxs gd hd'
  obtain ⟨fg, fv, -⟩ := fgood_fromDeep I t ht d' (Reach.inv_of_good I t ht d' gd')
  exact ⟨by rw [fv, hv, hdv], fg⟩

/-- **C09 (flat).** an out-of-range index is an error -/
theorem flat_partialIter_index_error (ht : Reach.TblOK I t) (f : FlatEx α) (hf : FGood I t f)
    (idxs : List Nat) (h : ∃ i ∈ idxs, i ≥ f.vars.length) :
    f.partialIter I C t idxs = .error (.err "index") := by
  obtain ⟨d, hd, -, hdv, -⟩ := toDeep_good' I t ht f hf
  unfold FlatEx.partialIter
  rw [hd]
  simp only
  rw [C09.partialIter_index_error I C t d idxs (by rw [hdv]; exact h)]

end Exmex.FlatApi
