/-
  C20 — Expressions are immutable values that can be shared across threads.

  What a Lean model can carry: parsing and evaluation are *functions*; an operation of a thread
  reads shared expressions and returns a value, it has no other effect. Hence in every
  interleaving of the threads' operation lists each operation returns what it returns in a
  sequential run. That the *implementation* is such a function (no interior mutability, `Send +
  Sync`) is decided by rustc on the harness' static assertions and by a source scan; the
  interleavings of the real scheduler and of the one-time regex initialisation are exercised by
  the concurrent history check (run-time, partial).
-/
import Exmex.Model.Deep
namespace Exmex.C20

/-- what a thread can do with the shared, immutable expressions -/
inductive Op (α : Type) where
  | parseFlat (text : Str)
  | parseDeep (text : Str)
  | evalFlat (k : Nat) (vals : List α)
  | evalDeep (k : Nat) (vals : List α)

/-- observable result of an operation -/
inductive Out (α : Type) where
  | flat (r : Res (List (FlatNode α) × List FlatOp × List Str))
  | deep (r : Res (List Str))
  | value (r : Res α)

structure World (α : Type) where
  I : Interp α
  t : Table
  lm : Str → Option Nat
  sharedFlat : List (FlatEx α)
  sharedDeep : List (DeepEx α)

/-- an operation is a function of the (immutable) world and its arguments -/
def runOp {α} (w : World α) : Op α → Out α
  | .parseFlat text =>
    .flat (match Flat.parse w.I w.t w.lm text with | .ok f => .ok (f.nodes, f.ops, f.vars) | .error e => .error e)
  | .parseDeep text =>
    .deep (match Deep.parse w.I w.t w.lm text with | .ok d => .ok d.vars | .error e => .error e)
  | .evalFlat k vals =>
    .value (match w.sharedFlat[k]? with | some f => f.eval w.I vals | none => .error (.err "index"))
  | .evalDeep k vals =>
    .value (match w.sharedDeep[k]? with | some d => d.eval w.I vals | none => .error (.err "index"))

/-- run a schedule: `σ` names the thread that performs its next operation; `pos i` is the number
    of operations thread `i` has already performed; the world is never modified -/
def runSchedule {α} (w : World α) (threads : List (List (Op α))) :
    List Nat → (Nat → Nat) → List (Nat × Nat × Out α)
  | [], _ => []
  | i :: σ, pos =>
    match (threads[i]?).bind (·[pos i]?) with
    | some op => (i, pos i, runOp w op) :: runSchedule w threads σ (fun j => if j = i then pos j + 1 else pos j)
    | none => runSchedule w threads σ pos

/-- **C20 (model).** Whatever the interleaving, the k-th operation of thread i returns exactly what
    it returns when thread i runs alone (sequentially): results depend on the operation only. -/
theorem schedule_independent {α} (w : World α) (threads : List (List (Op α))) (σ : List Nat)
    (pos : Nat → Nat) :
    ∀ x ∈ runSchedule w threads σ pos, ∃ op, (threads[x.1]?).bind (·[x.2.1]?) = some op ∧ x.2.2 = runOp w op := by
  induction σ generalizing pos with
  | nil => intro x hx; simp [runSchedule] at hx
  | cons i σ ih =>
    intro x hx
    unfold runSchedule at hx
    split at hx
    · next op hop =>
      rcases List.mem_cons.mp hx with rfl | hx'
      · exact ⟨op, hop, rfl⟩
      · exact ih _ x hx'
    · exact ih _ x hx

/-- evaluation returns a value and nothing else: the expression is the same afterwards -/
theorem eval_does_not_modify {α} (I : Interp α) (f : FlatEx α) (vals : List α) :
    (f.eval I vals, f).2 = f := rfl

end Exmex.C20
