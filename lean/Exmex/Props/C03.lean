/-
  C03 — Flat and deep expression forms are interchangeable (deep → flat direction).

  `FlatEx::from_deepex` (`flatten_vecs`: + 100 per nesting level, the group's unary chain on its
  right-most lowest operator or single node) preserves the variable list and the value for every
  assignment, for every deep expression whose groups have one more node than operators and
  operator priorities in 0..=99.
-/
import Exmex.Model.Conv
import Exmex.Proofs.DeepGroup
import Exmex.Proofs.DeepDefs
import Exmex.Props.C02
import Exmex.Proofs.FromDeep
namespace Exmex.C03

/-- **C03 (deep → flat).** -/
theorem fromDeep_sound {α} (I : Interp α) (t : Table) (d : DeepEx α) (vals : List α)
    (hs : d.Shape vals.length) (hp : d.PrioOK) (hA : d.Assoc I) :
    (FlatEx.fromDeep I t d).vars = d.vars ∧
    C02.FlatInv I (FlatEx.fromDeep I t d) ∧
    evalCloning I (FlatEx.fromDeep I t d) vals = d.evalRelaxed I vals := by
  obtain ⟨v, hev, hok⟩ := FromDeep.flatten_ok I vals 0 d hs hp hA
  obtain ⟨ns, hns, hg⟩ := hok.val
  have hf : FlatEx.fromDeep I t d =
      { nodes := (d.flatten 0).1, ops := (d.flatten 0).2,
        prioIdx := prioIdxFlat (d.flatten 0).2 (d.flatten 0).1, vars := d.vars,
        text := d.unparse I t } := rfl
  have hinv : C02.FlatInv I (FlatEx.fromDeep I t d) := by
    rw [hf]
    refine ⟨?_, rfl, hok.assoc, (FlatDenoteAux.unaryOK_iff _).2 hok.unary⟩
    show (d.flatten 0).1.length = (d.flatten 0).2.length + 1
    rw [← FlatDenoteAux.nodeValues_length I vals hns]
    exact hg.len
  have hidx : C02.IdxOK (FlatEx.fromDeep I t d) vals.length := by
    rw [hf]
    exact FromDeep.nodeValues_idx I vals hns
  refine ⟨by rw [hf], hinv, ?_⟩
  obtain ⟨ns', v', hns', hsp, hcl⟩ := C02.evalCloning_eq_split I _ hinv vals hidx
  rw [hcl, hev]
  rw [hf] at hns' hsp
  simp only at hns' hsp
  rw [hns] at hns'
  cases hns'
  rw [hg.ev] at hsp
  cases hsp
  rfl

end Exmex.C03
