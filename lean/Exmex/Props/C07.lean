/-
  C07 — Malformed expressions are reported as errors, never evaluated.
-/
import Exmex.Model.Flat
import Exmex.Model.Deep
import Exmex.Proofs.Reject
namespace Exmex.C07

/-- what every parser does first -/
def frontEnd {α} (I : Interp α) (t : Table) (lm : Str → Option Nat) (text : Str) : Res (List (Tok α)) :=
  match tokenize I t lm text with
  | .error e => .error e
  | .ok toks =>
    match checkPre t toks with
    | .error e => .error e
    | .ok () => .ok toks

/-- both parsers reject whatever the front end rejects -/
theorem flat_rejects_frontEnd {α} (I : Interp α) (t : Table) (lm : Str → Option Nat) (text : Str)
    (e : Fail) (h : frontEnd I t lm text = .error e) :
    Flat.parseWoCompile I t lm text = .error e ∧ Flat.parse I t lm text = .error e := by
  have h1 : Flat.parseWoCompile I t lm text = .error e := by
    unfold frontEnd at h
    unfold Flat.parseWoCompile
    cases ht : tokenize I t lm text with
    | error e' => simpa [ht] using h
    | ok toks =>
      cases hc : checkPre t toks with
      | error e' => simpa [ht, hc] using h
      | ok u => simp [ht, hc] at h
  exact ⟨h1, by simp [Flat.parse, h1]⟩
theorem deep_rejects_frontEnd {α} (I : Interp α) (t : Table) (lm : Str → Option Nat) (text : Str)
    (e : Fail) (h : frontEnd I t lm text = .error e) :
    Deep.parse I t lm text = .error e := by
  unfold frontEnd at h
  unfold Deep.parse
  cases ht : tokenize I t lm text with
  | error e' => simpa [ht] using h
  | ok toks =>
    cases hc : checkPre t toks with
    | error e' => simpa [ht, hc] using h
    | ok u => simp [ht, hc] at h

/-- an empty or blank text is rejected -/
theorem blank_rejected {α} (I : Interp α) (t : Table) (lm : Str → Option Nat) (text : Str)
    (h : ∀ c ∈ text, c = ' ') : frontEnd (α := α) I t lm text = .error (.err "empty") := by
  simp [frontEnd, tokenize_blank I t lm text h, checkPre]

/-- a token sequence ending in an operator is rejected -/
theorem trailing_operator_rejected {α} (t : Table) (toks : List (Tok α)) (o : Nat)
    (h : toks.getLast? = some (.op o)) : ∃ k, checkPre t toks = .error (.err k) := by
  have hne : toks.isEmpty = false := by cases toks <;> simp_all
  unfold checkPre
  rw [hne]
  simp only [Bool.false_eq_true, if_false]
  split
  · exact ⟨_, rfl⟩
  · split
    · exact ⟨_, rfl⟩
    · split
      · exact ⟨_, rfl⟩
      · simp [h, isOpTok]

/-- unbalanced parentheses (a closing one too early, or a non-zero final balance) are rejected -/
theorem unbalanced_rejected {α} (t : Table) (toks : List (Tok α))
    (h : parenBalance toks 0 ≠ some 0) : ∃ k, checkPre t toks = .error (.err k) := by
  unfold checkPre
  split
  · exact ⟨_, rfl⟩
  · split
    · exact ⟨_, rfl⟩
    · split
      · exact ⟨_, rfl⟩
      · rename_i n hn
        have : n ≠ 0 := fun h0 => h (by rw [hn, h0])
        simp [this]

/-- FINDING: the statement "an operand directly beside an operand, or beside a parenthesis on the
    wrong side, is rejected [by `checkPre`]" is FALSE for operand–operand pairs: `pairViolated`
    (like `make_pair_pre_conditions` of the modelled parser.rs) has no rule for `num|var` next to
    `num|var`, so e.g. the token list `1 2` passes the pre-condition check. (Such inputs are only
    rejected later, by the builders, with the "count" error.) -/
theorem adjacent_operands_not_rejected {α} (t : Table) (x y : α) :
    checkPre t ([] ++ Tok.num x :: Tok.num y :: []) = .ok () := by
  simp [checkPre, anyPairViolated, pairViolated, parenBalance, parenDelta, isOpTok]

/-- an operand beside a parenthesis on the wrong side is rejected.
    Changed w.r.t. the original statement (hypotheses `isOperand a ∨ a = .pclose`,
    `isOperand b ∨ b = .popen`, `¬ (a = .pclose ∧ b = .popen)`): the additional hypothesis `hnot2`
    excludes the operand–operand case, for which the claim is false
    (see `adjacent_operands_not_rejected`). Everything else is as originally stated. -/
theorem adjacent_operands_rejected {α} (t : Table) (pre post : List (Tok α)) (a b : Tok α)
    (ha : isOperand a = true ∨ a = .pclose) (hb : isOperand b = true ∨ b = .popen)
    (hnot : ¬ (a = .pclose ∧ b = .popen))
    (hnot2 : ¬ (isOperand a = true ∧ isOperand b = true)) :
    ∃ k, checkPre t (pre ++ a :: b :: post) = .error (.err k) := by
  have hv : pairViolated t a b = true := by
    apply pairViolated_paren_operand
    rcases ha with ha | ha <;> rcases hb with hb | hb
    · exact absurd ⟨ha, hb⟩ hnot2
    · exact .inr ⟨ha, hb⟩
    · exact .inl ⟨ha, hb⟩
    · exact absurd ⟨ha, hb⟩ hnot
  exact ⟨"pair", by simp [checkPre, anyPairViolated_append t a b post hv pre]⟩

/-- a character sequence that is neither bracket, comma, brace, literal, operator nor identifier
    is rejected by the tokenizer step -/
theorem unknown_rejected {α} (I : Interp α) (t : Table) (lm : Str → Option Nat) (c : Char) (cs : Str)
    (st : LexSt α) (h1 : c ≠ '(' ∧ c ≠ ')' ∧ c ≠ ',' ∧ c ≠ '{') (hlm : lm (c :: cs) = none)
    (hop : findOps t (c :: cs) = none) (hid : isIdentStart c = false) :
    lexStep I t lm (c :: cs) st = .error (.err "unknown") := by
  obtain ⟨ha, hb, hc, hd⟩ := h1
  have hi : identPrefixLen (c :: cs) = none := by simp [identPrefixLen, hid]
  simp [lexStep, ha, hb, hc, hd, hlm, hop, hi]

/-- whatever the flat builder accepts has exactly one more operand than binary operators -/
theorem flat_count {α} (t : Table) (text : Str) (toks : List (Tok α)) (vars : List Str) (f : FlatEx α)
    (h : makeExpression t text toks vars = .ok f) : f.nodes.length = f.ops.length + 1 := by
  unfold makeExpression at h
  split at h
  · cases h
  · split at h
    · cases h
    · rename_i hne
      cases h
      simp at hne
      exact hne.symm

/-- the token stream keeps the paren balance of the source text: after the tokenizer loop the
    token balance equals the source depth plus the number of closing parens still owed to calls -/
theorem lexLoop_balance {α} (I : Interp α) (t : Table) (lm : Str → Option Nat)
    (text : Str) (skip : Nat) (st st' : LexSt α)
    (h : lexLoop I t lm text skip st = .ok st') :
    (st'.res.map parenDelta).sum - (st.res.map parenDelta).sum =
      (st'.depth - st.depth) + ((st'.owed.length : Int) - st.owed.length) := by
  have := lexLoop_excess I t lm text skip st st' h
  unfold LexSt.excess at this
  omega

end Exmex.C07
