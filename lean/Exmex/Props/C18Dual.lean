/-
  C18 — piecewise expressions: the derivative engine treats comparisons as carried conditions and
  `a if c else b` branch-wise.  `C05.partial_sound` (whose reference rules in Spec/Dual.lean include
  the comparisons, `if` and `else`) says the derivative expression evaluates to the `der` component
  of the dual evaluation; this file says what that component IS for a piecewise expression: the
  derivative of the branch the condition selects.
-/
import Exmex.Props.C05
namespace Exmex.C18

/-- what `if` and `else` compute on the value type: `x if c` is `x` when `c` holds and a
    distinguished `none` otherwise; `y else z` is `y` unless `y` is `none` -/
structure PWLaws {K : Type} (D : DArith K) (none : K) (truthy : K → Bool) : Prop where
  if_true : ∀ x c, truthy c = true → D.bop "if" x c = x
  if_false : ∀ x c, truthy c = false → D.bop "if" x c = none
  else_some : ∀ y z, y ≠ none → D.bop "else" y z = y
  else_none : ∀ z, D.bop "else" none z = z

variable {K : Type} [DecidableEq K] (D : DArith K)

/-- a comparison is carried unchanged: its "derivative" is the comparison itself -/
theorem cmp_carried (n : String) (hn : n ∈ [">", "<", ">=", "<=", "==", "!="]) (A B : DVal K) :
    ∃ w, dualBin D n A B = some w ∧ w.val = D.bop n A.val B.val ∧ w.der = w.val ∧ w.ok = (A.ok && B.ok) := by
  simp only [List.mem_cons, List.not_mem_nil, or_false] at hn
  rcases hn with rfl | rfl | rfl | rfl | rfl | rfl <;> exact ⟨_, rfl, rfl, rfl, rfl⟩

/-- **C18.** `(a if c) else b` where the condition is carried (`c.der = c.val`, as for every
    comparison): value and derivative are those of the selected branch -/
theorem piecewise_dual (none : K) (truthy : K → Bool) (P : PWLaws D none truthy)
    (A Cc B : DVal K) (hc : Cc.der = Cc.val) :
    ∃ w1 w, dualBin D "if" A Cc = some w1 ∧ dualBin D "else" w1 B = some w ∧
      w.ok = (A.ok && Cc.ok && B.ok) ∧
      (truthy Cc.val = true → A.val ≠ none → A.der ≠ none → w.val = A.val ∧ w.der = A.der) ∧
      (truthy Cc.val = false → w.val = B.val ∧ w.der = B.der) := by
  refine ⟨⟨D.bop "if" A.val Cc.val, D.bop "if" A.der Cc.der, A.ok && Cc.ok⟩,
    ⟨D.bop "else" (D.bop "if" A.val Cc.val) B.val, D.bop "else" (D.bop "if" A.der Cc.der) B.der,
      A.ok && Cc.ok && B.ok⟩, rfl, rfl, rfl, ?_, ?_⟩
  · intro ht hv hd
    show D.bop "else" (D.bop "if" A.val Cc.val) B.val = A.val ∧
      D.bop "else" (D.bop "if" A.der Cc.der) B.der = A.der
    rw [hc, P.if_true _ _ ht, P.if_true _ _ ht, P.else_some _ _ hv, P.else_some _ _ hd]
    exact ⟨rfl, rfl⟩
  · intro hf
    show D.bop "else" (D.bop "if" A.val Cc.val) B.val = B.val ∧
      D.bop "else" (D.bop "if" A.der Cc.der) B.der = B.der
    rw [hc, P.if_false _ _ hf, P.if_false _ _ hf, P.else_none, P.else_none]
    exact ⟨rfl, rfl⟩

section
variable {K : Type} [DecidableEq K] (I : Interp K) (C : CalcOps K) (t : Table)

/-- **C05 + C18.** For an expression whose top group is literally `a if c else b` — nodes
    `[a, c, b]`, operators `[if, else]` (by name), no unary chain, `if` applied first (`hprio`; in the
    default table `if` and `else` have the same priority and are applied left to right) — and whose condition is carried (`hcar`, as for
    every comparison, `cmp_carried`): at a regular point the derivative returned by `partial_deepex`
    evaluates to the derivative of the branch the condition selects, i.e. to the `der` component of
    the dual value of the node `a`, respectively `b`. -/
theorem partial_sound_piecewise (A : C10.Arith I C t) (L : C05.Laws (dArith I C t))
    (hnames : (t.map (·.repr)).Nodup)
    (hfn : ∀ n ∈ ["-", "ln", "sqrt", "sin", "cos", "sinh", "cosh", "tanh"],
      ∃ u, findUnaryOp t (String.toList n) = .ok u)
    (hbop : C05.BopAssoc I t)
    (na nc nb : DeepNode K) (oi oe : DBin) (vars : List Str)
    (hoi : String.ofList (reprOf t oi.idx) = "if") (hoe : String.ofList (reprOf t oe.idx) = "else")
    (hprio : prioIdxDeep [oi, oe] [na, nc, nb] = [0, 1])
    (hn : C10.Named vars (DeepEx.mk [na, nc, nb] [oi, oe] [] vars)) (hnd : vars.Nodup)
    (hsorted : sortBy strLe vars = vars) (hA : (DeepEx.mk [na, nc, nb] [oi, oe] [] vars).Assoc I)
    (hf : Shortcut.Folded (DeepEx.mk [na, nc, nb] [oi, oe] [] vars))
    (hr : C05.Ruled t (DeepEx.mk [na, nc, nb] [oi, oe] [] vars))
    (hsc : C05.Scoped t vars (DeepEx.mk [na, nc, nb] [oi, oe] [] vars))
    (i : Nat) (x : Str) (hi : vars[i]? = some x) (ρ : Str → K)
    (fuel : Nat) (d' : DeepEx K)
    (hp : partialDeepex I C t i fuel (DeepEx.mk [na, nc, nb] [oi, oe] [] vars) = .ok d')
    (none : K) (truthy : K → Bool) (P : PWLaws (dArith I C t) none truthy)
    (wa wc wb : DVal K)
    (ha : (na.lift C).evalNode (dualInterp I C t) (vars.map (seed C ρ x)) = .ok wa)
    (hc : (nc.lift C).evalNode (dualInterp I C t) (vars.map (seed C ρ x)) = .ok wc)
    (hb : (nb.lift C).evalNode (dualInterp I C t) (vars.map (seed C ρ x)) = .ok wb)
    (hcar : wc.der = wc.val) (hreg : (wa.ok && wc.ok && wb.ok) = true) :
    d'.vars = vars ∧
      (truthy wc.val = true → wa.val ≠ none → wa.der ≠ none →
        d'.evalRelaxed I (d'.vars.map ρ) = .ok wa.der) ∧
      (truthy wc.val = false → d'.evalRelaxed I (d'.vars.map ρ) = .ok wb.der) := by
  obtain ⟨w1, w, h1, h2, hok, hT, hF⟩ := piecewise_dual (dArith I C t) none truthy P wa wc wb hcar
  -- the dual evaluation of the group
  have hnodes : evalNodeList (dualInterp I C t) (vars.map (seed C ρ x)) (liftList C [na, nc, nb]) =
      .ok [wa, wc, wb] := by
    simp only [liftList, evalNodeList, ha, hc, hb]
  obtain ⟨v, hv1, hv2⟩ := Diff.eval_group (dualInterp I C t) (vars.map (seed C ρ x))
    (liftList C [na, nc, nb]) [oi, oe] [] vars [wa, wc, wb] (by rw [List.length_map]; exact Nat.le_refl _)
    hnodes rfl
  rw [Diff.prio_lift, hprio] at hv1
  have hv : v = w := by
    have e1 : (dualInterp I C t).bin oi.idx wa wc = w1 := by
      show (dualBin (dArith I C t) (String.ofList (reprOf t oi.idx)) wa wc).getD _ = w1
      rw [hoi, h1]; rfl
    have e2 : (dualInterp I C t).bin oe.idx w1 wb = w := by
      show (dualBin (dArith I C t) (String.ofList (reprOf t oe.idx)) w1 wb).getD _ = w
      rw [hoe, h2]; rfl
    have : reduceByOrder (Diff.gApply (dualInterp I C t) [oi, oe]) [wa, wc, wb] [0, 1] =
        some ((dualInterp I C t).bin oe.idx ((dualInterp I C t).bin oi.idx wa wc) wb) := rfl
    rw [this, e1, e2] at hv1
    exact (Option.some.inj hv1).symm
  subst hv
  have hw : (DeepEx.mk [na, nc, nb] [oi, oe] [] vars).dualEval I C t ρ x = .ok v := by
    unfold DeepEx.dualEval
    rw [Diff.lift_mk]
    exact hv2
  obtain ⟨r1, -, -, -, -, r6⟩ := C05.partial_sound I C t A L hnames hfn hbop
    (DeepEx.mk [na, nc, nb] [oi, oe] [] vars) hn hnd hsorted hA hf hr hsc
    i x hi ρ fuel d' hp v hw (by rw [hok]; exact hreg)
  refine ⟨r1, ?_, ?_⟩
  · intro ht hva hda
    rw [r6, (hT ht hva hda).2]
  · intro hf'
    rw [r6, (hF hf').2]

end

end Exmex.C18
