/-
  C02 — "arbitrary accepted strings for the parse vs parse_wo_compile differential": for EVERY text
  the flat parser accepts (not only renderings of well-formed expressions), constant folding is
  invisible: the folded expression, the unfolded one and a re-folded one list the same variables and
  have the same value at every assignment.

  No hypothesis on the text is needed. For sloppy texts (a group starting with a binary operator,
  operands next to each other: `+ s(x+2)(3+4)`) the token walker produces flat expressions that
  violate `UnaryOK` (a unary chain on an operator that is followed by an operator of the same
  priority without a lower one in between), so the "+5" preference of `prioritized_indices_flat`
  is *visible* there and `C02.compile_sound` does not apply. `FoldAny.compile_any` shows that
  folding is nevertheless invisible for every flat expression whose flagged operators are
  associative: the flags of the surviving operators can only change from unset to set, and only
  where it does not matter. `FoldAnyCex` has the kernel-checked example (`UnaryOK` fails, the
  value 96 differs from the priority-only value 60, folded = unfolded = re-folded).
-/
import Exmex.Props.Reach
import Exmex.Props.C02
import Exmex.Props.C06Total
import Exmex.Proofs.FoldAny
import Exmex.Proofs.FoldAnyCex
namespace Exmex.C02

/-- what the token walker guarantees for every accepted text -/
theorem parseWoCompile_facts {α} (I : Interp α) (t : Table) (lm : Str → Option Nat)
    (ht : Reach.TblOK I t) (text : Str) (w : FlatEx α)
    (hw : Flat.parseWoCompile I t lm text = .ok w) :
    Total.FlatOK w ∧ FoldAny.AssocOps I w.ops := by
  refine ⟨(Total.parseWoCompile_post I t lm text).of_ok hw, ?_⟩
  unfold Flat.parseWoCompile at hw
  split at hw
  · cases hw
  split at hw
  · cases hw
  obtain ⟨-, hops, -⟩ := ReachFlat.makeExpression_ok t text _ _ w hw
  intro o ho hc
  obtain ⟨⟨b, hb, hcb⟩, -⟩ := hops o ho
  exact ht.assoc o.idx b hb (by rw [← hcb]; exact hc)

/-- **C02 (arbitrary accepted strings).** -/
theorem parse_fold_invisible_any {α} (I : Interp α) (t : Table) (lm : Str → Option Nat)
    (ht : Reach.TblOK I t) (text : Str) (f : FlatEx α) (hf : Flat.parse I t lm text = .ok f) :
    ∃ w f2, Flat.parseWoCompile I t lm text = .ok w ∧ f.compile I = .ok f2 ∧
      f.vars = w.vars ∧ f2.vars = w.vars ∧
      ∀ vals : List α, vals.length = w.vars.length →
        ∃ v, w.eval I vals = .ok v ∧ f.eval I vals = .ok v ∧ f2.eval I vals = .ok v := by
  have hf0 := hf
  unfold Flat.parse at hf0
  split at hf0
  · cases hf0
  rename_i w hw
  obtain ⟨hok, hA⟩ := parseWoCompile_facts I t lm ht text w hw
  -- one run with default values to name the re-folded expression
  have hidx0 : ∀ nd ∈ w.nodes, ∀ i, nd.kind = .var i →
      i < (List.replicate w.vars.length I.dflt).length := by
    simpa using hok.vidx
  obtain ⟨f', h1, l1, p1, a1, i1, v1, -⟩ :=
    FoldAny.compile_any I w hok.len hok.prio hA (List.replicate w.vars.length I.dflt) hidx0
  rw [hf0] at h1
  cases h1
  obtain ⟨f2, h2, -, -, -, -, v2, -⟩ :=
    FoldAny.compile_any I f l1 p1 a1 (List.replicate w.vars.length I.dflt) i1
  refine ⟨w, f2, hw, h2, v1, v2.trans v1, ?_⟩
  intro vals hvals
  have hidx : ∀ nd ∈ w.nodes, ∀ i, nd.kind = .var i → i < vals.length := by
    rw [hvals]; exact hok.vidx
  obtain ⟨f', h1', l1', p1', a1', i1', -, e1⟩ :=
    FoldAny.compile_any I w hok.len hok.prio hA vals hidx
  rw [hf0] at h1'
  cases h1'
  obtain ⟨f2', h2', -, -, -, -, -, e2⟩ := FoldAny.compile_any I f l1' p1' a1' vals i1'
  rw [h2] at h2'
  cases h2'
  obtain ⟨v, -, -, hv⟩ := CompileSound.evalCloning_eq_splitKey I w hok.len hok.prio vals hidx
  refine ⟨v, ?_, ?_, ?_⟩
  · unfold FlatEx.eval
    rw [if_neg (by simp [hvals])]
    exact hv
  · unfold FlatEx.eval
    rw [if_neg (by simp [hvals, v1])]
    rw [e1]; exact hv
  · unfold FlatEx.eval
    rw [if_neg (by simp [hvals, v1, v2])]
    rw [e2, e1]; exact hv

/-- acceptance does not depend on folding -/
theorem parse_accepts_iff_wo {α} (I : Interp α) (t : Table) (lm : Str → Option Nat)
    (ht : Reach.TblOK I t) (text : Str) :
    (∃ f, Flat.parse I t lm text = .ok f) ↔ (∃ w, Flat.parseWoCompile I t lm text = .ok w) := by
  constructor
  · rintro ⟨f, hf⟩
    unfold Flat.parse at hf
    split at hf
    · cases hf
    · rename_i w hw
      exact ⟨w, hw⟩
  · rintro ⟨w, hw⟩
    obtain ⟨hok, hA⟩ := parseWoCompile_facts I t lm ht text w hw
    obtain ⟨f', h1, -⟩ :=
      FoldAny.compile_any I w hok.len hok.prio hA (List.replicate w.vars.length I.dflt)
        (by simpa using hok.vidx)
    refine ⟨f', ?_⟩
    unfold Flat.parse
    rw [hw]
    exact h1

end Exmex.C02
