/-
  C12, text level: the tokenizer run on the text PRINTED by a deep expression (no spaces) returns the
  canonical tokens of the printed chain, provided every printed token text is lexed to its token
  in front of whatever the printer can put behind it.  Together with `C12.unparse_parse_sound`
  this removes the run-time hypothesis from "print, then parse".
-/
import Exmex.Props.C12
import Exmex.Props.C13Lex
namespace Exmex.C12

mutual
/-- literals occurring in the expression -/
def litsOf {α} : DeepEx α → List α
  | .mk nodes _ _ _ => litsOfList nodes
def litsOfList {α} : List (DeepNode α) → List α
  | [] => []
  | .num a :: rest => a :: litsOfList rest
  | .var _ _ :: rest => litsOfList rest
  | .expr e :: rest => litsOf e ++ litsOfList rest
end

/-- what the printer can put behind an operand (literal, variable, closing parenthesis):
    the end of the text, a closing parenthesis, or a binary operator name -/
def AfterOperand (t : Table) (rest : Str) : Prop :=
  rest = [] ∨ rest.head? = some ')' ∨ ∃ o ∈ t, o.hasBin = true ∧ o.repr ≠ [] ∧ o.repr.isPrefixOf rest = true

/-- what the printer can put behind a binary operator name: an opening parenthesis, a braced
    variable, the text of a literal of the expression, or a unary operator name followed by `(` -/
def AfterOperator {α} (I : Interp α) (t : Table) (d : DeepEx α) (rest : Str) : Prop :=
  rest.head? = some '(' ∨ rest.head? = some '{' ∨
  (∃ a ∈ litsOf d, I.dbg a ≠ [] ∧ (I.dbg a).isPrefixOf rest = true) ∨
  (∃ o ∈ t, o.hasUnary = true ∧ o.repr ≠ [] ∧ (o.repr ++ ['(']).isPrefixOf rest = true)

/-- every printed token text is lexed to its token in front of what can follow it -/
structure PrintLexOK {α} (I : Interp α) (t : Table) (lm : Str → Option Nat) (d : DeepEx α) : Prop where
  lit : ∀ a ∈ litsOf d, ∀ rest (st : LexSt α), AfterOperand t rest →
    (∃ c cs, I.dbg a = c :: cs ∧ c ≠ ' ') ∧
    lexStep I t lm (I.dbg a ++ rest) st = .ok ((I.dbg a).length, { st with res := st.res ++ [.num a] })
  bin : ∀ o ∈ d.binOpsAll, ∀ rest (st : LexSt α), AfterOperator I t d rest →
    (∃ c cs, reprOf t o = c :: cs ∧ c ≠ ' ') ∧
    lexStep I t lm (reprOf t o ++ rest) st = .ok ((reprOf t o).length, { st with res := st.res ++ [.op o] })
  un : ∀ u ∈ d.unOpsAll, ∀ rest (st : LexSt α),
    (∃ c cs, reprOf t u = c :: cs ∧ c ≠ ' ') ∧
    lexStep I t lm (reprOf t u ++ '(' :: rest) st = .ok ((reprOf t u).length, { st with res := st.res ++ [.op u] })
  var : ∀ x ∈ (topChain I d).vars, '}' ∉ x

/-! ### the induction over the printed expression -/

section Induction
open Exmex.LexText Exmex.C13 Exmex.Print
variable {α : Type} (I : Interp α) (t : Table) (lm : Str → Option Nat) (D : DeepEx α)

theorem litsOfList_cons (nd : DeepNode α) (rest : List (DeepNode α)) :
    litsOfList (nd :: rest) = litsOfList [nd] ++ litsOfList rest := by
  cases nd <;> simp [litsOfList]

theorem binOpsNodes_cons (nd : DeepNode α) (rest : List (DeepNode α)) :
    binOpsNodes (nd :: rest) = binOpsNodes [nd] ++ binOpsNodes rest := by
  cases nd <;> simp [binOpsNodes]

theorem unOpsNodes_cons (nd : DeepNode α) (rest : List (DeepNode α)) :
    unOpsNodes (nd :: rest) = unOpsNodes [nd] ++ unOpsNodes rest := by
  cases nd <;> simp [unOpsNodes]

theorem tblBin_entry {i : Nat} {o : DBin} (h : tblBin t i = some o) :
    ∃ p, t[i]? = some p ∧ p.hasBin = true := by
  unfold tblBin at h
  cases hp : t[i]? with
  | none => rw [hp] at h; cases h
  | some p =>
    refine ⟨p, rfl, ?_⟩
    rw [hp] at h
    unfold OpSpec.hasBin
    cases hb : p.bin with
    | none =>
      have : (some p).bind (·.bin) = none := hb
      rw [this] at h; cases h
    | some b => rfl

theorem tblHasUnary_entry {u : Nat} (h : tblHasUnary t u = true) :
    ∃ p, t[u]? = some p ∧ p.hasUnary = true := by
  unfold tblHasUnary at h
  cases hp : t[u]? with
  | none => rw [hp] at h; cases h
  | some p => rw [hp] at h; exact ⟨p, rfl, h⟩

theorem reprOf_entry {i : Nat} {p : OpSpec} (h : t[i]? = some p) : reprOf t i = p.repr := by
  unfold reprOf; rw [h]; rfl

variable (hl : PrintLexOK I t lm D)
include hl

theorem lit_ne {a : α} (ha : a ∈ litsOf D) : I.dbg a ≠ [] := by
  obtain ⟨⟨c, cs, hc, -⟩, -⟩ := hl.lit a ha [] {} (Or.inl rfl)
  rw [hc]; exact List.cons_ne_nil _ _

theorem bin_ne {o : Nat} (ho : o ∈ D.binOpsAll) : reprOf t o ≠ [] := by
  obtain ⟨⟨c, cs, hc, -⟩, -⟩ := hl.bin o ho ['('] {} (Or.inl rfl)
  rw [hc]; exact List.cons_ne_nil _ _

theorem un_ne {u : Nat} (hu : u ∈ D.unOpsAll) : reprOf t u ≠ [] := by
  obtain ⟨⟨c, cs, hc, -⟩, -⟩ := hl.un u hu [] {}
  rw [hc]; exact List.cons_ne_nil _ _

theorem lit_loop {a : α} (ha : a ∈ litsOf D) (rest : Str) (hr : AfterOperand t rest)
    (res : List (Tok α)) (d : Int) (dp : Bool) :
    lexLoop I t lm (I.dbg a ++ rest) 0 ⟨res, [], d, dp⟩ = lexLoop I t lm rest 0 ⟨res ++ [.num a], [], d, dp⟩ := by
  obtain ⟨⟨c, cs, hc, hne⟩, hstep⟩ := hl.lit a ha rest ⟨res, [], d, dp⟩ hr
  rw [hc] at hstep ⊢
  exact lexLoop_step I t lm c cs rest _ _ hne hstep

theorem bin_loop {o : Nat} (ho : o ∈ D.binOpsAll) (rest : Str) (hr : AfterOperator I t D rest)
    (res : List (Tok α)) (d : Int) (dp : Bool) :
    lexLoop I t lm (reprOf t o ++ rest) 0 ⟨res, [], d, dp⟩ = lexLoop I t lm rest 0 ⟨res ++ [.op o], [], d, dp⟩ := by
  obtain ⟨⟨c, cs, hc, hne⟩, hstep⟩ := hl.bin o ho rest ⟨res, [], d, dp⟩ hr
  rw [hc] at hstep ⊢
  exact lexLoop_step I t lm c cs rest _ _ hne hstep

theorem un_loop {u : Nat} (hu : u ∈ D.unOpsAll) (rest : Str)
    (res : List (Tok α)) (d : Int) (dp : Bool) :
    lexLoop I t lm (reprOf t u ++ '(' :: rest) 0 ⟨res, [], d, dp⟩ =
      lexLoop I t lm ('(' :: rest) 0 ⟨res ++ [.op u], [], d, dp⟩ := by
  obtain ⟨⟨c, cs, hc, hne⟩, hstep⟩ := hl.un u hu rest ⟨res, [], d, dp⟩
  rw [hc] at hstep ⊢
  exact lexLoop_step I t lm c cs _ _ _ hne hstep

theorem afterOperand_bin {i : Nat} {o : DBin} (h : tblBin t i = some o) (hi : i ∈ D.binOpsAll)
    (x : Str) : AfterOperand t (reprOf t i ++ x) := by
  obtain ⟨p, hp, hb⟩ := tblBin_entry t h
  have hr := reprOf_entry t hp
  refine Or.inr (Or.inr ⟨p, List.mem_of_getElem? hp, hb, ?_, ?_⟩)
  · rw [← hr]; exact bin_ne I t lm D hl hi
  · rw [hr]; exact List.isPrefixOf_iff_prefix.2 (List.prefix_append _ _)

theorem afterOperator_un {u : Nat} (h : tblHasUnary t u = true) (hu : u ∈ D.unOpsAll)
    (x : Str) : AfterOperator I t D (reprOf t u ++ '(' :: x) := by
  obtain ⟨p, hp, hb⟩ := tblHasUnary_entry t h
  have hr := reprOf_entry t hp
  refine Or.inr (Or.inr (Or.inr ⟨p, List.mem_of_getElem? hp, hb, ?_, ?_⟩))
  · rw [← hr]; exact un_ne I t lm D hl hu
  · rw [hr]
    have e : p.repr ++ '(' :: x = (p.repr ++ ['(']) ++ x := by simp
    rw [e]
    exact List.isPrefixOf_iff_prefix.2 (List.prefix_append _ _)

theorem afterOperator_lit {a : α} (ha : a ∈ litsOf D) (x : Str) : AfterOperator I t D (I.dbg a ++ x) :=
  Or.inr (Or.inr (Or.inl ⟨a, ha, lit_ne I t lm D hl ha,
    List.isPrefixOf_iff_prefix.2 (List.prefix_append _ _)⟩))

omit hl in
theorem wrapUn_varOcc (c : Chain α) : ∀ us : List Nat, (wrapUn us c).varOcc = c.varOcc
  | [] => by rw [wrapUn_nil, Atom.varOcc]
  | [u] => by rw [wrapUn_one, Atom.varOcc, Atom.varOcc]
  | u :: u' :: us => by
    rw [wrapUn_two, Atom.varOcc, Atom.varOcc, Chain.varOcc]
    exact wrapUn_varOcc c (u' :: us)

/-- the text `s`, in front of anything that can follow an operand, is lexed as `toks`
    (parenthesis depth, owed parentheses and the unmatched-`)` flag unchanged; parentheses are
    balanced inside `s`, so from a non-negative depth the depth never becomes negative) -/
def Loop (s : Str) (toks : List (Tok α)) : Prop :=
  ∀ rest res d dp, AfterOperand t rest → 0 ≤ d →
    lexLoop I t lm (s ++ rest) 0 ⟨res, [], d, dp⟩ = lexLoop I t lm rest 0 ⟨res ++ toks, [], d, dp⟩

omit hl in
theorem afterOperand_pclose (x : Str) : AfterOperand t (')' :: x) := Or.inr (Or.inl rfl)

/-- a non-empty unary chain around a body -/
theorem wrap_loop (body : Str) (c : Chain α) (hb : Loop I t lm body (c.toks I)) :
    ∀ (u : Nat) (us : List Nat), (∀ x ∈ u :: us, x ∈ D.unOpsAll) → ∀ (rest : Str) (res : List (Tok α)) (d : Int) (dp : Bool), 0 ≤ d →
      lexLoop I t lm (unPre t (u :: us) ++ body ++ List.replicate (u :: us).length ')' ++ rest) 0 ⟨res, [], d, dp⟩ =
        lexLoop I t lm rest 0 ⟨res ++ (wrapUn (u :: us) c).toks I, [], d, dp⟩
  | u, [], hu, rest, res, d, dp, hd => by
    have e : unPre t [u] ++ body ++ List.replicate [u].length ')' ++ rest =
        reprOf t u ++ '(' :: (body ++ ')' :: rest) := by
      simp [unPre]
    rw [e, un_loop I t lm D hl (hu u List.mem_cons_self), lexLoop_popen,
      hb _ _ _ _ (afterOperand_pclose t rest) (by omega), lexLoop_pclose _ _ _ _ _ _ _ (by omega),
      wrapUn_one]
    exact congrArg (lexLoop I t lm rest 0) (st_congr (by simp [Atom.toks]) (by omega))
  | u, u' :: us, hu, rest, res, d, dp, hd => by
    have ih := wrap_loop body c hb u' us (fun x hx => hu x (List.mem_cons_of_mem _ hx)) (')' :: rest)
      (res ++ [.op u] ++ [.popen]) (d + 1) dp (by omega)
    have e : unPre t (u :: u' :: us) ++ body ++ List.replicate (u :: u' :: us).length ')' ++ rest =
        reprOf t u ++ '(' :: (unPre t (u' :: us) ++ body ++ List.replicate (u' :: us).length ')' ++ ')' :: rest) := by
      rw [unPre_cons t u, List.length_cons, List.replicate_succ' (n := (u' :: us).length)]
      simp
    rw [e, un_loop I t lm D hl (hu u List.mem_cons_self), lexLoop_popen, ih,
      lexLoop_pclose _ _ _ _ _ _ _ (by omega), wrapUn_two]
    exact congrArg (lexLoop I t lm rest 0) (st_congr (by simp [Atom.toks, Chain.toks]) (by omega))

variable (top : List Str)

mutual
theorem node_lexes : ∀ nd : DeepNode α, C10.NamedNode top nd → fromTableList t [nd] →
    (∀ a ∈ litsOfList [nd], a ∈ litsOf D) → (∀ o ∈ binOpsNodes [nd], o ∈ D.binOpsAll) →
    (∀ u ∈ unOpsNodes [nd], u ∈ D.unOpsAll) → (∀ x ∈ (nodeAtom I nd).varOcc, '}' ∉ x) →
    Loop I t lm (nd.unparseNode I t) ((nodeAtom I nd).toks I) ∧
      ∀ rest, AfterOperator I t D (nd.unparseNode I t ++ rest)
  | .num a, _, _, hlit, _, _, _ => by
    have ha : a ∈ litsOf D := hlit a (by simp [litsOfList])
    rw [DeepNode.unparseNode, nodeAtom, Atom.toks]
    exact ⟨fun rest res d dp hr _ => lit_loop I t lm D hl ha rest hr res d dp,
      fun rest => afterOperator_lit I t lm D hl ha rest⟩
  | .var i name, _, _, _, _, _, hvar => by
    have hx : '}' ∉ name := hvar name (by rw [nodeAtom, Atom.varOcc]; exact List.mem_singleton.2 rfl)
    rw [DeepNode.unparseNode, nodeAtom, Atom.toks]
    refine ⟨?_, fun rest => Or.inr (Or.inl rfl)⟩
    intro rest res d dp _ _
    have h := brace_var I t lm name rest hx ⟨res, [], d, dp⟩
    have e : ['{'] ++ name ++ ['}'] ++ rest = '{' :: (name ++ ['}']) ++ rest := by simp
    rw [e]
    refine lexLoop_step I t lm '{' (name ++ ['}']) rest _ _ (by decide) ?_
    have e2 : '{' :: (name ++ ['}']) ++ rest = '{' :: name ++ '}' :: rest := by simp
    rw [e2, h]
    simp
  | .expr (.mk nodes ops un vars), hn, ht, hlit, hbin, hun, hvar => by
    rw [C10.NamedNode, C10.Named] at hn
    rw [fromTableList, FromTable] at ht
    obtain ⟨⟨hto, htu, htn⟩, -⟩ := ht
    have hlit' : ∀ a ∈ litsOfList nodes, a ∈ litsOf D :=
      fun a ha => hlit a (by simp [litsOfList, litsOf]; exact ha)
    have hbin' : ∀ o ∈ binOpsNodes nodes, o ∈ D.binOpsAll :=
      fun o ho => hbin o (by simp [binOpsNodes, DeepEx.binOpsAll]; exact Or.inl ho)
    have hbo : ∀ o ∈ ops, o.idx ∈ D.binOpsAll :=
      fun o ho => hbin o.idx (by simp [binOpsNodes, DeepEx.binOpsAll]; exact Or.inr ⟨o, ho, rfl⟩)
    have hun' : ∀ u ∈ unOpsNodes nodes, u ∈ D.unOpsAll :=
      fun u hu => hun u (by simp [unOpsNodes, DeepEx.unOpsAll]; exact Or.inl hu)
    have huo : ∀ u ∈ un, u ∈ D.unOpsAll :=
      fun u hu => hun u (by simp [unOpsNodes, DeepEx.unOpsAll]; exact Or.inr hu)
    rw [nodeAtom] at hvar ⊢
    rw [wrapUn_varOcc] at hvar
    obtain ⟨hloop, hao⟩ := body_lexes nodes hn.2.2 htn ops hn.1 hto hbo hlit' hbin' hun' hvar
    rw [DeepNode.unparseNode, DeepEx.unparse]
    cases un with
    | nil =>
      simp only [DeepEx.un, List.isEmpty_nil, if_true]
      refine ⟨?_, fun rest => Or.inl rfl⟩
      intro rest res d dp _ hd
      simp only [List.append_assoc, List.cons_append, List.nil_append]
      rw [lexLoop_popen, hloop _ _ _ _ (afterOperand_pclose t rest) (by omega),
        lexLoop_pclose _ _ _ _ _ _ _ (by omega), wrapUn_nil]
      exact congrArg (lexLoop I t lm rest 0) (st_congr (by simp [Atom.toks]) (by omega))
    | cons u us =>
      simp only [DeepEx.un, List.isEmpty_cons, Bool.false_eq_true, if_false]
      refine ⟨?_, ?_⟩
      · intro rest res d dp _ hd
        exact wrap_loop I t lm D hl _ _ hloop u us huo rest res d dp hd
      · intro rest
        have e : List.foldl (fun acc u => acc ++ reprOf t u ++ ['(']) [] (u :: us) = unPre t (u :: us) := rfl
        rw [e, unPre_cons]
        simp only [List.append_assoc, List.cons_append, List.nil_append]
        exact afterOperator_un I t lm D hl (htu u List.mem_cons_self) (huo u List.mem_cons_self) _
theorem body_lexes : ∀ ns : List (DeepNode α), C10.namedList top ns → fromTableList t ns →
    ∀ ops : List DBin, ns.length = ops.length + 1 → (∀ o ∈ ops, tblBin t o.idx = some o) →
    (∀ o ∈ ops, o.idx ∈ D.binOpsAll) →
    (∀ a ∈ litsOfList ns, a ∈ litsOf D) → (∀ o ∈ binOpsNodes ns, o ∈ D.binOpsAll) →
    (∀ u ∈ unOpsNodes ns, u ∈ D.unOpsAll) → (∀ x ∈ (bodyChain I ns ops).varOcc, '}' ∉ x) →
    Loop I t lm (joinWithOps t (unparseNodeList I t ns) ops) ((bodyChain I ns ops).toks I) ∧
      ∀ rest, AfterOperator I t D (joinWithOps t (unparseNodeList I t ns) ops ++ rest)
  | [], _, _, _, hlen, _, _, _, _, _, _ => by simp at hlen
  | [nd], hn, ht, ops, _, _, _, hlit, hbin, hun, hvar => by
    rw [C10.namedList] at hn
    rw [bodyChain, Chain.varOcc] at hvar
    rw [unparseNodeList, unparseNodeList, joinWithOps, bodyChain, Chain.toks]
    exact node_lexes nd hn.1 ht hlit hbin hun hvar
  | nd :: nd' :: ns, _, _, [], hlen, _, _, _, _, _, _ => by simp at hlen
  | nd :: nd' :: ns, hn, ht, o :: os, hlen, hto, hbo, hlit, hbin, hun, hvar => by
    rw [C10.namedList] at hn
    rw [fromTableList_cons] at ht
    rw [litsOfList_cons] at hlit
    rw [binOpsNodes_cons] at hbin
    rw [unOpsNodes_cons] at hun
    have hbc : bodyChain I (nd :: nd' :: ns) (o :: os) =
        .cons (nodeAtom I nd) o.idx (bodyChain I (nd' :: ns) os) := by
      rw [bodyChain]
      exact fun h => by cases h
    have hj : joinWithOps t (unparseNodeList I t (nd :: nd' :: ns)) (o :: os) =
        nd.unparseNode I t ++ reprOf t o.idx ++ joinWithOps t (unparseNodeList I t (nd' :: ns)) os := by
      rw [unparseNodeList, unparseNodeList, joinWithOps]
      exact fun h => by cases h
    rw [hbc, Chain.varOcc] at hvar
    obtain ⟨hl1, ha1⟩ := node_lexes nd hn.1 ht.1 (fun a ha => hlit a (List.mem_append_left _ ha))
      (fun a ha => hbin a (List.mem_append_left _ ha)) (fun a ha => hun a (List.mem_append_left _ ha))
      (fun a ha => hvar a (List.mem_append_left _ ha))
    obtain ⟨hl2, ha2⟩ := body_lexes (nd' :: ns) hn.2 ht.2 os (by simpa using hlen)
      (fun x hx => hto x (List.mem_cons_of_mem _ hx)) (fun x hx => hbo x (List.mem_cons_of_mem _ hx))
      (fun a ha => hlit a (List.mem_append_right _ ha))
      (fun a ha => hbin a (List.mem_append_right _ ha)) (fun a ha => hun a (List.mem_append_right _ ha))
      (fun a ha => hvar a (List.mem_append_right _ ha))
    rw [hbc, hj, Chain.toks]
    refine ⟨?_, ?_⟩
    · intro rest res d dp hr hd
      simp only [List.append_assoc]
      rw [hl1 _ _ _ _ (afterOperand_bin I t lm D hl (hto o List.mem_cons_self) (hbo o List.mem_cons_self) _) hd,
        bin_loop I t lm D hl (hbo o List.mem_cons_self) _ (ha2 rest), hl2 _ _ _ _ hr hd]
      exact congrArg (lexLoop I t lm rest 0) (st_congr (by simp) rfl)
    · intro rest
      simp only [List.append_assoc]
      exact ha1 _
end

end Induction

/-- **L8.** the tokenizer on the printed text returns the canonical tokens of the printed chain -/
theorem tokenize_unparse {α} (I : Interp α) (t : Table) (lm : Str → Option Nat) (d : DeepEx α)
    (hn : C10.Named d.vars d) (ht : FromTable t d) (hl : PrintLexOK I t lm d) :
    tokenize I t lm (d.unparse I t) = .ok ((topChain I d).toks I) := by
  have hvar : ∀ x ∈ (topChain I d).varOcc, '}' ∉ x :=
    fun x hx => hl.var x ((C01Assembly.mem_sortDedup x _).2 hx)
  obtain ⟨nodes, ops, un, vars⟩ := d
  rw [C10.Named] at hn
  rw [FromTable] at ht
  obtain ⟨hto, htu, htn⟩ := ht
  have hvar' : ∀ x ∈ (bodyChain I nodes ops).varOcc, '}' ∉ x := by
    cases un with
    | nil => rw [topChain] at hvar; exact hvar
    | cons u us => rw [topChain, Chain.varOcc, wrapUn_varOcc] at hvar; exact hvar
  obtain ⟨hloop, -⟩ := body_lexes I t lm (.mk nodes ops un vars) hl vars nodes hn.2.2 htn ops hn.1 hto
    (fun o ho => by simp [DeepEx.binOpsAll]; exact Or.inr ⟨o, ho, rfl⟩)
    (fun a ha => by rw [litsOf]; exact ha)
    (fun o ho => by simp [DeepEx.binOpsAll]; exact Or.inl ho)
    (fun u hu => by simp [DeepEx.unOpsAll]; exact Or.inl hu) hvar'
  have key : lexLoop I t lm ((DeepEx.mk nodes ops un vars).unparse I t) 0 ⟨[], [], 0, false⟩ =
      .ok ⟨(topChain I (.mk nodes ops un vars)).toks I, [], 0, false⟩ := by
    rw [DeepEx.unparse]
    cases un with
    | nil =>
      have h := hloop [] [] 0 false (Or.inl rfl) (by omega)
      simp only [List.append_nil, List.nil_append] at h
      simp only [List.isEmpty_nil, if_true]
      rw [h, topChain]; rfl
    | cons u us =>
      have h := wrap_loop I t lm _ hl _ _ hloop u us
        (fun x hx => by simp only [DeepEx.unOpsAll]; exact List.mem_append_right _ hx) [] [] 0 false (by omega)
      simp only [List.append_nil, List.nil_append] at h
      simp only [List.isEmpty_cons, Bool.false_eq_true, if_false]
      rw [topChain, Chain.toks]
      exact h
  unfold tokenize
  show (match lexLoop I t lm ((DeepEx.mk nodes ops un vars).unparse I t) 0 ⟨[], [], 0, false⟩ with
    | .ok st => Except.ok st.res
    | .error e => .error e) = _
  rw [key]

/-- **C12 (deep print → parse), without a hypothesis about the tokenizer's output.** -/
theorem unparse_parse_sound' {α} (I : Interp α) (t : Table) (lm : Str → Option Nat)
    (hA : C01.FlaggedAssoc I t) (d : DeepEx α)
    (hn : C10.Named d.vars d) (hp : d.PrioOK) (ht : FromTable t d) (hl : PrintLexOK I t lm d)
    (ρ : Str → α) :
    ∃ f v, Flat.parse I t lm (d.unparse I t) = .ok f ∧ (∀ x ∈ f.vars, x ∈ d.vars) ∧
      f.text = d.unparse I t ∧
      d.evalRelaxed I (d.vars.map ρ) = .ok v ∧ f.eval I (f.vars.map ρ) = .ok v :=
  unparse_parse_sound I t lm hA d hn hp ht (tokenize_unparse I t lm d hn ht hl) ρ

/-! ### non-vacuity: `{x}*-(-({y}+{x}))` over the table of `C01.Demo`, no literal matcher -/
namespace LexDemo
open Exmex.C01.Demo

/-- `{x}*-(-({y}+{x}))` -/
def ex : DeepEx Int :=
  .mk [.var 0 ['x'], .expr (.mk [.var 1 ['y'], .var 0 ['x']] [⟨0, 0, true⟩] [1, 1] [['x'], ['y']])]
    [⟨2, 1, true⟩] [] [['x'], ['y']]

def lm0 : Str → Option Nat := fun _ => none

theorem named : C10.Named ex.vars ex := by
  simp [ex, DeepEx.vars, C10.Named, C10.namedList, C10.NamedNode]

theorem fromTable : FromTable tbl ex := by
  simp [ex, FromTable, fromTableList, tblBin, tblHasUnary, tbl, OpSpec.hasUnary]

theorem sorted : sortedOps tbl = [(1, tbl[1]), (0, tbl[0]), (2, tbl[2])] := by decide

theorem find_star (rest : Str) : findOps tbl ('*' :: rest) = some (2, tbl[2]) := by
  unfold findOps
  rw [sorted]
  simp [tbl, OpSpec.hasBin]

theorem find_plus (rest : Str) : findOps tbl ('+' :: rest) = some (0, tbl[0]) := by
  unfold findOps
  rw [sorted]
  simp [tbl, OpSpec.hasBin]

theorem find_minus (rest : Str) : findOps tbl ('-' :: rest) = some (1, tbl[1]) := by
  unfold findOps
  rw [sorted]
  simp [tbl, OpSpec.hasBin]

theorem printLexOK : PrintLexOK interp tbl lm0 ex := by
  refine ⟨?_, ?_, ?_, ?_⟩
  · intro a ha; simp [ex, litsOf, litsOfList] at ha
  · intro o ho rest st _
    simp [ex, DeepEx.binOpsAll, binOpsNodes] at ho
    rcases ho with rfl | rfl
    · refine ⟨⟨'+', [], by simp [reprOf, tbl], by decide⟩, ?_⟩
      have := LexText.lexStep_op interp tbl lm0 '+' rest st (by decide) 0 tbl[0] rfl (find_plus rest)
      simpa [reprOf, tbl] using this
    · refine ⟨⟨'*', [], by simp [reprOf, tbl], by decide⟩, ?_⟩
      have := LexText.lexStep_op interp tbl lm0 '*' rest st (by decide) 2 tbl[2] rfl (find_star rest)
      simpa [reprOf, tbl] using this
  · intro u hu rest st
    simp [ex, DeepEx.unOpsAll, unOpsNodes] at hu
    subst hu
    refine ⟨⟨'-', [], by simp [reprOf, tbl], by decide⟩, ?_⟩
    have := LexText.lexStep_op interp tbl lm0 '-' ('(' :: rest) st (by decide) 1 tbl[1] rfl (find_minus _)
    simpa [reprOf, tbl] using this
  · intro x hx
    have := (C01Assembly.mem_sortDedup x _).1 hx
    simp [ex, topChain, bodyChain, nodeAtom, wrapUn, Chain.varOcc, Atom.varOcc] at this
    rcases this with rfl | rfl | rfl <;> decide

example : tokenize interp tbl lm0 (ex.unparse interp tbl) = .ok ((topChain interp ex).toks interp) :=
  tokenize_unparse interp tbl lm0 ex named fromTable printLexOK

end LexDemo

end Exmex.C12
