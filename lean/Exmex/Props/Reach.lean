/-
  The invariant of everything the API returns.

  The theorems about calculation (C10), substitution (C11), differentiation (C05, C09) and printing
  (C12) assume structural invariants of their operands ("what every API result satisfies").  This
  file closes the loop: `Inv` holds for every deep expression obtained from ANY accepted text and
  is preserved by every operation of the API, hence holds for every reachable expression
  (`reach_inv`), by induction over the history of operations.
-/
import Exmex.Props.C05
import Exmex.Props.C09
import Exmex.Props.C10Shortcuts
import Exmex.Props.C11
import Exmex.Props.C12
import Exmex.Proofs.ReachApi
import Exmex.Proofs.ReachSubs
import Exmex.Proofs.ReachParse
import Exmex.Proofs.ReachFlat
namespace Exmex.Reach

/-- what the table must satisfy: flagged operators are associative, priorities are 0..=99 -/
structure TblOK {α} (I : Interp α) (t : Table) : Prop where
  assoc : C01.FlaggedAssoc I t
  prio : Diff.TblPrio t

/-- the invariant -/
structure Inv {α} (I : Interp α) (t : Table) (d : DeepEx α) : Prop where
  namedOk : C10.Named d.vars d
  nodup : d.vars.Nodup
  sorted : sortBy strLe d.vars = d.vars
  assoc : d.Assoc I
  foldedOk : Shortcut.Folded d
  scopedOk : C05.Scoped t d.vars d
  fromTable : C12.FromTable t d
  prio : d.PrioOK

/-- expressions reachable through the API (deep form; the fuel of `partialDeepex` is arbitrary) -/
inductive Reachable {α} (I : Interp α) (C : CalcOps α) (t : Table) (lm : Str → Option Nat) :
    DeepEx α → Prop
  | parse (text : Str) (d : DeepEx α) : Deep.parse I t lm text = .ok d → Reachable I C t lm d
  | fromFlat (text : Str) (f : FlatEx α) (d : DeepEx α) :
      Flat.parse I t lm text = .ok f → f.toDeep I t = .ok d → Reachable I C t lm d
  | fromNum (x : α) (d : DeepEx α) : DeepEx.fromNum I x = .ok d → Reachable I C t lm d
  | operateBin (a b r : DeepEx α) (name : Str) : Reachable I C t lm a → Reachable I C t lm b →
      a.operateBin I t b name = .ok r → Reachable I C t lm r
  | operateUnary (a r : DeepEx α) (name : Str) : Reachable I C t lm a →
      a.operateUnary I t name = .ok r → Reachable I C t lm r
  | add (a b r : DeepEx α) : Reachable I C t lm a → Reachable I C t lm b → a.add I C t b = .ok r → Reachable I C t lm r
  | sub (a b r : DeepEx α) : Reachable I C t lm a → Reachable I C t lm b → a.sub I t b = .ok r → Reachable I C t lm r
  | mul (a b r : DeepEx α) : Reachable I C t lm a → Reachable I C t lm b → a.mul I C t b = .ok r → Reachable I C t lm r
  | div (a b r : DeepEx α) : Reachable I C t lm a → Reachable I C t lm b → a.div I C t b = .ok r → Reachable I C t lm r
  | pow (a b r : DeepEx α) : Reachable I C t lm a → Reachable I C t lm b → a.pow I C t b = .ok r → Reachable I C t lm r
  | neg (a r : DeepEx α) : Reachable I C t lm a → a.neg I t = .ok r → Reachable I C t lm r
  | subs (a r : DeepEx α) (σ : Str → Option (DeepEx α)) : Reachable I C t lm a →
      (∀ v e, σ v = some e → Reachable I C t lm e) → a.subs I σ = .ok r → Reachable I C t lm r
  | partialStep (a r : DeepEx α) (i fuel : Nat) : Reachable I C t lm a →
      partialDeepex I C t i fuel a = .ok r → Reachable I C t lm r
  | partialIter (a r : DeepEx α) (idxs : List Nat) : Reachable I C t lm a →
      a.partialIter I C t idxs = .ok r → Reachable I C t lm r
  | compile (a r : DeepEx α) : Reachable I C t lm a → a.compile I = .ok r → Reachable I C t lm r

open Exmex.ReachLemmas in
/-- the invariant used in the induction (`ReachLemmas.Good`: `Inv` plus "single-node groups list
    the variables of their node", needed for `compile`) implies `Inv` -/
theorem inv_of_good {α} (I : Interp α) (t : Table) (ht : TblOK I t) (d : DeepEx α)
    (h : Good t d) : Inv I t d where
  namedOk := h.named
  nodup := Diff.nodup_of_strict _ h.strict
  sorted := CalcLemmas.sortBy_strLe_of_strict _ h.strict
  assoc := so_assoc I t ht.assoc d.vars d h.oi.so
  foldedOk := h.oi.folded
  scopedOk := so_scoped t d.vars d h.oi.so
  fromTable := so_fromTable t d.vars d h.oi.so
  prio := so_prio t d.vars d h.oi.so

open Exmex.ReachLemmas in
theorem reach_good {α} (I : Interp α) (C : CalcOps α) (t : Table) (lm : Str → Option Nat)
    (ht : TblOK I t) (d : DeepEx α) (h : Reachable I C t lm d) : Good t d := by
  induction h with
  | parse text d h => exact good_parse I t ht.assoc ht.prio lm text d h
  | fromFlat text f d h hd => exact good_fromFlat I t ht.assoc ht.prio lm text f d h hd
  | fromNum x d h => exact good_fromNum I t x d h
  | operateBin a b r name _ _ h iha ihb => exact good_operateBin I t ht.assoc ht.prio a b r name iha ihb h
  | operateUnary a r name _ h iha => exact good_operateUnary I t ht.assoc ht.prio a r name iha h
  | add a b r _ _ h iha ihb => exact good_add I C t ht.assoc ht.prio a b r iha ihb h
  | sub a b r _ _ h iha ihb => exact good_sub I t ht.assoc ht.prio a b r iha ihb h
  | mul a b r _ _ h iha ihb => exact good_mul I C t ht.assoc ht.prio a b r iha ihb h
  | div a b r _ _ h iha ihb => exact good_div I C t ht.assoc ht.prio a b r iha ihb h
  | pow a b r _ _ h iha ihb => exact good_pow I C t ht.assoc ht.prio a b r iha ihb h
  | neg a r _ h iha => exact good_neg I t ht.assoc ht.prio a r iha h
  | subs a r σ _ _ h iha ihσ => exact good_subs I t ht.assoc a r σ iha ihσ h
  | partialStep a r i fuel _ h iha => exact (good_partial I C t ht.assoc ht.prio a r i fuel iha h).1
  | partialIter a r idxs _ h iha => exact good_partialIter I C t ht.assoc ht.prio a r idxs iha h
  | compile a r _ h iha => exact good_compile I t ht.assoc ht.prio a r iha h

/-- **Every reachable expression satisfies the invariant.** -/
theorem reach_inv {α} (I : Interp α) (C : CalcOps α) (t : Table) (lm : Str → Option Nat)
    (ht : TblOK I t) (d : DeepEx α) (h : Reachable I C t lm d) : Inv I t d :=
  inv_of_good I t ht d (reach_good I C t lm ht d h)

end Exmex.Reach
