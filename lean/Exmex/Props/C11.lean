/-
  C11 — substitution: `subs` replaces variables simultaneously; the result lists the sorted union of
  the untouched variables and the replacements' variables, and its value at any assignment is the
  value of the original with each replaced variable bound to the value of its replacement.

  The characterisation of the result's variable list needs `Listed`: nested groups only list
  variables of the outer list. `C10.Named` alone bounds the *length* of nested lists only, and a
  nested `subs` call consults the nested group's own list for the "listed but not occurring" rule,
  so a stray name listed by a nested group surfaces in the result (`subs_vars_cex` below). Parsed
  expressions and the results of `reset_vars` / `operate_bin` / `subs` satisfy `Listed`
  (`subs_listed`). Without `Listed` everything else still holds (`subs_sound_gen`).
-/
import Exmex.Props.C10
import Exmex.Proofs.WrapOK
import Exmex.Proofs.SubsLemmas
namespace Exmex.C11
open Exmex.CalcLemmas

/-- the names the result must list: every listed variable contributes itself when it is not
    replaced and the variables of its replacement otherwise -/
def subsNames {α} (σ : Str → Option (DeepEx α)) (vars : List Str) : List Str :=
  vars.flatMap (fun v => match σ v with | none => [v] | some r => r.vars)

/-- the environment under which the original is evaluated: replaced variables are bound to the
    value of their replacement -/
def subsEnv {α} (I : Interp α) (σ : Str → Option (DeepEx α)) (ρ : Str → α) (v : Str) : α :=
  match σ v with
  | none => ρ v
  | some r => match r.evalRelaxed I (r.vars.map ρ) with | .ok x => x | .error _ => I.dflt

/-- every group of `d`, at any nesting depth, only lists variables of `top` -/
def Listed {α} (top : List Str) (d : DeepEx α) : Prop :=
  GenEx (fun vs => ∀ x ∈ vs, x ∈ top) (fun _ _ => True) d

theorem subsNames_eq {α} (σ : Str → Option (DeepEx α)) (vars : List Str) :
    subsNames σ vars = vars.flatMap (Subs.sub1 σ) := rfl

theorem subsEnv_eq {α} (I : Interp α) (σ : Str → Option (DeepEx α)) (ρ : Str → α) :
    subsEnv I σ ρ = Subs.senv I σ ρ := rfl

/-- **C11 without `Listed`.** Everything but the upper bound on the variable list: the result lists
    exactly the contributions of all names the original *mentions* (`Subs.exNames`: its own list,
    its variable nodes, the lists and variable nodes of nested groups), hence at least
    `subsNames σ d.vars`. -/
theorem subs_sound_gen {α} (I : Interp α) (d : DeepEx α) (σ : Str → Option (DeepEx α))
    (hn : C10.Named d.vars d) (hA : d.Assoc I)
    (hσ : ∀ v r, σ v = some r → C10.Named r.vars r ∧ r.vars.Nodup ∧ r.Assoc I)
    (ρ : Str → α) :
    ∃ d' v, d.subs I σ = .ok d' ∧
      (∀ n, n ∈ d'.vars ↔ ∃ x ∈ Subs.exNames d, n ∈ subsNames σ [x]) ∧
      (∀ n, n ∈ subsNames σ d.vars → n ∈ d'.vars) ∧
      d'.vars = sortBy strLe d'.vars ∧ d'.vars.Nodup ∧
      C10.Named d'.vars d' ∧ Listed d'.vars d' ∧ d'.Assoc I ∧
      d.evalRelaxed I (d.vars.map (subsEnv I σ ρ)) = .ok v ∧
      d'.evalRelaxed I (d'.vars.map ρ) = .ok v := by
  obtain ⟨d', v, h1, h2, h3, h4, h5, h6, h7⟩ := Subs.subs_main I d σ hn hA
    (fun v r h => ⟨(hσ v r h).1, (hσ v r h).2.2⟩) ρ
  have hone : ∀ n x, n ∈ subsNames σ [x] ↔ n ∈ Subs.sub1 σ x := by
    intro n x
    rw [subsNames_eq]
    simp
  refine ⟨d', v, h1, ?_, ?_, (sortBy_strLe_of_strict _ h4).symm, Subs.strict_nodup _ h4,
    C10.named_of_full _ d' h2, ?_, h3, h6, h7⟩
  · intro n
    rw [h5]
    constructor
    · rintro ⟨x, hx1, hx2⟩; exact ⟨x, hx1, (hone n x).2 hx2⟩
    · rintro ⟨x, hx1, hx2⟩; exact ⟨x, hx1, (hone n x).1 hx2⟩
  · intro n hn'
    rw [subsNames_eq, List.mem_flatMap] at hn'
    obtain ⟨x, hx1, hx2⟩ := hn'
    exact (h5 n).2 ⟨x, Subs.vars_sub_exNames d x hx1, hx2⟩
  · exact genEx_mono (fun vs (hv : vs = d'.vars) x hx => by rw [← hv]; exact hx)
      (fun _ _ _ => trivial) d' h2

/-- **C11.** -/
theorem subs_sound {α} (I : Interp α) (d : DeepEx α) (σ : Str → Option (DeepEx α))
    (hn : C10.Named d.vars d) (hl : Listed d.vars d) (hnd : d.vars.Nodup) (hA : d.Assoc I)
    (hσ : ∀ v r, σ v = some r → C10.Named r.vars r ∧ r.vars.Nodup ∧ r.Assoc I)
    (ρ : Str → α) :
    ∃ d' v, d.subs I σ = .ok d' ∧
      (∀ n, n ∈ d'.vars ↔ n ∈ subsNames σ d.vars) ∧ d'.vars = sortBy strLe d'.vars ∧ d'.vars.Nodup ∧
      C10.Named d'.vars d' ∧ d'.Assoc I ∧
      d.evalRelaxed I (d.vars.map (subsEnv I σ ρ)) = .ok v ∧
      d'.evalRelaxed I (d'.vars.map ρ) = .ok v := by
  have _ := hnd
  obtain ⟨d', v, h1, h2, h3, h4, h5, h6, -, h8, h9, h10⟩ := subs_sound_gen I d σ hn hA hσ ρ
  refine ⟨d', v, h1, ?_, h4, h5, h6, h8, h9, h10⟩
  intro n
  refine ⟨?_, h3 n⟩
  intro hn'
  obtain ⟨x, hx1, hx2⟩ := (h2 n).1 hn'
  have hx : x ∈ d.vars := Subs.exNames_sub d.vars d ((C10.named_iff_gen _ d).1 hn) hl x hx1
  rw [subsNames_eq, List.mem_flatMap]
  rw [subsNames_eq] at hx2
  exact ⟨x, hx, by simpa using hx2⟩

/-- the result of `subs` is `Listed` again -/
theorem subs_listed {α} (I : Interp α) (d : DeepEx α) (σ : Str → Option (DeepEx α))
    (hn : C10.Named d.vars d) (hA : d.Assoc I)
    (hσ : ∀ v r, σ v = some r → C10.Named r.vars r ∧ r.vars.Nodup ∧ r.Assoc I) :
    ∃ d', d.subs I σ = .ok d' ∧ Listed d'.vars d' := by
  obtain ⟨d', -, h1, -, -, -, -, -, h2, -⟩ := subs_sound_gen I d σ hn hA hσ (fun _ => I.dflt)
  exact ⟨d', h1, h2⟩

/-- nothing replaced: same variables, same function -/
theorem subs_none {α} (I : Interp α) (d : DeepEx α)
    (hn : C10.Named d.vars d) (hl : Listed d.vars d) (hnd : d.vars.Nodup)
    (hs : d.vars = sortBy strLe d.vars) (hA : d.Assoc I)
    (ρ : Str → α) :
    ∃ d' v, d.subs I (fun _ => none) = .ok d' ∧ d'.vars = d.vars ∧
      d.evalRelaxed I (d.vars.map ρ) = .ok v ∧ d'.evalRelaxed I (d'.vars.map ρ) = .ok v := by
  obtain ⟨d', v, h1, h2, h3, h4, -, -, h7, h8⟩ :=
    subs_sound I d (fun _ => none) hn hl hnd hA (fun v r h => by cases h) ρ
  have henv : subsEnv I (fun _ => none) ρ = ρ := rfl
  rw [henv] at h7
  refine ⟨d', v, h1, ?_, h7, h8⟩
  have hs1 : d.vars.Pairwise (fun x y => strLt x y = true) := by
    rw [hs]; exact sortBy_strLe_strict _ hnd
  have hs2 : d'.vars.Pairwise (fun x y => strLt x y = true) := by
    rw [h3]; exact sortBy_strLe_strict _ h4
  apply Subs.strict_ext _ _ hs2 hs1
  intro n
  rw [h2, subsNames]
  simp

/-! ### why `Listed` is needed -/

/-- interpretation used by the counterexample (irrelevant: no operator is applied) -/
def cexI : Interp Nat :=
  { bin := fun _ a b => a + b, un := fun _ a => a, const := fun _ => 0, ofLit := fun _ => none, dflt := 0 }

/-- the group `(1)` listing a stray variable `z`, nested in a group listing `a` -/
def cexD : DeepEx Nat := .mk [.expr (.mk [.num 1] [] [] [['z']])] [] [] [['a']]

/-- **Counterexample to C11 without `Listed`.** `cexD` satisfies every hypothesis of `subs_none`
    (and of `subs_sound` with the empty substitution) except `Listed`, but substituting nothing
    yields an expression listing `a` and `z`: the nested `subs` call adds the name `z`, listed by the
    nested group and occurring nowhere, to the result. -/
theorem subs_vars_cex :
    C10.Named cexD.vars cexD ∧ cexD.vars.Nodup ∧ cexD.vars = sortBy strLe cexD.vars ∧
      cexD.Assoc cexI ∧ cexD.vars = [['a']] ∧
      subsNames (fun _ => (none : Option (DeepEx Nat))) cexD.vars = [['a']] ∧
      cexD.subs cexI (fun _ => none) = .ok (.mk [.num 1] [] [] [['a'], ['z']]) ∧
      ¬ Listed cexD.vars cexD := by
  refine ⟨?_, by decide, by decide, ?_, rfl, rfl, by rfl, ?_⟩
  · simp [cexD, C10.Named, C10.namedList, C10.NamedNode, DeepEx.vars]
  · simp [cexD, DeepEx.Assoc, assocList, DeepAssoc]
  · simp [cexD, Listed, GenEx, genList, GenNode, DeepEx.vars]

end Exmex.C11
