/-
  C02/C03 (parser level, deep form) — the recursive-descent parser of `DeepEx` on the token
  stream of any well-formed chain yields an expression with the documented variables whose
  value at every assignment is the reference denotation; hence the flat and the deep parse of
  the same text agree everywhere.
-/
import Exmex.Props.C01Parse
import Exmex.Props.C02Deep
import Exmex.Proofs.DeepParseWalk
namespace Exmex.C03

/-- **C02/C03 (deep parser).** -/
theorem deep_parse_eval_eq_denote {α} (I : Interp α) (t : Table) (lm : Str → Option Nat)
    (hA : C01.FlaggedAssoc I t) (c : Chain α) (hc : c.WF t) (hr : c.Roles t) (text : Str)
    (hlex : tokenize I t lm text = .ok (c.toks I))
    (vals : List α) (hlen : vals.length = c.vars.length) :
    ∃ d v, Deep.parse I t lm text = .ok d ∧ d.vars = c.vars ∧
      c.denote I t (envOf c.vars vals I.dflt) = some v ∧ d.eval I vals = .ok v := by
  have hv : DeepParseWalk.VarsOK c.vars vals (envOf c.vars vals I.dflt) c.varOcc := fun x hx =>
    ⟨(C01Assembly.mem_sortDedup x c.varOcc).2 hx, C01Assembly.chain_env c vals I.dflt hlen x hx⟩
  have hfuel : DeepParseWalk.needChain c + 1 ≤ 2 * (c.toks I).length + 4 := by
    have := DeepParseWalk.needChain_le I c
    omega
  obtain ⟨d, hmake, hsh, has, ⟨v, hden, hev⟩, hvars⟩ :=
    DeepParseWalk.make_of_loop hA (Nat.le_of_eq hlen.symm)
      (DeepParseWalk.chain_all hA (Nat.le_of_eq hlen.symm) c)
      (c.toks I) [] [] (2 * (c.toks I).length + 4) 0 hc hr hv (by simp) (.inl ⟨rfl, rfl⟩) hfuel
  have hdv : d.vars = c.vars := hvars
  refine ⟨d, v, ?_, hdv, ?_, ?_⟩
  · unfold Deep.parse
    rw [hlex]
    simp only [C01.checkPre_toks I t c hc hr, C01.findVars_toks, hmake]
  · rw [← denoteS_eq_denote]; exact hden
  · unfold DeepEx.eval
    rw [hdv, if_neg (by simp [hlen]), hev]
    rfl

/-- **C03.** the flat and the deep parse of one text agree on variables and on every value -/
theorem flat_deep_parse_agree {α} (I : Interp α) (t : Table) (lm : Str → Option Nat)
    (hA : C01.FlaggedAssoc I t) (c : Chain α) (hc : c.WF t) (hr : c.Roles t) (text : Str)
    (hlex : tokenize I t lm text = .ok (c.toks I))
    (vals : List α) (hlen : vals.length = c.vars.length) :
    ∃ f d v, Flat.parse I t lm text = .ok f ∧ Deep.parse I t lm text = .ok d ∧
      f.vars = d.vars ∧ f.eval I vals = .ok v ∧ d.eval I vals = .ok v := by
  obtain ⟨f, -, v, hf, -, hfv, hv, hfe, -⟩ :=
    C01.parse_eval_eq_denote I t lm hA c hc hr text hlex vals hlen
  obtain ⟨d, v', hd, hdv, hv', hde⟩ :=
    deep_parse_eval_eq_denote I t lm hA c hc hr text hlex vals hlen
  rw [hv] at hv'
  cases hv'
  exact ⟨f, d, v, hf, hd, hfv.trans hdv.symm, hfe, hde⟩

end Exmex.C03
