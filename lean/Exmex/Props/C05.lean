/-
  C05 — the expression returned by partial differentiation evaluates to the derivative
  component of the dual-number evaluation of the original expression (Spec/Dual.lean), at every
  assignment at which the dual evaluation stays inside the domain of the textbook rules, over any
  commutative arithmetic satisfying the laws the neutral-element shortcuts rely on.

  The vocabulary (`Laws`, `Ruled`, `Scoped`) lives in Proofs/DiffDefs.lean (namespace `Exmex.C05`);
  the proof is in Proofs/DiffBase.lean (arithmetic on represented operands), DiffRules.lean (the
  rules), DiffLift.lean (value component of the dual evaluation), DiffPairs.lean (`reducePairs`
  simulates `reduceByOrder`), DiffEngine.lean (the induction on the fuel).
-/
import Exmex.Spec.Dual
import Exmex.Props.C10Shortcuts
import Exmex.Proofs.WrapOK
import Exmex.Proofs.DiffDefs
import Exmex.Proofs.DiffEngine
import Exmex.Proofs.DiffNoRule
namespace Exmex.C05

variable {K : Type} [DecidableEq K] (I : Interp K) (C : CalcOps K) (t : Table)

/-- **C05 (deep form, one differentiation).**

    `hsc` (added to the original statement, see `Scoped`): every nested group lists duplicate-free
    variables among `d.vars`, and the unary chains consist of unary operators of the table.
    Without the first part the result may list more variables than `d` (a nested group listing a
    name that is not a variable of `d`); without the second the reference semantics `dArith.fn`
    does not know the operator and the statement about the value is false.

    `hbop` (`BopAssoc`, added with the rules for the comparisons, `if` and `else`): the analogue of
    `A.assoc` for these operators — the operator the table lists under such a name, if any, is
    associative when it is flagged commutative.  It holds trivially for a table that does not flag
    them (`bopAssoc_of_unflagged`).  That the table lists the operators of `d` with a binary role
    is not assumed: it follows from the success `hp` (`Diff.partialDeepex_binT`). -/
theorem partial_sound (A : C10.Arith I C t) (L : Laws (dArith I C t))
    (hnames : (t.map (·.repr)).Nodup)
    (hfn : ∀ n ∈ ["-", "ln", "sqrt", "sin", "cos", "sinh", "cosh", "tanh"],
      ∃ u, findUnaryOp t (String.toList n) = .ok u)
    (hbop : BopAssoc I t)
    (d : DeepEx K) (hn : C10.Named d.vars d) (hnd : d.vars.Nodup)
    (hsorted : sortBy strLe d.vars = d.vars) (hA : d.Assoc I) (hf : Shortcut.Folded d)
    (hr : Ruled t d) (hsc : Scoped t d.vars d)
    (i : Nat) (x : Str) (hi : d.vars[i]? = some x) (ρ : Str → K)
    (fuel : Nat) (d' : DeepEx K) (hp : partialDeepex I C t i fuel d = .ok d')
    (w : DVal K) (hw : d.dualEval I C t ρ x = .ok w) (hreg : w.ok = true) :
    d'.vars = d.vars ∧ C10.Named d'.vars d' ∧ d'.Assoc I ∧ Shortcut.Folded d' ∧
      d.evalRelaxed I (d.vars.map ρ) = .ok w.val ∧
      d'.evalRelaxed I (d'.vars.map ρ) = .ok w.der := by
  have H : Diff.Hyp I t d.vars d := ⟨hn, hsc, hr, hA, hf⟩
  obtain ⟨⟨r1, r2, r3, r4, r5, r6⟩, hsub⟩ :=
    (Diff.engine I C t A L hnames hfn d.vars ρ x i hbop hnd hi fuel).1 d d' H hp w hw hreg
  have hstrict : d.vars.Pairwise (fun a b => strLt a b = true) := by
    have := sortBy_strLe_strict d.vars hnd
    rwa [hsorted] at this
  have hv : d'.vars = d.vars :=
    ParseAssembly.strict_ext _ _ r2 hstrict (fun y => ⟨r3 y, hsub y⟩)
  exact ⟨hv, r1, r4, r5, Diff.lift_val I C t A hnames d.vars ρ x d hn hsc
    (Diff.partialDeepex_binT I C t d.vars i d d' fuel hn hp) w hw, r6⟩

omit [DecidableEq K] in
/-- **C05, operators without a rule.** If a binary operator of the top group (a group with at
    least two nodes) has a name outside `binRuleNames`, or a unary operator of the top group's
    chain has a name outside `unRuleNames`, `partial_deepex` fails, whatever the fuel (the failure
    is the error "norule" unless an earlier step already failed). No hypothesis on `d`. -/
theorem partial_norule (d : DeepEx K) (i fuel : Nat)
    (h : (2 ≤ d.nodes.length ∧ ∃ o ∈ d.ops, String.ofList (reprOf t o.idx) ∉ binRuleNames) ∨
      (∃ u ∈ d.un, String.ofList (reprOf t u) ∉ unRuleNames)) :
    ∃ err, partialDeepex I C t i fuel d = .error err :=
  Diff.partialDeepex_norule I C t d i fuel h

end Exmex.C05

/-! ### the hypotheses of `partial_sound` are satisfiable -/

namespace Exmex.C05.Demo
open Exmex Exmex.C10

def tbl : Table := [
  { repr := "+".toList, bin := some { prio := 1, comm := false } },
  { repr := "-".toList, bin := some { prio := 1, comm := false }, unary := true },
  { repr := "*".toList, bin := some { prio := 2, comm := false } },
  { repr := "/".toList, bin := some { prio := 2, comm := false } },
  { repr := "^".toList, bin := some { prio := 3, comm := false } },
  { repr := "ln".toList, unary := true },
  { repr := "sqrt".toList, unary := true },
  { repr := "sin".toList, unary := true },
  { repr := "cos".toList, unary := true },
  { repr := "sinh".toList, unary := true },
  { repr := "cosh".toList, unary := true },
  { repr := "tanh".toList, unary := true }]

/-- natural numbers with truncated subtraction and division; the unary operators are arbitrary -/
def NI : Interp Nat where
  bin := fun i x y => match i with
    | 0 => x + y | 1 => x - y | 2 => x * y | 3 => x / y | _ => x ^ y
  un := fun _ x => x
  const := fun _ => 0
  ofLit := fun _ => none
  dflt := 0

def NC : CalcOps Nat := { zero := 0, one := 1, two := 2, ten := 10, eqv := fun a b => a == b }

def AA : Arith NI NC tbl where
  add := ⟨0, 1, false⟩
  sub := ⟨1, 1, false⟩
  mul := ⟨2, 2, false⟩
  div := ⟨3, 2, false⟩
  pow := ⟨4, 3, false⟩
  hadd := by rfl
  hsub := by rfl
  hmul := by rfl
  hdiv := by rfl
  hpow := by rfl
  eqv_sound := by intro a b h; simpa [NC] using h
  assoc := by
    intro o ho hc
    simp at ho
    rcases ho with h | h | h | h | h <;> (subst h; cases hc)

theorem e_add (a b : Nat) : (dArith NI NC tbl).add a b = a + b := rfl
theorem e_mul (a b : Nat) : (dArith NI NC tbl).mul a b = a * b := rfl
theorem e_div (a b : Nat) : (dArith NI NC tbl).div a b = a / b := rfl
theorem e_pow (a b : Nat) : (dArith NI NC tbl).pow a b = a ^ b := rfl

theorem LL : Laws (dArith NI NC tbl) where
  zero_add := fun x => by rw [e_add]; exact Nat.zero_add x
  add_zero := fun x => by rw [e_add]; exact Nat.add_zero x
  zero_mul := fun x => by rw [e_mul]; exact Nat.zero_mul x
  mul_zero := fun x => by rw [e_mul]; exact Nat.mul_zero x
  one_mul := fun x => by rw [e_mul]; exact Nat.one_mul x
  mul_one := fun x => by rw [e_mul]; exact Nat.mul_one x
  mul_comm := fun x y => by rw [e_mul, e_mul]; exact Nat.mul_comm x y
  mul_assoc := fun x y z => by simp only [e_mul]; exact Nat.mul_assoc x y z
  div_one := fun x => by rw [e_div]; exact Nat.div_one x
  zero_div := fun x _ => by rw [e_div]; exact Nat.zero_div x
  pow_one := fun x => by rw [e_pow]; exact Nat.pow_one x
  pow_zero := fun x => by rw [e_pow]; exact Nat.pow_zero x
  zero_pow := fun e he => by
    rw [e_pow]
    exact Nat.zero_pow (Nat.pos_of_ne_zero he)
  zero_ne_one := by decide
  two_ne_zero := by decide
  mul_ne_zero := fun x y hx hy => by
    rw [e_mul]
    exact Nat.mul_ne_zero hx hy

def xs : Str := "x".toList
/-- `x * x` -/
def dxx : DeepEx Nat := .mk [.var 0 xs, .var 0 xs] [⟨2, 2, false⟩] [] [xs]

theorem hnames : (tbl.map (·.repr)).Nodup := by decide
theorem hfn : ∀ n ∈ ["-", "ln", "sqrt", "sin", "cos", "sinh", "cosh", "tanh"],
    ∃ u, findUnaryOp tbl (String.toList n) = .ok u := by
  intro n hn
  simp only [List.mem_cons, List.not_mem_nil, or_false] at hn
  rcases hn with rfl | rfl | rfl | rfl | rfl | rfl | rfl | rfl <;> exact ⟨_, rfl⟩

/-- the table has no comparison, `if` or `else` -/
theorem hbop : BopAssoc NI tbl := by
  intro n hn o ho
  simp only [List.mem_cons, List.not_mem_nil, or_false] at hn
  rcases hn with rfl | rfl | rfl | rfl | rfl | rfl | rfl | rfl <;> cases ho

theorem h_named : Named dxx.vars dxx := by
  simp [dxx, DeepEx.vars, Named, namedList, NamedNode]
theorem h_assoc : dxx.Assoc NI := by
  simp [dxx, DeepEx.Assoc, assocList, DeepAssoc]
theorem h_folded : Shortcut.Folded dxx := by
  simp [dxx, Shortcut.Folded, Shortcut.foldedList, Shortcut.FoldedNode]
theorem h_ruled : Ruled tbl dxx := by
  simp only [dxx, Ruled, ruledList]
  refine ⟨?_, by simp, trivial⟩
  intro o ho
  simp only [List.mem_singleton] at ho
  subst ho
  decide
theorem h_scoped : Scoped tbl dxx.vars dxx := by
  simp [dxx, DeepEx.vars, Scoped, scopedList]

theorem hok : (partialDeepex NI NC tbl 0 8 dxx).isOk = true := by decide +kernel

theorem hw (ρ : Str → Nat) :
    dxx.dualEval NI NC tbl ρ xs = .ok ⟨ρ xs * ρ xs, 1 * ρ xs + ρ xs * 1, true⟩ := by
  have hn : evalNodeList (dualInterp NI NC tbl) (dxx.vars.map (seed NC ρ xs))
      (liftList NC [.var 0 xs, .var 0 xs]) = .ok [seed NC ρ xs xs, seed NC ρ xs xs] := rfl
  obtain ⟨v, h1, h2⟩ := Diff.eval_group (dualInterp NI NC tbl) (dxx.vars.map (seed NC ρ xs))
    (liftList NC [.var 0 xs, .var 0 xs]) [⟨2, 2, false⟩] [] [xs] _ (by simp [dxx, DeepEx.vars]) hn rfl
  have hπ : prioIdxDeep [(⟨2, 2, false⟩ : DBin)] (liftList NC [DeepNode.var 0 xs, DeepNode.var 0 xs]) = [0] := by
    decide
  rw [hπ] at h1
  have hv : v = ⟨ρ xs * ρ xs, 1 * ρ xs + ρ xs * 1, true⟩ := by
    have : reduceByOrder (Diff.gApply (dualInterp NI NC tbl) [⟨2, 2, false⟩])
        [seed NC ρ xs xs, seed NC ρ xs xs] [0] =
        some ⟨ρ xs * ρ xs, 1 * ρ xs + ρ xs * 1, true⟩ := rfl
    rw [this] at h1
    exact (Option.some.inj h1).symm
  subst hv
  exact h2

/-- the hypotheses of `partial_sound` are satisfiable: `d/dx (x * x)` over the natural numbers -/
theorem demo (ρ : Str → Nat) :
    ∃ d', partialDeepex NI NC tbl 0 8 dxx = .ok d' ∧ d'.vars = dxx.vars ∧
      d'.evalRelaxed NI (d'.vars.map ρ) = .ok (1 * ρ xs + ρ xs * 1) := by
  cases hp : partialDeepex NI NC tbl 0 8 dxx with
  | error e =>
    have := hok
    rw [hp] at this
    cases this
  | ok d' =>
    have := partial_sound NI NC tbl AA LL hnames hfn hbop dxx h_named (by simp [dxx, DeepEx.vars])
      (by rfl) h_assoc h_folded h_ruled h_scoped 0 xs rfl ρ 8 d' hp _ (hw ρ) rfl
    exact ⟨d', rfl, this.1, this.2.2.2.2.2⟩
end Exmex.C05.Demo
