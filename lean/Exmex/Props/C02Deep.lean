/-
  C02 — Constant folding never changes what an expression computes (deep form).

  `DeepEx::compile` (`lift_nodes`, folding of literal pairs of one group in priority order, unary
  chain applied to a fully folded group) preserves the value for every variable assignment.
-/
import Exmex.Model.Deep
import Exmex.Proofs.DeepGroup
import Exmex.Proofs.DeepDefs
import Exmex.Proofs.CompileLoop
import Exmex.Proofs.DeepCompile
namespace Exmex.C02

/-- `lift_nodes` is invisible -/
theorem liftNodes_sound {α} (I : Interp α) (e : DeepEx α) (vals : List α)
    (hs : e.Shape vals.length) (hA : e.Assoc I) :
    e.liftNodes.Shape vals.length ∧ e.liftNodes.Assoc I ∧
      e.liftNodes.evalRelaxed I vals = e.evalRelaxed I vals :=
  (DeepCompile.lift_sound I vals).1 e hs hA

/-- **C02 (deep).** One `compile` is sound and preserves the invariants. -/
theorem deep_compile_sound {α} (I : Interp α) (e : DeepEx α) (vals : List α)
    (hs : e.Shape vals.length) (hA : e.Assoc I) :
    ∃ e', e.compile I = .ok e' ∧ e'.Shape vals.length ∧ e'.Assoc I ∧
      e'.evalRelaxed I vals = e.evalRelaxed I vals := by
  obtain ⟨h1, h2, h3⟩ := liftNodes_sound I e vals hs hA
  rw [DeepCompile.compile_eq]
  generalize e.liftNodes = e1 at h1 h2 h3 ⊢
  obtain ⟨nodes, ops, un, vars⟩ := e1
  obtain ⟨e', g1, g2, g3, g4⟩ := DeepCompile.foldGroup_sound I nodes ops un vars vals h1 h2
  exact ⟨e', g1, g2, g3, g4.trans h3⟩

/-- `DeepEx::new` (used by the parser, the conversions and all calculations) -/
theorem deep_new_sound {α} (I : Interp α) (nodes : List (DeepNode α)) (ops : List DBin) (un : List Nat)
    (vals : List α) (hlen : nodes.length = ops.length + 1)
    (hs : shapeList vals.length nodes) (hv : (foundVars nodes).length ≤ vals.length)
    (hA : DeepAssoc I ops ∧ assocList I nodes) :
    ∃ e', DeepEx.new I nodes ops un = .ok e' ∧ e'.Shape vals.length ∧ e'.Assoc I ∧
      e'.evalRelaxed I vals = (DeepEx.mk nodes ops un (foundVars nodes)).evalRelaxed I vals := by
  have hsh : (DeepEx.mk nodes ops un (foundVars nodes)).Shape vals.length := by
    rw [DeepEx.Shape]; exact ⟨hlen, hv, hs⟩
  have has : (DeepEx.mk nodes ops un (foundVars nodes)).Assoc I := by
    rw [DeepEx.Assoc]; exact hA
  have hnew : DeepEx.new I nodes ops un = (DeepEx.mk nodes ops un (foundVars nodes)).compile I := by
    unfold DeepEx.new
    rw [if_neg (by rw [hlen]; simp), if_neg (by simp [hlen])]
  rw [hnew]
  exact deep_compile_sound I _ vals hsh has

end Exmex.C02
