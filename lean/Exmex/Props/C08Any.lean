/-
  C08, for ARBITRARY argument texts: writing a binary operator in call form `op(A, B)` produces
  exactly the tokens of `((A') op (B'))`, whatever the raw token sequences A and B are, as long as
  each of them is "closed": processed on its own (inside one more pair of parentheses) it leaves the
  tokenizer state as it found it, apart from the tokens A' / B' it appended.  (For arguments that
  are well-formed expressions this is `C08.call_tokens`.)
-/
import Exmex.Props.C08
namespace Exmex.C08

/-- the raw sequence `xs`, fed at one paren level deeper than `st`, appends the tokens `out` and
    restores the bookkeeping (owed stack, depth, flag), from every start state of that shape -/
def Closed {α} (xs : List (Raw α)) (out : List (Tok α)) : Prop :=
  ∀ (res : List (Tok α)) (owed : List Int) (depth : Int),
    (∀ d ∈ owed, d < depth) → 0 ≤ depth →
    feedAll xs ⟨res, owed, depth, false⟩ = .ok ⟨res ++ out, owed, depth, false⟩

/-- no top-level structure of the argument can be mistaken for the call: every proper suffix of the
    argument's OUTPUT tokens has a non-positive paren balance (true for balanced output) and the
    output contains no operator that `find_op_of_comma` could pick — captured by `Skip` -/
theorem call_any {α} (o : Nat) (A B : List (Raw α)) (A' B' : List (Tok α))
    (hA : Closed A A') (hB : Closed B B') (hsA : CallTokens.Skip A')
    (res : List (Tok α)) (owed : List Int) (depth : Int)
    (hst : ∀ d ∈ owed, d < depth) (hd : 0 ≤ depth) :
    feedAll ([.tok (.op o), .popen] ++ A ++ [.comma] ++ B ++ [.pclose]) ⟨res, owed, depth, false⟩
      = .ok ⟨res ++ [.popen, .popen] ++ A' ++ [.pclose, .op o, .popen] ++ B' ++ [.pclose, .pclose],
             owed, depth, false⟩ := by
  have hA1 := hA (res ++ [.op o, .popen]) owed (depth + 1)
    (fun d hd => by have := hst d hd; omega) (by omega)
  have hB1 := hB (res ++ [.popen, .popen] ++ A' ++ [.pclose, .op o, .popen]) (owed ++ [depth])
    (depth + 1)
    (fun d hd => by
      rcases List.mem_append.1 hd with hd | hd
      · have := hst d hd; omega
      · simp at hd; omega) (by omega)
  have e : [Raw.tok (.op o), .popen] ++ A ++ [.comma] ++ B ++ [.pclose]
      = .tok (.op o) :: .popen :: (A ++ (.comma :: (B ++ [.pclose]))) := by simp
  have e1 : res ++ [Tok.op o] ++ [Tok.popen] = res ++ [Tok.op o, Tok.popen] := by simp
  rw [e, feedAll_cons_ok _ (feed_tok ..), feedAll_cons_ok _ (feed_open ..), e1,
    feedAll_append_ok _ hA1,
    feedAll_cons_ok _ (feed_comma_call _ _ _ _ _ hsA hst),
    feedAll_append_ok _ hB1, feedAll_cons_ok _ (feed_close_owed _ _ _ _ hd)]
  simp [feedAll]

/-- and the parenthesised infix form gives the same tokens -/
theorem infix_any {α} (o : Nat) (A B : List (Raw α)) (A' B' : List (Tok α))
    (hA : Closed A A') (hB : Closed B B')
    (res : List (Tok α)) (owed : List Int) (depth : Int)
    (hst : ∀ d ∈ owed, d < depth) (hd : 0 ≤ depth) :
    feedAll ([.popen, .popen] ++ A ++ [.pclose, .tok (.op o), .popen] ++ B ++ [.pclose, .pclose])
        ⟨res, owed, depth, false⟩
      = .ok ⟨res ++ [.popen, .popen] ++ A' ++ [.pclose, .op o, .popen] ++ B' ++ [.pclose, .pclose],
             owed, depth, false⟩ := by
  have hst1 : ∀ d ∈ owed, d < depth + 1 := fun d hd => by have := hst d hd; omega
  have hst2 : ∀ d ∈ owed, d < depth + 1 + 1 := fun d hd => by have := hst d hd; omega
  have hA1 := hA (res ++ [.popen] ++ [.popen]) owed (depth + 1 + 1) hst2 (by omega)
  have hB1 := hB (res ++ [.popen] ++ [.popen] ++ A' ++ [.pclose] ++ [.op o] ++ [.popen]) owed
    (depth + 1 + 1) hst2 (by omega)
  have e : [Raw.popen, .popen] ++ A ++ [.pclose, .tok (.op o), .popen] ++ B ++ [.pclose, .pclose]
      = .popen :: .popen :: (A ++ (.pclose :: .tok (.op o) :: .popen ::
          (B ++ (.pclose :: .pclose :: [])))) := by simp
  rw [e, feedAll_cons_ok _ (feed_open ..), feedAll_cons_ok _ (feed_open ..),
    feedAll_append_ok _ hA1,
    feedAll_cons_ok _ (feed_close_plain _ _ _ _ hst1 (by omega)),
    feedAll_cons_ok _ (feed_tok ..), feedAll_cons_ok _ (feed_open ..),
    feedAll_append_ok _ hB1,
    feedAll_cons_ok _ (feed_close_plain _ _ _ _ hst1 (by omega)),
    feedAll_cons_ok _ (feed_close_plain _ _ _ _ hst hd)]
  simp [feedAll]

/-- the scan over a list whose forward paren count from `n ≥ 0` never goes negative and ends at `m`:
    entering its reverse with a count `cnt` such that `cnt + m ≤ 0`, the scan does not stop inside
    and leaves with count `cnt + m - n` -/
theorem scan_of_balance {α} : ∀ (l : List (Tok α)) (n m : Int), 0 ≤ n → parenBalance l n = some m →
    ∀ (cnt : Int), cnt + m ≤ 0 → ∀ (i : Nat) (rest : List (Tok α)),
      findOpOfCommaRev (l.reverse ++ rest) cnt i = findOpOfCommaRev rest (cnt + m - n) (i + l.length)
  | [], n, m, _, hb, cnt, _, i, rest => by
    simp only [parenBalance, Option.some.injEq] at hb
    subst hb
    have e : cnt + n - n = cnt := by omega
    simp [e]
  | tk :: ts, n, m, hn, hb, cnt, hc, i, rest => by
    simp only [parenBalance] at hb
    split at hb
    · cases hb
    · rename_i hneg
      have ih := scan_of_balance ts (n + parenDelta tk) m (by omega) hb cnt hc i (tk :: rest)
      have e : (tk :: ts).reverse ++ rest = ts.reverse ++ (tk :: rest) := by simp
      rw [e, ih]
      have e2 : cnt + m - (n + parenDelta tk) + parenDelta tk = cnt + m - n := by omega
      have e3 : i + ts.length + 1 = i + (tk :: ts).length := by simp; omega
      cases tk with
      | op o =>
        have hne : ¬ cnt + m - n = 1 := by omega
        simp only [findOpOfCommaRev, e2, e3, hne, if_false]
      | num v => simp only [findOpOfCommaRev, e2, e3]
      | var x => simp only [findOpOfCommaRev, e2, e3]
      | popen => simp only [findOpOfCommaRev, e2, e3]
      | pclose => simp only [findOpOfCommaRev, e2, e3]

/-- `Skip` holds for the output of every closed argument whose output is paren-balanced with
    non-negative prefixes — in particular the hypothesis `hsA` of `call_any` is not an extra
    assumption for such arguments -/
theorem skip_of_balanced {α} (out : List (Tok α))
    (hb : parenBalance out 0 = some 0) : CallTokens.Skip out := by
  intro cnt hc i rest
  have := scan_of_balance out 0 0 (by omega) hb cnt (by omega) i rest
  simpa using this

end Exmex.C08
