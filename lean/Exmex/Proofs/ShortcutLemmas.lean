/-
  Helper lemmas for the neutral-element shortcuts of the overloaded arithmetic on deep
  expressions (C10Shortcuts): soundness of `is_num`, the operands after `var_names_union`,
  the literals built by `zero_like` / `one_like`.
-/
import Exmex.Props.C10
namespace Exmex.Shortcut
open Exmex.CalcLemmas Exmex.DeepCompile Exmex.C10

section
variable {α : Type} (I : Interp α) (C : CalcOps α)

/-- a chain of single-node wrapper groups that ends in a literal: exactly the expressions on which
    `is_num` can answer `true` -/
def isLit : DeepEx α → Bool
  | .mk [.num _] _ _ _ => true
  | .mk [.expr e] _ _ _ => isLit e
  | _ => false

/-- `is_num` looks through a wrapper group `[Expr(e)]` *without* applying the wrapper's unary
    chain. `WrapOK e` says that this is harmless on the chain `is_num` follows: every wrapper of
    a literal chain carries an empty unary chain. -/
def WrapOK : DeepEx α → Prop
  | .mk [.expr e] _ un _ => (isLit e = true → un = []) ∧ WrapOK e
  | _ => True

theorem isLit_of_isNum : ∀ (e : DeepEx α) (x : α), e.isNum I C x = true → isLit e = true
  | .mk [.num _] _ _ _, _, _ => by rw [isLit]
  | .mk [.expr e] _ _ _, x, h => by
    rw [DeepEx.isNum] at h
    rw [isLit]
    exact isLit_of_isNum e x h
  | .mk [] _ _ _, _, h => by simp [DeepEx.isNum] at h
  | .mk [.var _ _] _ _ _, _, h => by simp [DeepEx.isNum] at h
  | .mk (_ :: _ :: _) _ _ _, _, h => by simp [DeepEx.isNum] at h

/-- a group with one node and no operators evaluates to the unary chain applied to the node -/
theorem eval_single_un (vals : List α) (nd : DeepNode α) (un : List Nat) (vars : List Str) (w : α)
    (h : (DeepEx.mk [nd] [] un vars).evalRelaxed I vals = .ok w) :
    ∃ v, nd.evalNode I vals = .ok v ∧ w = applyUn I un v := by
  rw [DeepEx.evalRelaxed] at h
  split at h
  · cases h
  · rw [evalNodeList, evalNodeList] at h
    cases hn : nd.evalNode I vals with
    | error e => rw [hn] at h; cases h
    | ok v =>
      rw [hn] at h
      simp only [] at h
      have : prioIdxDeep [] [nd] = [] := rfl
      rw [this] at h
      simp [evalBinary, evalBinaryLoop] at h
      exact ⟨v, rfl, h.symm⟩

/-- **`is_num` is sound** on expressions whose literal wrappers carry no unary chain -/
theorem isNum_sound (heq : ∀ a b, C.eqv a b = true → a = b) (top : List Str) (vals : List α) :
    ∀ (e : DeepEx α) (x v : α), Named top e → WrapOK e → e.isNum I C x = true →
      e.evalRelaxed I vals = .ok v → v = x
  | .mk [.num n] ops un vars, x, v, hn, _, h, hv => by
    rw [Named] at hn
    have hops : ops = [] := by
      have := hn.1
      simp at this
      exact this
    subst hops
    obtain ⟨v', h1, h2⟩ := eval_single_un I vals _ un vars v hv
    rw [DeepNode.evalNode] at h1
    cases h1
    rw [DeepEx.isNum] at h
    rw [h2]
    exact heq _ _ h
  | .mk [.expr e] ops un vars, x, v, hn, hw, h, hv => by
    rw [Named] at hn
    have hops : ops = [] := by
      have := hn.1
      simp at this
      exact this
    subst hops
    rw [DeepEx.isNum] at h
    rw [WrapOK] at hw
    have hun := hw.1 (isLit_of_isNum I C e x h)
    subst hun
    obtain ⟨v', h1, h2⟩ := eval_single_un I vals _ [] vars v hv
    rw [DeepNode.evalNode] at h1
    have hne : Named top e := by
      have := hn.2.2
      rw [namedList, NamedNode] at this
      exact this.1
    rw [h2]
    exact isNum_sound heq top vals e x v' hne hw.2 h h1
  | .mk [] _ _ _, _, _, _, _, h, _ => by simp [DeepEx.isNum] at h
  | .mk [.var _ _] _ _ _, _, _, _, _, h, _ => by simp [DeepEx.isNum] at h
  | .mk (_ :: _ :: _) _ _ _, _, _, _, _, h, _ => by simp [DeepEx.isNum] at h

/-- `reset_vars` does not change what `is_num` answers -/
theorem isNum_reset (all : List Str) (x : α) :
    ∀ (e e' : DeepEx α), e.resetVars all = some e' → e'.isNum I C x = e.isNum I C x
  | .mk [.num n] ops un vars, e', h => by
    simp [DeepEx.resetVars, resetVarsList, DeepNode.resetVarsNode] at h
    subst h
    rw [DeepEx.isNum, DeepEx.isNum]
  | .mk [.expr e] ops un vars, e', h => by
    simp only [DeepEx.resetVars, resetVarsList, DeepNode.resetVarsNode] at h
    cases he : e.resetVars all with
    | none => rw [he] at h; simp at h
    | some e1 =>
      rw [he] at h
      simp at h
      subst h
      rw [DeepEx.isNum, DeepEx.isNum]
      exact isNum_reset all x e e1 he
  | .mk [] _ _ _, e', h => by
    simp [DeepEx.resetVars, resetVarsList] at h
    subst h
    simp [DeepEx.isNum]
  | .mk [.var _ nm] _ _ _, e', h => by
    simp only [DeepEx.resetVars, resetVarsList, DeepNode.resetVarsNode] at h
    cases hj : all.idxOf? nm with
    | none => rw [hj] at h; simp at h
    | some j =>
      rw [hj] at h
      simp at h
      subst h
      simp [DeepEx.isNum]
  | .mk (n1 :: n2 :: rest) _ _ _, e', h => by
    simp only [DeepEx.resetVars, resetVarsList] at h
    cases h1 : n1.resetVarsNode all with
    | none => rw [h1] at h; simp at h
    | some m1 =>
      cases h2 : n2.resetVarsNode all with
      | none => rw [h1, h2] at h; simp at h
      | some m2 =>
        cases h3 : resetVarsList all rest with
        | none => rw [h1, h2, h3] at h; simp at h
        | some ms =>
          rw [h1, h2, h3] at h
          simp at h
          subst h
          simp [DeepEx.isNum]

/-! ### the operands after `var_names_union` -/

theorem unionVars_self (all : List Str) (hs : all.Pairwise (fun x y => strLt x y = true)) :
    unionVars all all = all := by
  unfold unionVars
  rw [foldl_pushNew_of_subset all all (fun x hx => hx), sortBy_strLe_of_strict all hs]

/-- `var_names_union` succeeds; both operands are re-indexed against the sorted union, keep their
    value, the invariants, and what `is_num` answers -/
theorem union_sound (a b : DeepEx α) (ha : Named a.vars a) (hb : Named b.vars b)
    (hnda : a.vars.Nodup) (hAa : a.Assoc I) (hAb : b.Assoc I) (ρ : Str → α) :
    ∃ a' b', varNamesUnion a b = .ok (a', b') ∧
      a'.vars = unionVars a.vars b.vars ∧ b'.vars = unionVars a.vars b.vars ∧
      Named (unionVars a.vars b.vars) a' ∧ Named (unionVars a.vars b.vars) b' ∧
      a'.Assoc I ∧ b'.Assoc I ∧
      a'.evalRelaxed I ((unionVars a.vars b.vars).map ρ) = a.evalRelaxed I (a.vars.map ρ) ∧
      b'.evalRelaxed I ((unionVars a.vars b.vars).map ρ) = b.evalRelaxed I (b.vars.map ρ) ∧
      (∀ x, a'.isNum I C x = a.isNum I C x) ∧ (∀ x, b'.isNum I C x = b.isNum I C x) ∧
      (unionVars a.vars b.vars).Nodup ∧
      unionVars (unionVars a.vars b.vars) (unionVars a.vars b.vars) = unionVars a.vars b.vars := by
  obtain ⟨all, hall⟩ : ∃ all, all = unionVars a.vars b.vars := ⟨_, rfl⟩
  obtain ⟨hnd, hstrict, hina, hinb⟩ := union_facts a.vars b.vars hnda
  rw [show sortBy strLe (b.vars.foldl pushNew a.vars) = all from hall.symm] at hnd hstrict hina hinb
  obtain ⟨a', a1, a2, a3, a4⟩ := reset_ex I a.vars all hina ρ a ((named_iff_gen _ a).1 ha)
  obtain ⟨b', b1, b2, b3, b4⟩ := reset_ex I b.vars all hinb ρ b ((named_iff_gen _ b).1 hb)
  rw [← hall]
  refine ⟨a', b', ?_, genEx_vars a' a2, genEx_vars b' b2, named_of_full all a' a2,
    named_of_full all b' b2, a4 hAa, b4 hAb, a3, b3, fun x => isNum_reset I C all x a a' a1,
    fun x => isNum_reset I C all x b b' b1, hnd, unionVars_self all hstrict⟩
  unfold varNamesUnion
  simp only []
  rw [show sortBy strLe (b.vars.foldl pushNew a.vars) = all from hall.symm, a1, b1]

/-! ### `from_num`, `zero_like`, `one_like` -/

theorem fromNum_eq (x : α) : DeepEx.fromNum I x = .ok (.mk [.num x] [] [] []) := by
  rfl

/-- a literal group carrying the variable list `all` -/
theorem lit_facts (x : α) (all : List Str) (ρ : Str → α) :
    (DeepEx.mk [.num x] [] [] all).vars = all ∧ Named all (DeepEx.mk [.num x] [] [] all) ∧
      (DeepEx.mk [.num x] [] [] all).Assoc I ∧
      (DeepEx.mk [.num x] [] [] all).evalRelaxed I (all.map ρ) = .ok x := by
  refine ⟨rfl, ?_, ?_, ?_⟩
  · rw [Named, namedList, namedList, NamedNode]
    exact ⟨rfl, Nat.le_refl _, trivial, trivial⟩
  · rw [DeepEx.Assoc, assocList_cons, assocList]
    refine ⟨?_, ?_, ?_⟩
    · intro o ho; cases ho
    · trivial
    · trivial
  · rw [eval_single I (all.map ρ) (.num x) [] all (by rw [List.length_map]; exact Nat.le_refl _) rfl,
      DeepNode.evalNode]

theorem zeroLike_eq (other : DeepEx α) :
    DeepEx.zeroLike I C other = .ok (.mk [.num C.zero] [] [] other.vars) := by
  unfold DeepEx.zeroLike
  rw [fromNum_eq]
  rfl

theorem oneLike_eq (other : DeepEx α) :
    DeepEx.oneLike I C other = .ok (.mk [.num C.one] [] [] other.vars) := by
  unfold DeepEx.oneLike
  rw [fromNum_eq]
  rfl

end
end Exmex.Shortcut
