/-
  Printer of deep expressions, generic helper lemmas for C12.
-/
import Exmex.Props.C01Parse
import Exmex.Props.C02Deep
import Exmex.Props.C10
import Exmex.Proofs.DeepParseDefs
namespace Exmex.Print

theorem compile_text {α} (I : Interp α) (f f' : FlatEx α) (h : f.compile I = .ok f') :
    f'.text = f.text := by
  unfold FlatEx.compile at h
  simp only at h
  split at h
  · cases h
  · cases h; rfl

theorem makeExpression_text {α} (t : Table) (text : Str) (toks : List (Tok α)) (vars : List Str)
    (f : FlatEx α) (h : makeExpression t text toks vars = .ok f) : f.text = text := by
  unfold makeExpression at h
  split at h
  · cases h
  · split at h
    · cases h
    · cases h; rfl

theorem parseWoCompile_text {α} (I : Interp α) (t : Table) (lm : Str → Option Nat) (text : Str)
    (f : FlatEx α) (h : Flat.parseWoCompile I t lm text = .ok f) : f.text = text := by
  unfold Flat.parseWoCompile at h
  split at h
  · cases h
  · split at h
    · cases h
    · exact makeExpression_text t text _ _ f h

theorem parse_text {α} (I : Interp α) (t : Table) (lm : Str → Option Nat) (text : Str)
    (f : FlatEx α) (h : Flat.parse I t lm text = .ok f) : f.text = text := by
  unfold Flat.parse at h
  split at h
  · cases h
  · rename_i f0 h0
    rw [compile_text I f0 f h, parseWoCompile_text I t lm text f0 h0]

/-! ### rendering with the empty space stream -/

/-- the printed prefix of a unary chain: `u1(u2(` -/
def unPre (t : Table) (us : List Nat) : Str := us.foldl (fun acc u => acc ++ reprOf t u ++ ['(']) []

theorem foldl_pre (t : Table) (us : List Nat) : ∀ (init : Str),
    us.foldl (fun acc u => acc ++ reprOf t u ++ ['(']) init = init ++ unPre t us := by
  unfold unPre
  induction us with
  | nil => intro init; simp
  | cons u us ih =>
    intro init
    rw [List.foldl_cons, ih, List.foldl_cons, ih ([] ++ reprOf t u ++ ['('])]
    simp

theorem unPre_cons (t : Table) (u : Nat) (us : List Nat) :
    unPre t (u :: us) = reprOf t u ++ ['('] ++ unPre t us := by
  show List.foldl _ _ _ = _
  rw [List.foldl_cons, foldl_pre]
  simp

section render
variable {α : Type} (t : Table) (cfg : RenderCfg)

theorem render_lit (s : Str) (v : α) : (Atom.lit s v).render t cfg [] = (s, []) := by
  rw [Atom.render]; rfl

theorem render_var (x : Str) : (Atom.var x true : Atom α).render t cfg [] = (['{'] ++ x ++ ['}'], []) := by
  rw [Atom.render]; rfl

theorem render_par (c : Chain α) (h : (c.render t cfg []).2 = []) :
    (Atom.par c).render t cfg [] = (['('] ++ (c.render t cfg []).1 ++ [')'], []) := by
  rw [Atom.render]
  simp only [takeSp, h, spaces, List.replicate_zero, List.nil_append, List.append_nil]

theorem render_un (u : Nat) (a : Atom α) :
    (Atom.un u a).render t cfg [] = (reprOf t u ++ (a.render t cfg []).1, (a.render t cfg []).2) := by
  rw [Atom.render]
  simp only [takeSp, spaces, List.replicate_zero, List.nil_append, reprOf]

theorem render_single (a : Atom α) : (Chain.single a).render t cfg [] = a.render t cfg [] := by
  rw [Chain.render]

theorem render_cons (a : Atom α) (o : Nat) (rest : Chain α) (h : (a.render t cfg []).2 = []) :
    (Chain.cons a o rest).render t cfg [] =
      ((a.render t cfg []).1 ++ reprOf t o ++ (rest.render t cfg []).1, (rest.render t cfg []).2) := by
  rw [Chain.render]
  simp only [takeSp, h, spaces, List.replicate_zero, List.append_nil, reprOf]

end render
/-! ### the documented value depends only on the variables occurring -/

mutual
theorem atom_denote_congr {α : Type} (I : Interp α) (t : Table) (ρ ρ' : Env α) :
    ∀ a : Atom α, (∀ x ∈ a.varOcc, ρ x = ρ' x) → a.denote I t ρ = a.denote I t ρ'
  | .lit _ _, _ => by rw [Atom.denote, Atom.denote]
  | .var x _, h => by
    rw [Atom.denote, Atom.denote, h x (by rw [Atom.varOcc]; exact List.mem_singleton.2 rfl)]
  | .const _, _ => by rw [Atom.denote, Atom.denote]
  | .par c, h => by
    rw [Atom.denote, Atom.denote]
    exact chain_denote_congr I t ρ ρ' c (by rw [Atom.varOcc] at h; exact h)
  | .call o a b, h => by
    rw [Atom.varOcc] at h
    rw [Atom.denote, Atom.denote,
      chain_denote_congr I t ρ ρ' a (fun x hx => h x (List.mem_append_left _ hx)),
      chain_denote_congr I t ρ ρ' b (fun x hx => h x (List.mem_append_right _ hx))]
  | .un u a, h => by
    rw [Atom.denote, Atom.denote, atom_denote_congr I t ρ ρ' a (by rw [Atom.varOcc] at h; exact h)]
theorem chain_operands_congr {α : Type} (I : Interp α) (t : Table) (ρ ρ' : Env α) :
    ∀ c : Chain α, (∀ x ∈ c.varOcc, ρ x = ρ' x) → c.operands I t ρ = c.operands I t ρ'
  | .single a, h => by
    rw [Chain.operands, Chain.operands,
      atom_denote_congr I t ρ ρ' a (by rw [Chain.varOcc] at h; exact h)]
  | .cons a o rest, h => by
    rw [Chain.varOcc] at h
    rw [Chain.operands, Chain.operands,
      atom_denote_congr I t ρ ρ' a (fun x hx => h x (List.mem_append_left _ hx)),
      chain_operands_congr I t ρ ρ' rest (fun x hx => h x (List.mem_append_right _ hx))]
theorem chain_denote_congr {α : Type} (I : Interp α) (t : Table) (ρ ρ' : Env α) :
    ∀ c : Chain α, (∀ x ∈ c.varOcc, ρ x = ρ' x) → c.denote I t ρ = c.denote I t ρ'
  | c, h => by
    rw [Chain.denote, Chain.denote, chain_operands_congr I t ρ ρ' c h]
end

/-- binding the values `ρ` gives to the names reproduces `ρ` on these names -/
theorem envOf_map {α : Type} (names : List Str) (ρ : Env α) (dflt : α) (x : Str) (hx : x ∈ names) :
    envOf names (names.map ρ) dflt x = ρ x := by
  unfold envOf
  cases h : names.idxOf? x with
  | none => exact absurd hx (List.idxOf?_eq_none_iff.1 h)
  | some i =>
    obtain ⟨hi, he, -⟩ := List.idxOf?_eq_some_iff.1 h
    simp [List.getD_eq_getElem?_getD, List.getElem?_eq_getElem hi, he]

end Exmex.Print
