/-
  C05, basic layer: the operator table under distinct names, the components of `dArith`,
  evaluation of one group as `reduceByOrder`, `reset_vars` on success, the representation
  relation `Rep` and the overloaded arithmetic on represented operands.
-/
import Exmex.Proofs.DiffDefs
import Exmex.Props.C10Shortcuts
import Exmex.Props.C14
import Exmex.Proofs.WrapOK
import Exmex.Proofs.ParseAssembly
import Exmex.Proofs.ToDeepVars
namespace Exmex.Diff
open Exmex.C10 Exmex.C05 Exmex.Shortcut Exmex.CalcLemmas Exmex.DeepCompile

/-! ### the operator table -/

theorem ofList_eq {l : List Char} {s : String} (h : String.ofList l = s) : l = s.toList := by
  rw [← h, String.toList_ofList]

theorem findOp_of_getElem (t : Table) (hnames : (t.map (·.repr)).Nodup) (i : Nat) (o : OpSpec)
    (h : t[i]? = some o) : findOp t o.repr = some i := by
  obtain ⟨hi, ho⟩ := List.getElem?_eq_some_iff.1 h
  unfold findOp
  rw [List.findIdx?_eq_some_iff_getElem]
  refine ⟨hi, by rw [ho]; simp, ?_⟩
  intro j hji hp
  have hj : j < t.length := by omega
  have hpw := List.pairwise_iff_getElem.1 hnames j i (by simpa using hj) (by simpa using hi) hji
  apply hpw
  simp only [List.getElem_map]
  rw [ho]
  simpa using hp

theorem reprOf_some (t : Table) (i : Nat) (name : Str) (h : reprOf t i = name) (hne : name ≠ []) :
    ∃ o, t[i]? = some o ∧ o.repr = name := by
  unfold reprOf at h
  cases ho : t[i]? with
  | none => rw [ho] at h; exact absurd h.symm hne
  | some o => rw [ho] at h; exact ⟨o, rfl, h⟩

/-- under distinct names, an operator index whose name is `name` is the index `find_bin_op` returns -/
theorem binIdx_eq (t : Table) (hnames : (t.map (·.repr)).Nodup) (name : Str) (b : DBin)
    (hb : findBinOp t name = .ok b) (i : Nat) (hr : reprOf t i = name) (hne : name ≠ []) :
    i = b.idx := by
  obtain ⟨o, ho, hon⟩ := reprOf_some t i name hr hne
  have hf := findOp_of_getElem t hnames i o ho
  rw [hon] at hf
  unfold findBinOp at hb
  rw [hf] at hb
  simp only [] at hb
  unfold tblBin at hb
  cases hb' : (t[i]?.bind (·.bin)) with
  | none => rw [hb'] at hb; cases hb
  | some bb =>
    rw [hb'] at hb
    simp only [Option.map] at hb
    cases hb
    rfl

/-- a unary operator of the table is what `find_unary_op` returns for its name -/
theorem findUnary_of (t : Table) (hnames : (t.map (·.repr)).Nodup) (u : Nat)
    (hu : tblHasUnary t u = true) : findUnaryOp t (reprOf t u) = .ok u := by
  unfold tblHasUnary at hu
  cases ho : t[u]? with
  | none => rw [ho] at hu; cases hu
  | some o =>
    have hf := findOp_of_getElem t hnames u o ho
    have hr : reprOf t u = o.repr := by unfold reprOf; rw [ho]; rfl
    unfold findUnaryOp
    rw [hr, hf]
    simp only []
    unfold tblHasUnary
    rw [if_pos hu]

theorem findUnary_unique (t : Table) (hnames : (t.map (·.repr)).Nodup) (u u' : Nat) (name : Str)
    (hu : tblHasUnary t u = true) (hr : reprOf t u = name) (h' : findUnaryOp t name = .ok u') :
    u' = u := by
  have := findUnary_of t hnames u hu
  rw [hr, h'] at this
  cases this
  rfl

/-! ### the components of `dArith` -/

section
variable {K : Type} (I : Interp K) (C : CalcOps K) (t : Table) (A : Arith I C t)

theorem dArith_add (a b : K) : (dArith I C t).add a b = I.bin A.add.idx a b := by
  simp only [dArith, A.hadd]
theorem dArith_sub (a b : K) : (dArith I C t).sub a b = I.bin A.sub.idx a b := by
  simp only [dArith, A.hsub]
theorem dArith_mul (a b : K) : (dArith I C t).mul a b = I.bin A.mul.idx a b := by
  simp only [dArith, A.hmul]
theorem dArith_div (a b : K) : (dArith I C t).div a b = I.bin A.div.idx a b := by
  simp only [dArith, A.hdiv]
theorem dArith_pow (a b : K) : (dArith I C t).pow a b = I.bin A.pow.idx a b := by
  simp only [dArith, A.hpow]
theorem dArith_fn (n : String) (u : Nat) (h : findUnaryOp t n.toList = .ok u) (a : K) :
    (dArith I C t).fn n a = I.un u a := by
  simp only [dArith, h]
theorem dArith_bop (n : String) (o : DBin) (h : findBinOp t n.toList = .ok o) (a b : K) :
    (dArith I C t).bop n a b = I.bin o.idx a b := by
  simp only [dArith, h]
theorem dArith_zero : (dArith I C t).zero = C.zero := rfl
theorem dArith_one : (dArith I C t).one = C.one := rfl
theorem dArith_two : (dArith I C t).two = C.two := rfl
theorem dArith_ten : (dArith I C t).ten = C.ten := rfl

end

/-! ### one group evaluates as `reduceByOrder` in the group's priority order -/

/-- the operator at position `k` of a group -/
def gApply {α} (J : Interp α) (ops : List DBin) (k : Nat) (a b : α) : α :=
  J.bin (ops.getD k default).idx a b

theorem eval_group {α} (J : Interp α) (vals : List α) (nodes : List (DeepNode α)) (ops : List DBin)
    (un : List Nat) (vars : List Str) (numbers : List α) (hv : vars.length ≤ vals.length)
    (hn : evalNodeList J vals nodes = .ok numbers) (hlen : numbers.length = ops.length + 1) :
    ∃ v, reduceByOrder (gApply J ops) numbers (prioIdxDeep ops nodes) = some v ∧
      (DeepEx.mk nodes ops un vars).evalRelaxed J vals = .ok (applyUn J un v) := by
  have hne : numbers ≠ [] := by
    intro h0; rw [h0] at hlen; simp at hlen
  have hn1 : numbers.length - 1 = ops.length := by omega
  have hπ : ValidOrder (prioIdxDeep ops nodes) ops.length := orderByKey_valid _ _
  have hπ' : ValidOrder (prioIdxDeep ops nodes) (numbers.length - 1) := by rw [hn1]; exact hπ
  have hcongr : ∀ k ∈ prioIdxDeep ops nodes, ∀ a b, deepApply J ops k a b =
      (fun k a b => some (gApply J ops k a b)) k a b := by
    intro k hk a b
    have hk' : k < ops.length := hπ.lt k hk
    simp [deepApply, gApply, List.getElem?_eq_getElem hk']
  obtain ⟨v, hv1, he⟩ := C14.evalBinary_words_any_order J.dflt (gApply J ops) numbers
    (prioIdxDeep ops nodes) hπ' hne
  refine ⟨v, hv1, ?_⟩
  rw [DeepEx.evalRelaxed, if_neg (by omega), hn]
  simp only []
  rw [C14.evalBinary_congr _ _ _ _ _ _ _ hcongr, he]

theorem eval_group_inv {α} (J : Interp α) (vals : List α) (nodes : List (DeepNode α)) (ops : List DBin)
    (un : List Nat) (vars : List Str) (w : α) (hlen : nodes.length = ops.length + 1)
    (h : (DeepEx.mk nodes ops un vars).evalRelaxed J vals = .ok w) :
    ∃ numbers v, vars.length ≤ vals.length ∧ evalNodeList J vals nodes = .ok numbers ∧
      numbers.length = nodes.length ∧
      reduceByOrder (gApply J ops) numbers (prioIdxDeep ops nodes) = some v ∧ w = applyUn J un v := by
  have hv : vars.length ≤ vals.length := by
    rw [DeepEx.evalRelaxed] at h
    split at h
    · cases h
    · omega
  cases hn : evalNodeList J vals nodes with
  | error e =>
    rw [DeepEx.evalRelaxed, if_neg (by omega), hn] at h
    cases h
  | ok numbers =>
    have hl := evalNodeList_length J vals nodes numbers hn
    obtain ⟨v, h1, h2⟩ := eval_group J vals nodes ops un vars numbers hv hn (by rw [hl, hlen])
    rw [h2] at h
    cases h
    exact ⟨numbers, v, hv, rfl, hl, h1, rfl⟩

/-- changing the unary chain of a group -/
theorem eval_un_change {α} (J : Interp α) (vals : List α) (nodes : List (DeepNode α)) (ops : List DBin)
    (un' : List Nat) (vars : List Str) (v : α)
    (h : (DeepEx.mk nodes ops [] vars).evalRelaxed J vals = .ok v) :
    (DeepEx.mk nodes ops un' vars).evalRelaxed J vals = .ok (applyUn J un' v) := by
  rw [DeepEx.evalRelaxed] at h ⊢
  split at h
  · cases h
  · rename_i hv
    rw [if_neg hv]
    cases hn : evalNodeList J vals nodes with
    | error e => rw [hn] at h; cases h
    | ok numbers =>
      rw [hn] at h
      simp only [] at h ⊢
      split at h
      · cases h
      · rename_i v' hv'
        cases h
        rfl

theorem eval_un_split {α} (J : Interp α) (vals : List α) (nodes : List (DeepNode α)) (ops : List DBin)
    (un : List Nat) (vars : List Str) (w : α)
    (h : (DeepEx.mk nodes ops un vars).evalRelaxed J vals = .ok w) :
    ∃ v, (DeepEx.mk nodes ops [] vars).evalRelaxed J vals = .ok v ∧ w = applyUn J un v := by
  rw [DeepEx.evalRelaxed] at h
  split at h
  · cases h
  · rename_i hv
    cases hn : evalNodeList J vals nodes with
    | error e => rw [hn] at h; cases h
    | ok numbers =>
      rw [hn] at h
      simp only [] at h
      split at h
      · cases h
      · rename_i v' hv'
        cases h
        refine ⟨v', ?_, rfl⟩
        rw [DeepEx.evalRelaxed, if_neg hv, hn]
        simp only []
        rw [hv']
        rfl

/-! ### `reset_vars`, given that it succeeds -/

mutual
theorem reset_ok {α} (I : Interp α) (top all : List Str) (ρ : Str → α) :
    ∀ e e' : DeepEx α, GenEx (NQ top) (NV top) e → e.resetVars all = some e' →
      GenEx (FQ all) (NV all) e' ∧
        e'.evalRelaxed I (all.map ρ) = e.evalRelaxed I (top.map ρ) ∧ (e.Assoc I → e'.Assoc I)
  | .mk nodes ops un vars, e', h, hr => by
    rw [GenEx] at h
    rw [DeepEx.resetVars] at hr
    cases h1 : resetVarsList all nodes with
    | none => rw [h1] at hr; cases hr
    | some ns' =>
      rw [h1] at hr
      cases hr
      obtain ⟨h2, h3, h4, h5, h6⟩ := reset_ok_list I top all ρ nodes ns' h.2.2 h1
      refine ⟨?_, ?_, ?_⟩
      · rw [GenEx]
        exact ⟨by rw [h5]; exact h.1, rfl, h2⟩
      · have hv : ¬ vars.length > (top.map ρ).length := by
          rw [List.length_map]; exact Nat.not_lt.2 h.2.1
        rw [DeepEx.evalRelaxed, DeepEx.evalRelaxed, if_neg (by simp), if_neg hv, h3,
          prioIdxDeep_congr ops _ _ h4]
      · intro hA
        rw [DeepEx.Assoc] at hA ⊢
        exact ⟨hA.1, h6 hA.2⟩
theorem reset_ok_node {α} (I : Interp α) (top all : List Str) (ρ : Str → α) :
    ∀ nd nd' : DeepNode α, GenNode (NQ top) (NV top) nd → nd.resetVarsNode all = some nd' →
      GenNode (FQ all) (NV all) nd' ∧
        nd'.evalNode I (all.map ρ) = nd.evalNode I (top.map ρ) ∧ nd'.isNum = nd.isNum ∧
        (nodeAssoc I nd → nodeAssoc I nd')
  | .num a, nd', _, hr => by
    rw [DeepNode.resetVarsNode] at hr
    cases hr
    exact ⟨genNode_num _ _ a, rfl, rfl, fun h => h⟩
  | .var i nm, nd', h, hr => by
    rw [GenNode] at h
    have hi : top[i]? = some nm := h
    rw [DeepNode.resetVarsNode] at hr
    cases hj : all.idxOf? nm with
    | none => rw [hj] at hr; cases hr
    | some j =>
      rw [hj] at hr
      cases hr
      obtain ⟨hjl, hje, -⟩ := List.idxOf?_eq_some_iff.1 hj
      have hj' : all[j]? = some nm := by rw [List.getElem?_eq_getElem hjl, hje]
      refine ⟨?_, ?_, rfl, fun _ => trivial⟩
      · rw [GenNode]; exact hj'
      · rw [DeepNode.evalNode, DeepNode.evalNode, List.getElem?_map, List.getElem?_map, hj', hi]
  | .expr e, nd', h, hr => by
    rw [GenNode] at h
    rw [DeepNode.resetVarsNode] at hr
    cases he : e.resetVars all with
    | none => rw [he] at hr; cases hr
    | some e' =>
      rw [he] at hr
      cases hr
      obtain ⟨h2, h3, h4⟩ := reset_ok I top all ρ e e' h he
      refine ⟨?_, ?_, rfl, ?_⟩
      · rw [GenNode]; exact h2
      · rw [DeepNode.evalNode, DeepNode.evalNode, h3]
      · intro hA; exact h4 hA
theorem reset_ok_list {α} (I : Interp α) (top all : List Str) (ρ : Str → α) :
    ∀ l l' : List (DeepNode α), genList (NQ top) (NV top) l → resetVarsList all l = some l' →
      genList (FQ all) (NV all) l' ∧
        evalNodeList I (all.map ρ) l' = evalNodeList I (top.map ρ) l ∧
        l'.map (·.isNum) = l.map (·.isNum) ∧ l'.length = l.length ∧
        (assocList I l → assocList I l')
  | [], l', _, hr => by
    rw [resetVarsList] at hr
    cases hr
    refine ⟨?_, rfl, rfl, rfl, fun h => h⟩
    rw [genList]; trivial
  | nd :: rest, l', h, hr => by
    rw [genList] at h
    rw [resetVarsList] at hr
    cases h1 : nd.resetVarsNode all with
    | none => rw [h1] at hr; simp at hr
    | some nd' =>
      cases h2 : resetVarsList all rest with
      | none => rw [h1, h2] at hr; simp at hr
      | some rest' =>
        rw [h1, h2] at hr
        simp only [] at hr
        cases hr
        obtain ⟨a2, a3, a4, a5⟩ := reset_ok_node I top all ρ nd nd' h.1 h1
        obtain ⟨b2, b3, b4, b5, b6⟩ := reset_ok_list I top all ρ rest rest' h.2 h2
        refine ⟨?_, ?_, ?_, ?_, ?_⟩
        · rw [genList]; exact ⟨a2, b2⟩
        · rw [evalNodeList, evalNodeList, a3, b3]
        · rw [List.map_cons, List.map_cons, a4, b4]
        · rw [List.length_cons, List.length_cons, b5]
        · intro hA
          rw [assocList_cons] at hA ⊢
          exact ⟨a5 hA.1, b6 hA.2⟩
end

mutual
/-- re-indexing an expression against the list all its groups already carry changes nothing -/
theorem reset_self {α} (all : List Str) (hnd : all.Nodup) :
    ∀ e : DeepEx α, GenEx (FQ all) (NV all) e → e.resetVars all = some e
  | .mk nodes ops un vars, h => by
    rw [GenEx] at h
    have hv : vars = all := h.2.1
    rw [DeepEx.resetVars, reset_self_list all hnd nodes h.2.2, hv]
theorem reset_self_node {α} (all : List Str) (hnd : all.Nodup) :
    ∀ nd : DeepNode α, GenNode (FQ all) (NV all) nd → nd.resetVarsNode all = some nd
  | .num a, _ => by rw [DeepNode.resetVarsNode]
  | .var i nm, h => by
    rw [GenNode] at h
    rw [DeepNode.resetVarsNode, ToDeep.idxOf?_of_nodup all i nm hnd h]
  | .expr e, h => by
    rw [GenNode] at h
    rw [DeepNode.resetVarsNode, reset_self all hnd e h]
    rfl
theorem reset_self_list {α} (all : List Str) (hnd : all.Nodup) :
    ∀ l : List (DeepNode α), genList (FQ all) (NV all) l → resetVarsList all l = some l
  | [], _ => by rw [resetVarsList]
  | nd :: rest, h => by
    rw [genList] at h
    rw [resetVarsList, reset_self_node all hnd nd h.1, reset_self_list all hnd rest h.2]
end

/-! ### represented expressions -/

section
variable {K : Type} (I : Interp K) (T : List Str) (ρ : Str → K)

/-- `e` is a well-formed expression whose variable nodes are indexed against some list `L`, lists
    duplicate-free variables among `T`, and evaluates to `v` under `ρ` -/
def Rep (e : DeepEx K) (v : K) : Prop :=
  ∃ L, Named L e ∧ e.vars.Nodup ∧ (∀ x ∈ e.vars, x ∈ T) ∧ e.Assoc I ∧ Folded e ∧
    e.evalRelaxed I (L.map ρ) = .ok v

/-- the same, indexed against its own (strictly sorted) variable list: the results of the calculus -/
def RepS (e : DeepEx K) (v : K) : Prop :=
  Named e.vars e ∧ e.vars.Pairwise (fun x y => strLt x y = true) ∧ (∀ x ∈ e.vars, x ∈ T) ∧
    e.Assoc I ∧ Folded e ∧ e.evalRelaxed I (e.vars.map ρ) = .ok v

theorem nodup_of_strict (l : List Str) (h : l.Pairwise (fun x y => strLt x y = true)) : l.Nodup := by
  refine h.imp ?_
  intro x y hxy he
  subst he
  rw [strLt_irrefl'] at hxy
  cases hxy

theorem RepS.rep {e : DeepEx K} {v : K} (h : RepS I T ρ e v) : Rep I T ρ e v :=
  ⟨e.vars, h.1, nodup_of_strict _ h.2.1, h.2.2.1, h.2.2.2.1, h.2.2.2.2.1, h.2.2.2.2.2⟩

theorem mem_unionVars (a b : List Str) (x : Str) : x ∈ unionVars a b ↔ x ∈ a ∨ x ∈ b := by
  unfold unionVars
  rw [(sortBy_perm strLe _).mem_iff, mem_foldl_pushNew]

/-- what `var_names_union` gives on represented operands -/
structure UF (C : CalcOps K) (a b a' b' : DeepEx K) (va vb : K) : Prop where
  av : a'.vars = unionVars a.vars b.vars
  bv : b'.vars = unionVars a.vars b.vars
  an : Named (unionVars a.vars b.vars) a'
  bn : Named (unionVars a.vars b.vars) b'
  aA : a'.Assoc I
  bA : b'.Assoc I
  af : Folded a'
  bf : Folded b'
  ae : a'.evalRelaxed I ((unionVars a.vars b.vars).map ρ) = .ok va
  be : b'.evalRelaxed I ((unionVars a.vars b.vars).map ρ) = .ok vb
  ai : ∀ x, a'.isNum I C x = true → va = x
  bi : ∀ x, b'.isNum I C x = true → vb = x
  strict : (unionVars a.vars b.vars).Pairwise (fun x y => strLt x y = true)
  nd : (unionVars a.vars b.vars).Nodup
  uu : unionVars (unionVars a.vars b.vars) (unionVars a.vars b.vars) = unionVars a.vars b.vars
  sub : ∀ x ∈ unionVars a.vars b.vars, x ∈ T
  ag : GenEx (FQ (unionVars a.vars b.vars)) (NV (unionVars a.vars b.vars)) a'
  bg : GenEx (FQ (unionVars a.vars b.vars)) (NV (unionVars a.vars b.vars)) b'

theorem gunion (C : CalcOps K) (heq : ∀ a b, C.eqv a b = true → a = b) (a b a' b' : DeepEx K)
    (va vb : K) (ha : Rep I T ρ a va) (hb : Rep I T ρ b vb)
    (hu : varNamesUnion a b = .ok (a', b')) : UF I T ρ C a b a' b' va vb := by
  obtain ⟨La, an, and, asub, aA, af, ae⟩ := ha
  obtain ⟨Lb, bn, bnd, bsub, bA, bf, be⟩ := hb
  obtain ⟨hnd, hstrict, -, -⟩ := union_facts a.vars b.vars and
  have hf := union_folded a b a' b' hu af bf
  unfold varNamesUnion at hu
  simp only [] at hu
  change (match a.resetVars (unionVars a.vars b.vars), b.resetVars (unionVars a.vars b.vars) with
    | some a', some b' => Except.ok (a', b')
    | _, _ => Except.error (Fail.panic "deep.rs:reset_vars unwrap")) = _ at hu
  change (unionVars a.vars b.vars).Nodup at hnd
  change (unionVars a.vars b.vars).Pairwise _ at hstrict
  generalize hall : unionVars a.vars b.vars = all at *
  cases h1 : a.resetVars all with
  | none => rw [h1] at hu; cases hu
  | some a1 =>
    cases h2 : b.resetVars all with
    | none => rw [h1, h2] at hu; cases hu
    | some b1 =>
      rw [h1, h2] at hu
      cases hu
      obtain ⟨a2, a3, a4⟩ := reset_ok I La all ρ a a' ((named_iff_gen _ a).1 an) h1
      obtain ⟨b2, b3, b4⟩ := reset_ok I Lb all ρ b b' ((named_iff_gen _ b).1 bn) h2
      have hwa := wrapOK_of_folded a af
      have hwb := wrapOK_of_folded b bf
      subst hall
      refine ⟨genEx_vars a' a2, genEx_vars b' b2, named_of_full _ a' a2, named_of_full _ b' b2,
        a4 aA, b4 bA, hf.1, hf.2, by rw [a3]; exact ae, by rw [b3]; exact be, ?_, ?_, hstrict, hnd,
        unionVars_self _ hstrict, ?_, a2, b2⟩
      · intro x hx
        rw [isNum_reset I C _ x a a' h1] at hx
        exact isNum_sound I C heq La _ a x va an hwa hx ae
      · intro x hx
        rw [isNum_reset I C _ x b b' h2] at hx
        exact isNum_sound I C heq Lb _ b x vb bn hwb hx be
      · intro x hx
        rw [mem_unionVars] at hx
        rcases hx with hx | hx
        · exact asub x hx
        · exact bsub x hx

end

/-! ### the overloaded arithmetic on represented operands -/

section
variable {K : Type} (I : Interp K) (T : List Str) (ρ : Str → K)

theorem Rep.named_ex {e : DeepEx K} {v : K} (h : Rep I T ρ e v) : ∃ L, Named L e ∧ e.evalRelaxed I (L.map ρ) = .ok v := by
  obtain ⟨L, h1, -, -, -, -, h6⟩ := h
  exact ⟨L, h1, h6⟩
theorem Rep.nodup {e : DeepEx K} {v : K} (h : Rep I T ρ e v) : e.vars.Nodup := by
  obtain ⟨L, -, h2, -⟩ := h
  exact h2
theorem Rep.sub {e : DeepEx K} {v : K} (h : Rep I T ρ e v) : ∀ x ∈ e.vars, x ∈ T := by
  obtain ⟨L, -, -, h3, -⟩ := h
  exact h3
theorem Rep.assoc {e : DeepEx K} {v : K} (h : Rep I T ρ e v) : e.Assoc I := by
  obtain ⟨L, -, -, -, h4, -⟩ := h
  exact h4
theorem Rep.folded {e : DeepEx K} {v : K} (h : Rep I T ρ e v) : Folded e := by
  obtain ⟨L, -, -, -, -, h5, -⟩ := h
  exact h5

theorem RepS.congr {e : DeepEx K} {v v' : K} (h : RepS I T ρ e v) (hv : v = v') : RepS I T ρ e v' := by
  subst hv; exact h
theorem Rep.congr {e : DeepEx K} {v v' : K} (h : Rep I T ρ e v) (hv : v = v') : Rep I T ρ e v' := by
  subst hv; exact h

theorem repS_of_yields (r : DeepEx K) (res : Res (DeepEx K)) (all : List Str) (v : K)
    (h : res = .ok r) (hy : Yields I res all ρ v) (hf : Folded r)
    (hs : all.Pairwise (fun x y => strLt x y = true)) (hsub : ∀ x ∈ all, x ∈ T) :
    RepS I T ρ r v ∧ r.vars = all := by
  obtain ⟨e, h1, h2, h3, h4, -, h6⟩ := hy
  rw [h] at h1
  cases h1
  exact ⟨⟨h3, by rw [h2]; exact hs, by rw [h2]; exact hsub, h4, hf, by rw [h2]; exact h6⟩, h2⟩

/-- a literal is represented -/
theorem rep_lit (x : K) (vs : List Str) (hs : vs.Pairwise (fun x y => strLt x y = true))
    (hsub : ∀ x ∈ vs, x ∈ T) : RepS I T ρ (DeepEx.mk [.num x] [] [] vs) x := by
  obtain ⟨-, h2, h3, h4⟩ := lit_facts I x vs ρ
  exact ⟨h2, hs, hsub, h3, folded_lit_group x [] vs, h4⟩

theorem rep_fromNum (x : K) (r : DeepEx K) (h : DeepEx.fromNum I x = .ok r) :
    RepS I T ρ r x ∧ r.vars = [] := by
  rw [fromNum_eq] at h
  cases h
  exact ⟨rep_lit I T ρ x [] List.Pairwise.nil (fun _ h => by cases h), rfl⟩

end

section
variable {K : Type} (I : Interp K) (C : CalcOps K) (t : Table) (A : Arith I C t)
  (L : Laws (dArith I C t)) (T : List Str) (ρ : Str → K)
include A L

theorem gadd (a b r : DeepEx K) (va vb : K) (ha : Rep I T ρ a va) (hb : Rep I T ρ b vb)
    (h : a.add I C t b = .ok r) :
    RepS I T ρ r ((dArith I C t).add va vb) ∧ r.vars = unionVars a.vars b.vars := by
  have hfold := add_folded I C t a b r h ha.folded hb.folded
  have e1 : I.bin A.add.idx C.zero vb = vb := by
    have := L.zero_add vb; rwa [dArith_add I C t A] at this
  have e2 : I.bin A.add.idx va C.zero = va := by
    have := L.add_zero va; rwa [dArith_add I C t A] at this
  rw [dArith_add I C t A]
  unfold DeepEx.add at h
  cases hu : varNamesUnion a b with
  | error e => rw [hu] at h; cases h
  | ok p =>
    obtain ⟨a', b'⟩ := p
    have U := gunion I T ρ C A.eqv_sound a b a' b' va vb ha hb hu
    rw [hu] at h
    simp only [] at h
    by_cases h1 : a'.isZero I C = true
    · rw [if_pos h1] at h
      cases h
      exact repS_of_yields I T ρ r _ _ _ rfl (yields_operand I r _ ρ vb _ U.bv U.bn U.bA
        (wrapOK_of_folded _ U.bf) U.be (by rw [U.ai _ h1, e1])) hfold U.strict U.sub
    · rw [if_neg h1] at h
      by_cases h2 : b'.isZero I C = true
      · rw [if_pos h2] at h
        cases h
        exact repS_of_yields I T ρ r _ _ _ rfl (yields_operand I r _ ρ va _ U.av U.an U.aA
          (wrapOK_of_folded _ U.af) U.ae (by rw [U.bi _ h2, e2])) hfold U.strict U.sub
      · rw [if_neg h2] at h
        exact repS_of_yields I T ρ r _ _ _ h (yields_bin I t a' b' _ ρ _ A.add A.hadd
          (A.assoc A.add (by simp)) U.av U.bv U.an U.bn U.aA U.bA U.nd U.uu va vb U.ae U.be)
          hfold U.strict U.sub

theorem gmul (a b r : DeepEx K) (va vb : K) (ha : Rep I T ρ a va) (hb : Rep I T ρ b vb)
    (h : a.mul I C t b = .ok r) :
    RepS I T ρ r ((dArith I C t).mul va vb) ∧ r.vars = unionVars a.vars b.vars := by
  have hfold := mul_folded I C t a b r h ha.folded hb.folded
  have e1 : I.bin A.mul.idx C.zero vb = C.zero := by
    have := L.zero_mul vb; rwa [dArith_mul I C t A] at this
  have e2 : I.bin A.mul.idx va C.zero = C.zero := by
    have := L.mul_zero va; rwa [dArith_mul I C t A] at this
  have e3 : I.bin A.mul.idx C.one vb = vb := by
    have := L.one_mul vb; rwa [dArith_mul I C t A] at this
  have e4 : I.bin A.mul.idx va C.one = va := by
    have := L.mul_one va; rwa [dArith_mul I C t A] at this
  rw [dArith_mul I C t A]
  unfold DeepEx.mul at h
  cases hu : varNamesUnion a b with
  | error e => rw [hu] at h; cases h
  | ok p =>
    obtain ⟨a', b'⟩ := p
    have U := gunion I T ρ C A.eqv_sound a b a' b' va vb ha hb hu
    rw [hu] at h
    simp only [] at h
    by_cases h1 : (a'.isZero I C || b'.isZero I C) = true
    · rw [if_pos h1, zeroLike_eq, U.av] at h
      refine repS_of_yields I T ρ r _ _ _ h (yields_lit I _ _ ρ _ ?_) hfold U.strict U.sub
      rcases Bool.or_eq_true _ _ ▸ h1 with h' | h'
      · rw [U.ai _ h', e1]
      · rw [U.bi _ h', e2]
    · rw [if_neg h1] at h
      by_cases h2 : a'.isOne I C = true
      · rw [if_pos h2] at h
        cases h
        exact repS_of_yields I T ρ r _ _ _ rfl (yields_operand I r _ ρ vb _ U.bv U.bn U.bA
          (wrapOK_of_folded _ U.bf) U.be (by rw [U.ai _ h2, e3])) hfold U.strict U.sub
      · rw [if_neg h2] at h
        by_cases h3 : b'.isOne I C = true
        · rw [if_pos h3] at h
          cases h
          exact repS_of_yields I T ρ r _ _ _ rfl (yields_operand I r _ ρ va _ U.av U.an U.aA
            (wrapOK_of_folded _ U.af) U.ae (by rw [U.bi _ h3, e4])) hfold U.strict U.sub
        · rw [if_neg h3] at h
          exact repS_of_yields I T ρ r _ _ _ h (yields_bin I t a' b' _ ρ _ A.mul A.hmul
            (A.assoc A.mul (by simp)) U.av U.bv U.an U.bn U.aA U.bA U.nd U.uu va vb U.ae U.be)
            hfold U.strict U.sub

theorem gdiv (a b r : DeepEx K) (va vb : K) (ha : Rep I T ρ a va) (hb : Rep I T ρ b vb)
    (hnz : va ≠ C.zero ∨ vb ≠ C.zero) (h : a.div I C t b = .ok r) :
    RepS I T ρ r ((dArith I C t).div va vb) ∧ r.vars = unionVars a.vars b.vars := by
  have hfold := div_folded I C t a b r h ha.folded hb.folded
  have e1 : vb ≠ C.zero → I.bin A.div.idx C.zero vb = C.zero := by
    intro hb0
    have := L.zero_div vb hb0; rwa [dArith_div I C t A] at this
  have e2 : I.bin A.div.idx va C.one = va := by
    have := L.div_one va; rwa [dArith_div I C t A] at this
  rw [dArith_div I C t A]
  unfold DeepEx.div at h
  cases hu : varNamesUnion a b with
  | error e => rw [hu] at h; cases h
  | ok p =>
    obtain ⟨a', b'⟩ := p
    have U := gunion I T ρ C A.eqv_sound a b a' b' va vb ha hb hu
    rw [hu] at h
    simp only [] at h
    by_cases h1 : (a'.isZero I C && !b'.isZero I C) = true
    · rw [if_pos h1, zeroLike_eq, U.av] at h
      refine repS_of_yields I T ρ r _ _ _ h (yields_lit I _ _ ρ _ ?_) hfold U.strict U.sub
      rw [Bool.and_eq_true] at h1
      have hva := U.ai _ h1.1
      rw [hva, e1 (by rcases hnz with h' | h'; exact absurd hva h'; exact h')]
    · rw [if_neg h1] at h
      by_cases h2 : b'.isOne I C = true
      · rw [if_pos h2] at h
        cases h
        exact repS_of_yields I T ρ r _ _ _ rfl (yields_operand I r _ ρ va _ U.av U.an U.aA
          (wrapOK_of_folded _ U.af) U.ae (by rw [U.bi _ h2, e2])) hfold U.strict U.sub
      · rw [if_neg h2] at h
        exact repS_of_yields I T ρ r _ _ _ h (yields_bin I t a' b' _ ρ _ A.div A.hdiv
          (A.assoc A.div (by simp)) U.av U.bv U.an U.bn U.aA U.bA U.nd U.uu va vb U.ae U.be)
          hfold U.strict U.sub

theorem gpow (a b r : DeepEx K) (va vb : K) (ha : Rep I T ρ a va) (hb : Rep I T ρ b vb)
    (hnz : va ≠ C.zero ∨ vb ≠ C.zero) (h : a.pow I C t b = .ok r) :
    RepS I T ρ r ((dArith I C t).pow va vb) ∧ r.vars = unionVars a.vars b.vars := by
  have hfold := pow_folded I C t a b r h ha.folded hb.folded
  have e1 : vb ≠ C.zero → I.bin A.pow.idx C.zero vb = C.zero := by
    intro hb0
    have := L.zero_pow vb hb0; rwa [dArith_pow I C t A] at this
  have e2 : I.bin A.pow.idx va C.zero = C.one := by
    have := L.pow_zero va; rwa [dArith_pow I C t A] at this
  have e3 : I.bin A.pow.idx va C.one = va := by
    have := L.pow_one va; rwa [dArith_pow I C t A] at this
  rw [dArith_pow I C t A]
  unfold DeepEx.pow at h
  cases hu : varNamesUnion a b with
  | error e => rw [hu] at h; cases h
  | ok p =>
    obtain ⟨a', b'⟩ := p
    have U := gunion I T ρ C A.eqv_sound a b a' b' va vb ha hb hu
    rw [hu] at h
    simp only [] at h
    by_cases h0 : (a'.isZero I C && b'.isZero I C) = true
    · rw [if_pos h0] at h
      cases h
    · rw [if_neg h0] at h
      by_cases h1 : a'.isZero I C = true
      · rw [if_pos h1, zeroLike_eq, U.av] at h
        refine repS_of_yields I T ρ r _ _ _ h (yields_lit I _ _ ρ _ ?_) hfold U.strict U.sub
        have hva := U.ai _ h1
        rw [hva, e1 (by rcases hnz with h' | h'; exact absurd hva h'; exact h')]
      · rw [if_neg h1] at h
        by_cases h2 : b'.isZero I C = true
        · rw [if_pos h2, oneLike_eq, U.av] at h
          refine repS_of_yields I T ρ r _ _ _ h (yields_lit I _ _ ρ _ ?_) hfold U.strict U.sub
          rw [U.bi _ h2, e2]
        · rw [if_neg h2] at h
          by_cases h3 : b'.isOne I C = true
          · rw [if_pos h3] at h
            cases h
            exact repS_of_yields I T ρ r _ _ _ rfl (yields_operand I r _ ρ va _ U.av U.an U.aA
              (wrapOK_of_folded _ U.af) U.ae (by rw [U.bi _ h3, e3])) hfold U.strict U.sub
          · rw [if_neg h3] at h
            exact repS_of_yields I T ρ r _ _ _ h (yields_bin I t a' b' _ ρ _ A.pow A.hpow
              (A.assoc A.pow (by simp)) U.av U.bv U.an U.bn U.aA U.bA U.nd U.uu va vb U.ae U.be)
              hfold U.strict U.sub

omit L in
theorem gsub (a b r : DeepEx K) (va vb : K) (ha : Rep I T ρ a va) (hb : Rep I T ρ b vb)
    (h : a.sub I t b = .ok r) :
    RepS I T ρ r ((dArith I C t).sub va vb) ∧ r.vars = unionVars a.vars b.vars := by
  have hfold := sub_folded I t a b r h ha.folded hb.folded
  rw [dArith_sub I C t A]
  unfold DeepEx.sub DeepEx.operateBin at h
  rw [A.hsub] at h
  simp only [] at h
  unfold operateBinOp at h
  cases hu : varNamesUnion a b with
  | error e => rw [hu] at h; cases h
  | ok p =>
    obtain ⟨a', b'⟩ := p
    have U := gunion I T ρ C A.eqv_sound a b a' b' va vb ha hb hu
    rw [hu] at h
    simp only [] at h
    -- the same as `operate_bin` on the re-indexed operands
    have hself : varNamesUnion a' b' = .ok (a', b') := by
      have hra : a'.resetVars (unionVars a.vars b.vars) = some a' := reset_self _ U.nd a' U.ag
      have hrb : b'.resetVars (unionVars a.vars b.vars) = some b' := reset_self _ U.nd b' U.bg
      unfold varNamesUnion
      simp only []
      change (match a'.resetVars (unionVars a'.vars b'.vars), b'.resetVars (unionVars a'.vars b'.vars) with
        | some a', some b' => Except.ok (a', b')
        | _, _ => Except.error (Fail.panic "deep.rs:reset_vars unwrap")) = _
      rw [U.av, U.bv, U.uu, hra, hrb]
    have h' : a'.operateBin I t b' "-".toList = .ok r := by
      unfold DeepEx.operateBin
      rw [A.hsub]
      simp only []
      unfold operateBinOp
      rw [hself]
      exact h
    exact repS_of_yields I T ρ r _ _ _ h' (yields_bin I t a' b' _ ρ _ A.sub A.hsub
      (A.assoc A.sub (by simp)) U.av U.bv U.an U.bn U.aA U.bA U.nd U.uu va vb U.ae U.be)
      hfold U.strict U.sub

omit L in
/-- `operate_bin` with any operator of the table on represented operands (the comparisons, `if`,
    `else`: no shortcuts) -/
theorem gbin (repr : Str) (op : DBin) (hop : findBinOp t repr = .ok op)
    (hopA : op.comm = true → ∀ x y z, I.bin op.idx (I.bin op.idx x y) z = I.bin op.idx x (I.bin op.idx y z))
    (a b r : DeepEx K) (va vb : K) (ha : Rep I T ρ a va) (hb : Rep I T ρ b vb)
    (h : a.operateBin I t b repr = .ok r) :
    RepS I T ρ r (I.bin op.idx va vb) ∧ r.vars = unionVars a.vars b.vars := by
  have hfold := operateBin_folded I t a b r repr h ha.folded hb.folded
  unfold DeepEx.operateBin at h
  rw [hop] at h
  simp only [] at h
  unfold operateBinOp at h
  cases hu : varNamesUnion a b with
  | error e => rw [hu] at h; cases h
  | ok p =>
    obtain ⟨a', b'⟩ := p
    have U := gunion I T ρ C A.eqv_sound a b a' b' va vb ha hb hu
    rw [hu] at h
    simp only [] at h
    have hself : varNamesUnion a' b' = .ok (a', b') := by
      have hra : a'.resetVars (unionVars a.vars b.vars) = some a' := reset_self _ U.nd a' U.ag
      have hrb : b'.resetVars (unionVars a.vars b.vars) = some b' := reset_self _ U.nd b' U.bg
      unfold varNamesUnion
      simp only []
      change (match a'.resetVars (unionVars a'.vars b'.vars), b'.resetVars (unionVars a'.vars b'.vars) with
        | some a', some b' => Except.ok (a', b')
        | _, _ => Except.error (Fail.panic "deep.rs:reset_vars unwrap")) = _
      rw [U.av, U.bv, U.uu, hra, hrb]
    have h' : a'.operateBin I t b' repr = .ok r := by
      unfold DeepEx.operateBin
      rw [hop]
      simp only []
      unfold operateBinOp
      rw [hself]
      exact h
    exact repS_of_yields I T ρ r _ _ _ h' (yields_bin I t a' b' _ ρ _ op hop
      hopA U.av U.bv U.an U.bn U.aA U.bA U.nd U.uu va vb U.ae U.be)
      hfold U.strict U.sub

end

section
variable {K : Type} (I : Interp K) (C : CalcOps K) (t : Table) (T : List Str) (ρ : Str → K)

/-- the first component of `var_names_union`, as used by `partial_derivative_inner` -/
theorem union_left (a b a' b' : DeepEx K) (va vb : K) (U : UF I T ρ C a b a' b' va vb) :
    RepS I T ρ a' va ∧ a'.vars = unionVars a.vars b.vars :=
  ⟨⟨by rw [U.av]; exact U.an, by rw [U.av]; exact U.strict, by rw [U.av]; exact U.sub, U.aA, U.af,
    by rw [U.av]; exact U.ae⟩, U.av⟩

/-- `operate_unary` on a represented operand -/
theorem gunary (a r : DeepEx K) (repr : Str) (u : Nat) (va : K) (hu : findUnaryOp t repr = .ok u)
    (ha : Rep I T ρ a va) (h : a.operateUnary I t repr = .ok r) :
    Rep I T ρ r (I.un u va) ∧ r.vars = a.vars := by
  have hfold := operateUnary_folded I t a r repr h ha.folded
  obtain ⟨L, an, and, asub, aA, af, ae⟩ := ha
  obtain ⟨nodes, ops, un, vars⟩ := a
  have hg := (named_iff_gen L _).1 an
  have hQ : ∀ vs, NQ L vs → vs.length ≤ L.length := fun vs hv => hv
  have hsa := shape_of_gen L ρ hQ _ hg
  have hg1 : GenEx (NQ L) (NV L) (DeepEx.mk nodes ops (u :: un) vars) := by
    rw [GenEx] at hg ⊢; exact hg
  have hs1 : (DeepEx.mk nodes ops (u :: un) vars).Shape (L.map ρ).length := by
    rw [DeepEx.Shape] at hsa ⊢; exact hsa
  have hA1 : (DeepEx.mk nodes ops (u :: un) vars).Assoc I := by
    rw [DeepEx.Assoc] at aA ⊢; exact aA
  obtain ⟨r', c1, c2, c3, c4⟩ := C02.deep_compile_sound I _ (L.map ρ) hs1 hA1
  unfold DeepEx.operateUnary at h
  rw [hu] at h
  simp only [DeepEx.nodes, DeepEx.ops, DeepEx.un, DeepEx.vars] at h
  rw [c1] at h
  cases h
  obtain ⟨g, hv⟩ := compile_gen I (NQ L) (NV L) _ r c1 hg1 (shape_len r c2)
  rw [liftNodes_vars_of_un] at hv
  have hrv : r.vars = vars := hv
  refine ⟨⟨L, (named_iff_gen L r).2 g, by rw [hrv]; exact and, by rw [hrv]; exact asub, c3, hfold, ?_⟩,
    hrv⟩
  rw [c4]
  exact eval_un_cons I _ nodes ops u un vars va ae

/-- replacing the unary chain of a represented group -/
theorem rep_un_change (nodes : List (DeepNode K)) (ops : List DBin) (un un' : List Nat)
    (vars : List Str) (L : List Str) (v0 : K)
    (hn : Named L (DeepEx.mk nodes ops un vars)) (hnd : vars.Nodup) (hsub : ∀ x ∈ vars, x ∈ T)
    (hA : (DeepEx.mk nodes ops un vars).Assoc I) (hf : Folded (DeepEx.mk nodes ops un' vars))
    (he : (DeepEx.mk nodes ops [] vars).evalRelaxed I (L.map ρ) = .ok v0) :
    Rep I T ρ (DeepEx.mk nodes ops un' vars) (applyUn I un' v0) := by
  refine ⟨L, ?_, hnd, hsub, ?_, hf, eval_un_change I _ nodes ops un' vars v0 he⟩
  · rw [Named] at hn ⊢; exact hn
  · rw [DeepEx.Assoc] at hA ⊢; exact hA

end

end Exmex.Diff
