/-
  Helper lemmas for C13Lex (the tokenizer on rendered text): how `lexLoop` walks over spaces,
  parentheses and one token; the plain (non-special head character) branch of `lexStep`;
  `findOps` on a table name followed by a separator; `identPrefixLen` on an identifier.
-/
import Exmex.Model.Lex
import Exmex.Spec.Surface
import Exmex.Proofs.LexLemmas
import Exmex.Props.C13
namespace Exmex.LexText

variable {α : Type} (I : Interp α) (t : Table) (lm : Str → Option Nat)

/-! ### the loop -/

/-- the characters covered by the previous token are skipped -/
theorem lexLoop_skip (pre rest : Str) (st : LexSt α) :
    lexLoop I t lm (pre ++ rest) pre.length st = lexLoop I t lm rest 0 st := by
  induction pre with
  | nil => rfl
  | cons x xs ih =>
    simp only [List.cons_append, List.length_cons, lexLoop]
    exact ih

/-- leading spaces are skipped -/
theorem lexLoop_spaces (n : Nat) (x : Str) (st : LexSt α) :
    lexLoop I t lm (spaces n ++ x) 0 st = lexLoop I t lm x 0 st := by
  induction n with
  | zero => simp [spaces]
  | succ n ih =>
    have e : spaces (n + 1) ++ x = ' ' :: (spaces n ++ x) := by
      simp [spaces, List.replicate_succ]
    rw [e, lexLoop]
    simpa using ih

/-- one token: the step at its head, then its remaining characters are skipped -/
theorem lexLoop_step (c : Char) (cs rest : Str) (st st' : LexSt α) (hc : c ≠ ' ')
    (h : lexStep I t lm (c :: cs ++ rest) st = .ok (cs.length + 1, st')) :
    lexLoop I t lm (c :: cs ++ rest) 0 st = lexLoop I t lm rest 0 st' := by
  have hc' : (c == ' ') = false := by simpa using hc
  rw [List.cons_append] at h ⊢
  rw [lexLoop]
  simp only [hc', h]
  simp only [Bool.false_eq_true, if_false, Nat.add_one_ne_zero, Nat.add_sub_cancel]
  exact lexLoop_skip I t lm cs rest st'

theorem lexLoop_popen (x : Str) (res : List (Tok α)) (owed : List Int) (d : Int) (dp : Bool) :
    lexLoop I t lm ('(' :: x) 0 ⟨res, owed, d, dp⟩ = lexLoop I t lm x 0 ⟨res ++ [.popen], owed, d + 1, dp⟩ := by
  have h := lexLoop_step I t lm '(' [] x ⟨res, owed, d, dp⟩ ⟨res ++ [.popen], owed, d + 1, dp⟩ (by decide)
    (by simp [lexStep])
  simpa using h

/-- a `)` at positive depth: the "unmatched closing parenthesis" flag is unchanged -/
theorem lexLoop_pclose (x : Str) (res : List (Tok α)) (d : Int) (dp : Bool) (hd : 0 < d) :
    lexLoop I t lm (')' :: x) 0 ⟨res, [], d, dp⟩ = lexLoop I t lm x 0 ⟨res ++ [.pclose], [], d - 1, dp⟩ := by
  have hd' : ¬ (d - 1 < 0) := by omega
  have h := lexLoop_step I t lm ')' [] x ⟨res, [], d, dp⟩ ⟨res ++ [.pclose], [], d - 1, dp⟩ (by decide)
    (by simp [lexStep, hd'])
  simpa using h

/-! ### the plain branch of `lexStep` -/

/-- at a head character that is no parenthesis, comma or brace, `lexStep` tries the literal
    matcher first … -/
theorem lexStep_lit (c : Char) (cs : Str) (st : LexSt α)
    (hc : (c == '(' || c == ')' || c == ',' || c == '{' || c == ' ') = false)
    (n : Nat) (a : α) (hlm : lm (c :: cs) = some n) (hv : I.ofLit ((c :: cs).take n) = some a) :
    lexStep I t lm (c :: cs) st = .ok (n, { st with res := st.res ++ [.num a] }) := by
  simp only [Bool.or_eq_false_iff] at hc
  obtain ⟨⟨⟨⟨h1, h2⟩, h3⟩, h4⟩, _⟩ := hc
  simp only [lexStep, h1, h2, h3, h4, Bool.false_eq_true, if_false, hlm, hv]

/-- … then the operators … -/
theorem lexStep_op (c : Char) (cs : Str) (st : LexSt α)
    (hc : (c == '(' || c == ')' || c == ',' || c == '{' || c == ' ') = false)
    (idx : Nat) (op : OpSpec) (hlm : lm (c :: cs) = none) (hf : findOps t (c :: cs) = some (idx, op)) :
    lexStep I t lm (c :: cs) st = .ok (op.repr.length,
      { st with res := st.res ++ [if op.const then .num (I.const idx) else .op idx] }) := by
  simp only [Bool.or_eq_false_iff] at hc
  obtain ⟨⟨⟨⟨h1, h2⟩, h3⟩, h4⟩, _⟩ := hc
  simp only [lexStep, h1, h2, h3, h4, Bool.false_eq_true, if_false, hlm, hf]

/-- … then an identifier -/
theorem lexStep_ident (c : Char) (cs : Str) (st : LexSt α)
    (hc : (c == '(' || c == ')' || c == ',' || c == '{' || c == ' ') = false)
    (n : Nat) (hlm : lm (c :: cs) = none) (hf : findOps t (c :: cs) = none)
    (hid : identPrefixLen (c :: cs) = some n) :
    lexStep I t lm (c :: cs) st = .ok (n, { st with res := st.res ++ [.var ((c :: cs).take n)] }) := by
  simp only [Bool.or_eq_false_iff] at hc
  obtain ⟨⟨⟨⟨h1, h2⟩, h3⟩, h4⟩, _⟩ := hc
  simp only [lexStep, h1, h2, h3, h4, Bool.false_eq_true, if_false, hlm, hf, hid]

/-! ### identifiers -/

theorem isIdentExact_snoc_false (r : Str) (c : Char) (hc : isIdentCont c = false) (hr : r ≠ []) :
    isIdentExact (r ++ [c]) = false := by
  cases r with
  | nil => exact absurd rfl hr
  | cons x xs =>
    simp only [List.cons_append, isIdentExact, List.all_append, List.all_cons, List.all_nil, hc]
    simp

theorem takeWhile_append_of_all {p : Char → Bool} (xs rest : Str) (hxs : xs.all p = true)
    (hrest : rest = [] ∨ ∃ c cs, rest = c :: cs ∧ p c = false) :
    (xs ++ rest).takeWhile p = xs := by
  induction xs with
  | nil =>
    rcases hrest with rfl | ⟨c, cs, rfl, hc⟩
    · rfl
    · simp [hc]
  | cons x xs ih =>
    simp only [List.all_cons, Bool.and_eq_true] at hxs
    simp only [List.cons_append, List.takeWhile_cons, hxs.1, if_true]
    rw [ih hxs.2]

theorem identPrefixLen_ident (x rest : Str) (hid : isIdentExact x = true)
    (hrest : rest = [] ∨ ∃ c cs, rest = c :: cs ∧ isIdentCont c = false) :
    identPrefixLen (x ++ rest) = some x.length := by
  cases x with
  | nil => simp [isIdentExact] at hid
  | cons c cs =>
    simp only [isIdentExact, Bool.and_eq_true] at hid
    simp only [List.cons_append, identPrefixLen, hid.1, if_true,
      takeWhile_append_of_all cs rest hid.2 hrest, List.length_cons]
    congr 1
    omega

/-- an identifier start is none of the special characters -/
theorem not_special_of_identStart (c : Char) (h : isIdentStart c = true) :
    (c == '(' || c == ')' || c == ',' || c == '{' || c == ' ') = false := by
  cases hs : (c == '(' || c == ')' || c == ',' || c == '{' || c == ' ') with
  | false => rfl
  | true =>
    simp only [Bool.or_eq_true, beq_iff_eq] at hs
    rcases hs with (((rfl | rfl) | rfl) | rfl) | rfl <;> revert h <;> decide

/-! ### `findOps` on a table name followed by a separator -/

theorem prefix_of_prefix_append_sep (p r rest : Str) (h : p <+: r ++ rest)
    (hrest : rest = [] ∨ ∃ c cs, rest = c :: cs ∧ c ∉ p) : p <+: r := by
  rcases hrest with rfl | ⟨c, cs, rfl, hc⟩
  · simpa using h
  · rcases Nat.lt_or_ge r.length p.length with hlt | hle
    · exfalso
      have h2 : r ++ [c] <+: r ++ c :: cs := by
        have : r ++ c :: cs = (r ++ [c]) ++ cs := by simp
        rw [this]; exact List.prefix_append _ _
      have h3 : r ++ [c] <+: p :=
        List.prefix_of_prefix_length_le h2 h (by simp; omega)
      exact hc (h3.subset (by simp))
    · exact List.prefix_of_prefix_length_le h (List.prefix_append _ _) hle

/-- a table name followed by the end of the text or by a character that is no identifier
    character and occurs in no table name is found as that table entry, when names are distinct -/
theorem findOps_name_sep (i : Nat) (o : OpSpec) (rest : Str)
    (hi : t[i]? = some o) (hne : o.repr ≠ [])
    (hnd : (t.map (·.repr)).Nodup)
    (hsep : rest = [] ∨ ∃ c cs, rest = c :: cs ∧ isIdentCont c = false ∧ ∀ p ∈ t, c ∉ p.repr) :
    findOps t (o.repr ++ rest) = some (i, o) := by
  have hm : opMatches (o.repr ++ rest) (i, o) = true := by
    rw [opMatches_iff, List.drop_left]
    refine ⟨List.isPrefixOf_iff_prefix.2 (List.prefix_append _ _), Or.inr ?_⟩
    rcases hsep with rfl | ⟨c, cs, rfl, hc, -⟩
    · exact Or.inl rfl
    · exact Or.inr ⟨c, cs, rfl, isIdentExact_snoc_false _ c hc hne⟩
  cases h : findOps t (o.repr ++ rest) with
  | none =>
    rw [findOps_eq] at h
    have := List.find?_eq_none.1 h (i, o) ((mem_sortedOps t i o).2 hi)
    exact absurd hm this
  | some q =>
    obtain ⟨j, op'⟩ := q
    obtain ⟨hj, hpre, -⟩ := C13.findOps_sound t _ j op' h
    have hmem : op' ∈ t := List.mem_of_getElem? hj
    have hp : op'.repr <+: o.repr := by
      apply prefix_of_prefix_append_sep _ _ rest (List.isPrefixOf_iff_prefix.1 hpre)
      rcases hsep with rfl | ⟨c, cs, rfl, -, hc⟩
      · exact Or.inl rfl
      · exact Or.inr ⟨c, cs, rfl, hc op' hmem⟩
    have hnlt := findOps_first t _ j op' h i o hi hm
    have hlen : op'.repr.length = o.repr.length := by
      rcases Nat.lt_or_ge op'.repr.length o.repr.length with hlt | hge
      · rw [strLt_of_prefix_of_length_lt hp hlt] at hnlt
        cases hnlt
      · exact Nat.le_antisymm hp.length_le hge
    have hrepr : op'.repr = o.repr := hp.eq_of_length hlen
    have hji : j = i := by
      have hjl : j < (t.map (·.repr)).length := by
        rw [List.length_map]
        exact (List.getElem?_eq_some_iff.1 hj).1
      apply (List.getElem?_inj hjl hnd).1
      rw [List.getElem?_map, List.getElem?_map, hj, hi]
      simp [hrepr]
    subst hji
    rw [hi] at hj
    rw [Option.some.inj hj]

end Exmex.LexText
