/-
  Why `C02.compile_sound` (which assumes `BumpOK`, i.e. `UnaryOK`) does not cover every accepted
  text, checked by kernel evaluation of the model (`decide +kernel`), with the table and the
  interpretation of `Exmex.AnyTextCex` (`s x = 10x + 1`, `+` = index 0, `s` = index 4).

  The sloppy text `+ s(x+2)(3+4)` is accepted. The token walker builds

      nodes  x  2  3  4        operators  `+`(prio 1)  `s∘+`(prio 1001)  `+`(prio 1001)

  The unary chain `s` sits on operator 1 although operator 2 has the same priority and no lower
  operator separates them: `UnaryOK` fails. Operator 2 stands between two numbers, is flagged
  commutative and has the table index of operator 1, so it gets the "+5" and is applied first:

      FlatEx (folded and unfolded)   x + s(2 + (3 + 4))      x = 5:  96
      priority order without "+5"    x + (s(2 + 3) + 4)      x = 5:  60

  So on such texts the "+5" preference is visible in the value — but folding is still invisible
  (`C02.parse_fold_invisible_any`, via `FoldAny.compile_any`).
-/
import Exmex.Proofs.AnyTextCex
import Exmex.Proofs.FlattenDefs
namespace Exmex.FoldAnyCex
open Exmex Exmex.AnyTextCex

def text : Str := "+ s(x+2)(3+4)".toList

def opsOf (r : Res (FlatEx Int)) : List FlatOp :=
  match r with
  | .ok f => f.ops
  | .error _ => []

theorem ops_eq : opsOf (Flat.parseWoCompile II tbl isNumericText text) =
    [{ idx := 0, prio := 1, comm := true }, { un := [4], idx := 0, prio := 1001, comm := true },
     { idx := 0, prio := 1001, comm := true }] := by
  decide +kernel

/-- the walker's output for an accepted sloppy text violates `UnaryOK` -/
theorem not_unaryOK : ¬ UnaryOK (opsOf (Flat.parseWoCompile II tbl isNumericText text)) := by
  rw [ops_eq]
  intro h
  obtain ⟨m, h1, h2, -⟩ := h 1 2 (by decide) (by decide) (by decide) rfl
  omega

/-- folded, unfolded and re-folded expression agree (96 at `x = 5`); the evaluation by priority
    alone would give 60 -/
theorem values :
    flatValue (Flat.parseWoCompile II tbl isNumericText text) [5] = some ([['x']], 96) ∧
    flatValue (Flat.parse II tbl isNumericText text) [5] = some ([['x']], 96) ∧
    flatValue (match Flat.parse II tbl isNumericText text with
      | .ok f => f.compile II
      | .error e => .error e) [5] = some ([['x']], 96) ∧
    splitEval (FlatOp.act II) (fun o => o.prio) 3 [5, 2, 3, 4]
      (opsOf (Flat.parseWoCompile II tbl isNumericText text)) = some 60 := by
  decide +kernel

end Exmex.FoldAnyCex
