/-
  C06 (no panic): the flat token walker, `FlatEx::compile` and flat evaluation.
-/
import Exmex.Proofs.TotalLex
import Exmex.Proofs.ReachParse
import Exmex.Proofs.CompileLoop
import Exmex.Props.C14
import Exmex.Props.C15
namespace Exmex.Total
open Exmex.ReachLemmas

section
variable {K : Type}

/-- an operator token is never the last token -/
def NoLastOp (toks : List (Tok K)) : Prop :=
  ∀ i o, toks[i]? = some (.op o) → i + 1 < toks.length

theorem checkPre_noLastOp (t : Table) (toks : List (Tok K)) (h : checkPre t toks = .ok ()) :
    NoLastOp toks := by
  intro i o hi
  have hlt : i < toks.length := (List.getElem?_eq_some_iff.1 hi).1
  rcases Nat.lt_or_ge (i + 1) toks.length with hl | hl
  · exact hl
  · exfalso
    have hie : toks.length - 1 = i := by omega
    unfold checkPre at h
    split at h
    · cases h
    split at h
    · cases h
    split at h
    · cases h
    split at h
    · cases h
    split at h
    · cases h
    rename_i hlast
    rw [List.getLast?_eq_getElem?, hie, hi] at hlast
    simp [isOpTok] at hlast

theorem findVarIndex_post (name : Str) (vars : List Str) (h : name ∈ vars) :
    Post (findVarIndex name vars) (fun vi => vars[vi]? = some name) := by
  apply post_of_ok
  · unfold findVarIndex
    cases hj : vars.idxOf? name with
    | none =>
      rw [List.idxOf?_eq_none_iff] at hj
      exact (hj h).elim
    | some j => trivial
  · intro vi hvi
    exact findVarIndex_spec name vars vi hvi

theorem isBinaryAt_np (t : Table) (toks : List (Tok K)) (o i : Nat) : NP (isBinaryAt t toks o i) := by
  unfold isBinaryAt
  exact isOperatorBinary_np t o _

theorem unpackUnary_np (t : Table) (toks : List (Tok K)) (i : Nat) (hi : i < toks.length) :
    NP (unpackUnary t toks i) := by
  obtain ⟨tk, htk⟩ : ∃ tk, toks[i]? = some tk := ⟨_, List.getElem?_eq_getElem hi⟩
  unfold unpackUnary
  rw [htk]
  cases tk with
  | op o =>
    dsimp only
    have := isBinaryAt_np t toks o i
    split
    · rename_i e he
      rw [he] at this
      exact this
    · trivial
    · split <;> trivial
  | num a => trivial
  | var nm => trivial
  | popen => trivial
  | pclose => trivial

theorem unariesEndingAt_np (t : Table) (toks : List (Tok K)) :
    ∀ i, i < toks.length → NP (unariesEndingAt t toks i)
  | 0, hi => by
    rw [unariesEndingAt]
    have := unpackUnary_np t toks 0 hi
    split
    · rename_i e he
      rw [he] at this
      exact this
    · trivial
    · trivial
  | i + 1, hi => by
    rw [unariesEndingAt]
    have := unpackUnary_np t toks (i + 1) hi
    split
    · rename_i e he
      rw [he] at this
      exact this
    · trivial
    · have ih := unariesEndingAt_np t toks i (by omega)
      split
      · rename_i e he
        rw [he] at ih
        exact ih
      · trivial

theorem createNode_post (t : Table) (toks : List (Tok K)) (i : Nat) (kind : NodeKind K)
    (hi : i ≤ toks.length) : Post (createNode t toks i kind) (fun n => n.kind = kind) := by
  unfold createNode
  split
  · rename_i hpos
    split
    · rename_i o _
      have := isBinaryAt_np t toks o (i - 1)
      split
      · rename_i e he
        rw [he] at this
        exact this
      · rfl
      · have hu := unariesEndingAt_np t toks (i - 1) (by omega)
        split
        · rename_i e he
          rw [he] at hu
          exact hu
        · rfl
    · rfl
  · rfl

/-- the part of the walker state that matters for panics -/
structure WInv (toks : List (Tok K)) (n : Nat) (st : MakeSt K) : Prop where
  stack : ∀ p ∈ st.ustack, p.1 < toks.length
  vidx : ∀ nd ∈ st.nodes, ∀ j, nd.kind = .var j → j < n

theorem popUnaryStack_spec (stack : List (Nat × Int)) (depth : Int) :
    (∀ ui, (popUnaryStack stack depth).1 = some ui → ∃ d, (ui, d) ∈ stack) ∧
      ∀ p ∈ (popUnaryStack stack depth).2, p ∈ stack := by
  unfold popUnaryStack
  split
  · rename_i i d hl
    split
    · refine ⟨?_, fun p hp => List.dropLast_subset _ hp⟩
      intro ui hui
      cases hui
      exact ⟨d, List.mem_of_getLast? hl⟩
    · exact ⟨fun ui hui => (by cases hui), fun p hp => hp⟩
  · exact ⟨fun ui hui => (by cases hui), fun p hp => hp⟩

theorem makeStep_post (t : Table) (toks : List (Tok K)) (vars : List Str) (i : Nat) (tk : Tok K)
    (st : MakeSt K) (hi : toks[i]? = some tk) (hlast : NoLastOp toks)
    (hvars : ∀ nm, Tok.var nm ∈ toks → nm ∈ vars) (hst : WInv toks vars.length st) :
    Post (makeStep t toks vars i tk st) (WInv toks vars.length) := by
  have hlt : i < toks.length := (List.getElem?_eq_some_iff.1 hi).1
  have hpush : ∀ n : FlatNode K, (∀ j, n.kind = .var j → j < vars.length) →
      WInv toks vars.length { st with nodes := st.nodes ++ [n] } := by
    intro n hn
    refine ⟨hst.stack, ?_⟩
    intro nd hnd j hj
    rcases List.mem_append.1 hnd with h | h
    · exact hst.vidx nd h j hj
    · rw [List.mem_singleton] at h
      subst h
      exact hn j hj
  have hpop := popUnaryStack_spec st.ustack (st.depth - 1)
  unfold makeStep
  split
  · -- op
    rename_i o
    have hb := isBinaryAt_np t toks o i
    split
    · rename_i e he
      rw [he] at hb
      exact hb
    · split
      · trivial
      · exact ⟨hst.stack, hst.vidx⟩
    · have hnext := hlast i o hi
      obtain ⟨tk', htk'⟩ : ∃ tk', toks[i + 1]? = some tk' := ⟨_, List.getElem?_eq_getElem hnext⟩
      rw [htk']
      cases tk' with
      | pclose => trivial
      | popen =>
        refine ⟨?_, hst.vidx⟩
        intro p hp
        rcases List.mem_append.1 hp with h | h
        · exact hst.stack p h
        · rw [List.mem_singleton] at h
          subst h
          exact hlt
      | op o' => exact hst
      | num a => exact hst
      | var nm => exact hst
  · -- num
    rename_i a
    have hc := createNode_post t toks i (.num a) (by omega)
    split
    · rename_i e he
      rw [he] at hc
      exact hc
    · rename_i n hn
      rw [hn] at hc
      refine hpush n ?_
      intro j hj
      rw [show n.kind = .num a from hc] at hj
      cases hj
  · -- var
    rename_i name
    have hmem : name ∈ vars := hvars name (List.mem_of_getElem? hi)
    have hf := findVarIndex_post name vars hmem
    split
    · rename_i e he
      rw [he] at hf
      exact hf
    · rename_i vi hvi
      rw [hvi] at hf
      have hvl : vi < vars.length := (List.getElem?_eq_some_iff.1 hf).1
      have hc := createNode_post t toks i (.var vi) (by omega)
      split
      · rename_i e he
        rw [he] at hc
        exact hc
      · rename_i n hn
        rw [hn] at hc
        refine hpush n ?_
        intro j hj
        rw [show n.kind = .var vi from hc] at hj
        cases hj
        exact hvl
  · -- popen
    exact ⟨hst.stack, hst.vidx⟩
  · -- pclose
    split
    · split
      · trivial
      · rename_i last hlastn
        split
        rename_i closed stack' hcs
        have h1 : closed = (popUnaryStack st.ustack (st.depth - 1)).1 := by rw [hcs]
        have h2 : stack' = (popUnaryStack st.ustack (st.depth - 1)).2 := by rw [hcs]
        have hstack' : ∀ p ∈ stack', p.1 < toks.length := by
          intro p hp
          rw [h2] at hp
          exact hst.stack p (hpop.2 p hp)
        split
        · exact ⟨hstack', hst.vidx⟩
        · rename_i ui
          obtain ⟨d, hd⟩ := hpop.1 ui h1.symm
          have hu := unariesEndingAt_np t toks ui (hst.stack _ hd)
          split
          · rename_i e he
            rw [he] at hu
            exact hu
          · refine ⟨hstack', ?_⟩
            intro nd hnd j hj
            rcases List.mem_append.1 hnd with h | h
            · exact hst.vidx nd (List.dropLast_subset _ h) j hj
            · rw [List.mem_singleton] at h
              subst h
              exact hst.vidx last (List.mem_of_getLast? hlastn) j hj
    · split
      rename_i closed stack' hcs
      have h1 : closed = (popUnaryStack st.ustack (st.depth - 1)).1 := by rw [hcs]
      have h2 : stack' = (popUnaryStack st.ustack (st.depth - 1)).2 := by rw [hcs]
      have hstack' : ∀ p ∈ stack', p.1 < toks.length := by
        intro p hp
        rw [h2] at hp
        exact hst.stack p (hpop.2 p hp)
      split
      · exact ⟨hstack', hst.vidx⟩
      · rename_i ui
        obtain ⟨d, hd⟩ := hpop.1 ui h1.symm
        have hu := unariesEndingAt_np t toks ui (hst.stack _ hd)
        split
        · rename_i e he
          rw [he] at hu
          exact hu
        · exact ⟨hstack', hst.vidx⟩

theorem makeLoop_post (t : Table) (toks : List (Tok K)) (vars : List Str) (hlast : NoLastOp toks)
    (hvars : ∀ nm, Tok.var nm ∈ toks → nm ∈ vars) :
    ∀ (rest : List (Tok K)) (i : Nat) (st : MakeSt K), rest = toks.drop i →
      WInv toks vars.length st → Post (makeLoop t toks vars rest i st) (WInv toks vars.length)
  | [], _, st, _, hst => by rw [makeLoop]; exact hst
  | tk :: rest, i, st, hr, hst => by
    rw [makeLoop]
    have hi : toks[i]? = some tk := by
      have := congrArg (fun l => l[0]?) hr
      simp only [List.getElem?_cons_zero, List.getElem?_drop, Nat.add_zero] at this
      exact this.symm
    have hs := makeStep_post t toks vars i tk st hi hlast hvars hst
    split
    · rename_i e he
      rw [he] at hs
      exact hs
    · rename_i st' hst'
      rw [hst'] at hs
      refine makeLoop_post t toks vars hlast hvars rest (i + 1) st' ?_ hs
      have := congrArg List.tail hr
      simp only [List.tail_cons, List.tail_drop] at this
      exact this

/-- what matters about a flat expression for compilation and evaluation -/
structure FlatOK (f : FlatEx K) : Prop where
  len : f.nodes.length = f.ops.length + 1
  prio : f.prioIdx = prioIdxFlat f.ops f.nodes
  vidx : ∀ nd ∈ f.nodes, ∀ i, nd.kind = .var i → i < f.vars.length

theorem makeExpression_post (t : Table) (text : Str) (toks : List (Tok K)) (vars : List Str)
    (hlast : NoLastOp toks) (hvars : ∀ nm, Tok.var nm ∈ toks → nm ∈ vars) :
    Post (makeExpression t text toks vars) FlatOK := by
  unfold makeExpression
  have hl := makeLoop_post t toks vars hlast hvars toks 0 {} (by simp)
    ⟨fun _ h => (by cases h), fun _ h => (by cases h)⟩
  split
  · rename_i e he
    rw [he] at hl
    exact hl
  · rename_i st hst
    rw [hst] at hl
    split
    · trivial
    · rename_i hc
      refine ⟨?_, rfl, hl.vidx⟩
      show st.nodes.length = st.ops.length + 1
      simp at hc
      omega

theorem parseWoCompile_post (I : Interp K) (t : Table) (lm : Str → Option Nat) (text : Str) :
    Post (Flat.parseWoCompile I t lm text) FlatOK := by
  unfold Flat.parseWoCompile
  have ht := tokenize_np I t lm text
  split
  · rename_i e he
    rw [he] at ht
    exact ht
  · rename_i toks _
    have hc := checkPre_np t toks
    split
    · rename_i e he
      rw [he] at hc
      exact hc
    · rename_i hpre
      exact makeExpression_post t text toks _ (checkPre_noLastOp t toks hpre)
        (fun nm h => (mem_findVars toks nm).2 h)

theorem compile_post (I : Interp K) (f : FlatEx K) (hf : FlatOK f) : Post (f.compile I) FlatOK := by
  obtain ⟨st, hloop, hinv⟩ :=
    (CompileSound.init_inv I f hf.len (List.replicate f.vars.length I.dflt)
      (by simpa using hf.vidx)).loop
  have hcomp : f.compile I = .ok { f with
      nodes := st.nodes, ops := (CompileSound.remOf f.ops.length st.used).map (CompileSound.opAt f.ops),
      prioIdx := prioIdxFlat ((CompileSound.remOf f.ops.length st.used).map (CompileSound.opAt f.ops))
        st.nodes } := by
    have : f.compile I = match compileLoop I f.ops f.prioIdx f.prioIdx
        { nodes := CompileSound.litNodes I f.nodes,
          declined := List.replicate (CompileSound.litNodes I f.nodes).length false } with
      | .error e => .error e
      | .ok st =>
        .ok { f with nodes := st.nodes,
                     ops := (f.ops.zipIdx.filter (fun p => !st.used.contains p.2)).map (·.1),
                     prioIdx := prioIdxFlat
                       ((f.ops.zipIdx.filter (fun p => !st.used.contains p.2)).map (·.1))
                       st.nodes } := rfl
    rw [this, hf.prio, hloop]
    dsimp only
    rw [CompileSound.ops_filter_eq]
  rw [hcomp]
  refine ⟨?_, rfl, ?_⟩
  · show st.nodes.length = ((CompileSound.remOf f.ops.length st.used).map (CompileSound.opAt f.ops)).length + 1
    rw [List.length_map]
    exact hinv.hlen
  · have := hinv.vidx
    simpa using this

theorem parse_post (I : Interp K) (t : Table) (lm : Str → Option Nat) (text : Str) :
    Post (Flat.parse I t lm text) FlatOK := by
  unfold Flat.parse
  have hp := parseWoCompile_post I t lm text
  split
  · rename_i e he
    rw [he] at hp
    exact hp
  · rename_i f hf
    rw [hf] at hp
    exact compile_post I f hp

/-! ### evaluation -/

theorem nodeValues_some (I : Interp K) (nodes : List (FlatNode K)) (vals : List K)
    (h : ∀ nd ∈ nodes, ∀ i, nd.kind = .var i → i < vals.length) :
    ∃ numbers, nodeValues I nodes vals = some numbers ∧ numbers.length = nodes.length := by
  induction nodes with
  | nil => exact ⟨[], rfl, rfl⟩
  | cons nd rest ih =>
    obtain ⟨ns, hns, hl⟩ := ih (fun n hn => h n (List.mem_cons_of_mem _ hn))
    unfold nodeValues at hns ⊢
    rw [List.mapM_cons]
    cases hk : nd.kind with
    | num a =>
      refine ⟨applyUn I nd.un a :: ns, ?_, by simp [hl]⟩
      simp only [hns]
      rfl
    | var i =>
      have hi := h nd List.mem_cons_self i hk
      refine ⟨applyUn I nd.un vals[i] :: ns, ?_, by simp [hl]⟩
      simp only [hns, List.getElem?_eq_getElem hi]
      rfl

theorem evalNumbers_ok (I : Interp K) (f : FlatEx K) (hf : FlatOK f) (numbers : List K)
    (hl : numbers.length = f.nodes.length) : ∃ v, evalNumbers I numbers f.ops f.prioIdx = .ok v := by
  have hv : ValidOrder f.prioIdx f.ops.length := by
    rw [hf.prio]
    exact orderByKey_valid _ _
  obtain ⟨v, -, hv2⟩ := C14.evalNumbers_any_order I numbers f.ops f.prioIdx (by rw [hl, hf.len]) hv
  exact ⟨v, hv2⟩

theorem evalCloning_ok (I : Interp K) (f : FlatEx K) (hf : FlatOK f) (vals : List K)
    (hl : f.vars.length ≤ vals.length) : ∃ v, evalCloning I f vals = .ok v := by
  obtain ⟨numbers, hn, hnl⟩ := nodeValues_some I f.nodes vals
    (fun nd hnd i hi => Nat.lt_of_lt_of_le (hf.vidx nd hnd i hi) hl)
  obtain ⟨v, hv⟩ := evalNumbers_ok I f hf numbers hnl
  exact ⟨v, by unfold evalCloning; rw [hn]; exact hv⟩

theorem eval_np (I : Interp K) (f : FlatEx K) (hf : FlatOK f) (vals : List K) :
    NP (f.eval I vals) := by
  unfold FlatEx.eval
  split
  · trivial
  · rename_i hne
    have hl : f.vars.length = vals.length := by simpa using hne
    obtain ⟨v, hv⟩ := evalCloning_ok I f hf vals (by omega)
    rw [hv]
    trivial

theorem evalRelaxed_np (I : Interp K) (f : FlatEx K) (hf : FlatOK f) (vals : List K) :
    NP (f.evalRelaxed I vals) := by
  unfold FlatEx.evalRelaxed
  split
  · trivial
  · rename_i hne
    obtain ⟨v, hv⟩ := evalCloning_ok I f hf vals (by omega)
    rw [hv]
    trivial

theorem evalConsuming_np (I : Interp K) (f : FlatEx K) (hf : FlatOK f) (vals : List K) :
    NP (f.evalConsuming I vals) := by
  rw [C15.consuming_eq_cloning I f vals hf.vidx]
  have := eval_np I f hf vals
  cases h : f.eval I vals with
  | ok v => trivial
  | error e =>
    rw [h] at this
    exact this

end
end Exmex.Total
