/-
  Shared vocabulary for the tracker refinement (C14): what `eval_binary` needs from a tracker,
  relative to the reference tracker `Flags` (a plain list of "consumed" flags).
-/
import Exmex.Model.Tracker
namespace Exmex

/-- A tracker implementation `T` refines the reference flags under the relation `R`. -/
structure Refines {τ : Type} (T : TrackerOps τ) (R : τ → Flags → Prop) : Prop where
  /-- distance to the nearest unconsumed slot at or below `idx`, if there is one -/
  prev : ∀ t f idx, R t f → idx < f.length → (∃ j, j ≤ idx ∧ f[j]? = some false) →
    T.getPrevious t idx = some (f.getPrevious idx)
  /-- distance to the nearest unconsumed slot above `idx`, if there is one -/
  next : ∀ t f idx, R t f → (∃ j, idx < j ∧ f[j]? = some false) →
    T.getNext t idx = some (f.getNext idx)
  /-- marking a slot as consumed -/
  ignore : ∀ t f idx, R t f → idx < f.length →
    ∃ t', T.ignore t idx = some t' ∧ R t' (f.ignore idx)

/-- one machine word tracks at most 64 slots; bit `i` = slot `i` consumed -/
def WordRel (w : Word) (f : Flags) : Prop :=
  f.length ≤ 64 ∧ ∀ i, i < 64 → w.getLsbD i = f.getD i false

/-- several words: slot `i` is bit `i % 64` of word `i / 64` -/
def WordsRel (ws : Words) (f : Flags) : Prop :=
  f.length ≤ 64 * ws.length ∧
    ∀ i, i < 64 * ws.length → (ws.getD (i / 64) 0#64).getLsbD (i % 64) = f.getD i false

end Exmex
