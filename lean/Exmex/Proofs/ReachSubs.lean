/-
  `Reach.reach_inv`: substitution preserves the invariant of reachable expressions.
-/
import Exmex.Proofs.ReachApi
namespace Exmex.ReachLemmas
open Exmex.C10 Exmex.C05 Exmex.Shortcut Exmex.CalcLemmas Exmex.DeepCompile Exmex.Diff Exmex.Subs

section
variable {K : Type}

theorem reset_list_mem (all : List Str) : ∀ (l l' : List (DeepNode K)),
    resetVarsList all l = some l' → ∀ nd' ∈ l', ∃ nd ∈ l, nd.resetVarsNode all = some nd'
  | [], l', h => by
    rw [resetVarsList] at h
    cases h
    intro nd' hnd'
    cases hnd'
  | nd :: rest, l', h => by
    rw [resetVarsList] at h
    cases h1 : nd.resetVarsNode all with
    | none => rw [h1] at h; simp at h
    | some nd1 =>
      cases h2 : resetVarsList all rest with
      | none => rw [h1, h2] at h; simp at h
      | some rest' =>
        rw [h1, h2] at h
        simp only [] at h
        cases h
        intro nd' hnd'
        rcases List.mem_cons.1 hnd' with rfl | hnd'
        · exact ⟨nd, List.mem_cons_self, h1⟩
        · obtain ⟨x, hx1, hx2⟩ := reset_list_mem all rest rest' h2 nd' hnd'
          exact ⟨x, List.mem_cons_of_mem _ hx1, hx2⟩

theorem reset_nodes (all : List Str) (e e' : DeepEx K) (h : e.resetVars all = some e') :
    ∀ nd' ∈ e'.nodes, ∃ nd ∈ e.nodes, nd.resetVarsNode all = some nd' := by
  obtain ⟨nodes, ops, un, vars⟩ := e
  rw [DeepEx.resetVars] at h
  cases h1 : resetVarsList all nodes with
  | none => rw [h1] at h; cases h
  | some ns' =>
    rw [h1] at h
    cases h
    exact reset_list_mem all nodes ns' h1

theorem weak_reset_node (all : List Str) (nd nd' : DeepNode K)
    (h : nd.resetVarsNode all = some nd') (hw : WeakNode nd) : WeakNode nd' := by
  cases nd with
  | num a =>
    rw [DeepNode.resetVarsNode] at h
    cases h
    trivial
  | var i nm =>
    rw [DeepNode.resetVarsNode] at h
    cases hj : all.idxOf? nm with
    | none => rw [hj] at h; cases h
    | some j =>
      rw [hj] at h
      cases h
      trivial
  | expr e =>
    rw [DeepNode.resetVarsNode] at h
    cases he : e.resetVars all with
    | none => rw [he] at h; cases h
    | some e' =>
      rw [he] at h
      cases h
      exact folded_reset all e e' he hw

theorem weak_reset (all : List Str) (e e' : DeepEx K) (h : e.resetVars all = some e')
    (hw : weakList e.nodes) : weakList e'.nodes := by
  intro nd' hnd'
  obtain ⟨nd, h1, h2⟩ := reset_nodes all e e' h nd' hnd'
  exact weak_reset_node all nd nd' h2 (hw nd h1)

/-- table operators, nested groups `Folded` -/
def XN (t : Table) (nd : DeepNode K) : Prop := OpN (POt t) (PUt t) TT TT nd ∧ WeakNode nd

set_option linter.unusedSectionVars false

variable (I : Interp K) (t : Table) (σ : Str → Option (DeepEx K))
  (hσ : ∀ v r, σ v = some r → OpE (POt t) (PUt t) TT TT r ∧ Folded r)
include hσ

mutual
theorem subs_x_ex : ∀ e r : DeepEx K, OpE (POt t) (PUt t) TT TT e → weakList e.nodes →
    e.subs I σ = .ok r → OpE (POt t) (PUt t) TT TT r ∧ Folded r
  | .mk nodes ops un vars, r, ho, hw, h => by
    cases hl : subsList I σ nodes with
    | error err =>
      rw [DeepEx.subs, hl] at h
      cases h
    | ok p =>
      obtain ⟨ns, names⟩ := p
      rw [subs_mk I σ nodes ops un vars ns names hl] at h
      split at h
      · cases h
      rename_i e' hre
      rw [OpE] at ho
      have hnx : ∀ nd ∈ nodes, XN t nd := fun nd hnd =>
        ⟨(opList_iff _ _ _ _ nodes).1 ho.2.2.2 nd hnd, hw nd hnd⟩
      have hx := subs_x_ls nodes ns names hnx hl
      have o0 : OpE (POt t) (PUt t) TT TT (DeepEx.mk ns ops un []) := by
        rw [OpE]
        exact ⟨ho.1, ho.2.1, trivial, (opList_iff _ _ _ _ ns).2 (fun nd hnd => (hx nd hnd).1)⟩
      have o1 := reset_op _ _ TT TT _ _ trivial _ e' o0 hre
      have o2 := (compile_op _ _ _ _ I e' r h o1).1
      have w1 : weakList e'.nodes :=
        weak_reset _ _ e' hre (fun nd hnd => (hx nd hnd).2)
      exact ⟨o2, compile_folded I e' r h w1⟩
theorem subs_x_nd : ∀ (nd nd' : DeepNode K) (vs : List Str), XN t nd →
    subsHere I σ nd = .ok (nd', vs) → XN t nd'
  | .num a, nd', vs, hx, h => by
    rw [subsHere] at h
    cases h
    exact hx
  | .var i v, nd', vs, hx, h => by
    rw [subsHere] at h
    cases hs : σ v with
    | none =>
      rw [hs] at h
      cases h
      exact hx
    | some r =>
      rw [hs] at h
      cases h
      obtain ⟨h1, h2⟩ := hσ v r hs
      exact ⟨by rw [OpN]; exact h1, h2⟩
  | .expr e, nd', vs, hx, h => by
    rw [subsHere] at h
    cases he : e.subs I σ with
    | error err => rw [he] at h; cases h
    | ok e' =>
      rw [he] at h
      cases h
      have ho : OpE (POt t) (PUt t) TT TT e := by
        have := hx.1
        rw [OpN] at this
        exact this
      have hf : Folded e := hx.2
      obtain ⟨h1, h2⟩ := subs_x_ex e e' ho (weakList_of_folded _ (folded_nodes e hf)) he
      exact ⟨by rw [OpN]; exact h1, h2⟩
theorem subs_x_ls : ∀ (l ns : List (DeepNode K)) (names : List Str), (∀ nd ∈ l, XN t nd) →
    subsList I σ l = .ok (ns, names) → ∀ nd ∈ ns, XN t nd
  | [], ns, names, _, h => by
    have h0 : subsList I σ ([] : List (DeepNode K)) = .ok ([], []) := rfl
    rw [h0] at h
    cases h
    intro nd hnd
    cases hnd
  | nd :: rest, ns, names, hx, h => by
    rw [subsList_cons] at h
    cases h1 : subsHere I σ nd with
    | error err => rw [h1] at h; cases h
    | ok p1 =>
      obtain ⟨nd', vs⟩ := p1
      cases h2 : subsList I σ rest with
      | error err => rw [h1, h2] at h; cases h
      | ok p2 =>
        obtain ⟨ns', ws⟩ := p2
        rw [h1, h2] at h
        simp only [] at h
        cases h
        intro x hxm
        rcases List.mem_cons.1 hxm with rfl | hxm
        · exact subs_x_nd nd _ vs (hx nd List.mem_cons_self) h1
        · exact subs_x_ls rest ns' ws (fun y hy => hx y (List.mem_cons_of_mem _ hy)) h2 x hxm
end

end

section
variable {K : Type} (I : Interp K) (t : Table) (hA : C01.FlaggedAssoc I t)
include hA

/-- **`subs` preserves the invariant** -/
theorem good_subs (a r : DeepEx K) (σ : Str → Option (DeepEx K)) (ha : Good t a)
    (hσ : ∀ v e, σ v = some e → Good t e) (h : a.subs I σ = .ok r) : Good t r := by
  have hAa := so_assoc I t hA a.vars a ha.oi.so
  obtain ⟨d', -, h1, h2, -, h4, -, -, -⟩ := subs_main I a σ ha.named hAa
    (fun v e he => ⟨(hσ v e he).named, so_assoc I t hA e.vars e (hσ v e he).oi.so⟩)
    (fun _ => I.dflt)
  rw [h] at h1
  cases h1
  have hforget : ∀ (T : List Str) (e : DeepEx K), SO t T e → OpE (POt t) (PUt t) TT TT e :=
    fun T e he => opE_mono (fun _ h => h) (fun _ h => h) (fun _ _ => trivial) (fun _ _ => trivial) e he
  obtain ⟨o, f⟩ := subs_x_ex I t σ
    (fun v e he => ⟨hforget _ e (hσ v e he).oi.so, (hσ v e he).oi.folded⟩) a r
    (hforget _ a ha.oi.so) (weakList_of_folded _ (folded_nodes a ha.oi.folded)) h
  have hnd : r.vars.Nodup := nodup_of_strict _ h4
  exact ⟨named_of_full _ r h2, h4,
    ⟨⟨r.vars, named_of_full _ r h2⟩, so_upgrade t r.vars r.vars hnd (fun _ hx => hx) TT TT r h2 o, f⟩,
    ss_of_gen _ _ r h2⟩

end
end Exmex.ReachLemmas
