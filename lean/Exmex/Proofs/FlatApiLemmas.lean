/-
  Helper lemmas for Props/FlatApi.lean: `to_deepex` of any flat expression with table operators
  and strictly sorted variables satisfies `ReachLemmas.Good` (generalisation of
  `ReachLemmas.good_fromFlat`), and the unary operators of a flattened deep expression are the
  unary operators stored in it.
-/
import Exmex.Model.FlatCalc
import Exmex.Props.ReachCorollaries
import Exmex.Props.C03Conv
namespace Exmex.FlatApiLemmas
open Exmex.C10 Exmex.C05 Exmex.Shortcut Exmex.CalcLemmas Exmex.DeepCompile Exmex.Diff
open Exmex.ReachLemmas

section
variable {K : Type} (I : Interp K) (t : Table) (hA : C01.FlaggedAssoc I t) (hP : TblPrio t)

include hA hP in
/-- `good_fromFlat` for any flat expression (not only parser output) -/
theorem good_toDeep (f : FlatEx K) (d : DeepEx K)
    (hstrict : f.vars.Pairwise (fun x y => strLt x y = true))
    (hops : ∀ o ∈ f.ops, ReachFlat.OpOK t o) (hnodes : ∀ n ∈ f.nodes, ReachFlat.NdOK t n)
    (hd : f.toDeep I t = .ok d) : Good t d := by
  have hnd : f.vars.Nodup := nodup_of_strict _ hstrict
  unfold FlatEx.toDeep at hd
  split at hd
  · cases hd
  split at hd
  · cases hd
  rename_i dn hconv
  split at hd
  · cases hd
  rename_i dn' tr' hloop
  split at hd
  · cases hd
  rename_i final rest
  split at hd
  · cases hd
  rename_i d0 h0
  split at hd
  · cases hd
  rename_i d1 h1
  have hx0 := ReachFlat.convertNodes_x I t hA f.vars f.nodes dn hconv hnodes
  have hx1 := ReachFlat.toDeepLoop_x I t hA hP f.ops hops _ _ _ hloop hx0
  have xf : ReachFlat.X t final := hx1 final List.mem_cons_self
  obtain ⟨g0, o0, f0⟩ := ReachFlat.new_x I t hA [final] [] [] d0 rfl h0
    (fun nd hnd => by rw [List.mem_singleton] at hnd; rw [hnd]; exact xf)
    (fun _ ho => by cases ho) (fun _ hu => by cases hu)
  rw [GenNode] at g0
  rw [OpN] at o0
  have f0' : Folded d0 := f0
  have g1 : GenEx (FQ f.vars) (NV f.vars) d1 := ReachFlat.reset_gen _ _ f.vars d0 d1 g0 h1
  have o1 : OpE (POt t) (PUt t) TT TT d1 := reset_op _ _ TT TT TT f.vars trivial d0 d1 o0 h1
  have s1 : SO t f.vars d1 := so_upgrade t f.vars f.vars hnd (fun _ hx => hx) TT TT d1 g1 o1
  have n1 : Named f.vars d1 := named_of_full _ _ g1
  have w1 : weakList d1.nodes :=
    weak_reset f.vars d0 d1 h1 (weakList_of_folded _ (folded_nodes d0 f0'))
  obtain ⟨g2, -⟩ := compile_gen' I t hA f.vars f.vars _ _ d1 d n1 s1 g1 hd
  have hv : d.vars = f.vars := genEx_vars d g2
  obtain ⟨s2, -⟩ := compile_op _ _ _ _ I d1 d hd s1
  have f2 := compile_folded I d1 d hd w1
  have n2 : Named f.vars d := named_of_full _ _ g2
  exact ⟨by rw [hv]; exact n2, by rw [hv]; exact hstrict,
    by rw [hv]; exact ⟨⟨f.vars, n2⟩, s2, f2⟩, ss_of_gen _ _ d g2⟩

end

/-! ### unary operators of a flattened expression -/

section
variable {α : Type}

/-- all unary chains of a flattened group consist of unary operators of the table -/
def UnOK (t : Table) (g : List (FlatNode α) × List FlatOp) : Prop :=
  (∀ o ∈ g.2, ∀ u ∈ o.un, tblHasUnary t u = true) ∧ ∀ n ∈ g.1, ∀ u ∈ n.un, tblHasUnary t u = true

theorem attach_un (t : Table) (un : List Nat) (g : List (FlatNode α) × List FlatOp)
    (hun : ∀ u ∈ un, tblHasUnary t u = true) (h : UnOK t g) : UnOK t (FromDeep.flatAttach un g) := by
  unfold FromDeep.flatAttach
  split
  · exact h
  · split
    · split
      · refine ⟨?_, h.2⟩
        intro o ho
        simp only at ho
        rcases ReachFlat.mem_modify _ _ _ _ ho with ho | ⟨y, hy, rfl⟩
        · exact h.1 o ho
        · intro u hu
          simp only at hu
          rcases List.mem_append.1 hu with hu | hu
          · exact hun u hu
          · exact h.1 y hy u hu
      · exact h
    · split
      · rename_i n rest hg
        refine ⟨h.1, ?_⟩
        intro m hm
        simp only at hm
        rcases List.mem_cons.1 hm with rfl | hm
        · intro u hu
          simp only at hu
          rcases List.mem_append.1 hu with hu | hu
          · exact hun u hu
          · exact h.2 n (by rw [hg]; exact List.mem_cons_self) u hu
        · exact h.2 m (by rw [hg]; exact List.mem_cons_of_mem _ hm)
      · exact h

theorem flattenList_cons_both (off : Int) (n : DeepNode α) (ns : List (DeepNode α))
    (ops : List DBin) :
    flattenList off (n :: ns) ops =
      ((FromDeep.nodeFlat off n).1 ++ (flattenList off ns ops.tail).1,
       (FromDeep.nodeFlat off n).2 ++ (ops.head?.map (FromDeep.mkOp off)).toList ++
        (flattenList off ns ops.tail).2) := by
  cases n <;> cases ops <;> simp [flattenList, FromDeep.nodeFlat, FromDeep.mkOp]

mutual
theorem flatten_un (t : Table) : ∀ (off : Int) (d : DeepEx α), C12.FromTable t d →
    UnOK t (d.flatten off)
  | off, .mk nodes ops un vars, h => by
    rw [C12.FromTable] at h
    rw [FromDeep.flatten_eq]
    exact attach_un t un _ h.2.1 (list_un t off nodes ops h.2.2)
theorem node_un (t : Table) : ∀ (off : Int) (n : DeepNode α), ConvAny.nodeTbl t n →
    UnOK t (FromDeep.nodeFlat off n)
  | off, .num a, _ => by
    refine ⟨?_, ?_⟩ <;> simp [FromDeep.nodeFlat]
  | off, .var i nm, _ => by
    refine ⟨?_, ?_⟩ <;> simp [FromDeep.nodeFlat]
  | off, .expr e, h => by
    rw [FromDeep.nodeFlat]
    exact flatten_un t (off + 100) e h
theorem list_un (t : Table) : ∀ (off : Int) (nodes : List (DeepNode α)) (ops : List DBin),
    C12.fromTableList t nodes → UnOK t (flattenList off nodes ops)
  | off, [], ops, _ => by
    refine ⟨?_, ?_⟩ <;> simp [flattenList]
  | off, n :: ns, ops, hn => by
    obtain ⟨h1, h2⟩ := (ConvAny.fromTableList_cons t n ns).1 hn
    rw [flattenList_cons_both]
    have a := node_un t off n h1
    have b := list_un t off ns ops.tail h2
    refine ⟨?_, ?_⟩
    · intro o hmem
      simp only at hmem
      rcases List.mem_append.1 hmem with hmem | hmem
      · rcases List.mem_append.1 hmem with hmem | hmem
        · exact a.1 o hmem
        · cases ops with
          | nil => simp at hmem
          | cons b bs =>
            simp at hmem
            subst hmem
            intro u hu
            simp [FromDeep.mkOp] at hu
      · exact b.1 o hmem
    · intro m hmem
      simp only at hmem
      rcases List.mem_append.1 hmem with hmem | hmem
      · exact a.2 m hmem
      · exact b.2 m hmem
end

end
end Exmex.FlatApiLemmas
