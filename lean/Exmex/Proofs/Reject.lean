/-
  Helper lemmas for C07 (malformed expressions are rejected): the tokenizer on blank text, the
  pair check on adjacent operands / parentheses, and the paren-balance invariant of the
  tokenizer loop (including the function-call rewrite at a comma).
-/
import Exmex.Model.Flat
namespace Exmex

/-! ### blank text -/

theorem lexLoop_blank {α} (I : Interp α) (t : Table) (lm : Str → Option Nat) (st : LexSt α) :
    ∀ (text : Str), (∀ c ∈ text, c = ' ') → lexLoop I t lm text 0 st = .ok st
  | [], _ => by simp [lexLoop]
  | c :: cs, h => by
    have hc : c = ' ' := h c (by simp)
    subst hc
    have ih := lexLoop_blank I t lm st cs (fun c hc => h c (by simp [hc]))
    simp [lexLoop, ih]

theorem tokenize_blank {α} (I : Interp α) (t : Table) (lm : Str → Option Nat) (text : Str)
    (h : ∀ c ∈ text, c = ' ') : tokenize (α := α) I t lm text = .ok [] := by
  simp [tokenize, lexLoop_blank I t lm {} text h]

/-! ### the pair check -/

theorem anyPairViolated_cons {α} (t : Table) (x : Tok α) (l : List (Tok α))
    (h : anyPairViolated t l = true) : anyPairViolated t (x :: l) = true := by
  cases l with
  | nil => simp [anyPairViolated] at h
  | cons y l => rw [anyPairViolated, h]; simp

theorem anyPairViolated_append {α} (t : Table) (a b : Tok α) (post : List (Tok α))
    (h : pairViolated t a b = true) :
    ∀ pre : List (Tok α), anyPairViolated t (pre ++ a :: b :: post) = true
  | [] => by simp [anyPairViolated, h]
  | x :: pre => anyPairViolated_cons t x _ (anyPairViolated_append t a b post h pre)

/-- a closing parenthesis left of an operand, or an operand left of an opening parenthesis -/
theorem pairViolated_paren_operand {α} (t : Table) (a b : Tok α)
    (h : (a = .pclose ∧ isOperand b = true) ∨ (isOperand a = true ∧ b = .popen)) :
    pairViolated t a b = true := by
  rcases h with ⟨rfl, hb⟩ | ⟨ha, rfl⟩
  · cases b <;> simp_all [pairViolated, isOperand]
  · cases a <;> simp_all [pairViolated, isOperand]

/-! ### sums of paren deltas -/

theorem sum_map_set {α} (f : α → Int) (x y : α) :
    ∀ (l : List α) (i : Nat), l[i]? = some y →
      ((l.set i x).map f).sum = (l.map f).sum - f y + f x
  | [], i, h => by simp at h
  | z :: l, 0, h => by
    simp at h
    subst h
    simp only [List.set_cons_zero, List.map_cons, List.sum_cons]
    omega
  | z :: l, i + 1, h => by
    simp at h
    have ih := sum_map_set f x y l i h
    simp only [List.set_cons_succ, List.map_cons, List.sum_cons, ih]
    omega

/-! ### `find_op_of_comma` points at an operator -/

theorem findOpOfCommaRev_spec {α} : ∀ (l : List (Tok α)) (cnt : Int) (i r : Nat),
    findOpOfCommaRev l cnt i = some r → i ≤ r ∧ ∃ o, l[r - i]? = some (.op o)
  | [], _, _, _, h => by simp [findOpOfCommaRev] at h
  | tk :: ts, cnt, i, r, h => by
    have key : findOpOfCommaRev ts (cnt + parenDelta tk) (i + 1) = some r →
        i ≤ r ∧ ∃ o, (tk :: ts)[r - i]? = some (.op o) := by
      intro h'
      obtain ⟨h1, o, h2⟩ := findOpOfCommaRev_spec ts _ _ _ h'
      refine ⟨by omega, o, ?_⟩
      have : r - i = (r - (i + 1)) + 1 := by omega
      rw [this]
      simpa using h2
    cases tk with
    | op o =>
      simp only [findOpOfCommaRev] at h
      split at h
      · simp at h
        subst h
        exact ⟨Nat.le_refl _, o, by simp⟩
      · exact key h
    | num a => simp only [findOpOfCommaRev] at h; exact key h
    | popen => simp only [findOpOfCommaRev] at h; exact key h
    | pclose => simp only [findOpOfCommaRev] at h; exact key h
    | var n => simp only [findOpOfCommaRev] at h; exact key h

theorem findOpOfComma_isOp {α} (toks : List (Tok α)) (i : Nat)
    (h : findOpOfComma toks = some i) : ∃ o, toks[i]? = some (.op o) := by
  unfold findOpOfComma at h
  rw [Option.map_eq_some_iff] at h
  obtain ⟨r, hr, rfl⟩ := h
  obtain ⟨_, o, ho⟩ := findOpOfCommaRev_spec _ _ _ _ hr
  simp only [Nat.sub_zero] at ho
  have hlt : r < toks.length := by
    have := (List.getElem?_eq_some_iff.mp ho).1
    simpa using this
  rw [List.getElem?_reverse hlt] at ho
  exact ⟨o, ho⟩

/-! ### the balance invariant of the tokenizer -/

/-- token balance minus source depth minus number of owed closing parens -/
def LexSt.excess {α} (st : LexSt α) : Int :=
  (st.res.map parenDelta).sum - st.depth - st.owed.length

theorem lexStep_excess {α} (I : Interp α) (t : Table) (lm : Str → Option Nat)
    (rest : Str) (st st' : LexSt α) (n : Nat)
    (h : lexStep I t lm rest st = .ok (n, st')) : st'.excess = st.excess := by
  unfold lexStep at h
  split at h
  · cases h; rfl
  · split at h
    · cases h
      simp [LexSt.excess, List.sum_append, parenDelta]
      omega
    · split at h
      · dsimp only at h
        split at h
        · rename_i hd
          cases h
          have hd' := eq_of_beq hd
          have hne : 1 ≤ st.owed.length := by
            cases ho : st.owed with
            | nil => simp [ho] at hd'
            | cons _ _ => simp
          simp [LexSt.excess, List.sum_append, parenDelta, List.length_dropLast]
          omega
        · cases h
          simp [LexSt.excess, List.sum_append, parenDelta]
          omega
      · split at h
        · split at h
          · cases h
          split at h
          · cases h
          · rename_i i hi
            split at h
            · cases h
            · rename_i opTok hop
              split at h
              · cases h
              cases h
              obtain ⟨o, ho⟩ := findOpOfComma_isOp _ _ hi
              rw [ho] at hop
              cases hop
              simp only [LexSt.excess, List.map_append, List.sum_append,
                sum_map_set _ _ _ _ _ ho]
              simp [parenDelta]
              omega
        · split at h
          · cases h
            simp [LexSt.excess, List.sum_append, parenDelta]
          · split at h
            · split at h
              · cases h
                simp [LexSt.excess, List.sum_append, parenDelta]
              · cases h
            · split at h
              · cases h
                simp only [LexSt.excess, List.map_append, List.sum_append]
                split <;> simp [parenDelta]
              · split at h
                · cases h
                  simp [LexSt.excess, List.sum_append, parenDelta]
                · cases h

theorem lexLoop_excess {α} (I : Interp α) (t : Table) (lm : Str → Option Nat) :
    ∀ (text : Str) (skip : Nat) (st st' : LexSt α),
      lexLoop I t lm text skip st = .ok st' → st'.excess = st.excess
  | [], _, st, st', h => by
    simp [lexLoop] at h
    rw [h]
  | _ :: cs, skip + 1, st, st', h => by
    simp only [lexLoop] at h
    exact lexLoop_excess I t lm cs skip st st' h
  | c :: cs, 0, st, st', h => by
    simp only [lexLoop] at h
    split at h
    · exact lexLoop_excess I t lm cs 0 st st' h
    · split at h
      · cases h
      · rename_i n st1 hs
        have h1 := lexStep_excess I t lm _ _ _ _ hs
        split at h
        · cases h; exact h1
        · rw [lexLoop_excess I t lm cs (n - 1) st1 st' h, h1]

end Exmex
