/-
  L2 (C14): for every legal application order the in-place `eval_binary` computes exactly what
  the specification `reduceByOrder` says, with any tracker that refines the reference flags.
-/
import Exmex.Model.Flat
import Exmex.Spec.Order
import Exmex.Proofs.TrackerRel
import Exmex.Proofs.EvalOrderAux
namespace Exmex

/-- `π` is a legal application order for `n` operators: no operator twice, all in range -/
structure ValidOrder (π : List Nat) (n : Nat) : Prop where
  nodup : π.Nodup
  lt : ∀ k ∈ π, k < n

/-- the reference tracker refines itself -/
theorem flagsTracker_refines_eq : Refines flagsTracker Eq where
  prev := by rintro t f idx rfl _ _; rfl
  next := by rintro t f idx rfl _; rfl
  ignore := by rintro t f idx rfl _; exact ⟨_, rfl, rfl⟩

/-- with the reference tracker, `eval_binary` = `reduceByOrder` -/
theorem evalBinary_flags_eq_reduceByOrder {α : Type} (dflt : α) (apply : Nat → α → α → α)
    (numbers : List α) (π : List Nat) (hπ : ValidOrder π (numbers.length - 1))
    (hne : numbers ≠ []) :
    ∃ v, reduceByOrder apply numbers π = some v ∧
      evalBinary flagsTracker dflt (fun k a b => some (apply k a b)) numbers π
        (List.replicate numbers.length false) = .ok v := by
  obtain ⟨ns', t', f', vs', ops', _, l2, l3, hinv⟩ :=
    EvalOrderAux.loop flagsTracker Eq flagsTracker_refines_eq dflt apply π
      (EvalOrderAux.inv_init numbers hne) rfl hπ.nodup
      (fun k hk => List.mem_range.2 (hπ.lt k hk))
  obtain ⟨a, nt, vt, rfl, rfl⟩ := EvalOrderAux.inv_head hinv
  exact ⟨a, by simp [reduceByOrder, l3], by simp [evalBinary, l2]⟩

/-- any refining tracker gives the same result as the reference tracker -/
theorem evalBinary_refines {α τ : Type} (T : TrackerOps τ) (R : τ → Flags → Prop)
    (hT : Refines T R) (dflt : α) (apply : Nat → α → α → α)
    (numbers : List α) (π : List Nat) (hπ : ValidOrder π (numbers.length - 1))
    (hne : numbers ≠ []) (t0 : τ) (h0 : R t0 (List.replicate numbers.length false)) :
    evalBinary T dflt (fun k a b => some (apply k a b)) numbers π t0 =
      evalBinary flagsTracker dflt (fun k a b => some (apply k a b)) numbers π
        (List.replicate numbers.length false) := by
  obtain ⟨ns', t', f', vs', ops', l1, l2, _, _⟩ :=
    EvalOrderAux.loop T R hT dflt apply π
      (EvalOrderAux.inv_init numbers hne) h0 hπ.nodup
      (fun k hk => List.mem_range.2 (hπ.lt k hk))
  simp [evalBinary, l1, l2]

end Exmex

