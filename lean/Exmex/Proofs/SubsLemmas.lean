/-
  Helper lemmas for C11 (substitution on deep expressions): the names a group mentions, the
  "listed but not occurring" fold, and the main structural induction over `subs` / `subsList`.
-/
import Exmex.Props.C10
namespace Exmex.Subs
open Exmex.CalcLemmas Exmex.DeepCompile Exmex.C10

/-- what one variable contributes to the variable list of the result -/
def sub1 {α} (σ : Str → Option (DeepEx α)) (v : Str) : List Str :=
  match σ v with
  | none => [v]
  | some r => r.vars

/-- the environment under which the original is evaluated -/
def senv {α} (I : Interp α) (σ : Str → Option (DeepEx α)) (ρ : Str → α) (v : Str) : α :=
  match σ v with
  | none => ρ v
  | some r => match r.evalRelaxed I (r.vars.map ρ) with | .ok x => x | .error _ => I.dflt

mutual
/-- every name a group mentions: its own list, its variable nodes, and those of nested groups -/
def exNames {α} : DeepEx α → List Str
  | .mk nodes _ _ vars => vars ++ nodesNames nodes
def nodeNames {α} : DeepNode α → List Str
  | .num _ => []
  | .var _ v => [v]
  | .expr e => exNames e
def nodesNames {α} : List (DeepNode α) → List Str
  | [] => []
  | n :: ns => nodeNames n ++ nodesNames ns
end

mutual
theorem containsNode_names {α} (v : Str) :
    ∀ nd : DeepNode α, nodeContainsVar v nd = true → v ∈ nodeNames nd
  | .num a, h => by rw [nodeContainsVar] at h; cases h
  | .var i w, h => by
    rw [nodeContainsVar, beq_iff_eq] at h
    rw [nodeNames, h]; exact List.mem_singleton.2 rfl
  | .expr (.mk nodes ops un vars), h => by
    rw [nodeContainsVar] at h
    rw [nodeNames, exNames]
    exact List.mem_append_right _ (containsList_names v nodes h)
theorem containsList_names {α} (v : Str) :
    ∀ l : List (DeepNode α), nodesContainVar v l = true → v ∈ nodesNames l
  | [], h => by rw [nodesContainVar] at h; cases h
  | nd :: rest, h => by
    rw [nodesContainVar, Bool.or_eq_true] at h
    rw [nodesNames]
    rcases h with h | h
    · exact List.mem_append_left _ (containsNode_names v nd h)
    · exact List.mem_append_right _ (containsList_names v rest h)
end

/-- the variable-list condition "only variables of `top` are listed" -/
abbrev LQ (top : List Str) : List Str → Prop := fun vs => ∀ x ∈ vs, x ∈ top

mutual
theorem exNames_sub {α} (top : List Str) :
    ∀ e : DeepEx α, GenEx (NQ top) (NV top) e → GenEx (LQ top) (fun _ _ => True) e →
      ∀ x ∈ exNames e, x ∈ top
  | .mk nodes ops un vars, h, hl => by
    rw [GenEx] at h hl
    intro x hx
    rw [exNames, List.mem_append] at hx
    rcases hx with hx | hx
    · exact hl.2.1 x hx
    · exact nodesNames_sub top nodes h.2.2 hl.2.2 x hx
theorem nodeNames_sub {α} (top : List Str) :
    ∀ nd : DeepNode α, GenNode (NQ top) (NV top) nd → GenNode (LQ top) (fun _ _ => True) nd →
      ∀ x ∈ nodeNames nd, x ∈ top
  | .num a, _, _ => by intro x hx; rw [nodeNames] at hx; cases hx
  | .var i w, h, _ => by
    rw [GenNode] at h
    intro x hx
    rw [nodeNames, List.mem_singleton] at hx
    subst hx
    exact List.mem_of_getElem? h
  | .expr e, h, hl => by
    rw [GenNode] at h hl
    intro x hx
    rw [nodeNames] at hx
    exact exNames_sub top e h hl x hx
theorem nodesNames_sub {α} (top : List Str) :
    ∀ l : List (DeepNode α), genList (NQ top) (NV top) l → genList (LQ top) (fun _ _ => True) l →
      ∀ x ∈ nodesNames l, x ∈ top
  | [], _, _ => by intro x hx; rw [nodesNames] at hx; cases hx
  | nd :: rest, h, hl => by
    rw [genList] at h hl
    intro x hx
    rw [nodesNames, List.mem_append] at hx
    rcases hx with hx | hx
    · exact nodeNames_sub top nd h.1 hl.1 x hx
    · exact nodesNames_sub top rest h.2 hl.2 x hx
end

theorem vars_sub_exNames {α} (e : DeepEx α) : ∀ x ∈ e.vars, x ∈ exNames e := by
  obtain ⟨nodes, ops, un, vars⟩ := e
  intro x hx
  rw [exNames]
  exact List.mem_append_left _ hx

/-! ### the fold over the listed variables -/

def extraStep (c : Str → Bool) (f : Str → List Str) (acc : List Str) (v : Str) : List Str :=
  if c v then acc else (f v).foldl pushNew acc

theorem extra_nodup (c : Str → Bool) (f : Str → List Str) (vars acc : List Str) (h : acc.Nodup) :
    (vars.foldl (extraStep c f) acc).Nodup := by
  induction vars generalizing acc with
  | nil => exact h
  | cons v vs ih =>
    rw [List.foldl_cons]
    apply ih
    unfold extraStep
    split
    · exact h
    · exact nodup_foldl_pushNew _ _ h

theorem extra_mem (c : Str → Bool) (f : Str → List Str) (vars acc : List Str) (n : Str) :
    n ∈ vars.foldl (extraStep c f) acc ↔ n ∈ acc ∨ ∃ v ∈ vars, c v = false ∧ n ∈ f v := by
  induction vars generalizing acc with
  | nil => simp
  | cons v vs ih =>
    rw [List.foldl_cons, ih]
    unfold extraStep
    by_cases hc : c v = true
    · rw [if_pos hc]
      constructor
      · rintro (h | ⟨w, hw, h⟩)
        · exact Or.inl h
        · exact Or.inr ⟨w, List.mem_cons_of_mem _ hw, h⟩
      · rintro (h | ⟨w, hw, h1, h2⟩)
        · exact Or.inl h
        · rcases List.mem_cons.1 hw with hw | hw
          · subst hw; rw [hc] at h1; cases h1
          · exact Or.inr ⟨w, hw, h1, h2⟩
    · rw [if_neg hc, mem_foldl_pushNew]
      have hc' : c v = false := by simpa using hc
      constructor
      · rintro ((h | h) | ⟨w, hw, h⟩)
        · exact Or.inl h
        · exact Or.inr ⟨v, List.mem_cons_self, hc', h⟩
        · exact Or.inr ⟨w, List.mem_cons_of_mem _ hw, h⟩
      · rintro (h | ⟨w, hw, h1, h2⟩)
        · exact Or.inl (Or.inl h)
        · rcases List.mem_cons.1 hw with hw | hw
          · subst hw; exact Or.inl (Or.inr h2)
          · exact Or.inr ⟨w, hw, h1, h2⟩


def subsHere {α} (I : Interp α) (σ : Str → Option (DeepEx α)) : DeepNode α → Res (DeepNode α × List Str)
  | .var i v =>
    match σ v with
    | some r => .ok (.expr r, r.vars)
    | none => .ok (.var i v, [v])
  | .expr e =>
    match e.subs I σ with
    | .error err => .error err
    | .ok e' => .ok (.expr e', e'.vars)
  | .num a => .ok (.num a, [])

theorem subsList_cons {α} (I : Interp α) (σ : Str → Option (DeepEx α)) (n : DeepNode α)
    (ns : List (DeepNode α)) :
    subsList I σ (n :: ns) =
      match subsHere I σ n, subsList I σ ns with
      | .ok (n', vs), .ok (ns', ws) => .ok (n' :: ns', ws.foldl pushNew (vs.foldl pushNew []))
      | .error e, _ => .error e
      | _, .error e => .error e := by
  cases n <;> rfl

theorem extra_eq {α} (σ : Str → Option (DeepEx α)) (nodes : List (DeepNode α)) :
    (fun (acc : List Str) v =>
        if nodesContainVar v nodes then acc else
        match σ v with
        | none => pushNew acc v
        | some r => r.vars.foldl pushNew acc) =
      extraStep (fun v => nodesContainVar v nodes) (sub1 σ) := by
  funext acc v
  unfold extraStep sub1
  split
  · rfl
  · cases σ v <;> rfl

theorem subs_mk {α} (I : Interp α) (σ : Str → Option (DeepEx α)) (nodes : List (DeepNode α))
    (ops : List DBin) (un : List Nat) (vars : List Str) (ns : List (DeepNode α)) (names : List Str)
    (h : subsList I σ nodes = .ok (ns, names)) :
    (DeepEx.mk nodes ops un vars).subs I σ =
      match (DeepEx.mk ns ops un []).resetVars
          (sortBy strLe (vars.foldl (extraStep (fun v => nodesContainVar v nodes) (sub1 σ)) names)) with
      | none => .error (.panic "deep.rs:reset_vars unwrap")
      | some e' => e'.compile I := by
  rw [← extra_eq σ nodes, DeepEx.subs, h]
  rfl


/-- what is needed from a substituted node: it can be re-indexed against every list containing the
    names it pushed, and then evaluates to what the original node evaluates to under the
    substitution environment -/
def NodePost {α} (I : Interp α) (σ : Str → Option (DeepEx α)) (ρ : Str → α) (top : List Str)
    (nd nd' : DeepNode α) (vs : List Str) : Prop :=
  ∀ all : List Str, (∀ x ∈ vs, x ∈ all) →
    ∃ nd'', nd'.resetVarsNode all = some nd'' ∧ GenNode (FQ all) (NV all) nd'' ∧
      nd''.evalNode I (all.map ρ) = nd.evalNode I (top.map (senv I σ ρ)) ∧ nd''.isNum = nd.isNum ∧
      nodeAssoc I nd''

theorem subs_var {α} (I : Interp α) (σ : Str → Option (DeepEx α))
    (hσ : ∀ v r, σ v = some r → Named r.vars r ∧ r.Assoc I) (ρ : Str → α) (top : List Str)
    (i : Nat) (v : Str) (hi : top[i]? = some v) :
    ∃ nd', subsHere I σ (.var i v) = .ok (nd', sub1 σ v) ∧
      NodePost I σ ρ top (.var i v) nd' (sub1 σ v) := by
  have hev : (DeepNode.var i v : DeepNode α).evalNode I (top.map (senv I σ ρ)) = .ok (senv I σ ρ v) := by
    rw [DeepNode.evalNode, List.getElem?_map, hi]
    rfl
  cases hs : σ v with
  | none =>
    have h1 : sub1 σ v = [v] := by unfold sub1; rw [hs]
    have h2 : senv I σ ρ v = ρ v := by unfold senv; rw [hs]
    refine ⟨.var i v, ?_, ?_⟩
    · rw [h1, subsHere, hs]
    · intro all hall
      rw [h1] at hall
      have hmem : v ∈ all := hall v (List.mem_singleton.2 rfl)
      cases hj : all.idxOf? v with
      | none => exact absurd hmem (List.idxOf?_eq_none_iff.1 hj)
      | some j =>
        obtain ⟨hjl, hje, -⟩ := List.idxOf?_eq_some_iff.1 hj
        have hj' : all[j]? = some v := by rw [List.getElem?_eq_getElem hjl, hje]
        refine ⟨.var j v, ?_, ?_, ?_, rfl, trivial⟩
        · rw [DeepNode.resetVarsNode, hj]
        · rw [GenNode]; exact hj'
        · rw [hev, h2, DeepNode.evalNode, List.getElem?_map, hj']
          rfl
  | some r =>
    obtain ⟨hN, hA⟩ := hσ v r hs
    have hg := (named_iff_gen _ r).1 hN
    have h1 : sub1 σ v = r.vars := by unfold sub1; rw [hs]
    have hsh := shape_of_gen r.vars ρ (fun vs (hv : NQ r.vars vs) => hv) r hg
    obtain ⟨x, hx⟩ := eval_total I (r.vars.map ρ) r hsh
    have h2 : senv I σ ρ v = x := by unfold senv; rw [hs]; simp only []; rw [hx]
    refine ⟨.expr r, ?_, ?_⟩
    · rw [h1, subsHere, hs]
    · intro all hall
      rw [h1] at hall
      obtain ⟨r', r1, r2, r3, r4⟩ := reset_ex I r.vars all hall ρ r hg
      refine ⟨.expr r', ?_, ?_, ?_, rfl, r4 hA⟩
      · rw [DeepNode.resetVarsNode, r1]; rfl
      · rw [GenNode]; exact r2
      · rw [hev, h2, DeepNode.evalNode, r3, hx]



theorem strict_nodup (l : List Str) (hs : l.Pairwise (fun x y => strLt x y = true)) : l.Nodup := by
  refine hs.imp ?_
  intro x y hxy he
  subst he
  rw [strLt_irrefl'] at hxy
  cases hxy

mutual
theorem subs_ex {α} (I : Interp α) (σ : Str → Option (DeepEx α))
    (hσ : ∀ v r, σ v = some r → Named r.vars r ∧ r.Assoc I) (ρ : Str → α) (top : List Str) :
    ∀ e : DeepEx α, GenEx (NQ top) (NV top) e → e.Assoc I →
      ∃ e', e.subs I σ = .ok e' ∧ GenEx (FQ e'.vars) (NV e'.vars) e' ∧ e'.Assoc I ∧
        e'.vars.Pairwise (fun x y => strLt x y = true) ∧
        (∀ n, n ∈ e'.vars ↔ ∃ v ∈ exNames e, n ∈ sub1 σ v) ∧
        e'.evalRelaxed I (e'.vars.map ρ) = e.evalRelaxed I (top.map (senv I σ ρ))
  | .mk nodes ops un vars, h, hA => by
    rw [GenEx] at h
    rw [DeepEx.Assoc] at hA
    obtain ⟨ns, names0, l1, l2, l3, l4⟩ := subs_ls I σ hσ ρ top nodes h.2.2 hA.2
    obtain ⟨names, hnames⟩ : ∃ names, names =
      vars.foldl (extraStep (fun v => nodesContainVar v nodes) (sub1 σ)) names0 := ⟨_, rfl⟩
    obtain ⟨all, hall⟩ : ∃ all, all = sortBy strLe names := ⟨_, rfl⟩
    have hnd : names.Nodup := by rw [hnames]; exact extra_nodup _ _ _ _ l2
    have hp : all.Perm names := by rw [hall]; exact sortBy_perm strLe names
    have hstrict : all.Pairwise (fun x y => strLt x y = true) := by
      rw [hall]; exact sortBy_strLe_strict _ hnd
    have hmem : ∀ n, n ∈ all ↔ n ∈ names0 ∨ ∃ v ∈ vars, nodesContainVar v nodes = false ∧ n ∈ sub1 σ v := by
      intro n
      rw [hp.mem_iff, hnames, extra_mem]
    obtain ⟨ns', r1, r2, r3, r4, r5, r6⟩ := l4 all (fun x hx => (hmem x).2 (Or.inl hx))
    have hreset : (DeepEx.mk ns ops un []).resetVars all = some (.mk ns' ops un all) := by
      rw [DeepEx.resetVars, r1]
    have g0 : GenEx (FQ all) (NV all) (DeepEx.mk ns' ops un all) := by
      rw [GenEx]; exact ⟨by rw [r5]; exact h.1, rfl, r2⟩
    have hQ : ∀ vs, FQ all vs → vs.length ≤ all.length := fun vs (hv : vs = all) => by
      rw [hv]; exact Nat.le_refl _
    have hs0 := shape_of_gen all ρ hQ _ g0
    have hA0 : (DeepEx.mk ns' ops un all).Assoc I := by
      rw [DeepEx.Assoc]; exact ⟨hA.1, r6⟩
    obtain ⟨e', c1, c2, c3, c4⟩ := C02.deep_compile_sound I _ (all.map ρ) hs0 hA0
    obtain ⟨g, -⟩ := compile_gen I (FQ all) (NV all) _ e' c1 g0 (shape_len e' c2)
    have hrv : e'.vars = all := genEx_vars e' g
    have hv : ¬ vars.length > (top.map (senv I σ ρ)).length := by
      rw [List.length_map]; exact Nat.not_lt.2 h.2.1
    have hev : (DeepEx.mk ns' ops un all).evalRelaxed I (all.map ρ) =
        (DeepEx.mk nodes ops un vars).evalRelaxed I (top.map (senv I σ ρ)) := by
      rw [DeepEx.evalRelaxed, DeepEx.evalRelaxed, if_neg (by simp), if_neg hv, r3,
        prioIdxDeep_congr ops _ _ r4]
    refine ⟨e', ?_, ?_, c3, ?_, ?_, ?_⟩
    · rw [subs_mk I σ nodes ops un vars ns names0 l1, ← hnames, ← hall, hreset]
      exact c1
    · rw [hrv]; exact g
    · rw [hrv]; exact hstrict
    · intro n
      rw [hrv, hmem, l3, exNames]
      constructor
      · rintro (⟨v, hv1, hv2⟩ | ⟨v, hv1, -, hv2⟩)
        · exact ⟨v, List.mem_append_right _ hv1, hv2⟩
        · exact ⟨v, List.mem_append_left _ hv1, hv2⟩
      · rintro ⟨v, hv1, hv2⟩
        rcases List.mem_append.1 hv1 with hv1 | hv1
        · cases hc : nodesContainVar v nodes with
          | false => exact Or.inr ⟨v, hv1, hc, hv2⟩
          | true => exact Or.inl ⟨v, containsList_names v nodes hc, hv2⟩
        · exact Or.inl ⟨v, hv1, hv2⟩
    · rw [hrv, c4]; exact hev
theorem subs_nd {α} (I : Interp α) (σ : Str → Option (DeepEx α))
    (hσ : ∀ v r, σ v = some r → Named r.vars r ∧ r.Assoc I) (ρ : Str → α) (top : List Str) :
    ∀ nd : DeepNode α, GenNode (NQ top) (NV top) nd → nodeAssoc I nd →
      ∃ nd' vs, subsHere I σ nd = .ok (nd', vs) ∧
        (∀ n, n ∈ vs ↔ ∃ v ∈ nodeNames nd, n ∈ sub1 σ v) ∧ NodePost I σ ρ top nd nd' vs
  | .num a, _, _ => by
    refine ⟨.num a, [], ?_, ?_, ?_⟩
    · rw [subsHere]
    · intro n; rw [nodeNames]; simp
    · intro all _
      refine ⟨.num a, ?_, genNode_num _ _ a, ?_, rfl, trivial⟩
      · rw [DeepNode.resetVarsNode]
      · rw [DeepNode.evalNode, DeepNode.evalNode]
  | .var i v, h, _ => by
    rw [GenNode] at h
    obtain ⟨nd', h1, h2⟩ := subs_var I σ hσ ρ top i v h
    refine ⟨nd', sub1 σ v, h1, ?_, h2⟩
    intro n; rw [nodeNames]; simp
  | .expr e, h, hA => by
    rw [GenNode] at h
    obtain ⟨e', e1, e2, e3, e4, e5, e6⟩ := subs_ex I σ hσ ρ top e h hA
    refine ⟨.expr e', e'.vars, ?_, ?_, ?_⟩
    · rw [subsHere, e1]
    · intro n; rw [nodeNames]; exact e5 n
    · intro all hall
      obtain ⟨r', r1, r2, r3, r4⟩ := reset_ex I e'.vars all hall ρ e'
        (genEx_mono (fun vs (hv : vs = e'.vars) => by rw [hv]; exact Nat.le_refl _) (fun _ _ hv => hv) e' e2)
      refine ⟨.expr r', ?_, ?_, ?_, rfl, r4 e3⟩
      · rw [DeepNode.resetVarsNode, r1]; rfl
      · rw [GenNode]; exact r2
      · rw [DeepNode.evalNode, DeepNode.evalNode, r3, e6]
theorem subs_ls {α} (I : Interp α) (σ : Str → Option (DeepEx α))
    (hσ : ∀ v r, σ v = some r → Named r.vars r ∧ r.Assoc I) (ρ : Str → α) (top : List Str) :
    ∀ l : List (DeepNode α), genList (NQ top) (NV top) l → assocList I l →
      ∃ ns names, subsList I σ l = .ok (ns, names) ∧ names.Nodup ∧
        (∀ n, n ∈ names ↔ ∃ v ∈ nodesNames l, n ∈ sub1 σ v) ∧
        ∀ all : List Str, (∀ x ∈ names, x ∈ all) →
          ∃ ns', resetVarsList all ns = some ns' ∧ genList (FQ all) (NV all) ns' ∧
            evalNodeList I (all.map ρ) ns' = evalNodeList I (top.map (senv I σ ρ)) l ∧
            ns'.map (·.isNum) = l.map (·.isNum) ∧ ns'.length = l.length ∧ assocList I ns'
  | [], _, _ => by
    refine ⟨[], [], rfl, List.nodup_nil, ?_, ?_⟩
    · intro n; rw [nodesNames]; simp
    · intro all _
      refine ⟨[], ?_, ?_, rfl, rfl, rfl, ?_⟩
      · rw [resetVarsList]
      · rw [genList]; trivial
      · rw [assocList]; trivial
  | nd :: rest, h, hA => by
    rw [genList] at h
    rw [assocList_cons] at hA
    obtain ⟨nd', vs, a1, a2, a3⟩ := subs_nd I σ hσ ρ top nd h.1 hA.1
    obtain ⟨ns, ws, b1, b2, b3, b4⟩ := subs_ls I σ hσ ρ top rest h.2 hA.2
    have hmem : ∀ n, n ∈ ws.foldl pushNew (vs.foldl pushNew []) ↔ n ∈ vs ∨ n ∈ ws := by
      intro n
      rw [mem_foldl_pushNew, mem_foldl_pushNew]
      simp
    refine ⟨nd' :: ns, ws.foldl pushNew (vs.foldl pushNew []), ?_, ?_, ?_, ?_⟩
    · rw [subsList_cons, a1, b1]
    · exact nodup_foldl_pushNew _ _ (nodup_foldl_pushNew _ _ List.nodup_nil)
    · intro n
      rw [hmem, a2, b3, nodesNames]
      constructor
      · rintro (⟨v, hv1, hv2⟩ | ⟨v, hv1, hv2⟩)
        · exact ⟨v, List.mem_append_left _ hv1, hv2⟩
        · exact ⟨v, List.mem_append_right _ hv1, hv2⟩
      · rintro ⟨v, hv1, hv2⟩
        rcases List.mem_append.1 hv1 with hv1 | hv1
        · exact Or.inl ⟨v, hv1, hv2⟩
        · exact Or.inr ⟨v, hv1, hv2⟩
    · intro all hall
      obtain ⟨nd'', p1, p2, p3, p4, p5⟩ := a3 all (fun x hx => hall x ((hmem x).2 (Or.inl hx)))
      obtain ⟨ns', q1, q2, q3, q4, q5, q6⟩ := b4 all (fun x hx => hall x ((hmem x).2 (Or.inr hx)))
      refine ⟨nd'' :: ns', ?_, ?_, ?_, ?_, ?_, ?_⟩
      · rw [resetVarsList, p1, q1]
      · rw [genList]; exact ⟨p2, q2⟩
      · rw [evalNodeList, evalNodeList, p3, q3]
      · rw [List.map_cons, List.map_cons, p4, q4]
      · rw [List.length_cons, List.length_cons, q5]
      · rw [assocList_cons]; exact ⟨p5, q6⟩
end



/-- two strictly sorted lists with the same members are equal -/
theorem strict_ext : ∀ (l1 l2 : List Str), l1.Pairwise (fun x y => strLt x y = true) →
    l2.Pairwise (fun x y => strLt x y = true) → (∀ n, n ∈ l1 ↔ n ∈ l2) → l1 = l2
  | [], [], _, _, _ => rfl
  | [], b :: l2, _, _, h => by
    have := (h b).2 List.mem_cons_self
    cases this
  | a :: l1, [], _, _, h => by
    have := (h a).1 List.mem_cons_self
    cases this
  | a :: l1, b :: l2, h1, h2, h => by
    rw [List.pairwise_cons] at h1 h2
    have hab : a = b := by
      rcases List.mem_cons.1 ((h a).1 List.mem_cons_self) with h3 | h3
      · exact h3
      · rcases List.mem_cons.1 ((h b).2 List.mem_cons_self) with h4 | h4
        · exact h4.symm
        · have := strLt_asymm' _ _ (h1.1 b h4)
          rw [h2.1 a h3] at this
          cases this
    subst hab
    have ht : ∀ n, n ∈ l1 ↔ n ∈ l2 := by
      intro n
      constructor
      · intro hn
        rcases List.mem_cons.1 ((h n).1 (List.mem_cons_of_mem _ hn)) with h3 | h3
        · subst h3
          have := h1.1 n hn
          rw [strLt_irrefl'] at this
          cases this
        · exact h3
      · intro hn
        rcases List.mem_cons.1 ((h n).2 (List.mem_cons_of_mem _ hn)) with h3 | h3
        · subst h3
          have := h2.1 n hn
          rw [strLt_irrefl'] at this
          cases this
        · exact h3
    rw [strict_ext l1 l2 h1.2 h2.2 ht]

/-- `subs` at the top level: `top` is the expression's own variable list -/
theorem subs_main {α} (I : Interp α) (d : DeepEx α) (σ : Str → Option (DeepEx α))
    (hn : Named d.vars d) (hA : d.Assoc I)
    (hσ : ∀ v r, σ v = some r → Named r.vars r ∧ r.Assoc I) (ρ : Str → α) :
    ∃ d' v, d.subs I σ = .ok d' ∧ GenEx (FQ d'.vars) (NV d'.vars) d' ∧ d'.Assoc I ∧
      d'.vars.Pairwise (fun x y => strLt x y = true) ∧
      (∀ n, n ∈ d'.vars ↔ ∃ v ∈ exNames d, n ∈ sub1 σ v) ∧
      d.evalRelaxed I (d.vars.map (senv I σ ρ)) = .ok v ∧
      d'.evalRelaxed I (d'.vars.map ρ) = .ok v := by
  have hg := (named_iff_gen _ d).1 hn
  obtain ⟨d', h1, h2, h3, h4, h5, h6⟩ := subs_ex I σ hσ ρ d.vars d hg hA
  have hsh := shape_of_gen d.vars (senv I σ ρ) (fun vs (hv : NQ d.vars vs) => hv) d hg
  obtain ⟨v, hv⟩ := eval_total I (d.vars.map (senv I σ ρ)) d hsh
  exact ⟨d', v, h1, h2, h3, h4, h5, hv, by rw [h6]; exact hv⟩

end Exmex.Subs
