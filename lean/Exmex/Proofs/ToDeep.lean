/-
  C03 (flat → deep): node conversion, the combining step, and the assembly of
  `FlatEx::to_deepex`.
-/
import Exmex.Proofs.ToDeepVars
import Exmex.Proofs.ToDeepLoop
import Exmex.Props.C02
import Exmex.Props.C02Deep
namespace Exmex
namespace ToDeep
open DeepCompile CompileSound

/-- what is known about a deep node standing for the value `v` -/
structure GoodN {α} (I : Interp α) (all : List Str) (vals : List α) (nd : DeepNode α) (v : α) :
    Prop where
  shape : nd.ShapeN vals.length
  assoc : nodeAssoc I nd
  wf : WFN all nd
  val : nd.evalNode I vals = .ok v

theorem goodN_expr {α} (I : Interp α) (all : List Str) (vals : List α) (e : DeepEx α) (v : α)
    (h1 : e.Shape vals.length) (h2 : e.Assoc I) (h3 : WFE all e)
    (h4 : e.evalRelaxed I vals = .ok v) : GoodN I all vals (.expr e) v :=
  ⟨by rw [DeepNode.ShapeN]; exact h1, h2, by rw [WFN, AllN]; exact h3,
    by rw [DeepNode.evalNode]; exact h4⟩

theorem rel₂_lists {α} (I : Interp α) (all : List Str) (vals : List α)
    {nodes : List (DeepNode α)} {numbers : List α} (h : Rel₂ (GoodN I all vals) nodes numbers) :
    shapeList vals.length nodes ∧ assocList I nodes ∧ WFL all nodes ∧
      evalNodeList I vals nodes = .ok numbers := by
  induction h with
  | nil =>
    exact ⟨by rw [shapeList]; trivial, by rw [assocList]; trivial, by rw [WFL, AllL]; trivial,
      by rw [evalNodeList]⟩
  | cons g _ ih =>
    obtain ⟨i1, i2, i3, i4⟩ := ih
    exact ⟨by rw [shapeList]; exact ⟨g.shape, i1⟩, by rw [assocList_cons]; exact ⟨g.assoc, i2⟩,
      by rw [WFL, AllL]; exact ⟨g.wf, i3⟩, by rw [evalNodeList, g.val, i4]⟩

/-- `DeepEx::new` on good nodes -/
theorem new_good {α} (I : Interp α) (all : List Str) (vals : List α)
    (hall : all.length ≤ vals.length) (nodes : List (DeepNode α)) (numbers : List α)
    (ops : List DBin) (un : List Nat) (hG : Rel₂ (GoodN I all vals) nodes numbers)
    (hlen : nodes.length = ops.length + 1) (hA : DeepAssoc I ops) :
    ∃ e v, DeepEx.new I nodes ops un = .ok e ∧
      splitEval (fun (o : DBin) a b => I.bin o.idx a b) (fun o => o.prio) ops.length numbers ops =
        some v ∧
      e.Shape vals.length ∧ e.Assoc I ∧ WFE all e ∧
      e.evalRelaxed I vals = .ok (applyUn I un v) := by
  obtain ⟨hs, hal, hw, hev⟩ := rel₂_lists I all vals hG
  obtain ⟨hfl, hfs⟩ := foundVars_spec all nodes hw
  have hv : (foundVars nodes).length ≤ vals.length := Nat.le_trans hfl hall
  obtain ⟨e, h1, h2, h3, h4⟩ := C02.deep_new_sound I nodes ops un vals hlen hs hv ⟨hA, hal⟩
  have hnl : numbers.length = ops.length + 1 := by rw [← hG.length_eq, hlen]
  obtain ⟨v, g1, g2⟩ := eval_mk I vals nodes ops un (foundVars nodes) numbers hv hev hnl hA
  refine ⟨e, v, h1, g1, h2, h3, ?_, h4.trans g2⟩
  exact new_all I _ _ nodes ops un e hlen h1 hfs hw

/-! ### node conversion -/

theorem wrap_good {α} (I : Interp α) (all : List Str) (vals : List α)
    (hall : all.length = vals.length) (d0 : DeepNode α) (v0 : α) (hg0 : GoodN I all vals d0 v0)
    (un : List Nat) :
    ∃ d, (if un.isEmpty then (.ok d0 : Res (DeepNode α))
        else
          match DeepEx.new I [d0] [] un with
          | .error _ => .error (.panic "flat.rs:convert_node unwrap")
          | .ok e => .ok (.expr e)) = .ok d ∧ GoodN I all vals d (applyUn I un v0) := by
  by_cases hun : un.isEmpty = true
  · rw [if_pos hun]
    refine ⟨d0, rfl, ?_⟩
    have : un = [] := by simpa using hun
    rw [this]
    exact hg0
  · rw [if_neg hun]
    obtain ⟨e, v, h1, h2, h3, h4, h5, h6⟩ := new_good I all vals (by omega) [d0] [v0] [] un
      (.cons hg0 .nil) rfl (fun o ho => by simp at ho)
    have hv : v = v0 := by
      simp [splitEval] at h2
      exact h2.symm
    subst hv
    rw [h1]
    exact ⟨.expr e, rfl, goodN_expr I all vals e _ h3 h4 h5 h6⟩

theorem convertNode_good {α} (I : Interp α) (all : List Str) (vals : List α)
    (hall : all.length = vals.length) (n : FlatNode α)
    (hidx : ∀ i, n.kind = .var i → i < all.length) :
    ∃ d, convertNode I all n = .ok d ∧ GoodN I all vals d (nodeVal I vals n) := by
  unfold convertNode
  cases hk : n.kind with
  | num a =>
    rw [nodeVal_num I vals hk]
    exact wrap_good I all vals hall (.num a) a ⟨by rw [DeepNode.ShapeN]; trivial, trivial,
      allN_num _ _ a, by rw [DeepNode.evalNode]⟩ n.un
  | var i =>
    have hi := hidx i hk
    have hi' : i < vals.length := by omega
    have hnv : nodeVal I vals n = applyUn I n.un vals[i] := by
      rw [nodeVal_var I vals hk]
      simp [List.getD_eq_getElem?_getD, List.getElem?_eq_getElem hi']
    rw [hnv]
    simp only [List.getElem?_eq_getElem hi]
    exact wrap_good I all vals hall (.var i all[i]) vals[i] ⟨by rw [DeepNode.ShapeN]; exact hi',
      trivial, by rw [WFN, AllN]; exact List.getElem?_eq_getElem hi,
      by rw [DeepNode.evalNode, List.getElem?_eq_getElem hi']⟩ n.un

theorem convertNodes_good {α} (I : Interp α) (all : List Str) (vals : List α)
    (hall : all.length = vals.length) :
    ∀ (nodes : List (FlatNode α)), (∀ nd ∈ nodes, ∀ i, nd.kind = .var i → i < all.length) →
      ∃ dn, convertNodes I all nodes = .ok dn ∧
        Rel₂ (GoodN I all vals) dn (nodes.map (nodeVal I vals)) := by
  intro nodes
  induction nodes with
  | nil => intro _; exact ⟨[], rfl, .nil⟩
  | cons n ns ih =>
    intro h
    obtain ⟨d, h1, h2⟩ := convertNode_good I all vals hall n (h n List.mem_cons_self)
    obtain ⟨ds, g1, g2⟩ := ih (fun x hx => h x (List.mem_cons_of_mem _ hx))
    refine ⟨d :: ds, ?_, .cons h2 g2⟩
    rw [convertNodes, h1, g1]

/-! ### the combining step -/

theorem stepOK {α} (I : Interp α) (t : Table) (all : List Str) (vals : List α)
    (hall : all.length ≤ vals.length) (fops : List FlatOp)
    (hassoc : ∀ o ∈ fops, o.comm = true →
      ∀ x y z, I.bin o.idx (I.bin o.idx x y) z = I.bin o.idx x (I.bin o.idx y z))
    (ht : ∀ o ∈ fops, ∃ b, tblBin t o.idx = some b ∧ b.comm = o.comm)
    (k : Nat) (hk : k < fops.length) :
    StepOK I t fops (GoodN I all vals) (flatApplyT I fops) k := by
  intro a b va vb ga gb
  have hmem : fops[k] ∈ fops := List.getElem_mem hk
  obtain ⟨ob, hob, -⟩ := ht fops[k] hmem
  have hA : DeepAssoc I [{ idx := fops[k].idx, prio := ob.prio, comm := fops[k].comm }] := by
    intro o ho hc
    have : o = { idx := fops[k].idx, prio := ob.prio, comm := fops[k].comm } := by simpa using ho
    subst this
    exact hassoc fops[k] hmem hc
  obtain ⟨e, v, h1, h2, h3, h4, h5, h6⟩ := new_good I all vals hall [a, b] [va, vb]
    [{ idx := fops[k].idx, prio := ob.prio, comm := fops[k].comm }] fops[k].un
    (.cons ga (.cons gb .nil)) rfl hA
  have hv : v = I.bin fops[k].idx va vb := by
    simp [splitEval, argminR] at h2
    exact h2.symm
  subst hv
  refine ⟨fops[k], ob, e, List.getElem?_eq_getElem hk, hob, h1, ?_⟩
  have hfa : flatApplyT I fops k va vb = applyUn I fops[k].un (I.bin fops[k].idx va vb) := by
    simp [flatApplyT, List.getElem?_eq_getElem hk]
  rw [hfa]
  exact goodN_expr I all vals e _ h3 h4 h5 h6

/-! ### assembly -/

theorem toDeep_core {α} (I : Interp α) (t : Table) (f : FlatEx α)
    (hflen : f.nodes.length = f.ops.length + 1) (hprio : f.prioIdx = prioIdxFlat f.ops f.nodes)
    (hassoc : ∀ o ∈ f.ops, o.comm = true →
      ∀ x y z, I.bin o.idx (I.bin o.idx x y) z = I.bin o.idx x (I.bin o.idx y z))
    (ht : ∀ o ∈ f.ops, ∃ b, tblBin t o.idx = some b ∧ b.comm = o.comm)
    (hnd : f.vars.Nodup) (vals : List α) (hlen : vals.length = f.vars.length)
    (hidx : ∀ nd ∈ f.nodes, ∀ i, nd.kind = .var i → i < f.vars.length) :
    ∃ d, f.toDeep I t = .ok d ∧ d.vars = f.vars ∧ d.Shape vals.length ∧ d.Assoc I ∧
      d.evalRelaxed I vals = evalCloning I f vals := by
  have hall : f.vars.length = vals.length := hlen.symm
  -- the flat value
  have hidx' : ∀ nd ∈ f.nodes, ∀ i, nd.kind = .var i → i < vals.length := by
    intro nd hn i hi; rw [hlen]; exact hidx nd hn i hi
  have hnv := nodeValues_eq I vals f.nodes hidx'
  have hnl : (f.nodes.map (nodeVal I vals)).length = f.ops.length + 1 := by
    rw [List.length_map, hflen]
  have hπ : ValidOrder (prioIdxFlat f.ops f.nodes) f.ops.length := orderByKey_valid _ _
  obtain ⟨v, hv1, hv2⟩ := C14.evalNumbers_any_order I _ f.ops _ hnl hπ
  have hec : evalCloning I f vals = .ok v := by
    unfold evalCloning
    rw [hnv, hprio]
    exact hv2
  -- the nodes
  obtain ⟨dn, hconv, hG⟩ := convertNodes_good I f.vars vals hall f.nodes hidx
  have hdl : dn.length = f.ops.length + 1 := by rw [hG.length_eq, hnl]
  have hne : dn ≠ [] := by
    intro h0; rw [h0] at hdl; simp at hdl
  -- the loop
  obtain ⟨final, rest, tr', w, hloop, hw, hgf⟩ := toDeepLoop_sim I t f.ops (GoodN I f.vars vals)
    (flatApplyT I f.ops) (prioIdxFlat f.ops f.nodes) dn _
    (by rw [hdl, Nat.add_sub_cancel]; exact hπ) hne hG
    (fun k hk => stepOK I t f.vars vals (by omega) f.ops hassoc ht k (hπ.lt k hk))
  have hwv : w = v := by
    rw [hv1] at hw
    exact (Option.some.inj hw).symm
  subst hwv
  -- wrapping, re-indexing, folding
  obtain ⟨d, v', n1, n2, n3, n4, n5, n6⟩ := new_good I f.vars vals (by omega) [final] [w] [] []
    (.cons hgf .nil) rfl (fun o ho => by simp at ho)
  have hv' : v' = w := by
    simp [splitEval] at n2
    exact n2.symm
  subst hv'
  obtain ⟨d', r1, r2, r3, r4, r5⟩ := resetVars_ok I vals f.vars hnd (by omega) d n3 n4 n5
  obtain ⟨d'', c1, c2, c3, c4⟩ := C02.deep_compile_sound I d' vals r2 r3
  have hany : (f.ops.any (fun o => (tblBin t o.idx).isNone)) = false := by
    rw [List.any_eq_false]
    intro o ho
    obtain ⟨b, hb, -⟩ := ht o ho
    simp [hb]
  refine ⟨d'', ?_, compile_vars I f.vars d' d'' c1 r4, c2, c3, ?_⟩
  · unfold FlatEx.toDeep
    rw [hany]
    simp only [Bool.false_eq_true, if_false, hconv, hloop, n1, r1]
    exact c1
  · rw [c4, r5, n6, hec]
    simp [applyUn]

end ToDeep
end Exmex
