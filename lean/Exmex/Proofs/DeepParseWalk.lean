/-
  Deep parser, token walk: the recursive-descent parser of `DeepEx` (`deepMake` / `deepLoop` /
  `processUnary`), run on the canonical token stream of a well-formed chain with enough fuel,
  consumes exactly that stream and builds nodes / groups / expressions related to the chain
  (`NodeOK`, `GroupRel`, `ExprOK` of `DeepParseDefs`). The recursion over the surface syntax is
  assembled from one non-recursive lemma per constructor.
-/
import Exmex.Proofs.DeepParseDefs
import Exmex.Proofs.MakeFlat
namespace Exmex.DeepParseWalk
open DeepParse MakeFlat

variable {α : Type} (I : Interp α) (t : Table) (vars : List Str)

theorem deepLeft_eq (T : List (Tok α)) (i : Nat) :
    (if (i == 0) = true then none else T[i - 1]?) = leftOf T i := by
  cases i <;> simp [leftOf]

section steps
variable {T : List (Tok α)} {i f : Nat} {nodes : List (DeepNode α)} {ops : List DBin}

theorem loop_num {v : α} (h : T[i]? = some (.num v)) :
    deepLoop I t vars (f + 1) T i nodes ops =
      deepLoop I t vars f T (i + 1) (nodes ++ [.num v]) ops := by
  rw [deepLoop, h]

theorem loop_none (h : T[i]? = none) :
    deepLoop I t vars (f + 1) T i nodes ops = .ok (nodes, ops, i) := by
  rw [deepLoop, h]

theorem loop_close (h : T[i]? = some .pclose) :
    deepLoop I t vars (f + 1) T i nodes ops = .ok (nodes, ops, i + 1) := by
  rw [deepLoop, h]

theorem loop_bin {o : Nat} {b : DBin} (h : T[i]? = some (.op o))
    (hb : isOperatorBinary t o (leftOf T i) = .ok true) (htb : tblBin t o = some b) :
    deepLoop I t vars (f + 1) T i nodes ops =
      deepLoop I t vars f T (i + 1) nodes (ops ++ [b]) := by
  rw [deepLoop, h]
  simp only [deepLeft_eq, hb, htb]

theorem loop_var {x : Str} (h : T[i]? = some (.var x)) (hx : x ∈ vars) :
    deepLoop I t vars (f + 1) T i nodes ops =
      deepLoop I t vars f T (i + 1) (nodes ++ [.var (varIndex vars x) x]) ops := by
  rw [deepLoop, h]
  simp only [findVarIndex_mem hx]

theorem loop_open {e : DeepEx α} {fwd : Nat} (h : T[i]? = some .popen)
    (hm : deepMake I t vars f (T.drop (i + 1)) [] = .ok (e, fwd)) :
    deepLoop I t vars (f + 1) T i nodes ops =
      deepLoop I t vars f T (i + 1 + fwd) (nodes ++ [.expr e]) ops := by
  rw [deepLoop, h]
  simp only [hm]

theorem loop_unary {u : Nat} {node : DeepNode α} {fwd : Nat} (h : T[i]? = some (.op u))
    (hb : isOperatorBinary t u (leftOf T i) = .ok false) (hu : tblHasUnary t u = true)
    (hp : processUnary I t vars f T i u = .ok (node, fwd)) :
    deepLoop I t vars (f + 1) T i nodes ops =
      deepLoop I t vars f T (i + fwd) (nodes ++ [node]) ops := by
  rw [deepLoop, h]
  simp only [deepLeft_eq, hb, hu, hp]
  rfl
end steps
theorem subsequentUnaries_run (us : List Nat) (tk : Tok α) (R : List (Tok α))
    (hu : ∀ u ∈ us, tblHasUnary t u = true) (htk : ∀ o, tk ≠ .op o) :
    subsequentUnaries t (us.map .op ++ tk :: R) = us := by
  induction us with
  | nil =>
    cases tk <;> first | rfl | exact absurd rfl (htk _)
  | cons u us ih =>
    simp only [List.map_cons, List.cons_append, subsequentUnaries,
      hu u List.mem_cons_self, if_true]
    rw [ih (fun x hx => hu x (List.mem_cons_of_mem _ hx))]

section pu
variable {T P R : List (Tok α)} {u : Nat} {us : List Nat} {tk : Tok α}

theorem pu_facts (hT : T = P ++ (u :: us).map .op ++ tk :: R)
    (hu : ∀ x ∈ u :: us, tblHasUnary t x = true) (htk : ∀ o, tk ≠ .op o) :
    subsequentUnaries t (T.drop (P.length + 1)) = us ∧
      T[P.length + (us.length + 1)]? = some tk ∧ T.drop (P.length + (us.length + 1) + 1) = R := by
  have h1 : T = (P ++ [Tok.op u]) ++ (us.map .op ++ tk :: R) := by rw [hT]; simp
  have h2 : T = (P ++ (u :: us).map .op) ++ tk :: R := hT
  have h3 : T = (P ++ (u :: us).map .op ++ [tk]) ++ R := by rw [hT]; simp
  refine ⟨?_, ?_, ?_⟩
  · have : T.drop (P.length + 1) = us.map .op ++ tk :: R := by
      rw [h1]
      exact List.drop_left' (by simp)
    rw [this]
    exact subsequentUnaries_run t us tk R (fun x hx => hu x (List.mem_cons_of_mem _ hx)) htk
  · exact getElem?_at' h2 (by simp)
  · rw [h3]
    exact List.drop_left' (by simp; omega)

theorem pu_num {f : Nat} {v : α} (hT : T = P ++ (u :: us).map .op ++ .num v :: R)
    (hu : ∀ x ∈ u :: us, tblHasUnary t x = true) :
    processUnary I t vars (f + 1) T P.length u =
      .ok (.num (applyUn I (u :: us) v), us.length + 1 + 1) := by
  obtain ⟨h1, h2, -⟩ := pu_facts t hT hu (by simp)
  rw [processUnary]
  simp only [h1, List.length_cons, h2]

theorem pu_var {f : Nat} {x : Str} {e : DeepEx α} (hT : T = P ++ (u :: us).map .op ++ .var x :: R)
    (hu : ∀ y ∈ u :: us, tblHasUnary t y = true) (hx : x ∈ vars)
    (hnew : DeepEx.new I [.var (varIndex vars x) x] [] (u :: us) = .ok e) :
    processUnary I t vars (f + 1) T P.length u = .ok (.expr e, us.length + 1 + 1) := by
  obtain ⟨h1, h2, -⟩ := pu_facts t hT hu (by simp)
  rw [processUnary]
  simp only [h1, List.length_cons, h2, findVarIndex_mem hx, hnew]

theorem pu_open {f : Nat} {e : DeepEx α} {fwd : Nat} (hT : T = P ++ (u :: us).map .op ++ .popen :: R)
    (hu : ∀ y ∈ u :: us, tblHasUnary t y = true)
    (hm : deepMake I t vars f R (u :: us) = .ok (e, fwd)) :
    processUnary I t vars (f + 1) T P.length u = .ok (.expr e, fwd + (us.length + 1) + 1) := by
  obtain ⟨h1, h2, h3⟩ := pu_facts t hT hu (by simp)
  rw [processUnary]
  simp only [h1, List.length_cons, h2, h3, hm]
end pu

/-! ### one operand position: unary run followed by a literal, a variable, or `(` -/

section operand
variable {T P R : List (Tok α)} {us : List Nat} {nodes : List (DeepNode α)} {ops : List DBin}

theorem tok_at_run {tk : Tok α} (hT : T = P ++ us.map .op ++ tk :: R) :
    T[P.length + us.length]? = some tk :=
  getElem?_at' (A := P ++ us.map .op) hT (by simp)

theorem unary_head {u : Nat} {us' : List Nat} {tk : Tok α}
    (hT : T = P ++ (u :: us').map .op ++ tk :: R)
    (hu : ∀ x ∈ u :: us', tblHasUnary t x = true) (hl : prefixLeft (leftOf T P.length) = true) :
    T[P.length]? = some (.op u) ∧ isOperatorBinary t u (leftOf T P.length) = .ok false ∧
      tblHasUnary t u = true := by
  refine ⟨?_, isOperatorBinary_unary (hu u List.mem_cons_self) hl, hu u List.mem_cons_self⟩
  exact getElem?_at' (A := P) (B := us'.map .op ++ tk :: R) (by rw [hT]; simp) rfl

theorem num_step {v : α} {fuel : Nat} (hT : T = P ++ us.map .op ++ .num v :: R)
    (hu : ∀ x ∈ us, tblHasUnary t x = true) (hl : prefixLeft (leftOf T P.length) = true)
    (hf : 1 ≤ fuel) :
    deepLoop I t vars (fuel + 1) T P.length nodes ops =
      deepLoop I t vars fuel T (P.length + us.length + 1) (nodes ++ [.num (applyUn I us v)]) ops := by
  cases us with
  | nil =>
    have := tok_at_run hT
    simp only [List.length_nil, Nat.add_zero] at this ⊢
    exact loop_num I t vars this
  | cons u us' =>
    obtain ⟨f, rfl⟩ : ∃ f, fuel = f + 1 := ⟨fuel - 1, by omega⟩
    obtain ⟨h1, h2, h3⟩ := unary_head t hT hu hl
    rw [loop_unary I t vars h1 h2 h3 (pu_num I t vars hT hu)]
    simp only [List.length_cons, Nat.add_assoc]

theorem var_step {x : Str} {fuel : Nat} {e : DeepEx α} (hT : T = P ++ us.map .op ++ .var x :: R)
    (hu : ∀ y ∈ us, tblHasUnary t y = true) (hl : prefixLeft (leftOf T P.length) = true)
    (hx : x ∈ vars) (hf : 1 ≤ fuel)
    (hnew : us ≠ [] → DeepEx.new I [.var (varIndex vars x) x] [] us = .ok e) :
    deepLoop I t vars (fuel + 1) T P.length nodes ops =
      deepLoop I t vars fuel T (P.length + us.length + 1)
        (nodes ++ [if us = [] then .var (varIndex vars x) x else .expr e]) ops := by
  cases us with
  | nil =>
    have := tok_at_run hT
    simp only [List.length_nil, Nat.add_zero] at this ⊢
    exact loop_var I t vars this hx
  | cons u us' =>
    obtain ⟨f, rfl⟩ : ∃ f, fuel = f + 1 := ⟨fuel - 1, by omega⟩
    obtain ⟨h1, h2, h3⟩ := unary_head t hT hu hl
    rw [loop_unary I t vars h1 h2 h3 (pu_var I t vars hT hu hx (hnew (by simp)))]
    simp only [List.length_cons, Nat.add_assoc, reduceCtorEq, if_false]

theorem open_step {fuel m fwd : Nat} {Q : DeepEx α → Prop}
    (hT : T = P ++ us.map .op ++ .popen :: R)
    (hu : ∀ y ∈ us, tblHasUnary t y = true) (hl : prefixLeft (leftOf T P.length) = true)
    (hf : m + 1 ≤ fuel)
    (hm : ∀ f', m ≤ f' → ∃ d, deepMake I t vars f' R us = .ok (d, fwd) ∧ Q d) :
    ∃ d, deepLoop I t vars (fuel + 1) T P.length nodes ops =
      deepLoop I t vars fuel T (P.length + us.length + 1 + fwd) (nodes ++ [.expr d]) ops ∧ Q d := by
  cases us with
  | nil =>
    have h0 := tok_at_run hT
    simp only [List.length_nil, Nat.add_zero] at h0 ⊢
    obtain ⟨d, hd, hq⟩ := hm fuel (by omega)
    have hdrop : T.drop (P.length + 1) = R := by
      have : T = (P ++ [Tok.popen]) ++ R := by rw [hT]; simp
      rw [this]; exact List.drop_left' (by simp)
    rw [← hdrop] at hd
    exact ⟨d, loop_open I t vars h0 hd, hq⟩
  | cons u us' =>
    obtain ⟨f, rfl⟩ : ∃ f, fuel = f + 1 := ⟨fuel - 1, by omega⟩
    obtain ⟨h1, h2, h3⟩ := unary_head t hT hu hl
    obtain ⟨d, hd, hq⟩ := hm f (by omega)
    refine ⟨d, ?_, hq⟩
    rw [loop_unary I t vars h1 h2 h3 (pu_open I t vars hT hu hd)]
    simp only [List.length_cons]
    congr 1
    omega

end operand

/-! ### fuel -/

mutual
def needAtom {α} : Atom α → Nat
  | .lit _ _ => 1
  | .var _ _ => 1
  | .const _ => 1
  | .par c => needChain c + 2
  | .call _ a b => needChain a + needChain b + 8
  | .un _ a => needAtom a + 1
def needChain {α} : Chain α → Nat
  | .single a => needAtom a + 1
  | .cons a _ rest => needAtom a + 1 + needChain rest
end

theorem needAtom_pos {α} (a : Atom α) : 1 ≤ needAtom a := by
  cases a <;> simp [needAtom] <;> omega

mutual
theorem needAtom_le (I : Interp α) : ∀ a : Atom α, needAtom a ≤ 2 * (a.toks I).length
  | .lit _ _ => by simp [needAtom, Atom.toks]
  | .var _ _ => by simp [needAtom, Atom.toks]
  | .const _ => by simp [needAtom, Atom.toks]
  | .par c => by
    have := needChain_le I c
    simp [needAtom, Atom.toks]; omega
  | .call _ a b => by
    have := needChain_le I a
    have := needChain_le I b
    simp [needAtom, Atom.toks]; omega
  | .un _ a => by
    have := needAtom_le I a
    simp [needAtom, Atom.toks]; omega
theorem needChain_le (I : Interp α) : ∀ c : Chain α, needChain c ≤ 2 * (c.toks I).length + 1
  | .single a => by
    have := needAtom_le I a
    simp [needChain, Chain.toks]; omega
  | .cons a _ rest => by
    have := needAtom_le I a
    have := needChain_le I rest
    simp [needChain, Chain.toks]; omega
end

/-! ### the statements proved by recursion over the surface syntax -/

section walk
variable (vals : List α) (ρ : Env α)

/-- how the token stream continues after a chain: end of input, or `)` -/
def Term (post : List (Tok α)) (k : Nat) : Prop :=
  (post = [] ∧ k = 0) ∨ (∃ p, post = .pclose :: p ∧ k = 1)

def VarsOK (occ : List Str) : Prop :=
  ∀ x ∈ occ, x ∈ vars ∧ vals[varIndex vars x]? = some (ρ x)

/-- one iteration of the parser loop consumes an operand with its unary run -/
def AtomStep (a : Atom α) : Prop :=
  ∀ (us : List Nat) (T P post : List (Tok α)) (nodes : List (DeepNode α)) (ops : List DBin)
    (fuel : Nat), a.WF t → a.Roles t → VarsOK vars vals ρ a.varOcc →
    (∀ u ∈ us, tblHasUnary t u = true) →
    T = P ++ us.map .op ++ a.toks I ++ post → prefixLeft (leftOf T P.length) = true →
    needAtom a ≤ fuel →
    ∃ nd, deepLoop I t vars (fuel + 1) T P.length nodes ops =
        deepLoop I t vars fuel T (P.length + us.length + (a.toks I).length) (nodes ++ [nd]) ops ∧
      NodeOK I t vals ρ a us nd

/-- the parser loop consumes a chain up to and including its terminator -/
def ChainLoop (c : Chain α) : Prop :=
  ∀ (T P post : List (Tok α)) (nodes : List (DeepNode α)) (ops : List DBin) (fuel k : Nat),
    c.WF t → c.Roles t → VarsOK vars vals ρ c.varOcc →
    T = P ++ c.toks I ++ post → Term post k → prefixLeft (leftOf T P.length) = true →
    needChain c ≤ fuel →
    ∃ ns, deepLoop I t vars fuel T P.length nodes ops =
        .ok (nodes ++ ns, ops ++ (chainOps c).map (mkDBin t), P.length + (c.toks I).length + k) ∧
      GroupRel I t vals ρ c ns

/-- `make_expression` on a chain followed by its terminator -/
def MakeChain (c : Chain α) : Prop :=
  ∀ (toks post : List (Tok α)) (un : List Nat) (fuel k : Nat),
    c.WF t → c.Roles t → VarsOK vars vals ρ c.varOcc →
    toks = c.toks I ++ post → Term post k → needChain c + 1 ≤ fuel →
    ∃ d, deepMake I t vars fuel toks un = .ok (d, (c.toks I).length + k) ∧
      ExprOK I t vals ρ c un d

variable {I t vars vals ρ}

theorem make_of_loop (hA : C01.FlaggedAssoc I t) (hvl : vars.length ≤ vals.length) {c : Chain α}
    (h : ChainLoop I t vars vals ρ c) : MakeChain I t vars vals ρ c := by
  intro toks post un fuel k hwf hr hv hT hterm hf
  obtain ⟨f, rfl⟩ : ∃ f, fuel = f + 1 := ⟨fuel - 1, by omega⟩
  obtain ⟨ns, hloop, hg⟩ := h toks [] post [] [] f k hwf hr hv (by simpa using hT) hterm rfl
    (by omega)
  obtain ⟨d, hnew, hd⟩ := make_ok I t vals ρ hA vars hvl c ns un (fun x hx => (hv x hx).1) hg
  refine ⟨d, ?_, hd⟩
  rw [deepMake]
  simp only [List.length_nil, List.nil_append, Nat.zero_add] at hloop
  simp only [hloop, hnew]

end walk

/-! ### transport of `NodeOK` -/

section transport
variable {I : Interp α} {t : Table} {vals : List α} {ρ : Env α}

theorem nodeOK_congr {a a' : Atom α} {us : List Nat} {nd : DeepNode α}
    (hd : a'.denoteS I t ρ = a.denoteS I t ρ) (hv : a'.varOcc = a.varOcc)
    (h : NodeOK I t vals ρ a us nd) : NodeOK I t vals ρ a' us nd := by
  unfold NodeOK at h ⊢
  rw [hd, hv]
  exact h

theorem denoteS_single (a : Atom α) : (Chain.single a).denoteS I t ρ = a.denoteS I t ρ := by
  rw [Chain.denoteS, Chain.operandsS]
  cases a.denoteS I t ρ with
  | none => rfl
  | some v => simp [splitEval]

theorem nodeOK_of_single {a : Atom α} {us : List Nat} {d : DeepEx α}
    (h : ExprOK I t vals ρ (.single a) us d) : NodeOK I t vals ρ a us (.expr d) := by
  refine nodeOK_congr (a := .par (.single a)) ?_ ?_ (nodeOK_par I t vals ρ h)
  · rw [Atom.denoteS, denoteS_single]
  · rw [Atom.varOcc, Chain.varOcc]

theorem denoteS_call (o : Nat) (a b : Chain α) :
    (Atom.call o a b).denoteS I t ρ =
      (Atom.par (.cons (.par a) o (.single (.par b)))).denoteS I t ρ := by
  rw [Atom.denoteS, Atom.denoteS]
  generalize hc : Chain.cons (Atom.par a) o (Chain.single (Atom.par b)) = c'
  rw [Chain.denoteS.eq_1 I t ρ c']
  subst hc
  rw [Chain.operandsS, Chain.operandsS, Atom.denoteS, Atom.denoteS]
  cases a.denoteS I t ρ <;> cases b.denoteS I t ρ <;> simp [splitEval, argminR]

end transport

/-! ### the cases of the recursion -/

section cases
variable {I : Interp α} {t : Table} {vars : List Str} {vals : List α} {ρ : Env α}

theorem lit_step (s : Str) (v : α) : AtomStep I t vars vals ρ (.lit s v) := by
  intro us T P post nodes ops fuel _ _ _ hu hT hl hf
  refine ⟨.num (applyUn I us v), ?_, ?_⟩
  · have hT' : T = P ++ us.map .op ++ .num v :: post := by rw [hT]; simp [Atom.toks]
    exact num_step I t vars hT' hu hl (by simpa [needAtom] using hf)
  · exact ⟨by rw [DeepNode.ShapeN]; trivial, trivial, ⟨v, by rw [Atom.denoteS],
      by rw [DeepNode.evalNode]⟩, rfl⟩

theorem const_step (k : Nat) : AtomStep I t vars vals ρ (.const k) := by
  intro us T P post nodes ops fuel _ _ _ hu hT hl hf
  refine ⟨.num (applyUn I us (I.const k)), ?_, ?_⟩
  · have hT' : T = P ++ us.map .op ++ .num (I.const k) :: post := by rw [hT]; simp [Atom.toks]
    exact num_step I t vars hT' hu hl (by simpa [needAtom] using hf)
  · exact ⟨by rw [DeepNode.ShapeN]; trivial, trivial, ⟨I.const k, by rw [Atom.denoteS],
      by rw [DeepNode.evalNode]⟩, rfl⟩

theorem var_atom_step (hA : C01.FlaggedAssoc I t) (hvl : vars.length ≤ vals.length)
    (x : Str) (br : Bool) : AtomStep I t vars vals ρ (.var x br) := by
  intro us T P post nodes ops fuel _ _ hv hu hT hl hf
  obtain ⟨hx, hval⟩ := hv x (by simp [Atom.varOcc])
  have hT' : T = P ++ us.map .op ++ .var x :: post := by rw [hT]; simp [Atom.toks]
  have hf1 : 1 ≤ fuel := by simpa [needAtom] using hf
  have hlt : varIndex vars x < vals.length := by
    rcases Nat.lt_or_ge (varIndex vars x) vals.length with h | h
    · exact h
    · rw [List.getElem?_eq_none h] at hval; cases hval
  have hbase : NodeOK I t vals ρ (.var x br) [] (.var (varIndex vars x) x) :=
    ⟨by rw [DeepNode.ShapeN]; exact hlt, trivial,
      ⟨ρ x, by rw [Atom.denoteS], by rw [DeepNode.evalNode, hval]; rfl⟩, rfl⟩
  by_cases hus : us = []
  · subst hus
    refine ⟨.var (varIndex vars x) x, ?_, hbase⟩
    have := var_step I t vars (nodes := nodes) (ops := ops) (e := default) hT' hu hl hx hf1
      (fun h => absurd rfl h)
    simpa [Atom.toks] using this
  · obtain ⟨d, hnew, hd⟩ := make_ok I t vals ρ hA vars hvl (.single (.var x br))
      [.var (varIndex vars x) x] us (fun y hy => by
        simp [Chain.varOcc, Atom.varOcc] at hy; subst hy; exact hx)
      (by rw [GroupRel]; exact ⟨_, rfl, hbase⟩)
    refine ⟨.expr d, ?_, nodeOK_of_single hd⟩
    have := var_step I t vars (nodes := nodes) (ops := ops) (e := d) hT' hu hl hx hf1
      (fun _ => hnew)
    rw [if_neg hus] at this
    exact this

theorem un_of {u : Nat} {a : Atom α} (h : AtomStep I t vars vals ρ a) :
    AtomStep I t vars vals ρ (.un u a) := by
  intro us T P post nodes ops fuel hwf hr hv hu hT hl hf
  rw [Atom.WF] at hwf
  rw [Atom.Roles] at hr
  rw [Atom.varOcc] at hv
  obtain ⟨nd, hloop, hnd⟩ := h (us ++ [u]) T P post nodes ops fuel hwf hr.2 hv
    (by
      intro x hx
      rcases List.mem_append.1 hx with hx | hx
      · exact hu x hx
      · simp at hx; subst hx; exact hr.1)
    (by rw [hT, Atom.toks]; simp) hl (by rw [needAtom] at hf; omega)
  refine ⟨nd, ?_, nodeOK_un I t vals ρ hnd⟩
  rw [hloop]
  congr 1
  rw [Atom.toks]
  simp only [List.length_append, List.length_cons, List.length_nil]
  omega

theorem par_of (hA : C01.FlaggedAssoc I t) (hvl : vars.length ≤ vals.length) {c : Chain α}
    (h : ChainLoop I t vars vals ρ c) : AtomStep I t vars vals ρ (.par c) := by
  intro us T P post nodes ops fuel hwf hr hv hu hT hl hf
  rw [Atom.WF] at hwf
  rw [Atom.Roles] at hr
  rw [Atom.varOcc] at hv
  rw [needAtom] at hf
  have hT' : T = P ++ us.map .op ++ .popen :: (c.toks I ++ .pclose :: post) := by
    rw [hT, Atom.toks]; simp
  obtain ⟨d, hloop, hd⟩ := open_step I t vars (nodes := nodes) (ops := ops) (m := needChain c + 1)
    (fwd := (c.toks I).length + 1) (Q := ExprOK I t vals ρ c us) hT' hu hl (by omega)
    (fun f' hf' => make_of_loop hA hvl h _ (.pclose :: post) us f' 1 hwf hr hv rfl
      (.inr ⟨post, rfl, rfl⟩) hf')
  refine ⟨.expr d, ?_, nodeOK_par I t vals ρ hd⟩
  rw [hloop]
  congr 1
  rw [Atom.toks]
  simp only [List.length_append, List.length_cons, List.length_nil]
  omega

theorem single_of {a : Atom α} (h : AtomStep I t vars vals ρ a) :
    ChainLoop I t vars vals ρ (.single a) := by
  intro T P post nodes ops fuel k hwf hr hv hT hterm hl hf
  rw [Chain.WF] at hwf
  rw [Chain.Roles] at hr
  rw [Chain.varOcc] at hv
  rw [needChain] at hf
  rw [Chain.toks] at hT
  obtain ⟨f, rfl⟩ : ∃ f, fuel = f + 1 := ⟨fuel - 1, by omega⟩
  obtain ⟨nd, hloop, hnd⟩ := h [] T P post nodes ops f hwf hr hv (by simp) (by simpa using hT) hl
    (by omega)
  have hpos := needAtom_pos a
  obtain ⟨f', rfl⟩ : ∃ f', f = f' + 1 := ⟨f - 1, by omega⟩
  refine ⟨[nd], ?_, by rw [GroupRel]; exact ⟨nd, rfl, hnd⟩⟩
  rw [hloop]
  simp only [List.length_nil, Nat.add_zero, chainOps, List.map_nil, List.append_nil, Chain.toks]
  rcases hterm with ⟨rfl, rfl⟩ | ⟨p, rfl, rfl⟩
  · rw [loop_none]
    · rfl
    · rw [hT]; simp
  · rw [loop_close]
    exact getElem?_at' (A := P ++ a.toks I) hT (by simp)

theorem cons_of {a : Atom α} {o : Nat} {rest : Chain α} (ha : AtomStep I t vars vals ρ a)
    (hrest : ChainLoop I t vars vals ρ rest) : ChainLoop I t vars vals ρ (.cons a o rest) := by
  intro T P post nodes ops fuel k hwf hr hv hT hterm hl hf
  rw [Chain.WF] at hwf
  rw [Chain.Roles] at hr
  rw [Chain.varOcc] at hv
  rw [needChain] at hf
  rw [Chain.toks] at hT
  obtain ⟨⟨b', hb', -, -⟩, hwa, hwr⟩ := hwf
  obtain ⟨hro, hra, hrr⟩ := hr
  have hpos := needAtom_pos a
  obtain ⟨f, rfl⟩ : ∃ f, fuel = f + 1 + 1 := ⟨fuel - 2, by omega⟩
  have hT1 : T = P ++ [].map Tok.op ++ a.toks I ++ (.op o :: (rest.toks I ++ post)) := by
    rw [hT]; simp
  obtain ⟨nd, hloop, hnd⟩ := ha [] T P _ nodes ops (f + 1) hwa hra
    (fun x hx => hv x (List.mem_append_left _ hx)) (by simp) hT1 hl (by omega)
  have hT2 : T = (P ++ a.toks I) ++ Tok.op o :: (rest.toks I ++ post) := by
    rw [hT]; simp
  obtain ⟨tk, hlast, hinf⟩ := atom_toks_last I a
  have hi : P.length + ([] : List Nat).length + (a.toks I).length = (P ++ a.toks I).length := by
    simp
  have hbin : isOperatorBinary t o (leftOf T (P.length + ([] : List Nat).length + (a.toks I).length))
      = .ok true := by
    rw [leftOf_append hT2 hi, getLast?_append_some hlast]
    exact isOperatorBinary_binary hro hinf
  have hT3 : T = (P ++ a.toks I ++ [.op o]) ++ rest.toks I ++ post := by
    rw [hT]; simp
  obtain ⟨ns, hloop2, hns⟩ := hrest T (P ++ a.toks I ++ [.op o]) post (nodes ++ [nd])
    (ops ++ [mkDBin t o]) f k hwr hrr (fun x hx => hv x (List.mem_append_right _ hx)) hT3 hterm
    (by rw [leftOf_append (Q := rest.toks I ++ post) (by rw [hT3]; simp) rfl,
          List.getLast?_concat]; rfl)
    (by omega)
  refine ⟨nd :: ns, ?_, by rw [GroupRel]; exact ⟨nd, ns, rfl, hnd, hns⟩⟩
  rw [hloop, loop_bin I t vars (getElem?_at' hT2 hi) hbin (tblBin_of_bin hb')]
  have e : P.length + ([] : List Nat).length + (a.toks I).length + 1 =
      (P ++ a.toks I ++ [Tok.op o]).length := by simp; omega
  rw [e, hloop2]
  simp only [chainOps, List.map_cons, List.append_assoc, List.cons_append, List.nil_append,
    List.length_append, List.length_cons, List.length_nil, Chain.toks]
  congr 3
  omega

theorem call_of (hA : C01.FlaggedAssoc I t) (hvl : vars.length ≤ vals.length) {o : Nat}
    {a b : Chain α} (ha : ChainLoop I t vars vals ρ a) (hb : ChainLoop I t vars vals ρ b) :
    AtomStep I t vars vals ρ (.call o a b) := by
  have hp : AtomStep I t vars vals ρ (.par (.cons (.par a) o (.single (.par b)))) :=
    par_of hA hvl (cons_of (par_of hA hvl ha) (single_of (par_of hA hvl hb)))
  have htoks : (Atom.call o a b).toks I =
      (Atom.par (.cons (.par a) o (.single (.par b)))).toks I := by
    simp [Atom.toks, Chain.toks]
  have hocc : (Atom.call o a b).varOcc =
      (Atom.par (.cons (.par a) o (.single (.par b)))).varOcc := by
    simp [Atom.varOcc, Chain.varOcc]
  intro us T P post nodes ops fuel hwf hr hv hu hT hl hf
  rw [Atom.WF] at hwf
  rw [Atom.Roles] at hr
  obtain ⟨nd, hloop, hnd⟩ := hp us T P post nodes ops fuel
    (by simp only [Atom.WF, Chain.WF]; exact ⟨hwf.1, hwf.2.1, hwf.2.2⟩)
    (by simp only [Atom.Roles, Chain.Roles]; exact ⟨hr.1, hr.2.1, hr.2.2⟩)
    (by rw [← hocc]; exact hv) hu (by rw [← htoks]; exact hT) hl
    (by simp only [needAtom, needChain] at hf ⊢; omega)
  refine ⟨nd, ?_, nodeOK_congr (denoteS_call o a b) hocc hnd⟩
  rw [htoks]
  exact hloop

end cases

/-! ### the recursion -/

section main
variable {I : Interp α} {t : Table} {vars : List Str} {vals : List α} {ρ : Env α}

mutual
theorem atom_all (hA : C01.FlaggedAssoc I t) (hvl : vars.length ≤ vals.length) :
    ∀ a : Atom α, AtomStep I t vars vals ρ a
  | .lit s v => lit_step s v
  | .var x br => var_atom_step hA hvl x br
  | .const k => const_step k
  | .par c => par_of hA hvl (chain_all hA hvl c)
  | .call _ a b => call_of hA hvl (chain_all hA hvl a) (chain_all hA hvl b)
  | .un _ a => un_of (atom_all hA hvl a)
theorem chain_all (hA : C01.FlaggedAssoc I t) (hvl : vars.length ≤ vals.length) :
    ∀ c : Chain α, ChainLoop I t vars vals ρ c
  | .single a => single_of (atom_all hA hvl a)
  | .cons a _ rest => cons_of (atom_all hA hvl a) (chain_all hA hvl rest)
end

end main
end Exmex.DeepParseWalk
