/-
  The structural flattening of a well-formed expression: what `make_expression` is meant to
  produce for the canonical token stream of a chain. Priorities are `prio + 1000·depth`; the unary
  chain in front of a parenthesised group goes to the right-most operator of lowest priority of
  the group (the one applied last), or to the single node of the group.
-/
import Exmex.Model.Flat
import Exmex.Spec.Surface
import Exmex.Spec.Split
namespace Exmex

/-- attach a pending unary chain to a flattened group -/
def attachUnary {α} (us : List Nat) (g : List (FlatNode α) × List FlatOp) :
    List (FlatNode α) × List FlatOp :=
  if us.isEmpty then g else
  match lowestTrailing g.2 (g.2.foldl (fun m o => min m o.prio) 0 - 1) with
  | some k => (g.1, g.2.modify k (fun o => { o with un := us ++ o.un }))
  | none =>
    match g.1.reverse with
    | last :: restRev => ((({ last with un := us ++ last.un }) :: restRev).reverse, g.2)
    | [] => g

def mkFlatOp (t : Table) (o : Nat) (d : Int) : FlatOp :=
  match (t[o]?).bind (·.bin) with
  | some b => { idx := o, prio := b.prio + d * DEPTH_PRIO_STEP, comm := b.comm }
  | none => { idx := o, prio := d * DEPTH_PRIO_STEP, comm := false }

def varIndex (vars : List Str) (x : Str) : Nat := (vars.idxOf? x).getD 0

mutual
/-- flatten an operand; `us` is the chain of unary operators written in front of it (outermost first) -/
def Atom.flat {α} (I : Interp α) (t : Table) (vars : List Str) : Atom α → List Nat → Int →
    List (FlatNode α) × List FlatOp
  | .lit _ v, us, _ => ([{ kind := .num v, un := us }], [])
  | .var x _, us, _ => ([{ kind := .var (varIndex vars x), un := us }], [])
  | .const k, us, _ => ([{ kind := .num (I.const k), un := us }], [])
  | .par c, us, d => attachUnary us (c.flat I t vars (d + 1))
  | .call o a b, us, d =>
    let ga := a.flat I t vars (d + 2)
    let gb := b.flat I t vars (d + 2)
    attachUnary us (ga.1 ++ gb.1, ga.2 ++ [mkFlatOp t o (d + 1)] ++ gb.2)
  | .un u a, us, d => a.flat I t vars (us ++ [u]) d
/-- flatten a chain at paren depth `d` -/
def Chain.flat {α} (I : Interp α) (t : Table) (vars : List Str) : Chain α → Int →
    List (FlatNode α) × List FlatOp
  | .single a, d => a.flat I t vars [] d
  | .cons a o rest, d =>
    let ga := a.flat I t vars [] d
    let gr := rest.flat I t vars d
    (ga.1 ++ gr.1, ga.2 ++ [mkFlatOp t o d] ++ gr.2)
end

/-- how a flat operator acts on values -/
def FlatOp.act {α} (I : Interp α) (o : FlatOp) (a b : α) : α := applyUn I o.un (I.bin o.idx a b)

/-- the total version of `binary_ops[idx].apply` for the flat operator at position `k` -/
def flatApplyT {α} (I : Interp α) (ops : List FlatOp) (k : Nat) (a b : α) : α :=
  match ops[k]? with
  | some op => applyUn I op.un (I.bin op.idx a b)
  | none => I.dflt

/-! the documented value, with the chain reduction written as "split at the operator applied last" -/
mutual
def Atom.denoteS {α} (I : Interp α) (t : Table) (ρ : Env α) : Atom α → Option α
  | .lit _ v => some v
  | .var x _ => some (ρ x)
  | .const k => some (I.const k)
  | .par c => c.denoteS I t ρ
  | .call o a b =>
    match a.denoteS I t ρ, b.denoteS I t ρ with
    | some x, some y => some (I.bin o x y)
    | _, _ => none
  | .un u a => (a.denoteS I t ρ).map (I.un u)
def Chain.operandsS {α} (I : Interp α) (t : Table) (ρ : Env α) : Chain α → Option (List α × List Nat)
  | .single a => (a.denoteS I t ρ).map (fun v => ([v], []))
  | .cons a o rest =>
    match a.denoteS I t ρ, rest.operandsS I t ρ with
    | some v, some (vs, os) => some (v :: vs, o :: os)
    | _, _ => none
def Chain.denoteS {α} (I : Interp α) (t : Table) (ρ : Env α) : Chain α → Option α
  | c =>
    match c.operandsS I t ρ with
    | some (vs, os) => splitEval I.bin (tblPrio t) os.length vs os
    | none => none
end

/-- Invariant on flat operator sequences: an operator carrying a unary chain is the right-most
    lowest one of its group, i.e. any later operator of the same priority is separated from it
    by a strictly lower one. -/
def UnaryOK (ops : List FlatOp) : Prop :=
  ∀ j k (_ : j < k) (hk : k < ops.length), (ops[j]'(by omega)).un ≠ [] →
    ops[k].prio = (ops[j]'(by omega)).prio →
    ∃ m, ∃ (_ : j < m) (hm : m < k), (ops[m]'(by omega)).prio < (ops[j]'(by omega)).prio

mutual
/-- every binary operator used has a binary role in the table with priority in 0..=99 -/
def Atom.WF {α} (t : Table) : Atom α → Prop
  | .lit _ _ => True
  | .var _ _ => True
  | .const _ => True
  | .par c => c.WF t
  | .call o a b => (∃ b', (t[o]?).bind (·.bin) = some b' ∧ 0 ≤ b'.prio ∧ b'.prio ≤ 99) ∧ a.WF t ∧ b.WF t
  | .un _ a => a.WF t
def Chain.WF {α} (t : Table) : Chain α → Prop
  | .single a => a.WF t
  | .cons a o rest =>
    (∃ b', (t[o]?).bind (·.bin) = some b' ∧ 0 ≤ b'.prio ∧ b'.prio ≤ 99) ∧ a.WF t ∧ rest.WF t
end

end Exmex
