/-
  Helper lemmas for C10 (calculations on deep expressions): a generic structural invariant of deep
  expressions (`GenEx`), its preservation by `lift_nodes` and the folding loop of `compile`,
  soundness of `reset_vars`, facts on the sorted union of variable lists, and the value of the
  two-operand group built by `operate_bin`.
-/
import Exmex.Model.Calc
import Exmex.Props.C02Deep
import Exmex.Proofs.Vars
namespace Exmex.CalcLemmas
open Exmex.DeepCompile

/-! ### a generic structural invariant -/

mutual
/-- every group has one more node than operators and a variable list satisfying `Q`; every
    variable node satisfies `V` -/
def GenEx {α} (Q : List Str → Prop) (V : Nat → Str → Prop) : DeepEx α → Prop
  | .mk nodes ops _ vars => nodes.length = ops.length + 1 ∧ Q vars ∧ genList Q V nodes
def GenNode {α} (Q : List Str → Prop) (V : Nat → Str → Prop) : DeepNode α → Prop
  | .num _ => True
  | .var i name => V i name
  | .expr e => GenEx Q V e
def genList {α} (Q : List Str → Prop) (V : Nat → Str → Prop) : List (DeepNode α) → Prop
  | [] => True
  | nd :: rest => GenNode Q V nd ∧ genList Q V rest
end

theorem genList_iff {α} (Q : List Str → Prop) (V : Nat → Str → Prop) (l : List (DeepNode α)) :
    genList Q V l ↔ ∀ nd ∈ l, GenNode Q V nd := by
  induction l with
  | nil => simp [genList]
  | cons nd rest ih => rw [genList, ih]; simp

theorem genNode_num {α} (Q : List Str → Prop) (V : Nat → Str → Prop) (a : α) :
    GenNode Q V (DeepNode.num a) := by
  rw [GenNode]; trivial

mutual
theorem genEx_mono {α} {Q Q' : List Str → Prop} {V V' : Nat → Str → Prop}
    (hQ : ∀ vs, Q vs → Q' vs) (hV : ∀ i nm, V i nm → V' i nm) :
    ∀ e : DeepEx α, GenEx Q V e → GenEx Q' V' e
  | .mk nodes ops un vars, h => by
    rw [GenEx] at h ⊢
    exact ⟨h.1, hQ _ h.2.1, genList_mono hQ hV nodes h.2.2⟩
theorem genNode_mono {α} {Q Q' : List Str → Prop} {V V' : Nat → Str → Prop}
    (hQ : ∀ vs, Q vs → Q' vs) (hV : ∀ i nm, V i nm → V' i nm) :
    ∀ nd : DeepNode α, GenNode Q V nd → GenNode Q' V' nd
  | .num a, _ => genNode_num _ _ a
  | .var i nm, h => by
    rw [GenNode] at h ⊢
    exact hV i nm h
  | .expr e, h => by
    rw [GenNode] at h ⊢
    exact genEx_mono hQ hV e h
theorem genList_mono {α} {Q Q' : List Str → Prop} {V V' : Nat → Str → Prop}
    (hQ : ∀ vs, Q vs → Q' vs) (hV : ∀ i nm, V i nm → V' i nm) :
    ∀ l : List (DeepNode α), genList Q V l → genList Q' V' l
  | [], _ => by rw [genList]; trivial
  | nd :: rest, h => by
    rw [genList] at h ⊢
    exact ⟨genNode_mono hQ hV nd h.1, genList_mono hQ hV rest h.2⟩
end

mutual
theorem genEx_shape {α} {Q : List Str → Prop} {V : Nat → Str → Prop} {n : Nat}
    (hQ : ∀ vs, Q vs → vs.length ≤ n) (hV : ∀ i nm, V i nm → i < n) :
    ∀ e : DeepEx α, GenEx Q V e → e.Shape n
  | .mk nodes ops un vars, h => by
    rw [GenEx] at h
    rw [DeepEx.Shape]
    exact ⟨h.1, hQ _ h.2.1, genList_shape hQ hV nodes h.2.2⟩
theorem genNode_shape {α} {Q : List Str → Prop} {V : Nat → Str → Prop} {n : Nat}
    (hQ : ∀ vs, Q vs → vs.length ≤ n) (hV : ∀ i nm, V i nm → i < n) :
    ∀ nd : DeepNode α, GenNode Q V nd → nd.ShapeN n
  | .num a, _ => by rw [DeepNode.ShapeN]; trivial
  | .var i nm, h => by
    rw [GenNode] at h
    rw [DeepNode.ShapeN]
    exact hV i nm h
  | .expr e, h => by
    rw [GenNode] at h
    rw [DeepNode.ShapeN]
    exact genEx_shape hQ hV e h
theorem genList_shape {α} {Q : List Str → Prop} {V : Nat → Str → Prop} {n : Nat}
    (hQ : ∀ vs, Q vs → vs.length ≤ n) (hV : ∀ i nm, V i nm → i < n) :
    ∀ l : List (DeepNode α), genList Q V l → shapeList n l
  | [], _ => by rw [shapeList]; trivial
  | nd :: rest, h => by
    rw [genList] at h
    rw [shapeList]
    exact ⟨genNode_shape hQ hV nd h.1, genList_shape hQ hV rest h.2⟩
end

theorem genEx_vars {α} {Q : List Str → Prop} {V : Nat → Str → Prop} (e : DeepEx α)
    (h : GenEx Q V e) : Q e.vars := by
  obtain ⟨nodes, ops, un, vars⟩ := e
  rw [GenEx] at h
  exact h.2.1

theorem genEx_nodes {α} {Q : List Str → Prop} {V : Nat → Str → Prop} (e : DeepEx α)
    (h : GenEx Q V e) : ∀ nd ∈ e.nodes, GenNode Q V nd := by
  obtain ⟨nodes, ops, un, vars⟩ := e
  rw [GenEx] at h
  exact (genList_iff Q V nodes).1 h.2.2

/-! ### `lift_nodes` preserves the invariant -/

theorem lift_gen {α} (Q : List Str → Prop) (V : Nat → Str → Prop) :
    (∀ e : DeepEx α, GenEx Q V e → GenEx Q V e.liftNodes) ∧
    (∀ l : List (DeepNode α), genList Q V l → genList Q V (liftNodeList l)) ∧
    (∀ nd : DeepNode α, GenNode Q V nd → GenNode Q V nd.liftNode) := by
  apply DeepEx.liftNodes.mutual_induct
  · intro ops' vars' a _
    rw [DeepNode.liftNode]
    exact genNode_num Q V a
  · intro ops' vars' i v h
    rw [GenNode, GenEx, genList, genList] at h
    rw [DeepNode.liftNode]
    exact h.2.2.1
  · intro ops' vars' ed ed' hc ih h
    rw [GenNode, GenEx, genList, GenNode] at h
    rw [DeepNode.liftNode.eq_3, if_pos hc, GenNode]
    exact ih h.2.2.1
  · intro ops' vars' ed ed' hc ih h
    rw [GenNode, GenEx, genList, GenNode] at h
    rw [DeepNode.liftNode.eq_3, if_neg hc, GenNode, GenEx, genList, GenNode]
    exact ⟨h.1, h.2.1, ih h.2.2.1, h.2.2.2⟩
  · intro other hne h
    rw [DeepNode.liftNode.eq_4 other hne]
    exact h
  · intro ops un vars e hc h
    rw [GenEx, genList, GenNode] at h
    rw [DeepEx.liftNodes.eq_1, if_pos hc]
    exact h.2.2.1
  · intro n ops un vars hc hne h
    have : (DeepEx.mk n ops un vars).liftNodes = DeepEx.mk n ops un vars := by
      rw [DeepEx.liftNodes.eq_def]
      simp only [hc, if_true]
    rw [this]
    exact h
  · intro n ops un vars hc ih h
    have : (DeepEx.mk n ops un vars).liftNodes = DeepEx.mk (liftNodeList n) ops un vars := by
      rw [DeepEx.liftNodes.eq_def]
      simp only [hc]
      rfl
    rw [this]
    rw [GenEx] at h ⊢
    rw [liftNodeList_length]
    exact ⟨h.1, h.2.1, ih h.2.2⟩
  · intro _
    rw [liftNodeList, genList]; trivial
  · intro nd rest ih1 ih2 h
    rw [genList] at h
    rw [liftNodeList, genList]
    exact ⟨ih1 h.1, ih2 h.2⟩

/-- `lift_nodes` keeps the variable list of a group that is not a bare wrapper -/
theorem liftNodes_vars_of_un {α} (nodes : List (DeepNode α)) (ops : List DBin) (u : Nat)
    (un : List Nat) (vars : List Str) :
    (DeepEx.mk nodes ops (u :: un) vars).liftNodes =
      DeepEx.mk (liftNodeList nodes) ops (u :: un) vars := by
  rw [DeepEx.liftNodes.eq_def]
  simp


/-! ### the folding loop only replaces nodes by literals -/

theorem step_nodes {α} (I : Interp α) (ops : List DBin) (P : DeepNode α → Prop)
    (hP : ∀ a, P (.num a)) (st : DCompileSt α) (b n : Nat) (ns : List Nat)
    (st' : DCompileSt α) (ns' : List Nat)
    (h : dcompileStep I ops st b n ns = .ok (st', ns')) (hst : ∀ nd ∈ st.nodes, P nd) :
    ∀ nd ∈ st'.nodes, P nd := by
  have hnew : ∀ v nd, nd ∈ (st.nodes.set n (.num v)).eraseIdx (n + 1) → P nd := by
    intro v nd hnd
    rcases List.mem_or_eq_of_mem_set (List.mem_of_mem_eraseIdx hnd) with h' | h'
    · exact hst nd h'
    · subst h'; exact hP v
  unfold dcompileStep at h
  split at h
  · split at h
    · split at h
      · split at h
        · cases h
        · cases h
          exact hnew _
      · cases h
        exact hst
    · cases h
      exact hst
  · cases h

theorem loop_nodes {α} (I : Interp α) (ops : List DBin) (P : DeepNode α → Prop)
    (hP : ∀ a, P (.num a)) :
    ∀ (bs ns : List Nat) (st st' : DCompileSt α), dcompileLoop I ops bs ns st = .ok st' →
      (∀ nd ∈ st.nodes, P nd) → ∀ nd ∈ st'.nodes, P nd := by
  intro bs
  induction bs with
  | nil =>
    intro ns st st' h hst
    rw [dcompileLoop] at h
    cases h
    exact hst
  | cons b bs ih =>
    intro ns st st' h hst
    cases ns with
    | nil => rw [dcompileLoop] at h; cases h
    | cons n ns =>
      rw [dcompileLoop] at h
      cases hs : dcompileStep I ops st b n ns with
      | error e => rw [hs] at h; cases h
      | ok p =>
        obtain ⟨st1, ns1⟩ := p
        rw [hs] at h
        exact ih ns1 st1 st' h (step_nodes I ops P hP st b n ns st1 ns1 hs hst)

/-- `compile` after `lift_nodes`: the variable list is kept and every node of the result is a node
    of the group or a literal -/
theorem foldGroup_nodes {α} (I : Interp α) (e1 e' : DeepEx α) (h : foldGroup I e1 = .ok e') :
    e'.vars = e1.vars ∧
      ∀ P : DeepNode α → Prop, (∀ a, P (.num a)) → (∀ nd ∈ e1.nodes, P nd) → ∀ nd ∈ e'.nodes, P nd := by
  unfold foldGroup at h
  simp only [] at h
  split at h
  · cases h
  · rename_i st hloop
    have hl := fun P hP => loop_nodes (α := α) I e1.ops P hP _ _ _ st hloop
    split at h
    · rename_i a ha
      cases h
      refine ⟨rfl, ?_⟩
      intro P hP _ nd hnd
      simp only [DeepEx.nodes, List.mem_singleton] at hnd
      subst hnd
      exact hP _
    · cases h
      refine ⟨rfl, ?_⟩
      intro P hP hst nd hnd
      exact hl P hP hst nd hnd

/-- `compile` preserves the generic invariant (the node/operator count of the result is known from
    `deep_compile_sound`) -/
theorem compile_gen {α} (I : Interp α) (Q : List Str → Prop) (V : Nat → Str → Prop)
    (e e' : DeepEx α) (h : e.compile I = .ok e') (hg : GenEx Q V e)
    (hlen : e'.nodes.length = e'.ops.length + 1) :
    GenEx Q V e' ∧ e'.vars = e.liftNodes.vars := by
  rw [compile_eq] at h
  have hg1 := (lift_gen Q V).1 e hg
  obtain ⟨hv, hn⟩ := foldGroup_nodes I _ _ h
  have hnodes := hn (GenNode Q V) (genNode_num Q V) (genEx_nodes _ hg1)
  have hq := genEx_vars _ hg1
  rw [← hv] at hq
  refine ⟨?_, hv⟩
  obtain ⟨nodes, ops, un, vars⟩ := e'
  rw [GenEx]
  exact ⟨hlen, hq, (genList_iff Q V nodes).2 hnodes⟩


/-! ### the priority order of a group only depends on which nodes are literals -/

theorem deepIsNumAt_eq {α} (n : List (DeepNode α)) (k : Nat) :
    deepIsNumAt n k = ((n.map (·.isNum))[k]?).getD false := by
  unfold deepIsNumAt
  rw [List.getElem?_map]
  cases n[k]? <;> rfl

theorem prioIdxDeep_congr {α} (ops : List DBin) (n n' : List (DeepNode α))
    (h : n'.map (·.isNum) = n.map (·.isNum)) : prioIdxDeep ops n' = prioIdxDeep ops n := by
  have hk : ∀ k, deepIsNumAt n' k = deepIsNumAt n k := fun k => by
    rw [deepIsNumAt_eq, deepIsNumAt_eq, h]
  have hb : ∀ k, deepBumped ops n' k = deepBumped ops n k := fun k => by
    unfold deepBumped
    rw [hk, hk]
  have hs : deepSortKey ops n' = deepSortKey ops n := by
    funext k
    unfold deepSortKey
    rw [hb]
  unfold prioIdxDeep
  rw [hs]

/-! ### `reset_vars` -/

/-- the variable-list condition of `Named top` -/
abbrev NQ (top : List Str) : List Str → Prop := fun vs => vs.length ≤ top.length
/-- the variable-node condition of `Named top` -/
abbrev NV (top : List Str) : Nat → Str → Prop := fun i nm => top[i]? = some nm
/-- every group carries exactly the list `all` -/
abbrev FQ (all : List Str) : List Str → Prop := fun vs => vs = all

mutual
theorem reset_ex {α} (I : Interp α) (top all : List Str) (hall : ∀ x ∈ top, x ∈ all)
    (ρ : Str → α) :
    ∀ e : DeepEx α, GenEx (NQ top) (NV top) e →
      ∃ e', e.resetVars all = some e' ∧ GenEx (FQ all) (NV all) e' ∧
        e'.evalRelaxed I (all.map ρ) = e.evalRelaxed I (top.map ρ) ∧ (e.Assoc I → e'.Assoc I)
  | .mk nodes ops un vars, h => by
    rw [GenEx] at h
    obtain ⟨ns', h1, h2, h3, h4, h5, h6⟩ := reset_list I top all hall ρ nodes h.2.2
    refine ⟨.mk ns' ops un all, ?_, ?_, ?_, ?_⟩
    · rw [DeepEx.resetVars, h1]
    · rw [GenEx]
      exact ⟨by rw [h5]; exact h.1, rfl, h2⟩
    · have hv : ¬ vars.length > (top.map ρ).length := by
        rw [List.length_map]; exact Nat.not_lt.2 h.2.1
      rw [DeepEx.evalRelaxed, DeepEx.evalRelaxed, if_neg (by simp), if_neg hv, h3,
        prioIdxDeep_congr ops _ _ h4]
    · intro hA
      rw [DeepEx.Assoc] at hA ⊢
      exact ⟨hA.1, h6 hA.2⟩
theorem reset_node {α} (I : Interp α) (top all : List Str) (hall : ∀ x ∈ top, x ∈ all)
    (ρ : Str → α) :
    ∀ nd : DeepNode α, GenNode (NQ top) (NV top) nd →
      ∃ nd', nd.resetVarsNode all = some nd' ∧ GenNode (FQ all) (NV all) nd' ∧
        nd'.evalNode I (all.map ρ) = nd.evalNode I (top.map ρ) ∧ nd'.isNum = nd.isNum ∧
        (nodeAssoc I nd → nodeAssoc I nd')
  | .num a, _ => by
    refine ⟨.num a, ?_, genNode_num _ _ a, ?_, rfl, fun h => h⟩
    · rw [DeepNode.resetVarsNode]
    · rw [DeepNode.evalNode, DeepNode.evalNode]
  | .var i nm, h => by
    rw [GenNode] at h
    have hi : top[i]? = some nm := h
    have hmem : nm ∈ all := hall nm (List.mem_of_getElem? hi)
    cases hj : all.idxOf? nm with
    | none => exact absurd hmem (List.idxOf?_eq_none_iff.1 hj)
    | some j =>
      obtain ⟨hjl, hje, -⟩ := List.idxOf?_eq_some_iff.1 hj
      have hj' : all[j]? = some nm := by rw [List.getElem?_eq_getElem hjl, hje]
      refine ⟨.var j nm, ?_, ?_, ?_, rfl, fun _ => trivial⟩
      · rw [DeepNode.resetVarsNode, hj]
      · rw [GenNode]; exact hj'
      · rw [DeepNode.evalNode, DeepNode.evalNode, List.getElem?_map, List.getElem?_map, hj', hi]
  | .expr e, h => by
    rw [GenNode] at h
    obtain ⟨e', h1, h2, h3, h4⟩ := reset_ex I top all hall ρ e h
    refine ⟨.expr e', ?_, ?_, ?_, rfl, ?_⟩
    · rw [DeepNode.resetVarsNode, h1]; rfl
    · rw [GenNode]; exact h2
    · rw [DeepNode.evalNode, DeepNode.evalNode, h3]
    · intro hA; exact h4 hA
theorem reset_list {α} (I : Interp α) (top all : List Str) (hall : ∀ x ∈ top, x ∈ all)
    (ρ : Str → α) :
    ∀ l : List (DeepNode α), genList (NQ top) (NV top) l →
      ∃ l', resetVarsList all l = some l' ∧ genList (FQ all) (NV all) l' ∧
        evalNodeList I (all.map ρ) l' = evalNodeList I (top.map ρ) l ∧
        l'.map (·.isNum) = l.map (·.isNum) ∧ l'.length = l.length ∧
        (assocList I l → assocList I l')
  | [], _ => by
    refine ⟨[], ?_, ?_, rfl, rfl, rfl, fun h => h⟩
    · rw [resetVarsList]
    · rw [genList]; trivial
  | nd :: rest, h => by
    rw [genList] at h
    obtain ⟨nd', a1, a2, a3, a4, a5⟩ := reset_node I top all hall ρ nd h.1
    obtain ⟨l', b1, b2, b3, b4, b5, b6⟩ := reset_list I top all hall ρ rest h.2
    refine ⟨nd' :: l', ?_, ?_, ?_, ?_, ?_, ?_⟩
    · rw [resetVarsList, a1, b1]
    · rw [genList]; exact ⟨a2, b2⟩
    · rw [evalNodeList, evalNodeList, a3, b3]
    · rw [List.map_cons, List.map_cons, a4, b4]
    · rw [List.length_cons, List.length_cons, b5]
    · intro hA
      rw [assocList_cons] at hA ⊢
      exact ⟨a5 hA.1, b6 hA.2⟩
end


/-! ### the sorted union of two variable lists -/

theorem nodup_foldl_pushNew {β} [DecidableEq β] (l acc : List β) (h : acc.Nodup) :
    (l.foldl pushNew acc).Nodup := by
  induction l generalizing acc with
  | nil => exact h
  | cons x xs ih => exact ih _ (nodup_pushNew acc x h)

theorem mem_foldl_pushNew {β} [DecidableEq β] (l acc : List β) (y : β) :
    y ∈ l.foldl pushNew acc ↔ y ∈ acc ∨ y ∈ l := by
  induction l generalizing acc with
  | nil => simp
  | cons x xs ih =>
    rw [List.foldl_cons, ih, mem_pushNew, List.mem_cons, or_assoc]

theorem foldl_pushNew_of_subset {β} [DecidableEq β] (l acc : List β) (h : ∀ x ∈ l, x ∈ acc) :
    l.foldl pushNew acc = acc := by
  induction l with
  | nil => rfl
  | cons x xs ih =>
    have hx : pushNew acc x = acc := by
      unfold pushNew
      rw [if_pos (by simpa using h x List.mem_cons_self)]
    rw [List.foldl_cons, hx]
    exact ih (fun y hy => h y (List.mem_cons_of_mem _ hy))

theorem foldl_pushNew_append {β} [DecidableEq β] (l acc : List β) (h : (acc ++ l).Nodup) :
    l.foldl pushNew acc = acc ++ l := by
  induction l generalizing acc with
  | nil => simp
  | cons x xs ih =>
    have hx : x ∉ acc := by
      intro hm
      have := (List.nodup_append.1 h).2.2 x hm x List.mem_cons_self
      exact this rfl
    have hp : pushNew acc x = acc ++ [x] := by
      unfold pushNew
      rw [if_neg (by simpa using hx)]
    rw [List.foldl_cons, hp, ih _ (by simpa using h)]
    simp

theorem foldl_pushNew_nil {β} [DecidableEq β] (l : List β) (h : l.Nodup) :
    l.foldl pushNew [] = l := by
  rw [foldl_pushNew_append l [] (by simpa using h)]
  simp

theorem insertBy_head {β} (le : β → β → Bool) (x : β) (l : List β) (h : ∀ y ∈ l, le x y = true) :
    insertBy le x l = x :: l := by
  cases l with
  | nil => rfl
  | cons y ys => rw [insertBy, if_pos (h y List.mem_cons_self)]

theorem sortBy_of_sorted {β} (le : β → β → Bool) (l : List β)
    (h : l.Pairwise (fun a b => le a b = true)) : sortBy le l = l := by
  induction l with
  | nil => rfl
  | cons x xs ih =>
    rw [List.pairwise_cons] at h
    show insertBy le x (sortBy le xs) = x :: xs
    rw [ih h.2, insertBy_head le x xs h.1]

theorem sortBy_strLe_of_strict (l : List Str) (h : l.Pairwise (fun a b => strLt a b = true)) :
    sortBy strLe l = l := by
  apply sortBy_of_sorted
  refine h.imp ?_
  intro a b hab
  unfold strLe
  rw [strLt_asymm' a b hab]
  rfl

/-- facts on `unionVars a b` -/
theorem union_facts (a b : List Str) (ha : a.Nodup) :
    (sortBy strLe (b.foldl pushNew a)).Nodup ∧
    (sortBy strLe (b.foldl pushNew a)).Pairwise (fun x y => strLt x y = true) ∧
    (∀ x ∈ a, x ∈ sortBy strLe (b.foldl pushNew a)) ∧
    (∀ x ∈ b, x ∈ sortBy strLe (b.foldl pushNew a)) := by
  have hnd := nodup_foldl_pushNew b a ha
  have hp := sortBy_perm strLe (b.foldl pushNew a)
  refine ⟨hp.nodup_iff.2 hnd, sortBy_strLe_strict _ hnd, ?_, ?_⟩
  · intro x hx
    exact hp.mem_iff.2 ((mem_foldl_pushNew b a x).2 (Or.inl hx))
  · intro x hx
    exact hp.mem_iff.2 ((mem_foldl_pushNew b a x).2 (Or.inr hx))

/-- the names `DeepEx::new` finds in two operands that both carry the strictly sorted list `all` -/
theorem foundVars_two {α} (a b : DeepEx α) (all : List Str) (ha : a.vars = all) (hb : b.vars = all)
    (hs : all.Pairwise (fun x y => strLt x y = true)) :
    foundVars [DeepNode.expr a, DeepNode.expr b] = all := by
  have hnd : all.Nodup := by
    refine hs.imp ?_
    intro x y hxy he
    subst he
    rw [strLt_irrefl'] at hxy
    cases hxy
  unfold foundVars
  simp only [List.foldl_cons, List.foldl_nil, ha, hb]
  rw [foldl_pushNew_nil all hnd, foldl_pushNew_of_subset all all (fun x hx => hx),
    sortBy_strLe_of_strict all hs]

/-! ### the group built by `operate_bin` -/

theorem eval_two {α} (I : Interp α) (vals : List α) (a b : DeepEx α) (op : DBin) (vars : List Str)
    (va vb : α) (hv : vars.length ≤ vals.length)
    (ha : a.evalRelaxed I vals = .ok va) (hb : b.evalRelaxed I vals = .ok vb)
    (hA : DeepAssoc I [op]) :
    (DeepEx.mk [.expr a, .expr b] [op] [] vars).evalRelaxed I vals = .ok (I.bin op.idx va vb) := by
  have hn : evalNodeList I vals [DeepNode.expr a, DeepNode.expr b] = .ok [va, vb] := by
    rw [evalNodeList, evalNodeList, evalNodeList, DeepNode.evalNode, DeepNode.evalNode, ha, hb]
  obtain ⟨v, h1, h2⟩ := eval_mk I vals _ [op] [] vars [va, vb] hv hn rfl hA
  rw [h2]
  simp [splitEval, argminR] at h1
  subst h1
  rfl

/-- the value after one more unary operator -/
theorem eval_un_cons {α} (I : Interp α) (vals : List α) (nodes : List (DeepNode α))
    (ops : List DBin) (u : Nat) (un : List Nat) (vars : List Str) (va : α)
    (h : (DeepEx.mk nodes ops un vars).evalRelaxed I vals = .ok va) :
    (DeepEx.mk nodes ops (u :: un) vars).evalRelaxed I vals = .ok (I.un u va) := by
  rw [DeepEx.evalRelaxed] at h ⊢
  split at h
  · cases h
  · rename_i hv
    rw [if_neg hv]
    split at h
    · cases h
    · rename_i numbers hn
      split at h
      · cases h
      · cases h
        rfl


theorem new_eq_compile {α} (I : Interp α) (nodes : List (DeepNode α)) (ops : List DBin)
    (un : List Nat) (hlen : nodes.length = ops.length + 1) :
    DeepEx.new I nodes ops un = (DeepEx.mk nodes ops un (foundVars nodes)).compile I := by
  unfold DeepEx.new
  rw [if_neg (by rw [hlen]; simp), if_neg (by simp [hlen])]

theorem shape_len {α} {n : Nat} (e : DeepEx α) (h : e.Shape n) :
    e.nodes.length = e.ops.length + 1 := by
  obtain ⟨nodes, ops, un, vars⟩ := e
  rw [DeepEx.Shape] at h
  exact h.1


end Exmex.CalcLemmas
