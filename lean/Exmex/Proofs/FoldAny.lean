/-
  C02 for arbitrary flat expressions: `FlatEx::compile` preserves the value of EVERY flat
  expression with matching lengths and key order whose flagged operators are associative — no
  assumption on where unary chains sit (`UnaryOK` is not needed, so the result covers what the
  token walker builds from sloppy texts such as `+ s(x+2)(3+4)`).

  Folding with the stale sort keys preserves the split evaluation by those keys
  (`CompileSound.CInv`); this file shows that the recomputed keys of the surviving operators give
  the same split evaluation (`FoldAny.Bump2`).
-/
import Exmex.Proofs.FoldAnyAux
import Exmex.Proofs.CompileLoop
namespace Exmex
namespace FoldAny
open BumpAux CompileSound

/-! ### `leftCompatible` and `bumped`, spelled out -/

theorem leftCompatible_iff (ops : List FlatOp) (op : FlatOp) :
    ∀ (k : Nat), k ≤ ops.length →
    (leftCompatible (ops.take k).reverse op = true ↔
      ∀ j, j < k → (opAt ops j).prio ≤ op.prio →
        (∀ m, j < m → m < k → op.prio < (opAt ops m).prio) →
        ((opAt ops j).prio < op.prio ∨ (opAt ops j).idx = op.idx)) := by
  intro k
  induction k with
  | zero =>
    intro _
    simp [leftCompatible]
  | succ k ih =>
    intro hk
    have hk' : k < ops.length := by omega
    have ek : opAt ops k = ops[k] := getD_eq_getElem' ops k hk'
    have e : (ops.take (k + 1)).reverse = ops[k] :: (ops.take k).reverse := by
      rw [List.take_succ_eq_append_getElem hk', List.reverse_append]
      rfl
    rw [e]
    by_cases hP : ops[k].prio ≤ op.prio
    · have hfind : (ops[k] :: (ops.take k).reverse).find? (fun l => decide (l.prio ≤ op.prio)) =
          some ops[k] := List.find?_cons_of_pos (by simpa using hP)
      unfold leftCompatible
      rw [hfind]
      simp only [Bool.or_eq_true, decide_eq_true_eq, beq_iff_eq]
      constructor
      · intro h j hj h1 h2
        rcases Nat.eq_or_lt_of_le (Nat.le_of_lt_succ hj) with e1 | e1
        · subst e1; rw [ek]; exact h
        · have := h2 k e1 (by omega)
          rw [ek] at this
          omega
      · intro h
        have := h k (by omega) (by rw [ek]; exact hP) (fun m m1 m2 => by omega)
        rw [ek] at this
        exact this
    · have hfind : (ops[k] :: (ops.take k).reverse).find? (fun l => decide (l.prio ≤ op.prio)) =
          ((ops.take k).reverse).find? (fun l => decide (l.prio ≤ op.prio)) :=
        List.find?_cons_of_neg (by simpa using hP)
      have ih' := ih (by omega)
      unfold leftCompatible at ih' ⊢
      rw [hfind, ih']
      constructor
      · intro h j hj h1 h2
        rcases Nat.eq_or_lt_of_le (Nat.le_of_lt_succ hj) with e1 | e1
        · subst e1; rw [ek] at h1; exact absurd h1 hP
        · exact h j e1 h1 (fun m m1 m2 => h2 m m1 (by omega))
      · intro h j hj h1 h2
        refine h j (by omega) h1 ?_
        intro m m1 m2
        rcases Nat.eq_or_lt_of_le (Nat.le_of_lt_succ m2) with e1 | e1
        · subst e1; rw [ek]; omega
        · exact h2 m m1 e1

theorem bumped_iff {α : Type} (ops : List FlatOp) (nodes : List (FlatNode α)) (k : Nat)
    (hk : k < ops.length) :
    bumped ops nodes k = true ↔
      isNumAt nodes k = true ∧ isNumAt nodes (k + 1) = true ∧ (opAt ops k).comm = true ∧
        (opAt ops k).un = [] ∧ leftCompatible (ops.take k).reverse (opAt ops k) = true := by
  have ek : opAt ops k = ops[k] := getD_eq_getElem' ops k hk
  unfold bumped
  rw [List.getElem?_eq_getElem hk, ek]
  simp only [Bool.and_eq_true, List.isEmpty_iff]
  constructor
  · rintro ⟨⟨⟨⟨a, b⟩, c⟩, d⟩, e⟩; exact ⟨a, b, c, d, e⟩
  · rintro ⟨a, b, c, d, e⟩; exact ⟨⟨⟨⟨a, b⟩, c⟩, d⟩, e⟩

/-- a flagged operator has the table index of the nearest operator of its priority on the left -/
theorem orig_left {α : Type} (ops : List FlatOp) (nodes : List (FlatNode α)) :
    ∀ j k, j < k → k < ops.length → bumped ops nodes k = true →
      (opAt ops j).prio = (opAt ops k).prio →
      (∀ m, j < m → m < k → (opAt ops k).prio < (opAt ops m).prio) →
      (opAt ops j).idx = (opAt ops k).idx := by
  intro j k hjk hk hb hp hbetween
  have hlc := ((bumped_iff ops nodes k hk).1 hb).2.2.2.2
  rcases (leftCompatible_iff ops (opAt ops k) k (by omega)).1 hlc j hjk (by omega) hbetween with h | h
  · omega
  · exact h

/-! ### the surviving operators -/

section
variable {α : Type} (ops : List FlatOp) (nodes : List (FlatNode α)) (rem : List Nat)
  (hs : rem.Pairwise (· < ·)) (hlt : ∀ k ∈ rem, k < ops.length)
  (hF : FoldRec (sortKey ops nodes) ops.length rem)
include hs hlt hF

/-- between two surviving operators of priority `p` that are separated by higher surviving
    operators only, every operator of the full sequence with priority `≤ p` has priority `p` and
    is flagged -/
theorem between_spec {j q : Nat} (hjq : j < q) (hq : q < rem.length)
    (hp : (opAt ops (rem[j]'(by omega))).prio = (opAt ops rem[q]).prio)
    (hbetween : ∀ t (_ : j < t) (h2 : t < q), (opAt ops rem[q]).prio < (opAt ops (rem[t]'(by omega))).prio) :
    ∀ m, rem[j]'(by omega) < m → m < rem[q] → (opAt ops m).prio ≤ (opAt ops rem[q]).prio →
      (opAt ops m).prio = (opAt ops rem[q]).prio ∧ bumped ops nodes m = true := by
  intro m m1 m2 m3
  have hj : j < rem.length := by omega
  have hjm : rem[j] ∈ rem := List.getElem_mem _
  have hjn : rem[j] < ops.length := hlt _ hjm
  have hqn : rem[q] < ops.length := hlt _ (List.getElem_mem _)
  have hmn : m < ops.length := by omega
  have bj := sortKey_bounds ops nodes rem[j] hjn
  have bm := sortKey_bounds ops nodes m hmn
  have em := sortKey_eq ops nodes m hmn
  rcases left_descent hF hjm m m1 hmn with h | ⟨c, c1, c2, c3, c4⟩
  · simp only [opAt] at *
    split at em <;> first | (constructor <;> first | assumption | omega) | omega
  · exfalso
    obtain ⟨t, ht, rfl⟩ := List.getElem_of_mem c1
    have t1 : j < t := sorted_idx_lt hs hj ht c2
    have t2 : t < q := sorted_idx_lt hs ht hq (by omega)
    have := hbetween t t1 t2
    have bc := sortKey_bounds ops nodes rem[t] (hlt _ c1)
    omega

/-- stale flags on the survivors: chains share one table index -/
theorem left_rem {j q : Nat} (hjq : j < q) (hq : q < rem.length)
    (hb : bumped ops nodes rem[q] = true)
    (hp : (opAt ops (rem[j]'(by omega))).prio = (opAt ops rem[q]).prio)
    (hbetween : ∀ t (_ : j < t) (h2 : t < q), (opAt ops rem[q]).prio < (opAt ops (rem[t]'(by omega))).prio) :
    (opAt ops (rem[j]'(by omega))).idx = (opAt ops rem[q]).idx := by
  have hj : j < rem.length := by omega
  have hqn : rem[q] < ops.length := hlt _ (List.getElem_mem _)
  have hjq0 : rem[j] < rem[q] := sorted_getElem_lt hs hq hjq
  have X := between_spec ops nodes rem hs hlt hF hjq hq hp hbetween
  refine idx_chain (orig_left ops nodes) (rem[q] - rem[j]) rem[j] rem[q] rfl hjq0 hqn hp ?_ ?_
  · intro m m1 m2
    by_cases h : (opAt ops m).prio ≤ (opAt ops rem[q]).prio
    · have := (X m m1 m2 h).1; omega
    · omega
  · intro m m1 m2 m3
    rcases Nat.eq_or_lt_of_le m2 with e | h
    · subst e; exact hb
    · exact (X m m1 h (by omega)).2

end

/-! ### recomputed flags on the survivors -/

theorem opAt_map (ops : List FlatOp) (rem : List Nat) (q : Nat) (hq : q < rem.length) :
    opAt (rem.map (opAt ops)) q = opAt ops rem[q] := by
  simp [opAt, List.getD_eq_getElem?_getD, hq]

/-- the node kinds next to a surviving operator are those of the full sequence -/
def NumSame {α : Type} (nodes nodes' : List (FlatNode α)) (rem : List Nat) : Prop :=
  ∀ q (hq : q < rem.length), isNumAt nodes' q = isNumAt nodes rem[q] ∧
    isNumAt nodes' (q + 1) = isNumAt nodes (rem[q] + 1)

section
variable {α : Type} (ops : List FlatOp) (nodes nodes' : List (FlatNode α)) (rem : List Nat)
  (hs : rem.Pairwise (· < ·)) (hlt : ∀ k ∈ rem, k < ops.length)
  (hF : FoldRec (sortKey ops nodes) ops.length rem) (hN : NumSame nodes nodes' rem)
include hs hlt hF hN

/-- a stale flag stays -/
theorem mono_rem {q : Nat} (hq : q < rem.length) (hb : bumped ops nodes rem[q] = true) :
    bumped (rem.map (opAt ops)) nodes' q = true := by
  have hqn : rem[q] < ops.length := hlt _ (List.getElem_mem _)
  obtain ⟨a, b, c, d, -⟩ := (bumped_iff ops nodes rem[q] hqn).1 hb
  have eq := opAt_map ops rem q hq
  rw [bumped_iff _ _ q (by simpa using hq), eq]
  refine ⟨by rw [(hN q hq).1]; exact a, by rw [(hN q hq).2]; exact b, c, d, ?_⟩
  rw [leftCompatible_iff _ _ q (by simp; omega)]
  intro j hj h1 h2
  have ej := opAt_map ops rem j (by omega)
  rw [ej] at h1 ⊢
  by_cases hl : (opAt ops rem[j]).prio < (opAt ops rem[q]).prio
  · exact Or.inl hl
  · refine Or.inr (left_rem ops nodes rem hs hlt hF hj hq hb (by omega) ?_)
    intro t t1 t2
    have := h2 t t1 t2
    rwa [opAt_map ops rem t (by omega)] at this

/-- a new flag appears only on an operator without an operator of its priority on the left -/
theorem fresh_rem {k q : Nat} (hkq : k < q) (hq : q < rem.length)
    (hb2 : bumped (rem.map (opAt ops)) nodes' q = true) (hb1 : bumped ops nodes rem[q] = false)
    (hp : (opAt ops (rem[k]'(by omega))).prio = (opAt ops rem[q]).prio)
    (hbetween : ∀ t (_ : k < t) (h2 : t < q), (opAt ops rem[q]).prio < (opAt ops (rem[t]'(by omega))).prio) :
    False := by
  have hk : k < rem.length := by omega
  have hqn : rem[q] < ops.length := hlt _ (List.getElem_mem _)
  have hkn : rem[k] < ops.length := hlt _ (List.getElem_mem _)
  have hkq0 : rem[k] < rem[q] := sorted_getElem_lt hs hq hkq
  have eq := opAt_map ops rem q hq
  obtain ⟨a, b, c, d, e⟩ := (bumped_iff _ _ q (by simpa using hq)).1 hb2
  rw [eq] at c d e
  -- the recomputed flag: same table index as the nearest survivor of the same priority
  have hidx : (opAt ops rem[k]).idx = (opAt ops rem[q]).idx := by
    have := (leftCompatible_iff _ _ q (by simp; omega)).1 e k hkq
      (by rw [opAt_map ops rem k hk]; omega)
      (fun t t1 t2 => by rw [opAt_map ops rem t (by omega)]; exact hbetween t t1 t2)
    rw [opAt_map ops rem k hk] at this
    rcases this with h | h
    · omega
    · exact h
  -- the stale flag is unset because of the left context in the full sequence
  have hnlc : ¬ leftCompatible (ops.take rem[q]).reverse (opAt ops rem[q]) = true := by
    intro hlc
    have : bumped ops nodes rem[q] = true :=
      (bumped_iff ops nodes rem[q] hqn).2
        ⟨by rw [← (hN q hq).1]; exact a, by rw [← (hN q hq).2]; exact b, c, d, hlc⟩
    rw [hb1] at this
    cases this
  rw [leftCompatible_iff ops _ rem[q] (by omega)] at hnlc
  have hex : ∃ j0, j0 < rem[q] ∧ (opAt ops j0).prio ≤ (opAt ops rem[q]).prio ∧
      (∀ m, j0 < m → m < rem[q] → (opAt ops rem[q]).prio < (opAt ops m).prio) ∧
      ¬ ((opAt ops j0).prio < (opAt ops rem[q]).prio ∨ (opAt ops j0).idx = (opAt ops rem[q]).idx) :=
    Classical.byContradiction fun hne => hnlc (fun j0 h0 h1 h2 =>
      Classical.byContradiction fun h3 => hne ⟨j0, h0, h1, h2, h3⟩)
  obtain ⟨j0, h0, h1, h2, h3⟩ := hex
  have X := between_spec ops nodes rem hs hlt hF hkq hq hp hbetween
  rcases Nat.lt_trichotomy j0 rem[k] with hlt0 | heq | hgt
  · have := h2 rem[k] hlt0 hkq0
    omega
  · subst heq
    exact h3 (Or.inr hidx)
  · have hj0 := X j0 hgt h0 h1
    have hc := idx_chain (orig_left ops nodes) (j0 - rem[k]) rem[k] j0 rfl hgt (by omega)
      (by omega)
      (fun m m1 m2 => by
        by_cases h : (opAt ops m).prio ≤ (opAt ops rem[q]).prio
        · have := (X m m1 (by omega) h).1; omega
        · omega)
      (fun m m1 m2 m3 => (X m m1 (by omega) (by omega)).2)
    exact h3 (Or.inr (hc.symm.trans hidx))

end

/-! ### stale keys and recomputed keys give the same value -/

theorem bump2_rem {α : Type} (I : Interp α) (ops : List FlatOp) (nodes nodes' : List (FlatNode α))
    (hA : ∀ o ∈ ops, o.comm = true →
      ∀ x y z, I.bin o.idx (I.bin o.idx x y) z = I.bin o.idx x (I.bin o.idx y z))
    (rem : List Nat) (hs : rem.Pairwise (· < ·)) (hlt : ∀ k ∈ rem, k < ops.length)
    (hF : FoldRec (sortKey ops nodes) ops.length rem) (hN : NumSame nodes nodes' rem) :
    Bump2 (fun q => flatApplyT I ops (rem.getD q 0)) rem.length
      (fun q => (opAt ops (rem.getD q 0)).prio) (fun q => bumped ops nodes (rem.getD q 0))
      (fun q => bumped (rem.map (opAt ops)) nodes' q)
      (fun q => (opAt ops (rem.getD q 0)).idx) I.bin := by
  have eg : ∀ q (hq : q < rem.length), rem.getD q 0 = rem[q] := fun q hq => by
    simp [List.getD_eq_getElem?_getD, hq]
  refine ⟨?_, ?_, ?_, ?_, ?_⟩
  · intro q hq hb
    simp only [eg q hq] at hb
    exact mono_rem ops nodes nodes' rem hs hlt hF hN hq hb
  · intro k q hkq hq hb2 hb1 hp hbetween
    have hk : k < rem.length := by omega
    simp only [eg q hq, eg k hk] at hb1 hp hbetween
    refine fresh_rem ops nodes nodes' rem hs hlt hF hN hkq hq hb2 hb1 hp ?_
    intro t t1 t2
    have := hbetween t t1 t2
    rwa [eg t (by omega)] at this
  · intro q hq hb x y
    have hqn : rem[q] < ops.length := hlt _ (List.getElem_mem _)
    obtain ⟨-, -, -, d, -⟩ := (bumped_iff _ _ q (by simpa using hq)).1 hb
    rw [opAt_map ops rem q hq] at d
    simp only [eg q hq]
    rw [flatApplyT_eq_act I ops _ hqn, FlatOp.act, d]
    rfl
  · intro q hq hb
    have hqn : rem[q] < ops.length := hlt _ (List.getElem_mem _)
    obtain ⟨-, -, c, -, -⟩ := (bumped_iff _ _ q (by simpa using hq)).1 hb
    rw [opAt_map ops rem q hq] at c
    simp only [eg q hq]
    have e : opAt ops rem[q] = ops[rem[q]] := getD_eq_getElem' ops _ hqn
    rw [e] at c ⊢
    exact hA _ (List.getElem_mem hqn) c
  · intro j q hjq hq hb hp hbetween
    have hj : j < rem.length := by omega
    simp only [eg q hq, eg j hj] at hb hp hbetween ⊢
    refine left_rem ops nodes rem hs hlt hF hjq hq hb hp ?_
    intro t t1 t2
    have := hbetween t t1 t2
    rwa [eg t (by omega)] at this

/-- split evaluation of the survivors by the stale keys = split evaluation of the compiled
    expression by its own keys -/
theorem splitEval_rem_new {α : Type} (I : Interp α) (ops : List FlatOp)
    (nodes nodes' : List (FlatNode α))
    (hA : ∀ o ∈ ops, o.comm = true →
      ∀ x y z, I.bin o.idx (I.bin o.idx x y) z = I.bin o.idx x (I.bin o.idx y z))
    (rem : List Nat) (hs : rem.Pairwise (· < ·)) (hlt : ∀ k ∈ rem, k < ops.length)
    (hF : FoldRec (sortKey ops nodes) ops.length rem) (hN : NumSame nodes nodes' rem)
    (vs : List α) (hlen : vs.length = rem.length + 1) :
    splitEval (flatApplyT I ops) (sortKey ops nodes) vs.length vs rem =
      splitEval (flatApplyT I (rem.map (opAt ops))) (sortKey (rem.map (opAt ops)) nodes') vs.length
        vs (List.range rem.length) := by
  have H := bump2_rem I ops nodes nodes' hA rem hs hlt hF hN
  have eg : ∀ q (hq : q < rem.length), rem.getD q 0 = rem[q] := fun q hq => by
    simp [List.getD_eq_getElem?_getD, hq]
  rw [splitEval_reindex (flatApplyT I ops) (sortKey ops nodes) _ vs rem 0]
  rw [splitEval_bump2 H (fun q => sortKey ops nodes (rem.getD q 0))
    (fun q => sortKey (rem.map (opAt ops)) nodes' q) ?_ ?_ vs hlen]
  · apply splitEval_congr
    · intro q hq a b
      have hq' : q < rem.length := List.mem_range.1 hq
      have hqn : rem[q] < ops.length := hlt _ (List.getElem_mem _)
      rw [eg q hq', flatApplyT_eq_act I ops _ hqn,
        flatApplyT_eq_act I _ q (by simpa using hq'), opAt_map ops rem q hq']
    · intro q _; rfl
  · intro q hq
    have hqn : rem.getD q 0 < ops.length := by
      rw [eg q hq]; exact hlt _ (List.getElem_mem _)
    exact sortKey_eq ops nodes _ hqn
  · intro q hq
    have := sortKey_eq (rem.map (opAt ops)) nodes' q (by simpa using hq)
    rw [this]
    have e : (rem.map (opAt ops)).getD q default = opAt ops (rem.getD q 0) := by
      rw [eg q hq]; exact opAt_map ops rem q hq
    rw [e]

/-! ### node kinds along the folding loop -/

theorem isNumAt_fold {α : Type} (nodes : List (FlatNode α)) (p : Nat) (v : α)
    (hp : p < nodes.length) (q : Nat) :
    isNumAt ((nodes.set p { kind := .num v }).eraseIdx (p + 1)) q =
      if q < p then isNumAt nodes q else if q = p then true else isNumAt nodes (q + 1) := by
  simp only [isNumAt, List.getElem?_eraseIdx, List.getElem?_set]
  by_cases h1 : q < p
  · have : q < p + 1 := by omega
    have : ¬ p = q := by omega
    simp [*]
  · by_cases h2 : q = p
    · subst h2
      simp [hp, NodeKind.isNum]
    · have : ¬ q < p + 1 := by omega
      have : ¬ p = q + 1 := by omega
      simp [*]

section
variable {α : Type} {I : Interp α} {ops : List FlatOp} {key : Nat → Int} {vals : List α}
  {target : Option α} {b nidx : Nat} {bs ns : List Nat} {st : CompileSt α}

theorem numSame_fold (nodes0 : List (FlatNode α))
    (h : CInv I ops key vals target (b :: bs) (nidx :: ns) st)
    (hn : NumSame nodes0 st.nodes (remOf ops.length st.used))
    {v : α} (k1 : st.nodes[nidx]?.any (·.kind.isNum) = true)
    (k2 : st.nodes[nidx + 1]?.any (·.kind.isNum) = true) :
    NumSame nodes0 ((st.nodes.set nidx { kind := .num v }).eraseIdx (nidx + 1))
      (remOf ops.length (st.used ++ [b])) := by
  obtain ⟨-, -, hp, hb⟩ := h.pos
  have hl := h.hlen
  have hrem' : remOf ops.length (st.used ++ [b]) = (remOf ops.length st.used).eraseIdx nidx :=
    remOf_append (by rw [List.getElem?_eq_getElem hp, hb])
  rw [hrem']
  obtain ⟨rem, hrem⟩ : ∃ rem, remOf ops.length st.used = rem := ⟨_, rfl⟩
  simp only [hrem] at hp hb hl hn ⊢
  have hlen' : (rem.eraseIdx nidx).length = rem.length - 1 := List.length_eraseIdx_of_lt hp
  have hnl : nidx < st.nodes.length := by omega
  intro q hq
  rw [hlen'] at hq
  rw [isNumAt_fold _ _ _ hnl, isNumAt_fold _ _ _ hnl, List.getElem_eraseIdx]
  have P := hn nidx hp
  by_cases h1 : q < nidx
  · have Q := hn q (by omega)
    simp only [dif_pos h1, if_pos h1]
    refine ⟨Q.1, ?_⟩
    by_cases h2 : q + 1 = nidx
    · simp only [if_neg (show ¬ q + 1 < nidx by omega), if_pos h2]
      rw [← Q.2, h2]
      exact k1.symm
    · simp only [if_pos (show q + 1 < nidx by omega)]
      exact Q.2
  · have Q := hn (q + 1) (by omega)
    simp only [dif_neg h1, if_neg h1, if_neg (show ¬ q + 1 < nidx by omega),
      if_neg (show ¬ q + 1 = nidx by omega)]
    refine ⟨?_, Q.2⟩
    by_cases h2 : q = nidx
    · simp only [if_pos h2]
      rw [← Q.1, h2]
      exact k2.symm
    · simp only [if_neg h2]
      exact Q.1

/-- one iteration of the folding loop, with the node-kind record -/
theorem step2 (nodes0 : List (FlatNode α))
    (h : CInv I ops key vals target (b :: bs) (nidx :: ns) st)
    (hn : NumSame nodes0 st.nodes (remOf ops.length st.used)) :
    ∃ st' ns', compileStep I ops st b nidx ns = .ok (st', ns') ∧
      CInv I ops key vals target bs ns' st' ∧
      NumSame nodes0 st'.nodes (remOf ops.length st'.used) := by
  obtain ⟨-, -, hp, hb⟩ := h.pos
  have hl := h.hlen
  have hbn : b < ops.length := (mem_remOf.1 (h.pend b List.mem_cons_self)).1
  have hn1 : nidx < st.nodes.length := by omega
  have hn2 : nidx + 1 < st.nodes.length := by omega
  have h1 : st.nodes[nidx]? = some st.nodes[nidx] := List.getElem?_eq_getElem hn1
  have h2 : st.nodes[nidx + 1]? = some st.nodes[nidx + 1] := List.getElem?_eq_getElem hn2
  unfold compileStep
  rw [h1, h2]
  dsimp only
  cases k1 : st.nodes[nidx].kind with
  | var i =>
    cases k2 : st.nodes[nidx + 1].kind with
    | var j => exact ⟨_, _, rfl, h.skip, hn⟩
    | num a' => exact ⟨_, _, rfl, h.skip, hn⟩
  | num a =>
    cases k2 : st.nodes[nidx + 1].kind with
    | var j => exact ⟨_, _, rfl, h.skip, hn⟩
    | num a' =>
      dsimp only
      cases hd1 : st.declined.getD nidx false with
      | true => exact ⟨_, _, rfl, h.skip, hn⟩
      | false =>
        cases hd2 : st.declined.getD (nidx + 1) false with
        | true => exact ⟨_, _, rfl, h.skip, hn⟩
        | false =>
          have hfa : flatApply I ops b a a' = some (flatApplyT I ops b a a') := by
            simp [flatApply, flatApplyT, List.getElem?_eq_getElem hbn]
          simp only [Bool.or_self, Bool.not_false, if_true, hfa]
          refine ⟨_, _, rfl, h.fold h1 h2 k1 k2 hd1 hd2, ?_⟩
          exact numSame_fold nodes0 h hn (by rw [h1]; simp [k1, NodeKind.isNum])
            (by rw [h2]; simp [k2, NodeKind.isNum])

/-- the whole folding loop, with the node-kind record -/
theorem loop2 (nodes0 : List (FlatNode α)) : ∀ (bs ns : List Nat) (st : CompileSt α),
    CInv I ops key vals target bs ns st → NumSame nodes0 st.nodes (remOf ops.length st.used) →
    ∃ st', compileLoop I ops bs ns st = .ok st' ∧ CInv I ops key vals target [] [] st' ∧
      NumSame nodes0 st'.nodes (remOf ops.length st'.used) := by
  intro bs
  induction bs with
  | nil =>
    intro ns st h hn
    have : ns = [] := by simpa using h.ninds
    subst this
    exact ⟨st, rfl, h, hn⟩
  | cons b bs ih =>
    intro ns st h hn
    cases ns with
    | nil => have := h.ninds; simp at this
    | cons nidx ns =>
      obtain ⟨st', ns', hs, h', hn'⟩ := step2 nodes0 h hn
      obtain ⟨st'', hl, h'', hn''⟩ := ih ns' st' h' hn'
      refine ⟨st'', ?_, h'', hn''⟩
      rw [compileLoop, hs]
      exact hl

end

theorem isNumAt_litNodes {α : Type} (I : Interp α) (nodes : List (FlatNode α)) (q : Nat) :
    isNumAt (litNodes I nodes) q = isNumAt nodes q := by
  unfold isNumAt litNodes
  rw [List.getElem?_map]
  cases nodes[q]? with
  | none => rfl
  | some n =>
    simp only [Option.map_some, Option.any_some]
    cases hk : n.kind <;> simp [hk, NodeKind.isNum]

/-! ### assembly -/

/-- flagged operators are associative -/
def AssocOps {α : Type} (I : Interp α) (ops : List FlatOp) : Prop :=
  ∀ o ∈ ops, o.comm = true →
    ∀ x y z, I.bin o.idx (I.bin o.idx x y) z = I.bin o.idx x (I.bin o.idx y z)

/-- **`FlatEx::compile` is sound for every flat expression** with matching lengths, key order
    and associative flagged operators (no `UnaryOK`) -/
theorem compile_any {α : Type} (I : Interp α) (f : FlatEx α)
    (hlen : f.nodes.length = f.ops.length + 1) (hprio : f.prioIdx = prioIdxFlat f.ops f.nodes)
    (hA : AssocOps I f.ops) (vals : List α)
    (hidx : ∀ nd ∈ f.nodes, ∀ i, nd.kind = .var i → i < vals.length) :
    ∃ f', f.compile I = .ok f' ∧ f'.nodes.length = f'.ops.length + 1 ∧
      f'.prioIdx = prioIdxFlat f'.ops f'.nodes ∧ AssocOps I f'.ops ∧
      (∀ nd ∈ f'.nodes, ∀ i, nd.kind = .var i → i < vals.length) ∧ f'.vars = f.vars ∧
      evalCloning I f' vals = evalCloning I f vals := by
  have hn0 : NumSame f.nodes (litNodes I f.nodes) (remOf f.ops.length []) := by
    intro q hq
    rw [isNumAt_litNodes, isNumAt_litNodes]
    have : (remOf f.ops.length [])[q] = q := by
      simp [remOf_nil]
    rw [this]
    exact ⟨rfl, rfl⟩
  obtain ⟨st, hloop, hinv, hnum⟩ := loop2 f.nodes _ _ _ (init_inv I f hlen vals hidx) hn0
  have hs := remOf_sorted f.ops.length st.used
  have hlt : ∀ k ∈ remOf f.ops.length st.used, k < f.ops.length := fun k hk => (mem_remOf.1 hk).1
  have hcomp : f.compile I = .ok { f with
      nodes := st.nodes, ops := (remOf f.ops.length st.used).map (opAt f.ops),
      prioIdx := prioIdxFlat ((remOf f.ops.length st.used).map (opAt f.ops)) st.nodes } := by
    have : f.compile I = match compileLoop I f.ops f.prioIdx f.prioIdx
        { nodes := litNodes I f.nodes,
          declined := List.replicate (litNodes I f.nodes).length false } with
      | .error e => .error e
      | .ok st =>
        .ok { f with nodes := st.nodes,
                     ops := (f.ops.zipIdx.filter (fun p => !st.used.contains p.2)).map (·.1),
                     prioIdx := prioIdxFlat
                       ((f.ops.zipIdx.filter (fun p => !st.used.contains p.2)).map (·.1))
                       st.nodes } := rfl
    rw [this, hprio, hloop]
    dsimp only
    rw [ops_filter_eq]
  obtain ⟨rem, hrem⟩ : ∃ rem, remOf f.ops.length st.used = rem := ⟨_, rfl⟩
  have hl' := hinv.hlen
  have hval := hinv.value
  have hfold := hinv.folded
  simp only [hrem] at hs hlt hcomp hl' hval hfold hnum
  have hA' : AssocOps I (rem.map (opAt f.ops)) := by
    intro o ho
    obtain ⟨k, hk, rfl⟩ := List.mem_map.1 ho
    have hkn := hlt k hk
    have : opAt f.ops k = f.ops[k] := getD_eq_getElem' f.ops k hkn
    rw [this]
    exact hA _ (List.getElem_mem hkn)
  refine ⟨_, hcomp, ?_, rfl, hA', hinv.vidx, rfl, ?_⟩
  · show st.nodes.length = (rem.map (opAt f.ops)).length + 1
    rw [List.length_map]; exact hl'
  · obtain ⟨v, -, hv2, hv3⟩ := evalCloning_eq_splitKey I f hlen hprio vals hidx
    obtain ⟨v', -, hv2', hv3'⟩ := evalCloning_eq_splitKey I
      { f with nodes := st.nodes, ops := rem.map (opAt f.ops),
               prioIdx := prioIdxFlat (rem.map (opAt f.ops)) st.nodes }
      (by show st.nodes.length = (rem.map (opAt f.ops)).length + 1
          rw [List.length_map]; exact hl') rfl vals hinv.vidx
    rw [hv3, hv3']
    have hnl : (st.nodes.map (nodeVal I vals)).length = rem.length + 1 := by
      rw [List.length_map]; exact hl'
    dsimp only at hv2'
    have hbridge := splitEval_rem_new I f.ops f.nodes st.nodes hA rem hs hlt hfold hnum _ hnl
    rw [List.length_map,
      SplitLemmas.splitEval_fuel _ _ (rem.length + 1) (st.nodes.map (nodeVal I vals)).length _ _
        (by simp) (by simp; omega),
      ← hbridge,
      SplitLemmas.splitEval_fuel _ _ (st.nodes.map (nodeVal I vals)).length rem.length _ _
        (by omega) (Nat.le_refl _),
      hval,
      SplitLemmas.splitEval_fuel _ _ f.ops.length (f.ops.length + 1) _ _
        (by simp) (by simp), hv2] at hv2'
    cases hv2'
    rfl

end FoldAny
end Exmex
