/-
  C02 for arbitrary flat expressions, abstract part.

  `FlatEx::compile` folds with the sort keys of the expression it starts from ("stale" keys) and
  then recomputes the keys of the surviving operators. The "+5" flag of a surviving operator can
  only change from unset to set, and only for an operator that has no operator of its own priority
  to its left within its group. Split evaluation with either set of flags gives the same value
  (`Bump2.ev`) — *without* assuming that the flags are invisible (i.e. without `UnaryOK`).
-/
import Exmex.Proofs.BumpAux
namespace Exmex
namespace FoldAny
open BumpAux

/-- two sets of bump flags `b1` (stale) and `b2` (recomputed) on the same operator sequence -/
structure Bump2 {α : Type} (apply : Nat → α → α → α) (N : Nat) (prio : Nat → Int)
    (b1 b2 : Nat → Bool) (idx : Nat → Nat) (g : Nat → α → α → α) : Prop where
  mono : ∀ q, q < N → b1 q = true → b2 q = true
  fresh : ∀ k q, k < q → q < N → b2 q = true → b1 q = false → prio k = prio q →
    (∀ m, k < m → m < q → prio q < prio m) → False
  act : ∀ q, q < N → b2 q = true → ∀ x y, apply q x y = g (idx q) x y
  assoc : ∀ q, q < N → b2 q = true →
    ∀ x y z, g (idx q) (g (idx q) x y) z = g (idx q) x (g (idx q) y z)
  left : ∀ j q, j < q → q < N → b1 q = true → prio j = prio q →
    (∀ m, j < m → m < q → prio q < prio m) → idx j = idx q

/-- "a flagged operator has the table index of the nearest operator of its priority on the left":
    chains of flagged operators share one table index -/
theorem idx_chain {N : Nat} {prio : Nat → Int} {bmp : Nat → Bool} {idx : Nat → Nat}
    (left : ∀ j q, j < q → q < N → bmp q = true → prio j = prio q →
      (∀ m, j < m → m < q → prio q < prio m) → idx j = idx q) :
    ∀ (d j k : Nat), k - j = d → j < k → k < N → prio j = prio k →
      (∀ m, j < m → m < k → prio k ≤ prio m) →
      (∀ m, j < m → m ≤ k → prio m = prio k → bmp m = true) →
      idx j = idx k := by
  intro d
  induction d using Nat.strongRecOn with
  | _ d ih =>
    intro j k hd hjk hkN hp hge hb
    by_cases hex : ∃ m, j < m ∧ m < k ∧ prio m = prio k
    · obtain ⟨m, h1, h2, h3⟩ := hex
      have A := ih (m - j) (by omega) j m rfl h1 (by omega) (by omega)
        (fun q q1 q2 => by have := hge q q1 (by omega); omega)
        (fun q q1 q2 q3 => hb q q1 (by omega) (by omega))
      have B := ih (k - m) (by omega) m k rfl h2 hkN h3
        (fun q q1 q2 => hge q (by omega) q2)
        (fun q q1 q2 q3 => hb q (by omega) q2 q3)
      exact A.trans B
    · refine left j k hjk hkN (hb k hjk (Nat.le_refl _) rfl) hp ?_
      intro m h1 h2
      have := hge m h1 h2
      rcases Int.lt_or_eq_of_le this with h | h
      · exact h
      · exact absurd ⟨m, h1, h2, h.symm⟩ hex

/-- the nearest position of priority `p` on the left -/
theorem nearest_same {prio : Nat → Int} {p : Int} :
    ∀ (d k q : Nat), q - k = d → k < q → prio k = p →
      ∃ j, k ≤ j ∧ j < q ∧ prio j = p ∧ ∀ m, j < m → m < q → prio m ≠ p := by
  intro d
  induction d using Nat.strongRecOn with
  | _ d ih =>
    intro k q hd hkq hp
    by_cases hex : ∃ m, k < m ∧ m < q ∧ prio m = p
    · obtain ⟨m, h1, h2, h3⟩ := hex
      obtain ⟨j, j1, j2, j3, j4⟩ := ih (q - m) (by omega) m q rfl h2 h3
      exact ⟨j, by omega, j2, j3, j4⟩
    · exact ⟨k, Nat.le_refl _, hkq, hp, fun m m1 m2 m3 => hex ⟨m, m1, m2, m3⟩⟩

section
variable {α : Type} {apply : Nat → α → α → α} {vals : List α}
  {N : Nat} {prio : Nat → Int} {b1 b2 : Nat → Bool} {idx : Nat → Nat} {g : Nat → α → α → α}
  {key1 key2 : Nat → Int}

theorem Bump2.reassoc (H : Bump2 apply N prio b1 b2 idx g)
    (hkey1 : ∀ k, k < N → key1 k = prio k * 10 + (if b1 k = true then 5 else 0))
    (hkey2 : ∀ k, k < N → key2 k = prio k * 10 + (if b2 k = true then 5 else 0)) :
    ∀ (d lo j hi : Nat) (A B : α), hi - j = d → hi ≤ N → IsSplit key1 lo hi j →
      Ev apply vals key2 lo j A → Ev apply vals key2 (j + 1) hi B →
      Ev apply vals key2 lo hi (apply j A B) := by
  intro d
  induction d using Nat.strongRecOn with
  | _ d ih =>
    intro lo j hi A B hd hN hsj hA hB
    obtain ⟨j1, j2, j3, j4⟩ := id hsj
    have hs := isSplit_argminR key2 lo hi (by omega)
    generalize lo + argminR ((List.range' lo (hi - lo)).map key2) = k at hs
    obtain ⟨k1, k2, k3, k4⟩ := id hs
    -- facts about keys of positions in range
    have hjN : j < N := by omega
    have hkN : k < N := by omega
    have K1j := hkey1 j hjN
    have K2j := hkey2 j hjN
    have K1k := hkey1 k hkN
    have K2k := hkey2 k hkN
    rcases Nat.lt_trichotomy k j with hlt | heq | hgt
    · -- the recomputed split point is left of the stale one: impossible
      exfalso
      have c1 := k4 j hlt j2
      have c2 := j3 k k1 k2
      have hp : prio k = prio j := by
        rw [K1j, K1k] at c2; rw [K2j, K2k] at c1
        split at c1 <;> split at c1 <;> split at c2 <;> split at c2 <;> omega
      have hb2k : b2 k = false := by
        rw [K2j, K2k, hp] at c1
        cases h : b2 k with
        | false => rfl
        | true => rw [h] at c1; simp only [if_true] at c1; split at c1 <;> omega
      have hb2j : b2 j = true := by
        rw [K2j, K2k, hp, hb2k] at c1
        cases h : b2 j with
        | true => rfl
        | false => rw [h] at c1; simp at c1
      have hb1k : b1 k = false := by
        cases h : b1 k with
        | false => rfl
        | true => have := H.mono k hkN h; rw [hb2k] at this; cases this
      have hb1j : b1 j = false := by
        rw [K1j, K1k, hp, hb1k] at c2
        cases h : b1 j with
        | false => rfl
        | true => rw [h] at c2; simp at c2; omega
      obtain ⟨j', a1, a2, a3, a4⟩ := nearest_same (prio := prio) (p := prio j) (j - k) k j rfl hlt hp
      refine H.fresh j' j a2 hjN hb2j hb1j a3 ?_
      intro m m1 m2
      have mN : m < N := by omega
      have c3 := j3 m (by omega) (by omega)
      have ne := a4 m m1 m2
      rw [K1j, hkey1 m mN, hb1j] at c3
      simp only [Bool.false_eq_true, if_false] at c3
      split at c3 <;> omega
    · subst heq; exact Ev.node hs hA hB
    · have c1 := j4 k hgt k2
      have c2 := k3 j j1 j2
      have hp : prio k = prio j := by
        rw [K1j, K1k] at c1; rw [K2j, K2k] at c2
        split at c1 <;> split at c1 <;> split at c2 <;> split at c2 <;> omega
      have hb1k : b1 k = true := by
        rw [K1j, K1k, hp] at c1
        cases h : b1 k with
        | true => rfl
        | false => rw [h] at c1; simp only [Bool.false_eq_true, if_false] at c1; split at c1 <;> omega
      have hb2k : b2 k = true := H.mono k hkN hb1k
      have hb2j : b2 j = true := by
        rw [K2j, K2k, hp, hb2k] at c2
        cases h : b2 j with
        | true => rfl
        | false => rw [h] at c2; simp at c2; omega
      have hs' : IsSplit key2 (j + 1) hi k :=
        ⟨by omega, k2, fun q q1 q2 => k3 q (by omega) q2, k4⟩
      obtain ⟨k', B1, B2, hk', hB1, hB2, rfl⟩ := hB.inv (by omega)
      have := hs'.unique hk'
      subst this
      have hsj' : IsSplit key1 lo k j :=
        ⟨j1, hgt, fun q q1 q2 => j3 q q1 (by omega), fun q q1 q2 => j4 q q1 (by omega)⟩
      have hL := ih (k - j) (by omega) lo j k A B1 rfl (by omega) hsj' hA hB1
      have hT := Ev.node hs hL hB2
      -- priorities and flags between `j` and `k`
      have hbetween : ∀ m, j < m → m ≤ k → prio j ≤ prio m ∧ (prio m = prio j → b1 m = true) := by
        intro m m1 m2
        have mN : m < N := by omega
        have c3 := j4 m m1 (by omega)
        rw [K1j, hkey1 m mN] at c3
        constructor
        · split at c3 <;> split at c3 <;> omega
        · intro e
          rw [e] at c3
          cases h : b1 m with
          | true => rfl
          | false => rw [h] at c3; simp only [Bool.false_eq_true, if_false] at c3; split at c3 <;> omega
      have hc := idx_chain H.left (k - j) j k rfl hgt hkN hp.symm
        (fun m m1 m2 => by have := (hbetween m m1 (by omega)).1; omega)
        (fun m m1 m2 m3 => (hbetween m m1 m2).2 (by omega))
      have e : apply j A (apply k B1 B2) = apply k (apply j A B1) B2 := by
        rw [H.act k hkN hb2k, H.act k hkN hb2k, H.act j hjN hb2j, H.act j hjN hb2j, hc,
          H.assoc k hkN hb2k]
      rw [e]; exact hT

/-- split evaluation with the stale flags = split evaluation with the recomputed flags -/
theorem Bump2.ev (H : Bump2 apply N prio b1 b2 idx g)
    (hkey1 : ∀ k, k < N → key1 k = prio k * 10 + (if b1 k = true then 5 else 0))
    (hkey2 : ∀ k, k < N → key2 k = prio k * 10 + (if b2 k = true then 5 else 0))
    {lo hi : Nat} {a : α} (h : Ev apply vals key1 lo hi a) (hN : hi ≤ N) :
    Ev apply vals key2 lo hi a := by
  induction h with
  | leaf hv => exact Ev.leaf hv
  | @node lo hi j l r hs hl hr ihl ihr =>
    obtain ⟨s1, s2, s3, s4⟩ := id hs
    exact H.reassoc hkey1 hkey2 (hi - j) lo j hi l r rfl hN hs (ihl (by omega)) (ihr hN)

end

/-- the equation between `splitEval`s -/
theorem splitEval_bump2 {α : Type} {apply : Nat → α → α → α} {N : Nat} {prio : Nat → Int}
    {b1 b2 : Nat → Bool} {idx : Nat → Nat} {g : Nat → α → α → α}
    (H : Bump2 apply N prio b1 b2 idx g) (key1 key2 : Nat → Int)
    (hkey1 : ∀ k, k < N → key1 k = prio k * 10 + (if b1 k = true then 5 else 0))
    (hkey2 : ∀ k, k < N → key2 k = prio k * 10 + (if b2 k = true then 5 else 0))
    (vals : List α) (hlen : vals.length = N + 1) :
    splitEval apply key1 vals.length vals (List.range N) =
      splitEval apply key2 vals.length vals (List.range N) := by
  obtain ⟨a, ha⟩ := Ev.total apply vals key1 N 0 N rfl (Nat.zero_le _) (by omega)
  have ha0 := H.ev hkey1 hkey2 ha (Nat.le_refl _)
  have e1 := ha.splitEval_eq vals.length (by omega)
  have e0 := ha0.splitEval_eq vals.length (by omega)
  have ev : (vals.drop 0).take (N - 0 + 1) = vals := by
    rw [List.drop_zero, Nat.sub_zero, ← hlen, List.take_length]
  rw [ev, Nat.sub_zero, ← List.range_eq_range'] at e1 e0
  rw [e1, e0]

end FoldAny
end Exmex
