/-
  Vocabulary of C05 (soundness of partial differentiation): the laws of exact arithmetic the
  neutral-element shortcuts rely on, "every operator has a reference rule", and the structural
  well-formedness of nested groups w.r.t. the top-level variable list and the operator table.
  (Moved here from Props/C05.lean so that the proof files can mention them; the names stay in
  the namespace `Exmex.C05`.)
-/
import Exmex.Spec.Dual
namespace Exmex.C05

/-- the laws of exact arithmetic used by the shortcuts (`0 + x`, `1 * x`, `x ^ 1`, ...) and by the
    product along the chain rule -/
structure Laws {K : Type} (D : DArith K) : Prop where
  zero_add : ∀ x, D.add D.zero x = x
  add_zero : ∀ x, D.add x D.zero = x
  zero_mul : ∀ x, D.mul D.zero x = D.zero
  mul_zero : ∀ x, D.mul x D.zero = D.zero
  one_mul : ∀ x, D.mul D.one x = x
  mul_one : ∀ x, D.mul x D.one = x
  mul_comm : ∀ x y, D.mul x y = D.mul y x
  mul_assoc : ∀ x y z, D.mul (D.mul x y) z = D.mul x (D.mul y z)
  div_one : ∀ x, D.div x D.one = x
  zero_div : ∀ x, x ≠ D.zero → D.div D.zero x = D.zero
  pow_one : ∀ x, D.pow x D.one = x
  pow_zero : ∀ x, D.pow x D.zero = D.one
  zero_pow : ∀ e, e ≠ D.zero → D.pow D.zero e = D.zero
  zero_ne_one : D.zero ≠ D.one
  two_ne_zero : D.two ≠ D.zero
  mul_ne_zero : ∀ x y, x ≠ D.zero → y ≠ D.zero → D.mul x y ≠ D.zero

/-- the analogue of `C10.Arith.assoc` for the comparisons, `if` and `else`: the operator
    `find_bin_op` returns for such a name, if there is one and it is flagged commutative, is
    associative (`operate_bin` builds a group with that operator, and `compile` may re-associate
    flagged operators).  Trivially true when the table does not flag these operators
    (`bopAssoc_of_unflagged`), and a consequence of `C01.FlaggedAssoc`. -/
def BopAssoc {K : Type} (I : Interp K) (t : Table) : Prop :=
  ∀ n ∈ [">", "<", ">=", "<=", "==", "!=", "if", "else"], ∀ o, findBinOp t (String.toList n) = .ok o →
    o.comm = true → ∀ x y z, I.bin o.idx (I.bin o.idx x y) z = I.bin o.idx x (I.bin o.idx y z)

theorem bopAssoc_of_unflagged {K : Type} (I : Interp K) (t : Table)
    (h : ∀ n ∈ [">", "<", ">=", "<=", "==", "!=", "if", "else"], ∀ o,
      findBinOp t (String.toList n) = .ok o → o.comm = false) : BopAssoc I t := by
  intro n hn o ho hc
  rw [h n hn o ho] at hc
  cases hc

mutual
/-- every operator of the expression has a derivative rule in the reference table -/
def Ruled {K : Type} (t : Table) : DeepEx K → Prop
  | .mk nodes ops un _ =>
    (∀ o ∈ ops, String.ofList (reprOf t o.idx) ∈ binRuleNames) ∧
    (∀ u ∈ un, String.ofList (reprOf t u) ∈ unRuleNames) ∧ ruledList t nodes
def ruledList {K : Type} (t : Table) : List (DeepNode K) → Prop
  | [] => True
  | .expr e :: rest => Ruled t e ∧ ruledList t rest
  | _ :: rest => ruledList t rest
end

mutual
/-- structural well-formedness of the nested groups (true of everything the parser, `to_deepex`
    and the calculus produce): every group, at any depth, lists duplicate-free variable names
    among the top-level names `top`, and its unary chain consists of unary operators of the table -/
def Scoped {K : Type} (t : Table) (top : List Str) : DeepEx K → Prop
  | .mk nodes _ un vars =>
    vars.Nodup ∧ (∀ x ∈ vars, x ∈ top) ∧ (∀ u ∈ un, tblHasUnary t u = true) ∧ scopedList t top nodes
def scopedList {K : Type} (t : Table) (top : List Str) : List (DeepNode K) → Prop
  | [] => True
  | .expr e :: rest => Scoped t top e ∧ scopedList t top rest
  | _ :: rest => scopedList t top rest
end

end Exmex.C05
