/-
  C03 (deep → flat): `DeepEx.flatten` produces a flat group whose split evaluation equals the deep
  evaluation. Mutual structural induction on `DeepEx` / `DeepNode` / node lists, generalised over
  the priority offset.
-/
import Exmex.Model.Conv
import Exmex.Proofs.DeepGroup
import Exmex.Proofs.DeepDefs
import Exmex.Proofs.FromDeepBlocks
namespace Exmex
namespace FromDeep
open SplitLemmas FlatDenoteAux

variable {α : Type}

/-! ### the flattening, in pieces -/

/-- a group's own operator at offset `off` -/
def mkOp (off : Int) (b : DBin) : FlatOp := { idx := b.idx, prio := b.prio + off, comm := b.comm }

/-- flattening of one node of a group at offset `off` -/
def nodeFlat (off : Int) : DeepNode α → List (FlatNode α) × List FlatOp
  | .num a => ([{ kind := .num a }], [])
  | .var i _ => ([{ kind := .var i }], [])
  | .expr e => e.flatten (off + 100)

/-- how `flatten_vecs` attaches the group's unary chain -/
def flatAttach (un : List Nat) (g : List (FlatNode α) × List FlatOp) :
    List (FlatNode α) × List FlatOp :=
  if un.isEmpty then g
  else if !g.2.isEmpty then
    match lowestRightmost g.2 with
    | some k => (g.1, g.2.modify k (fun o => { o with un := un ++ o.un }))
    | none => g
  else
    match g.1 with
    | n :: rest => ({ n with un := un ++ n.un } :: rest, g.2)
    | [] => g

theorem flatten_eq (off : Int) (nodes : List (DeepNode α)) (ops : List DBin) (un : List Nat)
    (vars : List Str) :
    (DeepEx.mk nodes ops un vars).flatten off = flatAttach un (flattenList off nodes ops) := by
  rw [DeepEx.flatten]
  unfold flatAttach
  rfl

theorem flattenList_single (off : Int) (n : DeepNode α) :
    flattenList off [n] [] = nodeFlat off n := by
  cases n <;> simp [flattenList, nodeFlat]

theorem flattenList_cons (off : Int) (n : DeepNode α) (ns : List (DeepNode α)) (b : DBin)
    (bs : List DBin) :
    flattenList off (n :: ns) (b :: bs) =
      ((nodeFlat off n).1 ++ (flattenList off ns bs).1,
        (nodeFlat off n).2 ++ mkOp off b :: (flattenList off ns bs).2) := by
  cases n <;> simp [flattenList, nodeFlat, mkOp]

/-- with one more node than operators the attachment is `attachUnary` -/
theorem flatAttach_eq (un : List Nat) (g : List (FlatNode α) × List FlatOp)
    (hlen : g.1.length = g.2.length + 1) : flatAttach un g = attachUnary un g := by
  obtain ⟨fn, fo⟩ := g
  simp only at hlen
  unfold flatAttach attachUnary lowestRightmost
  by_cases hun : un.isEmpty = true
  · simp [hun]
  · simp only [hun, Bool.false_eq_true, if_false]
    by_cases ho : fo = []
    · subst ho
      match fn, hlen with
      | [n], _ => simp [lowestTrailing_nil]
    · have hbound : ∀ o ∈ fo, fo.foldl (fun m o => min m o.prio) 0 - 1 ≤ o.prio := by
        intro o ho'
        have := (foldl_min_le fo 0).2 o ho'
        omega
      obtain ⟨L, o, R, -, hlow, -, -⟩ := lowestTrailing_spec fo _ ho hbound
      have hne : fo.isEmpty = false := by cases fo <;> simp at ho ⊢
      simp [hlow, hne]

/-! ### invariants -/

/-- a flattened group with value `v`, all operators of priority `≥ lo` -/
structure FlatOK (I : Interp α) (vals : List α) (lo : Int)
    (g : List (FlatNode α) × List FlatOp) (v : α) : Prop where
  unary : UnaryOK' g.2
  assoc : AssocOps I g.2
  val : ∃ ns, nodeValues I g.1 vals = some ns ∧ GroupOK I ns g.2 lo v

/-- a flattened node list: blocks of priority `≥ off + 100` joined by the group's operators -/
structure ListOK (I : Interp α) (vals : List α) (off : Int)
    (g : List (FlatNode α) × List FlatOp) (numbers : List α) (ops : List DBin) : Prop where
  unary : UnaryOK' g.2
  assoc : AssocOps I g.2
  val : ∃ ns, nodeValues I g.1 vals = some ns ∧
    DBlocks I (off + 100) (mkOp off) ns g.2 numbers ops

def nodePrio : DeepNode α → Prop
  | .expr e => e.PrioOK
  | _ => True

def nodeAssoc (I : Interp α) : DeepNode α → Prop
  | .expr e => e.Assoc I
  | _ => True

theorem prioOKList_cons (n : DeepNode α) (rest : List (DeepNode α)) :
    prioOKList (n :: rest) ↔ nodePrio n ∧ prioOKList rest := by
  cases n <;> simp [prioOKList, nodePrio]

theorem assocList_cons (I : Interp α) (n : DeepNode α) (rest : List (DeepNode α)) :
    assocList I (n :: rest) ↔ nodeAssoc I n ∧ assocList I rest := by
  cases n <;> simp [assocList, nodeAssoc]

theorem shapeList_cons (k : Nat) (n : DeepNode α) (rest : List (DeepNode α)) :
    shapeList k (n :: rest) ↔ n.ShapeN k ∧ shapeList k rest := by
  simp [shapeList]

/-- the group step: from the flattened node list to the flattened group -/
theorem group_ok (I : Interp α) (vals : List α) (off : Int) (nodes : List (DeepNode α))
    (ops : List DBin) (un : List Nat) (g : List (FlatNode α) × List FlatOp) (numbers : List α)
    (hprio : ∀ o ∈ ops, 0 ≤ o.prio ∧ o.prio ≤ 99) (hassoc : DeepAssoc I ops)
    (h : ListOK I vals off g numbers ops) :
    ∃ v, evalBinary wordsTracker I.dflt (deepApply I ops) numbers (prioIdxDeep ops nodes)
        (List.replicate (1 + numbers.length / 64) (0#64)) = .ok v ∧
      FlatOK I vals off (flatAttach un g) (applyUn I un v) := by
  obtain ⟨fn, fo⟩ := g
  obtain ⟨ns, hns, hb⟩ := h.val
  have hl := hb.len
  obtain ⟨v, hsv, hev⟩ := deepGroup_eval I ops nodes numbers hl.2 hassoc
  have hsub := DBlocks.eval (I := I) (f := mkOp off) (fun (o : DBin) a b => I.bin o.idx a b)
    (fun o => o.prio) (by intro o a b; simp [FlatOp.act, mkOp, applyUn])
    (by intro o o'; simp only [mkOp]; omega) ops.length (Nat.le_refl _) hb
    (by intro o ho; have := hprio o ho; simp only [mkOp]; omega)
  have hg : GroupOK I ns fo off v := by
    refine ⟨hl.1, ?_, hsub.trans hsv⟩
    intro x hx
    rcases hb.mem x hx with ⟨o, ho, rfl⟩ | hx
    · have := hprio o ho; simp only [mkOp]; omega
    · omega
  have hlen : fn.length = fo.length + 1 := by
    rw [← nodeValues_length I vals hns]; exact hl.1
  rw [flatAttach_eq un (fn, fo) hlen]
  obtain ⟨hU, ns', hns', hg'⟩ := attachUnary_spec I vals un fn fo hns hg h.unary
  exact ⟨v, hev, ⟨hU, AssocOps.attach un (fn, fo) h.assoc, ns', hns', hg'⟩⟩

/-- a single-node block -/
theorem leaf_ok (I : Interp α) (vals : List α) (lo : Int) (n : FlatNode α) (v : α)
    (hv : nodeVal I vals n = some v) : FlatOK I vals lo ([n], []) v := by
  refine ⟨unaryOK'_nil, AssocOps.nil I, [v], ?_, rfl, by simp, splitEval_single _ _ _ _⟩
  rw [nodeValues_single, hv]; rfl

mutual
theorem flatten_ok (I : Interp α) (vals : List α) : ∀ (off : Int) (d : DeepEx α),
    d.Shape vals.length → d.PrioOK → d.Assoc I →
    ∃ v, d.evalRelaxed I vals = .ok v ∧ FlatOK I vals off (d.flatten off) v
  | off, .mk nodes ops un vars, hs, hp, hA => by
    rw [DeepEx.Shape] at hs
    rw [DeepEx.PrioOK] at hp
    rw [DeepEx.Assoc] at hA
    obtain ⟨numbers, hnum, hlist⟩ :=
      list_ok I vals off nodes ops hs.2.2 hp.2 hA.2 hs.1 hp.1 hA.1
    obtain ⟨v, hev, hok⟩ := group_ok I vals off nodes ops un _ numbers hp.1 hA.1 hlist
    refine ⟨applyUn I un v, ?_, by rw [flatten_eq]; exact hok⟩
    rw [DeepEx.evalRelaxed, if_neg (by have := hs.2.1; omega)]
    simp only [hnum, hev]
theorem node_ok (I : Interp α) (vals : List α) : ∀ (off : Int) (n : DeepNode α),
    n.ShapeN vals.length → nodePrio n → nodeAssoc I n →
    ∃ v, n.evalNode I vals = .ok v ∧ FlatOK I vals (off + 100) (nodeFlat off n) v
  | off, .num a, _, _, _ => by
    refine ⟨a, by rw [DeepNode.evalNode], leaf_ok I vals _ _ a ?_⟩
    simp [nodeVal, applyUn]
  | off, .var i name, hs, _, _ => by
    rw [DeepNode.ShapeN] at hs
    refine ⟨vals[i], ?_, leaf_ok I vals _ _ vals[i] ?_⟩
    · rw [DeepNode.evalNode, List.getElem?_eq_getElem hs]
    · simp [nodeVal, applyUn, List.getElem?_eq_getElem hs]
  | off, .expr e, hs, hp, hA => by
    rw [DeepNode.ShapeN] at hs
    obtain ⟨v, hev, hok⟩ := flatten_ok I vals (off + 100) e hs hp hA
    exact ⟨v, by rw [DeepNode.evalNode]; exact hev, hok⟩
theorem list_ok (I : Interp α) (vals : List α) : ∀ (off : Int) (nodes : List (DeepNode α))
    (ops : List DBin),
    shapeList vals.length nodes → prioOKList nodes → assocList I nodes →
    nodes.length = ops.length + 1 → (∀ o ∈ ops, 0 ≤ o.prio ∧ o.prio ≤ 99) → DeepAssoc I ops →
    ∃ numbers, evalNodeList I vals nodes = .ok numbers ∧
      ListOK I vals off (flattenList off nodes ops) numbers ops
  | off, [], ops, _, _, _, hlen, _, _ => by simp at hlen
  | off, [n], _ :: _, _, _, _, hlen, _, _ => by simp at hlen
  | off, _ :: _ :: _, [], _, _, _, hlen, _, _ => by simp at hlen
  | off, [n], [], hs, hp, hA, _, _, _ => by
    obtain ⟨v, hev, hok⟩ := node_ok I vals off n ((shapeList_cons _ _ _).1 hs).1
      ((prioOKList_cons _ _).1 hp).1 ((assocList_cons I _ _).1 hA).1
    refine ⟨[v], ?_, ?_⟩
    · rw [evalNodeList, hev, evalNodeList]
    · rw [flattenList_single]
      obtain ⟨ns, hns, hg⟩ := hok.val
      exact ⟨hok.unary, hok.assoc, ns, hns, DBlocks.single hg⟩
  | off, n :: n' :: rest, b :: bs, hs, hp, hA, hlen, hprio, hassoc => by
    obtain ⟨hs1, hs2⟩ := (shapeList_cons _ _ _).1 hs
    obtain ⟨hp1, hp2⟩ := (prioOKList_cons _ _).1 hp
    obtain ⟨hA1, hA2⟩ := (assocList_cons I _ _).1 hA
    obtain ⟨v, hev, hok⟩ := node_ok I vals off n hs1 hp1 hA1
    obtain ⟨numbers, hnum, hlist⟩ := list_ok I vals off (n' :: rest) bs hs2 hp2 hA2
      (by simpa using hlen) (fun o ho => hprio o (List.mem_cons_of_mem _ ho))
      (fun o ho => hassoc o (List.mem_cons_of_mem _ ho))
    refine ⟨v :: numbers, ?_, ?_⟩
    · rw [evalNodeList, hev]
      simp only [hnum]
    · rw [flattenList_cons]
      obtain ⟨ns, hns, hg⟩ := hok.val
      obtain ⟨ns', hns', hb⟩ := hlist.val
      have hb99 := (hprio b (List.mem_cons_self ..)).2
      refine ⟨?_, ?_, ns ++ ns', nodeValues_append I vals hns hns', DBlocks.cons hg hb⟩
      · refine unaryOK'_append_cons hok.unary hlist.unary rfl ?_
        intro x hx
        have := hg.lo x hx
        simp only [mkOp]; omega
      · exact AssocOps.append_cons hok.assoc
          (hassoc b (List.mem_cons_self ..)) hlist.assoc
end

end FromDeep
end Exmex
