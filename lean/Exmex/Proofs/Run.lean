/-
  Helper vocabulary for L1: `Run p n k` says that `k` is the length of the maximal all-`true`
  prefix of `p` on `[0, n)`. All counting functions of the tracker model (`trailingOnes`,
  `leadingOnes`, `Flags.getPrevious`, `Flags.getNext`, carry loops) are characterised by it.
-/
import Exmex.Model.Tracker
namespace Exmex

def Run (p : Nat → Bool) (n k : Nat) : Prop :=
  k ≤ n ∧ (∀ m, m < k → p m = true) ∧ (k < n → p k = false)

theorem Run.unique {p : Nat → Bool} {n k k' : Nat} (h : Run p n k) (h' : Run p n k') :
    k = k' := by
  obtain ⟨a1, a2, a3⟩ := h
  obtain ⟨b1, b2, b3⟩ := h'
  rcases Nat.lt_trichotomy k k' with hlt | heq | hgt
  · have h1 := b2 k hlt
    have h2 := a3 (by omega)
    simp [h1] at h2
  · exact heq
  · have h1 := a2 k' hgt
    have h2 := b3 (by omega)
    simp [h1] at h2

theorem Run.congr {p q : Nat → Bool} {n k : Nat} (hpq : ∀ m, m < n → p m = q m)
    (h : Run p n k) : Run q n k := by
  obtain ⟨a1, a2, a3⟩ := h
  refine ⟨a1, ?_, ?_⟩
  · intro m hm
    rw [← hpq m (by omega)]
    exact a2 m hm
  · intro hk
    rw [← hpq k hk]
    exact a3 hk

theorem Run.extend {p : Nat → Bool} {n k : Nat} (h : Run p n k) (hk : k < n) (n' : Nat)
    (hn : n ≤ n') : Run p n' k := by
  obtain ⟨a1, a2, a3⟩ := h
  exact ⟨by omega, a2, fun _ => a3 hk⟩

theorem Run.restrict {p : Nat → Bool} {n k : Nat} (h : Run p n k) (n' : Nat) (hn : n' ≤ n) :
    Run p n' (min k n') := by
  obtain ⟨a1, a2, a3⟩ := h
  refine ⟨by omega, ?_, ?_⟩
  · intro m hm
    exact a2 m (by omega)
  · intro hk
    have : min k n' = k := by omega
    rw [this]
    exact a3 (by omega)

theorem Run.append {p : Nat → Bool} {n n' k : Nat} (h1 : Run p n n)
    (h2 : Run (fun m => p (n + m)) n' k) : Run p (n + n') (n + k) := by
  obtain ⟨_, a2, _⟩ := h1
  obtain ⟨b1, b2, b3⟩ := h2
  refine ⟨by omega, ?_, ?_⟩
  · intro m hm
    by_cases hmn : m < n
    · exact a2 m hmn
    · have := b2 (m - n) (by omega)
      have e : n + (m - n) = m := by omega
      simpa [e] using this
  · intro hk
    exact b3 (by omega)

theorem Run.lt_of_false {p : Nat → Bool} {n k j : Nat} (h : Run p n k) (hj : p j = false) :
    k ≤ j := by
  obtain ⟨_, a2, _⟩ := h
  apply Nat.le_of_not_lt
  intro hlt
  have := a2 j hlt
  simp [hj] at this

theorem run_takeWhile (l : List Bool) :
    Run (fun i => l.getD i false) l.length (l.takeWhile id).length := by
  induction l with
  | nil => exact ⟨Nat.le_refl _, fun m hm => absurd hm (Nat.not_lt_zero _), fun h => absurd h (Nat.lt_irrefl _)⟩
  | cons b l ih =>
    obtain ⟨a1, a2, a3⟩ := ih
    cases b with
    | false =>
      refine ⟨by simp, ?_, ?_⟩
      · intro m hm
        simp at hm
      · intro _
        simp
    | true =>
      refine ⟨by simpa using a1, ?_, ?_⟩
      · intro m hm
        cases m with
        | zero => simp
        | succ m =>
          have := a2 m (by simpa using hm)
          simpa using this
      · intro hk
        have := a3 (by simpa using hk)
        simpa using this

end Exmex
