/-
  C05, the comparisons, `if` and `else`: a successful differentiation has looked up every such
  operator of the expression with `find_bin_op` (`binRule` applies `operate_bin` under the
  operator's name, without shortcuts), so the table entry carrying that name has a binary role.
  This is what makes the reference arithmetic `dArith.bop` agree with the interpretation on the
  operators of the expression; it is a consequence of the success of `partial_deepex`, not a
  hypothesis on the table.
-/
import Exmex.Proofs.DiffRules
import Exmex.Proofs.SortSplit
namespace Exmex.Diff
open Exmex.C10 Exmex.C05 Exmex.Shortcut Exmex.CalcLemmas Exmex.DeepCompile

/-- the table entry `i`, if it is named like a comparison, `if` or `else`, is what `find_bin_op`
    finds under that name (in particular it has a binary role) -/
def BinOK (t : Table) (i : Nat) : Prop :=
  String.ofList (reprOf t i) ∈ [">", "<", ">=", "<=", "==", "!=", "if", "else"] →
    ∃ op, findBinOp t (reprOf t i) = .ok op

mutual
/-- `BinOK` for every binary operator of the expression, at any depth -/
def BinT {K : Type} (t : Table) : DeepEx K → Prop
  | .mk nodes ops _ _ => (∀ o ∈ ops, BinOK t o.idx) ∧ binTList t nodes
def binTList {K : Type} (t : Table) : List (DeepNode K) → Prop
  | [] => True
  | .expr e :: rest => BinT t e ∧ binTList t rest
  | _ :: rest => binTList t rest
end

section
variable {K : Type}

def BinTNode (t : Table) : DeepNode K → Prop
  | .expr e => BinT t e
  | _ => True

theorem binTList_cons (t : Table) (nd : DeepNode K) (rest : List (DeepNode K)) :
    binTList t (nd :: rest) ↔ BinTNode t nd ∧ binTList t rest := by
  cases nd <;> simp [binTList, BinTNode]

/-- `BinT` does not depend on the unary chain or the variable list of the top group -/
theorem binT_mk (t : Table) (nodes : List (DeepNode K)) (ops : List DBin) (us us' : List Nat)
    (vars vars' : List Str) (h : BinT t (DeepEx.mk nodes ops us vars)) :
    BinT t (DeepEx.mk nodes ops us' vars') := by
  rw [BinT] at h ⊢; exact h

end

section
variable {K : Type} (I : Interp K) (C : CalcOps K) (t : Table)

/-- every operator `reducePairs` gets to has gone through its rule -/
theorem reducePairs_binOK (ops : List DBin) : ∀ (bs ns : List Nat) (nodes final : List (ValDer K)),
    reducePairs I C t bs ns nodes ops = .ok final →
    ∀ b ∈ bs, ∀ op, ops[b]? = some op → BinOK t op.idx := by
  intro bs
  induction bs with
  | nil => intro ns nodes final _ b hb; cases hb
  | cons b' bs ih =>
    intro ns nodes final h b hb op' hop'
    cases ns with
    | nil => rw [reducePairs] at h; cases h
    | cons n ns =>
      rw [reducePairs] at h
      split at h
      · rename_i f g op hf hg hop
        simp only [] at h
        split at h
        · cases h
        split at h
        · cases h
        rename_i pd hpd
        rcases List.mem_cons.1 hb with rfl | hb'
        · rw [hop] at hop'
          cases hop'
          intro hn
          obtain ⟨o, ho⟩ := binRule_ok_find I C t _ hn f g pd hpd
          rw [String.toList_ofList] at ho
          exact ⟨o, ho⟩
        · exact ih _ _ _ h b hb' op' hop'
      · cases h

end

section
variable {K : Type} (I : Interp K) (C : CalcOps K) (t : Table) (T : List Str) (i : Nat)

def BPD (fuel : Nat) : Prop :=
  ∀ (e e' : DeepEx K), Named T e → partialDeepex I C t i fuel e = .ok e' → BinT t e

def BPI (fuel : Nat) : Prop :=
  ∀ (nodes : List (DeepNode K)) (ops : List DBin) (us : List Nat) (vars : List Str) (e' : DeepEx K),
    Named T (DeepEx.mk nodes ops us vars) →
    partialInner I C t i fuel (DeepEx.mk nodes ops us vars) = .ok e' →
    BinT t (DeepEx.mk nodes ops us vars)

def BVD (fuel : Nat) : Prop :=
  ∀ (nodes : List (DeepNode K)) (vds : List (ValDer K)), namedList T nodes →
    valDers I C t i fuel nodes = .ok vds → binTList t nodes

theorem bpd_step (fuel : Nat) (hPI : BPI I C t T i fuel) : BPD I C t T i (fuel + 1) := by
  intro e e' hn h
  obtain ⟨nodes, ops, us, vars⟩ := e
  rw [partialDeepex] at h
  split at h
  · cases h
  rename_i inner hin
  exact hPI nodes ops us vars inner hn hin

theorem bpi_step (fuel : Nat) (hPD : BPD I C t T i fuel) (hVD : BVD I C t T i fuel) :
    BPI I C t T i (fuel + 1) := by
  intro nodes ops us vars e' hnamed h
  rw [Named] at hnamed
  have hlen := hnamed.1
  match nodes, hlen, hnamed with
  | [], hlen, _ => simp at hlen
  | [single], hlen, hnamed =>
    have hops : ops = [] := by
      simp only [List.length_cons, List.length_nil] at hlen
      exact List.length_eq_zero_iff.1 (by omega)
    subst hops
    rw [BinT, binTList_cons]
    refine ⟨(fun _ ho => by cases ho), ?_, (by simp [binTList])⟩
    cases single with
    | num a => simp [BinTNode]
    | var j nm => simp [BinTNode]
    | expr sub =>
      rw [BinTNode]
      have hns : Named T sub := by
        have := hnamed.2.2
        rw [namedList, NamedNode] at this
        exact this.1
      simp only [partialInner, DeepEx.nodes] at h
      split at h
      · cases h
      rename_i res hres
      exact hPD sub res hns hres
  | n1 :: n2 :: rest, hlen, hnamed =>
    simp only [partialInner, DeepEx.nodes, DeepEx.ops] at h
    split at h
    · cases h
    rename_i vds hvds
    split at h
    · cases h
    rename_i final hfinal
    rw [BinT]
    refine ⟨?_, hVD _ vds hnamed.2.2 hvds⟩
    intro o ho
    obtain ⟨b, hb, hob⟩ := List.getElem_of_mem ho
    exact reducePairs_binOK I C t ops _ _ vds final hfinal b
      (orderByKey_complete _ _ b hb) o (by rw [List.getElem?_eq_getElem hb, hob])

theorem bvd_step (fuel : Nat) (hPD : BPD I C t T i fuel) (hVD : BVD I C t T i fuel) :
    BVD I C t T i (fuel + 1) := by
  intro nodes vds hn h
  cases nodes with
  | nil => simp [binTList]
  | cons n ns =>
    rw [namedList] at hn
    rw [binTList_cons]
    cases n with
    | num a =>
      have hnew : DeepEx.new I [DeepNode.num a] [] [] = .ok (DeepEx.mk [.num a] [] [] []) := rfl
      simp only [valDers, hnew] at h
      split at h
      · rename_i der rest hder hrest
        exact ⟨(by simp [BinTNode]), hVD ns rest hn.2 hrest⟩
      · cases h
      · cases h
    | var j nm =>
      have hnew : DeepEx.new I [DeepNode.var j nm] [] [] =
          .ok (DeepEx.mk [.var j nm] [] [] [nm]) := rfl
      simp only [valDers, hnew] at h
      split at h
      · rename_i der rest hder hrest
        exact ⟨(by simp [BinTNode]), hVD ns rest hn.2 hrest⟩
      · cases h
      · cases h
    | expr sub =>
      simp only [valDers] at h
      split at h
      · rename_i der rest hder hrest
        have hns : Named T sub := by
          have := hn.1
          rw [NamedNode] at this
          exact this
        exact ⟨by rw [BinTNode]; exact hPD sub der hns hder, hVD ns rest hn.2 hrest⟩
      · cases h
      · cases h

theorem b_engine : ∀ fuel, BPD I C t T i fuel ∧ BPI I C t T i fuel ∧ BVD I C t T i fuel := by
  intro fuel
  induction fuel with
  | zero =>
    refine ⟨?_, ?_, ?_⟩
    · intro e e' _ h
      rw [partialDeepex] at h
      cases h
    · intro nodes ops us vars e' _ h
      rw [partialInner] at h
      cases h
    · intro nodes vds _ h
      rw [valDers] at h
      cases h
  | succ fuel ih =>
    obtain ⟨h1, h2, h3⟩ := ih
    exact ⟨bpd_step I C t T i fuel h2, bpi_step I C t T i fuel h1 h3, bvd_step I C t T i fuel h1 h3⟩

/-- a successful differentiation has found every comparison, `if`, `else` of the expression -/
theorem partialDeepex_binT (e e' : DeepEx K) (fuel : Nat) (hn : Named T e)
    (h : partialDeepex I C t i fuel e = .ok e') : BinT t e :=
  (b_engine I C t T i fuel).1 e e' hn h

theorem partialInner_binT (nodes : List (DeepNode K)) (ops : List DBin) (us : List Nat)
    (vars : List Str) (e' : DeepEx K) (fuel : Nat) (hn : Named T (DeepEx.mk nodes ops us vars))
    (h : partialInner I C t i fuel (DeepEx.mk nodes ops us vars) = .ok e') :
    BinT t (DeepEx.mk nodes ops us vars) :=
  (b_engine I C t T i fuel).2.1 nodes ops us vars e' hn h

end

end Exmex.Diff
