/-
  Deep form, one group: evaluating the operand values of a group with `eval_binary` in the order
  `prioritized_indices` (deep.rs) yields the value defined by "split at the right-most operator of
  minimal priority", when flagged operators are associative.
-/
import Exmex.Model.Deep
import Exmex.Proofs.DeepDefs
import Exmex.Spec.Split
import Exmex.Proofs.SortSplit
import Exmex.Proofs.BumpAux
import Exmex.Proofs.Bump
import Exmex.Props.C14
import Exmex.Proofs.ReduceSplit
namespace Exmex

namespace DeepGroupAux
open BumpAux

theorem getD_eq_getElem (ops : List DBin) (k : Nat) (hk : k < ops.length) :
    ops.getD k default = ops[k] := by
  simp [List.getD_eq_getElem?_getD, hk]

/-- what `deepBumped` says about the operator -/
theorem deepBumped_spec {α : Type} {ops : List DBin} {nodes : List (DeepNode α)} {k : Nat}
    (hk : k < ops.length) (h : deepBumped ops nodes k = true) :
    ops[k].comm = true ∧ deepLeftCompatible ops k = true := by
  unfold deepBumped at h
  rw [List.getElem?_eq_getElem hk] at h
  simp only [Bool.and_eq_true] at h
  exact ⟨h.1.2, h.2⟩

theorem deepSortKey_eq {α : Type} (ops : List DBin) (nodes : List (DeepNode α)) (k : Nat)
    (hk : k < ops.length) :
    deepSortKey ops nodes k =
      (ops.getD k default).prio * 10 + (if deepBumped ops nodes k = true then 5 else 0) := by
  unfold deepSortKey
  rw [List.getElem?_eq_getElem hk, getD_eq_getElem ops k hk]

/-- the operator directly on the left of a compatible operator `k > 0` -/
theorem deepLeftCompatible_spec {ops : List DBin} {k : Nat} (hk : k < ops.length) (h0 : 0 < k)
    (h : deepLeftCompatible ops k = true) :
    (ops[k - 1]'(by omega)).prio < ops[k].prio ∨
      ((ops[k - 1]'(by omega)).prio = ops[k].prio ∧ (ops[k - 1]'(by omega)).idx = ops[k].idx) := by
  unfold deepLeftCompatible at h
  have hk1 : k - 1 < ops.length := by omega
  rw [List.getElem?_eq_getElem hk, List.getElem?_eq_getElem hk1] at h
  have hne : (k == 0) = false := by
    rw [beq_eq_false_iff_ne]; omega
  simp only [hne, Bool.false_or, Bool.or_eq_true, Bool.and_eq_true, decide_eq_true_eq,
    beq_iff_eq] at h
  exact h

theorem deepBumpAbs {α : Type} (I : Interp α) (ops : List DBin) (nodes : List (DeepNode α))
    (h : DeepAssoc I ops) :
    BumpAbs (fun k a b => I.bin (ops.getD k default).idx a b) ops.length
      (fun k => (ops.getD k default).prio) (deepBumped ops nodes)
      (fun k => (ops.getD k default).idx) I.bin where
  act := by
    intro k hk hb x y
    rfl
  assoc := by
    intro k hk hb
    obtain ⟨hc, -⟩ := deepBumped_spec hk hb
    rw [getD_eq_getElem ops k hk]
    exact h ops[k] (List.getElem_mem hk) hc
  left := by
    intro j k hjk hk hb hp hbetween
    have hj : j < ops.length := by omega
    obtain ⟨-, hlc⟩ := deepBumped_spec hk hb
    have hl := deepLeftCompatible_spec hk (by omega) hlc
    refine ⟨?_, fun x y => rfl⟩
    simp only [getD_eq_getElem ops k hk, getD_eq_getElem ops j hj] at hp ⊢
    rcases Nat.eq_or_lt_of_le (show j ≤ k - 1 by omega) with heq | hlt
    · subst heq
      rcases hl with h1 | h1
      · omega
      · exact h1.2
    · have := hbetween (k - 1) hlt (by omega)
      simp only [getD_eq_getElem ops k hk, getD_eq_getElem ops (k - 1) (by omega)] at this
      rcases hl with h1 | h1 <;> omega

end DeepGroupAux
open BumpAux DeepGroupAux

/-- L4 for the deep bump rule (`deepSortKey`: +5 iff both neighbours literals, flagged, and the
    operator directly on the left has lower priority or is the same operator) -/
theorem splitEval_deepBump {α : Type} (I : Interp α) (ops : List DBin) (nodes : List (DeepNode α))
    (vals : List α) (hlen : vals.length = ops.length + 1) (h : DeepAssoc I ops) :
    splitEval (fun k a b => I.bin (ops.getD k default).idx a b) (deepSortKey ops nodes) vals.length vals
        (List.range ops.length) =
      splitEval (fun k a b => I.bin (ops.getD k default).idx a b) (fun k => (ops.getD k default).prio)
        vals.length vals (List.range ops.length) := by
  have H := deepBumpAbs I ops nodes h
  obtain ⟨a, ha⟩ := Ev.total (fun k a b => I.bin (ops.getD k default).idx a b) vals
    (deepSortKey ops nodes) ops.length 0 ops.length rfl (Nat.zero_le _) (by omega)
  have ha0 := H.ev (deepSortKey_eq ops nodes) ha (Nat.le_refl _)
  have e1 := ha.splitEval_eq vals.length (by omega)
  have e0 := ha0.splitEval_eq vals.length (by omega)
  have ev : (vals.drop 0).take (ops.length - 0 + 1) = vals := by
    rw [List.drop_zero, Nat.sub_zero, ← hlen, List.take_length]
  rw [ev, Nat.sub_zero, ← List.range_eq_range'] at e1 e0
  rw [e1, e0]

/-- **Deep group evaluation.** The binary part of `DeepEx::eval_relaxed` for one group. -/
theorem deepGroup_eval {α : Type} (I : Interp α) (ops : List DBin) (nodes : List (DeepNode α))
    (numbers : List α) (hlen : numbers.length = ops.length + 1) (h : DeepAssoc I ops) :
    ∃ v, splitEval (fun (o : DBin) a b => I.bin o.idx a b) (fun o => o.prio) ops.length numbers ops = some v ∧
      evalBinary wordsTracker I.dflt (deepApply I ops) numbers (prioIdxDeep ops nodes)
        (List.replicate (1 + numbers.length / 64) (0#64)) = .ok v := by
  have hne : numbers ≠ [] := by
    intro h0; rw [h0] at hlen; simp at hlen
  have hn1 : numbers.length - 1 = ops.length := by omega
  have hπ : ValidOrder (prioIdxDeep ops nodes) ops.length := orderByKey_valid _ _
  have hπ' : ValidOrder (prioIdxDeep ops nodes) (numbers.length - 1) := by rw [hn1]; exact hπ
  have hcongr : ∀ k ∈ prioIdxDeep ops nodes, ∀ a b, deepApply I ops k a b =
      (fun k a b => some ((fun k a b => I.bin (ops.getD k default).idx a b) k a b)) k a b := by
    intro k hk a b
    have hk' : k < ops.length := hπ.lt k hk
    simp [deepApply, List.getElem?_eq_getElem hk']
  obtain ⟨v, hv, he⟩ := C14.evalBinary_words_any_order I.dflt
    (fun k a b => I.bin (ops.getD k default).idx a b) numbers (prioIdxDeep ops nodes) hπ' hne
  obtain ⟨v', hv', hs⟩ := reduceByOrder_sorted_eq_splitEval
    (fun k a b => I.bin (ops.getD k default).idx a b) (deepSortKey ops nodes) numbers hne
  rw [hn1] at hv' hs
  have hvv : v' = v := by
    unfold prioIdxDeep at hv
    rw [hv] at hv'
    exact (Option.some.inj hv').symm
  subst hvv
  refine ⟨v', ?_, ?_⟩
  · rw [splitEval_deepBump I ops nodes numbers hlen h] at hs
    have hmap : (List.range ops.length).map (fun k => ops.getD k default) = ops := by
      apply List.ext_getElem
      · simp
      · intro i h1 h2
        simp [List.getD_eq_getElem?_getD, h2]
    have := splitEval_map (fun k => ops.getD k default) (fun (o : DBin) a b => I.bin o.idx a b)
      (fun o => o.prio) numbers.length numbers (List.range ops.length)
    rw [hmap] at this
    rw [splitEval_fuel_mono _ _ ops.length numbers.length numbers ops hlen (Nat.le_refl _) (by omega),
      this]
    exact hs
  · rw [C14.evalBinary_congr _ _ _ _ _ _ _ hcongr]
    exact he

end Exmex
