/-
  C09, flat form: the output of `FlatEx::to_deepex` satisfies the structural hypotheses of C05
  (`Named`, `Folded`, `Ruled`, `Scoped`, priorities in range), for flat expressions whose operators
  have derivative rules and belong to the table. The loop of `flatex_to_deepex` is handled by
  instantiating the generic simulation `ToDeep.toDeepLoop_sim` with the node invariant of
  Proofs/ToDeep.lean strengthened by the structural one.
-/
import Exmex.Proofs.DiffIter
import Exmex.Proofs.ToDeep
import Exmex.Props.C03ToDeep
import Exmex.Props.C03
namespace Exmex.Diff
open Exmex.C10 Exmex.C05 Exmex.Shortcut Exmex.CalcLemmas Exmex.DeepCompile Exmex.ToDeep Exmex.CompileSound

/-! ### priorities -/

/-- a table priority -/
def prioB (o : DBin) : Prop := 0 ≤ o.prio ∧ o.prio ≤ 99

/-- the binary operators of the table have priorities `0..=99` -/
def TblPrio (t : Table) : Prop := ∀ i b, tblBin t i = some b → prioB b

theorem prioB_of_find (t : Table) (ht : TblPrio t) (repr : Str) (o : DBin)
    (h : findBinOp t repr = .ok o) : prioB o := by
  unfold findBinOp at h
  cases hf : findOp t repr with
  | none => rw [hf] at h; cases h
  | some i =>
    rw [hf] at h
    simp only [] at h
    cases hb : tblBin t i with
    | none => rw [hb] at h; cases h
    | some b =>
      rw [hb] at h
      cases h
      exact ht i o hb

section
variable {K : Type}

mutual
theorem prio_to : ∀ e : DeepEx K, OpE prioB TT TT TT e → e.PrioOK
  | .mk nodes ops un vars, h => by
    rw [OpE] at h
    rw [DeepEx.PrioOK]
    exact ⟨h.1, prio_to_list nodes h.2.2.2⟩
theorem prio_to_list : ∀ l : List (DeepNode K), opList prioB TT TT TT l → prioOKList l
  | [], _ => by rw [prioOKList]; trivial
  | nd :: rest, h => by
    rw [opList] at h
    have hr := prio_to_list rest h.2
    cases nd with
    | num a => simp only [prioOKList]; exact hr
    | var j nm => simp only [prioOKList]; exact hr
    | expr e =>
      have := h.1
      rw [OpN] at this
      rw [prioOKList]
      exact ⟨prio_to e this, hr⟩
end

mutual
theorem prio_of : ∀ e : DeepEx K, e.PrioOK → OpE prioB TT TT TT e
  | .mk nodes ops un vars, h => by
    rw [DeepEx.PrioOK] at h
    rw [OpE]
    exact ⟨h.1, fun _ _ => trivial, trivial, prio_of_list nodes h.2⟩
theorem prio_of_list : ∀ l : List (DeepNode K), prioOKList l → opList prioB TT TT TT l
  | [], _ => by rw [opList]; trivial
  | nd :: rest, h => by
    rw [opList]
    cases nd with
    | num a => simp only [prioOKList] at h; exact ⟨by rw [OpN]; trivial, prio_of_list rest h⟩
    | var j nm => simp only [prioOKList] at h; exact ⟨by rw [OpN]; trivial, prio_of_list rest h⟩
    | expr e =>
      rw [prioOKList] at h
      exact ⟨by rw [OpN]; exact prio_of e h.1, prio_of_list rest h.2⟩
end

end

/-! ### `Named` from `Shape` and well-formed variable nodes -/

section
variable {K : Type}

mutual
theorem gen_of_shape_wf (all : List Str) :
    ∀ e : DeepEx K, e.Shape all.length → WFE all e → GenEx (NQ all) (NV all) e
  | .mk nodes ops un vars, hs, hw => by
    rw [DeepEx.Shape] at hs
    rw [WFE, AllE] at hw
    rw [GenEx]
    exact ⟨hs.1, hs.2.1, gen_of_shape_wf_list all nodes hs.2.2 hw.2⟩
theorem gen_of_shape_wf_list (all : List Str) :
    ∀ l : List (DeepNode K), shapeList all.length l → WFL all l → genList (NQ all) (NV all) l
  | [], _, _ => by rw [genList]; trivial
  | nd :: rest, hs, hw => by
    rw [shapeList] at hs
    rw [WFL, AllL] at hw
    rw [genList]
    refine ⟨?_, gen_of_shape_wf_list all rest hs.2 hw.2⟩
    cases nd with
    | num a => rw [GenNode]; trivial
    | var j nm =>
      have := hw.1
      rw [AllN] at this
      rw [GenNode]
      exact this
    | expr e =>
      have h1 := hs.1
      rw [DeepNode.ShapeN] at h1
      have h2 := hw.1
      rw [AllN] at h2
      rw [GenNode]
      exact gen_of_shape_wf all e h1 h2
end

end

/-! ### the extra node invariant through `convert_node` and the combining step -/

section
variable {K : Type} (I : Interp K) (t : Table) (T : List Str)

/-- operators with rules and table priorities, unary chains of the table, variable names among
    `T`; nested groups `Folded` -/
def XN (nd : DeepNode K) : Prop := OpN (PO t prioB) (PU t) TT (VT T) nd ∧ WeakNode nd

theorem xn_num (a : K) : XN t T (DeepNode.num a) := ⟨opN_num _ _ _ _ a, trivial⟩

theorem new_x (nodes : List (DeepNode K)) (ops : List DBin) (un : List Nat) (e : DeepEx K)
    (hlen : nodes.length = ops.length + 1) (h : DeepEx.new I nodes ops un = .ok e)
    (hn : ∀ nd ∈ nodes, XN t T nd) (ho : ∀ o ∈ ops, PO t prioB o) (hu : ∀ u ∈ un, PU t u) :
    OpE (PO t prioB) (PU t) TT (VT T) e ∧ Folded e := by
  have hfold := new_folded I nodes ops un e h (fun nd hnd => (hn nd hnd).2)
  rw [new_eq_compile I _ _ _ hlen] at h
  have h0 : OpE (PO t prioB) (PU t) TT (VT T) (DeepEx.mk nodes ops un (foundVars nodes)) := by
    rw [OpE]
    exact ⟨ho, hu, trivial, (opList_iff _ _ _ _ nodes).2 (fun nd hnd => (hn nd hnd).1)⟩
  exact ⟨(compile_op _ _ _ _ I _ e h h0).1, hfold⟩

theorem xn_expr (e : DeepEx K) (h : OpE (PO t prioB) (PU t) TT (VT T) e ∧ Folded e) :
    XN t T (DeepNode.expr e) := ⟨by rw [OpN]; exact h.1, h.2⟩

theorem convertNode_x (n : FlatNode K) (d : DeepNode K) (h : convertNode I T n = .ok d)
    (hu : ∀ u ∈ n.un, PU t u) : XN t T d := by
  unfold convertNode at h
  have wrap : ∀ d0 : DeepNode K, XN t T d0 →
      (if n.un.isEmpty then (.ok d0 : Res (DeepNode K))
        else
          match DeepEx.new I [d0] [] n.un with
          | .error _ => .error (.panic "flat.rs:convert_node unwrap")
          | .ok e => .ok (.expr e)) = .ok d → XN t T d := by
    intro d0 hd0 h'
    split at h'
    · cases h'; exact hd0
    · split at h'
      · cases h'
      · rename_i e he
        cases h'
        exact xn_expr t T e (new_x I t T [d0] [] n.un e rfl he
          (fun nd hnd => by rw [List.mem_singleton] at hnd; rw [hnd]; exact hd0)
          (fun _ ho => by cases ho) hu)
  cases hk : n.kind with
  | num a =>
    rw [hk] at h
    exact wrap (.num a) (xn_num t T a) h
  | var i =>
    rw [hk] at h
    simp only [] at h
    cases hv : T[i]? with
    | none => rw [hv] at h; cases h
    | some name =>
      rw [hv] at h
      exact wrap (.var i name) ⟨by rw [OpN]; exact List.mem_of_getElem? hv, trivial⟩ h

theorem convertNodes_x : ∀ (nodes : List (FlatNode K)) (dn : List (DeepNode K)),
    convertNodes I T nodes = .ok dn → (∀ n ∈ nodes, ∀ u ∈ n.un, PU t u) → ∀ d ∈ dn, XN t T d
  | [], dn, h, _ => by
    rw [convertNodes] at h
    cases h
    intro d hd
    cases hd
  | n :: ns, dn, h, hu => by
    rw [convertNodes] at h
    split at h
    · rename_i d ds h1 h2
      cases h
      intro d' hd'
      rcases List.mem_cons.1 hd' with rfl | hd'
      · exact convertNode_x I t T n _ h1 (hu n List.mem_cons_self)
      · exact convertNodes_x ns ds h2 (fun m hm => hu m (List.mem_cons_of_mem _ hm)) d' hd'
    · cases h
    · cases h

theorem rel₂_and {β γ : Type} (G : β → γ → Prop) (X : β → Prop) (l : List β) (m : List γ)
    (h : Rel₂ G l m) (hx : ∀ b ∈ l, X b) : Rel₂ (fun b v => G b v ∧ X b) l m := by
  induction h with
  | nil => exact .nil
  | cons g _ ih =>
    exact .cons ⟨g, hx _ List.mem_cons_self⟩ (ih (fun b hb => hx b (List.mem_cons_of_mem _ hb)))

theorem stepOK_x (vals : List K) (hall : T.length ≤ vals.length) (fops : List FlatOp)
    (hassoc : ∀ o ∈ fops, o.comm = true →
      ∀ x y z, I.bin o.idx (I.bin o.idx x y) z = I.bin o.idx x (I.bin o.idx y z))
    (ht : ∀ o ∈ fops, ∃ b, tblBin t o.idx = some b ∧ b.comm = o.comm)
    (hnames : ∀ o ∈ fops, String.ofList (reprOf t o.idx) ∈ binRuleNames)
    (hun : ∀ o ∈ fops, ∀ u ∈ o.un, PU t u) (htp : TblPrio t)
    (k : Nat) (hk : k < fops.length) :
    StepOK I t fops (fun nd v => GoodN I T vals nd v ∧ XN t T nd) (flatApplyT I fops) k := by
  intro a b va vb ga gb
  obtain ⟨fo, ob, e, h1, h2, h3, h4⟩ := stepOK I t T vals hall fops hassoc ht k hk a b va vb ga.1 gb.1
  have hfo : fo ∈ fops := List.mem_of_getElem? h1
  refine ⟨fo, ob, e, h1, h2, h3, h4, xn_expr t T e (new_x I t T [a, b] _ fo.un e rfl h3 ?_ ?_ (hun fo hfo))⟩
  · intro nd hnd
    simp only [List.mem_cons, List.not_mem_nil, or_false] at hnd
    rcases hnd with rfl | rfl
    · exact ga.2
    · exact gb.2
  · intro o ho
    rw [List.mem_singleton] at ho
    subst ho
    exact ⟨hnames fo hfo, .inl (htp fo.idx ob h2)⟩

end

/-! ### assembly -/

section
variable {K : Type} (I : Interp K) (t : Table)

/-- what C05/C09 ask of a flat expression: its binary operators have names with a binary rule,
    its unary operators have outer rules and are unary operators of the table -/
structure FlatRuled (f : FlatEx K) : Prop where
  bin : ∀ o ∈ f.ops, String.ofList (reprOf t o.idx) ∈ binRuleNames
  unOps : ∀ o ∈ f.ops, ∀ u ∈ o.un, PU t u
  unNodes : ∀ n ∈ f.nodes, ∀ u ∈ n.un, PU t u

/-- **the output of `to_deepex` satisfies the structural hypotheses of C05** -/
theorem toDeep_inv (f : FlatEx K) (hf : C02.FlatInv I f) (ht : C03.OpsInTable t f.ops)
    (hidx : C02.IdxOK f f.vars.length) (hnd : f.vars.Nodup) (hr : FlatRuled t f) (htp : TblPrio t)
    (d : DeepEx K) (htd : f.toDeep I t = .ok d) :
    d.vars = f.vars ∧ Named d.vars d ∧ Folded d ∧ SI t prioB f.vars d ∧ d.Assoc I := by
  obtain ⟨vals, hlen⟩ : ∃ vals : List K, vals.length = f.vars.length :=
    ⟨List.replicate f.vars.length I.dflt, List.length_replicate⟩
  have hall : f.vars.length = vals.length := hlen.symm
  have hflen := hf.len
  have hassoc := hf.bump.assoc
  have hπ : ValidOrder (prioIdxFlat f.ops f.nodes) f.ops.length := orderByKey_valid _ _
  -- the nodes
  obtain ⟨dn, hconv, hG⟩ := convertNodes_good I f.vars vals hall f.nodes hidx
  have hX := convertNodes_x I t f.vars f.nodes dn hconv hr.unNodes
  have hG' := rel₂_and _ (XN t f.vars) dn _ hG hX
  have hnl : (f.nodes.map (nodeVal I vals)).length = f.ops.length + 1 := by
    rw [List.length_map, hflen]
  have hdl : dn.length = f.ops.length + 1 := by rw [hG.length_eq, hnl]
  have hne : dn ≠ [] := by
    intro h0; rw [h0] at hdl; simp at hdl
  -- the loop
  obtain ⟨final, rest, tr', w, hloop, -, hgf⟩ := toDeepLoop_sim I t f.ops
    (fun nd v => GoodN I f.vars vals nd v ∧ XN t f.vars nd)
    (flatApplyT I f.ops) (prioIdxFlat f.ops f.nodes) dn _
    (by rw [hdl, Nat.add_sub_cancel]; exact hπ) hne hG'
    (fun k hk => stepOK_x I t f.vars vals (by omega) f.ops hassoc ht hr.bin hr.unOps htp k (hπ.lt k hk))
  -- wrapping, re-indexing, folding
  obtain ⟨d0, v', n1, -, n3, n4, n5, -⟩ := new_good I f.vars vals (by omega) [final] [w] [] []
    (.cons hgf.1 .nil) rfl (fun o ho => by simp at ho)
  obtain ⟨x1, x2⟩ := new_x I t f.vars [final] [] [] d0 rfl n1
    (fun nd hnd => by rw [List.mem_singleton] at hnd; rw [hnd]; exact hgf.2)
    (fun _ ho => by cases ho) (fun _ hu => by cases hu)
  obtain ⟨d1, r1, r2, r3, r4, -⟩ := resetVars_ok I vals f.vars hnd (by omega) d0 n3 n4 n5
  obtain ⟨d2, c1, c2, c3, -⟩ := C02.deep_compile_sound I d1 vals r2 r3
  have hany : (f.ops.any (fun o => (tblBin t o.idx).isNone)) = false := by
    rw [List.any_eq_false]
    intro o ho
    obtain ⟨b, hb, -⟩ := ht o ho
    simp [hb]
  have hd : d2 = d := by
    unfold FlatEx.toDeep at htd
    rw [hany] at htd
    simp only [Bool.false_eq_true, if_false, hconv, hloop, n1, r1] at htd
    rw [c1] at htd
    cases htd
    rfl
  subst hd
  have hv : d2.vars = f.vars := compile_vars I f.vars d1 d2 c1 r4
  -- `Named`
  have hg0 : GenEx (NQ f.vars) (NV f.vars) d0 := gen_of_shape_wf f.vars d0 (by rw [hall]; exact n3) n5
  obtain ⟨g1, -, -⟩ := reset_ok I f.vars f.vars (fun _ => I.dflt) d0 d1 hg0 r1
  obtain ⟨g2, -⟩ := compile_gen I _ _ d1 d2 c1 g1 (shape_len d2 c2)
  -- `Folded`
  have f1 := folded_reset f.vars d0 d1 r1 x2
  have f2 := compile_folded I d1 d2 c1 (weakList_of_folded _ (folded_nodes d1 f1))
  -- the structural invariant
  have s1 : SI t prioB f.vars d1 :=
    reset_op _ _ _ _ _ f.vars ⟨hnd, fun _ h => h⟩ d0 d1 x1 r1
  have s2 := (compile_op _ _ _ _ I d1 d2 c1 s1).1
  exact ⟨hv, by rw [hv]; exact named_of_full f.vars d2 g2, f2, s2, c3⟩

end

end Exmex.Diff
