/-
  Helpers for C03 (deep → flat): "block substitution" for `splitEval` with an arbitrary type of
  top-level operators (the version in `FlatDenoteBlocks` is phrased for table indices), and
  small facts about `List.modify`, `attachUnary` and `nodeValues`.
-/
import Exmex.Proofs.FlatDenoteAux
namespace Exmex
namespace FromDeep
open SplitLemmas FlatDenoteAux

variable {α τ : Type}

/-- `DBlocks I lo f ns os vs tos`: the operand vector `ns` / operator sequence `os` consist of
    groups (values `vs`, all operators of priority `≥ lo`) joined by the operators `f o`,
    `o ∈ tos`. -/
inductive DBlocks (I : Interp α) (lo : Int) (f : τ → FlatOp) :
    List α → List FlatOp → List α → List τ → Prop
  | single {bn bo v} : GroupOK I bn bo lo v → DBlocks I lo f bn bo [v] []
  | cons {bn bo v top ns os vs tos} : GroupOK I bn bo lo v → DBlocks I lo f ns os vs tos →
      DBlocks I lo f (bn ++ ns) (bo ++ f top :: os) (v :: vs) (top :: tos)

theorem DBlocks.len {I : Interp α} {lo} {f : τ → FlatOp} {ns os vs tos}
    (h : DBlocks I lo f ns os vs tos) :
    ns.length = os.length + 1 ∧ vs.length = tos.length + 1 := by
  induction h with
  | single hg => exact ⟨hg.len, rfl⟩
  | cons hg _ ih => have := hg.len; simp; omega

theorem DBlocks.mem {I : Interp α} {lo} {f : τ → FlatOp} {ns os vs tos}
    (h : DBlocks I lo f ns os vs tos) :
    ∀ x ∈ os, (∃ o ∈ tos, x = f o) ∨ lo ≤ x.prio := by
  induction h with
  | single hg => intro x hx; exact Or.inr (hg.lo x hx)
  | cons hg _ ih =>
    intro x hx
    rcases List.mem_append.1 hx with hx | hx
    · exact Or.inr (hg.lo x hx)
    · rcases List.mem_cons.1 hx with rfl | hx
      · exact Or.inl ⟨_, List.mem_cons_self .., rfl⟩
      · rcases ih x hx with ⟨o, ho, rfl⟩ | h
        · exact Or.inl ⟨o, List.mem_cons_of_mem _ ho, rfl⟩
        · exact Or.inr h

theorem DBlocks.split {I : Interp α} {lo : Int} {f : τ → FlatOp} :
    ∀ (tL : List τ) {top : τ} {tR : List τ} {ns : List α} {os : List FlatOp} {vs : List α},
    DBlocks I lo f ns os vs (tL ++ top :: tR) →
    ∃ nsL osL vsL nsR osR vsR, ns = nsL ++ nsR ∧ os = osL ++ f top :: osR ∧ vs = vsL ++ vsR ∧
      DBlocks I lo f nsL osL vsL tL ∧ DBlocks I lo f nsR osR vsR tR
  | [], top, tR, ns, os, vs, h => by
    rw [List.nil_append] at h
    cases h with
    | cons hg hr => exact ⟨_, _, [_], _, _, _, rfl, rfl, rfl, DBlocks.single hg, hr⟩
  | x :: tL, top, tR, ns, os, vs, h => by
    rw [List.cons_append] at h
    cases h with
    | cons hg hr =>
      obtain ⟨nsL, osL, vsL, nsR, osR, vsR, rfl, rfl, rfl, hL, hR⟩ := DBlocks.split tL hr
      exact ⟨_, _, _ :: vsL, nsR, osR, vsR, (List.append_assoc ..).symm,
        by rw [List.append_assoc]; rfl, rfl, DBlocks.cons hg hL, hR⟩

/-- **block substitution** -/
theorem DBlocks.eval {I : Interp α} {lo : Int} {f : τ → FlatOp} (bin' : τ → α → α → α)
    (key' : τ → Int) (hact : ∀ o a b, FlatOp.act I (f o) a b = bin' o a b)
    (hle : ∀ o o', (f o).prio ≤ (f o').prio ↔ key' o ≤ key' o') :
    ∀ (n : Nat) {tos : List τ} {ns : List α} {os : List FlatOp} {vs : List α},
      tos.length ≤ n → DBlocks I lo f ns os vs tos → (∀ o ∈ tos, (f o).prio < lo) →
      splitEval (FlatOp.act I) (fun o => o.prio) os.length ns os =
        splitEval bin' key' tos.length vs tos
  | n, [], ns, os, vs, _, h, _ => by
    cases h with
    | single hg => rw [hg.ev, splitEval_single]
  | 0, _ :: _, _, _, _, hn, _, _ => by simp at hn
  | n + 1, t0 :: tos0, ns, os, vs, hn, h, hlo => by
    obtain ⟨tL, top, tR, he, hL, hR⟩ := exists_split_min key' (t0 :: tos0) (by simp)
    rw [he] at h hlo hn ⊢
    obtain ⟨nsL, osL, vsL, nsR, osR, vsR, rfl, rfl, rfl, bL, bR⟩ := DBlocks.split tL h
    have hlenL := bL.len
    have hlt : ∀ o o', (f o).prio < (f o').prio ↔ key' o < key' o' := by
      intro o o'
      have := hle o' o
      constructor <;> intro h' <;> omega
    have htop : (f top).prio < lo := hlo top (by simp)
    rw [splitEval_append' _ _ _ _ _ _ _ hlenL.1
        (by
          intro x hx
          rcases bL.mem x hx with ⟨o, ho, rfl⟩ | hx
          · exact (hle _ _).2 (hL o ho)
          · show (f top).prio ≤ x.prio
            omega)
        (by
          intro x hx
          rcases bR.mem x hx with ⟨o, ho, rfl⟩ | hx
          · exact (hlt _ _).2 (hR o ho)
          · show (f top).prio < x.prio
            omega),
      splitEval_append' bin' key' _ _ _ _ _ hlenL.2 hL hR]
    simp only [List.length_append, List.length_cons] at hn
    rw [DBlocks.eval bin' key' hact hle n (by omega) bL
        (fun o ho => hlo o (List.mem_append_left _ ho)),
      DBlocks.eval bin' key' hact hle n (by omega) bR
        (fun o ho => hlo o (List.mem_append_right _ (List.mem_cons_of_mem _ ho)))]
    simp only [hact]

/-! ### `List.modify`, `attachUnary` keep operator indices and flags -/

theorem mem_modify {β : Type} (f : β → β) : ∀ (l : List β) (k : Nat) (x : β),
    x ∈ l.modify k f → x ∈ l ∨ ∃ y ∈ l, x = f y
  | [], k, x, h => by simp at h
  | a :: l, 0, x, h => by
    rw [List.modify_zero_cons] at h
    rcases List.mem_cons.1 h with rfl | h
    · exact Or.inr ⟨a, List.mem_cons_self .., rfl⟩
    · exact Or.inl (List.mem_cons_of_mem _ h)
  | a :: l, k + 1, x, h => by
    rw [List.modify_succ_cons] at h
    rcases List.mem_cons.1 h with rfl | h
    · exact Or.inl (List.mem_cons_self ..)
    · rcases mem_modify f l k x h with h | ⟨y, hy, rfl⟩
      · exact Or.inl (List.mem_cons_of_mem _ h)
      · exact Or.inr ⟨y, List.mem_cons_of_mem _ hy, rfl⟩

/-- flagged operators are associative -/
def AssocOps (I : Interp α) (ops : List FlatOp) : Prop :=
  ∀ o ∈ ops, o.comm = true →
    ∀ x y z, I.bin o.idx (I.bin o.idx x y) z = I.bin o.idx x (I.bin o.idx y z)

theorem AssocOps.nil (I : Interp α) : AssocOps I [] := by
  intro o ho; simp at ho

theorem AssocOps.append_cons {I : Interp α} {A B : List FlatOp} {o : FlatOp} (hA : AssocOps I A)
    (ho : o.comm = true →
      ∀ x y z, I.bin o.idx (I.bin o.idx x y) z = I.bin o.idx x (I.bin o.idx y z))
    (hB : AssocOps I B) : AssocOps I (A ++ o :: B) := by
  intro x hx
  rcases List.mem_append.1 hx with hx | hx
  · exact hA x hx
  · rcases List.mem_cons.1 hx with rfl | hx
    · exact ho
    · exact hB x hx

theorem AssocOps.attach {I : Interp α} (us : List Nat) (g : List (FlatNode α) × List FlatOp)
    (h : AssocOps I g.2) : AssocOps I (attachUnary us g).2 := by
  unfold attachUnary
  split
  · exact h
  · split
    · intro o ho
      rcases mem_modify _ _ _ _ ho with ho | ⟨y, hy, rfl⟩
      · exact h o ho
      · exact h y hy
    · split
      · exact h
      · exact h

/-! ### operand vectors -/

/-- a defined operand vector has all variable indices in range -/
theorem nodeValues_idx (I : Interp α) (vals : List α) :
    ∀ {A : List (FlatNode α)} {x : List α}, nodeValues I A vals = some x →
      ∀ nd ∈ A, ∀ i, nd.kind = .var i → i < vals.length
  | [], _, _, nd, hnd, _, _ => by simp at hnd
  | n :: A, x, h, nd, hnd, i, hi => by
    rw [nodeValues_cons] at h
    cases hn : nodeVal I vals n with
    | none => simp [hn] at h
    | some a =>
      cases hA : nodeValues I A vals with
      | none => simp [hn, hA] at h
      | some xs =>
        rcases List.mem_cons.1 hnd with rfl | hnd
        · unfold nodeVal at hn
          rw [hi] at hn
          simp only [Option.map_eq_some_iff] at hn
          obtain ⟨a', ha', -⟩ := hn
          exact (List.getElem?_eq_some_iff.1 ha').1
        · exact nodeValues_idx I vals hA nd hnd i hi

end FromDeep
end Exmex
