/-
  Vocabulary for `Reach.reach_inv`: the operand invariant `OI` of the calculation API (what every
  expression handled by the API satisfies, relative to a list `T` of top-level names), in terms of
  the generic hereditary predicate `Diff.OpE`, and its relation to `Scoped`, `FromTable`, `PrioOK`,
  `Assoc`, `Named`.
-/
import Exmex.Props.C05
import Exmex.Props.C09
import Exmex.Props.C10Shortcuts
import Exmex.Props.C11
import Exmex.Props.C12
namespace Exmex.ReachLemmas
open Exmex.C10 Exmex.C05 Exmex.Shortcut Exmex.CalcLemmas Exmex.DeepCompile Exmex.Diff

section
variable {K : Type}

/-- the operator is the table's, with a table priority -/
abbrev POt (t : Table) (o : DBin) : Prop := tblBin t o.idx = some o ∧ prioB o
/-- the operator has a unary role -/
abbrev PUt (t : Table) (u : Nat) : Prop := tblHasUnary t u = true

/-- operators of the table, duplicate-free variable lists among `T`, variable names among `T` -/
def SO (t : Table) (T : List Str) (e : DeepEx K) : Prop := OpE (POt t) (PUt t) (QV T) (VT T) e

theorem SO.nodup {t : Table} {T : List Str} {e : DeepEx K} (h : SO t T e) : e.vars.Nodup :=
  (opE_vars _ _ _ _ e h).1
theorem SO.sub {t : Table} {T : List Str} {e : DeepEx K} (h : SO t T e) : ∀ x ∈ e.vars, x ∈ T :=
  (opE_vars _ _ _ _ e h).2

theorem so_mono (t : Table) (T T' : List Str) (hT : ∀ x ∈ T, x ∈ T') (e : DeepEx K) (h : SO t T e) :
    SO t T' e :=
  opE_mono (fun _ h => h) (fun _ h => h) (fun _ h => ⟨h.1, fun x hx => hT x (h.2 x hx)⟩)
    (fun n h => hT n h) e h

/-! ### single-node groups list the variables of their node -/

mutual
/-- every group, at any depth, whose only node is a group `g` lists the variables of `g` -/
def SS : DeepEx K → Prop
  | .mk nodes _ _ vars => (∀ g, nodes = [.expr g] → g.vars = vars) ∧ ssList nodes
def ssList : List (DeepNode K) → Prop
  | [] => True
  | .expr e :: rest => SS e ∧ ssList rest
  | _ :: rest => ssList rest
end

def SSNode : DeepNode K → Prop
  | .expr e => SS e
  | _ => True

theorem ssList_cons (nd : DeepNode K) (rest : List (DeepNode K)) :
    ssList (nd :: rest) ↔ SSNode nd ∧ ssList rest := by
  cases nd <;> simp [ssList, SSNode]

theorem ssList_iff (l : List (DeepNode K)) : ssList l ↔ ∀ nd ∈ l, SSNode nd := by
  induction l with
  | nil => simp [ssList]
  | cons nd rest ih => rw [ssList_cons, ih]; simp

mutual
theorem ss_of_full (vs : List Str) : ∀ e : DeepEx K, FullOf vs e → SS e
  | .mk nodes ops un vars, h => by
    unfold FullOf at h
    rw [OpE] at h
    rw [SS]
    refine ⟨?_, ss_of_full_list vs nodes h.2.2.2⟩
    intro g hg
    subst hg
    have := h.2.2.2
    rw [opList, OpN] at this
    rw [fullOf_vars vs g this.1]
    exact h.2.2.1.symm
theorem ss_of_full_list (vs : List Str) :
    ∀ l : List (DeepNode K), opList (TT) (TT) (fun l => l = vs) (TT) l → ssList l
  | [], _ => by rw [ssList]; trivial
  | nd :: rest, h => by
    rw [opList] at h
    rw [ssList_cons]
    refine ⟨?_, ss_of_full_list vs rest h.2⟩
    cases nd with
    | num a => trivial
    | var j nm => trivial
    | expr e =>
      have := h.1
      rw [OpN] at this
      exact ss_of_full vs e this
end

/-! ### the operand invariant -/

/-- what every expression handled by the calculation API satisfies, relative to the names `T` -/
structure OI (t : Table) (T : List Str) (e : DeepEx K) : Prop where
  named : ∃ L, Named L e
  so : SO t T e
  folded : Folded e

theorem oi_mono (t : Table) (T T' : List Str) (hT : ∀ x ∈ T, x ∈ T') (e : DeepEx K) (h : OI t T e) :
    OI t T' e := ⟨h.named, so_mono t T T' hT e h.so, h.folded⟩

/-! ### from `SO` to the components of the invariant -/

mutual
theorem so_scoped (t : Table) (T : List Str) : ∀ e : DeepEx K, SO t T e → Scoped t T e
  | .mk nodes ops un vars, h => by
    unfold SO at h
    rw [OpE] at h
    rw [Scoped]
    exact ⟨h.2.2.1.1, h.2.2.1.2, h.2.1, so_scoped_list t T nodes h.2.2.2⟩
theorem so_scoped_list (t : Table) (T : List Str) :
    ∀ l : List (DeepNode K), opList (POt t) (PUt t) (QV T) (VT T) l → scopedList t T l
  | [], _ => by rw [scopedList]; trivial
  | nd :: rest, h => by
    rw [opList] at h
    have hr := so_scoped_list t T rest h.2
    cases nd with
    | num a => simp only [scopedList]; exact hr
    | var j nm => simp only [scopedList]; exact hr
    | expr e =>
      have := h.1
      rw [OpN] at this
      rw [scopedList]
      exact ⟨so_scoped t T e this, hr⟩
end

mutual
theorem so_fromTable (t : Table) (T : List Str) : ∀ e : DeepEx K, SO t T e → C12.FromTable t e
  | .mk nodes ops un vars, h => by
    unfold SO at h
    rw [OpE] at h
    rw [C12.FromTable]
    exact ⟨fun o ho => (h.1 o ho).1, h.2.1, so_fromTable_list t T nodes h.2.2.2⟩
theorem so_fromTable_list (t : Table) (T : List Str) :
    ∀ l : List (DeepNode K), opList (POt t) (PUt t) (QV T) (VT T) l → C12.fromTableList t l
  | [], _ => by rw [C12.fromTableList]; trivial
  | nd :: rest, h => by
    rw [opList] at h
    have hr := so_fromTable_list t T rest h.2
    cases nd with
    | num a => simp only [C12.fromTableList]; exact hr
    | var j nm => simp only [C12.fromTableList]; exact hr
    | expr e =>
      have := h.1
      rw [OpN] at this
      rw [C12.fromTableList]
      exact ⟨so_fromTable t T e this, hr⟩
end

theorem so_prio (t : Table) (T : List Str) (e : DeepEx K) (h : SO t T e) : e.PrioOK :=
  prio_to e (opE_mono (fun _ ho => ho.2) (fun _ _ => trivial) (fun _ _ => trivial)
    (fun _ _ => trivial) e h)

theorem deepAssoc_of_tbl (I : Interp K) (t : Table) (hA : C01.FlaggedAssoc I t) (ops : List DBin)
    (h : ∀ o ∈ ops, tblBin t o.idx = some o) : DeepAssoc I ops := by
  intro o ho hc
  have hb := h o ho
  unfold tblBin at hb
  cases hbb : (t[o.idx]?).bind (·.bin) with
  | none => rw [hbb] at hb; cases hb
  | some b =>
    rw [hbb] at hb
    simp only [Option.map] at hb
    have hcomm : b.comm = true := by
      have : o.comm = b.comm := by
        have := Option.some.inj hb
        rw [← this]
      rw [← this]; exact hc
    exact hA o.idx b hbb hcomm

mutual
theorem so_assoc (I : Interp K) (t : Table) (hA : C01.FlaggedAssoc I t) (T : List Str) :
    ∀ e : DeepEx K, SO t T e → e.Assoc I
  | .mk nodes ops un vars, h => by
    unfold SO at h
    rw [OpE] at h
    rw [DeepEx.Assoc]
    exact ⟨deepAssoc_of_tbl I t hA ops (fun o ho => (h.1 o ho).1), so_assoc_list I t hA T nodes h.2.2.2⟩
theorem so_assoc_list (I : Interp K) (t : Table) (hA : C01.FlaggedAssoc I t) (T : List Str) :
    ∀ l : List (DeepNode K), opList (POt t) (PUt t) (QV T) (VT T) l → assocList I l
  | [], _ => by rw [assocList]; trivial
  | nd :: rest, h => by
    rw [opList] at h
    have hr := so_assoc_list I t hA T rest h.2
    cases nd with
    | num a => simp only [assocList]; exact hr
    | var j nm => simp only [assocList]; exact hr
    | expr e =>
      have := h.1
      rw [OpN] at this
      rw [assocList]
      exact ⟨so_assoc I t hA T e this, hr⟩
end

/-! ### from the components to `SO` -/

mutual
theorem so_of (t : Table) (T : List Str) : ∀ e : DeepEx K, Named T e → Scoped t T e →
    C12.FromTable t e → e.PrioOK → SO t T e
  | .mk nodes ops un vars, hn, hs, hf, hp => by
    rw [Named] at hn
    rw [Scoped] at hs
    rw [C12.FromTable] at hf
    rw [DeepEx.PrioOK] at hp
    unfold SO
    rw [OpE]
    exact ⟨fun o ho => ⟨hf.1 o ho, hp.1 o ho⟩, hs.2.2.1, ⟨hs.1, hs.2.1⟩,
      so_of_list t T nodes hn.2.2 hs.2.2.2 hf.2.2 hp.2⟩
theorem so_of_list (t : Table) (T : List Str) : ∀ l : List (DeepNode K), namedList T l →
    scopedList t T l → C12.fromTableList t l → prioOKList l →
    opList (POt t) (PUt t) (QV T) (VT T) l
  | [], _, _, _, _ => by rw [opList]; trivial
  | nd :: rest, hn, hs, hf, hp => by
    rw [namedList] at hn
    rw [opList]
    cases nd with
    | num a =>
      simp only [scopedList] at hs
      simp only [C12.fromTableList] at hf
      simp only [prioOKList] at hp
      exact ⟨opN_num _ _ _ _ a, so_of_list t T rest hn.2 hs hf hp⟩
    | var j nm =>
      simp only [scopedList] at hs
      simp only [C12.fromTableList] at hf
      simp only [prioOKList] at hp
      refine ⟨?_, so_of_list t T rest hn.2 hs hf hp⟩
      rw [OpN]
      have := hn.1
      rw [NamedNode] at this
      exact List.mem_of_getElem? this
    | expr e =>
      rw [scopedList] at hs
      rw [C12.fromTableList] at hf
      rw [prioOKList] at hp
      refine ⟨?_, so_of_list t T rest hn.2 hs.2 hf.2 hp.2⟩
      rw [OpN]
      have h1 := hn.1
      rw [NamedNode] at h1
      exact so_of t T e h1 hs.1 hf.1 hp.1
end

mutual
/-- an expression whose groups all carry `all` (indices into `all`) satisfies the name part of
    `SO` for every `T ⊇ all` -/
theorem so_upgrade (t : Table) (T all : List Str) (hnd : all.Nodup) (hsub : ∀ x ∈ all, x ∈ T)
    (Q : List Str → Prop) (V : Str → Prop) :
    ∀ e : DeepEx K, GenEx (FQ all) (NV all) e → OpE (POt t) (PUt t) Q V e → SO t T e
  | .mk nodes ops un vars, hg, h => by
    rw [GenEx] at hg
    rw [OpE] at h
    unfold SO
    rw [OpE]
    have hv : vars = all := hg.2.1
    exact ⟨h.1, h.2.1, ⟨by rw [hv]; exact hnd, by rw [hv]; exact hsub⟩,
      so_upgrade_list t T all hnd hsub Q V nodes hg.2.2 h.2.2.2⟩
theorem so_upgrade_list (t : Table) (T all : List Str) (hnd : all.Nodup) (hsub : ∀ x ∈ all, x ∈ T)
    (Q : List Str → Prop) (V : Str → Prop) :
    ∀ l : List (DeepNode K), genList (FQ all) (NV all) l → opList (POt t) (PUt t) Q V l →
      opList (POt t) (PUt t) (QV T) (VT T) l
  | [], _, _ => by rw [opList]; trivial
  | nd :: rest, hg, h => by
    rw [genList] at hg
    rw [opList] at h ⊢
    refine ⟨?_, so_upgrade_list t T all hnd hsub Q V rest hg.2 h.2⟩
    cases nd with
    | num a => exact opN_num _ _ _ _ a
    | var j nm =>
      rw [OpN]
      have := hg.1
      rw [GenNode] at this
      exact hsub nm (List.mem_of_getElem? this)
    | expr e =>
      rw [OpN]
      have h1 := hg.1
      rw [GenNode] at h1
      have h2 := h.1
      rw [OpN] at h2
      exact so_upgrade t T all hnd hsub Q V e h1 h2
end

end
end Exmex.ReachLemmas
