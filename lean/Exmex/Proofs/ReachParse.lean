/-
  `Reach.reach_inv`: every expression returned by `Deep.parse` satisfies the invariant — for ANY
  accepted token list (induction on the fuel of `deepMake` / `deepLoop` / `processUnary`).

  The delicate point is `Named d.vars d`: variable indices are assigned against `findVars toks`
  while `d.vars` is collected from the nodes. Both are the strictly sorted list of the names of
  all variable tokens, because the walk consumes every token: a nested `make_expression` stops
  at its closing parenthesis (paren balance of the consumed prefix `-1`) or at the end of the
  list, and the top-level call cannot stop at a closing parenthesis since the balance of every
  prefix of an accepted token list is non-negative.
-/
import Exmex.Proofs.ReachApi
namespace Exmex.ReachLemmas
open Exmex.C10 Exmex.C05 Exmex.Shortcut Exmex.CalcLemmas Exmex.DeepCompile Exmex.Diff

/-! ### tokens: paren balance, pre-conditions, variables -/

section
variable {K : Type}

def bal : List (Tok K) → Int
  | [] => 0
  | tk :: ts => parenDelta tk + bal ts

theorem bal_append (l m : List (Tok K)) : bal (l ++ m) = bal l + bal m := by
  induction l with
  | nil => simp [bal]
  | cons x xs ih => simp only [List.cons_append, bal, ih]; omega

theorem bal_take_succ (l : List (Tok K)) (k : Nat) (tk : Tok K) (h : l[k]? = some tk) :
    bal (l.take (k + 1)) = bal (l.take k) + parenDelta tk := by
  rw [List.take_add_one, bal_append, h]
  simp [bal]

theorem bal_take_add (l : List (Tok K)) (a b : Nat) :
    bal (l.take (a + b)) = bal (l.take a) + bal ((l.drop a).take b) := by
  rw [List.take_add, bal_append]

theorem parenBalance_spec : ∀ (ts : List (Tok K)) (n m : Int), 0 ≤ n → parenBalance ts n = some m →
    m = n + bal ts ∧ ∀ k, 0 ≤ n + bal (ts.take k)
  | [], n, m, hn, h => by
    rw [parenBalance] at h
    cases h
    exact ⟨by simp [bal], fun k => by simp [bal]; exact hn⟩
  | tk :: ts, n, m, hn, h => by
    rw [parenBalance] at h
    split at h
    · cases h
    · rename_i hlt
      obtain ⟨h1, h2⟩ := parenBalance_spec ts (n + parenDelta tk) m (by omega) h
      refine ⟨by rw [h1, bal]; omega, ?_⟩
      intro k
      cases k with
      | zero => simp [bal]; exact hn
      | succ k =>
        rw [List.take_succ_cons, bal]
        have := h2 k
        omega

/-- an opening parenthesis is followed by a token that is not a closing parenthesis -/
def NE (toks : List (Tok K)) : Prop :=
  ∀ i, toks[i]? = some .popen → ∃ tk, toks[i + 1]? = some tk ∧ tk ≠ .pclose

theorem ne_drop (toks : List (Tok K)) (k : Nat) (h : NE toks) : NE (toks.drop k) := by
  intro i hi
  rw [List.getElem?_drop] at hi
  obtain ⟨tk, h1, h2⟩ := h (k + i) hi
  exact ⟨tk, by rw [List.getElem?_drop]; exact h1, h2⟩

theorem pairs_ok (t : Table) : ∀ toks : List (Tok K), anyPairViolated t toks = false →
    ∀ i a b, toks[i]? = some a → toks[i + 1]? = some b → pairViolated t a b = false
  | [], _, i, a, b, h1, _ => by simp at h1
  | [x], _, i, a, b, h1, h2 => by
    cases i with
    | zero => simp at h2
    | succ i => simp at h1
  | x :: y :: rest, h, i, a, b, h1, h2 => by
    rw [anyPairViolated, Bool.or_eq_false_iff] at h
    cases i with
    | zero =>
      simp at h1 h2
      subst h1 h2
      exact h.1
    | succ i =>
      exact pairs_ok t (y :: rest) h.2 i a b (by simpa using h1) (by simpa using h2)

theorem checkPre_spec (t : Table) (toks : List (Tok K)) (h : checkPre t toks = .ok ()) :
    toks ≠ [] ∧ anyPairViolated t toks = false ∧ parenBalance toks 0 = some 0 := by
  unfold checkPre at h
  split at h
  · cases h
  rename_i h1
  split at h
  · cases h
  rename_i h2
  split at h
  · cases h
  rename_i n hn
  split at h
  · cases h
  rename_i h3
  refine ⟨?_, by simpa using h2, ?_⟩
  · intro h0
    rw [h0] at h1
    exact h1 rfl
  · have : n = 0 := by simpa using h3
    rw [hn, this]

/-- what `check_parsed_token_preconditions` gives the walker -/
theorem checkPre_facts (t : Table) (toks : List (Tok K)) (h : checkPre t toks = .ok ()) :
    NE toks ∧ (∃ tk, toks[0]? = some tk ∧ tk ≠ .pclose) ∧ (∀ k, 0 ≤ bal (toks.take k)) := by
  obtain ⟨hne, hpairs, hbal⟩ := checkPre_spec t toks h
  obtain ⟨htot, hpre⟩ := parenBalance_spec toks 0 0 (Int.le_refl 0) hbal
  have hpre' : ∀ k, 0 ≤ bal (toks.take k) := fun k => by have := hpre k; omega
  refine ⟨?_, ?_, hpre'⟩
  · intro i hi
    cases hn : toks[i + 1]? with
    | none =>
      exfalso
      have hlen : toks.length ≤ i + 1 := by
        rcases Nat.lt_or_ge (i + 1) toks.length with hl | hl
        · rw [List.getElem?_eq_getElem hl] at hn; cases hn
        · exact hl
      have h1 := bal_take_succ toks i _ hi
      rw [List.take_of_length_le hlen] at h1
      have h2 := hpre' i
      simp only [parenDelta] at h1
      omega
    | some tk =>
      refine ⟨tk, rfl, ?_⟩
      intro hc
      subst hc
      have := pairs_ok t toks hpairs i _ _ hi hn
      simp [pairViolated] at this
  · cases toks with
    | nil => exact absurd rfl hne
    | cons x xs =>
      refine ⟨x, rfl, ?_⟩
      intro hc
      subst hc
      have := hpre' 1
      simp [bal, parenDelta] at this

def fvStep (acc : List Str) : Tok K → List Str
  | .var n => pushNew acc n
  | _ => acc

theorem findVars_eq (toks : List (Tok K)) : findVars toks = sortBy strLe (toks.foldl fvStep []) := rfl

theorem findVars_fold (toks : List (Tok K)) : ∀ acc : List Str, acc.Nodup →
    (toks.foldl fvStep acc).Nodup ∧
    ∀ x, x ∈ toks.foldl fvStep acc ↔ x ∈ acc ∨ Tok.var x ∈ toks := by
  induction toks with
  | nil => intro acc h; exact ⟨h, fun x => by simp⟩
  | cons tk rest ih =>
    intro acc h
    rw [List.foldl_cons]
    cases tk with
    | var n =>
      obtain ⟨h1, h2⟩ := ih (pushNew acc n) (nodup_pushNew acc n h)
      refine ⟨h1, ?_⟩
      intro x
      rw [fvStep, h2, mem_pushNew]
      simp only [List.mem_cons, Tok.var.injEq]
      constructor
      · rintro ((h | h) | h)
        · exact .inl h
        · exact .inr (.inl h)
        · exact .inr (.inr h)
      · rintro (h | h | h)
        · exact .inl (.inl h)
        · exact .inl (.inr h)
        · exact .inr h
    | num a =>
      have e : fvStep acc (Tok.num a : Tok K) = acc := rfl
      rw [e]
      obtain ⟨h1, h2⟩ := ih acc h
      exact ⟨h1, fun x => by rw [h2]; simp⟩
    | popen =>
      have e : fvStep acc (Tok.popen : Tok K) = acc := rfl
      rw [e]
      obtain ⟨h1, h2⟩ := ih acc h
      exact ⟨h1, fun x => by rw [h2]; simp⟩
    | pclose =>
      have e : fvStep acc (Tok.pclose : Tok K) = acc := rfl
      rw [e]
      obtain ⟨h1, h2⟩ := ih acc h
      exact ⟨h1, fun x => by rw [h2]; simp⟩
    | op o =>
      have e : fvStep acc (Tok.op o : Tok K) = acc := rfl
      rw [e]
      obtain ⟨h1, h2⟩ := ih acc h
      exact ⟨h1, fun x => by rw [h2]; simp⟩

theorem findVars_strict (toks : List (Tok K)) :
    (findVars toks).Pairwise (fun x y => strLt x y = true) := by
  rw [findVars_eq]
  exact sortBy_strLe_strict _ (findVars_fold toks [] List.nodup_nil).1

theorem mem_findVars (toks : List (Tok K)) (x : Str) : x ∈ findVars toks ↔ Tok.var x ∈ toks := by
  rw [findVars_eq, (sortBy_perm strLe _).mem_iff, (findVars_fold toks [] List.nodup_nil).2]
  simp

theorem findVarIndex_spec (name : Str) (V : List Str) (vi : Nat) (h : findVarIndex name V = .ok vi) :
    V[vi]? = some name := by
  unfold findVarIndex at h
  cases hj : V.idxOf? name with
  | none => rw [hj] at h; cases h
  | some j =>
    rw [hj] at h
    cases h
    obtain ⟨hjl, hje, -⟩ := List.idxOf?_eq_some_iff.1 hj
    rw [List.getElem?_eq_getElem hjl, hje]

/-- the run of unary operators after a position consists of operator tokens with a unary role -/
theorem su_spec (t : Table) : ∀ l : List (Tok K),
    (∀ u ∈ subsequentUnaries t l, tblHasUnary t u = true) ∧
    ∀ j, j < (subsequentUnaries t l).length → ∃ u, l[j]? = some (.op u)
  | [] => by simp [subsequentUnaries]
  | .op o :: rest => by
    rw [subsequentUnaries]
    split
    · rename_i ho
      obtain ⟨h1, h2⟩ := su_spec t rest
      refine ⟨?_, ?_⟩
      · intro u hu
        rcases List.mem_cons.1 hu with rfl | hu
        · exact ho
        · exact h1 u hu
      · intro j hj
        cases j with
        | zero => exact ⟨o, rfl⟩
        | succ j =>
          simp only [List.length_cons] at hj
          obtain ⟨u, hu⟩ := h2 j (by omega)
          exact ⟨u, by simpa using hu⟩
    · simp
  | .num _ :: _ => by simp [subsequentUnaries]
  | .var _ :: _ => by simp [subsequentUnaries]
  | .popen :: _ => by simp [subsequentUnaries]
  | .pclose :: _ => by simp [subsequentUnaries]

/-- a run of operator tokens does not change the balance -/
theorem bal_ops (toks : List (Tok K)) (a : Nat) : ∀ n : Nat,
    (∀ j, a ≤ j → j < a + n → ∃ u, toks[j]? = some (.op u)) →
    bal (toks.take (a + n)) = bal (toks.take a)
  | 0, _ => rfl
  | n + 1, h => by
    obtain ⟨u, hu⟩ := h (a + n) (by omega) (by omega)
    rw [← Nat.add_assoc, bal_take_succ toks (a + n) _ hu, bal_ops toks a n (fun j h1 h2 => h j h1 (by omega))]
    simp [parenDelta]

end

/-! ### nodes -/

section
variable {K : Type}

/-- strictly sorted variable lists among `V` -/
abbrev QS (V : List Str) (vs : List Str) : Prop :=
  vs.Pairwise (fun x y => strLt x y = true) ∧ ∀ x ∈ vs, x ∈ V

/-- the name is pushed by the node in `foundVars` -/
def NameOf (x : Str) : DeepNode K → Prop
  | .num _ => False
  | .var _ nm => x = nm
  | .expr e => x ∈ e.vars

def InNames (x : Str) (nodes : List (DeepNode K)) : Prop := ∃ nd ∈ nodes, NameOf x nd

theorem nameFold_spec : ∀ (nodes : List (DeepNode K)) (acc : List Str), acc.Nodup →
    (nodes.foldl ToDeep.nameStep acc).Nodup ∧
      ∀ x, x ∈ nodes.foldl ToDeep.nameStep acc ↔ x ∈ acc ∨ InNames x nodes
  | [], acc, h => ⟨h, fun x => by simp [InNames]⟩
  | nd :: rest, acc, h => by
    rw [List.foldl_cons]
    have hstep : (ToDeep.nameStep acc nd).Nodup ∧ ∀ x, x ∈ ToDeep.nameStep acc nd ↔ x ∈ acc ∨ NameOf x nd := by
      cases nd with
      | num a => exact ⟨h, fun x => by simp [ToDeep.nameStep, NameOf]⟩
      | var i nm =>
        exact ⟨nodup_pushNew acc nm h, fun x => by simp only [ToDeep.nameStep, NameOf]; exact mem_pushNew acc nm x⟩
      | expr e =>
        exact ⟨nodup_foldl_pushNew e.vars acc h,
          fun x => by simp only [ToDeep.nameStep, NameOf]; exact mem_foldl_pushNew e.vars acc x⟩
    obtain ⟨h1, h2⟩ := nameFold_spec rest _ hstep.1
    refine ⟨h1, ?_⟩
    intro x
    rw [h2, hstep.2]
    unfold InNames
    simp only [List.mem_cons, exists_eq_or_imp]
    constructor
    · rintro ((h | h) | h)
      · exact .inl h
      · exact .inr (.inl h)
      · exact .inr (.inr h)
    · rintro (h | h | h)
      · exact .inl (.inl h)
      · exact .inl (.inr h)
      · exact .inr h

theorem foundVars_strict (nodes : List (DeepNode K)) :
    (foundVars nodes).Pairwise (fun x y => strLt x y = true) := by
  rw [ToDeep.foundVars_eq]
  exact sortBy_strLe_strict _ (nameFold_spec nodes [] List.nodup_nil).1

theorem mem_foundVars (nodes : List (DeepNode K)) (x : Str) : x ∈ foundVars nodes ↔ InNames x nodes := by
  rw [ToDeep.foundVars_eq, (sortBy_perm strLe _).mem_iff, (nameFold_spec nodes [] List.nodup_nil).2]
  simp

theorem foundVars_single (g : DeepEx K) (hs : g.vars.Pairwise (fun x y => strLt x y = true)) :
    foundVars [DeepNode.expr g] = g.vars := by
  apply ParseAssembly.strict_ext _ _ (foundVars_strict _) hs
  intro x
  rw [mem_foundVars]
  simp [InNames, NameOf]

end

/-! ### the invariant of parsed groups -/

section
variable {K : Type} (I : Interp K) (t : Table) (V : List Str)

/-- the invariant of parsed groups, relative to the top-level names `V` -/
structure PE (e : DeepEx K) : Prop where
  named : Named V e
  op : OpE (POt t) (PUt t) (QS V) (VT V) e
  folded : Folded e
  ss : SS e

/-- the invariant of parsed nodes -/
structure PN (nd : DeepNode K) : Prop where
  named : NamedNode V nd
  op : OpN (POt t) (PUt t) (QS V) (VT V) nd
  weak : WeakNode nd
  ss : SSNode nd

theorem pn_num (a : K) : PN t V (DeepNode.num a) :=
  ⟨by rw [NamedNode]; trivial, opN_num _ _ _ _ a, trivial, trivial⟩

theorem pn_var (vi : Nat) (name : Str) (h : V[vi]? = some name) : PN t V (DeepNode.var vi name : DeepNode K) :=
  ⟨by rw [NamedNode]; exact h, by rw [OpN]; exact List.mem_of_getElem? h, trivial, trivial⟩

theorem pn_expr (e : DeepEx K) (h : PE t V e) : PN t V (DeepNode.expr e) :=
  ⟨by rw [NamedNode]; exact h.named, by rw [OpN]; exact h.op, h.folded, h.ss⟩

theorem new_cases (nodes : List (DeepNode K)) (ops : List DBin) (un : List Nat) (d : DeepEx K)
    (h : DeepEx.new I nodes ops un = .ok d) :
    nodes.length + ops.length + un.length = 0 ∨
      (nodes.length = ops.length + 1 ∧ (DeepEx.mk nodes ops un (foundVars nodes)).compile I = .ok d) := by
  unfold DeepEx.new at h
  split at h
  · rename_i h0
    exact .inl (by simpa using h0)
  · split at h
    · cases h
    · rename_i h1
      exact .inr ⟨by simpa using h1, h⟩

variable (hA : C01.FlaggedAssoc I t)
include hA

/-- `DeepEx::new` on parsed nodes -/
theorem new_pe (nodes : List (DeepNode K)) (ops : List DBin) (un : List Nat) (d : DeepEx K)
    (hlen : nodes.length = ops.length + 1) (hn : ∀ nd ∈ nodes, PN t V nd) (ho : ∀ o ∈ ops, POt t o)
    (hu : ∀ u ∈ un, PUt t u)
    (h : (DeepEx.mk nodes ops un (foundVars nodes)).compile I = .ok d) :
    PE t V d ∧ ∀ x, x ∈ d.vars ↔ InNames x nodes := by
  have hfs := foundVars_strict nodes
  have hfsub : ∀ x ∈ foundVars nodes, x ∈ V := by
    intro x hx
    obtain ⟨nd, hnd, hname⟩ := (mem_foundVars nodes x).1 hx
    have hop := (hn nd hnd).op
    cases nd with
    | num a => exact hname.elim
    | var i nm =>
      rw [OpN] at hop
      have hx' : x = nm := hname
      rw [hx']; exact hop
    | expr e =>
      rw [OpN] at hop
      exact (opE_vars _ _ _ _ e hop).2 x hname
  have g0 : GenEx (NQ V) (NV V) (DeepEx.mk nodes ops un (foundVars nodes)) := by
    rw [GenEx]
    exact ⟨hlen, ToDeep.nodup_subset_length _ V (nodup_of_strict _ hfs) hfsub,
      (genList_iff _ _ nodes).2 (fun nd hnd => (namedNode_iff_gen V nd).1 (hn nd hnd).named)⟩
  have n0 := (named_iff_gen V _).2 g0
  have o0 : OpE (POt t) (PUt t) (QS V) (VT V) (DeepEx.mk nodes ops un (foundVars nodes)) := by
    rw [OpE]
    exact ⟨ho, hu, ⟨hfs, hfsub⟩, (opList_iff _ _ _ _ nodes).2 (fun nd hnd => (hn nd hnd).op)⟩
  have s0 : SS (DeepEx.mk nodes ops un (foundVars nodes)) := by
    rw [SS]
    refine ⟨?_, (ssList_iff nodes).2 (fun nd hnd => (hn nd hnd).ss)⟩
    intro g hg
    subst hg
    have hop := (hn _ List.mem_cons_self).op
    rw [OpN] at hop
    exact (foundVars_single g (opE_vars _ _ _ _ g hop).1).symm
  have so0 : SO t V (DeepEx.mk nodes ops un (foundVars nodes)) :=
    opE_mono (fun _ h => h) (fun _ h => h) (fun _ h => ⟨nodup_of_strict _ h.1, h.2⟩) (fun _ h => h) _ o0
  obtain ⟨ssd, hv⟩ := compile_ss I _ d h s0
  obtain ⟨od, -⟩ := compile_op _ _ _ _ I _ d h o0
  have fd := compile_folded I _ d h (fun nd hnd => (hn nd hnd).weak)
  obtain ⟨gd, -⟩ := compile_gen' I t hA V V (NQ V) (NV V) _ d n0 so0 g0 h
  refine ⟨⟨(named_iff_gen V d).2 gd, od, fd, ssd⟩, ?_⟩
  intro x
  rw [hv]
  exact mem_foundVars nodes x

end

/-! ### the walk -/

section
variable {K : Type} (I : Interp K) (t : Table) (V : List Str)

/-- what `deepLoop` returns, started at `idx` with `nodes`, `ops` -/
def LoopRes (toks : List (Tok K)) (idx : Nat) (nodes : List (DeepNode K)) (ops : List DBin)
    (nodes' : List (DeepNode K)) (ops' : List DBin) (idx' : Nat) : Prop :=
  ∃ ext exto, nodes' = nodes ++ ext ∧ ops' = ops ++ exto ∧ (∀ nd ∈ ext, PN t V nd) ∧
    (∀ o ∈ exto, POt t o) ∧ idx ≤ idx' ∧ idx' ≤ toks.length ∧
    (idx' = toks.length ∨ bal (toks.take idx') + 1 ≤ bal (toks.take idx)) ∧
    (∀ j nm, idx ≤ j → j < idx' → toks[j]? = some (.var nm) → InNames nm ext) ∧
    (∀ tk, toks[idx]? = some tk → tk ≠ .pclose → 0 < ext.length + exto.length)

def MakeOK (fuel : Nat) : Prop :=
  ∀ (toks : List (Tok K)) (un : List Nat) (d : DeepEx K) (k : Nat),
    deepMake I t V fuel toks un = .ok (d, k) → NE toks → (∀ u ∈ un, PUt t u) →
    (un ≠ [] ∨ ∃ tk, toks[0]? = some tk ∧ tk ≠ .pclose) →
    PE t V d ∧ k ≤ toks.length ∧ (k = toks.length ∨ bal (toks.take k) + 1 ≤ 0) ∧
      ∀ j nm, j < k → toks[j]? = some (.var nm) → nm ∈ d.vars

def LoopOK (fuel : Nat) : Prop :=
  ∀ (toks : List (Tok K)) (idx : Nat) (nodes : List (DeepNode K)) (ops : List DBin)
    (nodes' : List (DeepNode K)) (ops' : List DBin) (idx' : Nat),
    deepLoop I t V fuel toks idx nodes ops = .ok (nodes', ops', idx') → NE toks → idx ≤ toks.length →
    LoopRes t V toks idx nodes ops nodes' ops' idx'

def UnOK (fuel : Nat) : Prop :=
  ∀ (toks : List (Tok K)) (idx o : Nat) (node : DeepNode K) (fwd : Nat),
    processUnary I t V fuel toks idx o = .ok (node, fwd) → NE toks → toks[idx]? = some (.op o) →
    PUt t o →
    PN t V node ∧ 1 ≤ fwd ∧ idx + fwd ≤ toks.length ∧
      (idx + fwd = toks.length ∨ bal (toks.take (idx + fwd)) ≤ bal (toks.take idx)) ∧
      ∀ j nm, idx ≤ j → j < idx + fwd → toks[j]? = some (.var nm) → NameOf nm node

/-- one step of the loop followed by the rest -/
theorem loop_glue (toks : List (Tok K)) (idx idx1 idx' : Nat)
    (nodes pre nodes' : List (DeepNode K)) (ops preo ops' : List DBin)
    (hpre : ∀ nd ∈ pre, PN t V nd) (hpreo : ∀ o ∈ preo, POt t o)
    (hlt : idx < idx1) (hpos : 0 < pre.length + preo.length)
    (hb1 : idx1 = toks.length ∨ bal (toks.take idx1) ≤ bal (toks.take idx))
    (hcov1 : ∀ j nm, idx ≤ j → j < idx1 → toks[j]? = some (.var nm) → InNames nm pre)
    (hr : LoopRes t V toks idx1 (nodes ++ pre) (ops ++ preo) nodes' ops' idx') :
    LoopRes t V toks idx nodes ops nodes' ops' idx' := by
  obtain ⟨ext, exto, e1, e2, hn, ho, h1, h2, h3, h4, -⟩ := hr
  refine ⟨pre ++ ext, preo ++ exto, by rw [e1, List.append_assoc], by rw [e2, List.append_assoc],
    ?_, ?_, by omega, h2, ?_, ?_, ?_⟩
  · intro nd hnd
    rcases List.mem_append.1 hnd with h | h
    · exact hpre nd h
    · exact hn nd h
  · intro o hom
    rcases List.mem_append.1 hom with h | h
    · exact hpreo o h
    · exact ho o h
  · rcases hb1 with hb1 | hb1
    · exact .inl (by omega)
    · rcases h3 with h3 | h3
      · exact .inl h3
      · exact .inr (by omega)
  · intro j nm hj1 hj2 hj
    rcases Nat.lt_or_ge j idx1 with hlt1 | hge1
    · obtain ⟨nd, hnd, hname⟩ := hcov1 j nm hj1 hlt1 hj
      exact ⟨nd, List.mem_append_left _ hnd, hname⟩
    · obtain ⟨nd, hnd, hname⟩ := h4 j nm hge1 hj2 hj
      exact ⟨nd, List.mem_append_right _ hnd, hname⟩
  · intro _ _ _
    rw [List.length_append, List.length_append]
    omega

theorem tblBin_idx (o : Nat) (b : DBin) (h : tblBin t o = some b) : b.idx = o := by
  unfold tblBin at h
  cases hbb : (t[o]?).bind (·.bin) with
  | none => rw [hbb] at h; cases h
  | some bb =>
    rw [hbb] at h
    simp only [Option.map] at h
    have := Option.some.inj h
    rw [← this]

variable (hA : C01.FlaggedAssoc I t) (hP : TblPrio t)
include hA hP
set_option linter.unusedSectionVars false

theorem make_step (fuel : Nat) (hL : LoopOK I t V fuel) : MakeOK I t V (fuel + 1) := by
  intro toks un d k h hne hun hstart
  rw [deepMake] at h
  split at h
  · cases h
  rename_i nodes ops idx hloop
  split at h
  · cases h
  rename_i d' hnew
  cases h
  obtain ⟨ext, exto, e1, e2, hn, ho, -, hle, hbal, hcov, hpos⟩ :=
    hL toks 0 [] [] nodes ops k hloop hne (Nat.zero_le _)
  rw [List.nil_append] at e1 e2
  subst e1 e2
  rcases new_cases I nodes ops un d hnew with h0 | ⟨hlen, hc⟩
  · exfalso
    have hun0 : un = [] := List.eq_nil_of_length_eq_zero (by omega)
    rcases hstart with hs | ⟨tk, h1, h2⟩
    · exact hs hun0
    · have := hpos tk h1 h2
      omega
  · obtain ⟨hpe, hvars⟩ := new_pe I t V hA nodes ops un d hlen hn ho hun hc
    refine ⟨hpe, hle, ?_, ?_⟩
    · rcases hbal with hb | hb
      · exact .inl hb
      · refine .inr ?_
        have : bal (toks.take 0) = 0 := by rw [List.take_zero]; rfl
        omega
    · intro j nm hj1 hj2
      exact (hvars nm).2 (hcov j nm (Nat.zero_le _) hj1 hj2)

theorem un_step (fuel : Nat) (hM : MakeOK I t V fuel) : UnOK I t V (fuel + 1) := by
  intro toks idx o node fwd h hne hidx hpo
  rw [processUnary] at h
  simp only [] at h
  obtain ⟨su, hsu⟩ : ∃ su, su = subsequentUnaries t (toks.drop (idx + 1)) := ⟨_, rfl⟩
  rw [← hsu] at h
  obtain ⟨hsu1, hsu2⟩ := su_spec t (toks.drop (idx + 1))
  rw [← hsu] at hsu1 hsu2
  have huops : ∀ u ∈ o :: su, PUt t u := by
    intro u hu
    rcases List.mem_cons.1 hu with rfl | hu
    · exact hpo
    · exact hsu1 u hu
  -- the run of operator tokens
  have hrun : ∀ j, idx ≤ j → j < idx + (o :: su).length → ∃ u, toks[j]? = some (.op u) := by
    intro j hj1 hj2
    rcases Nat.eq_or_lt_of_le hj1 with rfl | hlt
    · exact ⟨o, hidx⟩
    · simp only [List.length_cons] at hj2
      obtain ⟨u, hu⟩ := hsu2 (j - (idx + 1)) (by omega)
      rw [List.getElem?_drop] at hu
      exact ⟨u, by rw [← hu]; congr 1; omega⟩
  have hbalrun := bal_ops toks idx (o :: su).length hrun
  have hnovar : ∀ j nm, idx ≤ j → j < idx + (o :: su).length → toks[j]? = some (.var nm) → False := by
    intro j nm hj1 hj2 hj
    obtain ⟨u, hu⟩ := hrun j hj1 hj2
    rw [hu] at hj
    cases hj
  obtain ⟨n, hn⟩ : ∃ n, n = (o :: su).length := ⟨_, rfl⟩
  rw [← hn] at h hbalrun hnovar hrun
  have hn1 : 1 ≤ n := by rw [hn]; simp
  -- the group after an opening (or closing) parenthesis
  have paren : ∀ (tk : Tok K) (e : DeepEx K) (fwd' : Nat), toks[idx + n]? = some tk →
      (tk = .popen ∨ tk = .pclose) →
      deepMake I t V fuel (toks.drop (idx + n + 1)) (o :: su) = .ok (e, fwd') →
      PN t V (.expr e) ∧ 1 ≤ fwd' + n + 1 ∧ idx + (fwd' + n + 1) ≤ toks.length ∧
        (idx + (fwd' + n + 1) = toks.length ∨
          bal (toks.take (idx + (fwd' + n + 1))) ≤ bal (toks.take idx)) ∧
        ∀ j nm, idx ≤ j → j < idx + (fwd' + n + 1) → toks[j]? = some (.var nm) →
          NameOf nm (DeepNode.expr e) := by
    intro tk e fwd' htk hpar hmake
    obtain ⟨hpe, hle, hb, hcov⟩ := hM _ _ e fwd' hmake (ne_drop toks _ hne) huops
      (.inl (by simp))
    have hlt : idx + n < toks.length := (List.getElem?_eq_some_iff.1 htk).1
    rw [List.length_drop] at hle hb
    refine ⟨pn_expr t V e hpe, by omega, by omega, ?_, ?_⟩
    · rcases hb with hb | hb
      · exact .inl (by omega)
      · refine .inr ?_
        have e1 : idx + (fwd' + n + 1) = (idx + n + 1) + fwd' := by omega
        rw [e1, bal_take_add, bal_take_succ toks (idx + n) tk htk, hbalrun]
        have : parenDelta tk ≤ 1 := by
          rcases hpar with rfl | rfl <;> simp [parenDelta]
        omega
    · intro j nm hj1 hj2 hj
      rcases Nat.lt_or_ge j (idx + n) with hl | hg
      · exact (hnovar j nm hj1 hl hj).elim
      · rcases Nat.eq_or_lt_of_le hg with rfl | hgt
        · rw [htk] at hj
          rcases hpar with rfl | rfl <;> cases hj
        · have : (toks.drop (idx + n + 1))[j - (idx + n + 1)]? = some (.var nm) := by
            rw [List.getElem?_drop, ← hj]; congr 1; omega
          exact hcov _ nm (by omega) this
  split at h
  · cases h
  · rename_i htk
    split at h
    · cases h
    rename_i e fwd' hmake
    cases h
    exact paren _ e fwd' htk (.inl rfl) hmake
  · rename_i htk
    split at h
    · cases h
    rename_i e fwd' hmake
    cases h
    exact paren _ e fwd' htk (.inr rfl) hmake
  · rename_i name htk
    split at h
    · cases h
    rename_i vi hvi
    split at h
    · cases h
    rename_i e hnew
    cases h
    have hlt : idx + n < toks.length := (List.getElem?_eq_some_iff.1 htk).1
    have hv := findVarIndex_spec name V vi hvi
    rcases new_cases I _ _ _ e hnew with h0 | ⟨hlen, hc⟩
    · simp at h0
    obtain ⟨hpe, hvars⟩ := new_pe I t V hA _ _ _ e hlen
      (fun nd hnd => by rw [List.mem_singleton] at hnd; rw [hnd]; exact pn_var t V vi name hv)
      (fun _ ho => by cases ho) huops hc
    refine ⟨pn_expr t V e hpe, by omega, by omega, .inr ?_, ?_⟩
    · rw [← Nat.add_assoc, bal_take_succ toks (idx + n) _ htk, hbalrun]
      simp [parenDelta]
    · intro j nm hj1 hj2 hj
      rcases Nat.lt_or_ge j (idx + n) with hl | hg
      · exact (hnovar j nm hj1 hl hj).elim
      · have hje : j = idx + n := by omega
        subst hje
        rw [htk] at hj
        cases hj
        exact (hvars _).2 ⟨_, List.mem_cons_self, rfl⟩
  · rename_i a htk
    cases h
    have hlt : idx + n < toks.length := (List.getElem?_eq_some_iff.1 htk).1
    refine ⟨pn_num t V _, by omega, by omega, .inr ?_, ?_⟩
    · rw [← Nat.add_assoc, bal_take_succ toks (idx + n) _ htk, hbalrun]
      simp [parenDelta]
    · intro j nm hj1 hj2 hj
      rcases Nat.lt_or_ge j (idx + n) with hl | hg
      · exact (hnovar j nm hj1 hl hj).elim
      · have hje : j = idx + n := by omega
        subst hje
        rw [htk] at hj
        cases hj
  · cases h

theorem loop_step (fuel : Nat) (hM : MakeOK I t V fuel) (hL : LoopOK I t V fuel)
    (hU : UnOK I t V fuel) : LoopOK I t V (fuel + 1) := by
  intro toks idx nodes ops nodes' ops' idx' h hne hidx
  rw [deepLoop] at h
  split at h
  · -- end of the token list
    rename_i htk
    cases h
    have hlen : toks.length ≤ idx := by
      rcases Nat.lt_or_ge idx toks.length with hl | hl
      · rw [List.getElem?_eq_getElem hl] at htk; cases htk
      · exact hl
    refine ⟨[], [], by simp, by simp, (fun _ h => by cases h), (fun _ h => by cases h),
      Nat.le_refl _, hidx, .inl (by omega), ?_, ?_⟩
    · intro j nm hj1 hj2 _
      omega
    · intro tk h1 _
      rw [htk] at h1
      cases h1
  · -- an operator
    rename_i o htk
    have hlt : idx < toks.length := (List.getElem?_eq_some_iff.1 htk).1
    have hb := bal_take_succ toks idx _ htk
    simp only [parenDelta] at hb
    split at h
    · cases h
    · -- binary
      split at h
      · cases h
      rename_i b hb'
      have hbi := tblBin_idx t o b hb'
      have hpo : POt t b := ⟨by rw [hbi]; exact hb', hP o b hb'⟩
      refine loop_glue t V toks idx (idx + 1) idx' nodes [] nodes' ops [b] ops'
        (fun _ h => by cases h)
        (fun x hx => by rw [List.mem_singleton] at hx; rw [hx]; exact hpo)
        (by omega) (by simp) (.inr (by omega)) ?_ ?_
      · intro j nm hj1 hj2 hj
        have : j = idx := by omega
        subst this
        rw [htk] at hj
        cases hj
      · rw [List.append_nil]
        exact hL _ _ _ _ _ _ _ h hne (by omega)
    · -- unary
      split at h
      · cases h
      rename_i hun
      have hpu : PUt t o := by simpa using hun
      split at h
      · cases h
      rename_i node fwd hproc
      obtain ⟨hpn, hf1, hf2, hf3, hf4⟩ := hU toks idx o node fwd hproc hne htk hpu
      refine loop_glue t V toks idx (idx + fwd) idx' nodes [node] nodes' ops [] ops'
        (fun x hx => by rw [List.mem_singleton] at hx; rw [hx]; exact hpn)
        (fun _ h => by cases h) (by omega) (by simp) hf3 ?_ ?_
      · intro j nm hj1 hj2 hj
        exact ⟨node, List.mem_cons_self, hf4 j nm hj1 hj2 hj⟩
      · rw [List.append_nil]
        exact hL _ _ _ _ _ _ _ h hne hf2
  · -- a number
    rename_i a htk
    have hlt : idx < toks.length := (List.getElem?_eq_some_iff.1 htk).1
    have hb := bal_take_succ toks idx _ htk
    simp only [parenDelta] at hb
    refine loop_glue t V toks idx (idx + 1) idx' nodes [.num a] nodes' ops [] ops'
      (fun x hx => by rw [List.mem_singleton] at hx; rw [hx]; exact pn_num t V a)
      (fun _ h => by cases h) (by omega) (by simp) (.inr (by omega)) ?_ ?_
    · intro j nm hj1 hj2 hj
      have : j = idx := by omega
      subst this
      rw [htk] at hj
      cases hj
    · rw [List.append_nil]
      exact hL _ _ _ _ _ _ _ h hne (by omega)
  · -- a variable
    rename_i name htk
    have hlt : idx < toks.length := (List.getElem?_eq_some_iff.1 htk).1
    have hb := bal_take_succ toks idx _ htk
    simp only [parenDelta] at hb
    split at h
    · cases h
    rename_i vi hvi
    have hv := findVarIndex_spec name V vi hvi
    refine loop_glue t V toks idx (idx + 1) idx' nodes [.var vi name] nodes' ops [] ops'
      (fun x hx => by rw [List.mem_singleton] at hx; rw [hx]; exact pn_var t V vi name hv)
      (fun _ h => by cases h) (by omega) (by simp) (.inr (by omega)) ?_ ?_
    · intro j nm hj1 hj2 hj
      have : j = idx := by omega
      subst this
      rw [htk] at hj
      cases hj
      exact ⟨_, List.mem_cons_self, rfl⟩
    · rw [List.append_nil]
      exact hL _ _ _ _ _ _ _ h hne (by omega)
  · -- an opening parenthesis
    rename_i htk
    have hlt : idx < toks.length := (List.getElem?_eq_some_iff.1 htk).1
    have hb := bal_take_succ toks idx _ htk
    simp only [parenDelta] at hb
    split at h
    · cases h
    rename_i e fwd hmake
    obtain ⟨tk1, ht1, ht2⟩ := hne idx htk
    obtain ⟨hpe, hle, hbm, hcov⟩ := hM _ _ e fwd hmake (ne_drop toks _ hne) (fun _ h => by cases h)
      (.inr ⟨tk1, by rw [List.getElem?_drop]; exact ht1, ht2⟩)
    rw [List.length_drop] at hle hbm
    refine loop_glue t V toks idx (idx + 1 + fwd) idx' nodes [.expr e] nodes' ops [] ops'
      (fun x hx => by rw [List.mem_singleton] at hx; rw [hx]; exact pn_expr t V e hpe)
      (fun _ h => by cases h) (by omega) (by simp) ?_ ?_ ?_
    · rcases hbm with hbm | hbm
      · exact .inl (by omega)
      · refine .inr ?_
        rw [bal_take_add]
        omega
    · intro j nm hj1 hj2 hj
      rcases Nat.eq_or_lt_of_le hj1 with rfl | hgt
      · rw [htk] at hj
        cases hj
      · have : (toks.drop (idx + 1))[j - (idx + 1)]? = some (.var nm) := by
          rw [List.getElem?_drop, ← hj]; congr 1; omega
        exact ⟨_, List.mem_cons_self, hcov _ nm (by omega) this⟩
    · rw [List.append_nil]
      exact hL _ _ _ _ _ _ _ h hne (by omega)
  · -- a closing parenthesis
    rename_i htk
    cases h
    have hlt : idx < toks.length := (List.getElem?_eq_some_iff.1 htk).1
    have hb := bal_take_succ toks idx _ htk
    simp only [parenDelta] at hb
    refine ⟨[], [], by simp, by simp, (fun _ h => by cases h), (fun _ h => by cases h),
      by omega, by omega, .inr (by omega), ?_, ?_⟩
    · intro j nm hj1 hj2 hj
      have : j = idx := by omega
      subst this
      rw [htk] at hj
      cases hj
    · intro tk h1 h2
      rw [htk] at h1
      cases h1
      exact absurd rfl h2

theorem walk_ok : ∀ fuel, MakeOK I t V fuel ∧ LoopOK I t V fuel ∧ UnOK I t V fuel := by
  intro fuel
  induction fuel with
  | zero =>
    refine ⟨?_, ?_, ?_⟩
    · intro toks un d k h
      rw [deepMake] at h
      cases h
    · intro toks idx nodes ops nodes' ops' idx' h
      rw [deepLoop] at h
      cases h
    · intro toks idx o node fwd h
      rw [processUnary] at h
      cases h
  | succ fuel ih =>
    obtain ⟨h1, h2, h3⟩ := ih
    exact ⟨make_step I t V hA hP fuel h2, loop_step I t V hA hP fuel h1 h2 h3, un_step I t V hA hP fuel h1⟩

end

section
variable {K : Type} (I : Interp K) (t : Table) (hA : C01.FlaggedAssoc I t) (hP : TblPrio t)
include hA hP

/-- **every expression returned by `Deep.parse` satisfies the invariant** -/
theorem good_parse (lm : Str → Option Nat) (text : Str) (d : DeepEx K)
    (h : Deep.parse I t lm text = .ok d) : Good t d := by
  unfold Deep.parse at h
  split at h
  · cases h
  rename_i toks htoks
  split at h
  · cases h
  rename_i hpre
  split at h
  · cases h
  rename_i d' k hmake
  cases h
  obtain ⟨hne, hstart, hprefix⟩ := checkPre_facts t toks hpre
  obtain ⟨hpe, hle, hb, hcov⟩ := (walk_ok I t (findVars toks) hA hP _).1 toks [] d k hmake hne
    (fun _ h => by cases h) (.inr hstart)
  have hk : k = toks.length := by
    rcases hb with hb | hb
    · exact hb
    · have := hprefix k
      omega
  have hVs := findVars_strict toks
  have hds : d.vars.Pairwise (fun x y => strLt x y = true) ∧ ∀ x ∈ d.vars, x ∈ findVars toks :=
    opE_vars _ _ _ _ d hpe.op
  have hv : d.vars = findVars toks := by
    apply ParseAssembly.strict_ext _ _ hds.1 hVs
    intro x
    refine ⟨hds.2 x, ?_⟩
    intro hx
    rw [mem_findVars, List.mem_iff_getElem?] at hx
    obtain ⟨j, hj⟩ := hx
    have hjl : j < toks.length := (List.getElem?_eq_some_iff.1 hj).1
    exact hcov j x (by omega) hj
  have hso : SO t (findVars toks) d :=
    opE_mono (fun _ h => h) (fun _ h => h) (fun _ h => ⟨nodup_of_strict _ h.1, h.2⟩) (fun _ h => h) _
      hpe.op
  exact ⟨by rw [hv]; exact hpe.named, hds.1,
    by rw [hv]; exact ⟨⟨_, hpe.named⟩, hso, hpe.folded⟩, hpe.ss⟩

end
end Exmex.ReachLemmas
