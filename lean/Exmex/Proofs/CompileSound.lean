/-
  C02: `FlatEx::compile` is sound.

  The folding loop is followed with the "compressed" state of `reduceByOrder`: the current nodes and
  the list `remOf n used` of original indices of the operators still present. A fold happens only
  between two operators that have not been visited yet, hence at a local maximum of the (original)
  sort key, where merging does not change the split evaluation (`splitEval_merge`). The record
  `folded` ("left of a folded operator there is a lower key before any surviving operator") is all
  that is needed afterwards to transport the unary invariant and the bump flags to the surviving
  operators.
-/
import Exmex.Proofs.CompileSoundAux
import Exmex.Proofs.ReduceSplitAux
namespace Exmex
namespace CompileSound
open BumpAux

/-! ### sorted lists of positions -/

theorem sorted_getElem_lt {l : List Nat} (hs : l.Pairwise (· < ·)) {i j : Nat} (hj : j < l.length)
    (hij : i < j) : l[i]'(by omega) < l[j] :=
  List.pairwise_iff_getElem.1 hs i j (by omega) hj hij

theorem sorted_getElem_le {l : List Nat} (hs : l.Pairwise (· < ·)) {i j : Nat} (hj : j < l.length)
    (hij : i ≤ j) : l[i]'(by omega) ≤ l[j] := by
  rcases Nat.eq_or_lt_of_le hij with h | h
  · subst h; exact Nat.le_refl _
  · exact Nat.le_of_lt (sorted_getElem_lt hs hj h)

theorem sorted_idx_lt {l : List Nat} (hs : l.Pairwise (· < ·)) {i j : Nat} (hi : i < l.length)
    (hj : j < l.length) (h : l[i] < l[j]) : i < j := by
  rcases Nat.lt_or_ge i j with h' | h'
  · exact h'
  · have := sorted_getElem_le hs hi h'
    omega

theorem sorted_getElem_inj {l : List Nat} (hs : l.Pairwise (· < ·)) {i j : Nat} (hi : i < l.length)
    (hj : j < l.length) (h : l[i] = l[j]) : i = j := by
  rcases Nat.lt_trichotomy i j with h' | h' | h'
  · have := sorted_getElem_lt hs hj h'; omega
  · exact h'
  · have := sorted_getElem_lt hs hi h'; omega

theorem sorted_nodup {l : List Nat} (hs : l.Pairwise (· < ·)) : l.Nodup :=
  List.nodup_iff_pairwise_ne.2 (hs.imp (fun h => Nat.ne_of_lt h))

theorem filter_ne_eq_eraseIdx : ∀ (l : List Nat) (p k : Nat), l.Nodup → l[p]? = some k →
    l.filter (fun x => x != k) = l.eraseIdx p := by
  intro l
  induction l with
  | nil => intro p k _ h; simp at h
  | cons x l ih =>
    intro p k hn h
    have hn' := List.nodup_cons.1 hn
    cases p with
    | zero =>
      simp at h
      subst h
      simp only [List.eraseIdx_zero, List.tail_cons]
      rw [List.filter_cons_of_neg (by simp)]
      apply List.filter_eq_self.2
      intro a ha
      have : a ≠ x := fun e => hn'.1 (e ▸ ha)
      simpa using this
    | succ p =>
      simp only [List.getElem?_cons_succ] at h
      have hk : k ∈ l := List.mem_of_getElem? h
      have hx : x ≠ k := fun e => hn'.1 (e ▸ hk)
      rw [List.filter_cons_of_pos (by simpa using hx), List.eraseIdx_cons_succ, ih p k hn'.2 h]

theorem idxOf_eraseIdx {l : List Nat} (hn : l.Nodup) {p : Nat} (hp : p < l.length) {x : Nat}
    (hx : x ∈ l) (hne : x ≠ l[p]) :
    (l.eraseIdx p).idxOf x = if p < l.idxOf x then l.idxOf x - 1 else l.idxOf x := by
  obtain ⟨i, hi, rfl⟩ := List.getElem_of_mem hx
  have hip : i ≠ p := fun e => hne (by subst e; rfl)
  rw [hn.idxOf_getElem i hi]
  have hn' : (l.eraseIdx p).Nodup := hn.sublist (List.eraseIdx_sublist l p)
  have hlen : (l.eraseIdx p).length = l.length - 1 := List.length_eraseIdx_of_lt hp
  split
  · rename_i h
    have h1 : i - 1 < (l.eraseIdx p).length := by omega
    have e : (l.eraseIdx p)[i - 1] = l[i] := by
      rw [List.getElem_eraseIdx, dif_neg (by omega)]
      congr 1; omega
    rw [← e]; exact hn'.idxOf_getElem _ h1
  · rename_i h
    have h1 : i < (l.eraseIdx p).length := by omega
    have e : (l.eraseIdx p)[i] = l[i] := by
      rw [List.getElem_eraseIdx, dif_pos (by omega)]
    rw [← e]; exact hn'.idxOf_getElem _ h1

/-! ### the operators still present -/

/-- original indices of the operators not folded so far, ascending -/
def remOf (n : Nat) (used : List Nat) : List Nat :=
  (List.range n).filter (fun k => !used.contains k)

theorem mem_remOf {n : Nat} {used : List Nat} {k : Nat} :
    k ∈ remOf n used ↔ k < n ∧ k ∉ used := by
  simp [remOf, List.mem_filter]

theorem remOf_sorted (n : Nat) (used : List Nat) : (remOf n used).Pairwise (· < ·) :=
  List.Pairwise.filter _ List.pairwise_lt_range

theorem remOf_nil (n : Nat) : remOf n [] = List.range n := by
  simp [remOf]

theorem remOf_append {n : Nat} {used : List Nat} {p k : Nat} (h : (remOf n used)[p]? = some k) :
    remOf n (used ++ [k]) = (remOf n used).eraseIdx p := by
  rw [← filter_ne_eq_eraseIdx _ p k (sorted_nodup (remOf_sorted n used)) h]
  unfold remOf
  rw [List.filter_filter]
  apply List.filter_congr
  intro x _
  simp only [List.contains_append, List.contains_cons, List.contains_nil, Bool.or_false,
    Bool.not_or]
  cases hx : x == k <;> cases used.contains x <;> simp_all [bne]

/-- the surviving operator records, as `FlatEx::compile` computes them -/
theorem ops_filter_eq (ops : List FlatOp) (used : List Nat) :
    (ops.zipIdx.filter (fun p => !used.contains p.2)).map (·.1) =
      (remOf ops.length used).map (opAt ops) := by
  have hz : ops.zipIdx = (List.range ops.length).map (fun i => (opAt ops i, i)) := by
    apply List.ext_getElem?
    intro i
    by_cases hi : i < ops.length
    · simp [hi, opAt, List.getD_eq_getElem?_getD]
    · simp [hi]
  rw [hz, List.filter_map, List.map_map]
  rfl

/-! ### what is recorded about folded operators -/

/-- left of a folded operator `m`, before (or at) any surviving operator `a`, there is a
    strictly lower key -/
def FoldRec (key : Nat → Int) (n : Nat) (rem : List Nat) : Prop :=
  ∀ m, m < n → m ∉ rem → ∀ a ∈ rem, a < m → ∃ c, a ≤ c ∧ c < m ∧ key c < key m

/-- descending from any operator right of a surviving `a` one reaches `a` itself or a surviving
    operator, without the key going up -/
theorem left_descent {key : Nat → Int} {n : Nat} {rem : List Nat} (hF : FoldRec key n rem)
    {a : Nat} (ha : a ∈ rem) :
    ∀ m, a < m → m < n → key a < key m ∨ ∃ c ∈ rem, a < c ∧ c ≤ m ∧ key c ≤ key m := by
  intro m
  induction m using Nat.strongRecOn with
  | _ m ih =>
    intro ham hmn
    by_cases hm : m ∈ rem
    · exact Or.inr ⟨m, hm, ham, Nat.le_refl _, Int.le_refl _⟩
    · obtain ⟨c, hc1, hc2, hc3⟩ := hF m hmn hm a ha ham
      rcases Nat.eq_or_lt_of_le hc1 with e | hlt
      · subst e; exact Or.inl hc3
      · rcases ih c hc2 hlt (by omega) with h | ⟨c', h1, h2, h3, h4⟩
        · exact Or.inl (by omega)
        · exact Or.inr ⟨c', h1, h2, by omega, by omega⟩

theorem sortKey_bounds {α : Type} (ops : List FlatOp) (nodes : List (FlatNode α)) (k : Nat)
    (hk : k < ops.length) :
    (opAt ops k).prio * 10 ≤ sortKey ops nodes k ∧ sortKey ops nodes k ≤ (opAt ops k).prio * 10 + 5 := by
  rw [sortKey_eq ops nodes k hk]
  split <;> constructor <;> simp only [opAt] <;> omega

/-- the unary invariant survives the folding -/
theorem unaryOK_rem {α : Type} (ops : List FlatOp) (nodes : List (FlatNode α)) (rem : List Nat)
    (hs : rem.Pairwise (· < ·)) (hlt : ∀ k ∈ rem, k < ops.length)
    (hU : UnaryOK ops) (hF : FoldRec (sortKey ops nodes) ops.length rem) :
    UnaryOK (rem.map (opAt ops)) := by
  intro j k hjk hk hun hp
  simp only [List.length_map] at hk
  simp only [List.getElem_map] at hun hp ⊢
  have hjm : rem[j] ∈ rem := List.getElem_mem _
  have hkm : rem[k] ∈ rem := List.getElem_mem _
  have hjn : rem[j] < ops.length := hlt _ hjm
  have hkn : rem[k] < ops.length := hlt _ hkm
  have hjk0 : rem[j] < rem[k] := sorted_getElem_lt hs hk hjk
  have e1 : ∀ i (hi : i < ops.length), opAt ops i = ops[i] := fun i hi =>
    getD_eq_getElem' ops i hi
  rw [e1 _ hjn] at hun hp
  rw [e1 _ hkn] at hp
  obtain ⟨m, m1, m2, m3⟩ := hU rem[j] rem[k] hjk0 hkn hun hp
  have hmn : m < ops.length := by omega
  have bj := sortKey_bounds ops nodes rem[j] hjn
  have bm := sortKey_bounds ops nodes m hmn
  rw [e1 _ hjn] at bj
  rw [e1 _ hmn] at bm
  rcases left_descent hF hjm m m1 hmn with h | ⟨c, c1, c2, c3, c4⟩
  · omega
  · obtain ⟨t, ht, rfl⟩ := List.getElem_of_mem c1
    have t1 : j < t := sorted_idx_lt hs (by omega) ht c2
    have t2 : t < k := sorted_idx_lt hs ht hk (by omega)
    have hcn : rem[t] < ops.length := by omega
    have bc := sortKey_bounds ops nodes rem[t] hcn
    refine ⟨t, t1, t2, ?_⟩
    rw [e1 _ hcn] at bc ⊢
    rw [e1 _ hjn]
    omega

/-- the bump flags of the full sequence are still good bump flags on the surviving operators -/
theorem bumpAbs_rem {α : Type} (I : Interp α) (ops : List FlatOp) (nodes : List (FlatNode α))
    (hB : BumpOK I ops) (rem : List Nat) (hs : rem.Pairwise (· < ·))
    (hlt : ∀ k ∈ rem, k < ops.length) (hF : FoldRec (sortKey ops nodes) ops.length rem) :
    BumpAbs (fun q => flatApplyT I ops (rem.getD q 0)) rem.length
      (fun q => (opAt ops (rem.getD q 0)).prio) (fun q => bumped ops nodes (rem.getD q 0))
      (fun q => (opAt ops (rem.getD q 0)).idx) I.bin := by
  have H := bumpAbs I ops nodes hB
  have eg : ∀ q (hq : q < rem.length), rem.getD q 0 = rem[q] := fun q hq => by
    simp [List.getD_eq_getElem?_getD, hq]
  refine ⟨?_, ?_, ?_⟩
  · intro q hq hb x y
    exact H.act _ (hlt _ (by rw [eg q hq]; exact List.getElem_mem _)) hb x y
  · intro q hq hb
    exact H.assoc _ (hlt _ (by rw [eg q hq]; exact List.getElem_mem _)) hb
  · intro j q hjq hq hb hp hbetween
    have hj : j < rem.length := by omega
    simp only [eg q hq, eg j hj] at hb hp hbetween ⊢
    have hjm : rem[j] ∈ rem := List.getElem_mem _
    have hjn : rem[j] < ops.length := hlt _ hjm
    have hqn : rem[q] < ops.length := hlt _ (List.getElem_mem _)
    have hjq0 : rem[j] < rem[q] := sorted_getElem_lt hs hq hjq
    have bj := sortKey_bounds ops nodes rem[j] hjn
    -- every operator of the full sequence strictly between with priority ≤ p is a bumped one
    -- of priority p
    have key : ∀ m, rem[j] < m → m < rem[q] → (opAt ops m).prio ≤ (opAt ops rem[q]).prio →
        (opAt ops m).prio = (opAt ops rem[q]).prio ∧ bumped ops nodes m = true := by
      intro m m1 m2 m3
      have hmn : m < ops.length := by omega
      have bm := sortKey_bounds ops nodes m hmn
      have em := sortKey_eq ops nodes m hmn
      rcases left_descent hF hjm m m1 hmn with h | ⟨c, c1, c2, c3, c4⟩
      · simp only [opAt] at *
        split at em <;> first | (constructor <;> first | assumption | omega) | omega
      · exfalso
        obtain ⟨t, ht, rfl⟩ := List.getElem_of_mem c1
        have t1 : j < t := sorted_idx_lt hs hj ht c2
        have t2 : t < q := sorted_idx_lt hs ht hq (by omega)
        have := hbetween t t1 t2
        rw [eg t ht] at this
        have bc := sortKey_bounds ops nodes rem[t] (hlt _ c1)
        omega
    exact H.chain (rem[q] - rem[j]) rem[j] rem[q] rfl hjq0 hqn hp
      (fun m m1 m2 => by
        by_cases h : (ops.getD m default).prio < (ops.getD rem[q] default).prio
        · have := (key m m1 m2 (Int.le_of_lt h)).1
          simp only [opAt] at this; omega
        · omega)
      (fun m m1 m2 m3 => by
        rcases Nat.eq_or_lt_of_le m2 with e | h
        · subst e; exact hb
        · exact (key m m1 h (Int.le_of_eq m3)).2)

/-- **L4 on the surviving operators**: the stale sort key (bump flags of the full sequence) and
    the plain priority give the same split evaluation -/
theorem splitEval_rem_bump {α : Type} (I : Interp α) (ops : List FlatOp)
    (nodes : List (FlatNode α)) (hB : BumpOK I ops) (rem : List Nat) (hs : rem.Pairwise (· < ·))
    (hlt : ∀ k ∈ rem, k < ops.length) (hF : FoldRec (sortKey ops nodes) ops.length rem)
    (vs : List α) (hlen : vs.length = rem.length + 1) :
    splitEval (flatApplyT I ops) (sortKey ops nodes) vs.length vs rem =
      splitEval (flatApplyT I ops) (fun k => (opAt ops k).prio) vs.length vs rem := by
  have H := bumpAbs_rem I ops nodes hB rem hs hlt hF
  rw [splitEval_reindex (flatApplyT I ops) (sortKey ops nodes) _ vs rem 0,
    splitEval_reindex (flatApplyT I ops) (fun k => (opAt ops k).prio) _ vs rem 0]
  refine splitEval_bumpAbs H _ ?_ vs hlen
  intro q hq
  have : rem.getD q 0 < ops.length := by
    apply hlt
    simp [List.getD_eq_getElem?_getD, hq]
  exact sortKey_eq ops nodes _ this

/-- split evaluation over surviving positions = over the surviving operator records -/
theorem splitEval_rem_ops {α : Type} (I : Interp α) (ops : List FlatOp) (rem : List Nat)
    (hlt : ∀ k ∈ rem, k < ops.length) (fuel : Nat) (vs : List α) :
    splitEval (flatApplyT I ops) (fun k => (opAt ops k).prio) fuel vs rem =
      splitEval (FlatOp.act I) (fun o => o.prio) fuel vs (rem.map (opAt ops)) := by
  rw [splitEval_map]
  apply splitEval_congr
  · intro k hk a b
    exact flatApplyT_eq_act I ops k (hlt k hk) a b
  · intro k _; rfl

end CompileSound
end Exmex
