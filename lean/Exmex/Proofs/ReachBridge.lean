/-
  Bridging facts for `Props/ReachCorollaries.lean`:
  * `Named` + `Scoped` give `C11.Listed`;
  * the operator found by `findBinOp` is associative when flagged, given `C01.FlaggedAssoc`.
-/
import Exmex.Props.C11
import Exmex.Props.C01
import Exmex.Proofs.DiffDefs
import Exmex.Proofs.ReachOps
namespace Exmex.ReachBridge
open Exmex.CalcLemmas

mutual
theorem listed_of_gen_scoped {α} {Q : List Str → Prop} {V : Nat → Str → Prop} (t : Table)
    (top : List Str) :
    ∀ e : DeepEx α, GenEx Q V e → C05.Scoped t top e →
      GenEx (fun vs => ∀ x ∈ vs, x ∈ top) (fun _ _ => True) e
  | .mk nodes ops un vars, hg, hs => by
    rw [GenEx] at hg ⊢
    rw [C05.Scoped] at hs
    exact ⟨hg.1, hs.2.1, listedList_of_gen_scoped t top nodes hg.2.2 hs.2.2.2⟩
theorem listedList_of_gen_scoped {α} {Q : List Str → Prop} {V : Nat → Str → Prop} (t : Table)
    (top : List Str) :
    ∀ l : List (DeepNode α), genList Q V l → C05.scopedList t top l →
      genList (fun vs => ∀ x ∈ vs, x ∈ top) (fun _ _ => True) l
  | [], _, _ => by rw [genList]; trivial
  | .num a :: rest, hg, hs => by
    rw [genList] at hg ⊢
    rw [C05.scopedList] at hs
    case x_1 => intro e he; cases he
    exact ⟨by rw [GenNode]; trivial, listedList_of_gen_scoped t top rest hg.2 hs⟩
  | .var i nm :: rest, hg, hs => by
    rw [genList] at hg ⊢
    rw [C05.scopedList] at hs
    case x_1 => intro e he; cases he
    exact ⟨by rw [GenNode]; trivial, listedList_of_gen_scoped t top rest hg.2 hs⟩
  | .expr e :: rest, hg, hs => by
    rw [genList] at hg ⊢
    rw [C05.scopedList] at hs
    have h1 := hg.1
    rw [GenNode] at h1
    exact ⟨by rw [GenNode]; exact listed_of_gen_scoped t top e h1 hs.1,
      listedList_of_gen_scoped t top rest hg.2 hs.2⟩
end

/-- `Named` and `Scoped` expressions are `Listed` -/
theorem listed_of_named_scoped {α} (t : Table) (top : List Str) (d : DeepEx α)
    (hn : C10.Named top d) (hs : C05.Scoped t top d) : C11.Listed top d :=
  listed_of_gen_scoped t top d ((C10.named_iff_gen top d).1 hn) hs

/-- the operator found by name is associative when flagged -/
theorem findBinOp_assoc {α} (I : Interp α) (t : Table) (hA : C01.FlaggedAssoc I t)
    (repr : Str) (op : DBin) (hop : findBinOp t repr = .ok op) :
    op.comm = true → ∀ x y z, I.bin op.idx (I.bin op.idx x y) z = I.bin op.idx x (I.bin op.idx y z) := by
  intro hc
  have h := ReachLemmas.findBinOp_tbl t repr op hop
  unfold tblBin at h
  cases hb : (t[op.idx]?).bind (·.bin) with
  | none => rw [hb] at h; cases h
  | some b =>
    rw [hb] at h
    simp only [Option.map] at h
    have h' := Option.some.inj h
    have hcb : b.comm = true := by rw [← h'] at hc; exact hc
    exact hA op.idx b hb hcb

end Exmex.ReachBridge
