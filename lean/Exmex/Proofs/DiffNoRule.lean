/-
  C05, negative part: an operator without a derivative rule in the top group makes
  `partial_deepex` fail.
-/
import Exmex.Proofs.DiffEngine
import Exmex.Proofs.SortSplit
namespace Exmex.Diff
open Exmex.Shortcut

section
variable {K : Type} (I : Interp K) (C : CalcOps K) (t : Table)

theorem go_norule (e : DeepEx K) : ∀ (rest : List Nat) (idx : Nat) (acc : DeepEx K),
    (∃ u ∈ rest, String.ofList (reprOf t u) ∉ unRuleNames) →
    ∃ err, partialOuter.go I C t e rest idx acc = .error err := by
  intro rest
  induction rest with
  | nil => intro idx acc h; obtain ⟨u, hu, -⟩ := h; cases hu
  | cons u' rest' ih =>
    intro idx acc h
    rw [partialOuter.go]
    by_cases hc : String.ofList (reprOf t u') ∈ unRuleNames
    · have hrest : ∃ u ∈ rest', String.ofList (reprOf t u) ∉ unRuleNames := by
        obtain ⟨u, hu, hbad⟩ := h
        rcases List.mem_cons.1 hu with rfl | hu'
        · exact absurd hc hbad
        · exact ⟨u, hu', hbad⟩
      rw [if_neg (by simpa using hc)]
      cases unRule I C t (String.ofList (reprOf t u')) (dropUnaries e idx) with
      | error err => exact ⟨err, rfl⟩
      | ok factor =>
        simp only []
        cases DeepEx.mul I C t factor acc with
        | error err => exact ⟨err, rfl⟩
        | ok acc' => exact ih (idx + 1) acc' hrest
    · rw [if_pos (by simpa using hc)]
      exact ⟨_, rfl⟩

theorem reducePairs_norule (ops : List DBin) : ∀ (bs ns : List Nat) (nodes : List (ValDer K)),
    (∃ b ∈ bs, ∃ op, ops[b]? = some op ∧ String.ofList (reprOf t op.idx) ∉ binRuleNames) →
    ∃ err, reducePairs I C t bs ns nodes ops = .error err := by
  intro bs
  induction bs with
  | nil => intro ns nodes h; obtain ⟨b, hb, -⟩ := h; cases hb
  | cons b' bs ih =>
    intro ns nodes h
    cases ns with
    | nil => exact ⟨_, by rw [reducePairs]⟩
    | cons n ns =>
      rw [reducePairs]
      split
      · rename_i f g op hf hg hop
        simp only []
        by_cases hc : String.ofList (reprOf t op.idx) ∈ binRuleNames
        · have hrest : ∃ b ∈ bs, ∃ op, ops[b]? = some op ∧
              String.ofList (reprOf t op.idx) ∉ binRuleNames := by
            obtain ⟨b, hb, op', hop', hbad⟩ := h
            rcases List.mem_cons.1 hb with rfl | hb'
            · rw [hop] at hop'
              cases hop'
              exact absurd hc hbad
            · exact ⟨b, hb', op', hop', hbad⟩
          rw [if_neg (by simpa using hc)]
          cases binRule I C t (String.ofList (reprOf t op.idx)) f g with
          | error err => exact ⟨err, rfl⟩
          | ok pd => exact ih _ _ hrest
        · rw [if_pos (by simpa using hc)]
          exact ⟨_, rfl⟩
      · exact ⟨_, rfl⟩

/-- an operator without a rule in the top group: `partial_deepex` is an error, whatever the fuel -/
theorem partialDeepex_norule (d : DeepEx K) (i fuel : Nat)
    (h : (2 ≤ d.nodes.length ∧ ∃ o ∈ d.ops, String.ofList (reprOf t o.idx) ∉ binRuleNames) ∨
      (∃ u ∈ d.un, String.ofList (reprOf t u) ∉ unRuleNames)) :
    ∃ err, partialDeepex I C t i fuel d = .error err := by
  cases fuel with
  | zero => exact ⟨_, by rw [partialDeepex]⟩
  | succ fuel =>
    rw [partialDeepex]
    rcases h with ⟨hlen, o, ho, hbad⟩ | h
    · -- the inner derivative fails
      suffices hin : ∃ err, partialInner I C t i fuel d = .error err by
        obtain ⟨err, he⟩ := hin
        rw [he]
        exact ⟨err, rfl⟩
      obtain ⟨nodes, ops, us, vars⟩ := d
      simp only [DeepEx.nodes, DeepEx.ops] at hlen ho
      cases fuel with
      | zero => exact ⟨_, by rw [partialInner]⟩
      | succ fuel =>
        match nodes, hlen with
        | [], hlen => simp at hlen
        | [_], hlen => simp at hlen
        | n1 :: n2 :: rest, _ =>
          simp only [partialInner, DeepEx.nodes, DeepEx.ops]
          cases valDers I C t i fuel (n1 :: n2 :: rest) with
          | error err => exact ⟨err, rfl⟩
          | ok vds =>
            simp only []
            obtain ⟨b, hb, hob⟩ := List.getElem_of_mem ho
            have hmem : b ∈ prioIdxDeep ops (n1 :: n2 :: rest) := orderByKey_complete _ _ b hb
            obtain ⟨err, he⟩ := reducePairs_norule I C t ops (prioIdxDeep ops (n1 :: n2 :: rest))
              (prioIdxDeep ops (n1 :: n2 :: rest)) vds
              ⟨b, hmem, o, by rw [List.getElem?_eq_getElem hb, hob], hbad⟩
            rw [he]
            exact ⟨err, rfl⟩
    · cases partialInner I C t i fuel d with
      | error err => exact ⟨err, rfl⟩
      | ok inner =>
        simp only []
        unfold partialOuter
        rw [fromNum_eq]
        simp only []
        obtain ⟨err, he⟩ := go_norule I C t d d.un 0 _ h
        rw [he]
        exact ⟨err, rfl⟩

end

end Exmex.Diff
