/-
  `Reach.reach_inv`: every expression returned by `Flat.parse` followed by `to_deepex` satisfies the
  invariant.
-/
import Exmex.Proofs.ReachSubs
import Exmex.Props.C04
namespace Exmex.ReachFlat
open Exmex.C10 Exmex.C05 Exmex.Shortcut Exmex.CalcLemmas Exmex.DeepCompile Exmex.Diff
open Exmex.ReachLemmas

/-! ### the flat side: operators and unary chains come from the table -/

section
variable {K : Type}

/-- a flat operator built from the table entry, with unary operators of the table -/
def OpOK (t : Table) (o : FlatOp) : Prop :=
  (∃ b, (t[o.idx]?).bind (·.bin) = some b ∧ o.comm = b.comm) ∧ ∀ u ∈ o.un, tblHasUnary t u = true

/-- a flat node whose unary chain consists of unary operators of the table -/
def NdOK (t : Table) (n : FlatNode K) : Prop := ∀ u ∈ n.un, tblHasUnary t u = true

theorem unpack_ok (t : Table) (toks : List (Tok K)) (i o : Nat)
    (h : unpackUnary t toks i = .ok (some o)) : tblHasUnary t o = true := by
  unfold unpackUnary at h
  split at h
  · cases h
  · split at h
    · cases h
    · cases h
    · split at h
      · rename_i hu
        cases h
        exact hu
      · cases h
  · cases h

theorem unaries_ok (t : Table) (toks : List (Tok K)) :
    ∀ (i : Nat) (us : List Nat), unariesEndingAt t toks i = .ok us →
      ∀ u ∈ us, tblHasUnary t u = true
  | 0, us, h => by
    rw [unariesEndingAt] at h
    split at h
    · cases h
    · cases h
      intro u hu
      cases hu
    · rename_i o ho
      cases h
      intro u hu
      rw [List.mem_singleton] at hu
      subst hu
      exact unpack_ok t toks 0 _ ho
  | i + 1, us, h => by
    rw [unariesEndingAt] at h
    split at h
    · cases h
    · cases h
      intro u hu
      cases hu
    · rename_i o ho
      split at h
      · cases h
      · rename_i us' hus'
        cases h
        intro u hu
        rcases List.mem_append.1 hu with hu | hu
        · exact unaries_ok t toks i us' hus' u hu
        · rw [List.mem_singleton] at hu
          subst hu
          exact unpack_ok t toks (i + 1) _ ho

theorem createNode_ok (t : Table) (toks : List (Tok K)) (i : Nat) (kind : NodeKind K)
    (n : FlatNode K) (h : createNode t toks i kind = .ok n) : NdOK t n := by
  have hnil : NdOK t ({ kind := kind } : FlatNode K) := fun u hu => by cases hu
  unfold createNode at h
  split at h
  · split at h
    · split at h
      · cases h
      · cases h
        exact hnil
      · split at h
        · cases h
        · rename_i us hus
          cases h
          exact unaries_ok t toks _ us hus
    · cases h
      exact hnil
  · cases h
    exact hnil

theorem mem_modify {β} (f : β → β) : ∀ (l : List β) (k : Nat) (x : β), x ∈ l.modify k f →
    x ∈ l ∨ ∃ y ∈ l, x = f y
  | [], k, x, h => by
    rw [List.modify_nil] at h
    cases h
  | a :: l, 0, x, h => by
    rw [List.modify_zero_cons] at h
    rcases List.mem_cons.1 h with h | h
    · exact .inr ⟨a, List.mem_cons_self, h⟩
    · exact .inl (List.mem_cons_of_mem _ h)
  | a :: l, k + 1, x, h => by
    rw [List.modify_succ_cons] at h
    rcases List.mem_cons.1 h with h | h
    · exact .inl (h ▸ List.mem_cons_self)
    · rcases mem_modify f l k x h with h | ⟨y, hy, hxy⟩
      · exact .inl (List.mem_cons_of_mem _ h)
      · exact .inr ⟨y, List.mem_cons_of_mem _ hy, hxy⟩

/-- the state invariant of the token walker -/
def StOK (t : Table) (st : MakeSt K) : Prop :=
  (∀ o ∈ st.ops, OpOK t o) ∧ ∀ n ∈ st.nodes, NdOK t n

theorem opOK_un (t : Table) (o : FlatOp) (us : List Nat) (ho : OpOK t o)
    (hus : ∀ u ∈ us, tblHasUnary t u = true) : OpOK t { o with un := us ++ o.un } := by
  refine ⟨ho.1, ?_⟩
  intro u hu
  rcases List.mem_append.1 hu with hu | hu
  · exact hus u hu
  · exact ho.2 u hu

theorem makeStep_ok (t : Table) (toks : List (Tok K)) (vars : List Str) (i : Nat) (tk : Tok K)
    (st st' : MakeSt K) (h : makeStep t toks vars i tk st = .ok st') (hst : StOK t st) :
    StOK t st' := by
  have hpush : ∀ n : FlatNode K, NdOK t n → StOK t { st with nodes := st.nodes ++ [n] } := by
    intro n hn
    refine ⟨hst.1, ?_⟩
    intro m hm
    rcases List.mem_append.1 hm with hm | hm
    · exact hst.2 m hm
    · rw [List.mem_singleton] at hm
      subst hm
      exact hn
  unfold makeStep at h
  split at h
  · -- op
    split at h
    · cases h
    · split at h
      · cases h
      · rename_i b hb
        cases h
        refine ⟨?_, hst.2⟩
        intro o ho
        rcases List.mem_append.1 ho with ho | ho
        · exact hst.1 o ho
        · rw [List.mem_singleton] at ho
          subst ho
          exact ⟨⟨b, hb, rfl⟩, fun u hu => by cases hu⟩
    · split at h
      · cases h
      · cases h
      · cases h
        exact hst
      · cases h
        exact hst
  · -- num
    split at h
    · cases h
    · rename_i n hn
      cases h
      exact hpush n (createNode_ok t toks i _ n hn)
  · -- var
    split at h
    · cases h
    · split at h
      · cases h
      · rename_i n hn
        cases h
        exact hpush n (createNode_ok t toks i _ n hn)
  · -- popen
    cases h
    exact hst
  · -- pclose
    split at h
    · split at h
      · cases h
      · rename_i last hlast
        split at h
        split at h
        · cases h
          exact hst
        · split at h
          · cases h
          · rename_i us hus
            cases h
            refine ⟨hst.1, ?_⟩
            intro m hm
            rcases List.mem_append.1 hm with hm | hm
            · exact hst.2 m (List.dropLast_subset _ hm)
            · rw [List.mem_singleton] at hm
              subst hm
              intro u hu
              rcases List.mem_append.1 hu with hu | hu
              · exact unaries_ok t toks _ us hus u hu
              · exact hst.2 last (List.mem_of_getLast? hlast) u hu
    · split at h
      split at h
      · cases h
        exact hst
      · split at h
        · cases h
        · rename_i us hus
          cases h
          refine ⟨?_, hst.2⟩
          intro o ho
          rcases mem_modify _ _ _ _ ho with ho | ⟨y, hy, hoy⟩
          · exact hst.1 o ho
          · subst hoy
            exact opOK_un t y us (hst.1 y hy) (unaries_ok t toks _ us hus)

theorem makeLoop_ok (t : Table) (toks : List (Tok K)) (vars : List Str) :
    ∀ (l : List (Tok K)) (i : Nat) (st st' : MakeSt K), makeLoop t toks vars l i st = .ok st' →
      StOK t st → StOK t st'
  | [], i, st, st', h, hst => by
    rw [makeLoop] at h
    cases h
    exact hst
  | tk :: rest, i, st, st', h, hst => by
    rw [makeLoop] at h
    split at h
    · cases h
    · rename_i st1 h1
      exact makeLoop_ok t toks vars rest (i + 1) st1 st' h (makeStep_ok t toks vars i tk st st1 h1 hst)

theorem makeExpression_ok (t : Table) (text : Str) (toks : List (Tok K)) (vars : List Str)
    (f : FlatEx K) (h : makeExpression t text toks vars = .ok f) :
    f.vars = vars ∧ (∀ o ∈ f.ops, OpOK t o) ∧ ∀ n ∈ f.nodes, NdOK t n := by
  unfold makeExpression at h
  split at h
  · cases h
  · rename_i st hst
    have h0 : StOK t ({} : MakeSt K) :=
      ⟨fun _ ho => (by cases ho), fun _ hn => (by cases hn)⟩
    have := makeLoop_ok t toks vars toks 0 {} st hst h0
    split at h
    · cases h
    · cases h
      exact ⟨rfl, this.1, this.2⟩

/-! ### `FlatEx::compile` -/

theorem cstep_nodes (I : Interp K) (ops : List FlatOp) (P : FlatNode K → Prop)
    (hP : ∀ v, P { kind := .num v }) (st : CompileSt K) (b n : Nat) (ns : List Nat)
    (st' : CompileSt K) (ns' : List Nat)
    (h : compileStep I ops st b n ns = .ok (st', ns')) (hst : ∀ nd ∈ st.nodes, P nd) :
    ∀ nd ∈ st'.nodes, P nd := by
  have hnew : ∀ v nd, nd ∈ (st.nodes.set n { kind := .num v }).eraseIdx (n + 1) → P nd := by
    intro v nd hnd
    rcases List.mem_or_eq_of_mem_set (List.mem_of_mem_eraseIdx hnd) with h' | h'
    · exact hst nd h'
    · subst h'; exact hP v
  unfold compileStep at h
  split at h
  · split at h
    · split at h
      · split at h
        · cases h
        · cases h
          exact hnew _
      · cases h
        exact hst
    · cases h
      exact hst
  · cases h

theorem cloop_nodes (I : Interp K) (ops : List FlatOp) (P : FlatNode K → Prop)
    (hP : ∀ v, P { kind := .num v }) :
    ∀ (bs ns : List Nat) (st st' : CompileSt K), compileLoop I ops bs ns st = .ok st' →
      (∀ nd ∈ st.nodes, P nd) → ∀ nd ∈ st'.nodes, P nd := by
  intro bs
  induction bs with
  | nil =>
    intro ns st st' h hst
    rw [compileLoop] at h
    cases h
    exact hst
  | cons b bs ih =>
    intro ns st st' h hst
    cases ns with
    | nil => rw [compileLoop] at h; cases h
    | cons n ns =>
      rw [compileLoop] at h
      cases hs : compileStep I ops st b n ns with
      | error e => rw [hs] at h; cases h
      | ok p =>
        obtain ⟨st1, ns1⟩ := p
        rw [hs] at h
        exact ih ns1 st1 st' h (cstep_nodes I ops P hP st b n ns st1 ns1 hs hst)

theorem fcompile_ok (I : Interp K) (t : Table) (f f' : FlatEx K) (h : f.compile I = .ok f')
    (ho : ∀ o ∈ f.ops, OpOK t o) (hn : ∀ n ∈ f.nodes, NdOK t n) :
    f'.vars = f.vars ∧ (∀ o ∈ f'.ops, OpOK t o) ∧ ∀ n ∈ f'.nodes, NdOK t n := by
  unfold FlatEx.compile at h
  simp only [] at h
  split at h
  · cases h
  · rename_i st hst
    cases h
    refine ⟨rfl, ?_, ?_⟩
    · intro o ho'
      simp only [List.mem_map, List.mem_filter] at ho'
      obtain ⟨p, ⟨hp, -⟩, hpo⟩ := ho'
      subst hpo
      exact ho _ (List.fst_mem_of_mem_zipIdx hp)
    · refine cloop_nodes I f.ops (NdOK t) (fun v u hu => by cases hu) _ _ _ st hst ?_
      intro nd hnd
      simp only [List.mem_map] at hnd
      obtain ⟨m, hm, hmn⟩ := hnd
      split at hmn
      · subst hmn
        intro u hu
        cases hu
      · subst hmn
        exact hn m hm

theorem parse_ok (I : Interp K) (t : Table) (lm : Str → Option Nat) (text : Str) (f : FlatEx K)
    (h : Flat.parse I t lm text = .ok f) :
    f.vars.Pairwise (fun x y => strLt x y = true) ∧ (∀ o ∈ f.ops, OpOK t o) ∧
      ∀ n ∈ f.nodes, NdOK t n := by
  unfold Flat.parse at h
  split at h
  · cases h
  · rename_i f0 hf0
    unfold Flat.parseWoCompile at hf0
    split at hf0
    · cases hf0
    · rename_i toks htoks
      split at hf0
      · cases hf0
      · obtain ⟨m1, m2, m3⟩ := makeExpression_ok t text toks _ f0 hf0
        obtain ⟨c1, c2, c3⟩ := fcompile_ok I t f0 f h m2 m3
        refine ⟨?_, c2, c3⟩
        rw [c1, m1]
        exact C04.findVars_sorted toks

end

/-! ### the deep side: lengths are preserved by `compile` -/

section
variable {K : Type}

mutual
theorem shape_mono {n m : Nat} (hnm : n ≤ m) : ∀ e : DeepEx K, e.Shape n → e.Shape m
  | .mk nodes ops un vars, h => by
    rw [DeepEx.Shape] at h ⊢
    exact ⟨h.1, Nat.le_trans h.2.1 hnm, shapeList_mono hnm nodes h.2.2⟩
theorem shapeList_mono {n m : Nat} (hnm : n ≤ m) :
    ∀ l : List (DeepNode K), shapeList n l → shapeList m l
  | [], _ => by rw [shapeList]; trivial
  | nd :: rest, h => by
    rw [shapeList] at h ⊢
    refine ⟨?_, shapeList_mono hnm rest h.2⟩
    cases nd with
    | num a => rw [DeepNode.ShapeN]; trivial
    | var i nm =>
      have := h.1
      rw [DeepNode.ShapeN] at this ⊢
      omega
    | expr e =>
      have := h.1
      rw [DeepNode.ShapeN] at this ⊢
      exact shape_mono hnm e this
end

mutual
theorem exists_shape (Q : List Str → Prop) (V : Nat → Str → Prop) :
    ∀ e : DeepEx K, GenEx Q V e → ∃ n, e.Shape n
  | .mk nodes ops un vars, h => by
    rw [GenEx] at h
    obtain ⟨n, hn⟩ := exists_shape_list Q V nodes h.2.2
    refine ⟨max n vars.length, ?_⟩
    rw [DeepEx.Shape]
    exact ⟨h.1, Nat.le_max_right _ _, shapeList_mono (Nat.le_max_left _ _) nodes hn⟩
theorem exists_shape_list (Q : List Str → Prop) (V : Nat → Str → Prop) :
    ∀ l : List (DeepNode K), genList Q V l → ∃ n, shapeList n l
  | [], _ => ⟨0, by rw [shapeList]; trivial⟩
  | nd :: rest, h => by
    rw [genList] at h
    obtain ⟨n, hn⟩ := exists_shape_list Q V rest h.2
    cases nd with
    | num a =>
      refine ⟨n, ?_⟩
      rw [shapeList, DeepNode.ShapeN]
      exact ⟨trivial, hn⟩
    | var i nm =>
      refine ⟨max n (i + 1), ?_⟩
      rw [shapeList, DeepNode.ShapeN]
      exact ⟨Nat.lt_of_lt_of_le (Nat.lt_succ_self i) (Nat.le_max_right _ _),
        shapeList_mono (Nat.le_max_left _ _) rest hn⟩
    | expr e =>
      have := h.1
      rw [GenNode] at this
      obtain ⟨m, hm⟩ := exists_shape Q V e this
      refine ⟨max n m, ?_⟩
      rw [shapeList, DeepNode.ShapeN]
      exact ⟨shape_mono (Nat.le_max_right _ _) e hm, shapeList_mono (Nat.le_max_left _ _) rest hn⟩
end

theorem compile_len (I : Interp K) (Q : List Str → Prop) (V : Nat → Str → Prop) (e r : DeepEx K)
    (hg : GenEx Q V e) (hA : e.Assoc I) (h : e.compile I = .ok r) :
    r.nodes.length = r.ops.length + 1 := by
  obtain ⟨n, hn⟩ := exists_shape Q V e hg
  have hs : e.Shape (List.replicate n I.dflt).length := by
    rw [List.length_replicate]; exact hn
  obtain ⟨r', c1, c2, -, -⟩ := C02.deep_compile_sound I e _ hs hA
  rw [h] at c1
  cases c1
  exact shape_len r c2

mutual
theorem ope_assoc (I : Interp K) (t : Table) (hA : C01.FlaggedAssoc I t) (Q : List Str → Prop)
    (V : Str → Prop) : ∀ e : DeepEx K, OpE (POt t) (PUt t) Q V e → e.Assoc I
  | .mk nodes ops un vars, h => by
    rw [OpE] at h
    rw [DeepEx.Assoc]
    exact ⟨deepAssoc_of_tbl I t hA ops (fun o ho => (h.1 o ho).1),
      ope_assoc_list I t hA Q V nodes h.2.2.2⟩
theorem ope_assoc_list (I : Interp K) (t : Table) (hA : C01.FlaggedAssoc I t)
    (Q : List Str → Prop) (V : Str → Prop) :
    ∀ l : List (DeepNode K), opList (POt t) (PUt t) Q V l → assocList I l
  | [], _ => by rw [assocList]; trivial
  | nd :: rest, h => by
    rw [opList] at h
    have hr := ope_assoc_list I t hA Q V rest h.2
    cases nd with
    | num a => simp only [assocList]; exact hr
    | var j nm => simp only [assocList]; exact hr
    | expr e =>
      have := h.1
      rw [OpN] at this
      rw [assocList]
      exact ⟨ope_assoc I t hA Q V e this, hr⟩
end

/-! ### `reset_vars` re-indexes every variable node and re-labels every group -/

mutual
theorem reset_gen (Q : List Str → Prop) (V : Nat → Str → Prop) (all : List Str) :
    ∀ e e' : DeepEx K, GenEx Q V e → e.resetVars all = some e' → GenEx (FQ all) (NV all) e'
  | .mk nodes ops un vars, e', h, hr => by
    rw [GenEx] at h
    rw [DeepEx.resetVars] at hr
    cases h1 : resetVarsList all nodes with
    | none => rw [h1] at hr; cases hr
    | some ns' =>
      rw [h1] at hr
      cases hr
      obtain ⟨h2, h3⟩ := reset_gen_list Q V all nodes ns' h.2.2 h1
      rw [GenEx]
      exact ⟨by rw [h3]; exact h.1, rfl, h2⟩
theorem reset_gen_node (Q : List Str → Prop) (V : Nat → Str → Prop) (all : List Str) :
    ∀ nd nd' : DeepNode K, GenNode Q V nd → nd.resetVarsNode all = some nd' →
      GenNode (FQ all) (NV all) nd'
  | .num a, nd', _, hr => by
    rw [DeepNode.resetVarsNode] at hr
    cases hr
    exact genNode_num _ _ a
  | .var i nm, nd', _, hr => by
    rw [DeepNode.resetVarsNode] at hr
    cases hj : all.idxOf? nm with
    | none => rw [hj] at hr; cases hr
    | some j =>
      rw [hj] at hr
      cases hr
      obtain ⟨hjl, hje, -⟩ := List.idxOf?_eq_some_iff.1 hj
      have hj' : all[j]? = some nm := by rw [List.getElem?_eq_getElem hjl, hje]
      rw [GenNode]; exact hj'
  | .expr e, nd', h, hr => by
    rw [GenNode] at h
    rw [DeepNode.resetVarsNode] at hr
    cases he : e.resetVars all with
    | none => rw [he] at hr; cases hr
    | some e' =>
      rw [he] at hr
      cases hr
      rw [GenNode]
      exact reset_gen Q V all e e' h he
theorem reset_gen_list (Q : List Str → Prop) (V : Nat → Str → Prop) (all : List Str) :
    ∀ l l' : List (DeepNode K), genList Q V l → resetVarsList all l = some l' →
      genList (FQ all) (NV all) l' ∧ l'.length = l.length
  | [], l', _, hr => by
    rw [resetVarsList] at hr
    cases hr
    refine ⟨?_, rfl⟩
    rw [genList]; trivial
  | nd :: rest, l', h, hr => by
    rw [genList] at h
    rw [resetVarsList] at hr
    cases h1 : nd.resetVarsNode all with
    | none => rw [h1] at hr; simp at hr
    | some nd' =>
      cases h2 : resetVarsList all rest with
      | none => rw [h1, h2] at hr; simp at hr
      | some rest' =>
        rw [h1, h2] at hr
        simp only [] at hr
        cases hr
        have a2 := reset_gen_node Q V all nd nd' h.1 h1
        obtain ⟨b2, b5⟩ := reset_gen_list Q V all rest rest' h.2 h2
        refine ⟨?_, ?_⟩
        · rw [genList]; exact ⟨a2, b2⟩
        · rw [List.length_cons, List.length_cons, b5]
end

end

/-! ### the node invariant through `convert_node` and the combining loop -/

section
variable {K : Type} (I : Interp K) (t : Table) (hA : C01.FlaggedAssoc I t) (hP : TblPrio t)

abbrev TV : Nat → Str → Prop := fun _ _ => True

/-- well-shaped groups, table operators, nested groups `Folded` -/
def X (nd : DeepNode K) : Prop :=
  GenNode (TT : List Str → Prop) TV nd ∧ OpN (POt t) (PUt t) TT TT nd ∧ WeakNode nd

theorem x_num (a : K) : X t (DeepNode.num a) := ⟨genNode_num _ _ a, opN_num _ _ _ _ a, trivial⟩

theorem x_var (i : Nat) (nm : Str) : X t (DeepNode.var i nm : DeepNode K) :=
  ⟨by rw [GenNode]; trivial, by rw [OpN]; trivial, trivial⟩

include hA in
theorem new_x (nodes : List (DeepNode K)) (ops : List DBin) (un : List Nat) (e : DeepEx K)
    (hlen : nodes.length = ops.length + 1) (h : DeepEx.new I nodes ops un = .ok e)
    (hn : ∀ nd ∈ nodes, X t nd) (ho : ∀ o ∈ ops, POt t o) (hu : ∀ u ∈ un, PUt t u) :
    X t (DeepNode.expr e) := by
  have hfold := new_folded I nodes ops un e h (fun nd hnd => (hn nd hnd).2.2)
  rw [new_eq_compile I _ _ _ hlen] at h
  have o0 : OpE (POt t) (PUt t) TT TT (DeepEx.mk nodes ops un (foundVars nodes)) := by
    rw [OpE]
    exact ⟨ho, hu, trivial, (opList_iff _ _ _ _ nodes).2 (fun nd hnd => (hn nd hnd).2.1)⟩
  have g0 : GenEx (TT : List Str → Prop) TV (DeepEx.mk nodes ops un (foundVars nodes)) := by
    rw [GenEx]
    exact ⟨hlen, trivial, (genList_iff _ _ nodes).2 (fun nd hnd => (hn nd hnd).1)⟩
  have hl := compile_len I _ _ _ e g0 (ope_assoc I t hA _ _ _ o0) h
  refine ⟨?_, ?_, hfold⟩
  · rw [GenNode]
    exact (compile_gen I _ _ _ e h g0 hl).1
  · rw [OpN]
    exact (compile_op _ _ _ _ I _ e h o0).1

include hA in
theorem convertNode_x (vars : List Str) (n : FlatNode K) (d : DeepNode K)
    (h : convertNode I vars n = .ok d) (hu : NdOK t n) : X t d := by
  unfold convertNode at h
  have wrap : ∀ d0 : DeepNode K, X t d0 →
      (if n.un.isEmpty then (.ok d0 : Res (DeepNode K))
        else
          match DeepEx.new I [d0] [] n.un with
          | .error _ => .error (.panic "flat.rs:convert_node unwrap")
          | .ok e => .ok (.expr e)) = .ok d → X t d := by
    intro d0 hd0 h'
    split at h'
    · cases h'; exact hd0
    · split at h'
      · cases h'
      · rename_i e he
        cases h'
        exact new_x I t hA [d0] [] n.un e rfl he
          (fun nd hnd => by rw [List.mem_singleton] at hnd; rw [hnd]; exact hd0)
          (fun _ ho => by cases ho) hu
  cases hk : n.kind with
  | num a =>
    rw [hk] at h
    exact wrap (.num a) (x_num t a) h
  | var i =>
    rw [hk] at h
    simp only [] at h
    cases hv : vars[i]? with
    | none => rw [hv] at h; cases h
    | some name =>
      rw [hv] at h
      exact wrap (.var i name) (x_var t i name) h

include hA in
theorem convertNodes_x (vars : List Str) : ∀ (nodes : List (FlatNode K)) (dn : List (DeepNode K)),
    convertNodes I vars nodes = .ok dn → (∀ n ∈ nodes, NdOK t n) → ∀ d ∈ dn, X t d
  | [], dn, h, _ => by
    rw [convertNodes] at h
    cases h
    intro d hd
    cases hd
  | n :: ns, dn, h, hu => by
    rw [convertNodes] at h
    split at h
    · rename_i d ds h1 h2
      cases h
      intro d' hd'
      rcases List.mem_cons.1 hd' with rfl | hd'
      · exact convertNode_x I t hA vars n _ h1 (hu n List.mem_cons_self)
      · exact convertNodes_x vars ns ds h2 (fun m hm => hu m (List.mem_cons_of_mem _ hm)) d' hd'
    · cases h
    · cases h

include hP in
theorem pot_of_ok (fo : FlatOp) (ob : DBin) (ho : OpOK t fo) (hb : tblBin t fo.idx = some ob) :
    POt t { idx := fo.idx, prio := ob.prio, comm := fo.comm } := by
  obtain ⟨⟨b, hb1, hb2⟩, -⟩ := ho
  have hb' := hb
  unfold tblBin at hb'
  rw [hb1] at hb'
  simp only [Option.map] at hb'
  have hob := Option.some.inj hb'
  have heq : ({ idx := fo.idx, prio := ob.prio, comm := fo.comm } : DBin) = ob := by
    rw [← hob, hb2]
  have hidx : ob.idx = fo.idx := by rw [← hob]
  rw [heq]
  exact ⟨by rw [hidx]; exact hb, hP fo.idx ob hb⟩

include hA hP in
theorem toDeepStep_x (fops : List FlatOp) (hops : ∀ o ∈ fops, OpOK t o)
    (st st' : List (DeepNode K) × Words) (idx : Nat) (h : toDeepStep I t fops st idx = .ok st')
    (hst : ∀ nd ∈ st.1, X t nd) : ∀ nd ∈ st'.1, X t nd := by
  obtain ⟨nodes, tr⟩ := st
  unfold toDeepStep at h
  simp only [] at h
  split at h
  · split at h
    · cases h
    · split at h
      · cases h
      · split at h
        · rename_i a b fo ha hb hfo
          split at h
          · cases h
          · rename_i ob hob
            split at h
            · cases h
            · rename_i e he
              cases h
              have hfom : fo ∈ fops := List.mem_of_getElem? hfo
              have xe : X t (DeepNode.expr e) := new_x I t hA [a, b] _ fo.un e rfl he
                (by
                  intro nd hnd
                  simp only [List.mem_cons, List.not_mem_nil, or_false] at hnd
                  rcases hnd with rfl | rfl
                  · exact hst _ (List.mem_of_getElem? ha)
                  · exact hst _ (List.mem_of_getElem? hb))
                (by
                  intro o ho
                  rw [List.mem_singleton] at ho
                  subst ho
                  exact pot_of_ok t hP fo ob (hops fo hfom) hob)
                (hops fo hfom).2
              intro nd hnd
              rcases List.mem_or_eq_of_mem_set hnd with h' | h'
              · rcases List.mem_or_eq_of_mem_set h' with h'' | h''
                · exact hst nd h''
                · subst h''
                  exact x_var t _ _
              · subst h'
                exact xe
        · cases h
  · cases h

include hA hP in
theorem toDeepLoop_x (fops : List FlatOp) (hops : ∀ o ∈ fops, OpOK t o) :
    ∀ (l : List Nat) (st st' : List (DeepNode K) × Words), toDeepLoop I t fops l st = .ok st' →
      (∀ nd ∈ st.1, X t nd) → ∀ nd ∈ st'.1, X t nd
  | [], st, st', h, hst => by
    rw [toDeepLoop] at h
    cases h
    exact hst
  | idx :: rest, st, st', h, hst => by
    rw [toDeepLoop] at h
    split at h
    · cases h
    · rename_i st1 h1
      exact toDeepLoop_x fops hops rest st1 st' h (toDeepStep_x I t hA hP fops hops st st1 idx h1 hst)

end
end Exmex.ReachFlat

namespace Exmex.ReachLemmas
open Exmex.C10 Exmex.C05 Exmex.Shortcut Exmex.CalcLemmas Exmex.DeepCompile Exmex.Diff

section
variable {K : Type} (I : Interp K) (t : Table) (hA : C01.FlaggedAssoc I t) (hP : TblPrio t)

include hA hP in
theorem good_fromFlat (lm : Str → Option Nat) (text : Str) (f : FlatEx K) (d : DeepEx K)
    (h : Flat.parse I t lm text = .ok f) (hd : f.toDeep I t = .ok d) : Good t d := by
  obtain ⟨hstrict, hops, hnodes⟩ := ReachFlat.parse_ok I t lm text f h
  have hnd : f.vars.Nodup := nodup_of_strict _ hstrict
  unfold FlatEx.toDeep at hd
  split at hd
  · cases hd
  split at hd
  · cases hd
  rename_i dn hconv
  split at hd
  · cases hd
  rename_i dn' tr' hloop
  split at hd
  · cases hd
  rename_i final rest
  split at hd
  · cases hd
  rename_i d0 h0
  split at hd
  · cases hd
  rename_i d1 h1
  -- the nodes, the loop
  have hx0 := ReachFlat.convertNodes_x I t hA f.vars f.nodes dn hconv hnodes
  have hx1 := ReachFlat.toDeepLoop_x I t hA hP f.ops hops _ _ _ hloop hx0
  have xf : ReachFlat.X t final := hx1 final List.mem_cons_self
  -- wrapping
  obtain ⟨g0, o0, f0⟩ := ReachFlat.new_x I t hA [final] [] [] d0 rfl h0
    (fun nd hnd => by rw [List.mem_singleton] at hnd; rw [hnd]; exact xf)
    (fun _ ho => by cases ho) (fun _ hu => by cases hu)
  rw [GenNode] at g0
  rw [OpN] at o0
  have f0' : Folded d0 := f0
  -- re-indexing
  have g1 : GenEx (FQ f.vars) (NV f.vars) d1 := ReachFlat.reset_gen _ _ f.vars d0 d1 g0 h1
  have o1 : OpE (POt t) (PUt t) TT TT d1 := reset_op _ _ TT TT TT f.vars trivial d0 d1 o0 h1
  have s1 : SO t f.vars d1 := so_upgrade t f.vars f.vars hnd (fun _ hx => hx) TT TT d1 g1 o1
  have n1 : Named f.vars d1 := named_of_full _ _ g1
  have w1 : weakList d1.nodes :=
    weak_reset f.vars d0 d1 h1 (weakList_of_folded _ (folded_nodes d0 f0'))
  -- folding
  obtain ⟨g2, -⟩ := compile_gen' I t hA f.vars f.vars _ _ d1 d n1 s1 g1 hd
  have hv : d.vars = f.vars := genEx_vars d g2
  obtain ⟨s2, -⟩ := compile_op _ _ _ _ I d1 d hd s1
  have f2 := compile_folded I d1 d hd w1
  have n2 : Named f.vars d := named_of_full _ _ g2
  exact ⟨by rw [hv]; exact n2, by rw [hv]; exact hstrict,
    by rw [hv]; exact ⟨⟨f.vars, n2⟩, s2, f2⟩, ss_of_gen _ _ d g2⟩

end
end Exmex.ReachLemmas
