/-
  L1 (C14): the bit-level trackers of number_tracker.rs refine the reference flags.

  Method: every counting function of the model (`trailingOnes`, `leadingOnes`, the carry loops,
  `Flags.getPrevious/getNext`) is characterised by `Run p n k` (Exmex/Proofs/Run.lean): `k` is the
  length of the maximal all-`true` prefix of the bit-selector `p` on `[0, n)`. `Run` is unique, so
  two counts agree as soon as their selectors agree pointwise on the scanned range.
-/
import Exmex.Proofs.TrackerRel
import Exmex.Proofs.Run
namespace Exmex

theorem bitsLsb_length (w : Word) : w.bitsLsb.length = 64 := by simp [Word.bitsLsb]

theorem bitsLsb_getD (w : Word) (m : Nat) (hm : m < 64) : w.bitsLsb.getD m false = w.getLsbD m := by
  simp [Word.bitsLsb, List.getD, hm]

theorem trailingOnes_run (w : Word) : Run (fun m => w.getLsbD m) 64 w.trailingOnes := by
  have h := run_takeWhile w.bitsLsb
  rw [bitsLsb_length] at h
  exact h.congr (fun m hm => bitsLsb_getD w m hm)

theorem leadingOnes_run (w : Word) : Run (fun m => w.getLsbD (63 - m)) 64 w.leadingOnes := by
  have h := run_takeWhile w.bitsLsb.reverse
  rw [List.length_reverse, bitsLsb_length] at h
  refine h.congr (fun m hm => ?_)
  show w.bitsLsb.reverse.getD m false = _
  rw [List.getD_eq_getElem?_getD, List.getElem?_reverse (by rw [bitsLsb_length]; exact hm),
    bitsLsb_length, ← List.getD_eq_getElem?_getD, bitsLsb_getD w _ (by omega)]

theorem rotr_getLsbD (w : Word) (r i : Nat) (hi : i < 64) :
    (w.rotr r).getLsbD i = w.getLsbD ((i + r) % 64) := by
  unfold Word.rotr
  rw [BitVec.getLsbD_rotateRight]
  by_cases h : i < 64 - r % 64
  · simp only [h, decide_true, cond_true]
    congr 1
    omega
  · simp only [h, decide_false, cond_false, hi, decide_true, Bool.true_and]
    congr 1
    omega


theorem flags_getPrevious_run (f : Flags) (idx : Nat) (h : idx < f.length) :
    Run (fun m => f.getD (idx - m) false) (idx + 1) (f.getPrevious idx) := by
  have hl : (f.take (idx + 1)).reverse.length = idx + 1 := by
    rw [List.length_reverse, List.length_take]; omega
  have h0 := run_takeWhile (f.take (idx + 1)).reverse
  rw [hl] at h0
  refine h0.congr (fun m hm => ?_)
  show (f.take (idx + 1)).reverse.getD m false = _
  rw [List.getD_eq_getElem?_getD, List.getElem?_reverse (by rw [List.length_take]; omega),
    List.length_take, List.getElem?_take, List.getD_eq_getElem?_getD]
  have e : min (idx + 1) f.length - 1 - m = idx - m := by omega
  rw [e, if_pos (by omega)]

theorem flags_getNext_run (f : Flags) (idx N : Nat) (hN : f.length - (idx + 1) ≤ N) :
    Run (fun m => f.getD (idx + 1 + m) false) N (f.getNext idx - 1) := by
  have h0 := run_takeWhile (f.drop (idx + 1))
  rw [List.length_drop] at h0
  have h1 : Run (fun m => f.getD (idx + 1 + m) false) (f.length - (idx + 1))
      (f.getNext idx - 1) := by
    refine h0.congr (fun m hm => ?_)
    show (f.drop (idx + 1)).getD m false = _
    rw [List.getD_eq_getElem?_getD, List.getElem?_drop, List.getD_eq_getElem?_getD]
  by_cases hk : f.getNext idx - 1 < f.length - (idx + 1)
  · exact h1.extend hk N hN
  · obtain ⟨a1, a2, a3⟩ := h1
    refine ⟨by omega, a2, fun _ => ?_⟩
    show f.getD _ false = false
    rw [List.getD_eq_getElem?_getD, List.getElem?_eq_none (by omega)]
    rfl


theorem flags_getNext_pos (f : Flags) (idx : Nat) : f.getNext idx = (f.getNext idx - 1) + 1 := by
  unfold Flags.getNext; omega

theorem getD_of_getElem? {f : Flags} {j : Nat} {b : Bool} (h : f[j]? = some b) :
    f.getD j false = b := by
  rw [List.getD_eq_getElem?_getD, h]; rfl

theorem lt_length_of_getElem? {f : Flags} {j : Nat} {b : Bool} (h : f[j]? = some b) :
    j < f.length := by
  apply Nat.lt_of_not_le
  intro hle
  rw [List.getElem?_eq_none hle] at h
  cases h

theorem word_prev (w : Word) (f : Flags) (idx : Nat) (hR : WordRel w f) (hidx : idx < f.length)
    (hj : ∃ j, j ≤ idx ∧ f[j]? = some false) : w.getPrevious idx = f.getPrevious idx := by
  obtain ⟨hlen, hbits⟩ := hR
  obtain ⟨j, hji, hjf⟩ := hj
  have hF := flags_getPrevious_run f idx hidx
  have hlt : f.getPrevious idx < idx + 1 := by
    have := hF.lt_of_false (j := idx - j) (by
      show f.getD (idx - (idx - j)) false = false
      have e : idx - (idx - j) = j := by omega
      rw [e]; exact getD_of_getElem? hjf)
    omega
  have hW := leadingOnes_run (w.rotr (idx + 1))
  have hF' : Run (fun m => (w.rotr (idx + 1)).getLsbD (63 - m)) 64 (f.getPrevious idx) := by
    refine (hF.congr (fun m hm => ?_)).extend hlt 64 (by omega)
    show _ = (w.rotr (idx + 1)).getLsbD (63 - m)
    rw [rotr_getLsbD _ _ _ (by omega)]
    have e : (63 - m + (idx + 1)) % 64 = idx - m := by omega
    rw [e, hbits _ (by omega)]
  exact hW.unique hF'

theorem word_next (w : Word) (f : Flags) (idx : Nat) (hR : WordRel w f)
    (hj : ∃ j, idx < j ∧ f[j]? = some false) : w.getNext idx = f.getNext idx := by
  obtain ⟨hlen, hbits⟩ := hR
  obtain ⟨j, hji, hjf⟩ := hj
  have hjl := lt_length_of_getElem? hjf
  have hF := flags_getNext_run f idx (63 - idx) (by omega)
  have hlt : f.getNext idx - 1 < 63 - idx := by
    have := hF.lt_of_false (j := j - (idx + 1)) (by
      show f.getD (idx + 1 + (j - (idx + 1))) false = false
      have e : idx + 1 + (j - (idx + 1)) = j := by omega
      rw [e]; exact getD_of_getElem? hjf)
    omega
  have hW := trailingOnes_run (w.rotr (idx + 1))
  have hF' : Run (fun m => (w.rotr (idx + 1)).getLsbD m) 64 (f.getNext idx - 1) := by
    refine (hF.congr (fun m hm => ?_)).extend hlt 64 (by omega)
    show _ = (w.rotr (idx + 1)).getLsbD m
    rw [rotr_getLsbD _ _ _ (by omega)]
    have e : (m + (idx + 1)) % 64 = idx + 1 + m := by omega
    rw [e, hbits _ (by omega)]
  rw [flags_getNext_pos f idx]
  show (w.rotr (idx + 1)).trailingOnes + 1 = _
  rw [hW.unique hF']

theorem ignore_getLsbD (w : Word) (idx i : Nat) (hidx : idx < 64) :
    (w.ignore idx).getLsbD i = (w.getLsbD i || decide (i = idx)) := by
  unfold Word.ignore
  rw [BitVec.getLsbD_or, BitVec.getLsbD_shiftLeft, BitVec.getLsbD_one]
  by_cases h : i = idx
  · subst h; simp [hidx]
  · by_cases h2 : i < idx
    · simp [h, h2]
    · have : i - idx ≠ 0 := by omega
      simp [h, this]

theorem flags_ignore_getD (f : Flags) (idx i : Nat) (hidx : idx < f.length) :
    (f.ignore idx).getD i false = (f.getD i false || decide (i = idx)) := by
  unfold Flags.ignore
  rw [List.getD_eq_getElem?_getD, List.getD_eq_getElem?_getD, List.getElem?_set]
  by_cases h : idx = i
  · subst h; simp [hidx]
  · have : ¬ i = idx := fun e => h e.symm
    simp [h, this]


theorem eq_allOnes_of_bits (w : Word) (h : ∀ i, i < 64 → w.getLsbD i = true) :
    w = Word.allOnes := by
  apply BitVec.eq_of_getLsbD_eq
  intro i hi
  rw [h i hi, Word.allOnes, BitVec.getLsbD_allOnes]
  exact (decide_eq_true hi).symm

theorem allOnes_getLsbD (i : Nat) (hi : i < 64) : Word.allOnes.getLsbD i = true := by
  rw [Word.allOnes, BitVec.getLsbD_allOnes]
  exact decide_eq_true hi

theorem cons_getD_succ_div (w : Word) (ws : List Word) (m : Nat) :
    (w :: ws).getD ((64 + m) / 64) 0#64 = ws.getD (m / 64) 0#64 := by
  have e : (64 + m) / 64 = m / 64 + 1 := by omega
  rw [e]
  simp [List.getD]

theorem carryLeading_run (lower : List Word) (acc : Nat) :
    ∃ c, carryLeading lower acc = acc + c ∧
      Run (fun m => (lower.getD (m / 64) 0#64).getLsbD (63 - m % 64)) (64 * lower.length) c := by
  induction lower generalizing acc with
  | nil =>
    exact ⟨0, rfl, Nat.le_refl _, fun m hm => absurd hm (Nat.not_lt_zero _),
      fun h => absurd h (Nat.lt_irrefl _)⟩
  | cons w ws ih =>
    by_cases hw : w = Word.allOnes
    · obtain ⟨c, hc, hrun⟩ := ih (acc + 64)
      refine ⟨64 + c, ?_, ?_⟩
      · show (if w == Word.allOnes then carryLeading ws (acc + 64) else acc + w.leadingOnes) = _
        rw [hw, hc]; simp; omega
      · have e : 64 * (w :: ws).length = 64 + 64 * ws.length := by
          rw [List.length_cons]; omega
        rw [e]
        apply Run.append
        · refine ⟨Nat.le_refl _, fun m hm => ?_, fun h => absurd h (Nat.lt_irrefl _)⟩
          have e0 : m / 64 = 0 := by omega
          show ((w :: ws).getD (m / 64) 0#64).getLsbD (63 - m % 64) = true
          rw [e0, hw]
          exact allOnes_getLsbD _ (by omega)
        · refine hrun.congr (fun m hm => ?_)
          show _ = ((w :: ws).getD ((64 + m) / 64) 0#64).getLsbD (63 - (64 + m) % 64)
          rw [cons_getD_succ_div]
          have e1 : (64 + m) % 64 = m % 64 := by omega
          rw [e1]
    · refine ⟨w.leadingOnes, ?_, ?_⟩
      · show (if w == Word.allOnes then carryLeading ws (acc + 64) else acc + w.leadingOnes) = _
        simp [hw]
      · have hL := leadingOnes_run w
        have hlt : w.leadingOnes < 64 := by
          apply Nat.lt_of_le_of_ne hL.1
          intro h64
          apply hw
          apply eq_allOnes_of_bits
          intro i hi
          have := hL.2.1 (63 - i) (by omega)
          have e : 63 - (63 - i) = i := by omega
          simpa [e] using this
        refine (hL.congr (fun m hm => ?_)).extend hlt _ (by rw [List.length_cons]; omega)
        have e0 : m / 64 = 0 := by omega
        have e1 : m % 64 = m := by omega
        show _ = ((w :: ws).getD (m / 64) 0#64).getLsbD (63 - m % 64)
        rw [e0, e1]
        rfl

theorem carryTrailing_run (upper : List Word) (acc : Nat) :
    ∃ c, carryTrailing upper acc = acc + c ∧
      Run (fun m => (upper.getD (m / 64) 0#64).getLsbD (m % 64)) (64 * upper.length) c := by
  induction upper generalizing acc with
  | nil =>
    exact ⟨0, rfl, Nat.le_refl _, fun m hm => absurd hm (Nat.not_lt_zero _),
      fun h => absurd h (Nat.lt_irrefl _)⟩
  | cons w ws ih =>
    by_cases hw : w = Word.allOnes
    · obtain ⟨c, hc, hrun⟩ := ih (acc + 64)
      refine ⟨64 + c, ?_, ?_⟩
      · show (if w == Word.allOnes then carryTrailing ws (acc + 64) else acc + w.trailingOnes) = _
        rw [hw, hc]; simp; omega
      · have e : 64 * (w :: ws).length = 64 + 64 * ws.length := by
          rw [List.length_cons]; omega
        rw [e]
        apply Run.append
        · refine ⟨Nat.le_refl _, fun m hm => ?_, fun h => absurd h (Nat.lt_irrefl _)⟩
          have e0 : m / 64 = 0 := by omega
          show ((w :: ws).getD (m / 64) 0#64).getLsbD (m % 64) = true
          rw [e0, hw]
          exact allOnes_getLsbD _ (by omega)
        · refine hrun.congr (fun m hm => ?_)
          show _ = ((w :: ws).getD ((64 + m) / 64) 0#64).getLsbD ((64 + m) % 64)
          rw [cons_getD_succ_div]
          have e1 : (64 + m) % 64 = m % 64 := by omega
          rw [e1]
    · refine ⟨w.trailingOnes, ?_, ?_⟩
      · show (if w == Word.allOnes then carryTrailing ws (acc + 64) else acc + w.trailingOnes) = _
        simp [hw]
      · have hL := trailingOnes_run w
        have hlt : w.trailingOnes < 64 := by
          apply Nat.lt_of_le_of_ne hL.1
          intro h64
          apply hw
          apply eq_allOnes_of_bits
          intro i hi
          exact hL.2.1 i (by omega)
        refine (hL.congr (fun m hm => ?_)).extend hlt _ (by rw [List.length_cons]; omega)
        have e0 : m / 64 = 0 := by omega
        have e1 : m % 64 = m := by omega
        show _ = ((w :: ws).getD (m / 64) 0#64).getLsbD (m % 64)
        rw [e0, e1]
        rfl


/-- slot `i` of a word list -/
def Words.bit (ws : Words) (i : Nat) : Bool := (ws.getD (i / 64) 0#64).getLsbD (i % 64)

theorem take_reverse_getD (ws : List Word) (seg q : Nat) (hseg : seg ≤ ws.length) (hq : q < seg) :
    (ws.take seg).reverse.getD q 0#64 = ws.getD (seg - 1 - q) 0#64 := by
  rw [List.getD_eq_getElem?_getD, List.getD_eq_getElem?_getD,
    List.getElem?_reverse (by rw [List.length_take]; omega), List.length_take, List.getElem?_take]
  have e : min seg ws.length - 1 - q = seg - 1 - q := by omega
  rw [e, if_pos (by omega)]

theorem drop_getD (ws : List Word) (n q : Nat) :
    (ws.drop n).getD q 0#64 = ws.getD (n + q) 0#64 := by
  rw [List.getD_eq_getElem?_getD, List.getD_eq_getElem?_getD, List.getElem?_drop]

theorem getD_of_lt (ws : List Word) (n : Nat) (h : n < ws.length) : ws.getD n 0#64 = ws[n] := by
  rw [List.getD_eq_getElem?_getD, List.getElem?_eq_getElem h]; rfl

theorem words_prev_run (ws : Words) (idx : Nat) (hseg : idx / 64 < ws.length) :
    ∃ r, Words.getPrevious ws idx = some r ∧ Run (fun m => ws.bit (idx - m)) (idx + 1) r := by
  have hget : ws[idx / 64]? = some ws[idx / 64] := List.getElem?_eq_getElem hseg
  have hL := leadingOnes_run ((ws[idx / 64]).rotr (idx % 64 + 1))
  have hP : Run (fun m => ws.bit (idx - m)) (idx % 64 + 1)
      (min ((ws[idx / 64]).getPrevious (idx % 64)) (idx % 64 + 1)) := by
    refine (hL.restrict (idx % 64 + 1) (by omega)).congr (fun m hm => ?_)
    show _ = (ws.getD ((idx - m) / 64) 0#64).getLsbD ((idx - m) % 64)
    rw [rotr_getLsbD _ _ _ (by omega)]
    have e1 : (63 - m + (idx % 64 + 1)) % 64 = (idx - m) % 64 := by omega
    have e2 : (idx - m) / 64 = idx / 64 := by omega
    rw [e1, e2, getD_of_lt ws _ hseg]
  unfold Words.getPrevious
  dsimp only
  rw [hget]
  dsimp only
  by_cases hfull : min ((ws[idx / 64]).getPrevious (idx % 64)) (idx % 64 + 1) = idx % 64 + 1
  · obtain ⟨c, hc, hrun⟩ := carryLeading_run (ws.take (idx / 64)).reverse (idx % 64 + 1)
    refine ⟨idx % 64 + 1 + c, ?_, ?_⟩
    · rw [hfull, hc]; simp
    · have e : idx + 1 = idx % 64 + 1 + 64 * (idx / 64) := by omega
      rw [e]
      apply Run.append
      · rw [hfull] at hP; exact hP
      · rw [List.length_reverse, List.length_take, Nat.min_eq_left (by omega)] at hrun
        refine hrun.congr (fun m hm => ?_)
        show _ = (ws.getD ((idx - (idx % 64 + 1 + m)) / 64) 0#64).getLsbD
          ((idx - (idx % 64 + 1 + m)) % 64)
        rw [take_reverse_getD ws _ _ (by omega) (by omega)]
        have e1 : (idx - (idx % 64 + 1 + m)) / 64 = idx / 64 - 1 - m / 64 := by omega
        have e2 : (idx - (idx % 64 + 1 + m)) % 64 = 63 - m % 64 := by omega
        rw [e1, e2]
  · refine ⟨min ((ws[idx / 64]).getPrevious (idx % 64)) (idx % 64 + 1), ?_, ?_⟩
    · simp [hfull]
    · exact hP.extend (by omega) _ (by omega)

theorem words_next_run (ws : Words) (idx : Nat) (hseg : idx / 64 < ws.length) :
    ∃ r, Words.getNext ws idx = some (r + 1) ∧
      Run (fun m => ws.bit (idx + 1 + m)) (64 * ws.length - (idx + 1)) r := by
  have hget : ws[idx / 64]? = some ws[idx / 64] := List.getElem?_eq_getElem hseg
  have hT := trailingOnes_run ((ws[idx / 64]).rotr (idx % 64 + 1))
  have hP : Run (fun m => ws.bit (idx + 1 + m)) (63 - idx % 64)
      (min ((ws[idx / 64]).rotr (idx % 64 + 1)).trailingOnes (63 - idx % 64)) := by
    refine (hT.restrict (63 - idx % 64) (by omega)).congr (fun m hm => ?_)
    show _ = (ws.getD ((idx + 1 + m) / 64) 0#64).getLsbD ((idx + 1 + m) % 64)
    rw [rotr_getLsbD _ _ _ (by omega)]
    have e1 : (m + (idx % 64 + 1)) % 64 = (idx + 1 + m) % 64 := by omega
    have e2 : (idx + 1 + m) / 64 = idx / 64 := by omega
    rw [e1, e2, getD_of_lt ws _ hseg]
  have hones : min ((ws[idx / 64]).getNext (idx % 64)) (64 - idx % 64) =
      min ((ws[idx / 64]).rotr (idx % 64 + 1)).trailingOnes (63 - idx % 64) + 1 := by
    show min (((ws[idx / 64]).rotr (idx % 64 + 1)).trailingOnes + 1) (64 - idx % 64) = _
    omega
  unfold Words.getNext
  dsimp only
  rw [hget]
  dsimp only
  rw [hones]
  by_cases hfull : min ((ws[idx / 64]).rotr (idx % 64 + 1)).trailingOnes (63 - idx % 64) =
      63 - idx % 64
  · obtain ⟨c, hc, hrun⟩ := carryTrailing_run (ws.drop (idx / 64 + 1)) (63 - idx % 64 + 1)
    refine ⟨63 - idx % 64 + c, ?_, ?_⟩
    · rw [hfull, hc]
      have : (63 - idx % 64 + 1 == 64 - idx % 64) = true := by
        rw [beq_iff_eq]; omega
      rw [if_pos this]
      congr 1
      omega
    · rw [List.length_drop] at hrun
      have e : 64 * ws.length - (idx + 1) =
          63 - idx % 64 + 64 * (ws.length - (idx / 64 + 1)) := by omega
      rw [e]
      apply Run.append
      · rw [hfull] at hP; exact hP
      · refine hrun.congr (fun m hm => ?_)
        show _ = (ws.getD ((idx + 1 + (63 - idx % 64 + m)) / 64) 0#64).getLsbD
          ((idx + 1 + (63 - idx % 64 + m)) % 64)
        rw [drop_getD]
        have e1 : (idx + 1 + (63 - idx % 64 + m)) / 64 = idx / 64 + 1 + m / 64 := by omega
        have e2 : (idx + 1 + (63 - idx % 64 + m)) % 64 = m % 64 := by omega
        rw [e1, e2]
  · refine ⟨min ((ws[idx / 64]).rotr (idx % 64 + 1)).trailingOnes (63 - idx % 64), ?_, ?_⟩
    · have : ¬ (min ((ws[idx / 64]).rotr (idx % 64 + 1)).trailingOnes (63 - idx % 64) + 1 ==
          64 - idx % 64) = true := by
        rw [beq_iff_eq]; omega
      rw [if_neg this]
    · exact hP.extend (by omega) _ (by omega)


/-! ## the four theorems -/

theorem replicate_false_getD (n i : Nat) : (List.replicate n false).getD i false = false := by
  rw [List.getD_eq_getElem?_getD, List.getElem?_replicate]
  split <;> rfl

theorem wordRel_init (n : Nat) (hn : n ≤ 64) : WordRel (0#64) (List.replicate n false) := by
  refine ⟨by rw [List.length_replicate]; exact hn, fun i _ => ?_⟩
  rw [BitVec.getLsbD_zero, replicate_false_getD]

theorem wordsRel_init (n : Nat) :
    WordsRel (List.replicate (1 + n / 64) (0#64)) (List.replicate n false) := by
  refine ⟨by rw [List.length_replicate, List.length_replicate]; omega, fun i _ => ?_⟩
  have e : (List.replicate (1 + n / 64) (0#64)).getD (i / 64) 0#64 = 0#64 := by
    rw [List.getD_eq_getElem?_getD, List.getElem?_replicate]
    split <;> rfl
  rw [e, BitVec.getLsbD_zero, replicate_false_getD]

/-- `usize` as `NumberTracker` refines the flags (at most 64 slots) -/
theorem wordRefines : Refines wordTracker WordRel := by
  refine ⟨?_, ?_, ?_⟩
  · intro w f idx hR hidx hj
    show some (w.getPrevious idx) = some (f.getPrevious idx)
    rw [word_prev w f idx hR hidx hj]
  · intro w f idx hR hj
    show some (w.getNext idx) = some (f.getNext idx)
    rw [word_next w f idx hR hj]
  · intro w f idx hR hidx
    refine ⟨w.ignore idx, rfl, ?_, ?_⟩
    · show (f.set idx true).length ≤ 64
      rw [List.length_set]; exact hR.1
    · intro i hi
      rw [ignore_getLsbD w idx i (by have := hR.1; omega), flags_ignore_getD f idx i hidx,
        hR.2 i hi]

theorem words_prev (ws : Words) (f : Flags) (idx : Nat) (hR : WordsRel ws f)
    (hidx : idx < f.length) : Words.getPrevious ws idx = some (f.getPrevious idx) := by
  obtain ⟨hlen, hbits⟩ := hR
  obtain ⟨r, hr, hrun⟩ := words_prev_run ws idx (by omega)
  rw [hr]
  congr 1
  refine (hrun.congr (fun m hm => ?_)).unique (flags_getPrevious_run f idx hidx)
  exact hbits (idx - m) (by omega)

theorem words_next (ws : Words) (f : Flags) (idx : Nat) (hR : WordsRel ws f)
    (hj : ∃ j, idx < j ∧ f[j]? = some false) :
    Words.getNext ws idx = some (f.getNext idx) := by
  obtain ⟨hlen, hbits⟩ := hR
  obtain ⟨j, hji, hjf⟩ := hj
  have hjl := lt_length_of_getElem? hjf
  obtain ⟨r, hr, hrun⟩ := words_next_run ws idx (by omega)
  rw [hr, flags_getNext_pos f idx]
  congr 2
  refine (hrun.congr (fun m hm => ?_)).unique
    (flags_getNext_run f idx (64 * ws.length - (idx + 1)) (by omega))
  exact hbits (idx + 1 + m) (by omega)

theorem words_ignore (ws : Words) (f : Flags) (idx : Nat) (hR : WordsRel ws f)
    (hidx : idx < f.length) :
    ∃ ws', Words.ignore ws idx = some ws' ∧ WordsRel ws' (f.ignore idx) := by
  obtain ⟨hlen, hbits⟩ := hR
  have hseg : idx / 64 < ws.length := by omega
  have hget : ws[idx / 64]? = some ws[idx / 64] := List.getElem?_eq_getElem hseg
  refine ⟨ws.set (idx / 64) ((ws[idx / 64]).ignore (idx % 64)), ?_, ?_, ?_⟩
  · unfold Words.ignore
    dsimp only
    rw [hget]
  · show (f.set idx true).length ≤ _
    rw [List.length_set, List.length_set]; exact hlen
  · intro i hi
    rw [List.length_set] at hi
    rw [flags_ignore_getD f idx i hidx, ← hbits i hi, List.getD_eq_getElem?_getD,
      List.getElem?_set]
    by_cases hs : idx / 64 = i / 64
    · rw [if_pos hs, if_pos hseg]
      show ((ws[idx / 64]).ignore (idx % 64)).getLsbD (i % 64) = _
      rw [ignore_getLsbD _ _ _ (by omega), ← hs, getD_of_lt ws _ hseg]
      congr 1
      exact decide_eq_decide.mpr (by omega)
    · rw [if_neg hs, ← List.getD_eq_getElem?_getD]
      have : decide (i = idx) = false := decide_eq_false (fun e => hs (by rw [e]))
      rw [this, Bool.or_false]

/-- `[usize]` as `NumberTracker` refines the flags, across word boundaries (any number of slots) -/
theorem wordsRefines : Refines wordsTracker WordsRel := by
  refine ⟨?_, ?_, ?_⟩
  · intro ws f idx hR hidx _
    exact words_prev ws f idx hR hidx
  · intro ws f idx hR hj
    exact words_next ws f idx hR hj
  · intro ws f idx hR hidx
    exact words_ignore ws f idx hR hidx

end Exmex

