/-
  `WrapOK` (the side condition of the neutral-element shortcuts, see ShortcutLemmas) on the
  results of the calculation API.

  * `compile` alone does NOT establish `WrapOK` (counterexamples at the end of the file), because
    `WrapOK` talks about nested groups that `compile` never touches.
  * `Wide`: results of `operate_bin` are a literal or have at least two nodes, hence `WrapOK`.
  * `Folded`: the hereditary invariant of all reachable expressions — a literal group carries no
    unary chain, and a literal chain never occurs as an `Expr` node. It implies `WrapOK`, is
    established by `compile` from `Folded` nodes, and is preserved by the whole calculation API.
-/
import Exmex.Proofs.ShortcutLemmas
namespace Exmex.Shortcut
open Exmex.CalcLemmas Exmex.DeepCompile Exmex.C10

section
variable {α : Type} (I : Interp α) (C : CalcOps α) (t : Table)

/-! ### `Wide`: a single literal, or at least two nodes -/

def Wide (ns : List (DeepNode α)) : Prop := (∃ v, ns = [.num v]) ∨ 2 ≤ ns.length

theorem wrapOK_of_wide : ∀ e : DeepEx α, Wide e.nodes → WrapOK e
  | .mk [.expr e] _ _ _, h => by
    rcases h with ⟨v, hv⟩ | h
    · cases hv
    · simp [DeepEx.nodes] at h
  | .mk [] _ _ _, _ => by simp [WrapOK]
  | .mk [.num _] _ _ _, _ => by simp [WrapOK]
  | .mk [.var _ _] _ _ _, _ => by simp [WrapOK]
  | .mk (_ :: _ :: _) _ _ _, _ => by simp [WrapOK]

theorem step_wide (ops : List DBin) (st : DCompileSt α) (b n : Nat) (ns : List Nat)
    (st' : DCompileSt α) (ns' : List Nat)
    (h : dcompileStep I ops st b n ns = .ok (st', ns')) (hst : Wide st.nodes) : Wide st'.nodes := by
  unfold dcompileStep at h
  split at h
  · rename_i n1 n2 h1 h2
    have hlen : n + 1 < st.nodes.length := (List.getElem?_eq_some_iff.1 h2).1
    split at h
    · split at h
      · split at h
        · cases h
        · rename_i v _
          cases h
          show Wide ((st.nodes.set n (.num v)).eraseIdx (n + 1))
          cases n with
          | zero =>
            match hn : st.nodes, hlen with
            | x :: y :: rest, _ =>
              cases rest with
              | nil => exact Or.inl ⟨v, rfl⟩
              | cons z zs => exact Or.inr (by simp)
          | succ m =>
            refine Or.inr ?_
            rw [List.length_eraseIdx, List.length_set]
            split <;> omega
      · cases h
        exact hst
    · cases h
      exact hst
  · cases h

theorem loop_wide (ops : List DBin) :
    ∀ (bs ns : List Nat) (st st' : DCompileSt α), dcompileLoop I ops bs ns st = .ok st' →
      Wide st.nodes → Wide st'.nodes := by
  intro bs
  induction bs with
  | nil =>
    intro ns st st' h hst
    rw [dcompileLoop] at h
    cases h
    exact hst
  | cons b bs ih =>
    intro ns st st' h hst
    cases ns with
    | nil => rw [dcompileLoop] at h; cases h
    | cons n ns =>
      rw [dcompileLoop] at h
      cases hs : dcompileStep I ops st b n ns with
      | error e => rw [hs] at h; cases h
      | ok p =>
        obtain ⟨st1, ns1⟩ := p
        rw [hs] at h
        exact ih ns1 st1 st' h (step_wide I ops st b n ns st1 ns1 hs hst)

theorem foldGroup_wide (e1 r : DeepEx α) (h : foldGroup I e1 = .ok r) (hw : Wide e1.nodes) :
    Wide r.nodes := by
  unfold foldGroup at h
  simp only [] at h
  split at h
  · cases h
  · rename_i st hloop
    have hl := loop_wide I e1.ops _ _ _ st hloop hw
    split at h
    · cases h
      exact Or.inl ⟨_, rfl⟩
    · cases h
      exact hl

theorem liftNodes_wide : ∀ e : DeepEx α, Wide e.nodes → Wide e.liftNodes.nodes
  | .mk nodes ops un vars, h => by
    rcases h with ⟨v, hv⟩ | h
    · simp only [DeepEx.nodes] at hv
      subst hv
      rw [DeepEx.liftNodes.eq_def]
      simp only []
      split
      · exact Or.inl ⟨v, rfl⟩
      · exact Or.inl ⟨v, by simp [DeepEx.nodes, liftNodeList, DeepNode.liftNode]⟩
    · simp only [DeepEx.nodes] at h
      have hc : ¬ ((nodes.length == 1 && un.isEmpty) = true) := by
        simp; omega
      rw [DeepEx.liftNodes.eq_def]
      simp only [hc]
      exact Or.inr (by simp [DeepEx.nodes, liftNodeList_length]; exact h)

theorem compile_wide (e r : DeepEx α) (h : e.compile I = .ok r) (hw : Wide e.nodes) :
    Wide r.nodes := by
  rw [compile_eq] at h
  exact foldGroup_wide I _ r h (liftNodes_wide e hw)

/-- the result of `operate_bin` is a literal or has two nodes; in particular it is `WrapOK`,
    whatever the operands are -/
theorem operateBin_wide (a b r : DeepEx α) (repr : Str) (h : a.operateBin I t b repr = .ok r) :
    Wide r.nodes := by
  unfold DeepEx.operateBin at h
  split at h
  · cases h
  · rename_i op _
    unfold operateBinOp at h
    split at h
    · cases h
    · rename_i a' b' _
      rw [new_eq_compile I _ _ _ rfl] at h
      split at h
      · cases h
      · rename_i r0 h0
        exact compile_wide I r0 r h (compile_wide I _ r0 h0 (Or.inr (by simp [DeepEx.nodes])))

theorem operateBin_wrapOK (a b r : DeepEx α) (repr : Str) (h : a.operateBin I t b repr = .ok r) :
    WrapOK r := wrapOK_of_wide r (operateBin_wide I t a b r repr h)

/-! ### `Folded`: the hereditary invariant -/

mutual
/-- in every group, at any depth: a group that is a single literal carries no unary chain, and no
    `Expr` node is a literal chain (such nodes are lifted and folded by `compile`) -/
def Folded : DeepEx α → Prop
  | .mk nodes _ un _ => (∀ a, nodes = [.num a] → un = []) ∧ foldedList nodes
def FoldedNode : DeepNode α → Prop
  | .num _ => True
  | .var _ _ => True
  | .expr e => isLit e = false ∧ Folded e
def foldedList : List (DeepNode α) → Prop
  | [] => True
  | nd :: rest => FoldedNode nd ∧ foldedList rest
end

/-- what `compile` needs of the nodes it is given: nested groups are `Folded` (a node may still be
    a literal chain; `lift_nodes` removes it) -/
def WeakNode : DeepNode α → Prop
  | .expr e => Folded e
  | _ => True

def weakList (l : List (DeepNode α)) : Prop := ∀ nd ∈ l, WeakNode nd

theorem foldedList_iff (l : List (DeepNode α)) : foldedList l ↔ ∀ nd ∈ l, FoldedNode nd := by
  induction l with
  | nil => simp [foldedList]
  | cons nd rest ih => rw [foldedList, ih]; simp

theorem weakNode_of_folded (nd : DeepNode α) (h : FoldedNode nd) : WeakNode nd := by
  cases nd with
  | num a => trivial
  | var i nm => trivial
  | expr e => rw [FoldedNode] at h; exact h.2

theorem weakList_of_folded (l : List (DeepNode α)) (h : foldedList l) : weakList l :=
  fun nd hnd => weakNode_of_folded nd ((foldedList_iff l).1 h nd hnd)

theorem folded_nodes (e : DeepEx α) (h : Folded e) : foldedList e.nodes := by
  obtain ⟨nodes, ops, un, vars⟩ := e
  rw [Folded] at h
  exact h.2

/-- a `Folded` literal chain is a single literal without unary chain -/
theorem folded_lit : ∀ e : DeepEx α, Folded e → isLit e = true →
    ∃ a ops vars, e = .mk [.num a] ops [] vars
  | .mk [.num a] ops un vars, h, _ => by
    rw [Folded] at h
    rw [h.1 a rfl]
    exact ⟨a, ops, vars, rfl⟩
  | .mk [.expr e] _ _ _, h, hl => by
    rw [Folded, foldedList, FoldedNode] at h
    rw [isLit] at hl
    rw [hl] at h
    cases h.2.1.1
  | .mk [] _ _ _, _, hl => by simp [isLit] at hl
  | .mk [.var _ _] _ _ _, _, hl => by simp [isLit] at hl
  | .mk (_ :: _ :: _) _ _ _, _, hl => by simp [isLit] at hl

/-- **`Folded` implies `WrapOK`** -/
theorem wrapOK_of_folded : ∀ e : DeepEx α, Folded e → WrapOK e
  | .mk [.expr e] _ _ _, h => by
    rw [Folded, foldedList, FoldedNode] at h
    rw [WrapOK]
    refine ⟨fun hl => ?_, wrapOK_of_folded e h.2.1.2⟩
    rw [h.2.1.1] at hl
    cases hl
  | .mk [] _ _ _, _ => by simp [WrapOK]
  | .mk [.num _] _ _ _, _ => by simp [WrapOK]
  | .mk [.var _ _] _ _ _, _ => by simp [WrapOK]
  | .mk (_ :: _ :: _) _ _ _, _ => by simp [WrapOK]

/-! ### `lift_nodes` -/

theorem lift_folded :
    (∀ e : DeepEx α,
      (Folded e → Folded e.liftNodes ∧ (isLit e = false → isLit e.liftNodes = false)) ∧
      (weakList e.nodes → foldedList e.liftNodes.nodes)) ∧
    (∀ l : List (DeepNode α),
      (weakList l → foldedList (liftNodeList l)) ∧
      (foldedList l → ∀ a, liftNodeList l = [.num a] → l = [.num a])) ∧
    (∀ nd : DeepNode α,
      (WeakNode nd → FoldedNode nd.liftNode) ∧
      (FoldedNode nd → ∀ a, nd.liftNode = .num a → nd = .num a)) := by
  apply DeepEx.liftNodes.mutual_induct
  -- liftNode: `Expr([Num a])`
  · intro ops' vars' a
    refine ⟨fun _ => ?_, fun h => ?_⟩
    · rw [DeepNode.liftNode, FoldedNode]; trivial
    · rw [FoldedNode, isLit] at h
      cases h.1
  -- liftNode: `Expr([Var])`
  · intro ops' vars' i v
    refine ⟨fun _ => ?_, fun _ a h => ?_⟩
    · rw [DeepNode.liftNode, FoldedNode]; trivial
    · rw [DeepNode.liftNode] at h
      cases h
  -- liftNode: `Expr([Expr ed])`, `ed.liftNodes` single node without unary chain
  · intro ops' vars' ed ed' hc ih
    have key : Folded (DeepEx.mk [.expr ed] ops' [] vars') → FoldedNode (.expr ed') := by
      intro h
      rw [Folded, foldedList, FoldedNode] at h
      obtain ⟨f1, f2⟩ := ih.1 h.2.1.2
      rw [FoldedNode]
      exact ⟨f2 h.2.1.1, f1⟩
    refine ⟨fun h => ?_, fun _ a h => ?_⟩
    · rw [DeepNode.liftNode.eq_3, if_pos hc]
      exact key h
    · rw [DeepNode.liftNode.eq_3, if_pos hc] at h
      cases h
  -- the same, wrapper kept
  · intro ops' vars' ed ed' hc ih
    have key : Folded (DeepEx.mk [.expr ed] ops' [] vars') → FoldedNode (.expr ed') := by
      intro h
      rw [Folded, foldedList, FoldedNode] at h
      obtain ⟨f1, f2⟩ := ih.1 h.2.1.2
      rw [FoldedNode]
      exact ⟨f2 h.2.1.1, f1⟩
    refine ⟨fun h => ?_, fun _ a h => ?_⟩
    · rw [DeepNode.liftNode.eq_3, if_neg hc]
      have hk := key h
      rw [FoldedNode, isLit, Folded, foldedList, foldedList]
      rw [FoldedNode] at hk
      exact ⟨hk.1, ⟨fun _ _ => rfl, (by rw [FoldedNode]; exact hk), trivial⟩⟩
    · rw [DeepNode.liftNode.eq_3, if_neg hc] at h
      cases h
  -- liftNode: any other node
  · intro other hne
    rw [DeepNode.liftNode.eq_4 other hne]
    refine ⟨fun h => ?_, fun _ a h => h⟩
    cases other with
    | num a => rw [FoldedNode]; trivial
    | var i nm => rw [FoldedNode]; trivial
    | expr y =>
      rw [FoldedNode]
      refine ⟨?_, h⟩
      cases hl : isLit y with
      | false => rfl
      | true =>
        obtain ⟨a, ops, vars, hy⟩ := folded_lit y h hl
        subst hy
        exact (hne _ _ _ rfl).elim
  -- liftNodes: a bare wrapper `[Expr e]` is replaced by `e`
  · intro ops un vars e hc
    have hl : (DeepEx.mk [.expr e] ops un vars).liftNodes = e := by
      rw [DeepEx.liftNodes.eq_1, if_pos hc]
    rw [hl]
    refine ⟨fun h => ?_, fun h => ?_⟩
    · rw [Folded, foldedList, FoldedNode] at h
      exact ⟨h.2.1.2, fun _ => h.2.1.1⟩
    · exact folded_nodes e (h (.expr e) (by simp [DeepEx.nodes]))
  -- liftNodes: a single node that is not an `Expr`, no unary chain
  · intro n ops un vars hc hne
    have hl : (DeepEx.mk n ops un vars).liftNodes = DeepEx.mk n ops un vars := by
      rw [DeepEx.liftNodes.eq_def]
      simp only [hc, if_true]
    rw [hl]
    refine ⟨fun h => ⟨h, fun h' => h'⟩, fun h => ?_⟩
    show foldedList n
    have h1 : n.length = 1 := by simp at hc; exact hc.1
    match n, h1, hne with
    | [nd], _, hne =>
      rw [foldedList, foldedList]
      refine ⟨?_, trivial⟩
      cases nd with
      | num a => rw [FoldedNode]; trivial
      | var i nm => rw [FoldedNode]; trivial
      | expr e => exact (hne e rfl).elim
  -- liftNodes: the general case, node by node
  · intro n ops un vars hc ih
    have hl : (DeepEx.mk n ops un vars).liftNodes = DeepEx.mk (liftNodeList n) ops un vars := by
      rw [DeepEx.liftNodes.eq_def]
      simp only [hc]
      rfl
    rw [hl]
    refine ⟨fun h => ?_, fun h => ih.1 h⟩
    rw [Folded] at h
    have fl := ih.1 (weakList_of_folded n h.2)
    refine ⟨?_, fun hlit => ?_⟩
    · rw [Folded]
      exact ⟨fun a ha => h.1 a (ih.2 h.2 a ha), fl⟩
    · have hnum := ih.2 h.2
      generalize liftNodeList n = L at fl hnum ⊢
      match L, fl, hnum with
      | [], _, _ => simp [isLit]
      | [.num a], _, hnum =>
        rw [hnum a rfl, isLit] at hlit
        cases hlit
      | [.var _ _], _, _ => simp [isLit]
      | [.expr w], fl, _ =>
        rw [foldedList, FoldedNode] at fl
        rw [isLit]
        exact fl.1.1
      | _ :: _ :: _, _, _ => simp [isLit]
  -- liftNodeList
  · refine ⟨fun _ => ?_, fun _ a h => ?_⟩
    · rw [liftNodeList, foldedList]; trivial
    · rw [liftNodeList] at h
      cases h
  · intro nd rest ih1 ih2
    refine ⟨fun h => ?_, fun h a hl => ?_⟩
    · rw [liftNodeList, foldedList]
      exact ⟨ih1.1 (h nd List.mem_cons_self), ih2.1 (fun x hx => h x (List.mem_cons_of_mem _ hx))⟩
    · rw [foldedList] at h
      rw [liftNodeList] at hl
      injection hl with hl1 hl2
      cases rest with
      | nil => rw [ih1.2 h.1 a hl1]
      | cons x xs => rw [liftNodeList] at hl2; cases hl2

/-! ### `compile`, `DeepEx::new` -/

theorem foldGroup_folded (e1 r : DeepEx α) (h : foldGroup I e1 = .ok r)
    (hf : foldedList e1.nodes) : Folded r := by
  obtain ⟨-, hn⟩ := foldGroup_nodes I e1 r h
  have hnodes := hn FoldedNode (fun a => by rw [FoldedNode]; trivial) ((foldedList_iff _).1 hf)
  unfold foldGroup at h
  simp only [] at h
  split at h
  · cases h
  · split at h
    · cases h
      rw [Folded, foldedList, foldedList, FoldedNode]
      exact ⟨fun _ _ => rfl, trivial, trivial⟩
    · rename_i hne
      cases h
      rw [Folded]
      exact ⟨fun a ha => (hne a ha).elim, (foldedList_iff _).2 hnodes⟩

/-- **`compile` establishes `Folded`** (hence `WrapOK`) when the nested groups are `Folded` -/
theorem compile_folded (e r : DeepEx α) (h : e.compile I = .ok r) (hw : weakList e.nodes) :
    Folded r := by
  rw [compile_eq] at h
  exact foldGroup_folded I _ r h ((lift_folded.1 e).2 hw)

theorem compile_wrapOK (e r : DeepEx α) (h : e.compile I = .ok r) (hw : weakList e.nodes) :
    WrapOK r := wrapOK_of_folded r (compile_folded I e r h hw)

theorem new_folded (nodes : List (DeepNode α)) (ops : List DBin) (un : List Nat) (r : DeepEx α)
    (h : DeepEx.new I nodes ops un = .ok r) (hw : weakList nodes) : Folded r := by
  unfold DeepEx.new at h
  split at h
  · cases h
    rw [Folded, foldedList]
    exact ⟨fun a ha => (by cases ha), trivial⟩
  · split at h
    · cases h
    · exact compile_folded I _ r h hw

theorem new_wrapOK (nodes : List (DeepNode α)) (ops : List DBin) (un : List Nat) (r : DeepEx α)
    (h : DeepEx.new I nodes ops un = .ok r) (hw : weakList nodes) : WrapOK r :=
  wrapOK_of_folded r (new_folded I nodes ops un r h hw)

theorem folded_lit_group (x : α) (ops : List DBin) (vs : List Str) :
    Folded (DeepEx.mk [.num x] ops [] vs) := by
  rw [Folded, foldedList, foldedList, FoldedNode]
  exact ⟨fun _ _ => rfl, trivial, trivial⟩

/-! ### `reset_vars`, `with_vars`, `without_latest_unary` -/

theorem isLit_reset (all : List Str) :
    ∀ (e e' : DeepEx α), e.resetVars all = some e' → isLit e' = isLit e
  | .mk [.num n] ops un vars, e', h => by
    simp [DeepEx.resetVars, resetVarsList, DeepNode.resetVarsNode] at h
    subst h
    rw [isLit, isLit]
  | .mk [.expr e] ops un vars, e', h => by
    simp only [DeepEx.resetVars, resetVarsList, DeepNode.resetVarsNode] at h
    cases he : e.resetVars all with
    | none => rw [he] at h; simp at h
    | some e1 =>
      rw [he] at h
      simp at h
      subst h
      rw [isLit, isLit]
      exact isLit_reset all e e1 he
  | .mk [] _ _ _, e', h => by
    simp [DeepEx.resetVars, resetVarsList] at h
    subst h
    simp [isLit]
  | .mk [.var _ nm] _ _ _, e', h => by
    simp only [DeepEx.resetVars, resetVarsList, DeepNode.resetVarsNode] at h
    cases hj : all.idxOf? nm with
    | none => rw [hj] at h; simp at h
    | some j =>
      rw [hj] at h
      simp at h
      subst h
      simp [isLit]
  | .mk (n1 :: n2 :: rest) _ _ _, e', h => by
    simp only [DeepEx.resetVars, resetVarsList] at h
    cases h1 : n1.resetVarsNode all with
    | none => rw [h1] at h; simp at h
    | some m1 =>
      cases h2 : n2.resetVarsNode all with
      | none => rw [h1, h2] at h; simp at h
      | some m2 =>
        cases h3 : resetVarsList all rest with
        | none => rw [h1, h2, h3] at h; simp at h
        | some ms =>
          rw [h1, h2, h3] at h
          simp at h
          subst h
          simp [isLit]

/-- `reset_vars` preserves `WrapOK` -/
theorem wrapOK_reset (all : List Str) :
    ∀ (e e' : DeepEx α), e.resetVars all = some e' → WrapOK e → WrapOK e'
  | .mk [.num n] ops un vars, e', h, _ => by
    simp [DeepEx.resetVars, resetVarsList, DeepNode.resetVarsNode] at h
    subst h
    simp [WrapOK]
  | .mk [.expr e] ops un vars, e', h, hw => by
    simp only [DeepEx.resetVars, resetVarsList, DeepNode.resetVarsNode] at h
    cases he : e.resetVars all with
    | none => rw [he] at h; simp at h
    | some e1 =>
      rw [he] at h
      simp at h
      subst h
      rw [WrapOK] at hw ⊢
      rw [isLit_reset all e e1 he]
      exact ⟨hw.1, wrapOK_reset all e e1 he hw.2⟩
  | .mk [] _ _ _, e', h, _ => by
    simp [DeepEx.resetVars, resetVarsList] at h
    subst h
    simp [WrapOK]
  | .mk [.var _ nm] _ _ _, e', h, _ => by
    simp only [DeepEx.resetVars, resetVarsList, DeepNode.resetVarsNode] at h
    cases hj : all.idxOf? nm with
    | none => rw [hj] at h; simp at h
    | some j =>
      rw [hj] at h
      simp at h
      subst h
      simp [WrapOK]
  | .mk (n1 :: n2 :: rest) _ _ _, e', h, _ => by
    simp only [DeepEx.resetVars, resetVarsList] at h
    cases h1 : n1.resetVarsNode all with
    | none => rw [h1] at h; simp at h
    | some m1 =>
      cases h2 : n2.resetVarsNode all with
      | none => rw [h1, h2] at h; simp at h
      | some m2 =>
        cases h3 : resetVarsList all rest with
        | none => rw [h1, h2, h3] at h; simp at h
        | some ms =>
          rw [h1, h2, h3] at h
          simp at h
          subst h
          simp [WrapOK]

mutual
/-- `reset_vars` preserves `Folded` -/
theorem folded_reset (all : List Str) :
    ∀ (e e' : DeepEx α), e.resetVars all = some e' → Folded e → Folded e'
  | .mk nodes ops un vars, e', h, hf => by
    rw [DeepEx.resetVars] at h
    cases hl : resetVarsList all nodes with
    | none => rw [hl] at h; cases h
    | some ns =>
      rw [hl] at h
      cases h
      rw [Folded] at hf ⊢
      obtain ⟨f1, f2⟩ := folded_reset_list all nodes ns hl hf.2
      exact ⟨fun a ha => hf.1 a (f2 a ha), f1⟩
theorem folded_reset_node (all : List Str) :
    ∀ (nd nd' : DeepNode α), nd.resetVarsNode all = some nd' → FoldedNode nd →
      FoldedNode nd' ∧ ∀ a, nd' = .num a → nd = .num a
  | .num a, nd', h, _ => by
    rw [DeepNode.resetVarsNode] at h
    cases h
    exact ⟨by rw [FoldedNode]; trivial, fun _ h => h⟩
  | .var i nm, nd', h, _ => by
    rw [DeepNode.resetVarsNode] at h
    cases hj : all.idxOf? nm with
    | none => rw [hj] at h; cases h
    | some j =>
      rw [hj] at h
      cases h
      exact ⟨by rw [FoldedNode]; trivial, fun _ h => by cases h⟩
  | .expr e, nd', h, hf => by
    rw [DeepNode.resetVarsNode] at h
    cases he : e.resetVars all with
    | none => rw [he] at h; cases h
    | some e1 =>
      rw [he] at h
      cases h
      rw [FoldedNode] at hf ⊢
      exact ⟨⟨by rw [isLit_reset all e e1 he]; exact hf.1, folded_reset all e e1 he hf.2⟩,
        fun _ h => by cases h⟩
theorem folded_reset_list (all : List Str) :
    ∀ (l l' : List (DeepNode α)), resetVarsList all l = some l' → foldedList l →
      foldedList l' ∧ ∀ a, l' = [.num a] → l = [.num a]
  | [], l', h, _ => by
    rw [resetVarsList] at h
    cases h
    exact ⟨by rw [foldedList]; trivial, fun _ h => by cases h⟩
  | nd :: rest, l', h, hf => by
    rw [resetVarsList] at h
    rw [foldedList] at hf
    cases h1 : nd.resetVarsNode all with
    | none => rw [h1] at h; simp at h
    | some nd' =>
      cases h2 : resetVarsList all rest with
      | none => rw [h1, h2] at h; simp at h
      | some rest' =>
        rw [h1, h2] at h
        cases h
        obtain ⟨a1, a2⟩ := folded_reset_node all nd nd' h1 hf.1
        obtain ⟨b1, b2⟩ := folded_reset_list all rest rest' h2 hf.2
        refine ⟨by rw [foldedList]; exact ⟨a1, b1⟩, fun a ha => ?_⟩
        injection ha with ha1 ha2
        subst ha2
        cases rest with
        | nil => rw [a2 a ha1]
        | cons x xs =>
          rw [resetVarsList] at h2
          split at h2
          · cases h2
          · cases h2
end

theorem wrapOK_congr : ∀ (nodes : List (DeepNode α)) (ops ops' : List DBin) (un : List Nat)
    (vars vars' : List Str), WrapOK (.mk nodes ops un vars) → WrapOK (.mk nodes ops' un vars')
  | [.expr e], _, _, _, _, _, h => by rw [WrapOK] at h ⊢; exact h
  | [], _, _, _, _, _, _ => by simp [WrapOK]
  | [.num _], _, _, _, _, _, _ => by simp [WrapOK]
  | [.var _ _], _, _, _, _, _, _ => by simp [WrapOK]
  | _ :: _ :: _, _, _, _, _, _, _ => by simp [WrapOK]

theorem wrapOK_withVars (e : DeepEx α) (vs : List Str) (h : WrapOK e) : WrapOK (e.withVars vs) := by
  obtain ⟨nodes, ops, un, vars⟩ := e
  exact wrapOK_congr nodes ops ops un vars vs h

theorem folded_withVars (e : DeepEx α) (vs : List Str) (h : Folded e) : Folded (e.withVars vs) := by
  obtain ⟨nodes, ops, un, vars⟩ := e
  rw [Folded] at h
  rw [DeepEx.withVars, Folded]
  exact h

theorem wrapOK_withoutLatestUnary (a r : DeepEx α) (h : a.withoutLatestUnary = .ok r)
    (hw : WrapOK a) : WrapOK r := by
  obtain ⟨nodes, ops, un, vars⟩ := a
  unfold DeepEx.withoutLatestUnary at h
  simp only [DeepEx.un, DeepEx.nodes, DeepEx.ops, DeepEx.vars] at h
  split at h
  · cases h
  · rename_i u rest
    cases h
    match nodes, hw with
    | [.expr e], hw =>
      rw [WrapOK] at hw ⊢
      refine ⟨fun hl => ?_, hw.2⟩
      cases hw.1 hl
    | [], _ => simp [WrapOK]
    | [.num _], _ => simp [WrapOK]
    | [.var _ _], _ => simp [WrapOK]
    | _ :: _ :: _, _ => simp [WrapOK]

theorem folded_withoutLatestUnary (a r : DeepEx α) (h : a.withoutLatestUnary = .ok r)
    (hf : Folded a) : Folded r := by
  obtain ⟨nodes, ops, un, vars⟩ := a
  unfold DeepEx.withoutLatestUnary at h
  simp only [DeepEx.un, DeepEx.nodes, DeepEx.ops, DeepEx.vars] at h
  split at h
  · cases h
  · rename_i u rest
    cases h
    rw [Folded] at hf ⊢
    exact ⟨fun a ha => (by cases hf.1 a ha), hf.2⟩

/-! ### the calculation API -/

theorem fromNum_folded (x : α) (r : DeepEx α) (h : DeepEx.fromNum I x = .ok r) : Folded r := by
  rw [fromNum_eq] at h
  cases h
  exact folded_lit_group x [] []

theorem zeroLike_folded (other r : DeepEx α) (h : DeepEx.zeroLike I C other = .ok r) : Folded r := by
  rw [zeroLike_eq] at h
  cases h
  exact folded_lit_group _ [] _

theorem oneLike_folded (other r : DeepEx α) (h : DeepEx.oneLike I C other = .ok r) : Folded r := by
  rw [oneLike_eq] at h
  cases h
  exact folded_lit_group _ [] _

theorem union_folded (a b a' b' : DeepEx α) (h : varNamesUnion a b = .ok (a', b'))
    (ha : Folded a) (hb : Folded b) : Folded a' ∧ Folded b' := by
  unfold varNamesUnion at h
  simp only [] at h
  split at h
  · rename_i a1 b1 h1 h2
    cases h
    exact ⟨folded_reset _ a a' h1 ha, folded_reset _ b b' h2 hb⟩
  · cases h

theorem union_wrapOK (a b a' b' : DeepEx α) (h : varNamesUnion a b = .ok (a', b'))
    (ha : WrapOK a) (hb : WrapOK b) : WrapOK a' ∧ WrapOK b' := by
  unfold varNamesUnion at h
  simp only [] at h
  split at h
  · rename_i a1 b1 h1 h2
    cases h
    exact ⟨wrapOK_reset _ a a' h1 ha, wrapOK_reset _ b b' h2 hb⟩
  · cases h

theorem operateBin_folded (a b r : DeepEx α) (repr : Str) (h : a.operateBin I t b repr = .ok r)
    (ha : Folded a) (hb : Folded b) : Folded r := by
  unfold DeepEx.operateBin at h
  split at h
  · cases h
  · rename_i op _
    unfold operateBinOp at h
    split at h
    · cases h
    · rename_i a' b' hu
      obtain ⟨fa, fb⟩ := union_folded a b a' b' hu ha hb
      split at h
      · cases h
      · rename_i r0 h0
        have hw : weakList [DeepNode.expr a', DeepNode.expr b'] := by
          intro nd hnd
          simp at hnd
          rcases hnd with rfl | rfl
          · exact fa
          · exact fb
        have f0 := new_folded I _ _ _ r0 h0 hw
        exact compile_folded I r0 r h (weakList_of_folded _ (folded_nodes r0 f0))

theorem operateUnary_folded (a r : DeepEx α) (repr : Str) (h : a.operateUnary I t repr = .ok r)
    (ha : Folded a) : Folded r := by
  unfold DeepEx.operateUnary at h
  split at h
  · cases h
  · exact compile_folded I _ r h (weakList_of_folded _ (folded_nodes a ha))

theorem neg_folded (a r : DeepEx α) (h : a.neg I t = .ok r) (ha : Folded a) : Folded r :=
  operateUnary_folded I t a r _ h ha

theorem sub_folded (a b r : DeepEx α) (h : a.sub I t b = .ok r) (ha : Folded a) (hb : Folded b) :
    Folded r := operateBin_folded I t a b r _ h ha hb

theorem add_folded (a b r : DeepEx α) (h : a.add I C t b = .ok r) (ha : Folded a) (hb : Folded b) :
    Folded r := by
  unfold DeepEx.add at h
  split at h
  · cases h
  · rename_i s1 s2 hu
    obtain ⟨f1, f2⟩ := union_folded a b s1 s2 hu ha hb
    split at h
    · cases h; exact f2
    · split at h
      · cases h; exact f1
      · exact operateBin_folded I t s1 s2 r _ h f1 f2

theorem mul_folded (a b r : DeepEx α) (h : a.mul I C t b = .ok r) (ha : Folded a) (hb : Folded b) :
    Folded r := by
  unfold DeepEx.mul at h
  split at h
  · cases h
  · rename_i s1 s2 hu
    obtain ⟨f1, f2⟩ := union_folded a b s1 s2 hu ha hb
    split at h
    · exact zeroLike_folded I C _ r h
    · split at h
      · cases h; exact f2
      · split at h
        · cases h; exact f1
        · exact operateBin_folded I t s1 s2 r _ h f1 f2

theorem div_folded (a b r : DeepEx α) (h : a.div I C t b = .ok r) (ha : Folded a) (hb : Folded b) :
    Folded r := by
  unfold DeepEx.div at h
  split at h
  · cases h
  · rename_i s1 s2 hu
    obtain ⟨f1, f2⟩ := union_folded a b s1 s2 hu ha hb
    split at h
    · exact zeroLike_folded I C _ r h
    · split at h
      · cases h; exact f1
      · exact operateBin_folded I t s1 s2 r _ h f1 f2

theorem pow_folded (a b r : DeepEx α) (h : a.pow I C t b = .ok r) (ha : Folded a) (hb : Folded b) :
    Folded r := by
  unfold DeepEx.pow at h
  split at h
  · cases h
  · rename_i s1 s2 hu
    obtain ⟨f1, f2⟩ := union_folded a b s1 s2 hu ha hb
    split at h
    · cases h
    · split at h
      · exact zeroLike_folded I C _ r h
      · split at h
        · exact oneLike_folded I C _ r h
        · split at h
          · cases h; exact f1
          · exact operateBin_folded I t s1 s2 r _ h f1 f2

/-! ### corollaries in terms of `WrapOK` -/

theorem operateUnary_wrapOK (a r : DeepEx α) (repr : Str) (h : a.operateUnary I t repr = .ok r)
    (ha : Folded a) : WrapOK r := wrapOK_of_folded r (operateUnary_folded I t a r repr h ha)

theorem fromNum_wrapOK (x : α) (r : DeepEx α) (h : DeepEx.fromNum I x = .ok r) : WrapOK r :=
  wrapOK_of_folded r (fromNum_folded I x r h)

theorem zeroLike_wrapOK (other r : DeepEx α) (h : DeepEx.zeroLike I C other = .ok r) : WrapOK r :=
  wrapOK_of_folded r (zeroLike_folded I C other r h)

theorem oneLike_wrapOK (other r : DeepEx α) (h : DeepEx.oneLike I C other = .ok r) : WrapOK r :=
  wrapOK_of_folded r (oneLike_folded I C other r h)

end
end Exmex.Shortcut
