/-
  C06 (no panic): the recursive parser `deepMake` / `deepLoop` / `processUnary` on ANY token list
  that passed `checkPre`: the fuel `2 * tokens + 4` suffices, no index is out of range, and every
  group returned satisfies the generic structural invariant (one more node than operators,
  variable indices into `findVars toks`), with the top-level group listing all variables.
-/
import Exmex.Proofs.TotalDeep
namespace Exmex.Total
open Exmex.ReachLemmas Exmex.CalcLemmas Exmex.DeepCompile

section
variable {K : Type} (I : Interp K) (t : Table) (W : List Str)

/-- the invariant of parsed nodes / groups, relative to the top-level names `W` -/
abbrev GN (nd : DeepNode K) : Prop := GenNode (QS W) (NV W) nd
abbrev GE (e : DeepEx K) : Prop := GenEx (QS W) (NV W) e

theorem foundVars_qs (nodes : List (DeepNode K)) (hn : ∀ nd ∈ nodes, GN W nd) :
    QS W (foundVars nodes) := by
  refine ⟨foundVars_strict nodes, ?_⟩
  intro x hx
  obtain ⟨nd, hnd, hname⟩ := (mem_foundVars nodes x).1 hx
  have hop : GenNode (QS W) (NV W) nd := hn nd hnd
  cases nd with
  | num a => exact hname.elim
  | var i nm =>
    rw [GenNode] at hop
    have hx' : x = nm := hname
    rw [hx']
    exact List.mem_of_getElem? hop
  | expr e =>
    rw [GenNode] at hop
    exact (genEx_vars e hop).2 x hname

/-- `DeepEx::new` on parsed nodes never panics -/
theorem new_post (nodes : List (DeepNode K)) (ops : List DBin) (un : List Nat)
    (hn : ∀ nd ∈ nodes, GN W nd) :
    Post (DeepEx.new I nodes ops un) (fun d =>
      nodes.length + ops.length + un.length = 0 ∨
        (nodes.length = ops.length + 1 ∧ GE W d ∧ ∀ x, x ∈ d.vars ↔ InNames x nodes)) := by
  unfold DeepEx.new
  split
  · rename_i h0
    exact .inl (by simpa using h0)
  · split
    · trivial
    · rename_i h1
      have hlen : nodes.length = ops.length + 1 := by simpa using h1
      have hq := foundVars_qs W nodes hn
      have hg : GenEx (QS W) (NV W) (DeepEx.mk nodes ops un (foundVars nodes)) := by
        rw [GenEx]
        exact ⟨hlen, hq, (genList_iff _ _ nodes).2 hn⟩
      obtain ⟨d, h1, h2, h3⟩ := compile_total I _ _ _ hg
      rw [h1]
      refine .inr ⟨hlen, h2, ?_⟩
      intro x
      rw [h3, liftNodes_vars nodes ops un _ ?_]
      · exact mem_foundVars nodes x
      · intro g hg'
        subst hg'
        have hgn : GenNode (QS W) (NV W) (DeepNode.expr g) := hn _ List.mem_cons_self
        rw [GenNode] at hgn
        exact (foundVars_single g (genEx_vars g hgn).1).symm

/-- what `checkPre` guarantees about the token list, stable under `drop` -/
structure TokOK (toks : List (Tok K)) : Prop where
  ne : NE toks
  last : NoLastOp toks
  vars : ∀ nm, Tok.var nm ∈ toks → nm ∈ W

theorem TokOK.drop {toks : List (Tok K)} (h : TokOK W toks) (k : Nat) : TokOK W (toks.drop k) := by
  refine ⟨ne_drop toks k h.ne, ?_, fun nm hm => h.vars nm (List.mem_of_mem_drop hm)⟩
  intro i o hi
  rw [List.getElem?_drop] at hi
  have := h.last (k + i) o hi
  rw [List.length_drop]
  omega

/-- what `deepLoop` returns, started at `idx` with `nodes`, `ops` -/
def LoopR (toks : List (Tok K)) (idx : Nat) (nodes : List (DeepNode K)) (ops : List DBin)
    (r : List (DeepNode K) × List DBin × Nat) : Prop :=
  ∃ ext exto, r.1 = nodes ++ ext ∧ r.2.1 = ops ++ exto ∧ (∀ nd ∈ ext, GN W nd) ∧
    idx ≤ r.2.2 ∧ r.2.2 ≤ toks.length ∧
    (r.2.2 = toks.length ∨ bal (toks.take r.2.2) + 1 ≤ bal (toks.take idx)) ∧
    (∀ j nm, idx ≤ j → j < r.2.2 → toks[j]? = some (.var nm) → InNames nm ext) ∧
    (∀ tk, toks[idx]? = some tk → tk ≠ .pclose → 0 < ext.length + exto.length)

def MakeR (toks : List (Tok K)) (r : DeepEx K × Nat) : Prop :=
  GE W r.1 ∧ r.2 ≤ toks.length ∧ (r.2 = toks.length ∨ bal (toks.take r.2) + 1 ≤ 0) ∧
    ∀ j nm, j < r.2 → toks[j]? = some (.var nm) → nm ∈ r.1.vars

def UnR (toks : List (Tok K)) (idx : Nat) (r : DeepNode K × Nat) : Prop :=
  GN W r.1 ∧ 1 ≤ r.2 ∧ idx + r.2 ≤ toks.length ∧
    (idx + r.2 = toks.length ∨ bal (toks.take (idx + r.2)) ≤ bal (toks.take idx)) ∧
    ∀ j nm, idx ≤ j → j < idx + r.2 → toks[j]? = some (.var nm) → NameOf nm r.1

def MakeT (fuel : Nat) : Prop :=
  ∀ (toks : List (Tok K)) (un : List Nat), TokOK W toks →
    (un ≠ [] ∨ ∃ tk, toks[0]? = some tk ∧ tk ≠ .pclose) → 2 * toks.length + 2 ≤ fuel →
    Post (deepMake I t W fuel toks un) (MakeR W toks)

def LoopT (fuel : Nat) : Prop :=
  ∀ (toks : List (Tok K)) (idx : Nat) (nodes : List (DeepNode K)) (ops : List DBin), TokOK W toks →
    idx ≤ toks.length → 2 * (toks.length - idx) + 1 ≤ fuel →
    Post (deepLoop I t W fuel toks idx nodes ops) (LoopR W toks idx nodes ops)

def UnT (fuel : Nat) : Prop :=
  ∀ (toks : List (Tok K)) (idx o : Nat), TokOK W toks → toks[idx]? = some (.op o) →
    2 * (toks.length - idx) ≤ fuel →
    Post (processUnary I t W fuel toks idx o) (UnR W toks idx)

/-- one step of the loop followed by the rest -/
theorem loop_glue' (toks : List (Tok K)) (idx idx1 : Nat)
    (nodes pre : List (DeepNode K)) (ops preo : List DBin) (r : List (DeepNode K) × List DBin × Nat)
    (hpre : ∀ nd ∈ pre, GN W nd)
    (hlt : idx < idx1) (hpos : 0 < pre.length + preo.length)
    (hb1 : idx1 = toks.length ∨ bal (toks.take idx1) ≤ bal (toks.take idx))
    (hcov1 : ∀ j nm, idx ≤ j → j < idx1 → toks[j]? = some (.var nm) → InNames nm pre)
    (hr : LoopR W toks idx1 (nodes ++ pre) (ops ++ preo) r) :
    LoopR W toks idx nodes ops r := by
  obtain ⟨ext, exto, e1, e2, hn, h1, h2, h3, h4, -⟩ := hr
  refine ⟨pre ++ ext, preo ++ exto, by rw [e1, List.append_assoc], by rw [e2, List.append_assoc],
    ?_, by omega, h2, ?_, ?_, ?_⟩
  · intro nd hnd
    rcases List.mem_append.1 hnd with h | h
    · exact hpre nd h
    · exact hn nd h
  · rcases hb1 with hb1 | hb1
    · exact .inl (by omega)
    · rcases h3 with h3 | h3
      · exact .inl h3
      · exact .inr (by omega)
  · intro j nm hj1 hj2 hj
    rcases Nat.lt_or_ge j idx1 with hlt1 | hge1
    · obtain ⟨nd, hnd, hname⟩ := hcov1 j nm hj1 hlt1 hj
      exact ⟨nd, List.mem_append_left _ hnd, hname⟩
    · obtain ⟨nd, hnd, hname⟩ := h4 j nm hge1 hj2 hj
      exact ⟨nd, List.mem_append_right _ hnd, hname⟩
  · intro _ _ _
    rw [List.length_append, List.length_append]
    omega

theorem make_step' (fuel : Nat) (hL : LoopT I t W fuel) : MakeT I t W (fuel + 1) := by
  intro toks un htok hstart hfuel
  rw [deepMake]
  have hl := hL toks 0 [] [] htok (Nat.zero_le _) (by omega)
  cases hloop : deepLoop I t W fuel toks 0 [] [] with
  | error e => rw [hloop] at hl; exact hl
  | ok r =>
    obtain ⟨nodes, ops, k⟩ := r
    rw [hloop] at hl
    obtain ⟨ext, exto, e1, e2, hn, -, hle, hbal, hcov, hpos⟩ := hl
    simp only [List.nil_append] at e1 e2 hle hbal hcov
    subst e1 e2
    dsimp only
    have hnew := new_post I W nodes ops un hn
    cases hnew' : DeepEx.new I nodes ops un with
    | error e => rw [hnew'] at hnew; exact hnew
    | ok d =>
      rw [hnew'] at hnew
      rcases hnew with h0 | ⟨hlen, hge, hvars⟩
      · exfalso
        have hun0 : un = [] := List.eq_nil_of_length_eq_zero (by omega)
        rcases hstart with hs | ⟨tk, h1, h2⟩
        · exact hs hun0
        · have := hpos tk h1 h2
          omega
      · refine ⟨hge, hle, ?_, ?_⟩
        · rcases hbal with hb | hb
          · exact .inl hb
          · refine .inr ?_
            have : bal (toks.take 0) = 0 := by rw [List.take_zero]; rfl
            show bal (toks.take k) + 1 ≤ 0
            omega
        · intro j nm hj1 hj2
          exact (hvars nm).2 (hcov j nm (Nat.zero_le _) hj1 hj2)

theorem un_step' (fuel : Nat) (hM : MakeT I t W fuel) : UnT I t W (fuel + 1) := by
  intro toks idx o htok hidx hfuel
  rw [processUnary]
  obtain ⟨su, hsu⟩ : ∃ su, su = subsequentUnaries t (toks.drop (idx + 1)) := ⟨_, rfl⟩
  rw [← hsu]
  obtain ⟨-, hsu2⟩ := su_spec t (toks.drop (idx + 1))
  rw [← hsu] at hsu2
  -- the run of operator tokens
  have hrun : ∀ j, idx ≤ j → j < idx + (o :: su).length → ∃ u, toks[j]? = some (.op u) := by
    intro j hj1 hj2
    rcases Nat.eq_or_lt_of_le hj1 with rfl | hlt
    · exact ⟨o, hidx⟩
    · simp only [List.length_cons] at hj2
      obtain ⟨u, hu⟩ := hsu2 (j - (idx + 1)) (by omega)
      rw [List.getElem?_drop] at hu
      exact ⟨u, by rw [← hu]; congr 1; omega⟩
  have hbalrun := bal_ops toks idx (o :: su).length hrun
  have hnovar : ∀ j nm, idx ≤ j → j < idx + (o :: su).length → toks[j]? = some (.var nm) → False := by
    intro j nm hj1 hj2 hj
    obtain ⟨u, hu⟩ := hrun j hj1 hj2
    rw [hu] at hj
    cases hj
  obtain ⟨n, hn⟩ : ∃ n, n = (o :: su).length := ⟨_, rfl⟩
  rw [← hn] at hbalrun hnovar hrun ⊢
  have hn1 : 1 ≤ n := by rw [hn]; simp
  -- the token after the run exists: an operator is never the last token
  have hlt : idx + n < toks.length := by
    obtain ⟨u, hu⟩ := hrun (idx + n - 1) (by omega) (by omega)
    have := htok.last _ u hu
    omega
  obtain ⟨tk, htk⟩ : ∃ tk, toks[idx + n]? = some tk := ⟨_, List.getElem?_eq_getElem hlt⟩
  rw [htk]
  -- the group after an opening (or closing) parenthesis
  have paren : (tk = .popen ∨ tk = .pclose) →
      Post (match deepMake I t W fuel (toks.drop (idx + n + 1)) (o :: su) with
        | .error e => .error e
        | .ok (e, fwd) => (.ok (.expr e, fwd + n + 1) : Res (DeepNode K × Nat))) (UnR W toks idx) := by
    intro hpar
    have hm := hM (toks.drop (idx + n + 1)) (o :: su) (htok.drop W _) (.inl (by simp))
      (by rw [List.length_drop]; omega)
    cases hmake : deepMake I t W fuel (toks.drop (idx + n + 1)) (o :: su) with
    | error e => rw [hmake] at hm; exact hm
    | ok r =>
      obtain ⟨e, fwd'⟩ := r
      rw [hmake] at hm
      obtain ⟨hpe, hle, hb, hcov⟩ := hm
      dsimp only at hpe hle hb hcov ⊢
      rw [List.length_drop] at hle hb
      refine ⟨by show GenNode _ _ _; rw [GenNode]; exact hpe, by omega, by omega, ?_, ?_⟩
      · rcases hb with hb | hb
        · exact .inl (by omega)
        · refine .inr ?_
          have e1 : idx + (fwd' + n + 1) = (idx + n + 1) + fwd' := by omega
          show bal (toks.take (idx + (fwd' + n + 1))) ≤ bal (toks.take idx)
          rw [e1, bal_take_add, bal_take_succ toks (idx + n) tk htk, hbalrun]
          have : parenDelta tk ≤ 1 := by
            rcases hpar with rfl | rfl <;> simp [parenDelta]
          omega
      · intro j nm hj1 hj2 hj
        rcases Nat.lt_or_ge j (idx + n) with hl | hg
        · exact (hnovar j nm hj1 hl hj).elim
        · rcases Nat.eq_or_lt_of_le hg with rfl | hgt
          · rw [htk] at hj
            rcases hpar with rfl | rfl <;> cases hj
          · have : (toks.drop (idx + n + 1))[j - (idx + n + 1)]? = some (.var nm) := by
              rw [List.getElem?_drop, ← hj]; congr 1; omega
            exact hcov _ nm (by omega) this
  cases tk with
  | popen => exact paren (.inl rfl)
  | pclose => exact paren (.inr rfl)
  | var name =>
    dsimp only
    have hmem : name ∈ W := htok.vars name (List.mem_of_getElem? htk)
    have hf := findVarIndex_post name W hmem
    cases hvi : findVarIndex name W with
    | error e => rw [hvi] at hf; exact hf
    | ok vi =>
      rw [hvi] at hf
      have hv : W[vi]? = some name := hf
      dsimp only
      have hnew := new_post I W [.var vi name] [] (o :: su)
        (fun nd hnd => by rw [List.mem_singleton] at hnd; rw [hnd]; show GenNode _ _ _; rw [GenNode]; exact hv)
      cases hnew' : DeepEx.new I [.var vi name] [] (o :: su) with
      | error e => rw [hnew'] at hnew; exact hnew
      | ok e =>
        rw [hnew'] at hnew
        rcases hnew with h0 | ⟨-, hge, hvars⟩
        · simp at h0
        · refine ⟨by show GenNode _ _ _; rw [GenNode]; exact hge, by omega, by omega, .inr ?_, ?_⟩
          · show bal (toks.take (idx + (n + 1))) ≤ bal (toks.take idx)
            rw [← Nat.add_assoc, bal_take_succ toks (idx + n) _ htk, hbalrun]
            simp [parenDelta]
          · intro j nm hj1 hj2 hj
            rcases Nat.lt_or_ge j (idx + n) with hl | hg
            · exact (hnovar j nm hj1 hl hj).elim
            · have hje : j = idx + n := by
                have : j < idx + (n + 1) := hj2
                omega
              subst hje
              rw [htk] at hj
              cases hj
              exact (hvars _).2 ⟨_, List.mem_cons_self, rfl⟩
  | num a =>
    refine ⟨by show GenNode _ _ _; rw [GenNode]; trivial, by show 1 ≤ n + 1; omega,
      by show idx + (n + 1) ≤ toks.length; omega, .inr ?_, ?_⟩
    · show bal (toks.take (idx + (n + 1))) ≤ bal (toks.take idx)
      rw [← Nat.add_assoc, bal_take_succ toks (idx + n) _ htk, hbalrun]
      simp [parenDelta]
    · intro j nm hj1 hj2 hj
      rcases Nat.lt_or_ge j (idx + n) with hl | hg
      · exact (hnovar j nm hj1 hl hj).elim
      · have hje : j = idx + n := by
          have : j < idx + (n + 1) := hj2
          omega
        subst hje
        rw [htk] at hj
        cases hj
  | op o' => trivial

theorem loop_step' (fuel : Nat) (hM : MakeT I t W fuel) (hL : LoopT I t W fuel)
    (hU : UnT I t W fuel) : LoopT I t W (fuel + 1) := by
  intro toks idx nodes ops htok hidx hfuel
  rw [deepLoop]
  cases htk : toks[idx]? with
  | none =>
    -- end of the token list
    have hlen : toks.length ≤ idx := by
      rcases Nat.lt_or_ge idx toks.length with hl | hl
      · rw [List.getElem?_eq_getElem hl] at htk; cases htk
      · exact hl
    refine ⟨[], [], by simp, by simp, (fun _ h => by cases h), Nat.le_refl _, hidx,
      .inl (by show idx = toks.length; omega), ?_, ?_⟩
    · intro j nm hj1 hj2 _
      have : j < idx := hj2
      omega
    · intro tk h1 _
      rw [htk] at h1
      cases h1
  | some tk =>
    have hlt : idx < toks.length := (List.getElem?_eq_some_iff.1 htk).1
    have hb := bal_take_succ toks idx _ htk
    cases tk with
    | op o =>
      simp only [parenDelta] at hb
      dsimp only
      have hbn := isOperatorBinary_np t o (if idx == 0 then none else toks[idx - 1]?)
      cases hbin : isOperatorBinary t o (if idx == 0 then none else toks[idx - 1]?) with
      | error e => rw [hbin] at hbn; exact hbn
      | ok bb =>
        cases bb with
        | true =>
          dsimp only
          cases hb' : tblBin t o with
          | none => trivial
          | some b =>
            dsimp only
            refine (hL toks (idx + 1) nodes (ops ++ [b]) htok (by omega) (by omega)).mono ?_
            intro r _ hr
            refine loop_glue' W toks idx (idx + 1) nodes [] ops [b] r (fun _ h => by cases h)
              (by omega) (by simp) (.inr (by omega)) ?_ (by rw [List.append_nil]; exact hr)
            intro j nm hj1 hj2 hj
            have : j = idx := by omega
            subst this
            rw [htk] at hj
            cases hj
        | false =>
          dsimp only
          split
          · trivial
          · have hu := hU toks idx o htok htk (by omega)
            cases hproc : processUnary I t W fuel toks idx o with
            | error e => rw [hproc] at hu; exact hu
            | ok r =>
              obtain ⟨node, fwd⟩ := r
              rw [hproc] at hu
              obtain ⟨hpn, hf1, hf2, hf3, hf4⟩ := hu
              dsimp only at hpn hf1 hf2 hf3 hf4 ⊢
              refine (hL toks (idx + fwd) (nodes ++ [node]) ops htok hf2 (by omega)).mono ?_
              intro r _ hr
              refine loop_glue' W toks idx (idx + fwd) nodes [node] ops [] r
                (fun x hx => by rw [List.mem_singleton] at hx; rw [hx]; exact hpn)
                (by omega) (by simp) hf3 ?_ (by rw [List.append_nil]; exact hr)
              intro j nm hj1 hj2 hj
              exact ⟨node, List.mem_cons_self, hf4 j nm hj1 hj2 hj⟩
    | num a =>
      simp only [parenDelta] at hb
      dsimp only
      refine (hL toks (idx + 1) (nodes ++ [.num a]) ops htok (by omega) (by omega)).mono ?_
      intro r _ hr
      refine loop_glue' W toks idx (idx + 1) nodes [.num a] ops [] r
        (fun x hx => by rw [List.mem_singleton] at hx; rw [hx]; show GenNode _ _ _; rw [GenNode]; trivial)
        (by omega) (by simp) (.inr (by omega)) ?_ (by rw [List.append_nil]; exact hr)
      intro j nm hj1 hj2 hj
      have : j = idx := by omega
      subst this
      rw [htk] at hj
      cases hj
    | var name =>
      simp only [parenDelta] at hb
      dsimp only
      have hmem : name ∈ W := htok.vars name (List.mem_of_getElem? htk)
      have hf := findVarIndex_post name W hmem
      cases hvi : findVarIndex name W with
      | error e => rw [hvi] at hf; exact hf
      | ok vi =>
        rw [hvi] at hf
        have hv : W[vi]? = some name := hf
        dsimp only
        refine (hL toks (idx + 1) (nodes ++ [.var vi name]) ops htok (by omega) (by omega)).mono ?_
        intro r _ hr
        refine loop_glue' W toks idx (idx + 1) nodes [.var vi name] ops [] r
          (fun x hx => by rw [List.mem_singleton] at hx; rw [hx]; show GenNode _ _ _; rw [GenNode]; exact hv)
          (by omega) (by simp) (.inr (by omega)) ?_ (by rw [List.append_nil]; exact hr)
        intro j nm hj1 hj2 hj
        have : j = idx := by omega
        subst this
        rw [htk] at hj
        cases hj
        exact ⟨_, List.mem_cons_self, rfl⟩
    | popen =>
      simp only [parenDelta] at hb
      dsimp only
      obtain ⟨tk1, ht1, ht2⟩ := htok.ne idx htk
      have hm := hM (toks.drop (idx + 1)) [] (htok.drop W _)
        (.inr ⟨tk1, by rw [List.getElem?_drop]; exact ht1, ht2⟩)
        (by rw [List.length_drop]; omega)
      cases hmake : deepMake I t W fuel (toks.drop (idx + 1)) [] with
      | error e => rw [hmake] at hm; exact hm
      | ok r =>
        obtain ⟨e, fwd⟩ := r
        rw [hmake] at hm
        obtain ⟨hpe, hle, hbm, hcov⟩ := hm
        dsimp only at hpe hle hbm hcov ⊢
        rw [List.length_drop] at hle hbm
        refine (hL toks (idx + 1 + fwd) (nodes ++ [.expr e]) ops htok (by omega) (by omega)).mono ?_
        intro r _ hr
        refine loop_glue' W toks idx (idx + 1 + fwd) nodes [.expr e] ops [] r
          (fun x hx => by rw [List.mem_singleton] at hx; rw [hx]; show GenNode _ _ _; rw [GenNode]; exact hpe)
          (by omega) (by simp) ?_ ?_ (by rw [List.append_nil]; exact hr)
        · rcases hbm with hbm | hbm
          · exact .inl (by omega)
          · refine .inr ?_
            rw [bal_take_add]
            omega
        · intro j nm hj1 hj2 hj
          rcases Nat.eq_or_lt_of_le hj1 with rfl | hgt
          · rw [htk] at hj
            cases hj
          · have : (toks.drop (idx + 1))[j - (idx + 1)]? = some (.var nm) := by
              rw [List.getElem?_drop, ← hj]; congr 1; omega
            exact ⟨_, List.mem_cons_self, hcov _ nm (by omega) this⟩
    | pclose =>
      simp only [parenDelta] at hb
      refine ⟨[], [], by simp, by simp, (fun _ h => by cases h), by show idx ≤ idx + 1; omega,
        by show idx + 1 ≤ toks.length; omega,
        .inr (by show bal (toks.take (idx + 1)) + 1 ≤ bal (toks.take idx); omega), ?_, ?_⟩
      · intro j nm hj1 hj2 hj
        have : j = idx := by
          have : j < idx + 1 := hj2
          omega
        subst this
        rw [htk] at hj
        cases hj
      · intro tk h1 h2
        rw [htk] at h1
        cases h1
        exact absurd rfl h2

theorem walk_total : ∀ fuel, MakeT I t W fuel ∧ LoopT I t W fuel ∧ UnT I t W fuel := by
  intro fuel
  induction fuel with
  | zero =>
    refine ⟨?_, ?_, ?_⟩
    · intro toks un _ _ h
      omega
    · intro toks idx nodes ops _ _ h
      omega
    · intro toks idx o htok hidx h
      have : idx < toks.length := (List.getElem?_eq_some_iff.1 hidx).1
      omega
  | succ fuel ih =>
    obtain ⟨h1, h2, h3⟩ := ih
    exact ⟨make_step' I t W fuel h2, loop_step' I t W fuel h1 h2 h3, un_step' I t W fuel h1⟩

end

section
variable {K : Type}

theorem checkPre_tokOK (t : Table) (toks : List (Tok K)) (h : checkPre t toks = .ok ()) :
    TokOK (findVars toks) toks :=
  ⟨(checkPre_facts t toks h).1, checkPre_noLastOp t toks h, fun nm hm => (mem_findVars toks nm).2 hm⟩

/-- `Deep.parse` never panics; an accepted expression satisfies the generic invariant relative to
    its own variable list -/
theorem deep_parse_post (I : Interp K) (t : Table) (lm : Str → Option Nat) (text : Str) :
    Post (Deep.parse I t lm text) (fun d => GenEx (QS d.vars) (NV d.vars) d) := by
  unfold Deep.parse
  have ht := tokenize_np I t lm text
  cases htoks : tokenize I t lm text with
  | error e => rw [htoks] at ht; exact ht
  | ok toks =>
    dsimp only
    have hc := checkPre_np t toks
    cases hpre : checkPre t toks with
    | error e => rw [hpre] at hc; exact hc
    | ok u =>
      cases u
      dsimp only
      obtain ⟨hne, hstart, hprefix⟩ := checkPre_facts t toks hpre
      have hm := (walk_total I t (findVars toks) (2 * toks.length + 4)).1 toks []
        (checkPre_tokOK t toks hpre) (.inr hstart) (by omega)
      cases hmake : deepMake I t (findVars toks) (2 * toks.length + 4) toks [] with
      | error e => rw [hmake] at hm; exact hm
      | ok r =>
        obtain ⟨d, k⟩ := r
        rw [hmake] at hm
        obtain ⟨hpe, hle, hb, hcov⟩ := hm
        dsimp only at hpe hle hb hcov ⊢
        have hk : k = toks.length := by
          rcases hb with hb | hb
          · exact hb
          · have := hprefix k
            omega
        have hVs := findVars_strict toks
        have hds : QS (findVars toks) d.vars := genEx_vars d hpe
        have hv : d.vars = findVars toks := by
          apply ParseAssembly.strict_ext _ _ hds.1 hVs
          intro x
          refine ⟨hds.2 x, ?_⟩
          intro hx
          rw [mem_findVars, List.mem_iff_getElem?] at hx
          obtain ⟨j, hj⟩ := hx
          have hjl : j < toks.length := (List.getElem?_eq_some_iff.1 hj).1
          exact hcov j x (by omega) hj
        show GenEx (QS d.vars) (NV d.vars) d
        rw [hv]
        exact hpe

end
end Exmex.Total

namespace Exmex.Total
open Exmex.ReachLemmas Exmex.CalcLemmas Exmex.DeepCompile

/-- an expression satisfying the generic invariant relative to its own variable list evaluates
    without failure on every slice that is long enough -/
theorem deep_evalRelaxed_ok {K : Type} (I : Interp K) (d : DeepEx K)
    (hg : GenEx (QS d.vars) (NV d.vars) d) (vals : List K) (hl : d.vars.length ≤ vals.length) :
    ∃ v, d.evalRelaxed I vals = .ok v := by
  apply eval_total I vals d
  refine genEx_shape (n := vals.length) ?_ ?_ d hg
  · intro vs h
    exact Nat.le_trans (ToDeep.nodup_subset_length vs d.vars (Diff.nodup_of_strict _ h.1) h.2) hl
  · intro i nm h
    exact Nat.lt_of_lt_of_le (List.getElem?_eq_some_iff.1 h).1 hl

end Exmex.Total
