/-
  C05, engine layer: `partialOuter` (product of the outer derivatives along the unary chain) and the
  mutual induction over `partialDeepex` / `partialInner` / `valDers`.
-/
import Exmex.Proofs.DiffPairs
namespace Exmex.Diff
open Exmex.C10 Exmex.C05 Exmex.Shortcut Exmex.CalcLemmas Exmex.DeepCompile Exmex.CompileSound

section
variable {K : Type}

theorem folded_un_change (nodes : List (DeepNode K)) (ops : List DBin) (us us' : List Nat)
    (vars : List Str) (h : Folded (DeepEx.mk nodes ops us vars)) (hsub : us = [] → us' = []) :
    Folded (DeepEx.mk nodes ops us' vars) := by
  rw [Folded] at h ⊢
  exact ⟨fun a ha => hsub (h.1 a ha), h.2⟩

end

section
variable {K : Type} [DecidableEq K] (I : Interp K) (C : CalcOps K) (t : Table) (A : Arith I C t)
  (L : Laws (dArith I C t)) (hnames : (t.map (·.repr)).Nodup)
  (hfn : ∀ n ∈ ["-", "ln", "sqrt", "sin", "cos", "sinh", "cosh", "tanh"],
      ∃ u, findUnaryOp t (String.toList n) = .ok u)
  (T : List Str) (ρ : Str → K)
include A L hnames hfn

/-- the loop of `partial_derivative_outer`: with `w0` the dual value of the binary part of the
    group, the accumulated product `c'` satisfies `w0' · c' = (chain applied to w0)' · c` -/
theorem go_sound (nodes : List (DeepNode K)) (ops : List DBin) (us : List Nat) (vars : List Str)
    (hn : Named T (DeepEx.mk nodes ops us vars)) (hnd : vars.Nodup) (hsub : ∀ x ∈ vars, x ∈ T)
    (hA : (DeepEx.mk nodes ops us vars).Assoc I) (hf : Folded (DeepEx.mk nodes ops us vars))
    (hus : ∀ u ∈ us, tblHasUnary t u = true)
    (hur : ∀ u ∈ us, String.ofList (reprOf t u) ∈ unRuleNames) (w0 : DVal K)
    (he : (DeepEx.mk nodes ops [] vars).evalRelaxed I (T.map ρ) = .ok w0.val) :
    ∀ (rest : List Nat) (idx : Nat) (acc : DeepEx K) (c : K) (r : DeepEx K),
      us.drop idx = rest → Rep I T ρ acc c →
      partialOuter.go I C t (DeepEx.mk nodes ops us vars) rest idx acc = .ok r →
      ∃ c', Rep I T ρ r c' ∧
        (dArith I C t).mul w0.der c' = (dArith I C t).mul (applyUn (dualInterp I C t) rest w0).der c := by
  intro rest
  induction rest with
  | nil =>
    intro idx acc c r _ hacc h
    rw [partialOuter.go] at h
    cases h
    exact ⟨c, hacc, rfl⟩
  | cons u rest' ih =>
    intro idx acc c r hdrop hacc h
    have hd' : us.drop (idx + 1) = rest' := by rw [← List.tail_drop, hdrop]; rfl
    have hsubl : ∀ v ∈ u :: rest', v ∈ us := fun v hv =>
      List.mem_of_mem_drop (by rw [hdrop]; exact hv)
    have hu := hus u (hsubl u List.mem_cons_self)
    have hname := hur u (hsubl u List.mem_cons_self)
    have hus' : ∀ v ∈ rest', tblHasUnary t v = true := fun v hv => hus v (hsubl v (List.mem_cons_of_mem _ hv))
    rw [partialOuter.go] at h
    split at h
    · cases h
    split at h
    · cases h
    rename_i factor hfac
    split at h
    · cases h
    rename_i acc' hacc'
    have hdu : dropUnaries (DeepEx.mk nodes ops us vars) idx = DeepEx.mk nodes ops (u :: rest') vars := by
      unfold dropUnaries
      simp only [DeepEx.nodes, DeepEx.ops, DeepEx.un, DeepEx.vars]
      rw [hdrop]
    rw [hdu] at hfac
    have hne : us = [] → False := by
      intro e0
      rw [e0] at hdrop
      simp at hdrop
    have hrf := rep_un_change I T ρ nodes ops us (u :: rest') vars T w0.val hn hnd hsub hA
      (folded_un_change nodes ops us _ vars hf (fun e0 => absurd e0 hne)) he
    have hrx := rep_un_change I T ρ nodes ops us rest' vars T w0.val hn hnd hsub hA
      (folded_un_change nodes ops us _ vars hf (fun e0 => absurd e0 hne)) he
    have hval := applyUn_val I C t hnames rest' hus' w0
    obtain ⟨od, hod⟩ := outerDeriv_some (dArith I C t) _ hname (applyUn (dualInterp I C t) rest' w0).val
    have hod' := hod
    rw [hval] at hod'
    have hfac' := unRule_sound I C t A L T ρ hfn _ hname (DeepEx.mk nodes ops (u :: rest') vars)
      (DeepEx.mk nodes ops rest' vars) factor u (applyUn I rest' w0.val) od rfl hrf hrx
      (fn_of_unary I C t hnames u hu _) hfac hod'
    have hacc2 := (gmul I C t A L T ρ _ _ _ _ _ hfac' hacc hacc').1.rep
    obtain ⟨c', hr, hc⟩ := ih (idx + 1) acc' _ r hd' hacc2 h
    refine ⟨c', hr, ?_⟩
    rw [hc]
    show _ = (dArith I C t).mul ((dualInterp I C t).un u (applyUn (dualInterp I C t) rest' w0)).der c
    rw [dual_un_eq I C t hnames u hu _ od hod]
    show (dArith I C t).mul _ ((dArith I C t).mul od c) = (dArith I C t).mul ((dArith I C t).mul od _) c
    rw [← L.mul_assoc, L.mul_comm _ od]

end

/-! ### the hypotheses on (sub-)expressions -/

section
variable {K : Type} (I : Interp K) (t : Table) (T : List Str)

structure Hyp (e : DeepEx K) : Prop where
  named : Named T e
  scp : Scoped t T e
  ruled : Ruled t e
  assoc : e.Assoc I
  folded : Folded e

structure HypN (nd : DeepNode K) : Prop where
  named : NamedNode T nd
  scp : ScopedNode t T nd
  ruled : RuledNode t nd
  assoc : nodeAssoc I nd
  folded : FoldedNode nd

structure HypL (l : List (DeepNode K)) : Prop where
  named : namedList T l
  scp : scopedList t T l
  ruled : ruledList t l
  assoc : assocList I l
  folded : foldedList l

theorem Hyp.nodes {nodes : List (DeepNode K)} {ops : List DBin} {us : List Nat} {vars : List Str}
    (h : Hyp I t T (DeepEx.mk nodes ops us vars)) : HypL I t T nodes := by
  obtain ⟨h1, h2, h3, h4, h5⟩ := h
  rw [Named] at h1
  rw [Scoped] at h2
  rw [Ruled] at h3
  rw [DeepEx.Assoc] at h4
  rw [Folded] at h5
  exact ⟨h1.2.2, h2.2.2.2, h3.2.2, h4.2, h5.2⟩

theorem HypL.cons {nd : DeepNode K} {rest : List (DeepNode K)} (h : HypL I t T (nd :: rest)) :
    HypN I t T nd ∧ HypL I t T rest := by
  obtain ⟨h1, h2, h3, h4, h5⟩ := h
  rw [namedList] at h1
  rw [scopedList_cons] at h2
  rw [ruledList_cons] at h3
  rw [assocList_cons] at h4
  rw [foldedList] at h5
  exact ⟨⟨h1.1, h2.1, h3.1, h4.1, h5.1⟩, ⟨h1.2, h2.2, h3.2, h4.2, h5.2⟩⟩

theorem HypN.expr {e : DeepEx K} (h : HypN I t T (.expr e)) : Hyp I t T e := by
  obtain ⟨h1, h2, h3, h4, h5⟩ := h
  rw [NamedNode] at h1
  rw [ScopedNode] at h2
  rw [RuledNode] at h3
  rw [nodeAssoc] at h4
  rw [FoldedNode] at h5
  exact ⟨h1, h2, h3, h4, h5.2⟩

theorem hyp_lit (a : K) : Hyp I t T (DeepEx.mk [.num a] [] [] []) := by
  refine ⟨?_, ?_, ?_, ?_, folded_lit_group a [] []⟩
  · simp [Named, namedList, NamedNode]
  · simp [Scoped, scopedList]
  · simp [Ruled, ruledList]
  · simp [DeepEx.Assoc, assocList, DeepAssoc]

theorem hyp_var (j : Nat) (nm : Str) (hj : T[j]? = some nm) :
    Hyp I t T (DeepEx.mk [.var j nm] [] [] [nm]) := by
  have hjl : j < T.length := (List.getElem?_eq_some_iff.1 hj).1
  refine ⟨?_, ?_, ?_, ?_, ?_⟩
  · simp only [Named, namedList, NamedNode, List.length_cons, List.length_nil]
    exact ⟨trivial, by omega, hj, trivial⟩
  · have hm : nm ∈ T := List.mem_of_getElem? hj
    simp [Scoped, scopedList, hm]
  · simp [Ruled, ruledList]
  · simp [DeepEx.Assoc, assocList, DeepAssoc]
  · simp [Folded, foldedList, FoldedNode]

theorem relL_cons {α β : Type} (R : α → β → Prop) (a : α) (b : β) (l1 : List α) (l2 : List β)
    (hab : R a b) (h : RelL R l1 l2) : RelL R (a :: l1) (b :: l2) := by
  refine ⟨by simp [h.1], ?_⟩
  intro k a' b' h1 h2
  cases k with
  | zero =>
    simp only [List.getElem?_cons_zero] at h1 h2
    cases h1; cases h2; exact hab
  | succ k =>
    simp only [List.getElem?_cons_succ] at h1 h2
    exact h.2 k a' b' h1 h2

end

/-! ### the three statements proved by induction on the fuel -/

section
variable {K : Type} [DecidableEq K] (I : Interp K) (C : CalcOps K) (t : Table) (T : List Str)
  (ρ : Str → K) (x : Str) (i : Nat)

def PDs (fuel : Nat) : Prop :=
  ∀ (e e' : DeepEx K), Hyp I t T e → partialDeepex I C t i fuel e = .ok e' → ∀ w,
    (e.lift C).evalRelaxed (dualInterp I C t) (T.map (seed C ρ x)) = .ok w → w.ok = true →
    RepS I T ρ e' w.der ∧ ∀ y ∈ e.vars, y ∈ e'.vars

def PIs (fuel : Nat) : Prop :=
  ∀ (nodes : List (DeepNode K)) (ops : List DBin) (us : List Nat) (vars : List Str) (e' : DeepEx K),
    Hyp I t T (DeepEx.mk nodes ops us vars) →
    partialInner I C t i fuel (DeepEx.mk nodes ops us vars) = .ok e' → ∀ w0,
    ((DeepEx.mk nodes ops [] vars).lift C).evalRelaxed (dualInterp I C t) (T.map (seed C ρ x)) = .ok w0 →
    w0.ok = true → RepS I T ρ e' w0.der ∧ ∀ y ∈ vars, y ∈ e'.vars

def VDs (fuel : Nat) : Prop :=
  ∀ (nodes : List (DeepNode K)) (vds : List (ValDer K)), HypL I t T nodes →
    valDers I C t i fuel nodes = .ok vds → ∀ ws,
    evalNodeList (dualInterp I C t) (T.map (seed C ρ x)) (liftList C nodes) = .ok ws →
    RelL (PairRep I T ρ) vds ws

end

section
variable {K : Type} [DecidableEq K] (I : Interp K) (C : CalcOps K) (t : Table) (A : Arith I C t)
  (L : Laws (dArith I C t)) (hnames : (t.map (·.repr)).Nodup)
  (hfn : ∀ n ∈ ["-", "ln", "sqrt", "sin", "cos", "sinh", "cosh", "tanh"],
      ∃ u, findUnaryOp t (String.toList n) = .ok u)
  (T : List Str) (ρ : Str → K) (x : Str) (i : Nat) (hT : T.Nodup) (hi : T[i]? = some x)
include A L hnames hfn

omit hnames hfn [DecidableEq K] in
/-- the end of `partial_derivative_inner`: re-index the result together with the group -/
theorem inner_tail (res e r b' : DeepEx K) (vr ve : K) (hr : Rep I T ρ res vr) (he : Rep I T ρ e ve)
    (hu : varNamesUnion res e = .ok (r, b')) : RepS I T ρ r vr ∧ ∀ y ∈ e.vars, y ∈ r.vars := by
  have _ := L
  have U := gunion I T ρ C A.eqv_sound res e r b' vr ve hr he hu
  obtain ⟨h1, h2⟩ := union_left I C T ρ res e r b' vr ve U
  refine ⟨h1, ?_⟩
  intro y hy
  rw [h2, mem_unionVars]
  exact .inr hy

/-- facts about the group without its unary chain -/
theorem hyp_strip (nodes : List (DeepNode K)) (ops : List DBin) (us : List Nat) (vars : List Str)
    (H : Hyp I t T (DeepEx.mk nodes ops us vars)) (hb : BinT t (DeepEx.mk nodes ops us vars))
    (w0 : DVal K)
    (hw0 : ((DeepEx.mk nodes ops [] vars).lift C).evalRelaxed (dualInterp I C t)
      (T.map (seed C ρ x)) = .ok w0) :
    (DeepEx.mk nodes ops [] vars).evalRelaxed I (T.map ρ) = .ok w0.val ∧
      Rep I T ρ (DeepEx.mk nodes ops us vars) (applyUn I us w0.val) := by
  have _ := L
  have _ := hfn
  obtain ⟨hn, hs, -, hA, hf⟩ := H
  have hn0 : Named T (DeepEx.mk nodes ops [] vars) := by rw [Named] at hn ⊢; exact hn
  rw [Scoped] at hs
  have hs0 : Scoped t T (DeepEx.mk nodes ops [] vars) := by
    rw [Scoped]; exact ⟨hs.1, hs.2.1, (fun _ h => by cases h), hs.2.2.2⟩
  have hv0 := lift_val I C t A hnames T ρ x _ hn0 hs0 (binT_mk t nodes ops us [] vars vars hb) w0 hw0
  exact ⟨hv0, rep_un_change I T ρ nodes ops us us vars T w0.val hn hs.1 hs.2.1 hA hf hv0⟩

theorem pd_step (fuel : Nat) (hPI : PIs I C t T ρ x i fuel) : PDs I C t T ρ x i (fuel + 1) := by
  intro e e' H h w hw hok
  obtain ⟨nodes, ops, us, vars⟩ := e
  have hbin := partialDeepex_binT I C t T i _ e' (fuel + 1) H.named h
  rw [partialDeepex] at h
  split at h
  · cases h
  rename_i inner hin
  split at h
  · cases h
  rename_i outer hout
  rw [lift_mk] at hw
  obtain ⟨w0, hw0, hwe⟩ := eval_un_split (dualInterp I C t) _ (liftList C nodes) ops us vars w hw
  have hsc := H.scp
  have hru := H.ruled
  rw [Scoped] at hsc
  rw [Ruled] at hru
  have hok0 : w0.ok = true := by
    rw [hwe, applyUn_ok I C t hnames us hsc.2.2.1 hru.2.1] at hok
    exact hok
  have hw0' : ((DeepEx.mk nodes ops [] vars).lift C).evalRelaxed (dualInterp I C t)
      (T.map (seed C ρ x)) = .ok w0 := by rw [lift_mk]; exact hw0
  obtain ⟨rin, hvin⟩ := hPI nodes ops us vars inner H hin w0 hw0' hok0
  obtain ⟨hv0, -⟩ := hyp_strip I C t A L hnames hfn T ρ x nodes ops us vars H hbin w0 hw0'
  unfold partialOuter at hout
  rw [fromNum_eq] at hout
  simp only [DeepEx.un] at hout
  obtain ⟨c', hrout, hc⟩ := go_sound I C t A L hnames hfn T ρ nodes ops us vars H.named hsc.1 hsc.2.1
    H.assoc H.folded hsc.2.2.1 hru.2.1 w0 hv0 us 0 _ C.one outer (by simp)
    (rep_litc I T ρ C.one) hout
  obtain ⟨rr, hrv⟩ := gmul I C t A L T ρ _ _ _ _ _ rin.rep hrout h
  refine ⟨rr.congr I T ρ ?_, ?_⟩
  · rw [hc, hwe]
    exact L.mul_one _
  · intro y hy
    rw [hrv, mem_unionVars]
    exact .inl (hvin y hy)

omit A L hnames hfn in
/-- a single-node group without unary chain evaluates (over the dual numbers) to its node -/
theorem lift_single_eval (nd : DeepNode K) (vars : List Str) (hv : vars.length ≤ T.length) :
    ((DeepEx.mk [nd] [] [] vars).lift C).evalRelaxed (dualInterp I C t) (T.map (seed C ρ x)) =
      (nd.lift C).evalNode (dualInterp I C t) (T.map (seed C ρ x)) := by
  rw [lift_mk, liftList, liftList]
  exact eval_single (dualInterp I C t) _ (nd.lift C) [] vars (by rw [List.length_map]; exact hv) rfl

/-- an original sub-expression represents the value component of its dual evaluation -/
theorem rep_of_hyp (e : DeepEx K) (H : Hyp I t T e) (hb : BinT t e) (w : DVal K)
    (hw : (e.lift C).evalRelaxed (dualInterp I C t) (T.map (seed C ρ x)) = .ok w) :
    Rep I T ρ e w.val := by
  have _ := L
  have _ := hfn
  have hv := lift_val I C t A hnames T ρ x e H.named H.scp hb w hw
  obtain ⟨nodes, ops, us, vars⟩ := e
  have hs := H.scp
  rw [Scoped] at hs
  exact ⟨T, H.named, hs.1, hs.2.1, H.assoc, H.folded, hv⟩

theorem vd_tail (fuel : Nat) (hPD : PDs I C t T ρ x i fuel) (hVD : VDs I C t T ρ x i fuel)
    (val der : DeepEx K) (ns : List (DeepNode K)) (rest : List (ValDer K))
    (Hval : Hyp I t T val) (Hns : HypL I t T ns) (wv : DVal K) (wrest : List (DVal K))
    (hwv : (val.lift C).evalRelaxed (dualInterp I C t) (T.map (seed C ρ x)) = .ok wv)
    (h2 : evalNodeList (dualInterp I C t) (T.map (seed C ρ x)) (liftList C ns) = .ok wrest)
    (hder : partialDeepex I C t i fuel val = .ok der) (hrest : valDers I C t i fuel ns = .ok rest) :
    RelL (PairRep I T ρ) ({ val := val, der := der } :: rest) (wv :: wrest) := by
  refine relL_cons _ _ _ _ _ ?_ (hVD ns rest Hns hrest wrest h2)
  intro hok
  exact ⟨rep_of_hyp I C t A L hnames hfn T ρ x val Hval
      (partialDeepex_binT I C t T i val der fuel Hval.named hder) wv hwv,
    (hPD val der Hval hder wv hwv hok).1.rep⟩

theorem vd_step (fuel : Nat) (hPD : PDs I C t T ρ x i fuel) (hVD : VDs I C t T ρ x i fuel) :
    VDs I C t T ρ x i (fuel + 1) := by
  intro nodes vds H h ws hws
  cases nodes with
  | nil =>
    simp only [valDers] at h
    cases h
    rw [liftList, evalNodeList] at hws
    cases hws
    exact ⟨rfl, fun k a b h1 => by simp at h1⟩
  | cons n ns =>
    obtain ⟨Hn, Hns⟩ := H.cons
    rw [liftList, evalNodeList] at hws
    cases h1 : (n.lift C).evalNode (dualInterp I C t) (T.map (seed C ρ x)) with
    | error e => rw [h1] at hws; cases hws
    | ok wv =>
      cases h2 : evalNodeList (dualInterp I C t) (T.map (seed C ρ x)) (liftList C ns) with
      | error e => rw [h1, h2] at hws; cases hws
      | ok wrest =>
        rw [h1, h2] at hws
        cases hws
        cases n with
        | num a =>
          have hnew : DeepEx.new I [DeepNode.num a] [] [] = .ok (DeepEx.mk [.num a] [] [] []) := rfl
          simp only [valDers, hnew] at h
          have hwv : ((DeepEx.mk [DeepNode.num a] [] [] []).lift C).evalRelaxed (dualInterp I C t)
              (T.map (seed C ρ x)) = .ok wv := by
            rw [lift_single_eval I C t T ρ x _ [] (Nat.zero_le _)]; exact h1
          split at h
          · rename_i der rest hder hrest
            cases h
            exact vd_tail I C t A L hnames hfn T ρ x i fuel hPD hVD _ der ns rest (hyp_lit I t T a) Hns
              wv wrest hwv h2 hder hrest
          · cases h
          · cases h
        | var j nm =>
          have hnew : DeepEx.new I [DeepNode.var j nm] [] [] =
              .ok (DeepEx.mk [.var j nm] [] [] [nm]) := rfl
          simp only [valDers, hnew] at h
          have hj : T[j]? = some nm := Hn.named
          have hjl : j < T.length := (List.getElem?_eq_some_iff.1 hj).1
          have hwv : ((DeepEx.mk [DeepNode.var j nm] [] [] [nm]).lift C).evalRelaxed (dualInterp I C t)
              (T.map (seed C ρ x)) = .ok wv := by
            rw [lift_single_eval I C t T ρ x _ [nm] (by simp only [List.length_cons, List.length_nil]; omega)]
            exact h1
          split at h
          · rename_i der rest hder hrest
            cases h
            exact vd_tail I C t A L hnames hfn T ρ x i fuel hPD hVD _ der ns rest (hyp_var I t T j nm hj) Hns
              wv wrest hwv h2 hder hrest
          · cases h
          · cases h
        | expr sub =>
          simp only [valDers] at h
          have hwv : (sub.lift C).evalRelaxed (dualInterp I C t) (T.map (seed C ρ x)) = .ok wv := by
            rw [DeepNode.lift, DeepNode.evalNode] at h1; exact h1
          split at h
          · rename_i der rest hder hrest
            cases h
            exact vd_tail I C t A L hnames hfn T ρ x i fuel hPD hVD _ der ns rest Hn.expr Hns
              wv wrest hwv h2 hder hrest
          · cases h
          · cases h

include hT hi in
theorem pi_step (hbop : BopAssoc I t) (fuel : Nat) (hPD : PDs I C t T ρ x i fuel)
    (hVD : VDs I C t T ρ x i fuel) : PIs I C t T ρ x i (fuel + 1) := by
  intro nodes ops us vars e' H h w0 hw0 hok0
  have hbin := partialInner_binT I C t T i nodes ops us vars e' (fuel + 1) H.named h
  obtain ⟨hv0, hrep⟩ := hyp_strip I C t A L hnames hfn T ρ x nodes ops us vars H hbin w0 hw0
  have hnamed := H.named
  rw [Named] at hnamed
  have hlen := hnamed.1
  have HL := H.nodes
  have hru := H.ruled
  rw [Ruled] at hru
  obtain ⟨uln, hln⟩ := hfn "ln" (by simp)
  match nodes, hlen, HL, hnamed with
  | [], hlen, _, _ => simp at hlen
  | [single], hlen, HL, hnamed =>
    have hops : ops = [] := by
      simp only [List.length_cons, List.length_nil] at hlen
      exact List.length_eq_zero_iff.1 (by omega)
    subst hops
    obtain ⟨Hn, -⟩ := HL.cons
    rw [lift_single_eval I C t T ρ x single vars hnamed.2.1] at hw0
    cases single with
    | num a =>
      simp only [partialInner, DeepEx.nodes, fromNum_eq] at h
      rw [DeepNode.lift, DeepNode.evalNode] at hw0
      cases hw0
      split at h
      · cases h
      rename_i res' b' hu
      cases h
      exact inner_tail I C t A L T ρ _ _ _ b' _ _ (rep_litc I T ρ C.zero) hrep hu
    | var j nm =>
      have hj : T[j]? = some nm := Hn.named
      rw [DeepNode.lift, DeepNode.evalNode, List.getElem?_map, hj] at hw0
      simp only [Option.map] at hw0
      cases hw0
      simp only [partialInner, DeepEx.nodes] at h
      by_cases hji : (j == i) = true
      · rw [if_pos hji, fromNum_eq] at h
        simp only [] at h
        split at h
        · cases h
        rename_i res' b' hu
        cases h
        have hnx : nm = x := by
          have : j = i := by simpa using hji
          subst this
          rw [hj] at hi
          exact Option.some.inj hi
        have hder : (seed C ρ x nm).der = C.one := by
          show (if nm = x then C.one else C.zero) = C.one
          rw [if_pos hnx]
        rw [hder]
        exact inner_tail I C t A L T ρ _ _ _ b' _ _ (rep_litc I T ρ C.one) hrep hu
      · rw [if_neg hji, fromNum_eq] at h
        simp only [] at h
        split at h
        · cases h
        rename_i res' b' hu
        cases h
        have hnx : nm ≠ x := by
          intro e0
          subst e0
          apply hji
          obtain ⟨hjl, hje⟩ := List.getElem?_eq_some_iff.1 hj
          obtain ⟨hil, hie⟩ := List.getElem?_eq_some_iff.1 hi
          have := (List.pairwise_iff_getElem.1 hT)
          rcases Nat.lt_trichotomy j i with hlt | heq | hgt
          · exact absurd (hje.trans hie.symm) (this j i hjl hil hlt)
          · simp [heq]
          · exact absurd (hie.trans hje.symm) (this i j hil hjl hgt)
        have hder : (seed C ρ x nm).der = C.zero := by
          show (if nm = x then C.one else C.zero) = C.zero
          rw [if_neg hnx]
        rw [hder]
        exact inner_tail I C t A L T ρ _ _ _ b' _ _ (rep_litc I T ρ C.zero) hrep hu
    | expr sub =>
      rw [DeepNode.lift, DeepNode.evalNode] at hw0
      simp only [partialInner, DeepEx.nodes] at h
      split at h
      · cases h
      rename_i res hres
      split at h
      · cases h
      rename_i res' b' hu
      cases h
      obtain ⟨rres, -⟩ := hPD sub res Hn.expr hres w0 hw0 hok0
      exact inner_tail I C t A L T ρ _ _ _ b' _ _ rres.rep hrep hu
  | n1 :: n2 :: rest, hlen, HL, hnamed =>
    simp only [partialInner, DeepEx.nodes, DeepEx.ops] at h
    split at h
    · cases h
    rename_i vds hvds
    split at h
    · cases h
    rename_i final hfinal
    split at h
    · cases h
    rename_i vd vtail
    split at h
    · cases h
    rename_i res' b' hu
    cases h
    rw [lift_mk] at hw0
    obtain ⟨ws, v, -, hnl, hwl, hred, hwv⟩ := eval_group_inv (dualInterp I C t) _
      (liftList C (n1 :: n2 :: rest)) ops [] vars w0 (by rw [liftList_length]; exact hlen) hw0
    have hv : w0 = v := hwv
    subst hv
    rw [prio_lift] at hred
    rw [liftList_length] at hwl
    have hrel := hVD _ vds HL hvds ws hnl
    have hπ : ValidOrder (prioIdxDeep ops (n1 :: n2 :: rest)) ops.length := orderByKey_valid _ _
    have hpl : vds.length = ws.length := hrel.1
    have hwo : ws.length - 1 = ops.length := by rw [hwl, hlen]; omega
    obtain ⟨ws', rem', hloop, hrel'⟩ := reducePairs_sound I C t A L T ρ hbop uln hln ops hru.1
      (prioIdxDeep ops (n1 :: n2 :: rest)) (prioIdxDeep ops (n1 :: n2 :: rest)) vds ws
      (List.range (ws.length - 1)) _ (List.pairwise_lt_range) hπ.nodup
      (fun b hb => List.mem_range.2 (by rw [hwo]; exact hπ.lt b hb))
      (by
        symm
        rw [List.map_congr_left (g := id)]
        · simp
        · intro b hb
          exact idxOf_range (by rw [hwo]; exact hπ.lt b hb))
      (by rw [List.length_range, hpl]; omega) hrel hfinal
    unfold reduceByOrder at hred
    rw [hloop] at hred
    simp only [] at hred
    have h0 : ws'[0]? = some w0 := by
      cases ws' with
      | nil => simp at hred
      | cons a as => simpa using hred
    have hpr := hrel'.2 0 vd w0 (by simp) h0 hok0
    exact inner_tail I C t A L T ρ _ _ _ b' _ _ hpr.2 hrep hu

/-- **the engine**: all three statements, for every fuel -/
theorem engine (hbop : BopAssoc I t) (hT : T.Nodup) (hi : T[i]? = some x) : ∀ fuel,
    PDs I C t T ρ x i fuel ∧ PIs I C t T ρ x i fuel ∧ VDs I C t T ρ x i fuel := by
  intro fuel
  induction fuel with
  | zero =>
    refine ⟨?_, ?_, ?_⟩
    · intro e e' _ h
      rw [partialDeepex] at h
      cases h
    · intro nodes ops us vars e' _ h
      rw [partialInner] at h
      cases h
    · intro nodes vds _ h
      rw [valDers] at h
      cases h
  | succ fuel ih =>
    obtain ⟨h1, h2, h3⟩ := ih
    exact ⟨pd_step I C t A L hnames hfn T ρ x i fuel h2,
      pi_step I C t A L hnames hfn T ρ x i hT hi hbop fuel h1 h3,
      vd_step I C t A L hnames hfn T ρ x i fuel h1 h3⟩

end

end Exmex.Diff
