/-
  L4: the "+5" preference for a commutative operator between two literals is invisible when
  flagged operators are associative and unary chains sit on last-applied operators.
-/
import Exmex.Model.Flat
import Exmex.Spec.Split
import Exmex.Proofs.FlattenDefs
import Exmex.Proofs.BumpAux
namespace Exmex
open BumpAux

/-- what the bump rule needs: flagged operators are associative (same table index = same function),
    and unary chains only sit on operators that are right-most lowest in their group -/
structure BumpOK {α : Type} (I : Interp α) (ops : List FlatOp) : Prop where
  assoc : ∀ o ∈ ops, o.comm = true →
    ∀ x y z, I.bin o.idx (I.bin o.idx x y) z = I.bin o.idx x (I.bin o.idx y z)
  unaryOK : UnaryOK ops

/-- the nearest element to the left of position `k` satisfying `P` -/
theorem find?_reverse_take {β : Type} (ops : List β) (P : β → Bool) (j : Nat) (hj : j < ops.length)
    (hPj : P ops[j] = true) :
    ∀ k, j < k → (hk : k ≤ ops.length) →
      (∀ m, j < m → (hm : m < k) → P (ops[m]'(by omega)) = false) →
      (ops.take k).reverse.find? P = some ops[j] := by
  intro k
  induction k with
  | zero => intro h; omega
  | succ k ih =>
    intro hjk hk hnot
    rw [List.take_succ_eq_append_getElem (by omega), List.reverse_append]
    simp only [List.reverse_cons, List.reverse_nil, List.nil_append, List.cons_append]
    rcases Nat.eq_or_lt_of_le (Nat.le_of_lt_succ hjk) with heq | hlt
    · subst heq
      rw [List.find?_cons_of_pos hPj]
    · rw [List.find?_cons_of_neg (by simp [hnot k hlt (by omega)])]
      exact ih hlt (by omega) (fun m m1 m2 => hnot m m1 (by omega))

theorem getD_eq_getElem' (ops : List FlatOp) (k : Nat) (hk : k < ops.length) :
    ops.getD k default = ops[k] := by
  simp [List.getD_eq_getElem?_getD, hk]

/-- what `bumped` says about the operator -/
theorem bumped_spec {α : Type} {ops : List FlatOp} {nodes : List (FlatNode α)} {k : Nat}
    (hk : k < ops.length) (h : bumped ops nodes k = true) :
    ops[k].comm = true ∧ ops[k].un = [] ∧ leftCompatible (ops.take k).reverse ops[k] = true := by
  unfold bumped at h
  rw [List.getElem?_eq_getElem hk] at h
  simp only [Bool.and_eq_true, List.isEmpty_iff] at h
  exact ⟨h.1.1.2, h.1.2, h.2⟩

theorem sortKey_eq {α : Type} (ops : List FlatOp) (nodes : List (FlatNode α)) (k : Nat)
    (hk : k < ops.length) :
    sortKey ops nodes k =
      (ops.getD k default).prio * 10 + (if bumped ops nodes k = true then 5 else 0) := by
  unfold sortKey
  rw [List.getElem?_eq_getElem hk, getD_eq_getElem' ops k hk]

theorem bumpAbs {α : Type} (I : Interp α) (ops : List FlatOp) (nodes : List (FlatNode α))
    (h : BumpOK I ops) :
    BumpAbs (flatApplyT I ops) ops.length (fun k => (ops.getD k default).prio)
      (bumped ops nodes) (fun k => (ops.getD k default).idx) I.bin where
  act := by
    intro k hk hb x y
    obtain ⟨-, hun, -⟩ := bumped_spec hk hb
    simp only [flatApplyT, List.getElem?_eq_getElem hk, getD_eq_getElem' ops k hk, hun, applyUn,
      List.foldr_nil]
  assoc := by
    intro k hk hb
    obtain ⟨hc, -, -⟩ := bumped_spec hk hb
    rw [getD_eq_getElem' ops k hk]
    exact h.assoc ops[k] (List.getElem_mem hk) hc
  left := by
    intro j k hjk hk hb hp hbetween
    have hj : j < ops.length := by omega
    obtain ⟨-, -, hlc⟩ := bumped_spec hk hb
    simp only [getD_eq_getElem' ops k hk, getD_eq_getElem' ops j hj] at hp ⊢
    have hfind : (ops.take k).reverse.find? (fun l => decide (l.prio ≤ ops[k].prio)) =
        some ops[j] := by
      apply find?_reverse_take ops _ j hj (by simp; omega) k hjk (by omega)
      intro m m1 m2
      have := hbetween m m1 m2
      rw [getD_eq_getElem' ops k hk, getD_eq_getElem' ops m (by omega)] at this
      simp; omega
    unfold leftCompatible at hlc
    rw [hfind] at hlc
    simp only [Bool.or_eq_true, decide_eq_true_eq, beq_iff_eq] at hlc
    have hidx : ops[j].idx = ops[k].idx := by
      rcases hlc with h1 | h1
      · omega
      · exact h1
    refine ⟨hidx, ?_⟩
    intro x y
    have hun : ops[j].un = [] := by
      apply Classical.byContradiction
      intro hne
      obtain ⟨m, m1, m2, m3⟩ := h.unaryOK j k hjk hk hne hp.symm
      have := hbetween m m1 m2
      rw [getD_eq_getElem' ops k hk, getD_eq_getElem' ops m (by omega)] at this
      omega
    simp only [flatApplyT, List.getElem?_eq_getElem hj, hun, applyUn, List.foldr_nil]

/-- **L4.** Splitting by the real sort key (priority·10, +5 for a bumped operator) gives the same
    value as splitting by the priority alone. -/
theorem splitEval_bump {α : Type} (I : Interp α) (ops : List FlatOp) (nodes : List (FlatNode α))
    (vals : List α) (hlen : vals.length = ops.length + 1) (h : BumpOK I ops) :
    splitEval (flatApplyT I ops) (sortKey ops nodes) vals.length vals (List.range ops.length) =
      splitEval (flatApplyT I ops) (fun k => (ops.getD k default).prio) vals.length vals
        (List.range ops.length) := by
  have H := bumpAbs I ops nodes h
  obtain ⟨a, ha⟩ := Ev.total (flatApplyT I ops) vals (sortKey ops nodes) ops.length 0 ops.length
    rfl (Nat.zero_le _) (by omega)
  have ha0 := H.ev (sortKey_eq ops nodes) ha (Nat.le_refl _)
  have e1 := ha.splitEval_eq vals.length (by omega)
  have e0 := ha0.splitEval_eq vals.length (by omega)
  have ev : (vals.drop 0).take (ops.length - 0 + 1) = vals := by
    rw [List.drop_zero, Nat.sub_zero, ← hlen, List.take_length]
  rw [ev, Nat.sub_zero, ← List.range_eq_range'] at e1 e0
  rw [e1, e0]

end Exmex
