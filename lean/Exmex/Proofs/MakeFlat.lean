/-
  L6: the token walker `make_expression` (flat.rs), run on the canonical token stream of a
  well-formed expression, builds exactly the structural flattening `Chain.flat`.
-/
import Exmex.Model.Flat
import Exmex.Spec.Surface
import Exmex.Proofs.FlattenDefs
import Exmex.Proofs.MakeFlatAux
namespace Exmex

mutual
/-- role conditions: every operator written in prefix position has a unary role in the table, and
    every operator in infix / call position has a binary role (priority 0..=99, from `WF`) -/
def Atom.Roles {α} (t : Table) : Atom α → Prop
  | .lit _ _ => True
  | .var _ _ => True
  | .const _ => True
  | .par c => c.Roles t
  | .call o a b => tblHasBin t o = true ∧ a.Roles t ∧ b.Roles t
  | .un u a => tblHasUnary t u = true ∧ a.Roles t
def Chain.Roles {α} (t : Table) : Chain α → Prop
  | .single a => a.Roles t
  | .cons a o rest => tblHasBin t o = true ∧ a.Roles t ∧ rest.Roles t
end

namespace MakeFlat
variable {α : Type} (I : Interp α) (t : Table) (vars : List Str)

local macro "len_tac" : tactic => `(tactic| first | (simp; omega) | simp)

theorem pend_lt {base : List (Nat × Int)} {d : Int} (us : List Nat) (j : Nat)
    (hbase : ∀ e ∈ base, e.2 < d) :
    ∀ e ∈ base ++ (if us = [] then [] else [(j, d)]), e.2 < d + 1 := by
  intro e he
  rcases List.mem_append.1 he with he | he
  · have := hbase e he; omega
  · split at he
    · simp at he
    · rw [List.mem_singleton] at he
      subst he
      show d < d + 1
      omega

/-- a leaf token: unary run, then one node -/
theorem leaf_loop {T P0 post : List (Tok α)} {us : List Nat} {tk : Tok α} {kind : NodeKind α}
    (nodes : List (FlatNode α)) (ops : List FlatOp) (d : Int) (base : List (Nat × Int)) {i : Nat}
    (hi : i = P0.length)
    (hT : T = P0 ++ us.map .op ++ tk :: post) (hP : PrefixPos t T P0.length)
    (hu : ∀ u ∈ us, tblHasUnary t u = true) (hc : tk ≠ .pclose) (ho : tk ≠ .popen)
    (hstep : ∀ n, createNode t T (P0.length + us.length) kind = .ok n →
      makeStep t T vars (P0.length + us.length) tk ⟨nodes, ops, d, base⟩ =
        .ok ⟨nodes ++ [n], ops, d, base⟩) :
    makeLoop t T vars (us.map .op ++ [tk]) i ⟨nodes, ops, d, base⟩ =
      .ok ⟨nodes ++ [{ kind := kind, un := us }], ops, d, base⟩ := by
  subst hi
  have h1 := unary_run (vars := vars) hT hP hu hc ⟨nodes, ops, d, base⟩
  have e : (if us = [] then (⟨nodes, ops, d, base⟩ : MakeSt α)
      else pushOpen tk ⟨nodes, ops, d, base⟩ (P0.length + us.length - 1)) = ⟨nodes, ops, d, base⟩ := by
    split
    · rfl
    · cases tk <;> simp [pushOpen] at ho ⊢
  rw [e] at h1
  refine loop_app h1 ?_
  rw [List.length_map]
  exact makeLoop_single_ok (hstep _ (createNode_run hT hP hu kind))

mutual
theorem atom_loop : ∀ (a : Atom α) (us : List Nat) (T P0 post : List (Tok α))
    (nodes : List (FlatNode α)) (ops : List FlatOp) (d : Int) (base : List (Nat × Int)) (i : Nat),
    a.WF t → a.Roles t → (∀ x ∈ a.varOcc, x ∈ vars) → (∀ u ∈ us, tblHasUnary t u = true) →
    T = P0 ++ us.map .op ++ a.toks I ++ post → i = P0.length → PrefixPos t T P0.length →
    (∀ e ∈ base, e.2 < d) → (∀ o, ops.getLast? = some o → o.prio < (d + 1) * 1000) →
    makeLoop t T vars (us.map .op ++ a.toks I) i ⟨nodes, ops, d, base⟩ =
      .ok ⟨nodes ++ (a.flat I t vars us d).1, ops ++ (a.flat I t vars us d).2, d, base⟩
  | .lit s v, us, T, P0, post, nodes, ops, d, base, i, _, _, _, hu, hT, hi, hP, _, _ => by
    rw [Atom.toks, Atom.flat]
    simp only [List.append_nil]
    exact leaf_loop t vars (post := post) nodes ops d base hi (by rw [hT, Atom.toks]; simp) hP hu (by simp)
      (by simp) (fun n hn => step_num hn)
  | .var x br, us, T, P0, post, nodes, ops, d, base, i, _, _, hv, hu, hT, hi, hP, _, _ => by
    rw [Atom.toks, Atom.flat]
    simp only [List.append_nil]
    exact leaf_loop t vars (post := post) nodes ops d base hi (by rw [hT, Atom.toks]; simp) hP hu (by simp)
      (by simp) (fun n hn => step_var (hv x (by simp [Atom.varOcc])) hn)
  | .const k, us, T, P0, post, nodes, ops, d, base, i, _, _, _, hu, hT, hi, hP, _, _ => by
    rw [Atom.toks, Atom.flat]
    simp only [List.append_nil]
    exact leaf_loop t vars (post := post) nodes ops d base hi (by rw [hT, Atom.toks]; simp) hP hu (by simp)
      (by simp) (fun n hn => step_num hn)
  | .par c, us, T, P0, post, nodes, ops, d, base, i, hwf, hr, hv, hu, hT, hi, hP, hbase, hops => by
    subst hi
    rw [Atom.WF] at hwf
    rw [Atom.Roles] at hr
    rw [Atom.varOcc] at hv
    rw [Atom.toks] at hT
    have hT1 : T = P0 ++ us.map .op ++ .popen :: (c.toks I ++ .pclose :: post) := by
      rw [hT]; simp
    have e : us.map Tok.op ++ Atom.toks I (.par c) =
        us.map .op ++ (.popen :: (c.toks I ++ [.pclose])) := by
      rw [Atom.toks]; simp
    rw [e, Atom.flat]
    -- the run of unary operators
    have h1 := unary_run (vars := vars) hT1 hP hu (by simp) ⟨nodes, ops, d, base⟩
    rw [pushOpen_open] at h1
    refine loop_app h1 ?_
    rw [List.length_map]
    -- `(`
    refine loop_cons (step_open' rfl) ?_
    -- the chain
    have hsh := chain_shape I t vars c (d + 1) hwf
    have h3 := chain_loop c T (P0 ++ us.map .op ++ [.popen]) (.pclose :: post) nodes ops (d + 1)
      (base ++ (if us = [] then [] else [(P0.length + us.length - 1, d)]))
      (P0.length + us.length + 1) hwf hr hv (by rw [hT1]; simp) (by len_tac)
      (PrefixPos.ofOpen (A := P0 ++ us.map Tok.op) hT1 (by len_tac))
      (pend_lt us _ hbase)
      (by intro o ho; have := hops o ho; omega)
    refine loop_app h3 ?_
    -- `)`
    refine loop_cons (close_step' nodes _ ops _ d base us (P0.length + us.length - 1) rfl rfl rfl rfl
      hsh.ne_nil (fun o ho => hsh.2 o ho) hops hbase
      (fun hne => run_unaries_all hT1 hP hu hne)) ?_
    exact loop_nil
  | .call o a b, us, T, P0, post, nodes, ops, d, base, i, hwf, hr, hv, hu, hT, hi, hP, hbase, hops => by
    subst hi
    rw [Atom.WF] at hwf
    rw [Atom.Roles] at hr
    rw [Atom.varOcc] at hv
    obtain ⟨hwo, hwa, hwb⟩ := hwf
    obtain ⟨hro, hra, hrb⟩ := hr
    rw [Atom.toks] at hT
    have hT1 : T = P0 ++ us.map .op ++ .popen :: (.popen :: (a.toks I ++ .pclose :: .op o ::
        .popen :: (b.toks I ++ .pclose :: .pclose :: post))) := by
      rw [hT]; simp
    have e : us.map Tok.op ++ Atom.toks I (.call o a b) =
        us.map .op ++ (.popen :: .popen :: (a.toks I ++ (.pclose :: .op o :: .popen ::
          (b.toks I ++ [.pclose, .pclose])))) := by
      rw [Atom.toks]; simp
    rw [e, Atom.flat]
    obtain ⟨bs, hbs, hb0, hb99⟩ := hwo
    have hmk := mkFlatOp_prio_bounds ⟨bs, hbs, hb0, hb99⟩ (d + 1)
    have hsa := chain_shape I t vars a (d + 2) hwa
    have hsb := chain_shape I t vars b (d + 2) hwb
    have hT2 : T = (P0 ++ us.map Tok.op ++ [Tok.popen]) ++ Tok.popen :: (a.toks I ++ Tok.pclose ::
        Tok.op o :: Tok.popen :: (b.toks I ++ Tok.pclose :: Tok.pclose :: post)) := by
      rw [hT1]; simp
    have hT3 : T = (P0 ++ us.map Tok.op ++ [Tok.popen, Tok.popen] ++ a.toks I ++ [Tok.pclose]) ++
        Tok.op o :: (Tok.popen :: (b.toks I ++ Tok.pclose :: Tok.pclose :: post)) := by
      rw [hT1]; simp
    have hT4 : T = (P0 ++ us.map Tok.op ++ [Tok.popen, Tok.popen] ++ a.toks I ++
        [Tok.pclose, Tok.op o]) ++ Tok.popen :: (b.toks I ++ Tok.pclose :: Tok.pclose :: post) := by
      rw [hT1]; simp
    -- the run of unary operators
    have h1 := unary_run (vars := vars) hT1 hP hu (by simp) ⟨nodes, ops, d, base⟩
    rw [pushOpen_open] at h1
    refine loop_app h1 ?_
    rw [List.length_map]
    -- `(` `(`
    refine loop_cons (step_open' rfl) ?_
    refine loop_cons (step_open' (d' := d + 2) (by omega)) ?_
    have hbase' : ∀ e ∈ base ++ (if us = [] then [] else [(P0.length + us.length - 1, d)]),
        e.2 < d + 1 := pend_lt us _ hbase
    -- first argument
    have h3 := chain_loop a T (P0 ++ us.map .op ++ [.popen, .popen])
      (.pclose :: .op o :: .popen :: (b.toks I ++ .pclose :: .pclose :: post)) nodes ops (d + 2)
      (base ++ (if us = [] then [] else [(P0.length + us.length - 1, d)]))
      (P0.length + us.length + 1 + 1) hwa hra
      (fun x hx => hv x (List.mem_append_left _ hx)) (by rw [hT1]; simp) (by len_tac)
      (PrefixPos.ofOpen hT2 (by len_tac))
      (fun e he => by have := hbase' e he; omega)
      (by intro o ho; have := hops o ho; omega)
    refine loop_app h3 ?_
    -- `)`
    refine loop_cons (close_plain nodes _ ops _ (d + 1) _ rfl rfl (by omega) hsa.ne_nil
      (fun o ho => by have := hsa.2 o ho; omega) (by intro o ho; have := hops o ho; omega)
      hbase') ?_
    -- the operator
    have hbin : isBinaryAt t T o (P0.length + us.length + 1 + 1 + (a.toks I).length + 1)
        = .ok true :=
      binaryAt_infix (tk := Tok.pclose) hT3 (by len_tac) List.getLast?_concat rfl hro
    refine loop_cons (step_binary' hbin hbs) ?_
    -- `(`
    refine loop_cons (step_open' (d' := d + 2) (by omega)) ?_
    -- second argument
    have h7 := chain_loop b T
      (P0 ++ us.map .op ++ [.popen, .popen] ++ a.toks I ++ [.pclose, .op o, .popen])
      (.pclose :: .pclose :: post) (nodes ++ (a.flat I t vars (d + 2)).1)
      (ops ++ (a.flat I t vars (d + 2)).2 ++ [mkFlatOp t o (d + 1)]) (d + 2)
      (base ++ (if us = [] then [] else [(P0.length + us.length - 1, d)]))
      (P0.length + us.length + 1 + 1 + (a.toks I).length + 1 + 1 + 1) hwb hrb
      (fun x hx => hv x (List.mem_append_right _ hx)) (by rw [hT1]; simp) (by len_tac)
      (PrefixPos.ofOpen hT4 (by len_tac))
      (fun e he => by have := hbase' e he; omega)
      (last_concat_prio (by omega))
    refine loop_app h7 ?_
    -- `)` `)`
    refine loop_cons (close_plain _ _ _ _ (d + 1) _ rfl rfl (by omega) hsb.ne_nil
      (fun o ho => by have := hsb.2 o ho; omega) (last_concat_prio (by omega)) hbase') ?_
    have hj := Shape.join hsa hsb hmk.1 (by omega)
    refine loop_cons (close_step' nodes _ ops _ d base us (P0.length + us.length - 1)
      (by simp) (by simp) rfl rfl hj.ne_nil hj.2 hops hbase
      (fun hne => run_unaries_all hT1 hP hu hne)) ?_
    exact loop_nil
  | .un u a, us, T, P0, post, nodes, ops, d, base, i, hwf, hr, hv, hu, hT, hi, hP, hbase, hops => by
    rw [Atom.WF] at hwf
    rw [Atom.Roles] at hr
    rw [Atom.varOcc] at hv
    have := atom_loop a (us ++ [u]) T P0 post nodes ops d base i hwf hr.2 hv
      (by
        intro x hx
        rcases List.mem_append.1 hx with hx | hx
        · exact hu x hx
        · simp at hx; subst hx; exact hr.1)
      (by rw [hT, Atom.toks]; simp) hi hP hbase hops
    rw [Atom.toks, Atom.flat]
    simpa using this
theorem chain_loop : ∀ (c : Chain α) (T P post : List (Tok α))
    (nodes : List (FlatNode α)) (ops : List FlatOp) (d : Int) (base : List (Nat × Int)) (i : Nat),
    c.WF t → c.Roles t → (∀ x ∈ c.varOcc, x ∈ vars) →
    T = P ++ c.toks I ++ post → i = P.length → PrefixPos t T P.length →
    (∀ e ∈ base, e.2 < d) → (∀ o, ops.getLast? = some o → o.prio < (d + 1) * 1000) →
    makeLoop t T vars (c.toks I) i ⟨nodes, ops, d, base⟩ =
      .ok ⟨nodes ++ (c.flat I t vars d).1, ops ++ (c.flat I t vars d).2, d, base⟩
  | .single a, T, P, post, nodes, ops, d, base, i, hwf, hr, hv, hT, hi, hP, hbase, hops => by
    rw [Chain.WF] at hwf
    rw [Chain.Roles] at hr
    rw [Chain.varOcc] at hv
    rw [Chain.toks] at hT ⊢
    rw [Chain.flat]
    exact atom_loop a [] T P post nodes ops d base i hwf hr hv (by simp) (by rw [hT]; simp) hi hP
      hbase hops
  | .cons a o rest, T, P, post, nodes, ops, d, base, i, hwf, hr, hv, hT, hi, hP, hbase, hops => by
    subst hi
    rw [Chain.WF] at hwf
    rw [Chain.Roles] at hr
    rw [Chain.varOcc] at hv
    obtain ⟨hwo, hwa, hwr⟩ := hwf
    obtain ⟨hro, hra, hrr⟩ := hr
    rw [Chain.toks] at hT
    have hT1 : T = P ++ (a.toks I ++ .op o :: (rest.toks I ++ post)) := by
      rw [hT]; simp
    have e : Chain.toks I (.cons a o rest) = a.toks I ++ (.op o :: rest.toks I) := by
      rw [Chain.toks]; simp
    rw [e, Chain.flat]
    obtain ⟨bs, hbs, hb0, hb99⟩ := hwo
    have hmk := mkFlatOp_prio_bounds ⟨bs, hbs, hb0, hb99⟩ d
    have h1 : makeLoop t T vars (a.toks I) P.length ⟨nodes, ops, d, base⟩ = _ :=
      atom_loop a [] T P (.op o :: (rest.toks I ++ post)) nodes ops d base P.length hwa hra
        (fun x hx => hv x (List.mem_append_left _ hx)) (by simp) (by rw [hT1]; simp) rfl hP
        hbase hops
    refine loop_app h1 ?_
    have hT2 : T = (P ++ a.toks I) ++ Tok.op o :: (rest.toks I ++ post) := by
      rw [hT1]; simp
    obtain ⟨tk, hlast, hinf⟩ := atom_toks_last I a
    have hbin : isBinaryAt t T o (P.length + (a.toks I).length) = .ok true :=
      binaryAt_infix hT2 (by len_tac) (getLast?_append_some hlast) hinf hro
    refine loop_cons (step_binary' hbin hbs) ?_
    have h3 := chain_loop rest T (P ++ a.toks I ++ [.op o]) post
      (nodes ++ (a.flat I t vars [] d).1) (ops ++ (a.flat I t vars [] d).2 ++ [mkFlatOp t o d]) d base
      (P.length + (a.toks I).length + 1) hwr hrr
      (fun x hx => hv x (List.mem_append_right _ hx)) (by rw [hT1]; simp) (by len_tac)
      (PrefixPos.ofBin hT2 (by len_tac) (by simpa using hbin))
      hbase (last_concat_prio (by omega))
    rw [h3]
    simp [List.append_assoc]
end

end MakeFlat

/-- **L6.** -/
theorem makeExpression_toks {α} (I : Interp α) (t : Table) (c : Chain α) (hc : c.WF t)
    (hr : c.Roles t) (vars : List Str) (hv : ∀ x ∈ c.varOcc, x ∈ vars) (text : Str) :
    makeExpression t text (c.toks I) vars =
      .ok { nodes := (c.flat I t vars 0).1, ops := (c.flat I t vars 0).2,
            prioIdx := prioIdxFlat (c.flat I t vars 0).2 (c.flat I t vars 0).1,
            vars := vars, text := text } := by
  have h := MakeFlat.chain_loop I t vars c (c.toks I) [] [] [] [] 0 [] 0 hc hr hv (by simp) rfl
    (Or.inl rfl) (by simp) (by simp)
  have hs := MakeFlat.chain_shape I t vars c 0 hc
  unfold makeExpression
  have h' : makeLoop t (c.toks I) vars (c.toks I) 0 {} = _ := h
  rw [h']
  simp [hs.1]

end Exmex
