/-
  Counterexamples: the statement of C05 (`C05.partial_sound`) is FALSE without the structural
  hypothesis `C05.Scoped` (`hsc`).

  1. `orig_false_vars`: a nested group may list a name that is not a variable of the expression
     (`Named top` only bounds the length of nested variable lists). `var_names_union` then carries
     the name into the result: for `d = (x*x) + y` with variables `[x, y]` whose nested group `x*x`
     lists `[x, a]`, the derivative lists `[a, x, y]`, so `d'.vars = d.vars` fails.
  2. `orig_false_unary`: a unary chain may mention a table entry that is not a unary operator
     (`Ruled` only looks at the name). The reference arithmetic `dArith.fn` looks the operator up
     with `find_unary_op`, does not find it and answers `I.dflt`, while evaluation applies `I.un`:
     for `d = exp(x)` with `exp` not flagged unary in the table, `d` evaluates to `I.un exp 3 = 3`
     but the dual evaluation has value `0`.
-/
import Exmex.Props.C05
namespace Exmex.DiffCex
open Exmex Exmex.C10 Exmex.C05 Exmex.C05.Demo

/-- the statement of `partial_sound` without `hsc`, at the carrier `Nat` -/
def OrigStmt (I : Interp Nat) (C : CalcOps Nat) (t : Table) : Prop :=
  ∀ (_ : C10.Arith I C t) (_ : Laws (dArith I C t))
    (_ : (t.map (·.repr)).Nodup)
    (_ : ∀ n ∈ ["-", "ln", "sqrt", "sin", "cos", "sinh", "cosh", "tanh"],
      ∃ u, findUnaryOp t (String.toList n) = .ok u)
    (_ : BopAssoc I t)
    (d : DeepEx Nat) (_ : C10.Named d.vars d) (_ : d.vars.Nodup)
    (_ : sortBy strLe d.vars = d.vars) (_ : d.Assoc I) (_ : Shortcut.Folded d)
    (_ : Ruled t d)
    (i : Nat) (x : Str) (_ : d.vars[i]? = some x) (ρ : Str → Nat)
    (fuel : Nat) (d' : DeepEx Nat) (_ : partialDeepex I C t i fuel d = .ok d')
    (w : DVal Nat) (_ : d.dualEval I C t ρ x = .ok w) (_ : w.ok = true),
    d'.vars = d.vars ∧ C10.Named d'.vars d' ∧ d'.Assoc I ∧ Shortcut.Folded d' ∧
      d.evalRelaxed I (d.vars.map ρ) = .ok w.val ∧
      d'.evalRelaxed I (d'.vars.map ρ) = .ok w.der

def ys : Str := "y".toList
def as : Str := "a".toList
def ρ0 : Str → Nat := fun _ => 3

/-! ### 1. a nested group listing a foreign name -/

def sub1 : DeepEx Nat := .mk [.var 0 xs, .var 0 xs] [⟨2, 2, false⟩] [] [xs, as]
/-- `(x * x) + y` -/
def d1 : DeepEx Nat := .mk [.expr sub1, .var 1 ys] [⟨0, 1, false⟩] [] [xs, ys]

theorem d1_named : Named d1.vars d1 := by
  simp [d1, sub1, DeepEx.vars, Named, namedList, NamedNode, xs, ys]
theorem d1_assoc : d1.Assoc NI := by
  simp [d1, sub1, DeepEx.Assoc, assocList, DeepAssoc]
theorem d1_folded : Shortcut.Folded d1 := by
  simp [d1, sub1, Shortcut.Folded, Shortcut.foldedList, Shortcut.FoldedNode, Shortcut.isLit]
theorem d1_ruled : Ruled tbl d1 := by
  simp only [d1, sub1, Ruled, ruledList]
  refine ⟨?_, by simp, ⟨?_, by simp, trivial⟩, trivial⟩
  · intro o ho
    simp only [List.mem_singleton] at ho
    subst ho
    decide
  · intro o ho
    simp only [List.mem_singleton] at ho
    subst ho
    decide
theorem d1_not_scoped : ¬ Scoped tbl d1.vars d1 := by
  simp [d1, sub1, DeepEx.vars, Scoped, scopedList, xs, ys, as]

theorem d1_run : (match partialDeepex NI NC tbl 0 12 d1 with
    | .ok d => d.vars == [as, xs, ys]
    | .error _ => false) = true := by decide +kernel
theorem d1_dual : (match d1.dualEval NI NC tbl ρ0 xs with
    | .ok w => w.ok
    | .error _ => false) = true := by decide +kernel

theorem orig_false_vars : ¬ OrigStmt NI NC tbl := by
  intro h
  have h1 := d1_run
  have h2 := d1_dual
  cases hp : partialDeepex NI NC tbl 0 12 d1 with
  | error e => rw [hp] at h1; cases h1
  | ok d' =>
    cases hw : d1.dualEval NI NC tbl ρ0 xs with
    | error e => rw [hw] at h2; cases h2
    | ok w =>
      rw [hp] at h1
      rw [hw] at h2
      simp only [] at h1 h2
      have := (h AA LL hnames hfn hbop d1 d1_named (by simp [d1, DeepEx.vars, xs, ys]) (by rfl) d1_assoc
        d1_folded d1_ruled 0 xs rfl ρ0 12 d' hp w hw h2).1
      rw [this] at h1
      revert h1
      decide

/-! ### 2. a unary chain through a table entry that is not a unary operator -/

def tbl2 : Table := tbl ++ [{ repr := "exp".toList, unary := false }]

def AA2 : Arith NI NC tbl2 where
  add := ⟨0, 1, false⟩
  sub := ⟨1, 1, false⟩
  mul := ⟨2, 2, false⟩
  div := ⟨3, 2, false⟩
  pow := ⟨4, 3, false⟩
  hadd := by rfl
  hsub := by rfl
  hmul := by rfl
  hdiv := by rfl
  hpow := by rfl
  eqv_sound := by intro a b h; simpa [NC] using h
  assoc := by
    intro o ho hc
    simp at ho
    rcases ho with h | h | h | h | h <;> (subst h; cases hc)

theorem e2_add (a b : Nat) : (dArith NI NC tbl2).add a b = a + b := rfl
theorem e2_mul (a b : Nat) : (dArith NI NC tbl2).mul a b = a * b := rfl
theorem e2_div (a b : Nat) : (dArith NI NC tbl2).div a b = a / b := rfl
theorem e2_pow (a b : Nat) : (dArith NI NC tbl2).pow a b = a ^ b := rfl

theorem LL2 : Laws (dArith NI NC tbl2) where
  zero_add := fun x => by rw [e2_add]; exact Nat.zero_add x
  add_zero := fun x => by rw [e2_add]; exact Nat.add_zero x
  zero_mul := fun x => by rw [e2_mul]; exact Nat.zero_mul x
  mul_zero := fun x => by rw [e2_mul]; exact Nat.mul_zero x
  one_mul := fun x => by rw [e2_mul]; exact Nat.one_mul x
  mul_one := fun x => by rw [e2_mul]; exact Nat.mul_one x
  mul_comm := fun x y => by rw [e2_mul, e2_mul]; exact Nat.mul_comm x y
  mul_assoc := fun x y z => by simp only [e2_mul]; exact Nat.mul_assoc x y z
  div_one := fun x => by rw [e2_div]; exact Nat.div_one x
  zero_div := fun x _ => by rw [e2_div]; exact Nat.zero_div x
  pow_one := fun x => by rw [e2_pow]; exact Nat.pow_one x
  pow_zero := fun x => by rw [e2_pow]; exact Nat.pow_zero x
  zero_pow := fun e he => by
    rw [e2_pow]
    exact Nat.zero_pow (Nat.pos_of_ne_zero he)
  zero_ne_one := by decide
  two_ne_zero := by decide
  mul_ne_zero := fun x y hx hy => by
    rw [e2_mul]
    exact Nat.mul_ne_zero hx hy

theorem hnames2 : (tbl2.map (·.repr)).Nodup := by decide
theorem hfn2 : ∀ n ∈ ["-", "ln", "sqrt", "sin", "cos", "sinh", "cosh", "tanh"],
    ∃ u, findUnaryOp tbl2 (String.toList n) = .ok u := by
  intro n hn
  simp only [List.mem_cons, List.not_mem_nil, or_false] at hn
  rcases hn with rfl | rfl | rfl | rfl | rfl | rfl | rfl | rfl <;> exact ⟨_, rfl⟩

theorem hbop2 : BopAssoc NI tbl2 := by
  intro n hn o ho
  simp only [List.mem_cons, List.not_mem_nil, or_false] at hn
  rcases hn with rfl | rfl | rfl | rfl | rfl | rfl | rfl | rfl <;> cases ho

/-- `exp(x)`, where index 12 is the entry `exp` of `tbl2` (not flagged unary) -/
def d2 : DeepEx Nat := .mk [.var 0 xs] [] [12] [xs]

theorem d2_named : Named d2.vars d2 := by
  simp [d2, DeepEx.vars, Named, namedList, NamedNode]
theorem d2_assoc : d2.Assoc NI := by
  simp [d2, DeepEx.Assoc, assocList, DeepAssoc]
theorem d2_folded : Shortcut.Folded d2 := by
  simp [d2, Shortcut.Folded, Shortcut.foldedList, Shortcut.FoldedNode]
theorem d2_ruled : Ruled tbl2 d2 := by
  simp only [d2, Ruled, ruledList]
  refine ⟨by simp, ?_, trivial⟩
  intro u hu
  simp only [List.mem_singleton] at hu
  subst hu
  decide
theorem d2_not_scoped : ¬ Scoped tbl2 d2.vars d2 := by
  simp only [d2, DeepEx.vars, Scoped]
  intro h
  have := h.2.2.1 12 (by simp)
  revert this
  decide

theorem d2_run : (partialDeepex NI NC tbl2 0 12 d2).isOk = true := by decide +kernel
theorem d2_dual : (match d2.dualEval NI NC tbl2 ρ0 xs with
    | .ok w => w.ok && w.val == 0
    | .error _ => false) = true := by decide +kernel
theorem d2_val : (match d2.evalRelaxed NI (d2.vars.map ρ0) with
    | .ok v => v == 3
    | .error _ => false) = true := by decide +kernel

theorem orig_false_unary : ¬ OrigStmt NI NC tbl2 := by
  intro h
  have h1 := d2_run
  have h2 := d2_dual
  cases hp : partialDeepex NI NC tbl2 0 12 d2 with
  | error e => rw [hp] at h1; cases h1
  | ok d' =>
    cases hw : d2.dualEval NI NC tbl2 ρ0 xs with
    | error e => rw [hw] at h2; cases h2
    | ok w =>
      rw [hw] at h2
      simp only [Bool.and_eq_true, beq_iff_eq] at h2
      have := (h AA2 LL2 hnames2 hfn2 hbop2 d2 d2_named (by simp [d2, DeepEx.vars]) (by rfl) d2_assoc
        d2_folded d2_ruled 0 xs rfl ρ0 12 d' hp w hw h2.1).2.2.2.2.1
      have h3 := d2_val
      rw [this, h2.2] at h3
      cases h3

end Exmex.DiffCex
