/-
  C05, reduction layer: `reducePairs` (value/derivative pairs combined by the binary rules in the
  group's priority order) simulates `reduceByOrder` over the dual interpretation.
-/
import Exmex.Proofs.DiffLift
namespace Exmex.Diff
open Exmex.C10 Exmex.C05 Exmex.Shortcut Exmex.CalcLemmas Exmex.DeepCompile Exmex.CompileSound

/-! ### lists related position by position -/

def RelL {α β : Type} (R : α → β → Prop) (l1 : List α) (l2 : List β) : Prop :=
  l1.length = l2.length ∧ ∀ (k : Nat) a b, l1[k]? = some a → l2[k]? = some b → R a b

theorem relL_set_erase {α β : Type} (R : α → β → Prop) (l1 : List α) (l2 : List β) (p : Nat)
    (a : α) (b : β) (h : RelL R l1 l2) (hab : R a b) :
    RelL R ((l1.set p a).eraseIdx (p + 1)) ((l2.set p b).eraseIdx (p + 1)) := by
  obtain ⟨hl, hr⟩ := h
  refine ⟨?_, ?_⟩
  · simp only [List.length_eraseIdx, List.length_set, hl]
  · intro k a' b' h1 h2
    rw [List.getElem?_eraseIdx, List.getElem?_set] at h1 h2
    by_cases hk : k < p + 1
    · rw [if_pos hk] at h1 h2
      by_cases hpk : p = k
      · rw [if_pos hpk] at h1 h2
        split at h1
        · split at h2
          · cases h1; cases h2; exact hab
          · cases h2
        · cases h1
      · rw [if_neg hpk] at h1 h2
        exact hr k a' b' h1 h2
    · rw [if_neg hk] at h1 h2
      rw [List.getElem?_set] at h1 h2
      rw [if_neg (by omega)] at h1 h2
      exact hr (k + 1) a' b' h1 h2

theorem set_erase_eq {α : Type} : ∀ (l : List α) (p : Nat) (x : α), p < l.length →
    (l.set p x).eraseIdx (p + 1) = l.take p ++ [x] ++ l.drop (p + 2)
  | [], p, x, h => by simp at h
  | w :: ws, 0, x, _ => by
    cases ws <;> simp
  | w :: ws, p + 1, x, h => by
    have := set_erase_eq ws p x (by simpa using h)
    simp only [List.set_cons_succ, List.eraseIdx_cons_succ, List.take_succ_cons, List.drop_succ_cons,
      List.cons_append]
    rw [this]

theorem idxOf?_of_mem (l : List Nat) (hn : l.Nodup) (b : Nat) (h : b ∈ l) :
    l.idxOf? b = some (l.idxOf b) := by
  have hlt : l.idxOf b < l.length := List.idxOf_lt_length_iff.2 h
  rw [List.idxOf?_eq_some_iff]
  refine ⟨hlt, List.getElem_idxOf hlt, ?_⟩
  intro j hj he
  have := hn.idxOf_getElem j (by omega)
  rw [he] at this
  omega

theorem mem_eraseIdx_of (l : List Nat) (hn : l.Nodup) (p : Nat) (hp : p < l.length) (x : Nat)
    (hx : x ∈ l) (hne : x ≠ l[p]) : x ∈ l.eraseIdx p := by
  rw [← filter_ne_eq_eraseIdx l p l[p] hn (by rw [List.getElem?_eq_getElem hp])]
  rw [List.mem_filter]
  exact ⟨hx, by simpa using hne⟩

/-! ### one step: the binary rule against the dual operator -/

section
variable {K : Type} [DecidableEq K] (D : DArith K)

theorem dualBin_some_ok (name : String) (hname : name ∈ binRuleNames) (x y : DVal K) :
    ∃ w, dualBin D name x y = some w ∧ (w.ok = true → x.ok = true ∧ y.ok = true) := by
  by_cases hcmp : name ∈ [">", "<", "!=", "==", "<=", ">="]
  · exact ⟨_, dualBin_cmp D name hcmp x y, fun h => by simpa using h⟩
  by_cases hpw : name ∈ ["if", "else"]
  · exact ⟨_, dualBin_pw D name hpw x y, fun h => by simpa using h⟩
  have hname : name ∈ ["+", "-", "*", "/", "^"] := by
    simp only [binRuleNames, List.mem_cons, List.not_mem_nil, or_false] at hname hcmp hpw ⊢
    grind
  simp only [List.mem_cons, List.not_mem_nil, or_false] at hname
  rcases hname with rfl | rfl | rfl | rfl | rfl
  · exact ⟨_, dualBin_add D x y, fun h => by simpa using h⟩
  · exact ⟨_, dualBin_sub D x y, fun h => by simpa using h⟩
  · exact ⟨_, dualBin_mul D x y, fun h => by simpa using h⟩
  · refine ⟨_, dualBin_div D x y, fun h => ?_⟩
    simp only [Bool.and_eq_true] at h
    exact h.1
  · refine ⟨_, dualBin_pow D x y, fun h => ?_⟩
    simp only [Bool.and_eq_true] at h
    exact h.1

end

section
variable {K : Type} [DecidableEq K] (I : Interp K) (C : CalcOps K) (t : Table) (A : Arith I C t)
  (L : Laws (dArith I C t)) (T : List Str) (ρ : Str → K)

/-- a value/derivative pair represents a dual number, provided the dual number is regular -/
def PairRep (vd : ValDer K) (w : DVal K) : Prop :=
  w.ok = true → Rep I T ρ vd.val w.val ∧ Rep I T ρ vd.der w.der

include A L

theorem dual_bin_pair (hbop : BopAssoc I t) (uln : Nat) (hln : findUnaryOp t "ln".toList = .ok uln) (o : Nat)
    (hname : String.ofList (reprOf t o) ∈ binRuleNames) (f g pd : ValDer K)
    (wf wg : DVal K) (hf : PairRep I T ρ f wf) (hg : PairRep I T ρ g wg)
    (h : binRule I C t (String.ofList (reprOf t o)) f g = .ok pd) :
    PairRep I T ρ pd ((dualInterp I C t).bin o wf wg) := by
  obtain ⟨w, hw, hoks⟩ := dualBin_some_ok (dArith I C t) _ hname wf wg
  have hb : (dualInterp I C t).bin o wf wg = w := by
    show (dualBin (dArith I C t) (String.ofList (reprOf t o)) wf wg).getD _ = w
    rw [hw]
    rfl
  rw [hb]
  intro hok
  obtain ⟨h1, h2⟩ := hoks hok
  obtain ⟨a, a', p⟩ := wf
  obtain ⟨b, b', q⟩ := wg
  simp only [] at h1 h2
  subst h1
  subst h2
  obtain ⟨f1, f2⟩ := hf rfl
  obtain ⟨g1, g2⟩ := hg rfl
  exact binRule_sound I C t A L T ρ hbop uln hln _ hname f g pd a a' b b' f1 f2 g1 g2 h w hw hok

/-- **`reducePairs` simulates `reduceLoop`** over the dual interpretation -/
theorem reducePairs_sound (hbop : BopAssoc I t) (uln : Nat) (hln : findUnaryOp t "ln".toList = .ok uln)
    (ops : List DBin) (hops : ∀ o ∈ ops, String.ofList (reprOf t o.idx) ∈ binRuleNames) :
    ∀ (bs ns : List Nat) (pairs : List (ValDer K)) (ws : List (DVal K)) (rem : List Nat)
      (final : List (ValDer K)),
      rem.Pairwise (· < ·) → bs.Nodup → (∀ b ∈ bs, b ∈ rem) →
      ns = bs.map (fun b => rem.idxOf b) → pairs.length = rem.length + 1 →
      RelL (PairRep I T ρ) pairs ws →
      reducePairs I C t bs ns pairs ops = .ok final →
      ∃ ws' rem', reduceLoop (gApply (dualInterp I C t) ops) bs (ws, rem) = some (ws', rem') ∧
        RelL (PairRep I T ρ) final ws' := by
  intro bs
  induction bs with
  | nil =>
    intro ns pairs ws rem final _ _ _ _ _ hrel h
    rw [reducePairs] at h
    cases h
    exact ⟨ws, rem, rfl, hrel⟩
  | cons b bs ih =>
    intro ns pairs ws rem final hs hnd hmem hns hlen hrel h
    have hnd' := List.nodup_cons.1 hnd
    have hbr : b ∈ rem := hmem b List.mem_cons_self
    have hremnd : rem.Nodup := sorted_nodup hs
    obtain ⟨p, hp⟩ : ∃ p, p = rem.idxOf b := ⟨_, rfl⟩
    have hpl : p < rem.length := by rw [hp]; exact List.idxOf_lt_length_iff.2 hbr
    have hpb : rem[p] = b := by
      have := List.getElem_idxOf (x := b) (xs := rem) (by rw [← hp]; exact hpl)
      simpa [← hp] using this
    rw [List.map_cons, ← hp] at hns
    subst hns
    have hwl : ws.length = pairs.length := hrel.1.symm
    obtain ⟨f, hf⟩ : ∃ f, pairs[p]? = some f := ⟨pairs[p]'(by omega), List.getElem?_eq_getElem _⟩
    obtain ⟨g, hg⟩ : ∃ g, pairs[p + 1]? = some g :=
      ⟨pairs[p + 1]'(by omega), List.getElem?_eq_getElem _⟩
    obtain ⟨wf, hwf⟩ : ∃ wf, ws[p]? = some wf := ⟨ws[p]'(by omega), List.getElem?_eq_getElem _⟩
    obtain ⟨wg, hwg⟩ : ∃ wg, ws[p + 1]? = some wg :=
      ⟨ws[p + 1]'(by omega), List.getElem?_eq_getElem _⟩
    rw [reducePairs, hf, hg] at h
    cases hop : ops[b]? with
    | none => rw [hop] at h; cases h
    | some op =>
      rw [hop] at h
      simp only [] at h
      split at h
      · cases h
      split at h
      · cases h
      rename_i pd hpd
      have hopm : op ∈ ops := List.mem_of_getElem? hop
      have hgd : ops.getD b default = op := by
        rw [List.getD_eq_getElem?_getD, hop]; rfl
      have hpair := dual_bin_pair I C t A L T ρ hbop uln hln op.idx (hops op hopm) f g pd wf wg
        (hrel.2 p f wf hf hwf) (hrel.2 (p + 1) g wg hg hwg) hpd
      -- the specification step
      have hstep : reduceStep (gApply (dualInterp I C t) ops) (ws, rem) b =
          some ((ws.set p ((dualInterp I C t).bin op.idx wf wg)).eraseIdx (p + 1), rem.eraseIdx p) := by
        unfold reduceStep
        simp only []
        rw [idxOf?_of_mem rem hremnd b hbr, ← hp]
        simp only [hwf, hwg]
        rw [set_erase_eq ws p _ (by omega)]
        unfold gApply
        rw [hgd]
      rw [reduceLoop, hstep]
      simp only []
      have hrel' := relL_set_erase (PairRep I T ρ) pairs ws p pd _ hrel hpair
      refine ih _ _ _ _ final (hs.sublist (List.eraseIdx_sublist rem p)) hnd'.2 ?_ ?_ ?_ hrel' h
      · intro x hx
        exact mem_eraseIdx_of rem hremnd p hpl x (hmem x (List.mem_cons_of_mem _ hx))
          (by rw [hpb]; exact fun e => hnd'.1 (e ▸ hx))
      · rw [List.map_map]
        apply List.map_congr_left
        intro x hx
        have hxr : x ∈ rem := hmem x (List.mem_cons_of_mem _ hx)
        have hxb : x ≠ rem[p] := by rw [hpb]; exact fun e => hnd'.1 (e ▸ hx)
        simp only [Function.comp]
        rw [idxOf_eraseIdx hremnd hpl hxr hxb]
      · simp only [List.length_eraseIdx, List.length_set]
        rw [if_pos (by omega), if_pos hpl]
        omega

end

end Exmex.Diff
