/-
  C03 (flat → deep): the loop of `flatex_to_deepex` is the in-place loop of `eval_binary` over the
  word-slice tracker, with deep nodes as "numbers" and a combining function that can fail.
  Simulation against `reduceLoop` on the values: every live slot holds a node related (by an
  abstract relation `G`) to the corresponding value of the value-level run.
-/
import Exmex.Model.Conv
import Exmex.Proofs.EvalOrder
import Exmex.Proofs.TrackerRefine
namespace Exmex
namespace ToDeep
open EvalOrderAux

/-- element-wise relation of two lists -/
inductive Rel₂ {β γ : Type} (G : β → γ → Prop) : List β → List γ → Prop
  | nil : Rel₂ G [] []
  | cons {a b l m} : G a b → Rel₂ G l m → Rel₂ G (a :: l) (b :: m)

theorem Rel₂.length_eq {β γ : Type} {G : β → γ → Prop} {l : List β} {m : List γ}
    (h : Rel₂ G l m) : l.length = m.length := by
  induction h with
  | nil => rfl
  | cons _ _ ih => simp [ih]

theorem rel₂_split {β γ : Type} (G : β → γ → Prop) (V : List β) (a b : β) (W : List β) :
    ∀ nums, Rel₂ G (V ++ a :: b :: W) nums →
      ∃ Vn va vb Wn, nums = Vn ++ va :: vb :: Wn ∧ Vn.length = V.length ∧ Rel₂ G V Vn ∧
        G a va ∧ G b vb ∧ Rel₂ G W Wn := by
  induction V with
  | nil =>
    intro nums h
    cases h with
    | cons h1 h2 =>
      cases h2 with
      | cons h3 h4 => exact ⟨[], _, _, _, rfl, rfl, .nil, h1, h3, h4⟩
  | cons x V ih =>
    intro nums h
    cases h with
    | cons h1 h2 =>
      obtain ⟨Vn, va, vb, Wn, e, hl, g1, g2, g3, g4⟩ := ih _ h2
      exact ⟨_ :: Vn, va, vb, Wn, by rw [e]; rfl, by simp [hl], .cons h1 g1, g2, g3, g4⟩

theorem rel₂_join {β γ : Type} (G : β → γ → Prop) {V : List β} {Vn : List γ} (h : Rel₂ G V Vn)
    {c : β} {vc : γ} (hc : G c vc) {W : List β} {Wn : List γ} (hW : Rel₂ G W Wn) :
    Rel₂ G (V ++ c :: W) (Vn ++ vc :: Wn) := by
  induction h with
  | nil => exact .cons hc hW
  | cons h1 _ ih => exact .cons h1 ih

/-- `EvalOrderAux.step`, exposing where the two operands sit in the list of live values; the
    value stored in the left slot is arbitrary -/
theorem step' {β : Type} (dflt : β) {ns : List β} {f : Flags} {vs : List β}
    {ops : List Nat} (h : Inv ns f vs ops) {k : Nat} (hk : k ∈ ops) :
    ∃ a b V W A B,
      f.getPrevious k ≤ k ∧ f.getNext k = 1 ∧ k + 1 < f.length ∧
      f[0]? = some false ∧ f[k + 1]? = some false ∧
      ns[k - f.getPrevious k]? = some a ∧ ns[k + 1]? = some b ∧
      vs = V ++ a :: b :: W ∧ ops = A ++ k :: B ∧ k ∉ A ∧ A.length = V.length ∧
      ∀ c, Inv ((ns.set (k + 1) dflt).set (k - f.getPrevious k) c) (f.set (k + 1) true)
        (V ++ c :: W) (A ++ B) := by
  obtain ⟨hlen, ⟨ft, hf, hops⟩, hvs⟩ := h
  -- zipped view
  obtain ⟨zs, rfl, rfl⟩ : ∃ zs : List (β × Bool), ns = zs.map (·.1) ∧ f = zs.map (·.2) :=
    ⟨ns.zip f, by rw [List.map_fst_zip (by omega)], by rw [List.map_snd_zip (by omega)]⟩
  rw [zip_map_fst_snd] at hvs
  obtain ⟨z0, zt, rfl, hz0, rfl⟩ := List.map_eq_cons_iff.1 hf
  obtain ⟨a0, b0⟩ := z0
  simp only at hz0; subst hz0
  -- slot k+1 is live
  have hk2 := (mem_liveIdx.1 (hops ▸ hk)).2
  simp only [Nat.sub_zero, List.getElem?_map, Option.map_eq_some_iff] at hk2
  obtain ⟨⟨b, bb⟩, hzk, hbb⟩ := hk2
  simp only at hbb; subst hbb
  obtain ⟨zpre, zpost, rfl, hpre⟩ := split_at _ _ _ hzk
  -- nearest live slot at or below k
  obtain ⟨P, a, M, hg, hM⟩ := split_last_live ((a0, false) :: zpre) ⟨_, List.mem_cons_self, rfl⟩
  have hlenPM : k = P.length + M.length := by
    have := congrArg List.length hg
    simp at this; omega
  have hzs : (a0, false) :: (zpre ++ (b, false) :: zpost) =
      P ++ (a, false) :: (M ++ (b, false) :: zpost) := by
    have : (a0, false) :: (zpre ++ (b, false) :: zpost) =
      ((a0, false) :: zpre) ++ (b, false) :: zpost := by simp
    rw [this, hg]; simp
  have hMs : ∀ x ∈ M.map (·.2), x = true := by
    intro x hx
    obtain ⟨z, hz, rfl⟩ := List.mem_map.1 hx
    exact hM z hz
  have hcount : (liveIdx 0 (zpre.map (·.2))).length = (vals P).length := by
    rw [length_liveIdx, length_vals]
    have := congrArg (fun l => (l.map (·.2)).count false) hg
    have hM0 : (M.map (·.2)).count false = 0 := by
      rw [List.count_eq_zero]; intro hm; exact absurd (hMs _ hm) (by simp)
    simp at this
    omega
  have hops' : ops = liveIdx 0 (zpre.map (·.2)) ++ k :: liveIdx (k + 1) (zpost.map (·.2)) := by
    rw [hops]; simp [liveIdx_append, liveIdx, hpre]
  have hknot : k ∉ liveIdx 0 (zpre.map (·.2)) := by
    intro hm; have := liveIdx_lt hm; simp at this; omega
  rw [hzs] at hvs ⊢
  have hprev : Flags.getPrevious
      (List.map (·.2) (P ++ (a, false) :: (M ++ (b, false) :: zpost))) k = M.length := by
    simp only [List.map_append, List.map_cons]
    rw [getPrevious_split _ _ _ hMs k (by simp [hlenPM])]; simp
  have hnext : Flags.getNext
      (List.map (·.2) (P ++ (a, false) :: (M ++ (b, false) :: zpost))) k = 1 := by
    simp only [List.map_append, List.map_cons]
    exact getNext_split _ _ _ k (by simp [hlenPM])
  refine ⟨a, b, vals P, vals zpost, liveIdx 0 (zpre.map (·.2)),
    liveIdx (k + 1) (zpost.map (·.2)), ?_, hnext, ?_, ?_, ?_, ?_, ?_, ?_, hops', hknot, hcount, ?_⟩
  · rw [hprev]; omega
  · simp; omega
  · rw [← hzs]; simp
  · have e : P ++ (a, false) :: (M ++ (b, false) :: zpost) =
        (P ++ (a, false) :: M) ++ (b, false) :: zpost := by simp
    rw [e, List.map_append, List.map_cons]
    exact getElem?_mid _ _ _ _ (by simp; omega)
  · rw [hprev, List.map_append, List.map_cons]
    exact getElem?_mid _ _ _ _ (by simp; omega)
  · have e : P ++ (a, false) :: (M ++ (b, false) :: zpost) =
        (P ++ (a, false) :: M) ++ (b, false) :: zpost := by simp
    rw [e, List.map_append, List.map_cons]
    exact getElem?_mid _ _ _ _ (by simp; omega)
  · rw [hvs, vals_append]
    have : (a, false) :: (M ++ (b, false) :: zpost) =
      [(a, false)] ++ (M ++ ([(b, false)] ++ zpost)) := by simp
    rw [this, vals_append, vals_append, vals_append, vals_all_true M hM]
    simp [vals]
  · intro c
    have e : P ++ (a, false) :: (M ++ (b, false) :: zpost) =
        (P ++ (a, false) :: M) ++ (b, false) :: zpost := by simp
    have hns : ((List.map (·.1) (P ++ (a, false) :: (M ++ (b, false) :: zpost))).set (k + 1)
          dflt).set (k - Flags.getPrevious (List.map (·.2)
            (P ++ (a, false) :: (M ++ (b, false) :: zpost))) k) c =
        List.map (·.1) (P ++ (c, false) :: (M ++ (dflt, true) :: zpost)) := by
      rw [hprev]
      conv => lhs; rw [e, List.map_append, List.map_cons]
      rw [set_mid _ _ _ _ _ (by simp; omega)]
      simp only [List.map_append, List.map_cons, List.append_assoc, List.cons_append]
      rw [set_mid _ _ _ _ _ (by simp; omega)]
    have hfs : (List.map (·.2) (P ++ (a, false) :: (M ++ (b, false) :: zpost))).set (k + 1) true =
        List.map (·.2) (P ++ (c, false) :: (M ++ (dflt, true) :: zpost)) := by
      conv => lhs; rw [e, List.map_append, List.map_cons]
      rw [set_mid _ _ _ _ _ (by simp; omega)]
      simp
    rw [hns, hfs]
    refine ⟨by simp, ⟨zpre.map (·.2) ++ true :: zpost.map (·.2), ?_, ?_⟩, ?_⟩
    · have hg2 := congrArg (List.map (·.2)) hg
      simp only [List.map_append, List.map_cons] at hg2
      have : List.map (·.2) (P ++ (c, false) :: (M ++ (dflt, true) :: zpost)) =
          (P.map (·.2) ++ false :: M.map (·.2)) ++ true :: zpost.map (·.2) := by simp
      rw [this, ← hg2]; simp
    · simp [liveIdx_append, liveIdx, hpre]
    · rw [zip_map_fst_snd, vals_append]
      have : (c, false) :: (M ++ (dflt, true) :: zpost) =
        [(c, false)] ++ (M ++ ([(dflt, true)] ++ zpost)) := by simp
      rw [this, vals_append, vals_append, vals_append, vals_all_true M hM]
      simp [vals]

theorem toDeepStep_ok {α} (I : Interp α) (t : Table) (fops : List FlatOp)
    (ns : List (DeepNode α)) (tr tr' : Words) (k l r : Nat) (a b : DeepNode α) (fo : FlatOp)
    (ob : DBin) (e : DeepEx α)
    (h1 : Words.getPrevious tr k = some l) (h2 : Words.getNext tr k = some r)
    (h3 : Words.ignore tr (k + r) = some tr') (hl : l ≤ k)
    (ha : ns[k - l]? = some a) (hb : ns[k + r]? = some b) (hfo : fops[k]? = some fo)
    (hob : tblBin t fo.idx = some ob)
    (hnew : DeepEx.new I [a, b] [{ idx := fo.idx, prio := ob.prio, comm := fo.comm }] fo.un =
      .ok e) :
    toDeepStep I t fops (ns, tr) k =
      .ok ((ns.set (k + r) dummyNode).set (k - l) (.expr e), tr') := by
  simp [toDeepStep, h1, h2, h3, ha, hb, hfo, hob, hnew, Nat.not_lt.2 hl]

/-- what one iteration needs from the combining function -/
def StepOK {α γ : Type} (I : Interp α) (t : Table) (fops : List FlatOp)
    (G : DeepNode α → γ → Prop) (apply : Nat → γ → γ → γ) (k : Nat) : Prop :=
  ∀ a b va vb, G a va → G b vb →
    ∃ fo ob e, fops[k]? = some fo ∧ tblBin t fo.idx = some ob ∧
      DeepEx.new I [a, b] [{ idx := fo.idx, prio := ob.prio, comm := fo.comm }] fo.un = .ok e ∧
      G (.expr e) (apply k va vb)

theorem loop {α γ : Type} (I : Interp α) (t : Table) (fops : List FlatOp)
    (G : DeepNode α → γ → Prop) (apply : Nat → γ → γ → γ) (π : List Nat) :
    ∀ {ns : List (DeepNode α)} {f : Flags} {vs : List (DeepNode α)} {ops : List Nat} {tr : Words}
      {nums : List γ},
      (∀ k ∈ π, StepOK I t fops G apply k) →
      Inv ns f vs ops → WordsRel tr f → π.Nodup → (∀ k ∈ π, k ∈ ops) → Rel₂ G vs nums →
      ∃ ns' tr' f' vs' ops' nums',
        toDeepLoop I t fops π (ns, tr) = .ok (ns', tr') ∧
        reduceLoop apply π (nums, ops) = some (nums', ops') ∧
        Inv ns' f' vs' ops' ∧ Rel₂ G vs' nums' := by
  induction π with
  | nil =>
    intro ns f vs ops tr nums _ h _ _ _ hG
    exact ⟨ns, tr, f, vs, ops, nums, rfl, rfl, h, hG⟩
  | cons k π ih =>
    intro ns f vs ops tr nums hstep h hR hnd hmem hG
    have hk : k ∈ ops := hmem k List.mem_cons_self
    obtain ⟨a, b, V, W, A, B, hle, hnext, hlt, hf0, hfk, ha, hb, hv, hops, hknot, hcount, hinv⟩ :=
      step' dummyNode h hk
    subst hv
    obtain ⟨Vn, va, vb, Wn, rfl, hVl, gV, ga, gb, gW⟩ := rel₂_split G V a b W nums hG
    obtain ⟨fo, ob, e, s1, s2, s3, s4⟩ := hstep k List.mem_cons_self a b va vb ga gb
    have hp := wordsRefines.prev tr f k hR (by omega) ⟨0, Nat.zero_le _, hf0⟩
    have hn := wordsRefines.next tr f k hR ⟨k + 1, Nat.lt_succ_self _, hfk⟩
    obtain ⟨t1, hig, hR1⟩ := wordsRefines.ignore tr f (k + 1) hR hlt
    rw [hnext] at hn
    have e1 := toDeepStep_ok I t fops ns tr t1 k _ 1 a b fo ob e hp hn hig hle ha hb s1 s2 s3
    have hred : reduceStep apply (Vn ++ va :: vb :: Wn, ops) k =
        some (Vn ++ apply k va vb :: Wn, A ++ B) := by
      rw [hops]
      exact reduceStep_split apply Vn Wn va vb A B k hknot (by omega)
    have hnd' := List.nodup_cons.1 hnd
    obtain ⟨ns', tr', f', vs', ops', nums', l1, l2, l3, l4⟩ :=
      ih (fun j hj => hstep j (List.mem_cons_of_mem _ hj)) (hinv (.expr e)) hR1 hnd'.2 (by
        intro j hj
        have hjo := hmem j (List.mem_cons_of_mem _ hj)
        have hjk : j ≠ k := by rintro rfl; exact hnd'.1 hj
        rw [hops] at hjo
        simp only [List.mem_append, List.mem_cons] at hjo ⊢
        rcases hjo with h1 | h1 | h1
        · exact .inl h1
        · exact absurd h1 hjk
        · exact .inr h1) (rel₂_join G gV s4 gW)
    refine ⟨ns', tr', f', vs', ops', nums', ?_, ?_, l3, l4⟩
    · simp only [toDeepLoop, e1]; exact l1
    · simp only [reduceLoop, hred]; exact l2

/-- **The loop of `flatex_to_deepex`.** Started on nodes related to `nums`, it succeeds, and its
    slot 0 holds a node related to the value `reduceByOrder` computes on `nums`. -/
theorem toDeepLoop_sim {α γ : Type} (I : Interp α) (t : Table) (fops : List FlatOp)
    (G : DeepNode α → γ → Prop) (apply : Nat → γ → γ → γ) (π : List Nat)
    (dn : List (DeepNode α)) (nums : List γ) (hπ : ValidOrder π (dn.length - 1)) (hne : dn ≠ [])
    (hG : Rel₂ G dn nums) (hstep : ∀ k ∈ π, StepOK I t fops G apply k) :
    ∃ final rest tr' v,
      toDeepLoop I t fops π (dn, List.replicate (1 + dn.length / 64) (0#64)) =
        .ok (final :: rest, tr') ∧
      reduceByOrder apply nums π = some v ∧ G final v := by
  obtain ⟨ns', tr', f', vs', ops', nums', l1, l2, l3, l4⟩ :=
    loop I t fops G apply π hstep (inv_init dn hne) (wordsRel_init dn.length) hπ.nodup
      (fun k hk => List.mem_range.2 (hπ.lt k hk)) hG
  obtain ⟨a, nt, vt, rfl, rfl⟩ := inv_head l3
  cases l4 with
  | cons g1 g2 =>
    refine ⟨a, nt, tr', _, l1, ?_, g1⟩
    rw [reduceByOrder, ← hG.length_eq, l2]
    rfl

end ToDeep
end Exmex
