/-
  What acceptance by the flat parser says about the token stream.

  `makeLoop` makes one node per number / variable token and one operator per operator token in
  binary role. If no two operands stand next to each other, every group is
  `[op] item (op item)*`, and the final check `nodes = ops + 1` of `make_expression` excludes a
  leading binary operator in every group (`flat_no_lead`). Moreover every operator token passed
  `is_operator_binary` without error (`flat_isBinary_ok`).
-/
import Exmex.Proofs.AnyTextRead
import Exmex.Proofs.ReachParse
namespace Exmex.AnyText
open Exmex.ReachLemmas

variable {α : Type}

/-! ### "no two operands adjacent" -/

/-- an operand directly followed by an operand -/
def adjPair : Tok α → Tok α → Bool
  | .num _, .num _ => true
  | .num _, .var _ => true
  | .var _, .num _ => true
  | .var _, .var _ => true
  | .pclose, .popen => true
  | _, _ => false

/-- no number / variable directly follows a number / variable, and no `(` directly follows `)` -/
def noAdjacent : List (Tok α) → Bool
  | a :: b :: rest => !adjPair a b && noAdjacent (b :: rest)
  | _ => true

theorem noAdjacent_spec : ∀ toks : List (Tok α), noAdjacent toks = true →
    ∀ i a b, toks[i]? = some a → toks[i + 1]? = some b → adjPair a b = false
  | [], _, i, a, b, h1, _ => by simp at h1
  | [x], _, i, a, b, h1, h2 => by
    cases i with
    | zero => simp at h2
    | succ i => simp at h1
  | x :: y :: rest, h, i, a, b, h1, h2 => by
    rw [noAdjacent, Bool.and_eq_true] at h
    cases i with
    | zero =>
      simp at h1 h2
      subst h1; subst h2
      simpa using h.1
    | succ i =>
      exact noAdjacent_spec (y :: rest) h.2 i a b (by simpa using h1) (by simpa using h2)

/-- the token on the left, as `isBinaryAt` computes it -/
def prevAt (toks : List (Tok α)) (i : Nat) : Option (Tok α) := if i > 0 then toks[i - 1]? else none

theorem isBinaryAt_eq (t : Table) (toks : List (Tok α)) (o i : Nat) :
    isBinaryAt t toks o i = isOperatorBinary t o (prevAt toks i) := rfl

theorem prevAt_succ (toks : List (Tok α)) (i : Nat) : prevAt toks (i + 1) = toks[i]? := by
  simp [prevAt]

/-- the part of `stepOK` that follows from the pair conditions, "no adjacent operands" and "the
    first token is no `)`" -/
def stepW (t : Table) (p : Option (Tok α)) : Tok α → Bool
  | .num _ => !isEnd p
  | .var _ => !isEnd p
  | .popen => !isEnd p
  | .pclose => isEnd p
  | .op o => !isEnd p || tblHasBin t o

theorem checkPre_last (t : Table) (toks : List (Tok α)) (h : checkPre t toks = .ok ()) :
    (toks.getLast?.map isOpTok).getD false = false := by
  unfold checkPre at h
  split at h
  · cases h
  split at h
  · cases h
  split at h
  · cases h
  split at h
  · cases h
  split at h
  · cases h
  · rename_i h5
    simpa using h5

theorem stepW_of_pre (t : Table) (toks : List (Tok α)) (hpre : checkPre t toks = .ok ())
    (hadj : noAdjacent toks = true) (i : Nat) (tk : Tok α) (hi : toks[i]? = some tk) :
    stepW t (prevAt toks i) tk = true := by
  obtain ⟨-, hpairs, -⟩ := checkPre_spec t toks hpre
  obtain ⟨-, ⟨tk0, h0, h0c⟩, -⟩ := checkPre_facts t toks hpre
  cases i with
  | zero =>
    have hp : prevAt toks 0 = none := rfl
    rw [hp]
    rw [h0] at hi
    cases hi
    cases tk <;> first | rfl | exact absurd rfl h0c
  | succ i =>
    rw [prevAt_succ]
    cases hq : toks[i]? with
    | none =>
      exfalso
      have hlen : toks.length ≤ i := by
        rcases Nat.lt_or_ge i toks.length with hl | hl
        · rw [List.getElem?_eq_getElem hl] at hq; cases hq
        · exact hl
      have : i + 1 < toks.length := by
        rcases Nat.lt_or_ge (i + 1) toks.length with hl | hl
        · exact hl
        · rw [List.getElem?_eq_none hl] at hi; cases hi
      omega
    | some q =>
      have h1 := pairs_ok t toks hpairs i q tk hq hi
      have h2 := noAdjacent_spec toks hadj i q tk hq hi
      cases q <;> cases tk <;>
        simp [pairViolated, adjPair, stepW, isEnd] at h1 h2 ⊢ <;> simp [h1]

/-! ### lengths along `makeLoop` -/

theorem makeStep_len (t : Table) (toks : List (Tok α)) (vars : List Str) (i : Nat) (tk : Tok α)
    (st st' : MakeSt α) (h : makeStep t toks vars i tk st = .ok st') :
    (∀ o, tk = .op o → ∃ b, isBinaryAt t toks o i = .ok b ∧ st'.nodes.length = st.nodes.length ∧
      st'.ops.length = st.ops.length + (if b then 1 else 0)) ∧
    (isOperand tk = true → st'.nodes.length = st.nodes.length + 1 ∧ st'.ops.length = st.ops.length) ∧
    (tk = .popen ∨ tk = .pclose → st'.nodes.length = st.nodes.length ∧
      st'.ops.length = st.ops.length) := by
  cases tk with
  | op o =>
    refine ⟨?_, (by intro h; cases h), (by intro h; rcases h with h | h <;> cases h)⟩
    intro o' ho'
    cases ho'
    simp only [makeStep] at h
    split at h
    · cases h
    · rename_i hb
      split at h
      · cases h
      · cases h
        exact ⟨true, hb, rfl, by simp⟩
    · rename_i hb
      refine ⟨false, hb, ?_⟩
      split at h
      · cases h
      · cases h
      · cases h; exact ⟨rfl, rfl⟩
      · cases h; exact ⟨rfl, rfl⟩
  | num a =>
    refine ⟨(by intro o h; cases h), ?_, (by intro h; rcases h with h | h <;> cases h)⟩
    intro _
    simp only [makeStep] at h
    split at h
    · cases h
    · cases h
      simp
  | var x =>
    refine ⟨(by intro o h; cases h), ?_, (by intro h; rcases h with h | h <;> cases h)⟩
    intro _
    simp only [makeStep] at h
    split at h
    · cases h
    · split at h
      · cases h
      · cases h
        simp
  | popen =>
    refine ⟨(by intro o h; cases h), (by intro h; cases h), ?_⟩
    intro _
    simp only [makeStep] at h
    cases h
    exact ⟨rfl, rfl⟩
  | pclose =>
    refine ⟨(by intro o h; cases h), (by intro h; cases h), ?_⟩
    intro _
    simp only [makeStep] at h
    split at h
    · split at h
      · cases h
      · rename_i last hlast
        have hne : st.nodes ≠ [] := by
          intro h0
          rw [h0] at hlast
          cases hlast
        have hlen : (st.nodes.dropLast ++ [last]).length = st.nodes.length := by
          have := List.length_pos_iff.2 hne
          simp
          omega
        split at h
        · cases h; exact ⟨rfl, rfl⟩
        · split at h
          · cases h
          · cases h
            refine ⟨?_, rfl⟩
            have := List.length_pos_iff.2 hne
            simp
            omega
    · split at h
      · cases h; exact ⟨rfl, rfl⟩
      · split at h
        · cases h
        · cases h
          exact ⟨rfl, by simp⟩

theorem isOpBin_infix (t : Table) (o : Nat) (p : Option (Tok α)) (hp : isEnd p = true)
    (hbin : tblHasBin t o = true) (b : Bool) (hb : isOperatorBinary t o p = .ok b) : b = true := by
  cases p with
  | none => cases hp
  | some q =>
    cases q with
    | op _ => cases hp
    | popen => cases hp
    | num a => cases hu : tblHasUnary t o <;> simp [isOperatorBinary, hbin, hu] at hb <;> exact hb
    | var a => cases hu : tblHasUnary t o <;> simp [isOperatorBinary, hbin, hu] at hb <;> exact hb
    | pclose => cases hu : tblHasUnary t o <;> simp [isOperatorBinary, hbin, hu] at hb <;> exact hb

/-- a binary operator standing where an operand is expected -/
def Lead (t : Table) (toks : List (Tok α)) (j : Nat) : Prop :=
  ∃ o, toks[j]? = some (.op o) ∧ isBinaryAt t toks o j = .ok true ∧ isEnd (prevAt toks j) = false

theorem drop_cons_facts (toks : List (Tok α)) (i : Nat) (tk : Tok α) (r : List (Tok α))
    (h : toks.drop i = tk :: r) : toks[i]? = some tk ∧ toks.drop (i + 1) = r := by
  refine ⟨?_, ?_⟩
  · have := congrArg (fun l => l[0]?) h
    simpa [List.getElem?_drop] using this
  · have : toks.drop (i + 1) = (toks.drop i).drop 1 := by simp [List.drop_drop]
    rw [this, h]
    rfl

theorem makeLoop_inv (t : Table) (toks : List (Tok α)) (vars : List Str)
    (hW : ∀ i tk, toks[i]? = some tk → stepW t (prevAt toks i) tk = true) :
    ∀ (rest : List (Tok α)) (i : Nat) (st st' : MakeSt α) (k : Nat), toks.drop i = rest →
      i ≤ toks.length →
      makeLoop t toks vars rest i st = .ok st' →
      st.nodes.length + k = st.ops.length + (if isEnd (prevAt toks i) = true then 1 else 0) →
      (k = 0 → ∀ j, j < i → ¬ Lead t toks j) →
      ∃ k', st'.nodes.length + k' =
          st'.ops.length + (if isEnd (prevAt toks toks.length) = true then 1 else 0) ∧
        (k' = 0 → ∀ j, ¬ Lead t toks j) ∧
        ∀ j o, i ≤ j → toks[j]? = some (.op o) → ∃ b, isBinaryAt t toks o j = .ok b
  | [], i, st, st', k, hd, hi, h, hk, hl => by
    rw [makeLoop] at h
    cases h
    have hlen : toks.length ≤ i := by
      have := congrArg List.length hd
      simp at this
      omega
    have hi' : i = toks.length := by omega
    subst hi'
    refine ⟨k, hk, ?_, ?_⟩
    · intro hk0 j hj
      rcases Nat.lt_or_ge j toks.length with hjl | hjl
      · exact hl hk0 j hjl hj
      · obtain ⟨o, ho, -⟩ := hj
        rw [List.getElem?_eq_none hjl] at ho
        cases ho
    · intro j o hj ho
      rw [List.getElem?_eq_none hj] at ho
      cases ho
  | tk :: r, i, st, st', k, hd, hi, h, hk, hl => by
    obtain ⟨htk, hdr⟩ := drop_cons_facts toks i tk r hd
    have hilt : i < toks.length := by
      rcases Nat.lt_or_ge i toks.length with hl' | hl'
      · exact hl'
      · rw [List.getElem?_eq_none hl'] at htk; cases htk
    rw [makeLoop] at h
    split at h
    · cases h
    rename_i st1 hstep
    obtain ⟨l1, l2, l3⟩ := makeStep_len t toks vars i tk st st1 hstep
    have hw := hW i tk htk
    have hprev : prevAt toks (i + 1) = some tk := by rw [prevAt_succ, htk]
    -- the invariant after the step
    have key : ∃ k1, st1.nodes.length + k1 =
          st1.ops.length + (if isEnd (prevAt toks (i + 1)) = true then 1 else 0) ∧
        (k1 = 0 → ∀ j, j < i + 1 → ¬ Lead t toks j) ∧
        (∀ o, tk = .op o → ∃ b, isBinaryAt t toks o i = .ok b) := by
      rw [hprev]
      cases tk with
      | num a =>
        obtain ⟨e1, e2⟩ := l2 rfl
        have hp : isEnd (prevAt toks i) = false := by simpa [stepW] using hw
        rw [hp] at hk
        refine ⟨k, by simp [isEnd] at hk ⊢; omega, ?_, by intro o h; cases h⟩
        intro hk0 j hj
        rcases Nat.lt_or_ge j i with hji | hji
        · exact hl hk0 j hji
        · have : j = i := by omega
          subst this
          rintro ⟨o, ho, -⟩
          rw [htk] at ho
          cases ho
      | var x =>
        obtain ⟨e1, e2⟩ := l2 rfl
        have hp : isEnd (prevAt toks i) = false := by simpa [stepW] using hw
        rw [hp] at hk
        refine ⟨k, by simp [isEnd] at hk ⊢; omega, ?_, by intro o h; cases h⟩
        intro hk0 j hj
        rcases Nat.lt_or_ge j i with hji | hji
        · exact hl hk0 j hji
        · have : j = i := by omega
          subst this
          rintro ⟨o, ho, -⟩
          rw [htk] at ho
          cases ho
      | popen =>
        obtain ⟨e1, e2⟩ := l3 (.inl rfl)
        have hp : isEnd (prevAt toks i) = false := by simpa [stepW] using hw
        rw [hp] at hk
        refine ⟨k, by simp [isEnd] at hk ⊢; omega, ?_, by intro o h; cases h⟩
        intro hk0 j hj
        rcases Nat.lt_or_ge j i with hji | hji
        · exact hl hk0 j hji
        · have : j = i := by omega
          subst this
          rintro ⟨o, ho, -⟩
          rw [htk] at ho
          cases ho
      | pclose =>
        obtain ⟨e1, e2⟩ := l3 (.inr rfl)
        have hp : isEnd (prevAt toks i) = true := by simpa [stepW] using hw
        rw [hp] at hk
        refine ⟨k, by simp [isEnd] at hk ⊢; omega, ?_, by intro o h; cases h⟩
        intro hk0 j hj
        rcases Nat.lt_or_ge j i with hji | hji
        · exact hl hk0 j hji
        · have : j = i := by omega
          subst this
          rintro ⟨o, ho, -⟩
          rw [htk] at ho
          cases ho
      | op o =>
        obtain ⟨b, hb, e1, e2⟩ := l1 o rfl
        have hend : isEnd (some (Tok.op o : Tok α)) = false := rfl
        rw [hend]
        cases hp : isEnd (prevAt toks i) with
        | true =>
          -- infix position: the operator has a binary role, hence is read as binary
          rw [hp] at hk
          have hbin : tblHasBin t o = true := by simpa [stepW, hp] using hw
          have hbt : b = true := isOpBin_infix t o _ hp hbin b hb
          subst hbt
          refine ⟨k, by simp at hk e2 ⊢; omega, ?_, fun o' ho' => by cases ho'; exact ⟨true, hb⟩⟩
          intro hk0 j hj
          rcases Nat.lt_or_ge j i with hji | hji
          · exact hl hk0 j hji
          · have : j = i := by omega
            subst this
            rintro ⟨o', -, -, ho'⟩
            rw [hp] at ho'
            cases ho'
        | false =>
          rw [hp] at hk
          cases b with
          | true =>
            refine ⟨k + 1, by simp at hk e2 ⊢; omega, by intro h; omega,
              fun o' ho' => by cases ho'; exact ⟨true, hb⟩⟩
          | false =>
            refine ⟨k, by simp at hk e2 ⊢; omega, ?_, fun o' ho' => by cases ho'; exact ⟨false, hb⟩⟩
            intro hk0 j hj
            rcases Nat.lt_or_ge j i with hji | hji
            · exact hl hk0 j hji
            · have : j = i := by omega
              subst this
              rintro ⟨o', ho', hb', -⟩
              rw [htk] at ho'
              cases ho'
              rw [hb] at hb'
              cases hb'
    obtain ⟨k1, hk1, hl1, hop⟩ := key
    obtain ⟨k', r1, r2, r3⟩ := makeLoop_inv t toks vars hW r (i + 1) st1 st' k1 hdr hilt h hk1 hl1
    refine ⟨k', r1, r2, ?_⟩
    intro j o hj ho
    rcases Nat.lt_or_ge i j with hij | hij
    · exact r3 j o hij ho
    · have : j = i := by omega
      subst this
      rw [htk] at ho
      cases ho
      exact hop o rfl

/-- **what acceptance by the flat parser says about the tokens** -/
theorem flat_facts (t : Table) (text : Str) (toks : List (Tok α)) (vars : List Str) (f : FlatEx α)
    (hpre : checkPre t toks = .ok ()) (hadj : noAdjacent toks = true)
    (h : makeExpression t text toks vars = .ok f) :
    (∀ j, ¬ Lead t toks j) ∧ ∀ j o, toks[j]? = some (.op o) → ∃ b, isBinaryAt t toks o j = .ok b := by
  unfold makeExpression at h
  split at h
  · cases h
  rename_i st hst
  split at h
  · cases h
  rename_i hcount
  have hcnt : st.ops.length + 1 = st.nodes.length := by simpa using hcount
  obtain ⟨k', r1, r2, r3⟩ := makeLoop_inv t toks vars (stepW_of_pre t toks hpre hadj) toks 0 {} st 0
    rfl (Nat.zero_le _) hst (by simp [prevAt, isEnd]) (fun _ j hj => absurd hj (Nat.not_lt_zero j))
  have hk0 : k' = 0 := by
    split at r1 <;> omega
  exact ⟨r2 hk0, fun j o ho => r3 j o (Nat.zero_le _) ho⟩

end Exmex.AnyText
