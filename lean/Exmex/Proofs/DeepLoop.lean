/-
  C02 (deep form): the invariant of the folding loop of `DeepEx::compile`. The loop is the one of
  `FlatEx::compile` (see `CompileLoop.lean`) on `DeepNode`s; nodes that are not literals keep their
  value.
-/
import Exmex.Proofs.CompileLoop
import Exmex.Proofs.DeepEval
namespace Exmex
namespace DeepCompile
open ReduceSplitAux CompileSound

/-- the total version of `bin_ops.ops[idx].apply` for the operator at position `k` of a group -/
abbrev dApplyT {α} (I : Interp α) (ops : List DBin) (k : Nat) (a b : α) : α :=
  I.bin (ops.getD k default).idx a b

/-- what is kept about every node -/
def Good {α} (I : Interp α) (n : Nat) (nd : DeepNode α) : Prop := nd.ShapeN n ∧ nodeAssoc I nd

theorem good_num {α} (I : Interp α) (n : Nat) (a : α) : Good I n (.num a) :=
  ⟨by rw [DeepNode.ShapeN]; trivial, trivial⟩

/-- invariant of the folding loop: `bs` are the operators still to be visited, `ns` their
    (adjusted) node indices -/
structure DInv {α : Type} (I : Interp α) (ops : List DBin) (key : Nat → Int) (vals : List α)
    (target : Option α) (bs ns : List Nat) (st : DCompileSt α) : Prop where
  hlen : st.nodes.length = (remOf ops.length st.used).length + 1
  dlen : st.declined.length = st.nodes.length
  pend : ∀ b ∈ bs, b ∈ remOf ops.length st.used
  nodup : bs.Nodup
  sorted : bs.Pairwise (SortSplitAux.R key)
  ninds : ns = bs.map (fun b => (remOf ops.length st.used).idxOf b)
  decl : ∀ q (h : q < (remOf ops.length st.used).length), (remOf ops.length st.used)[q] ∉ bs →
    st.declined.getD q false = true ∧ st.declined.getD (q + 1) false = true
  good : ∀ nd ∈ st.nodes, Good I vals.length nd
  value : splitEval (dApplyT I ops) key (remOf ops.length st.used).length
    (st.nodes.map (nval I vals)) (remOf ops.length st.used) = target
  folded : FoldRec key ops.length (remOf ops.length st.used)

section
variable {α : Type} {I : Interp α} {ops : List DBin} {key : Nat → Int} {vals : List α}
  {target : Option α} {b nidx : Nat} {bs ns : List Nat} {st : DCompileSt α}

/-- position facts shared by both kinds of step -/
theorem DInv.pos (h : DInv I ops key vals target (b :: bs) (nidx :: ns) st) :
    nidx = (remOf ops.length st.used).idxOf b ∧ ns = bs.map (fun b => (remOf ops.length st.used).idxOf b) ∧
    ∃ hp : nidx < (remOf ops.length st.used).length, (remOf ops.length st.used)[nidx] = b := by
  have := h.ninds
  simp only [List.map_cons, List.cons.injEq] at this
  obtain ⟨e1, e2⟩ := this
  have hb := h.pend b List.mem_cons_self
  have hp : (remOf ops.length st.used).idxOf b < (remOf ops.length st.used).length :=
    List.idxOf_lt_length_iff.2 hb
  refine ⟨e1, e2, ?_⟩
  subst e1
  exact ⟨hp, List.getElem_idxOf hp⟩

/-- the operator is not folded: both slots are marked -/
theorem DInv.skip (h : DInv I ops key vals target (b :: bs) (nidx :: ns) st) :
    DInv I ops key vals target bs ns
      { st with declined := (st.declined.set nidx true).set (nidx + 1) true } := by
  obtain ⟨e1, e2, hp, hb⟩ := h.pos
  have hn := List.nodup_cons.1 h.nodup
  refine { hlen := h.hlen, dlen := by simp [h.dlen], pend := fun x hx => h.pend x (List.mem_cons_of_mem _ hx),
           nodup := hn.2, sorted := (List.pairwise_cons.1 h.sorted).2, ninds := e2, decl := ?_,
           good := h.good, value := h.value, folded := h.folded }
  intro q hq hnot
  show ((st.declined.set nidx true).set (nidx + 1) true).getD q false = true ∧
    ((st.declined.set nidx true).set (nidx + 1) true).getD (q + 1) false = true
  have hl := h.hlen
  have hd := h.dlen
  by_cases hqp : q = nidx
  · subst hqp
    constructor
    · exact getD_set_true_of (getD_set_true_self (by omega))
    · exact getD_set_true_self (by simp; omega)
  · have hne : (remOf ops.length st.used)[q] ≠ b := by
      intro e
      rw [← hb] at e
      exact hqp (sorted_getElem_inj (remOf_sorted ops.length st.used) hq hp e)
    have := h.decl q hq (by
      intro hm
      rcases List.mem_cons.1 hm with e | e
      · exact hne e
      · exact hnot e)
    exact ⟨getD_set_true_of (getD_set_true_of this.1), getD_set_true_of (getD_set_true_of this.2)⟩

theorem getD_map_key (rem : List Nat) (key : Nat → Int) (q : Nat) (hq : q < rem.length) :
    (rem.map key).getD q 0 = key rem[q] := by
  simp [List.getD_eq_getElem?_getD, hq]

/-- the operator is folded -/
theorem DInv.fold (h : DInv I ops key vals target (b :: bs) (nidx :: ns) st)
    {a a' : α}
    (h1 : st.nodes[nidx]? = some (.num a)) (h2 : st.nodes[nidx + 1]? = some (.num a'))
    (hd1 : st.declined.getD nidx false = false) (hd2 : st.declined.getD (nidx + 1) false = false) :
    DInv I ops key vals target bs (ns.map (fun j => if j > nidx then j - 1 else j))
      { nodes := (st.nodes.set nidx (.num (dApplyT I ops b a a'))).eraseIdx (nidx + 1),
        declined := st.declined.eraseIdx (nidx + 1),
        used := st.used ++ [b] } := by
  obtain ⟨-, e2, hp, hb⟩ := h.pos
  have hn := List.nodup_cons.1 h.nodup
  have hsort := List.pairwise_cons.1 h.sorted
  have hl := h.hlen
  have hdl := h.dlen
  have hs := remOf_sorted ops.length st.used
  have hrem' : remOf ops.length (st.used ++ [b]) = (remOf ops.length st.used).eraseIdx nidx :=
    remOf_append (by rw [List.getElem?_eq_getElem hp, hb])
  have hmem' : ∀ x, x ∈ remOf ops.length (st.used ++ [b]) ↔ x ∈ remOf ops.length st.used ∧ x ≠ b := by
    intro x
    simp only [mem_remOf, List.mem_append, List.mem_singleton]
    constructor
    · rintro ⟨x1, x2⟩; exact ⟨⟨x1, fun hx => x2 (Or.inl hx)⟩, fun hx => x2 (Or.inr hx)⟩
    · rintro ⟨⟨x1, x2⟩, x3⟩; exact ⟨x1, fun hx => hx.elim x2 x3⟩
  have hdecl := h.decl
  have hpend := h.pend
  have hval := h.value
  have hfold := h.folded
  obtain ⟨rem, hrem⟩ : ∃ rem, remOf ops.length st.used = rem := ⟨_, rfl⟩
  simp only [hrem] at e2 hp hb hl hs hrem' hmem' hdecl hpend hval hfold
  have hlen' : (rem.eraseIdx nidx).length = rem.length - 1 := List.length_eraseIdx_of_lt hp
  -- the neighbours have not been visited yet
  have hL : ∀ (h0 : 0 < nidx), rem[nidx - 1] ∈ bs := by
    intro h0
    apply Classical.byContradiction
    intro hnot
    have hne : rem[nidx - 1] ≠ b := by
      intro e
      have := sorted_getElem_inj hs (by omega) hp (e.trans hb.symm)
      omega
    have := (hdecl (nidx - 1) (by omega) (by
      intro hm
      rcases List.mem_cons.1 hm with e | e
      · exact hne e
      · exact hnot e)).2
    rw [show nidx - 1 + 1 = nidx by omega, hd1] at this
    cases this
  have hR : ∀ (h0 : nidx + 1 < rem.length), rem[nidx + 1] ∈ bs := by
    intro h0
    apply Classical.byContradiction
    intro hnot
    have hne : rem[nidx + 1] ≠ b := by
      intro e
      have := sorted_getElem_inj hs h0 hp (e.trans hb.symm)
      omega
    have := (hdecl (nidx + 1) h0 (by
      intro hm
      rcases List.mem_cons.1 hm with e | e
      · exact hne e
      · exact hnot e)).1
    rw [hd2] at this
    cases this
  have hLkey : ∀ (h0 : 0 < nidx), key rem[nidx - 1] < key b := by
    intro h0
    have hR' := hsort.1 _ (hL h0)
    have : rem[nidx - 1] < rem[nidx] := sorted_getElem_lt hs hp (by omega)
    rw [hb] at this
    have h2 := hR'.2
    have h1 := hR'.1
    rcases Int.lt_or_eq_of_le h1 with h3 | h3
    · exact h3
    · have := h2 h3.symm; omega
  have hn1 : nidx < st.nodes.length := by omega
  have hn2 : nidx + 1 < st.nodes.length := by omega
  have hnew : ∀ nd, nd ∈ (st.nodes.set nidx (.num (dApplyT I ops b a a'))).eraseIdx (nidx + 1) →
      nd ∈ st.nodes ∨ nd = (.num (dApplyT I ops b a a')) :=
    fun nd hnd => List.mem_or_eq_of_mem_set (List.mem_of_mem_eraseIdx hnd)
  refine { hlen := ?_, dlen := ?_, pend := ?_, nodup := hn.2, sorted := hsort.2, ninds := ?_,
           decl := ?_, good := ?_, value := ?_, folded := ?_ }
  · show ((st.nodes.set nidx _).eraseIdx (nidx + 1)).length = (remOf ops.length (st.used ++ [b])).length + 1
    rw [hrem', hlen', List.length_eraseIdx_of_lt (by simpa using hn2), List.length_set]
    omega
  · show (st.declined.eraseIdx (nidx + 1)).length = ((st.nodes.set nidx _).eraseIdx (nidx + 1)).length
    rw [List.length_eraseIdx_of_lt (by omega), List.length_eraseIdx_of_lt (by simpa using hn2),
      List.length_set, hdl]
  · intro x hx
    show x ∈ remOf ops.length (st.used ++ [b])
    rw [hmem']
    exact ⟨hpend x (List.mem_cons_of_mem _ hx), fun e => hn.1 (e ▸ hx)⟩
  · show _ = bs.map (fun x => (remOf ops.length (st.used ++ [b])).idxOf x)
    rw [hrem', e2, List.map_map]
    apply List.map_congr_left
    intro x hx
    have hxr : x ∈ rem := hpend x (List.mem_cons_of_mem _ hx)
    have hxb : x ≠ rem[nidx] := by rw [hb]; exact fun e => hn.1 (e ▸ hx)
    simp only [Function.comp]
    rw [idxOf_eraseIdx (sorted_nodup hs) hp hxr hxb]
  · show ∀ q (hq : q < (remOf ops.length (st.used ++ [b])).length),
      (remOf ops.length (st.used ++ [b]))[q] ∉ bs →
      (st.declined.eraseIdx (nidx + 1)).getD q false = true ∧
        (st.declined.eraseIdx (nidx + 1)).getD (q + 1) false = true
    rw [hrem']
    intro q hq hnot
    rw [hlen'] at hq
    rw [List.getElem_eraseIdx] at hnot
    rw [getD_eraseIdx_bool, getD_eraseIdx_bool]
    by_cases hqp : q < nidx
    · rw [dif_pos hqp] at hnot
      have hne : rem[q] ≠ b := by
        intro e
        rw [← hb] at e
        have := sorted_getElem_inj hs (by omega) hp e
        omega
      have := hdecl q (by omega) (by
        intro hm
        rcases List.mem_cons.1 hm with e | e
        · exact hne e
        · exact hnot e)
      rw [if_pos (by omega), if_pos (by omega)]
      exact this
    · rw [dif_neg hqp] at hnot
      have hq1 : nidx + 1 ≤ q := by
        rcases Nat.lt_or_ge nidx q with h' | h'
        · exact h'
        · have : q = nidx := by omega
          subst this
          exact absurd (hR (by omega)) hnot
      have hne : rem[q + 1] ≠ b := by
        intro e
        rw [← hb] at e
        have := sorted_getElem_inj hs (by omega) hp e
        omega
      have := hdecl (q + 1) (by omega) (by
        intro hm
        rcases List.mem_cons.1 hm with e | e
        · exact hne e
        · exact hnot e)
      rw [if_neg (by omega), if_neg (by omega)]
      exact this
  · intro nd hnd
    rcases hnew nd hnd with h' | h'
    · exact h.good nd h'
    · subst h'; exact good_num I _ _
  · show splitEval (dApplyT I ops) key (remOf ops.length (st.used ++ [b])).length
      (((st.nodes.set nidx (.num (dApplyT I ops b a a'))).eraseIdx (nidx + 1)).map
        (nval I vals)) (remOf ops.length (st.used ++ [b])) = target
    rw [hrem', hlen', List.eraseIdx_set_gt (by omega), List.map_set, map_eraseIdx', ← hval]
    have hv1 : nval I vals (.num a) = a := nval_num I vals a
    have hv2 : nval I vals (.num a') = a' := nval_num I vals a'
    have hvn : nval I vals ((.num (dApplyT I ops b a a')) : DeepNode α) =
        dApplyT I ops b a a' := nval_num I vals _
    rw [hvn]
    have := splitEval_merge (dApplyT I ops) key (rem.length - 1) (st.nodes.map (nval I vals))
      rem nidx b a a' (by rw [List.length_map]; omega) (by omega)
      (by rw [List.getElem?_eq_getElem hp, hb])
      (by rw [List.getElem?_map, h1, Option.map_some, hv1])
      (by rw [List.getElem?_map, h2, Option.map_some, hv2])
      (by
        constructor
        · intro j hj
          rw [getD_map_key rem key j (by omega), getD_map_key rem key nidx hp, hb]
          have := hLkey (by omega)
          have e : nidx - 1 = j := by omega
          subst e
          exact this
        · intro h0
          rw [List.length_map] at h0
          rw [getD_map_key rem key _ h0, getD_map_key rem key nidx hp, hb]
          exact (hsort.1 _ (hR h0)).1)
    rw [this, show rem.length - 1 + 1 = rem.length by omega]
  · show FoldRec key ops.length (remOf ops.length (st.used ++ [b]))
    intro m hmn hm x hx hxm
    rw [hmem'] at hm hx
    by_cases hmr : m ∈ rem
    · have hmb : m = b := Classical.byContradiction fun hne => hm ⟨hmr, hne⟩
      subst hmb
      obtain ⟨q, hq, rfl⟩ := List.getElem_of_mem hx.1
      have hqp : q < nidx := sorted_idx_lt hs hq hp (by rw [hb]; exact hxm)
      refine ⟨rem[nidx - 1], sorted_getElem_le hs (by omega) (by omega), ?_, hLkey (by omega)⟩
      have := sorted_getElem_lt hs hp (show nidx - 1 < nidx by omega)
      rw [hb] at this
      exact this
    · exact hfold m hmn hmr x hx.1 hxm

/-- one iteration of the folding loop -/
theorem DInv.step (h : DInv I ops key vals target (b :: bs) (nidx :: ns) st) :
    ∃ st' ns', dcompileStep I ops st b nidx ns = .ok (st', ns') ∧
      DInv I ops key vals target bs ns' st' := by
  obtain ⟨-, -, hp, hb⟩ := h.pos
  have hl := h.hlen
  have hbn : b < ops.length := (mem_remOf.1 (h.pend b List.mem_cons_self)).1
  have hn1 : nidx < st.nodes.length := by omega
  have hn2 : nidx + 1 < st.nodes.length := by omega
  obtain ⟨n1, h1⟩ : ∃ n1, st.nodes[nidx]? = some n1 := ⟨_, List.getElem?_eq_getElem hn1⟩
  obtain ⟨n2, h2⟩ : ∃ n2, st.nodes[nidx + 1]? = some n2 := ⟨_, List.getElem?_eq_getElem hn2⟩
  unfold dcompileStep
  rw [h1, h2]
  dsimp only
  cases n1 with
  | var i nm => cases n2 <;> exact ⟨_, _, rfl, h.skip⟩
  | expr e => cases n2 <;> exact ⟨_, _, rfl, h.skip⟩
  | num a =>
    cases n2 with
    | var i nm => exact ⟨_, _, rfl, h.skip⟩
    | expr e => exact ⟨_, _, rfl, h.skip⟩
    | num a' =>
      dsimp only
      cases hd1 : st.declined.getD nidx false with
      | true => exact ⟨_, _, rfl, h.skip⟩
      | false =>
        cases hd2 : st.declined.getD (nidx + 1) false with
        | true => exact ⟨_, _, rfl, h.skip⟩
        | false =>
          have hfa : deepApply I ops b a a' = some (dApplyT I ops b a a') := by
            simp [deepApply, dApplyT, List.getElem?_eq_getElem hbn, List.getD_eq_getElem?_getD]
          simp only [Bool.or_self, Bool.not_false, if_true, hfa]
          exact ⟨_, _, rfl, h.fold h1 h2 hd1 hd2⟩

/-- the whole folding loop -/
theorem DInv.loop : ∀ (bs ns : List Nat) (st : DCompileSt α),
    DInv I ops key vals target bs ns st →
    ∃ st', dcompileLoop I ops bs ns st = .ok st' ∧ DInv I ops key vals target [] [] st' := by
  intro bs
  induction bs with
  | nil =>
    intro ns st h
    have : ns = [] := by simpa using h.ninds
    subst this
    exact ⟨st, rfl, h⟩
  | cons b bs ih =>
    intro ns st h
    cases ns with
    | nil => have := h.ninds; simp at this
    | cons nidx ns =>
      obtain ⟨st', ns', hs, h'⟩ := h.step
      obtain ⟨st'', hl, h''⟩ := ih ns' st' h'
      refine ⟨st'', ?_, h''⟩
      rw [dcompileLoop, hs]
      exact hl

end


end DeepCompile
end Exmex
