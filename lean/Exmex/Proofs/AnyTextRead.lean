/-
  Token streams that alternate are renderings of chains.

  `allOK t none toks` is a purely local (neighbour-to-neighbour) description of a token stream in
  which operands and binary operators alternate inside every parenthesis group: every token is
  either in "operand expected" position (start, after `(`, after an operator) or in "operand
  finished" position (after a number, a variable, a `)`), and
    * numbers, variables and `(` stand in "operand expected" position only,
    * `)` stands in "operand finished" position only,
    * an operator in "operand finished" position has a binary role, an operator in "operand
      expected" position has a unary role,
    * the stream does not end with an operator.
  Together with paren balance (`closes 0 toks`) this makes the stream the canonical token stream of
  a `Chain` (`chain_of_allOK`), to which the chain-level theorems (C01/C02/C03 at parser level)
  apply.
-/
import Exmex.Proofs.MakeFlat
import Exmex.Proofs.DiffFlat
namespace Exmex.AnyText
open Exmex.Diff

variable {α : Type}

/-- the previous token finishes an operand -/
def isEnd : Option (Tok α) → Bool
  | some (.num _) => true
  | some (.var _) => true
  | some .pclose => true
  | _ => false

def stepOK (t : Table) (p : Option (Tok α)) : Tok α → Bool
  | .num _ => !isEnd p
  | .var _ => !isEnd p
  | .popen => !isEnd p
  | .pclose => isEnd p
  | .op o => if isEnd p then tblHasBin t o else tblHasUnary t o

def notOp : Option (Tok α) → Bool
  | some (.op _) => false
  | _ => true

def allOK (t : Table) : Option (Tok α) → List (Tok α) → Bool
  | p, [] => notOp p
  | p, tk :: r => stepOK t p tk && allOK t (some tk) r

/-- the list closes exactly `n` open parentheses and never more than are open -/
def closes : Nat → List (Tok α) → Bool
  | n, [] => n == 0
  | n, .popen :: r => closes (n + 1) r
  | 0, .pclose :: _ => false
  | n + 1, .pclose :: r => closes n r
  | n, .num _ :: r => closes n r
  | n, .var _ :: r => closes n r
  | n, .op _ :: r => closes n r

theorem hasBin_spec (t : Table) (o : Nat) (h : tblHasBin t o = true) :
    ∃ b, (t[o]?).bind (·.bin) = some b := by
  unfold tblHasBin at h
  cases ht : t[o]? with
  | none => rw [ht] at h; cases h
  | some s =>
    rw [ht] at h
    simp only [Option.any, OpSpec.hasBin] at h
    cases hb : s.bin with
    | none => rw [hb] at h; cases h
    | some b => exact ⟨b, by simp [hb]⟩

theorem wf_of_hasBin (t : Table) (hP : TblPrio t) (o : Nat) (h : tblHasBin t o = true) :
    ∃ b', (t[o]?).bind (·.bin) = some b' ∧ 0 ≤ b'.prio ∧ b'.prio ≤ 99 := by
  obtain ⟨b, hb⟩ := hasBin_spec t o h
  have := hP o { idx := o, prio := b.prio, comm := b.comm } (by simp [tblBin, hb])
  exact ⟨b, hb, this.1, this.2⟩

/-- what reading one operand gives -/
def AtomP (I : Interp α) (t : Table) (n : Nat) (l : List (Tok α)) : Prop :=
  ∃ (a : Atom α) (r : List (Tok α)) (e : Tok α), l = a.toks I ++ r ∧ isEnd (some e) = true ∧
    allOK t (some e) r = true ∧ closes n r = true ∧ a.Roles t ∧ a.WF t

/-- what reading operands and operators up to the end of the group gives -/
def ChainP (I : Interp α) (t : Table) (n : Nat) (l : List (Tok α)) : Prop :=
  ∃ (c : Chain α) (r : List (Tok α)), l = c.toks I ++ r ∧ closes n r = true ∧
    (r = [] ∨ ∃ e r', r = .pclose :: r' ∧ isEnd (some e) = true ∧ allOK t (some e) r = true) ∧
    c.Roles t ∧ c.WF t

theorem allOK_cons (t : Table) (p : Option (Tok α)) (tk : Tok α) (r : List (Tok α))
    (h : allOK t p (tk :: r) = true) : stepOK t p tk = true ∧ allOK t (some tk) r = true := by
  rw [allOK, Bool.and_eq_true] at h
  exact h

theorem read_all (I : Interp α) (t : Table) (hP : TblPrio t) : ∀ N : Nat,
    (∀ (l : List (Tok α)) (p : Option (Tok α)) (n : Nat), l.length ≤ N → l ≠ [] →
      isEnd p = false → allOK t p l = true → closes n l = true → AtomP I t n l) ∧
    (∀ (l : List (Tok α)) (p : Option (Tok α)) (n : Nat), l.length ≤ N → l ≠ [] →
      isEnd p = false → allOK t p l = true → closes n l = true → ChainP I t n l) := by
  intro N
  induction N with
  | zero =>
    refine ⟨?_, ?_⟩ <;>
    · intro l p n hl hne
      cases l with
      | nil => exact absurd rfl hne
      | cons x xs => simp at hl
  | succ N ih =>
    obtain ⟨ihA, ihC⟩ := ih
    have hA : ∀ (l : List (Tok α)) (p : Option (Tok α)) (n : Nat), l.length ≤ N + 1 → l ≠ [] →
        isEnd p = false → allOK t p l = true → closes n l = true → AtomP I t n l := by
      intro l p n hl hne hp hok hcl
      cases l with
      | nil => exact absurd rfl hne
      | cons tk r =>
        obtain ⟨hstep, hrest⟩ := allOK_cons t p tk r hok
        have hrl : r.length ≤ N := by simp at hl; omega
        cases tk with
        | num a =>
          rw [closes] at hcl
          exact ⟨.lit [] a, r, .num a, by simp [Atom.toks], rfl, hrest, hcl,
            by simp [Atom.Roles], by simp [Atom.WF]⟩
        | var x =>
          rw [closes] at hcl
          exact ⟨.var x false, r, .var x, by simp [Atom.toks], rfl, hrest, hcl,
            by simp [Atom.Roles], by simp [Atom.WF]⟩
        | pclose =>
          rw [stepOK, hp] at hstep
          cases hstep
        | popen =>
          rw [closes] at hcl
          have hr : r ≠ [] := by
            intro h
            rw [h, closes] at hcl
            simp at hcl
          obtain ⟨c, r1, e1, e2, e3, e4, e5⟩ := ihC r (some .popen) (n + 1) hrl hr rfl hrest hcl
          rcases e3 with e3 | ⟨e, r', e3, e6, e7⟩
          · rw [e3, closes] at e2
            simp at e2
          · rw [e3] at e1 e2 e7
            rw [closes] at e2
            obtain ⟨-, e8⟩ := allOK_cons t _ _ _ e7
            refine ⟨.par c, r', .pclose, ?_, rfl, e8, e2, ?_, ?_⟩
            · rw [e1]
              simp [Atom.toks]
            · rw [Atom.Roles]; exact e4
            · rw [Atom.WF]; exact e5
        | op u =>
          rw [closes] at hcl
          rw [stepOK, hp] at hstep
          have hu : tblHasUnary t u = true := by simpa using hstep
          have hr : r ≠ [] := by
            intro h
            rw [h, allOK] at hrest
            cases hrest
          obtain ⟨a, r1, e, e1, e2, e3, e4, e5, e6⟩ := ihA r (some (.op u)) n hrl hr rfl hrest hcl
          refine ⟨.un u a, r1, e, ?_, e2, e3, e4, ?_, ?_⟩
          · rw [e1]
            simp [Atom.toks]
          · rw [Atom.Roles]; exact ⟨hu, e5⟩
          · rw [Atom.WF]; exact e6
    refine ⟨hA, ?_⟩
    intro l p n hl hne hp hok hcl
    obtain ⟨a, r, e, e1, e2, e3, e4, e5, e6⟩ := hA l p n hl hne hp hok hcl
    have hsingle : (r = [] ∨ ∃ e r', r = Tok.pclose :: r' ∧ isEnd (some e) = true ∧
        allOK t (some e) r = true) → ChainP I t n l := by
      intro h
      exact ⟨.single a, r, by rw [e1]; simp [Chain.toks], e4, h,
        by rw [Chain.Roles]; exact e5, by rw [Chain.WF]; exact e6⟩
    cases r with
    | nil => exact hsingle (.inl rfl)
    | cons tk r2 =>
      obtain ⟨hstep, hrest⟩ := allOK_cons t _ tk r2 e3
      cases tk with
      | num b => rw [stepOK, e2] at hstep; cases hstep
      | var x => rw [stepOK, e2] at hstep; cases hstep
      | popen => rw [stepOK, e2] at hstep; cases hstep
      | pclose => exact hsingle (.inr ⟨e, r2, rfl, e2, e3⟩)
      | op o =>
        rw [stepOK, e2] at hstep
        have ho : tblHasBin t o = true := by simpa using hstep
        rw [closes] at e4
        have hr : r2 ≠ [] := by
          intro h
          rw [h, allOK] at hrest
          cases hrest
        have hlen : r2.length ≤ N := by
          have : l.length = (a.toks I).length + (r2.length + 1) := by rw [e1]; simp
          omega
        obtain ⟨c, r3, f1, f2, f3, f4, f5⟩ := ihC r2 (some (.op o)) n hlen hr rfl hrest e4
        refine ⟨.cons a o c, r3, ?_, f2, f3, ?_, ?_⟩
        · rw [e1, f1]
          simp [Chain.toks]
        · rw [Chain.Roles]; exact ⟨ho, e5, f4⟩
        · rw [Chain.WF]; exact ⟨wf_of_hasBin t hP o ho, e6, f5⟩

/-- **an alternating, balanced token stream is the token stream of a chain** -/
theorem chain_of_allOK (I : Interp α) (t : Table) (hP : TblPrio t) (toks : List (Tok α))
    (hne : toks ≠ []) (hok : allOK t none toks = true) (hcl : closes 0 toks = true) :
    ∃ c : Chain α, c.toks I = toks ∧ c.WF t ∧ c.Roles t := by
  obtain ⟨c, r, e1, e2, e3, e4, e5⟩ :=
    (read_all I t hP toks.length).2 toks none 0 (Nat.le_refl _) hne rfl hok hcl
  rcases e3 with e3 | ⟨e, r', e3, -, -⟩
  · rw [e3, List.append_nil] at e1
    exact ⟨c, e1.symm, e5, e4⟩
  · rw [e3, closes] at e2
    cases e2

end Exmex.AnyText
