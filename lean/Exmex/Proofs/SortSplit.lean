/-
  L3: evaluation in the stable, descending priority order = "split at the right-most operator
  of minimal key" (the operator applied last), recursively.
-/
import Exmex.Model.Flat
import Exmex.Spec.Order
import Exmex.Spec.Split
import Exmex.Proofs.EvalOrder
import Exmex.Proofs.SortSplitAux
namespace Exmex

/-- `orderByKey` (stable insertion sort of `0..n` by descending key) is a legal application order -/
theorem orderByKey_valid (key : Nat → Int) (n : Nat) : ValidOrder (orderByKey key n) n := by
  have hp := SortSplitAux.orderByKey_perm key n
  exact ⟨hp.nodup_iff.2 List.nodup_range, fun k hk => List.mem_range.1 (hp.mem_iff.1 hk)⟩

/-- and it mentions every operator -/
theorem orderByKey_complete (key : Nat → Int) (n : Nat) (k : Nat) (hk : k < n) :
    k ∈ orderByKey key n :=
  (SortSplitAux.orderByKey_perm key n).mem_iff.2 (List.mem_range.2 hk)

/-- changing the operator type along a map does not change `splitEval` -/
theorem splitEval_map {α ω ω' : Type} (f : ω' → ω) (apply : ω → α → α → α) (key : ω → Int)
    (fuel : Nat) (vs : List α) (os : List ω') :
    splitEval apply key fuel vs (os.map f) =
      splitEval (fun o => apply (f o)) (fun o => key (f o)) fuel vs os := by
  induction fuel generalizing vs os with
  | zero =>
    by_cases h : ∃ v, vs = [v] ∧ os = []
    · obtain ⟨v, rfl, rfl⟩ := h
      simp [splitEval.eq_1]
    · rw [splitEval.eq_2, splitEval.eq_2]
      · intro v h1 h2; exact h ⟨v, h1, h2⟩
      · intro v h1 h2; exact h ⟨v, h1, List.map_eq_nil_iff.1 h2⟩
  | succ fuel ih =>
    by_cases h : ∃ v, vs = [v] ∧ os = []
    · obtain ⟨v, rfl, rfl⟩ := h
      simp [splitEval.eq_1]
    · rw [splitEval.eq_3, splitEval.eq_3]
      · simp only [List.map_map, List.getElem?_map, ← List.map_take, ← List.map_drop, ih]
        have e : List.map (key ∘ f) os = List.map (fun o => key (f o)) os := rfl
        rw [e]
        cases os[argminR (List.map (fun o => key (f o)) os)]? <;> rfl
      · intro v h1 h2; exact h ⟨v, h1, h2⟩
      · intro v h1 h2; exact h ⟨v, h1, List.map_eq_nil_iff.1 h2⟩

/-- **L3.** Reducing in the stable descending order of the keys yields the split tree. -/
theorem reduceByOrder_sorted_eq_splitEval {α : Type} (apply : Nat → α → α → α) (key : Nat → Int)
    (vals : List α) (hne : vals ≠ []) :
    ∃ v, reduceByOrder apply vals (orderByKey key (vals.length - 1)) = some v ∧
      splitEval apply key vals.length vals (List.range (vals.length - 1)) = some v := by
  have hlen : 0 < vals.length := List.length_pos_iff.2 hne
  have hp := SortSplitAux.orderByKey_perm key (vals.length - 1)
  obtain ⟨v, h1, h2⟩ := SortSplitAux.reduce_split apply key (vals.length - 1) vals.length vals
    (List.range (vals.length - 1)) (orderByKey key (vals.length - 1)) (by simp) (by omega)
    (by omega) List.pairwise_lt_range (hp.nodup_iff.2 List.nodup_range) (fun x => hp.mem_iff)
    (SortSplitAux.orderByKey_sorted key _)
  exact ⟨v, by simp [reduceByOrder, h1], h2⟩


end Exmex
