/-
  Deep form: basic facts about the invariants (`Shape`, `Assoc`) as statements about the members of
  a node list, evaluation of one group as a split evaluation, totality of evaluation on
  well-shaped expressions, and soundness of `lift_nodes`.
-/
import Exmex.Model.Deep
import Exmex.Proofs.DeepDefs
import Exmex.Proofs.DeepGroup
namespace Exmex
namespace DeepCompile

/-! ### invariants, node by node -/

/-- `Assoc` for one node -/
def nodeAssoc {α} (I : Interp α) : DeepNode α → Prop
  | .expr e => e.Assoc I
  | _ => True

theorem assocList_cons {α} (I : Interp α) (nd : DeepNode α) (rest : List (DeepNode α)) :
    assocList I (nd :: rest) ↔ nodeAssoc I nd ∧ assocList I rest := by
  cases nd <;> simp [assocList, nodeAssoc]

theorem assocList_iff {α} (I : Interp α) (l : List (DeepNode α)) :
    assocList I l ↔ ∀ nd ∈ l, nodeAssoc I nd := by
  induction l with
  | nil => simp [assocList]
  | cons nd rest ih => rw [assocList_cons, ih]; simp

theorem shapeList_iff {α} (n : Nat) (l : List (DeepNode α)) :
    shapeList n l ↔ ∀ nd ∈ l, nd.ShapeN n := by
  induction l with
  | nil => simp [shapeList]
  | cons nd rest ih => rw [shapeList, ih]; simp

theorem deepAssoc_sublist {α} (I : Interp α) {ops ops' : List DBin} (h : DeepAssoc I ops)
    (hs : ∀ o ∈ ops', o ∈ ops) : DeepAssoc I ops' :=
  fun o ho => h o (hs o ho)

/-! ### evaluation of node lists -/

theorem evalNodeList_length {α} (I : Interp α) (vals : List α) :
    ∀ (l : List (DeepNode α)) (vs : List α), evalNodeList I vals l = .ok vs → vs.length = l.length := by
  intro l
  induction l with
  | nil =>
    intro vs h
    rw [evalNodeList] at h
    cases h; rfl
  | cons nd rest ih =>
    intro vs h
    rw [evalNodeList] at h
    cases h1 : nd.evalNode I vals with
    | error e => rw [h1] at h; cases h
    | ok v =>
      rw [h1] at h
      cases h2 : evalNodeList I vals rest with
      | error e => rw [h2] at h; cases h
      | ok vs' =>
        rw [h2] at h
        cases h
        simp [ih vs' h2]

/-- total value of a node -/
def nval {α} (I : Interp α) (vals : List α) (nd : DeepNode α) : α :=
  match nd.evalNode I vals with
  | .ok v => v
  | .error _ => I.dflt

theorem nval_num {α} (I : Interp α) (vals : List α) (a : α) : nval I vals (.num a) = a := by
  unfold nval; rw [DeepNode.evalNode]

theorem evalNodeList_eq_map {α} (I : Interp α) (vals : List α) :
    ∀ (l : List (DeepNode α)), (∀ nd ∈ l, ∃ v, nd.evalNode I vals = .ok v) →
      evalNodeList I vals l = .ok (l.map (nval I vals)) := by
  intro l
  induction l with
  | nil => intro _; rw [evalNodeList]; rfl
  | cons nd rest ih =>
    intro h
    obtain ⟨v, hv⟩ := h nd List.mem_cons_self
    rw [evalNodeList, hv, ih (fun x hx => h x (List.mem_cons_of_mem _ hx))]
    simp [nval, hv]

/-! ### one group -/

/-- the value of a group whose nodes evaluate to `numbers` -/
theorem eval_mk {α} (I : Interp α) (vals : List α) (nodes : List (DeepNode α)) (ops : List DBin)
    (un : List Nat) (vars : List Str) (numbers : List α) (hv : vars.length ≤ vals.length)
    (hn : evalNodeList I vals nodes = .ok numbers) (hlen : numbers.length = ops.length + 1)
    (hA : DeepAssoc I ops) :
    ∃ v, splitEval (fun (o : DBin) a b => I.bin o.idx a b) (fun o => o.prio) ops.length numbers ops =
        some v ∧
      (DeepEx.mk nodes ops un vars).evalRelaxed I vals = .ok (applyUn I un v) := by
  obtain ⟨v, h1, h2⟩ := deepGroup_eval I ops nodes numbers hlen hA
  refine ⟨v, h1, ?_⟩
  rw [DeepEx.evalRelaxed, if_neg (by omega), hn]
  simp only [h2]

/-- changing the nodes of a group without changing their values does not change the value -/
theorem eval_congr_nodes {α} (I : Interp α) (vals : List α) (nodes nodes' : List (DeepNode α))
    (ops : List DBin) (un : List Nat) (vars : List Str)
    (hn : evalNodeList I vals nodes' = evalNodeList I vals nodes)
    (hlen : nodes.length = ops.length + 1) (hA : DeepAssoc I ops) :
    (DeepEx.mk nodes' ops un vars).evalRelaxed I vals = (DeepEx.mk nodes ops un vars).evalRelaxed I vals := by
  by_cases hv : vars.length ≤ vals.length
  · cases h : evalNodeList I vals nodes with
    | error e =>
      rw [DeepEx.evalRelaxed, DeepEx.evalRelaxed, hn, h]
    | ok numbers =>
      have hl : numbers.length = ops.length + 1 := by
        rw [evalNodeList_length I vals nodes numbers h, hlen]
      obtain ⟨v, h1, h2⟩ := eval_mk I vals nodes ops un vars numbers hv h hl hA
      obtain ⟨v', h1', h2'⟩ := eval_mk I vals nodes' ops un vars numbers hv (hn.trans h) hl hA
      rw [h1] at h1'
      cases h1'
      rw [h2, h2']
  · rw [DeepEx.evalRelaxed, DeepEx.evalRelaxed, if_pos (by omega), if_pos (by omega)]

/-- a group with one node and no unary chain evaluates to the node -/
theorem eval_single {α} (I : Interp α) (vals : List α) (nd : DeepNode α) (ops : List DBin)
    (vars : List Str) (hv : vars.length ≤ vals.length) (hops : ops = []) :
    (DeepEx.mk [nd] ops [] vars).evalRelaxed I vals = nd.evalNode I vals := by
  subst hops
  rw [DeepEx.evalRelaxed, if_neg (by omega), evalNodeList, evalNodeList]
  cases h : nd.evalNode I vals with
  | error e => rfl
  | ok v =>
    simp only []
    have : prioIdxDeep [] [nd] = [] := rfl
    rw [this]
    simp [evalBinary, evalBinaryLoop, applyUn]

/-! ### totality -/

mutual
theorem eval_total {α} (I : Interp α) (vals : List α) :
    ∀ e : DeepEx α, e.Shape vals.length → ∃ v, e.evalRelaxed I vals = .ok v
  | .mk nodes ops un vars, h => by
    rw [DeepEx.Shape] at h
    obtain ⟨vs, hvs⟩ := nodes_total I vals nodes h.2.2
    have hl : vs.length = ops.length + 1 := by
      rw [evalNodeList_length I vals nodes vs hvs, h.1]
    have hne : vs ≠ [] := by
      intro h0; rw [h0] at hl; simp at hl
    have hπ : ValidOrder (prioIdxDeep ops nodes) (vs.length - 1) := by
      rw [hl, Nat.add_sub_cancel]; exact orderByKey_valid _ _
    obtain ⟨v, -, he⟩ := C14.evalBinary_words_any_order I.dflt
      (fun k a b => I.bin (ops.getD k default).idx a b) vs (prioIdxDeep ops nodes) hπ hne
    have hcongr : ∀ k ∈ prioIdxDeep ops nodes, ∀ a b, deepApply I ops k a b =
        (fun k a b => some ((fun k a b => I.bin (ops.getD k default).idx a b) k a b)) k a b := by
      intro k hk a b
      have hk' : k < ops.length := (orderByKey_valid _ _).lt k hk
      simp [deepApply, List.getElem?_eq_getElem hk']
    refine ⟨applyUn I un v, ?_⟩
    rw [DeepEx.evalRelaxed, if_neg (by omega), hvs]
    simp only []
    rw [C14.evalBinary_congr _ _ _ _ _ _ _ hcongr, he]
theorem node_total {α} (I : Interp α) (vals : List α) :
    ∀ nd : DeepNode α, nd.ShapeN vals.length → ∃ v, nd.evalNode I vals = .ok v
  | .num a, _ => ⟨a, by rw [DeepNode.evalNode]⟩
  | .var i nm, h => by
    rw [DeepNode.ShapeN] at h
    refine ⟨vals[i], ?_⟩
    rw [DeepNode.evalNode, List.getElem?_eq_getElem h]
  | .expr e, h => by
    rw [DeepNode.ShapeN] at h
    rw [DeepNode.evalNode]
    exact eval_total I vals e h
theorem nodes_total {α} (I : Interp α) (vals : List α) :
    ∀ l : List (DeepNode α), shapeList vals.length l → ∃ vs, evalNodeList I vals l = .ok vs
  | [], _ => ⟨[], by rw [evalNodeList]⟩
  | nd :: rest, h => by
    rw [shapeList] at h
    obtain ⟨v, hv⟩ := node_total I vals nd h.1
    obtain ⟨vs, hvs⟩ := nodes_total I vals rest h.2
    exact ⟨v :: vs, by rw [evalNodeList, hv, hvs]⟩
end

theorem evalNodeList_shape {α} (I : Interp α) (vals : List α) (l : List (DeepNode α))
    (h : shapeList vals.length l) : evalNodeList I vals l = .ok (l.map (nval I vals)) :=
  evalNodeList_eq_map I vals l
    (fun nd hnd => node_total I vals nd ((shapeList_iff _ _).1 h nd hnd))

/-! ### `lift_nodes` -/

theorem liftNodeList_length {α} : ∀ l : List (DeepNode α), (liftNodeList l).length = l.length := by
  intro l
  induction l with
  | nil => rw [liftNodeList]
  | cons nd rest ih => rw [liftNodeList]; simp [ih]

theorem lift_sound {α} (I : Interp α) (vals : List α) :
    (∀ e : DeepEx α, e.Shape vals.length → e.Assoc I →
      e.liftNodes.Shape vals.length ∧ e.liftNodes.Assoc I ∧
        e.liftNodes.evalRelaxed I vals = e.evalRelaxed I vals) ∧
    (∀ l : List (DeepNode α), shapeList vals.length l → assocList I l →
      shapeList vals.length (liftNodeList l) ∧ assocList I (liftNodeList l) ∧
        evalNodeList I vals (liftNodeList l) = evalNodeList I vals l) ∧
    (∀ nd : DeepNode α, nd.ShapeN vals.length → nodeAssoc I nd →
      nd.liftNode.ShapeN vals.length ∧ nodeAssoc I nd.liftNode ∧
        nd.liftNode.evalNode I vals = nd.evalNode I vals) := by
  apply DeepEx.liftNodes.mutual_induct
  · -- wrapped number
    intro ops' vars' a hs _
    rw [DeepNode.ShapeN, DeepEx.Shape] at hs
    rw [DeepNode.liftNode]
    refine ⟨by rw [DeepNode.ShapeN]; trivial, trivial, ?_⟩
    rw [DeepNode.evalNode, DeepNode.evalNode,
      eval_single I vals _ ops' vars' hs.2.1 (by
        have := hs.1; simp at this; exact this),
      DeepNode.evalNode]
  · -- wrapped variable
    intro ops' vars' i v hs _
    rw [DeepNode.ShapeN, DeepEx.Shape, shapeList] at hs
    rw [DeepNode.liftNode]
    refine ⟨hs.2.2.1, trivial, ?_⟩
    rw [DeepNode.evalNode.eq_3,
      eval_single I vals _ ops' vars' hs.2.1 (by
        have := hs.1; simp at this; exact this)]
  · -- wrapped expression, the lifted content is a single node
    intro ops' vars' ed ed' hc ih hs ha
    rw [DeepNode.ShapeN, DeepEx.Shape, shapeList, DeepNode.ShapeN] at hs
    rw [nodeAssoc, DeepEx.Assoc, assocList] at ha
    obtain ⟨i1, i2, i3⟩ := ih hs.2.2.1 ha.2.1
    rw [DeepNode.liftNode.eq_3, if_pos hc]
    refine ⟨by rw [DeepNode.ShapeN]; exact i1, i2, ?_⟩
    rw [DeepNode.evalNode.eq_3, DeepNode.evalNode.eq_3, i3,
      eval_single I vals _ ops' vars' hs.2.1 (by
        have := hs.1; simp at this; exact this),
      DeepNode.evalNode.eq_3]
  · -- wrapped expression, the wrapper stays
    intro ops' vars' ed ed' hc ih hs ha
    rw [DeepNode.ShapeN, DeepEx.Shape, shapeList, DeepNode.ShapeN] at hs
    rw [nodeAssoc, DeepEx.Assoc, assocList] at ha
    obtain ⟨i1, i2, i3⟩ := ih hs.2.2.1 ha.2.1
    rw [DeepNode.liftNode.eq_3, if_neg hc]
    have hops : ops' = [] := by
      have := hs.1; simp at this; exact this
    refine ⟨?_, ?_, ?_⟩
    · rw [DeepNode.ShapeN, DeepEx.Shape, shapeList, DeepNode.ShapeN]
      exact ⟨hs.1, hs.2.1, i1, hs.2.2.2⟩
    · rw [nodeAssoc, DeepEx.Assoc, assocList]
      exact ⟨ha.1, i2, ha.2.2⟩
    · rw [DeepNode.evalNode.eq_3, DeepNode.evalNode.eq_3,
        eval_single I vals _ ops' vars' hs.2.1 hops, eval_single I vals _ ops' vars' hs.2.1 hops,
        DeepNode.evalNode.eq_3, DeepNode.evalNode.eq_3, i3]
  · -- any other node
    intro other hne hs ha
    rw [DeepNode.liftNode.eq_4 other hne]
    exact ⟨hs, ha, rfl⟩
  · -- a group that only wraps an expression
    intro ops un vars e hc hs ha
    rw [DeepEx.Shape, shapeList, DeepNode.ShapeN] at hs
    rw [DeepEx.Assoc, assocList] at ha
    rw [DeepEx.liftNodes.eq_1, if_pos hc]
    have hun : un = [] := by
      simp at hc; exact hc
    subst hun
    refine ⟨hs.2.2.1, ha.2.1, ?_⟩
    rw [eval_single I vals _ ops vars hs.2.1 (by
        have := hs.1; simp at this; exact this),
      DeepNode.evalNode.eq_3]
  · -- a single-node group whose node is not an expression
    intro n ops un vars hc hne hs ha
    have : (DeepEx.mk n ops un vars).liftNodes = DeepEx.mk n ops un vars := by
      rw [DeepEx.liftNodes.eq_def]
      simp only [hc, if_true]
    rw [this]
    exact ⟨hs, ha, rfl⟩
  · -- the general group
    intro n ops un vars hc ih hs ha
    have : (DeepEx.mk n ops un vars).liftNodes = DeepEx.mk (liftNodeList n) ops un vars := by
      rw [DeepEx.liftNodes.eq_def]
      simp only [hc]
      rfl
    rw [this]
    rw [DeepEx.Shape] at hs
    rw [DeepEx.Assoc] at ha
    obtain ⟨i1, i2, i3⟩ := ih hs.2.2 ha.2
    refine ⟨?_, ?_, ?_⟩
    · rw [DeepEx.Shape, liftNodeList_length]
      exact ⟨hs.1, hs.2.1, i1⟩
    · rw [DeepEx.Assoc]
      exact ⟨ha.1, i2⟩
    · exact eval_congr_nodes I vals n (liftNodeList n) ops un vars i3 hs.1 ha.1
  · intro _ _
    rw [liftNodeList]
    exact ⟨by rw [shapeList]; trivial, by rw [assocList]; trivial, rfl⟩
  · intro nd rest ih1 ih2 hs ha
    rw [shapeList] at hs
    rw [assocList_cons] at ha
    obtain ⟨a1, a2, a3⟩ := ih1 hs.1 ha.1
    obtain ⟨b1, b2, b3⟩ := ih2 hs.2 ha.2
    rw [liftNodeList]
    refine ⟨by rw [shapeList]; exact ⟨a1, b1⟩, by rw [assocList_cons]; exact ⟨a2, b2⟩, ?_⟩
    rw [evalNodeList, evalNodeList, a3, b3]

end DeepCompile
end Exmex
