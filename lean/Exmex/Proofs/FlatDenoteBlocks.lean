/-
  "Block substitution" for `splitEval`: a chain whose operands are themselves flattened groups of
  strictly higher priority evaluates like the chain of the groups' values.
-/
import Exmex.Proofs.FlatDenoteAux
namespace Exmex
namespace FlatDenoteAux
open SplitLemmas

variable {α : Type}

/-- `Blocks I lo f ns os vs tos`: the operand vector `ns` / operator sequence `os` consist of
    groups (values `vs`, all operators of priority `≥ lo`) joined by the operators `f o`,
    `o ∈ tos`. -/
inductive Blocks (I : Interp α) (lo : Int) (f : Nat → FlatOp) :
    List α → List FlatOp → List α → List Nat → Prop
  | single {bn bo v} : GroupOK I bn bo lo v → Blocks I lo f bn bo [v] []
  | cons {bn bo v top ns os vs tos} : GroupOK I bn bo lo v → Blocks I lo f ns os vs tos →
      Blocks I lo f (bn ++ ns) (bo ++ f top :: os) (v :: vs) (top :: tos)

theorem Blocks.len {I : Interp α} {lo f ns os vs tos} (h : Blocks I lo f ns os vs tos) :
    ns.length = os.length + 1 ∧ vs.length = tos.length + 1 := by
  induction h with
  | single hg => exact ⟨hg.len, rfl⟩
  | cons hg _ ih => have := hg.len; simp; omega

theorem Blocks.mem {I : Interp α} {lo f ns os vs tos} (h : Blocks I lo f ns os vs tos) :
    ∀ x ∈ os, (∃ o ∈ tos, x = f o) ∨ lo ≤ x.prio := by
  induction h with
  | single hg => intro x hx; exact Or.inr (hg.lo x hx)
  | cons hg _ ih =>
    intro x hx
    rcases List.mem_append.1 hx with hx | hx
    · exact Or.inr (hg.lo x hx)
    · rcases List.mem_cons.1 hx with rfl | hx
      · exact Or.inl ⟨_, List.mem_cons_self .., rfl⟩
      · rcases ih x hx with ⟨o, ho, rfl⟩ | h
        · exact Or.inl ⟨o, List.mem_cons_of_mem _ ho, rfl⟩
        · exact Or.inr h

theorem Blocks.split {I : Interp α} {lo : Int} {f : Nat → FlatOp} :
    ∀ (tL : List Nat) {top : Nat} {tR : List Nat} {ns : List α} {os : List FlatOp} {vs : List α},
    Blocks I lo f ns os vs (tL ++ top :: tR) →
    ∃ nsL osL vsL nsR osR vsR, ns = nsL ++ nsR ∧ os = osL ++ f top :: osR ∧ vs = vsL ++ vsR ∧
      Blocks I lo f nsL osL vsL tL ∧ Blocks I lo f nsR osR vsR tR
  | [], top, tR, ns, os, vs, h => by
    rw [List.nil_append] at h
    cases h with
    | cons hg hr => exact ⟨_, _, [_], _, _, _, rfl, rfl, rfl, Blocks.single hg, hr⟩
  | x :: tL, top, tR, ns, os, vs, h => by
    rw [List.cons_append] at h
    cases h with
    | cons hg hr =>
      obtain ⟨nsL, osL, vsL, nsR, osR, vsR, rfl, rfl, rfl, hL, hR⟩ := Blocks.split tL hr
      exact ⟨_, _, _ :: vsL, nsR, osR, vsR, (List.append_assoc ..).symm,
        by rw [List.append_assoc]; rfl, rfl, Blocks.cons hg hL, hR⟩

/-- **block substitution** -/
theorem Blocks.eval {I : Interp α} {lo : Int} {f : Nat → FlatOp} (bin' : Nat → α → α → α)
    (key' : Nat → Int) (hact : ∀ o a b, FlatOp.act I (f o) a b = bin' o a b)
    (hle : ∀ o o', (f o).prio ≤ (f o').prio ↔ key' o ≤ key' o') :
    ∀ (n : Nat) {tos : List Nat} {ns : List α} {os : List FlatOp} {vs : List α},
      tos.length ≤ n → Blocks I lo f ns os vs tos → (∀ o ∈ tos, (f o).prio < lo) →
      splitEval (FlatOp.act I) (fun o => o.prio) os.length ns os =
        splitEval bin' key' tos.length vs tos
  | n, [], ns, os, vs, _, h, _ => by
    cases h with
    | single hg => rw [hg.ev, splitEval_single]
  | 0, _ :: _, _, _, _, hn, _, _ => by simp at hn
  | n + 1, t0 :: tos0, ns, os, vs, hn, h, hlo => by
    obtain ⟨tL, top, tR, he, hL, hR⟩ := exists_split_min key' (t0 :: tos0) (by simp)
    rw [he] at h hlo hn ⊢
    obtain ⟨nsL, osL, vsL, nsR, osR, vsR, rfl, rfl, rfl, bL, bR⟩ := Blocks.split tL h
    have hlenL := bL.len
    have hlt : ∀ o o', (f o).prio < (f o').prio ↔ key' o < key' o' := by
      intro o o'
      have := hle o' o
      constructor <;> intro h' <;> omega
    have htop : (f top).prio < lo := hlo top (by simp)
    rw [splitEval_append' _ _ _ _ _ _ _ hlenL.1
        (by
          intro x hx
          rcases bL.mem x hx with ⟨o, ho, rfl⟩ | hx
          · exact (hle _ _).2 (hL o ho)
          · show (f top).prio ≤ x.prio
            omega)
        (by
          intro x hx
          rcases bR.mem x hx with ⟨o, ho, rfl⟩ | hx
          · exact (hlt _ _).2 (hR o ho)
          · show (f top).prio < x.prio
            omega),
      splitEval_append' bin' key' _ _ _ _ _ hlenL.2 hL hR]
    simp only [List.length_append, List.length_cons] at hn
    rw [Blocks.eval bin' key' hact hle n (by omega) bL
        (fun o ho => hlo o (List.mem_append_left _ ho)),
      Blocks.eval bin' key' hact hle n (by omega) bR
        (fun o ho => hlo o (List.mem_append_right _ (List.mem_cons_of_mem _ ho)))]
    simp only [hact]

end FlatDenoteAux
end Exmex
