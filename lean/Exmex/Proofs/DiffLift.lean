/-
  C05, lifting layer: the dual-number interpretation `dualInterp` projected to its value
  component is the ordinary interpretation; the shape of `dualInterp` on operators with a rule;
  the value component of the dual evaluation of an expression is its ordinary value.
-/
import Exmex.Proofs.DiffRules
import Exmex.Proofs.DiffBinary
namespace Exmex.Diff
open Exmex.C10 Exmex.C05 Exmex.Shortcut Exmex.CalcLemmas Exmex.DeepCompile

/-! ### `reduceByOrder` commutes with a homomorphism -/

section
variable {α β : Type} (f : β → α) (apJ : Nat → β → β → β) (apI : Nat → α → α → α)
  (S : Nat → Prop) (h : ∀ k, S k → ∀ a b, f (apJ k a b) = apI k (f a) (f b))
include h

theorem reduceStep_map (st : OrderSt β) (k : Nat) (hk : S k) :
    reduceStep apI (st.1.map f, st.2) k = (reduceStep apJ st k).map (fun s => (s.1.map f, s.2)) := by
  unfold reduceStep
  simp only []
  cases st.2.idxOf? k with
  | none => rfl
  | some p =>
    simp only [List.getElem?_map]
    cases st.1[p]? with
    | none => rfl
    | some a =>
      cases st.1[p + 1]? with
      | none => rfl
      | some b =>
        simp [h k hk, List.map_take, List.map_drop]

theorem reduceLoop_map (π : List Nat) (hπ : ∀ k ∈ π, S k) :
    ∀ st : OrderSt β, reduceLoop apI π (st.1.map f, st.2) =
      (reduceLoop apJ π st).map (fun s => (s.1.map f, s.2)) := by
  induction π with
  | nil => intro st; rfl
  | cons k ks ih =>
    intro st
    rw [reduceLoop, reduceLoop, reduceStep_map f apJ apI S h st k (hπ k List.mem_cons_self)]
    cases reduceStep apJ st k with
    | none => rfl
    | some st' => exact ih (fun j hj => hπ j (List.mem_cons_of_mem _ hj)) st'

theorem reduceByOrder_map (ws : List β) (π : List Nat) (hπ : ∀ k ∈ π, S k) :
    reduceByOrder apI (ws.map f) π = (reduceByOrder apJ ws π).map f := by
  unfold reduceByOrder
  have := reduceLoop_map f apJ apI S h π hπ (ws, List.range (ws.length - 1))
  simp only [List.length_map] at this ⊢
  rw [this]
  cases reduceLoop apJ π (ws, List.range (ws.length - 1)) with
  | none => rfl
  | some s =>
    obtain ⟨vs, r⟩ := s
    cases vs <;> rfl

end

/-! ### `lift` -/

section
variable {K : Type} (C : CalcOps K)

theorem liftList_length : ∀ l : List (DeepNode K), (liftList C l).length = l.length
  | [] => by rw [liftList]; rfl
  | nd :: rest => by rw [liftList, List.length_cons, List.length_cons, liftList_length rest]

theorem liftList_isNum : ∀ l : List (DeepNode K), (liftList C l).map (·.isNum) = l.map (·.isNum)
  | [] => by rw [liftList]; rfl
  | nd :: rest => by
    rw [liftList, List.map_cons, List.map_cons, liftList_isNum rest]
    cases nd <;> rfl

theorem prioIdxDeep_hcongr {α β} (ops : List DBin) (n : List (DeepNode α)) (n' : List (DeepNode β))
    (h : n'.map (·.isNum) = n.map (·.isNum)) : prioIdxDeep ops n' = prioIdxDeep ops n := by
  have hk : ∀ k, deepIsNumAt n' k = deepIsNumAt n k := fun k => by
    rw [deepIsNumAt_eq, deepIsNumAt_eq, h]
  have hb : ∀ k, deepBumped ops n' k = deepBumped ops n k := fun k => by
    unfold deepBumped
    rw [hk, hk]
  have hs : deepSortKey ops n' = deepSortKey ops n := by
    funext k
    unfold deepSortKey
    rw [hb]
  unfold prioIdxDeep
  rw [hs]

theorem prio_lift (ops : List DBin) (nodes : List (DeepNode K)) :
    prioIdxDeep ops (liftList C nodes) = prioIdxDeep ops nodes :=
  prioIdxDeep_hcongr ops nodes (liftList C nodes) (liftList_isNum C nodes)

theorem lift_mk (nodes : List (DeepNode K)) (ops : List DBin) (un : List Nat) (vars : List Str) :
    (DeepEx.mk nodes ops un vars).lift C = DeepEx.mk (liftList C nodes) ops un vars := by
  rw [DeepEx.lift]

end

/-! ### the dual interpretation on operators -/

section
variable {K : Type} [DecidableEq K] (D : DArith K)

theorem dualBin_none (n : String) (h : n ∉ binRuleNames) (x y : DVal K) :
    dualBin D n x y = none := by
  simp only [binRuleNames, List.mem_cons, List.not_mem_nil, or_false, not_or] at h
  unfold dualBin
  split <;> simp_all

omit [DecidableEq K] in
theorem outerDeriv_some (n : String) (h : n ∈ unRuleNames) (a : K) :
    ∃ od, outerDeriv D n a = some od := by
  simp only [unRuleNames, List.mem_cons, List.not_mem_nil, or_false] at h
  rcases h with rfl | rfl | rfl | rfl | rfl | rfl | rfl | rfl | rfl | rfl | rfl | rfl | rfl | rfl |
    rfl | rfl | rfl | rfl | rfl | rfl <;> exact ⟨_, rfl⟩

end

section
variable {K : Type} [DecidableEq K] (I : Interp K) (C : CalcOps K) (t : Table) (A : Arith I C t)
  (hnames : (t.map (·.repr)).Nodup)
include A hnames

/-- the value component of the dual binary operators is the ordinary operator -/
theorem dual_bin_val (i : Nat) (hi : BinOK t i) (x y : DVal K) :
    ((dualInterp I C t).bin i x y).val = I.bin i x.val y.val := by
  show ((dualBin (dArith I C t) (String.ofList (reprOf t i)) x y).getD
    ⟨I.bin i x.val y.val, C.zero, false⟩).val = _
  by_cases h8 : String.ofList (reprOf t i) ∈ [">", "<", ">=", "<=", "==", "!=", "if", "else"]
  · -- a comparison, `if` or `else`: `dArith.bop` under the name is the operator `i` itself
    obtain ⟨op, hop⟩ := hi h8
    have hne : reprOf t i ≠ [] := by
      intro h0
      rw [h0] at h8
      revert h8
      decide
    have hidx : i = op.idx := binIdx_eq t hnames _ op hop i rfl hne
    have hop' : findBinOp t (String.ofList (reprOf t i)).toList = .ok op := by
      rw [String.toList_ofList]; exact hop
    have hb : ∀ a b, (dArith I C t).bop (String.ofList (reprOf t i)) a b = I.bin i a b := by
      intro a b
      rw [dArith_bop I C t _ op hop', ← hidx]
    by_cases hc : String.ofList (reprOf t i) ∈ [">", "<", "!=", "==", "<=", ">="]
    · rw [dualBin_cmp _ _ hc]
      exact hb _ _
    · have hp : String.ofList (reprOf t i) ∈ ["if", "else"] := by
        simp only [List.mem_cons, List.not_mem_nil, or_false] at h8 hc ⊢
        grind
      rw [dualBin_pw _ _ hp]
      exact hb _ _
  by_cases hm : String.ofList (reprOf t i) ∈ ["+", "-", "*", "/", "^"]
  · generalize hn : String.ofList (reprOf t i) = name at hm
    have hr := ofList_eq hn
    simp only [List.mem_cons, List.not_mem_nil, or_false] at hm
    rcases hm with rfl | rfl | rfl | rfl | rfl
    · rw [dualBin_add, binIdx_eq t hnames _ A.add A.hadd i hr (by decide)]
      exact dArith_add I C t A _ _
    · rw [dualBin_sub, binIdx_eq t hnames _ A.sub A.hsub i hr (by decide)]
      exact dArith_sub I C t A _ _
    · rw [dualBin_mul, binIdx_eq t hnames _ A.mul A.hmul i hr (by decide)]
      exact dArith_mul I C t A _ _
    · rw [dualBin_div, binIdx_eq t hnames _ A.div A.hdiv i hr (by decide)]
      exact dArith_div I C t A _ _
    · rw [dualBin_pow, binIdx_eq t hnames _ A.pow A.hpow i hr (by decide)]
      exact dArith_pow I C t A _ _
  · rw [dualBin_none _ _ (by
      simp only [binRuleNames, List.mem_cons, List.not_mem_nil, or_false] at h8 hm ⊢
      grind)]
    rfl

omit A [DecidableEq K] in
/-- the name-indexed unary function of `dArith` at the name of a unary operator of the table -/
theorem fn_of_unary (u : Nat) (hu : tblHasUnary t u = true) (a : K) :
    (dArith I C t).fn (String.ofList (reprOf t u)) a = I.un u a := by
  apply dArith_fn
  rw [String.toList_ofList]
  exact findUnary_of t hnames u hu

omit A in
/-- the dual unary operator with a rule: chain rule -/
theorem dual_un_eq (u : Nat) (hu : tblHasUnary t u = true) (x : DVal K) (od : K)
    (hod : outerDeriv (dArith I C t) (String.ofList (reprOf t u)) x.val = some od) :
    (dualInterp I C t).un u x = ⟨I.un u x.val, (dArith I C t).mul od x.der, x.ok⟩ := by
  show (dualUn (dArith I C t) (String.ofList (reprOf t u)) x).getD _ = _
  obtain ⟨a, a', p⟩ := x
  simp only [dualUn]
  rw [hod]
  simp only [Option.map, Option.getD]
  rw [fn_of_unary I C t hnames u hu]

omit A in
theorem dual_un_val (u : Nat) (hu : tblHasUnary t u = true) (x : DVal K) :
    ((dualInterp I C t).un u x).val = I.un u x.val := by
  cases hod : outerDeriv (dArith I C t) (String.ofList (reprOf t u)) x.val with
  | some od => rw [dual_un_eq I C t hnames u hu x od hod]
  | none =>
    show ((dualUn (dArith I C t) (String.ofList (reprOf t u)) x).getD _).val = _
    obtain ⟨a, a', p⟩ := x
    simp only [dualUn]
    rw [hod]
    rfl

omit A in
theorem applyUn_val (us : List Nat) (hus : ∀ u ∈ us, tblHasUnary t u = true) (w : DVal K) :
    (applyUn (dualInterp I C t) us w).val = applyUn I us w.val := by
  induction us with
  | nil => rfl
  | cons u rest ih =>
    show ((dualInterp I C t).un u (applyUn (dualInterp I C t) rest w)).val = I.un u (applyUn I rest w.val)
    rw [dual_un_val I C t hnames u (hus u List.mem_cons_self), ih (fun v hv => hus v (List.mem_cons_of_mem _ hv))]

omit A in
theorem applyUn_ok (us : List Nat) (hus : ∀ u ∈ us, tblHasUnary t u = true)
    (hr : ∀ u ∈ us, String.ofList (reprOf t u) ∈ unRuleNames) (w : DVal K) :
    (applyUn (dualInterp I C t) us w).ok = w.ok := by
  induction us with
  | nil => rfl
  | cons u rest ih =>
    show ((dualInterp I C t).un u (applyUn (dualInterp I C t) rest w)).ok = w.ok
    obtain ⟨od, hod⟩ := outerDeriv_some (dArith I C t) _ (hr u List.mem_cons_self)
      (applyUn (dualInterp I C t) rest w).val
    rw [dual_un_eq I C t hnames u (hus u List.mem_cons_self) _ od hod]
    exact ih (fun v hv => hus v (List.mem_cons_of_mem _ hv)) (fun v hv => hr v (List.mem_cons_of_mem _ hv))

end

/-! ### node-wise forms of the structural predicates -/

section
variable {K : Type}

def ScopedNode (t : Table) (T : List Str) : DeepNode K → Prop
  | .expr e => Scoped t T e
  | _ => True

theorem scopedList_cons (t : Table) (T : List Str) (nd : DeepNode K) (rest : List (DeepNode K)) :
    scopedList t T (nd :: rest) ↔ ScopedNode t T nd ∧ scopedList t T rest := by
  cases nd <;> simp [scopedList, ScopedNode]

def RuledNode (t : Table) : DeepNode K → Prop
  | .expr e => Ruled t e
  | _ => True

theorem ruledList_cons (t : Table) (nd : DeepNode K) (rest : List (DeepNode K)) :
    ruledList t (nd :: rest) ↔ RuledNode t nd ∧ ruledList t rest := by
  cases nd <;> simp [ruledList, RuledNode]

end

/-! ### the value component of the dual evaluation -/

section
variable {K : Type} [DecidableEq K] (I : Interp K) (C : CalcOps K) (t : Table) (A : Arith I C t)
  (hnames : (t.map (·.repr)).Nodup) (T : List Str) (ρ : Str → K) (x : Str)
include A hnames
set_option linter.unusedSectionVars false

mutual
theorem lift_val : ∀ e : DeepEx K, Named T e → Scoped t T e → BinT t e → ∀ w,
    (e.lift C).evalRelaxed (dualInterp I C t) (T.map (seed C ρ x)) = .ok w →
      e.evalRelaxed I (T.map ρ) = .ok w.val
  | .mk nodes ops un vars, hn, hs, hb, w, h => by
    rw [lift_mk] at h
    rw [Named] at hn
    rw [Scoped] at hs
    rw [BinT] at hb
    obtain ⟨ws, v, hv, hnl, hl, hred, hw⟩ := eval_group_inv (dualInterp I C t) _ (liftList C nodes)
      ops un vars w (by rw [liftList_length]; exact hn.1) h
    have hI := lift_val_list nodes hn.2.2 hs.2.2.2 hb.2 ws hnl
    rw [List.length_map] at hv
    rw [liftList_length] at hl
    obtain ⟨v', h1, h2⟩ := eval_group I (T.map ρ) nodes ops un vars (ws.map (·.val))
      (by rw [List.length_map]; exact hv) hI (by rw [List.length_map, hl]; exact hn.1)
    rw [h2, hw, applyUn_val I C t hnames un hs.2.2.1]
    have hπ : ValidOrder (prioIdxDeep ops nodes) ops.length := orderByKey_valid _ _
    have hm := reduceByOrder_map (fun (w : DVal K) => w.val) (gApply (dualInterp I C t) ops)
      (gApply I ops) (fun k => k < ops.length)
      (fun k hk a b => by
        have hmem : ops.getD k default ∈ ops := by
          rw [List.getD_eq_getElem?_getD, List.getElem?_eq_getElem hk]
          exact List.getElem_mem hk
        exact dual_bin_val I C t A hnames _ (hb.1 _ hmem) a b)
      ws (prioIdxDeep ops nodes) hπ.lt
    rw [prio_lift] at hred
    rw [hm, hred] at h1
    cases h1
    rfl
theorem lift_val_node : ∀ nd : DeepNode K, NamedNode T nd → ScopedNode t T nd → BinTNode t nd → ∀ w,
    (nd.lift C).evalNode (dualInterp I C t) (T.map (seed C ρ x)) = .ok w →
      nd.evalNode I (T.map ρ) = .ok w.val
  | .num a, _, _, _, w, h => by
    rw [DeepNode.lift, DeepNode.evalNode] at h
    cases h
    rw [DeepNode.evalNode]
  | .var i nm, hn, _, _, w, h => by
    rw [NamedNode] at hn
    rw [DeepNode.lift, DeepNode.evalNode, List.getElem?_map, hn] at h
    simp only [Option.map] at h
    cases h
    rw [DeepNode.evalNode, List.getElem?_map, hn]
    rfl
  | .expr e, hn, hs, hb, w, h => by
    rw [NamedNode] at hn
    rw [ScopedNode] at hs
    rw [BinTNode] at hb
    rw [DeepNode.lift, DeepNode.evalNode] at h
    rw [DeepNode.evalNode]
    exact lift_val e hn hs hb w h
theorem lift_val_list : ∀ l : List (DeepNode K), namedList T l → scopedList t T l → binTList t l → ∀ ws,
    evalNodeList (dualInterp I C t) (T.map (seed C ρ x)) (liftList C l) = .ok ws →
      evalNodeList I (T.map ρ) l = .ok (ws.map (·.val))
  | [], _, _, _, ws, h => by
    rw [liftList, evalNodeList] at h
    cases h
    rw [evalNodeList]
    rfl
  | nd :: rest, hn, hs, hb, ws, h => by
    rw [namedList] at hn
    rw [scopedList_cons] at hs
    rw [binTList_cons] at hb
    rw [liftList, evalNodeList] at h
    cases h1 : (nd.lift C).evalNode (dualInterp I C t) (T.map (seed C ρ x)) with
    | error e => rw [h1] at h; cases h
    | ok v =>
      cases h2 : evalNodeList (dualInterp I C t) (T.map (seed C ρ x)) (liftList C rest) with
      | error e => rw [h1, h2] at h; cases h
      | ok vs =>
        rw [h1, h2] at h
        cases h
        rw [evalNodeList, lift_val_node nd hn.1 hs.1 hb.1 v h1, lift_val_list rest hn.2 hs.2 hb.2 vs h2]
        rfl
end

end

end Exmex.Diff
