/-
  C05, lifting layer: the dual-number interpretation `dualInterp` projected to its value
  component is the ordinary interpretation; the shape of `dualInterp` on operators with a rule;
  the value component of the dual evaluation of an expression is its ordinary value.
-/
import Exmex.Proofs.DiffRules
namespace Exmex.Diff
open Exmex.C10 Exmex.C05 Exmex.Shortcut Exmex.CalcLemmas Exmex.DeepCompile

/-! ### `reduceByOrder` commutes with a homomorphism -/

section
variable {α β : Type} (f : β → α) (apJ : Nat → β → β → β) (apI : Nat → α → α → α)
  (h : ∀ k a b, f (apJ k a b) = apI k (f a) (f b))
include h

theorem reduceStep_map (st : OrderSt β) (k : Nat) :
    reduceStep apI (st.1.map f, st.2) k = (reduceStep apJ st k).map (fun s => (s.1.map f, s.2)) := by
  unfold reduceStep
  simp only []
  cases st.2.idxOf? k with
  | none => rfl
  | some p =>
    simp only [List.getElem?_map]
    cases st.1[p]? with
    | none => rfl
    | some a =>
      cases st.1[p + 1]? with
      | none => rfl
      | some b =>
        simp [h, List.map_take, List.map_drop]

theorem reduceLoop_map (π : List Nat) :
    ∀ st : OrderSt β, reduceLoop apI π (st.1.map f, st.2) =
      (reduceLoop apJ π st).map (fun s => (s.1.map f, s.2)) := by
  induction π with
  | nil => intro st; rfl
  | cons k ks ih =>
    intro st
    rw [reduceLoop, reduceLoop, reduceStep_map f apJ apI h]
    cases reduceStep apJ st k with
    | none => rfl
    | some st' => exact ih st'

theorem reduceByOrder_map (ws : List β) (π : List Nat) :
    reduceByOrder apI (ws.map f) π = (reduceByOrder apJ ws π).map f := by
  unfold reduceByOrder
  have := reduceLoop_map f apJ apI h π (ws, List.range (ws.length - 1))
  simp only [List.length_map] at this ⊢
  rw [this]
  cases reduceLoop apJ π (ws, List.range (ws.length - 1)) with
  | none => rfl
  | some s =>
    obtain ⟨vs, r⟩ := s
    cases vs <;> rfl

end

/-! ### `lift` -/

section
variable {K : Type} (C : CalcOps K)

theorem liftList_length : ∀ l : List (DeepNode K), (liftList C l).length = l.length
  | [] => by rw [liftList]; rfl
  | nd :: rest => by rw [liftList, List.length_cons, List.length_cons, liftList_length rest]

theorem liftList_isNum : ∀ l : List (DeepNode K), (liftList C l).map (·.isNum) = l.map (·.isNum)
  | [] => by rw [liftList]; rfl
  | nd :: rest => by
    rw [liftList, List.map_cons, List.map_cons, liftList_isNum rest]
    cases nd <;> rfl

theorem prioIdxDeep_hcongr {α β} (ops : List DBin) (n : List (DeepNode α)) (n' : List (DeepNode β))
    (h : n'.map (·.isNum) = n.map (·.isNum)) : prioIdxDeep ops n' = prioIdxDeep ops n := by
  have hk : ∀ k, deepIsNumAt n' k = deepIsNumAt n k := fun k => by
    rw [deepIsNumAt_eq, deepIsNumAt_eq, h]
  have hb : ∀ k, deepBumped ops n' k = deepBumped ops n k := fun k => by
    unfold deepBumped
    rw [hk, hk]
  have hs : deepSortKey ops n' = deepSortKey ops n := by
    funext k
    unfold deepSortKey
    rw [hb]
  unfold prioIdxDeep
  rw [hs]

theorem prio_lift (ops : List DBin) (nodes : List (DeepNode K)) :
    prioIdxDeep ops (liftList C nodes) = prioIdxDeep ops nodes :=
  prioIdxDeep_hcongr ops nodes (liftList C nodes) (liftList_isNum C nodes)

theorem lift_mk (nodes : List (DeepNode K)) (ops : List DBin) (un : List Nat) (vars : List Str) :
    (DeepEx.mk nodes ops un vars).lift C = DeepEx.mk (liftList C nodes) ops un vars := by
  rw [DeepEx.lift]

end

/-! ### the dual interpretation on operators -/

section
variable {K : Type} [DecidableEq K] (D : DArith K)

theorem dualBin_none (n : String) (h : n ∉ ["+", "-", "*", "/", "^"]) (x y : DVal K) :
    dualBin D n x y = none := by
  simp only [List.mem_cons, List.not_mem_nil, or_false, not_or] at h
  unfold dualBin
  split <;> simp_all

omit [DecidableEq K] in
theorem outerDeriv_some (n : String) (h : n ∈ unRuleNames) (a : K) :
    ∃ od, outerDeriv D n a = some od := by
  simp only [unRuleNames, List.mem_cons, List.not_mem_nil, or_false] at h
  rcases h with rfl | rfl | rfl | rfl | rfl | rfl | rfl | rfl | rfl | rfl | rfl | rfl | rfl | rfl |
    rfl | rfl | rfl | rfl | rfl | rfl <;> exact ⟨_, rfl⟩

end

section
variable {K : Type} [DecidableEq K] (I : Interp K) (C : CalcOps K) (t : Table) (A : Arith I C t)
  (hnames : (t.map (·.repr)).Nodup)
include A hnames

/-- the value component of the dual binary operators is the ordinary operator -/
theorem dual_bin_val (i : Nat) (x y : DVal K) :
    ((dualInterp I C t).bin i x y).val = I.bin i x.val y.val := by
  show ((dualBin (dArith I C t) (String.ofList (reprOf t i)) x y).getD
    ⟨I.bin i x.val y.val, C.zero, false⟩).val = _
  by_cases hm : String.ofList (reprOf t i) ∈ ["+", "-", "*", "/", "^"]
  · generalize hn : String.ofList (reprOf t i) = name at hm
    have hr := ofList_eq hn
    simp only [List.mem_cons, List.not_mem_nil, or_false] at hm
    rcases hm with rfl | rfl | rfl | rfl | rfl
    · rw [dualBin_add, binIdx_eq t hnames _ A.add A.hadd i hr (by decide)]
      exact dArith_add I C t A _ _
    · rw [dualBin_sub, binIdx_eq t hnames _ A.sub A.hsub i hr (by decide)]
      exact dArith_sub I C t A _ _
    · rw [dualBin_mul, binIdx_eq t hnames _ A.mul A.hmul i hr (by decide)]
      exact dArith_mul I C t A _ _
    · rw [dualBin_div, binIdx_eq t hnames _ A.div A.hdiv i hr (by decide)]
      exact dArith_div I C t A _ _
    · rw [dualBin_pow, binIdx_eq t hnames _ A.pow A.hpow i hr (by decide)]
      exact dArith_pow I C t A _ _
  · rw [dualBin_none _ _ hm]
    rfl

omit A [DecidableEq K] in
/-- the name-indexed unary function of `dArith` at the name of a unary operator of the table -/
theorem fn_of_unary (u : Nat) (hu : tblHasUnary t u = true) (a : K) :
    (dArith I C t).fn (String.ofList (reprOf t u)) a = I.un u a := by
  apply dArith_fn
  rw [String.toList_ofList]
  exact findUnary_of t hnames u hu

omit A in
/-- the dual unary operator with a rule: chain rule -/
theorem dual_un_eq (u : Nat) (hu : tblHasUnary t u = true) (x : DVal K) (od : K)
    (hod : outerDeriv (dArith I C t) (String.ofList (reprOf t u)) x.val = some od) :
    (dualInterp I C t).un u x = ⟨I.un u x.val, (dArith I C t).mul od x.der, x.ok⟩ := by
  show (dualUn (dArith I C t) (String.ofList (reprOf t u)) x).getD _ = _
  obtain ⟨a, a', p⟩ := x
  simp only [dualUn]
  rw [hod]
  simp only [Option.map, Option.getD]
  rw [fn_of_unary I C t hnames u hu]

omit A in
theorem dual_un_val (u : Nat) (hu : tblHasUnary t u = true) (x : DVal K) :
    ((dualInterp I C t).un u x).val = I.un u x.val := by
  cases hod : outerDeriv (dArith I C t) (String.ofList (reprOf t u)) x.val with
  | some od => rw [dual_un_eq I C t hnames u hu x od hod]
  | none =>
    show ((dualUn (dArith I C t) (String.ofList (reprOf t u)) x).getD _).val = _
    obtain ⟨a, a', p⟩ := x
    simp only [dualUn]
    rw [hod]
    rfl

omit A in
theorem applyUn_val (us : List Nat) (hus : ∀ u ∈ us, tblHasUnary t u = true) (w : DVal K) :
    (applyUn (dualInterp I C t) us w).val = applyUn I us w.val := by
  induction us with
  | nil => rfl
  | cons u rest ih =>
    show ((dualInterp I C t).un u (applyUn (dualInterp I C t) rest w)).val = I.un u (applyUn I rest w.val)
    rw [dual_un_val I C t hnames u (hus u List.mem_cons_self), ih (fun v hv => hus v (List.mem_cons_of_mem _ hv))]

omit A in
theorem applyUn_ok (us : List Nat) (hus : ∀ u ∈ us, tblHasUnary t u = true)
    (hr : ∀ u ∈ us, String.ofList (reprOf t u) ∈ unRuleNames) (w : DVal K) :
    (applyUn (dualInterp I C t) us w).ok = w.ok := by
  induction us with
  | nil => rfl
  | cons u rest ih =>
    show ((dualInterp I C t).un u (applyUn (dualInterp I C t) rest w)).ok = w.ok
    obtain ⟨od, hod⟩ := outerDeriv_some (dArith I C t) _ (hr u List.mem_cons_self)
      (applyUn (dualInterp I C t) rest w).val
    rw [dual_un_eq I C t hnames u (hus u List.mem_cons_self) _ od hod]
    exact ih (fun v hv => hus v (List.mem_cons_of_mem _ hv)) (fun v hv => hr v (List.mem_cons_of_mem _ hv))

end

/-! ### node-wise forms of the structural predicates -/

section
variable {K : Type}

def ScopedNode (t : Table) (T : List Str) : DeepNode K → Prop
  | .expr e => Scoped t T e
  | _ => True

theorem scopedList_cons (t : Table) (T : List Str) (nd : DeepNode K) (rest : List (DeepNode K)) :
    scopedList t T (nd :: rest) ↔ ScopedNode t T nd ∧ scopedList t T rest := by
  cases nd <;> simp [scopedList, ScopedNode]

def RuledNode (t : Table) : DeepNode K → Prop
  | .expr e => Ruled t e
  | _ => True

theorem ruledList_cons (t : Table) (nd : DeepNode K) (rest : List (DeepNode K)) :
    ruledList t (nd :: rest) ↔ RuledNode t nd ∧ ruledList t rest := by
  cases nd <;> simp [ruledList, RuledNode]

end

/-! ### the value component of the dual evaluation -/

section
variable {K : Type} [DecidableEq K] (I : Interp K) (C : CalcOps K) (t : Table) (A : Arith I C t)
  (hnames : (t.map (·.repr)).Nodup) (T : List Str) (ρ : Str → K) (x : Str)
include A hnames
set_option linter.unusedSectionVars false

mutual
theorem lift_val : ∀ e : DeepEx K, Named T e → Scoped t T e → ∀ w,
    (e.lift C).evalRelaxed (dualInterp I C t) (T.map (seed C ρ x)) = .ok w →
      e.evalRelaxed I (T.map ρ) = .ok w.val
  | .mk nodes ops un vars, hn, hs, w, h => by
    rw [lift_mk] at h
    rw [Named] at hn
    rw [Scoped] at hs
    obtain ⟨ws, v, hv, hnl, hl, hred, hw⟩ := eval_group_inv (dualInterp I C t) _ (liftList C nodes)
      ops un vars w (by rw [liftList_length]; exact hn.1) h
    have hI := lift_val_list nodes hn.2.2 hs.2.2.2 ws hnl
    rw [List.length_map] at hv
    rw [liftList_length] at hl
    obtain ⟨v', h1, h2⟩ := eval_group I (T.map ρ) nodes ops un vars (ws.map (·.val))
      (by rw [List.length_map]; exact hv) hI (by rw [List.length_map, hl]; exact hn.1)
    rw [h2, hw, applyUn_val I C t hnames un hs.2.2.1]
    have hm := reduceByOrder_map (fun (w : DVal K) => w.val) (gApply (dualInterp I C t) ops)
      (gApply I ops) (fun k a b => dual_bin_val I C t A hnames _ a b) ws (prioIdxDeep ops nodes)
    rw [prio_lift] at hred
    rw [hm, hred] at h1
    cases h1
    rfl
theorem lift_val_node : ∀ nd : DeepNode K, NamedNode T nd → ScopedNode t T nd → ∀ w,
    (nd.lift C).evalNode (dualInterp I C t) (T.map (seed C ρ x)) = .ok w →
      nd.evalNode I (T.map ρ) = .ok w.val
  | .num a, _, _, w, h => by
    rw [DeepNode.lift, DeepNode.evalNode] at h
    cases h
    rw [DeepNode.evalNode]
  | .var i nm, hn, _, w, h => by
    rw [NamedNode] at hn
    rw [DeepNode.lift, DeepNode.evalNode, List.getElem?_map, hn] at h
    simp only [Option.map] at h
    cases h
    rw [DeepNode.evalNode, List.getElem?_map, hn]
    rfl
  | .expr e, hn, hs, w, h => by
    rw [NamedNode] at hn
    rw [ScopedNode] at hs
    rw [DeepNode.lift, DeepNode.evalNode] at h
    rw [DeepNode.evalNode]
    exact lift_val e hn hs w h
theorem lift_val_list : ∀ l : List (DeepNode K), namedList T l → scopedList t T l → ∀ ws,
    evalNodeList (dualInterp I C t) (T.map (seed C ρ x)) (liftList C l) = .ok ws →
      evalNodeList I (T.map ρ) l = .ok (ws.map (·.val))
  | [], _, _, ws, h => by
    rw [liftList, evalNodeList] at h
    cases h
    rw [evalNodeList]
    rfl
  | nd :: rest, hn, hs, ws, h => by
    rw [namedList] at hn
    rw [scopedList_cons] at hs
    rw [liftList, evalNodeList] at h
    cases h1 : (nd.lift C).evalNode (dualInterp I C t) (T.map (seed C ρ x)) with
    | error e => rw [h1] at h; cases h
    | ok v =>
      cases h2 : evalNodeList (dualInterp I C t) (T.map (seed C ρ x)) (liftList C rest) with
      | error e => rw [h1, h2] at h; cases h
      | ok vs =>
        rw [h1, h2] at h
        cases h
        rw [evalNodeList, lift_val_node nd hn.1 hs.1 v h1, lift_val_list rest hn.2 hs.2 vs h2]
        rfl
end

end

end Exmex.Diff
