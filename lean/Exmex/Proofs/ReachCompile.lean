/-
  `Reach.reach_inv`: `compile` (`lift_nodes`, folding) preserves `SS` — single-node groups list the
  variables of their node — and keeps the variable list of an `SS` expression.
-/
import Exmex.Proofs.ReachOps
namespace Exmex.ReachLemmas
open Exmex.C10 Exmex.C05 Exmex.Shortcut Exmex.CalcLemmas Exmex.DeepCompile Exmex.Diff

section
variable {K : Type}

theorem ssNode_num (a : K) : SSNode (DeepNode.num a) := trivial

theorem ss_nodes (e : DeepEx K) (h : SS e) : ∀ nd ∈ e.nodes, SSNode nd := by
  obtain ⟨nodes, ops, un, vars⟩ := e
  rw [SS] at h
  exact (ssList_iff nodes).1 h.2

/-! ### `lift_nodes` -/

theorem lift_ss :
    (∀ e : DeepEx K, SS e → SS e.liftNodes ∧ e.liftNodes.vars = e.vars) ∧
    (∀ l : List (DeepNode K), ssList l → ssList (liftNodeList l) ∧
      ∀ g, liftNodeList l = [.expr g] → ∃ g0, l = [.expr g0] ∧ g.vars = g0.vars) ∧
    (∀ nd : DeepNode K, SSNode nd → SSNode nd.liftNode ∧
      ∀ g, nd.liftNode = .expr g → ∃ g0, nd = .expr g0 ∧ g.vars = g0.vars) := by
  apply DeepEx.liftNodes.mutual_induct
  · intro ops' vars' a _
    rw [DeepNode.liftNode]
    exact ⟨trivial, fun g hg => by cases hg⟩
  · intro ops' vars' i v _
    rw [DeepNode.liftNode]
    exact ⟨trivial, fun g hg => by cases hg⟩
  · intro ops' vars' ed ed' hc ih h
    have h' : SS (DeepEx.mk [.expr ed] ops' [] vars') := h
    rw [SS, ssList, ssList] at h'
    obtain ⟨i1, i2⟩ := ih h'.2.1
    have hv : ed.vars = vars' := h'.1 ed rfl
    rw [DeepNode.liftNode.eq_3, if_pos hc]
    refine ⟨i1, ?_⟩
    intro g hg
    cases hg
    exact ⟨_, rfl, i2.trans hv⟩
  · intro ops' vars' ed ed' hc ih h
    have h' : SS (DeepEx.mk [.expr ed] ops' [] vars') := h
    rw [SS, ssList, ssList] at h'
    obtain ⟨i1, i2⟩ := ih h'.2.1
    have hv : ed.vars = vars' := h'.1 ed rfl
    rw [DeepNode.liftNode.eq_3, if_neg hc]
    refine ⟨?_, ?_⟩
    · show SS (DeepEx.mk [.expr ed.liftNodes] ops' [] vars')
      rw [SS, ssList, ssList]
      refine ⟨?_, i1, trivial⟩
      intro g hg
      cases hg
      exact i2.trans hv
    · intro g hg
      cases hg
      exact ⟨_, rfl, rfl⟩
  · intro other hne h
    rw [DeepNode.liftNode.eq_4 other hne]
    exact ⟨h, fun g hg => ⟨g, hg, rfl⟩⟩
  · intro ops un vars e hc h
    rw [SS, ssList, ssList] at h
    rw [DeepEx.liftNodes.eq_1, if_pos hc]
    exact ⟨h.2.1, h.1 e rfl⟩
  · intro n ops un vars hc hne h
    have : (DeepEx.mk n ops un vars).liftNodes = DeepEx.mk n ops un vars := by
      rw [DeepEx.liftNodes.eq_def]
      simp only [hc, if_true]
    rw [this]
    exact ⟨h, rfl⟩
  · intro n ops un vars hc ih h
    have : (DeepEx.mk n ops un vars).liftNodes = DeepEx.mk (liftNodeList n) ops un vars := by
      rw [DeepEx.liftNodes.eq_def]
      simp only [hc]
      rfl
    rw [this]
    rw [SS] at h
    obtain ⟨i1, i2⟩ := ih h.2
    refine ⟨?_, rfl⟩
    rw [SS]
    refine ⟨?_, i1⟩
    intro g hg
    obtain ⟨g0, h0, hv⟩ := i2 g hg
    rw [hv]
    exact h.1 g0 h0
  · intro _
    rw [liftNodeList]
    exact ⟨by rw [ssList]; trivial, fun g hg => by cases hg⟩
  · intro nd rest ih1 ih2 h
    rw [ssList_cons] at h
    obtain ⟨a1, a2⟩ := ih1 h.1
    obtain ⟨b1, -⟩ := ih2 h.2
    rw [liftNodeList]
    refine ⟨by rw [ssList_cons]; exact ⟨a1, b1⟩, ?_⟩
    intro g hg
    injection hg with hg1 hg2
    have hr : rest = [] := by
      have := liftNodeList_length rest
      rw [hg2] at this
      exact List.eq_nil_of_length_eq_zero this.symm
    obtain ⟨g0, h0, hv⟩ := a2 g hg1
    exact ⟨g0, by rw [h0, hr], hv⟩

/-! ### folding: either nothing happens to the nodes or a literal is among them -/

theorem step_same (I : Interp K) (ops : List DBin) (st : DCompileSt K) (b n : Nat) (ns : List Nat)
    (st' : DCompileSt K) (ns' : List Nat) (h : dcompileStep I ops st b n ns = .ok (st', ns')) :
    st'.nodes = st.nodes ∨ ∃ a, DeepNode.num a ∈ st'.nodes := by
  unfold dcompileStep at h
  split at h
  · rename_i n1 n2 h1 h2
    have hlen : n < st.nodes.length := (List.getElem?_eq_some_iff.1 h1).1
    split at h
    · split at h
      · split at h
        · cases h
        · rename_i v _
          cases h
          refine Or.inr ⟨v, ?_⟩
          show DeepNode.num v ∈ (st.nodes.set n (.num v)).eraseIdx (n + 1)
          rw [List.mem_iff_getElem?]
          refine ⟨n, ?_⟩
          rw [List.getElem?_eraseIdx_of_lt (Nat.lt_succ_self n), List.getElem?_set_self hlen]
      · cases h
        exact Or.inl rfl
    · cases h
      exact Or.inl rfl
  · cases h

theorem loop_same (I : Interp K) (ops : List DBin) :
    ∀ (bs ns : List Nat) (st st' : DCompileSt K), dcompileLoop I ops bs ns st = .ok st' →
      st'.nodes = st.nodes ∨ ∃ a, DeepNode.num a ∈ st'.nodes := by
  intro bs
  induction bs with
  | nil =>
    intro ns st st' h
    rw [dcompileLoop] at h
    cases h
    exact Or.inl rfl
  | cons b bs ih =>
    intro ns st st' h
    cases ns with
    | nil => rw [dcompileLoop] at h; cases h
    | cons n ns =>
      rw [dcompileLoop] at h
      cases hs : dcompileStep I ops st b n ns with
      | error e => rw [hs] at h; cases h
      | ok p =>
        obtain ⟨st1, ns1⟩ := p
        rw [hs] at h
        rcases ih ns1 st1 st' h with h1 | h1
        · rcases step_same I ops st b n ns st1 ns1 hs with h2 | ⟨a, h2⟩
          · exact Or.inl (h1.trans h2)
          · exact Or.inr ⟨a, by rw [h1]; exact h2⟩
        · exact Or.inr h1

/-- a group that, after folding, consists of a single nested group was that group already -/
theorem foldGroup_single (I : Interp K) (e1 r : DeepEx K) (h : foldGroup I e1 = .ok r) (g : DeepEx K)
    (hg : r.nodes = [.expr g]) : e1.nodes = [.expr g] := by
  unfold foldGroup at h
  simp only [] at h
  split at h
  · cases h
  · rename_i st hloop
    have hl := loop_same I e1.ops _ _ _ st hloop
    split at h
    · cases h
      cases hg
    · cases h
      simp only [DeepEx.nodes] at hg
      rcases hl with hl | ⟨a, ha⟩
      · exact hl.symm.trans hg
      · rw [hg] at ha
        simp at ha

theorem foldGroup_ss (I : Interp K) (e1 r : DeepEx K) (h : foldGroup I e1 = .ok r) (hs : SS e1) :
    SS r ∧ r.vars = e1.vars := by
  obtain ⟨hv, hn⟩ := foldGroup_nodes I e1 r h
  have hnodes := hn SSNode ssNode_num (ss_nodes e1 hs)
  have hsingle := foldGroup_single I e1 r h
  refine ⟨?_, hv⟩
  obtain ⟨nodes, ops, un, vars⟩ := r
  obtain ⟨nodes1, ops1, un1, vars1⟩ := e1
  simp only [DeepEx.nodes, DeepEx.vars] at hnodes hsingle hv
  rw [SS] at hs ⊢
  refine ⟨?_, (ssList_iff nodes).2 hnodes⟩
  intro g hg
  rw [hv]
  exact hs.1 g (hsingle g hg)

/-- **`compile` preserves `SS`** and keeps the variable list -/
theorem compile_ss (I : Interp K) (e r : DeepEx K) (h : e.compile I = .ok r) (hs : SS e) :
    SS r ∧ r.vars = e.vars := by
  rw [compile_eq] at h
  obtain ⟨l1, l2⟩ := lift_ss.1 e hs
  obtain ⟨f1, f2⟩ := foldGroup_ss I _ r h l1
  exact ⟨f1, f2.trans l2⟩

end
end Exmex.ReachLemmas
