/-
  C05, rule layer: the binary rules (`binRule`) and the outer rules (`unRule`) of the model
  compute, on represented operands, the components of the textbook rules `dualBin` /
  `outerDeriv` of Spec/Dual.lean.
-/
import Exmex.Proofs.DiffBase
namespace Exmex.Diff
open Exmex.C10 Exmex.C05 Exmex.Shortcut Exmex.CalcLemmas Exmex.DeepCompile

section
variable {K : Type} [DecidableEq K] (D : DArith K)

theorem dualBin_add (x y : DVal K) :
    dualBin D "+" x y = some ⟨D.add x.val y.val, D.add x.der y.der, x.ok && y.ok⟩ := rfl
theorem dualBin_sub (x y : DVal K) :
    dualBin D "-" x y = some ⟨D.sub x.val y.val, D.sub x.der y.der, x.ok && y.ok⟩ := rfl
theorem dualBin_mul (x y : DVal K) :
    dualBin D "*" x y = some ⟨D.mul x.val y.val, D.add (D.mul x.der y.val) (D.mul x.val y.der),
      x.ok && y.ok⟩ := rfl
theorem dualBin_div (x y : DVal K) :
    dualBin D "/" x y = some ⟨D.div x.val y.val,
      D.div (D.sub (D.mul x.der y.val) (D.mul x.val y.der)) (D.mul y.val y.val),
      x.ok && y.ok && decide (y.val ≠ D.zero)⟩ := rfl
theorem dualBin_pow (x y : DVal K) :
    dualBin D "^" x y = some ⟨D.pow x.val y.val,
      D.add (D.mul (D.mul (D.pow x.val (D.sub y.val D.one)) y.val) x.der)
            (D.mul (D.mul (D.pow x.val y.val) (D.fn "ln" x.val)) y.der),
      x.ok && y.ok && decide (x.val ≠ D.zero)⟩ := rfl
/-- the comparisons: carried -/
theorem dualBin_cmp (n : String) (hn : n ∈ [">", "<", "!=", "==", "<=", ">="]) (x y : DVal K) :
    dualBin D n x y = some ⟨D.bop n x.val y.val, D.bop n x.val y.val, x.ok && y.ok⟩ := by
  simp only [List.mem_cons, List.not_mem_nil, or_false] at hn
  rcases hn with rfl | rfl | rfl | rfl | rfl | rfl <;> rfl
/-- `if`, `else`: operand-wise -/
theorem dualBin_pw (n : String) (hn : n ∈ ["if", "else"]) (x y : DVal K) :
    dualBin D n x y = some ⟨D.bop n x.val y.val, D.bop n x.der y.der, x.ok && y.ok⟩ := by
  simp only [List.mem_cons, List.not_mem_nil, or_false] at hn
  rcases hn with rfl | rfl <;> rfl

end

section
variable {K : Type} (I : Interp K) (C : CalcOps K) (t : Table)

theorem binRule_add (f g : ValDer K) : binRule I C t "+" f g =
    match DeepEx.add I C t f.val g.val, DeepEx.add I C t f.der g.der with
    | .ok v, .ok d => .ok { val := v, der := d }
    | .error e, _ => .error e
    | _, .error e => .error e := rfl

theorem binRule_sub (f g : ValDer K) : binRule I C t "-" f g =
    match DeepEx.sub I t f.val g.val, DeepEx.sub I t f.der g.der with
    | .ok v, .ok d => .ok { val := v, der := d }
    | .error e, _ => .error e
    | _, .error e => .error e := rfl

theorem binRule_mul (f g : ValDer K) : binRule I C t "*" f g =
    match DeepEx.mul I C t f.val g.val with
    | .error e => .error e
    | .ok val =>
    match DeepEx.mul I C t g.val f.der with
    | .error e => .error e
    | .ok d1 =>
    match DeepEx.mul I C t g.der f.val with
    | .error e => .error e
    | .ok d2 =>
    match DeepEx.add I C t d1 d2 with
    | .error e => .error e
    | .ok der => .ok { val := val, der := der } := rfl

theorem binRule_div (f g : ValDer K) : binRule I C t "/" f g =
    match DeepEx.div I C t f.val g.val with
    | .error e => .error e
    | .ok val =>
    match DeepEx.mul I C t f.der g.val with
    | .error e => .error e
    | .ok n1 =>
    match DeepEx.mul I C t g.der f.val with
    | .error e => .error e
    | .ok n2 =>
    match DeepEx.sub I t n1 n2 with
    | .error e => .error e
    | .ok num =>
    match DeepEx.mul I C t g.val g.val with
    | .error e => .error e
    | .ok den =>
    match DeepEx.div I C t num den with
    | .error e => .error e
    | .ok der => .ok { val := val, der := der } := rfl

theorem binRule_pow (f g : ValDer K) : binRule I C t "^" f g =
    match DeepEx.fromNum I C.one with
    | .error e => .error e
    | .ok one =>
    match DeepEx.pow I C t f.val g.val with
    | .error e => .error e
    | .ok val =>
    match DeepEx.sub I t g.val one with
    | .error e => .error e
    | .ok gm1 =>
    match DeepEx.pow I C t f.val gm1 with
    | .error e => .error e
    | .ok p1 =>
    match DeepEx.mul I C t p1 g.val with
    | .error e => .error e
    | .ok p2 =>
    match DeepEx.mul I C t p2 f.der with
    | .error e => .error e
    | .ok der1 =>
    match DeepEx.operateUnary I t f.val "ln".toList with
    | .error e => .error e
    | .ok lnf =>
    match DeepEx.mul I C t val lnf with
    | .error e => .error e
    | .ok q1 =>
    match DeepEx.mul I C t q1 g.der with
    | .error e => .error e
    | .ok der2 =>
    match DeepEx.add I C t der1 der2 with
    | .error e => .error e
    | .ok der => .ok { val := val, der := der } := rfl

theorem binRule_cmp (n : String) (hn : n ∈ [">", "<", "!=", "==", "<=", ">="]) (f g : ValDer K) :
    binRule I C t n f g =
    match DeepEx.operateBin I t f.val g.val n.toList, DeepEx.operateBin I t f.val g.val n.toList with
    | .ok v, .ok d => .ok { val := v, der := d }
    | .error e, _ => .error e
    | _, .error e => .error e := by
  simp only [List.mem_cons, List.not_mem_nil, or_false] at hn
  rcases hn with rfl | rfl | rfl | rfl | rfl | rfl <;> rfl

theorem binRule_pw (n : String) (hn : n ∈ ["if", "else"]) (f g : ValDer K) :
    binRule I C t n f g =
    match DeepEx.operateBin I t f.val g.val n.toList, DeepEx.operateBin I t f.der g.der n.toList with
    | .ok v, .ok d => .ok { val := v, der := d }
    | .error e, _ => .error e
    | _, .error e => .error e := by
  simp only [List.mem_cons, List.not_mem_nil, or_false] at hn
  rcases hn with rfl | rfl <;> rfl

/-- `operate_bin` succeeds only with an operator `find_bin_op` finds -/
theorem operateBin_ok_find (a b r : DeepEx K) (repr : Str) (h : a.operateBin I t b repr = .ok r) :
    ∃ op, findBinOp t repr = .ok op := by
  unfold DeepEx.operateBin at h
  cases hop : findBinOp t repr with
  | error e => rw [hop] at h; cases h
  | ok op => exact ⟨op, rfl⟩

/-- a successful rule of a comparison, `if` or `else` has found the operator in the table -/
theorem binRule_ok_find (n : String) (hn : n ∈ [">", "<", ">=", "<=", "==", "!=", "if", "else"])
    (f g pd : ValDer K) (h : binRule I C t n f g = .ok pd) : ∃ op, findBinOp t n.toList = .ok op := by
  have hv : ∃ v, DeepEx.operateBin I t f.val g.val n.toList = .ok v := by
    by_cases hc : n ∈ [">", "<", "!=", "==", "<=", ">="]
    · rw [binRule_cmp I C t n hc] at h
      split at h
      · rename_i v d h1 h2; exact ⟨v, h1⟩
      · cases h
      · cases h
    · have hp : n ∈ ["if", "else"] := by
        simp only [List.mem_cons, List.not_mem_nil, or_false] at hn hc ⊢
        grind
      rw [binRule_pw I C t n hp] at h
      split at h
      · rename_i v d h1 h2; exact ⟨v, h1⟩
      · cases h
      · cases h
  obtain ⟨v, hv⟩ := hv
  exact operateBin_ok_find I t _ _ v _ hv

end

section
variable {K : Type} [DecidableEq K] (I : Interp K) (C : CalcOps K) (t : Table) (A : Arith I C t)
  (L : Laws (dArith I C t)) (T : List Str) (ρ : Str → K)
include A L

/-- **the binary rules are sound** on represented operands inside the domain of the rule -/
theorem binRule_sound (hbop : BopAssoc I t) (uln : Nat) (hln : findUnaryOp t "ln".toList = .ok uln)
    (name : String) (hname : name ∈ binRuleNames)
    (f g pd : ValDer K) (a a' b b' : K)
    (hfv : Rep I T ρ f.val a) (hfd : Rep I T ρ f.der a')
    (hgv : Rep I T ρ g.val b) (hgd : Rep I T ρ g.der b')
    (h : binRule I C t name f g = .ok pd) (w : DVal K)
    (hw : dualBin (dArith I C t) name ⟨a, a', true⟩ ⟨b, b', true⟩ = some w) (hok : w.ok = true) :
    Rep I T ρ pd.val w.val ∧ Rep I T ρ pd.der w.der := by
  by_cases hcmp : name ∈ [">", "<", "!=", "==", "<=", ">="]
  · -- the comparisons: value and derivative are the comparison of the values
    have h8 : name ∈ [">", "<", ">=", "<=", "==", "!=", "if", "else"] := by
      simp only [List.mem_cons, List.not_mem_nil, or_false] at hcmp ⊢
      grind
    rw [dualBin_cmp _ name hcmp] at hw
    cases hw
    obtain ⟨op, hop⟩ := binRule_ok_find I C t name h8 f g pd h
    rw [binRule_cmp I C t name hcmp] at h
    split at h
    · rename_i v d h1 h2
      cases h
      have r1 := (gbin I C t A T ρ _ op hop (hbop name h8 op hop) _ _ _ _ _ hfv hgv h1).1.rep
      have r2 := (gbin I C t A T ρ _ op hop (hbop name h8 op hop) _ _ _ _ _ hfv hgv h2).1.rep
      have e := dArith_bop I C t name op hop a b
      exact ⟨r1.congr I T ρ e.symm, r2.congr I T ρ e.symm⟩
    · cases h
    · cases h
  by_cases hpw : name ∈ ["if", "else"]
  · -- `if`, `else`: operand-wise
    have h8 : name ∈ [">", "<", ">=", "<=", "==", "!=", "if", "else"] := by
      simp only [List.mem_cons, List.not_mem_nil, or_false] at hpw ⊢
      grind
    rw [dualBin_pw _ name hpw] at hw
    cases hw
    obtain ⟨op, hop⟩ := binRule_ok_find I C t name h8 f g pd h
    rw [binRule_pw I C t name hpw] at h
    split at h
    · rename_i v d h1 h2
      cases h
      have r1 := (gbin I C t A T ρ _ op hop (hbop name h8 op hop) _ _ _ _ _ hfv hgv h1).1.rep
      have r2 := (gbin I C t A T ρ _ op hop (hbop name h8 op hop) _ _ _ _ _ hfd hgd h2).1.rep
      exact ⟨r1.congr I T ρ (dArith_bop I C t name op hop a b).symm,
        r2.congr I T ρ (dArith_bop I C t name op hop a' b').symm⟩
    · cases h
    · cases h
  have hname : name ∈ ["+", "-", "*", "/", "^"] := by
    simp only [binRuleNames, List.mem_cons, List.not_mem_nil, or_false] at hname hcmp hpw ⊢
    grind
  simp only [List.mem_cons, List.not_mem_nil, or_false] at hname
  rcases hname with rfl | rfl | rfl | rfl | rfl
  · -- "+"
    rw [dualBin_add] at hw
    cases hw
    rw [binRule_add] at h
    split at h
    · rename_i v d h1 h2
      cases h
      exact ⟨(gadd I C t A L T ρ _ _ _ _ _ hfv hgv h1).1.rep, (gadd I C t A L T ρ _ _ _ _ _ hfd hgd h2).1.rep⟩
    · cases h
    · cases h
  · -- "-"
    rw [dualBin_sub] at hw
    cases hw
    rw [binRule_sub] at h
    split at h
    · rename_i v d h1 h2
      cases h
      exact ⟨(gsub I C t A T ρ _ _ _ _ _ hfv hgv h1).1.rep, (gsub I C t A T ρ _ _ _ _ _ hfd hgd h2).1.rep⟩
    · cases h
    · cases h
  · -- "*"
    rw [dualBin_mul] at hw
    cases hw
    rw [binRule_mul] at h
    split at h
    · cases h
    rename_i val hval
    split at h
    · cases h
    rename_i d1 hd1
    split at h
    · cases h
    rename_i d2 hd2
    split at h
    · cases h
    rename_i der hder
    cases h
    have r1 := (gmul I C t A L T ρ _ _ _ _ _ hgv hfd hd1).1.rep
    have r2 := (gmul I C t A L T ρ _ _ _ _ _ hgd hfv hd2).1.rep
    refine ⟨(gmul I C t A L T ρ _ _ _ _ _ hfv hgv hval).1.rep, ?_⟩
    refine (gadd I C t A L T ρ _ _ _ _ _ r1 r2 hder).1.rep.congr I T ρ ?_
    show (dArith I C t).add ((dArith I C t).mul b a') ((dArith I C t).mul b' a) = _
    rw [L.mul_comm b a', L.mul_comm b' a]
  · -- "/"
    rw [dualBin_div] at hw
    cases hw
    have hb0 : b ≠ C.zero := by
      have : b ≠ (dArith I C t).zero := by simpa using hok
      exact this
    rw [binRule_div] at h
    split at h
    · cases h
    rename_i val hval
    split at h
    · cases h
    rename_i n1 hn1
    split at h
    · cases h
    rename_i n2 hn2
    split at h
    · cases h
    rename_i num hnum
    split at h
    · cases h
    rename_i den hden
    split at h
    · cases h
    rename_i der hder
    cases h
    have r1 := (gmul I C t A L T ρ _ _ _ _ _ hfd hgv hn1).1.rep
    have r2 := (gmul I C t A L T ρ _ _ _ _ _ hgd hfv hn2).1.rep
    have r3 := (gsub I C t A T ρ _ _ _ _ _ r1 r2 hnum).1.rep
    have r4 := (gmul I C t A L T ρ _ _ _ _ _ hgv hgv hden).1.rep
    have hden0 : (dArith I C t).mul b b ≠ C.zero := L.mul_ne_zero b b hb0 hb0
    refine ⟨(gdiv I C t A L T ρ _ _ _ _ _ hfv hgv (.inr hb0) hval).1.rep, ?_⟩
    refine (gdiv I C t A L T ρ _ _ _ _ _ r3 r4 (.inr hden0) hder).1.rep.congr I T ρ ?_
    show (dArith I C t).div ((dArith I C t).sub ((dArith I C t).mul a' b) ((dArith I C t).mul b' a))
      ((dArith I C t).mul b b) = _
    rw [L.mul_comm b' a]
  · -- "^"
    rw [dualBin_pow] at hw
    cases hw
    have ha0 : a ≠ C.zero := by
      have : a ≠ (dArith I C t).zero := by simpa using hok
      exact this
    rw [binRule_pow] at h
    split at h
    · cases h
    rename_i one hone
    split at h
    · cases h
    rename_i val hval
    split at h
    · cases h
    rename_i gm1 hgm1
    split at h
    · cases h
    rename_i p1 hp1
    split at h
    · cases h
    rename_i p2 hp2
    split at h
    · cases h
    rename_i der1 hder1
    split at h
    · cases h
    rename_i lnf hlnf
    split at h
    · cases h
    rename_i q1 hq1
    split at h
    · cases h
    rename_i der2 hder2
    split at h
    · cases h
    rename_i der hder
    cases h
    have rone := (rep_fromNum I T ρ C.one one hone).1.rep
    have rval := (gpow I C t A L T ρ _ _ _ _ _ hfv hgv (.inl ha0) hval).1.rep
    have rgm1 := (gsub I C t A T ρ _ _ _ _ _ hgv rone hgm1).1.rep
    have rp1 := (gpow I C t A L T ρ _ _ _ _ _ hfv rgm1 (.inl ha0) hp1).1.rep
    have rp2 := (gmul I C t A L T ρ _ _ _ _ _ rp1 hgv hp2).1.rep
    have rder1 := (gmul I C t A L T ρ _ _ _ _ _ rp2 hfd hder1).1.rep
    have rlnf := (gunary I t T ρ _ _ _ uln a hln hfv hlnf).1
    have rq1 := (gmul I C t A L T ρ _ _ _ _ _ rval rlnf hq1).1.rep
    have rder2 := (gmul I C t A L T ρ _ _ _ _ _ rq1 hgd hder2).1.rep
    refine ⟨rval, ?_⟩
    refine (gadd I C t A L T ρ _ _ _ _ _ rder1 rder2 hder).1.rep.congr I T ρ ?_
    rw [dArith_fn I C t "ln" uln hln]
    rfl

end

/-! ### the outer rules -/

section
variable {K : Type} (I : Interp K) (C : CalcOps K) (t : Table)

/-- a literal without variables -/
abbrev lit (x : K) : DeepEx K := .mk [.num x] [] [] []

theorem unRule_plus (f : DeepEx K) : unRule I C t "+" f = .ok (lit C.one) := rfl
theorem unRule_neg (f : DeepEx K) : unRule I C t "-" f = DeepEx.neg I t (lit C.one) := rfl
theorem unRule_sqrt (f : DeepEx K) : unRule I C t "sqrt" f =
    match DeepEx.mul I C t (lit C.two) f with
    | .error e => .error e
    | .ok d => DeepEx.div I C t (lit C.one) d := rfl
theorem unRule_ln (f : DeepEx K) : unRule I C t "ln" f = logDeri I C t f none := rfl
theorem unRule_log (f : DeepEx K) : unRule I C t "log" f = logDeri I C t f none := rfl
theorem unRule_log10 (f : DeepEx K) : unRule I C t "log10" f = logDeri I C t f (some C.ten) := rfl
theorem unRule_log2 (f : DeepEx K) : unRule I C t "log2" f = logDeri I C t f (some C.two) := rfl
theorem unRule_exp (f : DeepEx K) : unRule I C t "exp" f = .ok f := rfl
theorem unRule_sin (f : DeepEx K) : unRule I C t "sin" f =
    match DeepEx.withoutLatestUnary f with
    | .error e => .error e
    | .ok x => DeepEx.operateUnary I t x "cos".toList := rfl
theorem unRule_cos (f : DeepEx K) : unRule I C t "cos" f =
    match DeepEx.withoutLatestUnary f with
    | .error e => .error e
    | .ok x =>
      match DeepEx.operateUnary I t x "sin".toList with
      | .error e => .error e
      | .ok s => DeepEx.neg I t s := rfl
theorem unRule_tan (f : DeepEx K) : unRule I C t "tan" f =
    match DeepEx.withoutLatestUnary f with
    | .error e => .error e
    | .ok x =>
      match DeepEx.operateUnary I t x "cos".toList with
      | .error e => .error e
      | .ok c =>
        match DeepEx.pow I C t c (lit C.two) with
        | .error e => .error e
        | .ok c2 => DeepEx.div I C t (lit C.one) c2 := rfl
theorem unRule_asin (f : DeepEx K) : unRule I C t "asin" f =
    match DeepEx.withoutLatestUnary f with
    | .error e => .error e
    | .ok x =>
      match DeepEx.pow I C t x (lit C.two) with
      | .error e => .error e
      | .ok x2 =>
        match DeepEx.sub I t (lit C.one) x2 with
        | .error e => .error e
        | .ok d =>
          match DeepEx.operateUnary I t d "sqrt".toList with
          | .error e => .error e
          | .ok sd => DeepEx.div I C t (lit C.one) sd := rfl
theorem unRule_acos (f : DeepEx K) : unRule I C t "acos" f =
    match DeepEx.withoutLatestUnary f with
    | .error e => .error e
    | .ok x =>
      match DeepEx.pow I C t x (lit C.two) with
      | .error e => .error e
      | .ok x2 =>
        match DeepEx.sub I t (lit C.one) x2 with
        | .error e => .error e
        | .ok d =>
          match DeepEx.operateUnary I t d "sqrt".toList with
          | .error e => .error e
          | .ok sd =>
            match DeepEx.div I C t (lit C.one) sd with
            | .error e => .error e
            | .ok q => DeepEx.neg I t q := rfl
theorem unRule_atan (f : DeepEx K) : unRule I C t "atan" f =
    match DeepEx.withoutLatestUnary f with
    | .error e => .error e
    | .ok x =>
      match DeepEx.pow I C t x (lit C.two) with
      | .error e => .error e
      | .ok x2 =>
        match DeepEx.add I C t (lit C.one) x2 with
        | .error e => .error e
        | .ok d => DeepEx.div I C t (lit C.one) d := rfl
theorem unRule_sinh (f : DeepEx K) : unRule I C t "sinh" f =
    match DeepEx.withoutLatestUnary f with
    | .error e => .error e
    | .ok x => DeepEx.operateUnary I t x "cosh".toList := rfl
theorem unRule_cosh (f : DeepEx K) : unRule I C t "cosh" f =
    match DeepEx.withoutLatestUnary f with
    | .error e => .error e
    | .ok x => DeepEx.operateUnary I t x "sinh".toList := rfl
theorem unRule_tanh (f : DeepEx K) : unRule I C t "tanh" f =
    match DeepEx.withoutLatestUnary f with
    | .error e => .error e
    | .ok x =>
      match DeepEx.operateUnary I t x "tanh".toList with
      | .error e => .error e
      | .ok th =>
        match DeepEx.pow I C t th (lit C.two) with
        | .error e => .error e
        | .ok th2 => DeepEx.sub I t (lit C.one) th2 := rfl
theorem unRule_asinh (f : DeepEx K) : unRule I C t "asinh" f =
    match DeepEx.withoutLatestUnary f with
    | .error e => .error e
    | .ok x =>
      match DeepEx.pow I C t x (lit C.two) with
      | .error e => .error e
      | .ok x2 =>
        match DeepEx.add I C t (lit C.one) x2 with
        | .error e => .error e
        | .ok d =>
          match DeepEx.operateUnary I t d "sqrt".toList with
          | .error e => .error e
          | .ok sd => DeepEx.div I C t (lit C.one) sd := rfl
theorem unRule_acosh (f : DeepEx K) : unRule I C t "acosh" f =
    match DeepEx.withoutLatestUnary f with
    | .error e => .error e
    | .ok x =>
      match DeepEx.sub I t x (lit C.one), DeepEx.add I C t x (lit C.one) with
      | .ok a, .ok b =>
        match DeepEx.operateUnary I t a "sqrt".toList, DeepEx.operateUnary I t b "sqrt".toList with
        | .ok sa, .ok sb =>
          match DeepEx.mul I C t sa sb with
          | .error e => .error e
          | .ok d => DeepEx.div I C t (lit C.one) d
        | .error e, _ => .error e
        | _, .error e => .error e
      | .error e, _ => .error e
      | _, .error e => .error e := rfl
theorem unRule_atanh (f : DeepEx K) : unRule I C t "atanh" f =
    match DeepEx.withoutLatestUnary f with
    | .error e => .error e
    | .ok x =>
      match DeepEx.pow I C t x (lit C.two) with
      | .error e => .error e
      | .ok x2 =>
        match DeepEx.sub I t (lit C.one) x2 with
        | .error e => .error e
        | .ok d => DeepEx.div I C t (lit C.one) d := rfl

theorem logDeri_none (f x : DeepEx K) (hx : f.withoutLatestUnary = .ok x) :
    logDeri I C t f none = DeepEx.div I C t (lit C.one) x := by
  unfold logDeri
  rw [hx, fromNum_eq]
theorem logDeri_some (f x : DeepEx K) (b : K) (hx : f.withoutLatestUnary = .ok x) :
    logDeri I C t f (some b) =
      match DeepEx.operateUnary I t (lit b) "ln".toList with
      | .error e => .error e
      | .ok lnb =>
      match DeepEx.mul I C t x lnb with
      | .error e => .error e
      | .ok den => DeepEx.div I C t (lit C.one) den := by
  unfold logDeri
  rw [hx, fromNum_eq]
  simp only [fromNum_eq]
  rfl

end

section
variable {K : Type} [DecidableEq K] (I : Interp K) (C : CalcOps K) (t : Table) (A : Arith I C t)
  (L : Laws (dArith I C t)) (T : List Str) (ρ : Str → K)
include A L

omit [DecidableEq K] A L in
theorem rep_litc (x : K) : Rep I T ρ (lit x) x :=
  (rep_lit I T ρ x [] List.Pairwise.nil (fun _ h => by cases h)).rep

omit [DecidableEq K] in
/-- **the outer rules are sound**: for a group `f` with the unary operator `u` (named `name`) in
    front, applied at the inner value `a`, `unRule` represents `outerDeriv name a` -/
theorem unRule_sound
    (hfn : ∀ n ∈ ["-", "ln", "sqrt", "sin", "cos", "sinh", "cosh", "tanh"],
      ∃ u, findUnaryOp t (String.toList n) = .ok u)
    (name : String) (hname : name ∈ unRuleNames) (f x r : DeepEx K) (u : Nat) (a od : K)
    (hx : f.withoutLatestUnary = .ok x) (hrf : Rep I T ρ f (I.un u a)) (hrx : Rep I T ρ x a)
    (hfu : (dArith I C t).fn name a = I.un u a)
    (h : unRule I C t name f = .ok r) (hod : outerDeriv (dArith I C t) name a = some od) :
    Rep I T ρ r od := by
  obtain ⟨uneg, hneg⟩ := hfn "-" (by simp)
  obtain ⟨uln, hln⟩ := hfn "ln" (by simp)
  obtain ⟨usqrt, hsqrt⟩ := hfn "sqrt" (by simp)
  obtain ⟨usin, hsin⟩ := hfn "sin" (by simp)
  obtain ⟨ucos, hcos⟩ := hfn "cos" (by simp)
  obtain ⟨usinh, hsinh⟩ := hfn "sinh" (by simp)
  obtain ⟨ucosh, hcosh⟩ := hfn "cosh" (by simp)
  obtain ⟨utanh, htanh⟩ := hfn "tanh" (by simp)
  have eneg := dArith_fn I C t "-" uneg hneg
  have eln := dArith_fn I C t "ln" uln hln
  have esqrt := dArith_fn I C t "sqrt" usqrt hsqrt
  have esin := dArith_fn I C t "sin" usin hsin
  have ecos := dArith_fn I C t "cos" ucos hcos
  have esinh := dArith_fn I C t "sinh" usinh hsinh
  have ecosh := dArith_fn I C t "cosh" ucosh hcosh
  have etanh := dArith_fn I C t "tanh" utanh htanh
  have h10 : C.one ≠ C.zero := fun e => L.zero_ne_one e.symm
  have h20 : C.two ≠ C.zero := L.two_ne_zero
  have rone := rep_litc I T ρ C.one
  have rtwo := rep_litc I T ρ C.two
  have rten := rep_litc I T ρ C.ten
  simp only [unRuleNames, List.mem_cons, List.not_mem_nil, or_false] at hname
  rcases hname with rfl | rfl | rfl | rfl | rfl | rfl | rfl | rfl | rfl | rfl | rfl | rfl | rfl | rfl |
    rfl | rfl | rfl | rfl | rfl | rfl
  · -- "+"
    obtain rfl := Option.some.inj hod
    rw [unRule_plus] at h
    cases h
    exact rone
  · -- "-"
    obtain rfl := Option.some.inj hod
    rw [unRule_neg] at h
    rw [eneg]
    exact (gunary I t T ρ _ _ _ uneg _ hneg rone h).1
  · -- "sqrt"
    obtain rfl := Option.some.inj hod
    rw [unRule_sqrt] at h
    split at h
    · cases h
    rename_i d hd
    have rd := (gmul I C t A L T ρ _ _ _ _ _ rtwo hrf hd).1.rep
    rw [hfu]
    exact (gdiv I C t A L T ρ _ _ _ _ _ rone rd (.inl h10) h).1.rep
  · -- "ln"
    obtain rfl := Option.some.inj hod
    rw [unRule_ln, logDeri_none I C t f x hx] at h
    exact (gdiv I C t A L T ρ _ _ _ _ _ rone hrx (.inl h10) h).1.rep
  · -- "log"
    obtain rfl := Option.some.inj hod
    rw [unRule_log, logDeri_none I C t f x hx] at h
    exact (gdiv I C t A L T ρ _ _ _ _ _ rone hrx (.inl h10) h).1.rep
  · -- "log10"
    obtain rfl := Option.some.inj hod
    rw [unRule_log10, logDeri_some I C t f x _ hx] at h
    split at h
    · cases h
    rename_i lnb hlnb
    split at h
    · cases h
    rename_i den hden
    have r1 := (gunary I t T ρ _ _ _ uln _ hln rten hlnb).1
    have r2 := (gmul I C t A L T ρ _ _ _ _ _ hrx r1 hden).1.rep
    rw [eln]
    exact (gdiv I C t A L T ρ _ _ _ _ _ rone r2 (.inl h10) h).1.rep
  · -- "log2"
    obtain rfl := Option.some.inj hod
    rw [unRule_log2, logDeri_some I C t f x _ hx] at h
    split at h
    · cases h
    rename_i lnb hlnb
    split at h
    · cases h
    rename_i den hden
    have r1 := (gunary I t T ρ _ _ _ uln _ hln rtwo hlnb).1
    have r2 := (gmul I C t A L T ρ _ _ _ _ _ hrx r1 hden).1.rep
    rw [eln]
    exact (gdiv I C t A L T ρ _ _ _ _ _ rone r2 (.inl h10) h).1.rep
  · -- "exp"
    obtain rfl := Option.some.inj hod
    rw [unRule_exp] at h
    cases h
    rw [hfu]
    exact hrf
  · -- "sin"
    obtain rfl := Option.some.inj hod
    rw [unRule_sin, hx] at h
    rw [ecos]
    exact (gunary I t T ρ _ _ _ ucos _ hcos hrx h).1
  · -- "cos"
    obtain rfl := Option.some.inj hod
    rw [unRule_cos, hx] at h
    simp only [] at h
    split at h
    · cases h
    rename_i s hs
    have r1 := (gunary I t T ρ _ _ _ usin _ hsin hrx hs).1
    rw [eneg, esin]
    exact (gunary I t T ρ _ _ _ uneg _ hneg r1 h).1
  · -- "tan"
    obtain rfl := Option.some.inj hod
    rw [unRule_tan, hx] at h
    simp only [] at h
    split at h
    · cases h
    rename_i c hc
    split at h
    · cases h
    rename_i c2 hc2
    have r1 := (gunary I t T ρ _ _ _ ucos _ hcos hrx hc).1
    have r2 := (gpow I C t A L T ρ _ _ _ _ _ r1 rtwo (.inr h20) hc2).1.rep
    rw [ecos]
    exact (gdiv I C t A L T ρ _ _ _ _ _ rone r2 (.inl h10) h).1.rep
  · -- "asin"
    obtain rfl := Option.some.inj hod
    rw [unRule_asin, hx] at h
    simp only [] at h
    split at h
    · cases h
    rename_i x2 hx2
    split at h
    · cases h
    rename_i d hd
    split at h
    · cases h
    rename_i sd hsd
    have r1 := (gpow I C t A L T ρ _ _ _ _ _ hrx rtwo (.inr h20) hx2).1.rep
    have r2 := (gsub I C t A T ρ _ _ _ _ _ rone r1 hd).1.rep
    have r3 := (gunary I t T ρ _ _ _ usqrt _ hsqrt r2 hsd).1
    rw [esqrt]
    exact (gdiv I C t A L T ρ _ _ _ _ _ rone r3 (.inl h10) h).1.rep
  · -- "acos"
    obtain rfl := Option.some.inj hod
    rw [unRule_acos, hx] at h
    simp only [] at h
    split at h
    · cases h
    rename_i x2 hx2
    split at h
    · cases h
    rename_i d hd
    split at h
    · cases h
    rename_i sd hsd
    split at h
    · cases h
    rename_i q hq
    have r1 := (gpow I C t A L T ρ _ _ _ _ _ hrx rtwo (.inr h20) hx2).1.rep
    have r2 := (gsub I C t A T ρ _ _ _ _ _ rone r1 hd).1.rep
    have r3 := (gunary I t T ρ _ _ _ usqrt _ hsqrt r2 hsd).1
    have r4 := (gdiv I C t A L T ρ _ _ _ _ _ rone r3 (.inl h10) hq).1.rep
    rw [eneg, esqrt]
    exact (gunary I t T ρ _ _ _ uneg _ hneg r4 h).1
  · -- "atan"
    obtain rfl := Option.some.inj hod
    rw [unRule_atan, hx] at h
    simp only [] at h
    split at h
    · cases h
    rename_i x2 hx2
    split at h
    · cases h
    rename_i d hd
    have r1 := (gpow I C t A L T ρ _ _ _ _ _ hrx rtwo (.inr h20) hx2).1.rep
    have r2 := (gadd I C t A L T ρ _ _ _ _ _ rone r1 hd).1.rep
    exact (gdiv I C t A L T ρ _ _ _ _ _ rone r2 (.inl h10) h).1.rep
  · -- "sinh"
    obtain rfl := Option.some.inj hod
    rw [unRule_sinh, hx] at h
    rw [ecosh]
    exact (gunary I t T ρ _ _ _ ucosh _ hcosh hrx h).1
  · -- "cosh"
    obtain rfl := Option.some.inj hod
    rw [unRule_cosh, hx] at h
    rw [esinh]
    exact (gunary I t T ρ _ _ _ usinh _ hsinh hrx h).1
  · -- "tanh"
    obtain rfl := Option.some.inj hod
    rw [unRule_tanh, hx] at h
    simp only [] at h
    split at h
    · cases h
    rename_i th hth
    split at h
    · cases h
    rename_i th2 hth2
    have r1 := (gunary I t T ρ _ _ _ utanh _ htanh hrx hth).1
    have r2 := (gpow I C t A L T ρ _ _ _ _ _ r1 rtwo (.inr h20) hth2).1.rep
    rw [etanh]
    exact (gsub I C t A T ρ _ _ _ _ _ rone r2 h).1.rep
  · -- "asinh"
    obtain rfl := Option.some.inj hod
    rw [unRule_asinh, hx] at h
    simp only [] at h
    split at h
    · cases h
    rename_i x2 hx2
    split at h
    · cases h
    rename_i d hd
    split at h
    · cases h
    rename_i sd hsd
    have r1 := (gpow I C t A L T ρ _ _ _ _ _ hrx rtwo (.inr h20) hx2).1.rep
    have r2 := (gadd I C t A L T ρ _ _ _ _ _ rone r1 hd).1.rep
    have r3 := (gunary I t T ρ _ _ _ usqrt _ hsqrt r2 hsd).1
    rw [esqrt]
    exact (gdiv I C t A L T ρ _ _ _ _ _ rone r3 (.inl h10) h).1.rep
  · -- "acosh"
    obtain rfl := Option.some.inj hod
    rw [unRule_acosh, hx] at h
    simp only [] at h
    split at h
    · rename_i a1 b1 ha1 hb1
      split at h
      · rename_i sa sb hsa hsb
        split at h
        · cases h
        rename_i d hd
        have r1 := (gsub I C t A T ρ _ _ _ _ _ hrx rone ha1).1.rep
        have r2 := (gadd I C t A L T ρ _ _ _ _ _ hrx rone hb1).1.rep
        have r3 := (gunary I t T ρ _ _ _ usqrt _ hsqrt r1 hsa).1
        have r4 := (gunary I t T ρ _ _ _ usqrt _ hsqrt r2 hsb).1
        have r5 := (gmul I C t A L T ρ _ _ _ _ _ r3 r4 hd).1.rep
        rw [esqrt, esqrt]
        exact (gdiv I C t A L T ρ _ _ _ _ _ rone r5 (.inl h10) h).1.rep
      · cases h
      · cases h
    · cases h
    · cases h
  · -- "atanh"
    obtain rfl := Option.some.inj hod
    rw [unRule_atanh, hx] at h
    simp only [] at h
    split at h
    · cases h
    rename_i x2 hx2
    split at h
    · cases h
    rename_i d hd
    have r1 := (gpow I C t A L T ρ _ _ _ _ _ hrx rtwo (.inr h20) hx2).1.rep
    have r2 := (gsub I C t A T ρ _ _ _ _ _ rone r1 hd).1.rep
    exact (gdiv I C t A L T ρ _ _ _ _ _ rone r2 (.inl h10) h).1.rep

end

end Exmex.Diff
