/-
  Counterexample: the shortcut theorems of C10Shortcuts are FALSE without the hypothesis
  `Shortcut.WrapOK` on the operands. `is_num` looks through a wrapper group `[Expr(e)]` without
  applying the wrapper's unary chain, so `-(1)`, represented as the group `[Expr([Num 1])]` with
  unary chain `[-]`, "is one", and `(-(1)) * 7` returns `7` instead of `-7`.
-/
import Exmex.Props.C10Shortcuts
namespace Exmex.ShortcutCex
open Exmex Exmex.C10

def tbl : Table := [
  { repr := "+".toList, bin := some { prio := 1, comm := false } },
  { repr := "-".toList, bin := some { prio := 1, comm := false }, unary := true },
  { repr := "*".toList, bin := some { prio := 2, comm := false } },
  { repr := "/".toList, bin := some { prio := 2, comm := false } },
  { repr := "^".toList, bin := some { prio := 3, comm := false } }]

def II : Interp Int where
  bin := fun i x y => match i with
    | 0 => x + y | 1 => x - y | 2 => x * y | 3 => x / y | _ => x ^ y.toNat
  un := fun _ x => -x
  const := fun _ => 0
  ofLit := fun _ => none
  dflt := 0

def CC : CalcOps Int := { zero := 0, one := 1, two := 2, ten := 10, eqv := fun a b => a == b }

/-- `-(1)` as a wrapper group whose unary chain is `[-]` around the literal group `1` -/
def a : DeepEx Int := .mk [.expr (.mk [.num 1] [] [] [])] [] [1] []
def b : DeepEx Int := .mk [.num 7] [] [] []

theorem a_isOne : a.isOne II CC = true := by rfl
theorem a_not_wrapOK : ¬ Shortcut.WrapOK a := by
  simp [a, Shortcut.WrapOK, Shortcut.isLit]

theorem a_named : Named a.vars a := by
  simp [a, DeepEx.vars, Named, namedList, NamedNode]
theorem b_named : Named b.vars b := by
  simp [b, DeepEx.vars, Named, namedList, NamedNode]
theorem mul_eq : a.mul II CC tbl b = .ok b := by rfl
theorem a_val : a.evalRelaxed II (a.vars.map (fun _ => 0)) = .ok (-1) := by rfl
theorem b_val : b.evalRelaxed II (b.vars.map (fun _ => 0)) = .ok 7 := by rfl

def AA : Arith II CC tbl where
  add := ⟨0, 1, false⟩
  sub := ⟨1, 1, false⟩
  mul := ⟨2, 2, false⟩
  div := ⟨3, 2, false⟩
  pow := ⟨4, 3, false⟩
  hadd := by rfl
  hsub := by rfl
  hmul := by rfl
  hdiv := by rfl
  hpow := by rfl
  eqv_sound := by intro a b h; simpa [CC] using h
  assoc := by
    intro o ho hc
    simp at ho
    rcases ho with h | h | h | h | h <;> (subst h; cases hc)

/-- the statement of `mul_sound` without `WrapOK` is false -/
theorem mul_sound_without_wrapOK_false :
    ¬ (∀ {α : Type} (I : Interp α) (C : CalcOps α) (t : Table) (A : Arith I C t)
      (a b : DeepEx α) (_ : Named a.vars a) (_ : Named b.vars b)
      (_ : a.vars.Nodup) (_ : b.vars.Nodup) (_ : a.Assoc I) (_ : b.Assoc I) (ρ : Str → α)
      (va vb : α) (_ : a.evalRelaxed I (a.vars.map ρ) = .ok va) (_ : b.evalRelaxed I (b.vars.map ρ) = .ok vb)
      (_ : I.bin A.mul.idx C.zero vb = C.zero) (_ : I.bin A.mul.idx va C.zero = C.zero)
      (_ : I.bin A.mul.idx C.one vb = vb) (_ : I.bin A.mul.idx va C.one = va),
      Yields I (a.mul I C t b) (unionVars a.vars b.vars) ρ (I.bin A.mul.idx va vb)) := by
  intro h
  have hAa : a.Assoc II := by
    simp [a, DeepEx.Assoc, assocList, DeepAssoc]
  have hAb : b.Assoc II := by
    simp [b, DeepEx.Assoc, assocList, DeepAssoc]
  obtain ⟨e, h1, h2, -, -, -, h5⟩ := h II CC tbl AA a b a_named b_named (by simp [a, DeepEx.vars])
    (by simp [b, DeepEx.vars]) hAa hAb (fun _ => 0) (-1) 7 a_val b_val (by decide) (by decide) (by decide) (by decide)
  rw [mul_eq] at h1
  cases h1
  have hu : unionVars a.vars b.vars = [] := by rfl
  rw [hu] at h5
  have : b.evalRelaxed II (([] : List Str).map (fun _ => (0:Int))) = .ok 7 := by rfl
  rw [this] at h5
  have h6 : (7:Int) = II.bin AA.mul.idx (-1) 7 := by injection h5
  revert h6
  decide

/-! ### `compile` alone does not establish `WrapOK`

`WrapOK` talks about nested groups that `compile` never touches, so
`e.compile I = .ok r → WrapOK r` is false. -/

/-- `-(-(1))` with both wrappers kept: a wrapper with unary chain around a wrapper with unary chain
    around the literal group. `compile` returns it unchanged. -/
def e1 : DeepEx Int :=
  .mk [.expr (.mk [.expr (.mk [.num 1] [] [] [])] [] [1] [])] [] [1] []

theorem e1_compile : e1.compile II = .ok e1 := by rfl
theorem e1_shape : e1.Shape 0 := by
  simp [e1, DeepEx.Shape, shapeList, DeepNode.ShapeN]
theorem e1_not_wrapOK : ¬ Shortcut.WrapOK e1 := by
  simp [e1, Shortcut.WrapOK, Shortcut.isLit]

theorem compile_wrapOK_false :
    ¬ (∀ (e r : DeepEx Int), e.Shape 0 → e.compile II = .ok r → Shortcut.WrapOK r) :=
  fun h => e1_not_wrapOK (h e1 e1 e1_shape e1_compile)

/-- Even when every nested group is `WrapOK`, the result need not be: `lift_nodes` lifts only one
    level. `x2 = ((1))` (two wrappers, no unary chains) is `WrapOK`; `-x2` is not. This is also why
    `neg_sound` / `operateUnary_yields` ask for the hereditary `Shortcut.Folded`. -/
def x2 : DeepEx Int := .mk [.expr (.mk [.expr (.mk [.num 1] [] [] [])] [] [] [])] [] [] []

theorem x2_wrapOK : Shortcut.WrapOK x2 := by
  simp [x2, Shortcut.WrapOK, Shortcut.isLit]
theorem x2_not_folded : ¬ Shortcut.Folded x2 := by
  simp [x2, Shortcut.Folded, Shortcut.foldedList, Shortcut.FoldedNode, Shortcut.isLit]
theorem x2_neg : x2.neg II tbl = .ok (.mk [.expr (.mk [.num 1] [] [] [])] [] [1] []) := by rfl
theorem x2_neg_not_wrapOK :
    ¬ (∀ r, x2.neg II tbl = .ok r → Shortcut.WrapOK r) := by
  intro h
  have := h _ x2_neg
  simp [Shortcut.WrapOK, Shortcut.isLit] at this

end Exmex.ShortcutCex
