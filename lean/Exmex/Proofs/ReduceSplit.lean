/-
  The documented reduction ("apply the left-most operator of highest priority, repeat") equals
  "the operator applied last is the right-most one of lowest priority", and hence the two
  formulations of the specification (`denote`, `denoteS`) agree.
-/
import Exmex.Spec.Surface
import Exmex.Spec.Split
import Exmex.Proofs.FlattenDefs
import Exmex.Proofs.ReduceSplitAux
namespace Exmex
open ReduceSplitAux

theorem reduceChain_eq_splitEval_aux {α : Type} (bin : Nat → α → α → α) (prio : Nat → Int) :
    ∀ (n : Nat) (vs : List α) (os : List Nat), os.length = n → vs.length = n + 1 →
    ∃ v, reduceChain bin prio n vs os = some v ∧ splitEval bin prio n vs os = some v := by
  intro n
  induction n with
  | zero =>
    intro vs os hn hlen
    have : os = [] := by simpa using hn
    subst this
    match vs, hlen with
    | [v], _ => exact ⟨v, reduceChain.eq_1 .., splitEval.eq_1 ..⟩
  | succ n ih =>
    intro vs os hn hlen
    have hos : os ≠ [] := by intro h; simp [h] at hn
    have hk : argmaxL (os.map prio) < os.length := by
      simpa using argmaxL_lt (os.map prio) (by simpa using hos)
    have hloc := localMax_argmaxL (os.map prio)
    rw [reduceChain.eq_3 _ _ _ _ _ (by intro v _ h2; exact hos h2)]
    generalize argmaxL (os.map prio) = k at hk hloc
    have ho : os[k]? = some os[k] := List.getElem?_eq_getElem hk
    have ha : vs[k]? = some (vs[k]'(by omega)) := List.getElem?_eq_getElem (by omega)
    have hb : vs[k + 1]? = some (vs[k + 1]'(by omega)) := List.getElem?_eq_getElem (by omega)
    simp only [ho, ha, hb]
    rw [merge_eq _ _ _ (by omega)]
    obtain ⟨v, h1, h2⟩ := ih ((vs.eraseIdx (k + 1)).set k (bin os[k] (vs[k]'(by omega)) (vs[k + 1]'(by omega))))
      (os.eraseIdx k) (by rw [List.length_eraseIdx_of_lt hk]; omega)
      (by rw [List.length_set, List.length_eraseIdx_of_lt (by omega)]; omega)
    refine ⟨v, h1, ?_⟩
    rw [← h2]
    exact (splitEval_merge bin prio n vs os k _ _ _ (by omega) (by omega) ho ha hb hloc).symm

theorem reduceChain_eq_splitEval {α : Type} (bin : Nat → α → α → α) (prio : Nat → Int)
    (vs : List α) (os : List Nat) (h : vs.length = os.length + 1) :
    ∃ v, reduceChain bin prio os.length vs os = some v ∧
      splitEval bin prio os.length vs os = some v :=
  reduceChain_eq_splitEval_aux bin prio os.length vs os rfl h

theorem splitEval_fuel_mono {α ω : Type} (apply : ω → α → α → α) (key : ω → Int)
    (fuel fuel' : Nat) (vs : List α) (os : List ω) (h : vs.length = os.length + 1)
    (hf : os.length ≤ fuel) (hf' : os.length ≤ fuel') :
    splitEval apply key fuel vs os = splitEval apply key fuel' vs os :=
  splitEval_fuel_mono_aux apply key fuel fuel' vs os h hf hf'

/-- operand lists always have one more value than operators -/
theorem Chain.operands_length {α : Type} (I : Interp α) (t : Table) (ρ : Env α) :
    ∀ (c : Chain α) (vs : List α) (os : List Nat), c.operands I t ρ = some (vs, os) →
      vs.length = os.length + 1
  | .single a, vs, os, h => by
    rw [Chain.operands] at h
    cases ha : a.denote I t ρ with
    | none => simp [ha] at h
    | some v =>
      simp [ha] at h
      obtain ⟨rfl, rfl⟩ := h
      rfl
  | .cons a o rest, vs, os, h => by
    rw [Chain.operands] at h
    cases ha : a.denote I t ρ with
    | none => simp [ha] at h
    | some v =>
      cases hr : rest.operands I t ρ with
      | none => simp [ha, hr] at h
      | some q =>
        obtain ⟨vs', os'⟩ := q
        have := Chain.operands_length I t ρ rest vs' os' hr
        simp [ha, hr] at h
        obtain ⟨rfl, rfl⟩ := h
        simp [this]

theorem Chain.denoteS_eq_of_operands {α : Type} (I : Interp α) (t : Table) (ρ : Env α) (c : Chain α)
    (h : c.operandsS I t ρ = c.operands I t ρ) : c.denoteS I t ρ = c.denote I t ρ := by
  rw [Chain.denoteS, Chain.denote, h]
  cases hops : c.operands I t ρ with
  | none => rfl
  | some q =>
    obtain ⟨vs, os⟩ := q
    obtain ⟨v, h1, h2⟩ := reduceChain_eq_splitEval I.bin (tblPrio t) vs os
      (Chain.operands_length I t ρ c vs os hops)
    simp only [h1, h2]

theorem Chain.denote_isSome_of_operands {α : Type} (I : Interp α) (t : Table) (ρ : Env α) (c : Chain α)
    (h : (c.operands I t ρ).isSome) : (c.denote I t ρ).isSome := by
  rw [Chain.denote]
  cases hops : c.operands I t ρ with
  | none => simp [hops] at h
  | some q =>
    obtain ⟨vs, os⟩ := q
    obtain ⟨v, h1, _⟩ := reduceChain_eq_splitEval I.bin (tblPrio t) vs os
      (Chain.operands_length I t ρ c vs os hops)
    simp only [h1, Option.isSome_some]

mutual
theorem Atom.denoteS_eq_denote {α : Type} (I : Interp α) (t : Table) (ρ : Env α) :
    ∀ a : Atom α, a.denoteS I t ρ = a.denote I t ρ
  | .lit _ _ => by rw [Atom.denoteS, Atom.denote]
  | .var _ _ => by rw [Atom.denoteS, Atom.denote]
  | .const _ => by rw [Atom.denoteS, Atom.denote]
  | .par c => by
    rw [Atom.denoteS, Atom.denote]
    exact Chain.denoteS_eq_of_operands I t ρ c (Chain.operandsS_eq_operands I t ρ c)
  | .call o a b => by
    rw [Atom.denoteS, Atom.denote,
      Chain.denoteS_eq_of_operands I t ρ a (Chain.operandsS_eq_operands I t ρ a),
      Chain.denoteS_eq_of_operands I t ρ b (Chain.operandsS_eq_operands I t ρ b)]
    rfl
  | .un u a => by rw [Atom.denoteS, Atom.denote, Atom.denoteS_eq_denote I t ρ a]
theorem Chain.operandsS_eq_operands {α : Type} (I : Interp α) (t : Table) (ρ : Env α) :
    ∀ c : Chain α, c.operandsS I t ρ = c.operands I t ρ
  | .single a => by rw [Chain.operandsS, Chain.operands, Atom.denoteS_eq_denote I t ρ a]
  | .cons a o rest => by
    rw [Chain.operandsS, Chain.operands, Atom.denoteS_eq_denote I t ρ a,
      Chain.operandsS_eq_operands I t ρ rest]
    rfl
end

mutual
theorem Atom.denote_isSome {α : Type} (I : Interp α) (t : Table) (ρ : Env α) :
    ∀ a : Atom α, (a.denote I t ρ).isSome
  | .lit _ _ => by rw [Atom.denote]; rfl
  | .var _ _ => by rw [Atom.denote]; rfl
  | .const _ => by rw [Atom.denote]; rfl
  | .par c => by
    rw [Atom.denote]
    exact Chain.denote_isSome_of_operands I t ρ c (Chain.operands_isSome I t ρ c)
  | .call o a b => by
    have ha := Chain.denote_isSome_of_operands I t ρ a (Chain.operands_isSome I t ρ a)
    have hb := Chain.denote_isSome_of_operands I t ρ b (Chain.operands_isSome I t ρ b)
    obtain ⟨x, hx⟩ := Option.isSome_iff_exists.mp ha
    obtain ⟨y, hy⟩ := Option.isSome_iff_exists.mp hb
    rw [Atom.denote, hx, hy]; rfl
  | .un u a => by
    rw [Atom.denote, Option.isSome_map]
    exact Atom.denote_isSome I t ρ a
theorem Chain.operands_isSome {α : Type} (I : Interp α) (t : Table) (ρ : Env α) :
    ∀ c : Chain α, (c.operands I t ρ).isSome
  | .single a => by
    rw [Chain.operands, Option.isSome_map]
    exact Atom.denote_isSome I t ρ a
  | .cons a o rest => by
    obtain ⟨x, hx⟩ := Option.isSome_iff_exists.mp (Atom.denote_isSome I t ρ a)
    obtain ⟨q, hq⟩ := Option.isSome_iff_exists.mp (Chain.operands_isSome I t ρ rest)
    obtain ⟨vs, os⟩ := q
    rw [Chain.operands, hx, hq]; rfl
end

/-- the two formulations of the specification agree on every expression -/
theorem denoteS_eq_denote {α : Type} (I : Interp α) (t : Table) (ρ : Env α) (c : Chain α) :
    c.denoteS I t ρ = c.denote I t ρ :=
  Chain.denoteS_eq_of_operands I t ρ c (Chain.operandsS_eq_operands I t ρ c)

/-- the documented value is always defined -/
theorem denote_isSome {α : Type} (I : Interp α) (t : Table) (ρ : Env α) (c : Chain α) :
    (c.denote I t ρ).isSome :=
  Chain.denote_isSome_of_operands I t ρ c (Chain.operands_isSome I t ρ c)


end Exmex
