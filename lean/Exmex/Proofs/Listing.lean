/-
  Operator listings (C03): every operator index stored in a parsed expression (flat: the binary
  operators, their unary chains and the unary chains of the nodes; deep: at every nesting depth)
  is the index of an operator token of the token list, and folding / lifting never introduces
  operator indices.
-/
import Exmex.Proofs.ParseAssembly
import Exmex.Proofs.DeepCompile
namespace Exmex.Listing

variable {α : Type}

/-! ### general list facts -/

theorem forall_modify {β} (P : β → Prop) (f : β → β) (hf : ∀ x, P x → P (f x)) :
    ∀ (l : List β) (k : Nat), (∀ x ∈ l, P x) → ∀ x ∈ l.modify k f, P x
  | [], _, _ => by intro x hx; simp at hx
  | a :: l, 0, h => by
    intro x hx
    rw [List.modify_zero_cons] at hx
    rcases List.mem_cons.1 hx with rfl | hx
    · exact hf a (h a (List.mem_cons_self))
    · exact h x (List.mem_cons_of_mem _ hx)
  | a :: l, k + 1, h => by
    intro x hx
    rw [List.modify_succ_cons] at hx
    rcases List.mem_cons.1 hx with rfl | hx
    · exact h _ (List.mem_cons_self)
    · exact forall_modify P f hf l k (fun y hy => h y (List.mem_cons_of_mem _ hy)) x hx

/-! ### the flat walker -/

theorem unpackUnary_tok (t : Table) (toks : List (Tok α)) (i o : Nat)
    (h : unpackUnary t toks i = .ok (some o)) : Tok.op o ∈ toks := by
  unfold unpackUnary at h
  cases htk : toks[i]? with
  | none => rw [htk] at h; cases h
  | some tk =>
    rw [htk] at h
    have hm : tk ∈ toks := List.mem_of_getElem? htk
    cases tk with
    | op o' =>
      dsimp only at h
      split at h
      · cases h
      · cases h
      · split at h
        · cases h; exact hm
        · cases h
    | num a => cases h
    | popen => cases h
    | pclose => cases h
    | var v => cases h

theorem unariesEndingAt_tok (t : Table) (toks : List (Tok α)) :
    ∀ (i : Nat) (us : List Nat), unariesEndingAt t toks i = .ok us → ∀ u ∈ us, Tok.op u ∈ toks
  | 0, us, h => by
    rw [unariesEndingAt] at h
    cases hu : unpackUnary t toks 0 with
    | error e => rw [hu] at h; cases h
    | ok r =>
      rw [hu] at h
      cases r with
      | none => cases h; intro u hu; cases hu
      | some o =>
        cases h
        intro u hu'
        rw [List.mem_singleton] at hu'
        subst hu'
        exact unpackUnary_tok t toks 0 _ hu
  | i + 1, us, h => by
    rw [unariesEndingAt] at h
    cases hu : unpackUnary t toks (i + 1) with
    | error e => rw [hu] at h; cases h
    | ok r =>
      rw [hu] at h
      cases r with
      | none => cases h; intro u hu; cases hu
      | some o =>
        dsimp only at h
        cases hr : unariesEndingAt t toks i with
        | error e => rw [hr] at h; cases h
        | ok us' =>
          rw [hr] at h
          cases h
          intro u hu'
          rcases List.mem_append.1 hu' with h1 | h1
          · exact unariesEndingAt_tok t toks i us' hr u h1
          · rw [List.mem_singleton] at h1
            subst h1
            exact unpackUnary_tok t toks _ _ hu

theorem createNode_tok (t : Table) (toks : List (Tok α)) (i : Nat) (kind : NodeKind α)
    (n : FlatNode α) (h : createNode t toks i kind = .ok n) : ∀ u ∈ n.un, Tok.op u ∈ toks := by
  unfold createNode at h
  split at h
  · split at h
    · split at h
      · cases h
      · cases h; intro u hu; cases hu
      · split at h
        · cases h
        · cases h
          rename_i us hus
          exact unariesEndingAt_tok t toks _ us hus
    · cases h; intro u hu; cases hu
  · cases h; intro u hu; cases hu

/-- the operator indices stored in a walker state are indices of operator tokens -/
structure Good (toks : List (Tok α)) (nodes : List (FlatNode α)) (ops : List FlatOp) : Prop where
  bin : ∀ o ∈ ops, Tok.op o.idx ∈ toks
  opun : ∀ o ∈ ops, ∀ u ∈ o.un, Tok.op u ∈ toks
  ndun : ∀ n ∈ nodes, ∀ u ∈ n.un, Tok.op u ∈ toks

theorem Good.push_node {toks : List (Tok α)} {nodes ops} (g : Good toks nodes ops)
    (n : FlatNode α) (hn : ∀ u ∈ n.un, Tok.op u ∈ toks) : Good toks (nodes ++ [n]) ops :=
  ⟨g.bin, g.opun, fun m hm => by
    rcases List.mem_append.1 hm with h | h
    · exact g.ndun m h
    · rw [List.mem_singleton] at h; subst h; exact hn⟩

theorem makeStep_good (t : Table) (toks : List (Tok α)) (vars : List Str) (i : Nat) (tk : Tok α)
    (htk : tk ∈ toks) (st st' : MakeSt α) (g : Good toks st.nodes st.ops)
    (h : makeStep t toks vars i tk st = .ok st') : Good toks st'.nodes st'.ops := by
  unfold makeStep at h
  cases tk with
  | op o =>
    dsimp only at h
    split at h
    · cases h
    · split at h
      · cases h
      · cases h
        refine ⟨?_, ?_, g.ndun⟩
        · intro x hx
          rcases List.mem_append.1 hx with h1 | h1
          · exact g.bin x h1
          · rw [List.mem_singleton] at h1; subst h1; exact htk
        · intro x hx
          rcases List.mem_append.1 hx with h1 | h1
          · exact g.opun x h1
          · rw [List.mem_singleton] at h1; subst h1; intro u hu; cases hu
    · split at h
      · cases h
      · cases h
      · cases h; exact g
      · cases h; exact g
  | num a =>
    dsimp only at h
    split at h
    · cases h
    · cases h
      rename_i n hn
      exact g.push_node n (createNode_tok t toks i _ n hn)
  | var name =>
    dsimp only at h
    split at h
    · cases h
    · split at h
      · cases h
      · cases h
        rename_i n hn
        exact g.push_node n (createNode_tok t toks i _ n hn)
  | popen => cases h; exact g
  | pclose =>
    dsimp only at h
    split at h
    · split at h
      · cases h
      · rename_i last hlast
        split at h
        · cases h; exact g
        · split at h
          · cases h
          · cases h
            rename_i us hus
            have hus' := unariesEndingAt_tok t toks _ us hus
            refine ⟨g.bin, g.opun, ?_⟩
            intro m hm
            rcases List.mem_append.1 hm with h1 | h1
            · exact g.ndun m ((List.dropLast_sublist _).subset h1)
            · rw [List.mem_singleton] at h1
              subst h1
              intro u hu
              rcases List.mem_append.1 hu with h2 | h2
              · exact hus' u h2
              · exact g.ndun last (List.mem_of_getLast? hlast) u h2
    · rename_i k _
      split at h
      · cases h; exact g
      · split at h
        · cases h
        · cases h
          rename_i us hus
          have hus' := unariesEndingAt_tok t toks _ us hus
          have := forall_modify
            (fun o : FlatOp => Tok.op o.idx ∈ toks ∧ ∀ u ∈ o.un, Tok.op u ∈ toks)
            (fun o => { o with un := us ++ o.un })
            (fun x hx => ⟨hx.1, fun u hu => by
              rcases List.mem_append.1 hu with h2 | h2
              · exact hus' u h2
              · exact hx.2 u h2⟩) st.ops k (fun x hx => ⟨g.bin x hx, g.opun x hx⟩)
          exact ⟨fun o ho => (this o ho).1, fun o ho => (this o ho).2, g.ndun⟩

theorem makeLoop_good (t : Table) (toks : List (Tok α)) (vars : List Str) :
    ∀ (rest : List (Tok α)) (i : Nat) (st st' : MakeSt α), (∀ tk ∈ rest, tk ∈ toks) →
      Good toks st.nodes st.ops → makeLoop t toks vars rest i st = .ok st' →
      Good toks st'.nodes st'.ops
  | [], _, st, st', _, g, h => by
    rw [makeLoop] at h; cases h; exact g
  | tk :: rest, i, st, st', hr, g, h => by
    rw [makeLoop] at h
    cases hs : makeStep t toks vars i tk st with
    | error e => rw [hs] at h; cases h
    | ok st1 =>
      rw [hs] at h
      exact makeLoop_good t toks vars rest (i + 1) st1 st'
        (fun x hx => hr x (List.mem_cons_of_mem _ hx))
        (makeStep_good t toks vars i tk (hr tk List.mem_cons_self) st st1 g hs) h

theorem makeExpression_good (t : Table) (text : Str) (toks : List (Tok α)) (vars : List Str)
    (f : FlatEx α) (h : makeExpression t text toks vars = .ok f) : Good toks f.nodes f.ops := by
  unfold makeExpression at h
  cases hl : makeLoop t toks vars toks 0 {} with
  | error e => rw [hl] at h; cases h
  | ok st =>
    rw [hl] at h
    dsimp only at h
    split at h
    · cases h
    · cases h
      exact makeLoop_good t toks vars toks 0 {} st (fun _ h => h)
        ⟨fun o ho => (by cases ho), fun o ho => (by cases ho), fun n hn => (by cases hn)⟩ hl

theorem parseWoCompile_good (I : Interp α) (t : Table) (lm : Str → Option Nat) (text : Str)
    (toks : List (Tok α)) (htok : tokenize I t lm text = .ok toks) (f : FlatEx α)
    (h : Flat.parseWoCompile I t lm text = .ok f) : Good toks f.nodes f.ops := by
  unfold Flat.parseWoCompile at h
  rw [htok] at h
  dsimp only at h
  split at h
  · cases h
  · exact makeExpression_good t text toks _ f h

/-! ### `FlatEx::compile` -/

/-- every unary chain of `nodes'` is a unary chain of `nodes` -/
def NodesFrom (nodes nodes' : List (FlatNode α)) : Prop :=
  ∀ n ∈ nodes', ∀ u ∈ n.un, ∃ m ∈ nodes, u ∈ m.un

theorem compileStep_from (I : Interp α) (ops : List FlatOp) (nodes : List (FlatNode α))
    (st : CompileSt α) (b n : Nat) (ns : List Nat) (st' : CompileSt α) (ns' : List Nat)
    (hfrom : NodesFrom nodes st.nodes) (h : compileStep I ops st b n ns = .ok (st', ns')) :
    NodesFrom nodes st'.nodes := by
  unfold compileStep at h
  split at h
  · split at h
    · split at h
      · split at h
        · cases h
        · cases h
          intro m hm u hu
          have hm' := List.mem_of_mem_eraseIdx hm
          rcases List.mem_or_eq_of_mem_set hm' with h1 | h1
          · exact hfrom m h1 u hu
          · subst h1; cases hu
      · cases h; exact hfrom
    · cases h; exact hfrom
  · cases h

theorem compileLoop_from (I : Interp α) (ops : List FlatOp) (nodes : List (FlatNode α)) :
    ∀ (bs ns : List Nat) (st st' : CompileSt α), NodesFrom nodes st.nodes →
      compileLoop I ops bs ns st = .ok st' → NodesFrom nodes st'.nodes
  | [], _, st, st', hfrom, h => by
    rw [compileLoop] at h; cases h; exact hfrom
  | _ :: _, [], _, _, _, h => by
    rw [compileLoop] at h; cases h
  | b :: bs, n :: ns, st, st', hfrom, h => by
    rw [compileLoop] at h
    cases hs : compileStep I ops st b n ns with
    | error e => rw [hs] at h; cases h
    | ok r =>
      obtain ⟨st1, ns1⟩ := r
      rw [hs] at h
      exact compileLoop_from I ops nodes bs ns1 st1 st'
        (compileStep_from I ops nodes st b n ns st1 ns1 hfrom hs) h

theorem compile_from (I : Interp α) (f g : FlatEx α) (h : f.compile I = .ok g) :
    (∀ o ∈ g.ops, o ∈ f.ops) ∧ NodesFrom f.nodes g.nodes := by
  unfold FlatEx.compile at h
  dsimp only at h
  split at h
  · cases h
  · rename_i st hst
    cases h
    refine ⟨?_, ?_⟩
    · intro o ho
      obtain ⟨p, hp, rfl⟩ := List.mem_map.1 ho
      have hp' := (List.mem_filter.1 hp).1
      obtain ⟨a, k⟩ := p
      exact (List.mem_zipIdx hp').2.2 ▸ List.getElem_mem _
    · refine compileLoop_from I f.ops f.nodes _ _ _ st ?_ hst
      intro m hm u hu
      obtain ⟨m0, hm0, rfl⟩ := List.mem_map.1 hm
      cases hk : m0.kind with
      | num a => rw [hk] at hu; cases hu
      | var v => rw [hk] at hu; exact ⟨m0, hm0, hu⟩

/-! ### deep expressions -/

theorem mem_binOpsNodes : ∀ (l : List (DeepNode α)) (k : Nat),
    k ∈ binOpsNodes l ↔ ∃ e, DeepNode.expr e ∈ l ∧ k ∈ e.binOpsAll
  | [], k => by simp [binOpsNodes]
  | .num a :: l, k => by simp [binOpsNodes, mem_binOpsNodes l k]
  | .var i v :: l, k => by simp [binOpsNodes, mem_binOpsNodes l k]
  | .expr e :: l, k => by simp [binOpsNodes, mem_binOpsNodes l k]

theorem mem_unOpsNodes : ∀ (l : List (DeepNode α)) (k : Nat),
    k ∈ unOpsNodes l ↔ ∃ e, DeepNode.expr e ∈ l ∧ k ∈ e.unOpsAll
  | [], k => by simp [unOpsNodes]
  | .num a :: l, k => by simp [unOpsNodes, mem_unOpsNodes l k]
  | .var i v :: l, k => by simp [unOpsNodes, mem_unOpsNodes l k]
  | .expr e :: l, k => by simp [unOpsNodes, mem_unOpsNodes l k]

/-- all operator indices of a deep expression, at every depth, satisfy `S` -/
def ExGood (S : Nat → Prop) (e : DeepEx α) : Prop :=
  (∀ k ∈ e.binOpsAll, S k) ∧ (∀ k ∈ e.unOpsAll, S k)

def NodesGood (S : Nat → Prop) (l : List (DeepNode α)) : Prop :=
  ∀ e, DeepNode.expr e ∈ l → ExGood S e

theorem exGood_mk (S : Nat → Prop) (nodes : List (DeepNode α)) (ops : List DBin) (un : List Nat)
    (vars : List Str) :
    ExGood S (.mk nodes ops un vars) ↔
      NodesGood S nodes ∧ (∀ o ∈ ops, S o.idx) ∧ (∀ u ∈ un, S u) := by
  unfold ExGood NodesGood ExGood
  rw [DeepEx.binOpsAll, DeepEx.unOpsAll]
  constructor
  · rintro ⟨h1, h2⟩
    refine ⟨fun e he => ⟨fun k hk => ?_, fun k hk => ?_⟩, fun o ho => ?_, fun u hu => ?_⟩
    · exact h1 k (List.mem_append_left _ ((mem_binOpsNodes nodes k).2 ⟨e, he, hk⟩))
    · exact h2 k (List.mem_append_left _ ((mem_unOpsNodes nodes k).2 ⟨e, he, hk⟩))
    · exact h1 _ (List.mem_append_right _ (List.mem_map.2 ⟨o, ho, rfl⟩))
    · exact h2 _ (List.mem_append_right _ hu)
  · rintro ⟨h1, h2, h3⟩
    refine ⟨fun k hk => ?_, fun k hk => ?_⟩
    · rcases List.mem_append.1 hk with h | h
      · obtain ⟨e, he, hk'⟩ := (mem_binOpsNodes nodes k).1 h
        exact (h1 e he).1 k hk'
      · obtain ⟨o, ho, rfl⟩ := List.mem_map.1 h
        exact h2 o ho
    · rcases List.mem_append.1 hk with h | h
      · obtain ⟨e, he, hk'⟩ := (mem_unOpsNodes nodes k).1 h
        exact (h1 e he).2 k hk'
      · exact h3 k h

theorem nodesGood_nil (S : Nat → Prop) : NodesGood S ([] : List (DeepNode α)) := by
  intro e he; cases he

theorem nodesGood_cons (S : Nat → Prop) (nd : DeepNode α) (l : List (DeepNode α)) :
    NodesGood S (nd :: l) ↔ NodesGood S [nd] ∧ NodesGood S l := by
  unfold NodesGood
  constructor
  · intro h
    exact ⟨fun e he => h e (by rw [List.mem_singleton] at he; rw [he]; exact List.mem_cons_self),
      fun e he => h e (List.mem_cons_of_mem _ he)⟩
  · rintro ⟨h1, h2⟩ e he
    rcases List.mem_cons.1 he with h | h
    · exact h1 e (by rw [h]; exact List.mem_cons_self)
    · exact h2 e h

theorem nodesGood_append (S : Nat → Prop) (l1 l2 : List (DeepNode α)) :
    NodesGood S (l1 ++ l2) ↔ NodesGood S l1 ∧ NodesGood S l2 := by
  unfold NodesGood
  constructor
  · intro h
    exact ⟨fun e he => h e (List.mem_append_left _ he), fun e he => h e (List.mem_append_right _ he)⟩
  · rintro ⟨h1, h2⟩ e he
    rcases List.mem_append.1 he with h | h
    · exact h1 e h
    · exact h2 e h

theorem nodesGood_expr (S : Nat → Prop) (e : DeepEx α) :
    NodesGood S [DeepNode.expr e] ↔ ExGood S e := by
  unfold NodesGood
  constructor
  · intro h; exact h e List.mem_cons_self
  · intro h e' he'
    rw [List.mem_singleton] at he'
    cases he'
    exact h

theorem nodesGood_num (S : Nat → Prop) (a : α) : NodesGood S [DeepNode.num a] := by
  intro e he
  rw [List.mem_singleton] at he
  cases he

theorem nodesGood_var (S : Nat → Prop) (i : Nat) (v : Str) :
    NodesGood S [(DeepNode.var i v : DeepNode α)] := by
  intro e he
  rw [List.mem_singleton] at he
  cases he

/-! ### `lift_nodes` never introduces operator indices -/

theorem lift_good (S : Nat → Prop) :
    (∀ e : DeepEx α, ExGood S e → ExGood S e.liftNodes) ∧
    (∀ l : List (DeepNode α), NodesGood S l → NodesGood S (liftNodeList l)) ∧
    (∀ nd : DeepNode α, NodesGood S [nd] → NodesGood S [nd.liftNode]) := by
  apply DeepEx.liftNodes.mutual_induct
  · intro ops' vars' a _
    rw [DeepNode.liftNode]
    exact nodesGood_num S a
  · intro ops' vars' i v _
    rw [DeepNode.liftNode]
    exact nodesGood_var S i v
  · intro ops' vars' ed ed' hc ih h
    rw [nodesGood_expr, exGood_mk, nodesGood_expr] at h
    rw [DeepNode.liftNode.eq_3, if_pos hc, nodesGood_expr]
    exact ih h.1
  · intro ops' vars' ed ed' hc ih h
    rw [nodesGood_expr, exGood_mk, nodesGood_expr] at h
    rw [DeepNode.liftNode.eq_3, if_neg hc, nodesGood_expr, exGood_mk, nodesGood_expr]
    exact ⟨ih h.1, h.2⟩
  · intro other hne h
    rw [DeepNode.liftNode.eq_4 other hne]
    exact h
  · intro ops un vars e hc h
    rw [exGood_mk, nodesGood_expr] at h
    rw [DeepEx.liftNodes.eq_1, if_pos hc]
    exact h.1
  · intro n ops un vars hc hne h
    have : (DeepEx.mk n ops un vars).liftNodes = DeepEx.mk n ops un vars := by
      rw [DeepEx.liftNodes.eq_def]
      simp only [hc, if_true]
    rw [this]
    exact h
  · intro n ops un vars hc ih h
    have : (DeepEx.mk n ops un vars).liftNodes = DeepEx.mk (liftNodeList n) ops un vars := by
      rw [DeepEx.liftNodes.eq_def]
      simp only [hc]
      rfl
    rw [this]
    rw [exGood_mk] at h ⊢
    exact ⟨ih h.1, h.2⟩
  · intro _
    rw [liftNodeList]
    exact nodesGood_nil S
  · intro nd rest ih1 ih2 h
    rw [nodesGood_cons] at h
    rw [liftNodeList, nodesGood_cons]
    exact ⟨ih1 h.1, ih2 h.2⟩

/-! ### deep folding never introduces operator indices -/

theorem dcompileStep_good (I : Interp α) (S : Nat → Prop) (ops : List DBin)
    (st : DCompileSt α) (b n : Nat) (ns : List Nat) (st' : DCompileSt α) (ns' : List Nat)
    (hg : NodesGood S st.nodes) (h : dcompileStep I ops st b n ns = .ok (st', ns')) :
    NodesGood S st'.nodes := by
  unfold dcompileStep at h
  split at h
  · split at h
    · split at h
      · split at h
        · cases h
        · cases h
          intro e he
          have he' := List.mem_of_mem_eraseIdx he
          rcases List.mem_or_eq_of_mem_set he' with h1 | h1
          · exact hg e h1
          · cases h1
      · cases h; exact hg
    · cases h; exact hg
  · cases h

theorem dcompileLoop_good (I : Interp α) (S : Nat → Prop) (ops : List DBin) :
    ∀ (bs ns : List Nat) (st st' : DCompileSt α), NodesGood S st.nodes →
      dcompileLoop I ops bs ns st = .ok st' → NodesGood S st'.nodes
  | [], _, st, st', hg, h => by
    rw [dcompileLoop] at h; cases h; exact hg
  | _ :: _, [], _, _, _, h => by
    rw [dcompileLoop] at h; cases h
  | b :: bs, n :: ns, st, st', hg, h => by
    rw [dcompileLoop] at h
    cases hs : dcompileStep I ops st b n ns with
    | error e => rw [hs] at h; cases h
    | ok r =>
      obtain ⟨st1, ns1⟩ := r
      rw [hs] at h
      exact dcompileLoop_good I S ops bs ns1 st1 st'
        (dcompileStep_good I S ops st b n ns st1 ns1 hg hs) h

theorem foldGroup_good (I : Interp α) (S : Nat → Prop) (e d : DeepEx α) (hg : ExGood S e)
    (h : DeepCompile.foldGroup I e = .ok d) : ExGood S d := by
  obtain ⟨nodes, ops, un, vars⟩ := e
  rw [exGood_mk] at hg
  unfold DeepCompile.foldGroup at h
  simp only [DeepEx.ops, DeepEx.nodes, DeepEx.un, DeepEx.vars] at h
  split at h
  · cases h
  · rename_i st hst
    have hn := dcompileLoop_good I S ops _ _ _ st hg.1 hst
    have hops : ∀ o ∈ (ops.zipIdx.filter (fun p => !st.used.contains p.2)).map (·.1), S o.idx := by
      intro o ho
      obtain ⟨p, hp, rfl⟩ := List.mem_map.1 ho
      have hp' := (List.mem_filter.1 hp).1
      obtain ⟨a, k⟩ := p
      exact hg.2.1 _ ((List.mem_zipIdx hp').2.2 ▸ List.getElem_mem _)
    split at h
    · cases h
      rw [exGood_mk]
      exact ⟨nodesGood_num S _, hops, fun u hu => by cases hu⟩
    · cases h
      rw [exGood_mk]
      exact ⟨hn, hops, hg.2.2⟩

theorem compile_good (I : Interp α) (S : Nat → Prop) (e d : DeepEx α) (hg : ExGood S e)
    (h : e.compile I = .ok d) : ExGood S d := by
  rw [DeepCompile.compile_eq] at h
  exact foldGroup_good I S _ d ((lift_good S).1 e hg) h

theorem new_good (I : Interp α) (S : Nat → Prop) (nodes : List (DeepNode α)) (ops : List DBin)
    (un : List Nat) (d : DeepEx α) (hn : NodesGood S nodes) (ho : ∀ o ∈ ops, S o.idx)
    (hu : ∀ u ∈ un, S u) (h : DeepEx.new I nodes ops un = .ok d) : ExGood S d := by
  unfold DeepEx.new at h
  split at h
  · cases h
    rw [exGood_mk]
    exact ⟨nodesGood_nil S, fun o ho => (by cases ho), fun u hu => (by cases hu)⟩
  · split at h
    · cases h
    · exact compile_good I S _ d ((exGood_mk S _ _ _ _).2 ⟨hn, ho, hu⟩) h

/-! ### the deep walker -/

theorem subsequentUnaries_tok (t : Table) : ∀ (l : List (Tok α)),
    ∀ u ∈ subsequentUnaries t l, Tok.op u ∈ l
  | [], u, hu => by simp [subsequentUnaries] at hu
  | .op o :: rest, u, hu => by
    rw [subsequentUnaries] at hu
    split at hu
    · rcases List.mem_cons.1 hu with h | h
      · subst h; exact List.mem_cons_self
      · exact List.mem_cons_of_mem _ (subsequentUnaries_tok t rest u h)
    · cases hu
  | .num a :: rest, u, hu => by simp [subsequentUnaries] at hu
  | .var v :: rest, u, hu => by simp [subsequentUnaries] at hu
  | .popen :: rest, u, hu => by simp [subsequentUnaries] at hu
  | .pclose :: rest, u, hu => by simp [subsequentUnaries] at hu

theorem tblBin_idx (t : Table) (o : Nat) (b : DBin) (h : tblBin t o = some b) : b.idx = o := by
  unfold tblBin at h
  cases hb : (t[o]?).bind (·.bin) with
  | none => rw [hb] at h; cases h
  | some x => rw [hb] at h; cases h; rfl

section
variable (I : Interp α) (t : Table) (W : List Str) (toks0 : List (Tok α))

def MakeG (fuel : Nat) : Prop :=
  ∀ (toks : List (Tok α)) (un : List Nat) (d : DeepEx α) (n : Nat),
    (∀ tk ∈ toks, tk ∈ toks0) → (∀ u ∈ un, Tok.op u ∈ toks0) →
    deepMake I t W fuel toks un = .ok (d, n) → ExGood (fun k => Tok.op k ∈ toks0) d

def LoopG (fuel : Nat) : Prop :=
  ∀ (toks : List (Tok α)) (idx : Nat) (nodes : List (DeepNode α)) (ops : List DBin)
    (nodes' : List (DeepNode α)) (ops' : List DBin) (n : Nat),
    (∀ tk ∈ toks, tk ∈ toks0) → NodesGood (fun k => Tok.op k ∈ toks0) nodes →
    (∀ o ∈ ops, Tok.op o.idx ∈ toks0) →
    deepLoop I t W fuel toks idx nodes ops = .ok (nodes', ops', n) →
    NodesGood (fun k => Tok.op k ∈ toks0) nodes' ∧ (∀ o ∈ ops', Tok.op o.idx ∈ toks0)

def UnG (fuel : Nat) : Prop :=
  ∀ (toks : List (Tok α)) (idx o : Nat) (nd : DeepNode α) (n : Nat),
    (∀ tk ∈ toks, tk ∈ toks0) → Tok.op o ∈ toks0 →
    processUnary I t W fuel toks idx o = .ok (nd, n) →
    NodesGood (fun k => Tok.op k ∈ toks0) [nd]

theorem make_stepG (fuel : Nat) (hL : LoopG I t W toks0 fuel) : MakeG I t W toks0 (fuel + 1) := by
  intro toks un d n htoks hun h
  rw [deepMake] at h
  cases hl : deepLoop I t W fuel toks 0 [] [] with
  | error e => rw [hl] at h; cases h
  | ok r =>
    obtain ⟨nodes, ops, idx⟩ := r
    rw [hl] at h
    dsimp only at h
    obtain ⟨h1, h2⟩ := hL toks 0 [] [] nodes ops idx htoks (nodesGood_nil _)
      (fun o ho => (by cases ho)) hl
    cases hn : DeepEx.new I nodes ops un with
    | error e => rw [hn] at h; cases h
    | ok d' =>
      rw [hn] at h
      cases h
      exact new_good I _ nodes ops un _ h1 h2 hun hn

theorem un_stepG (fuel : Nat) (hM : MakeG I t W toks0 fuel) : UnG I t W toks0 (fuel + 1) := by
  intro toks idx o nd n htoks ho h
  rw [processUnary] at h
  have huops : ∀ u ∈ o :: subsequentUnaries t (toks.drop (idx + 1)), Tok.op u ∈ toks0 := by
    intro u hu
    rcases List.mem_cons.1 hu with h1 | h1
    · subst h1; exact ho
    · exact htoks _ (List.mem_of_mem_drop (subsequentUnaries_tok t _ u h1))
  split at h
  · cases h
  · split at h
    · cases h
    · rename_i e fwd hm
      cases h
      rw [nodesGood_expr]
      exact hM _ _ e fwd (fun tk htk => htoks tk (List.mem_of_mem_drop htk)) huops hm
  · split at h
    · cases h
    · rename_i e fwd hm
      cases h
      rw [nodesGood_expr]
      exact hM _ _ e fwd (fun tk htk => htoks tk (List.mem_of_mem_drop htk)) huops hm
  · split at h
    · cases h
    · split at h
      · cases h
      · rename_i e hn
        cases h
        rw [nodesGood_expr]
        exact new_good I _ _ _ _ e (nodesGood_var _ _ _) (fun o ho => (by cases ho)) huops hn
  · cases h
    exact nodesGood_num _ _
  · cases h

theorem loop_stepG (fuel : Nat) (hM : MakeG I t W toks0 fuel) (hL : LoopG I t W toks0 fuel)
    (hU : UnG I t W toks0 fuel) : LoopG I t W toks0 (fuel + 1) := by
  intro toks idx nodes ops nodes' ops' n htoks hn ho h
  rw [deepLoop] at h
  cases htk : toks[idx]? with
  | none =>
    rw [htk] at h
    cases h
    exact ⟨hn, ho⟩
  | some tk =>
    rw [htk] at h
    have hmem : tk ∈ toks0 := htoks tk (List.mem_of_getElem? htk)
    cases tk with
    | op o =>
      dsimp only at h
      split at h
      · cases h
      · split at h
        · cases h
        · rename_i b hb
          refine hL toks (idx + 1) nodes (ops ++ [b]) nodes' ops' n htoks hn ?_ h
          intro x hx
          rcases List.mem_append.1 hx with h1 | h1
          · exact ho x h1
          · rw [List.mem_singleton] at h1
            subst h1
            rw [tblBin_idx t o x hb]
            exact hmem
      · split at h
        · cases h
        · split at h
          · cases h
          · rename_i node fwd hp
            refine hL toks (idx + fwd) (nodes ++ [node]) ops nodes' ops' n htoks ?_ ho h
            rw [nodesGood_append]
            exact ⟨hn, hU toks idx o node fwd htoks hmem hp⟩
    | num a =>
      dsimp only at h
      refine hL toks (idx + 1) (nodes ++ [.num a]) ops nodes' ops' n htoks ?_ ho h
      rw [nodesGood_append]
      exact ⟨hn, nodesGood_num _ a⟩
    | var name =>
      dsimp only at h
      split at h
      · cases h
      · rename_i vi _
        refine hL toks (idx + 1) (nodes ++ [.var vi name]) ops nodes' ops' n htoks ?_ ho h
        rw [nodesGood_append]
        exact ⟨hn, nodesGood_var _ vi name⟩
    | popen =>
      dsimp only at h
      split at h
      · cases h
      · rename_i e fwd hm
        refine hL toks (idx + 1 + fwd) (nodes ++ [.expr e]) ops nodes' ops' n htoks ?_ ho h
        rw [nodesGood_append, nodesGood_expr]
        exact ⟨hn, hM _ _ e fwd (fun tk htk => htoks tk (List.mem_of_mem_drop htk))
          (fun u hu => (by cases hu)) hm⟩
    | pclose =>
      dsimp only at h
      cases h
      exact ⟨hn, ho⟩

theorem walk_good : ∀ fuel, MakeG I t W toks0 fuel ∧ LoopG I t W toks0 fuel ∧ UnG I t W toks0 fuel := by
  intro fuel
  induction fuel with
  | zero =>
    refine ⟨?_, ?_, ?_⟩
    · intro toks un d n _ _ h
      rw [deepMake] at h; cases h
    · intro toks idx nodes ops nodes' ops' n _ _ _ h
      rw [deepLoop] at h; cases h
    · intro toks idx o nd n _ _ h
      rw [processUnary] at h; cases h
  | succ fuel ih =>
    obtain ⟨h1, h2, h3⟩ := ih
    exact ⟨make_stepG I t W toks0 fuel h2, loop_stepG I t W toks0 fuel h1 h2 h3,
      un_stepG I t W toks0 fuel h1⟩

end

theorem deepParse_good (I : Interp α) (t : Table) (lm : Str → Option Nat) (text : Str)
    (toks : List (Tok α)) (htok : tokenize I t lm text = .ok toks) (d : DeepEx α)
    (h : Deep.parse I t lm text = .ok d) : ExGood (fun k => Tok.op k ∈ toks) d := by
  unfold Deep.parse at h
  rw [htok] at h
  dsimp only at h
  split at h
  · cases h
  · split at h
    · cases h
    · rename_i d' n hm
      cases h
      exact (walk_good I t _ toks _).1 toks [] _ n (fun _ h => h) (fun u hu => (by cases hu)) hm

end Exmex.Listing
