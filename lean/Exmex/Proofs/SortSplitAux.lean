/-
  Auxiliary lemmas for L3 (SortSplit): facts about the stable insertion sort, `argminR`,
  independence of the two sides of an operator in `reduceLoop`, and the generalized
  "sorted order = split tree" statement.
-/
import Exmex.Model.Flat
import Exmex.Spec.Order
import Exmex.Spec.Split
import Exmex.Proofs.EvalOrderAux
namespace Exmex
namespace SortSplitAux

/-! ### insertion sort -/

theorem insertBy_perm {α} (le : α → α → Bool) (x : α) (l : List α) :
    (insertBy le x l).Perm (x :: l) := by
  induction l with
  | nil => exact List.Perm.refl _
  | cons y ys ih =>
    simp only [insertBy]
    split
    · exact List.Perm.refl _
    · exact (List.Perm.cons y ih).trans (List.Perm.swap x y ys)

theorem sortBy_cons {α} (le : α → α → Bool) (x : α) (l : List α) :
    sortBy le (x :: l) = insertBy le x (sortBy le l) := rfl

theorem sortBy_perm {α} (le : α → α → Bool) (l : List α) : (sortBy le l).Perm l := by
  induction l with
  | nil => exact List.Perm.refl _
  | cons x l ih =>
    rw [sortBy_cons]
    exact (insertBy_perm le x _).trans (List.Perm.cons x ih)

/-- the order produced by `orderByKey`: descending key, ties in ascending index order -/
def R (key : Nat → Int) (a b : Nat) : Prop := key b ≤ key a ∧ (key a = key b → a < b)

theorem insertBy_sorted (key : Nat → Int) (a : Nat) (s : List Nat)
    (hs : s.Pairwise (R key)) (ha : ∀ y ∈ s, a < y) :
    (insertBy (fun i j => decide (key j ≤ key i)) a s).Pairwise (R key) := by
  induction s with
  | nil => simp [insertBy]
  | cons y ys ih =>
    have hs' := List.pairwise_cons.1 hs
    simp only [insertBy]
    split
    · rename_i h
      have h' : key y ≤ key a := by simpa using h
      refine List.pairwise_cons.2 ⟨?_, hs⟩
      intro z hz
      rcases List.mem_cons.1 hz with rfl | hz'
      · exact ⟨h', fun _ => ha _ List.mem_cons_self⟩
      · have := hs'.1 z hz'
        exact ⟨by have := this.1; omega, fun _ => ha _ hz⟩
    · rename_i h
      have h' : ¬ key y ≤ key a := by simpa using h
      refine List.pairwise_cons.2 ⟨?_, ih hs'.2 (fun z hz => ha z (List.mem_cons_of_mem _ hz))⟩
      intro w hw
      rcases List.mem_cons.1 ((insertBy_perm _ a ys).mem_iff.1 hw) with rfl | hw'
      · exact ⟨by omega, fun e => by omega⟩
      · exact hs'.1 w hw'

theorem sortBy_sorted (key : Nat → Int) (l : List Nat) (hl : l.Pairwise (· < ·)) :
    (sortBy (fun i j => decide (key j ≤ key i)) l).Pairwise (R key) := by
  induction l with
  | nil => simp [sortBy]
  | cons a l ih =>
    have hl' := List.pairwise_cons.1 hl
    rw [sortBy_cons]
    refine insertBy_sorted key a _ (ih hl'.2) ?_
    intro y hy
    exact hl'.1 y ((sortBy_perm _ l).mem_iff.1 hy)

theorem orderByKey_perm (key : Nat → Int) (n : Nat) : (orderByKey key n).Perm (List.range n) :=
  sortBy_perm _ _

theorem orderByKey_sorted (key : Nat → Int) (n : Nat) : (orderByKey key n).Pairwise (R key) :=
  sortBy_sorted key _ List.pairwise_lt_range

/-! ### `argminR` -/

theorem argminR_lt (l : List Int) (h : l ≠ []) : argminR l < l.length := by
  induction l with
  | nil => exact absurd rfl h
  | cons k t ih =>
    cases t with
    | nil => simp [argminR]
    | cons k' ks =>
      have := ih (by simp)
      simp only [argminR]
      split <;> simp at this ⊢ <;> omega

theorem argminR_mid (A : List Int) (x : Int) (B : List Int) (hA : ∀ a ∈ A, x ≤ a)
    (hB : ∀ b ∈ B, x < b) : argminR (A ++ x :: B) = A.length := by
  induction A with
  | nil =>
    cases B with
    | nil => rfl
    | cons b B' =>
      have hj := argminR_lt (b :: B') (by simp)
      simp only [List.nil_append, argminR, List.length_nil]
      rw [if_neg]
      intro hle
      have hmem : (b :: B').getD (argminR (b :: B')) 0 ∈ b :: B' := by
        have e : (b :: B').getD (argminR (b :: B')) 0 = (b :: B')[argminR (b :: B')] := by
          simp [List.getD_eq_getElem?_getD, List.getElem?_eq_getElem hj]
        rw [e]; exact List.getElem_mem _
      have := hB _ hmem
      omega
  | cons a A' ih =>
    have ih' := ih (fun z hz => hA z (List.mem_cons_of_mem _ hz))
    obtain ⟨k', ks, e⟩ : ∃ k' ks, A' ++ x :: B = k' :: ks := by
      cases A' with
      | nil => exact ⟨_, _, rfl⟩
      | cons c cs => exact ⟨_, _, rfl⟩
    rw [List.cons_append, e]
    simp only [argminR]
    rw [← e, ih']
    have : (A' ++ x :: B).getD A'.length 0 = x := by simp
    rw [this, if_pos (hA a List.mem_cons_self)]
    simp

/-! ### `reduceLoop` -/

theorem reduceLoop_append {α} (apply : Nat → α → α → α) (π₁ π₂ : List Nat) (st : OrderSt α) :
    reduceLoop apply (π₁ ++ π₂) st = (reduceLoop apply π₁ st).bind (reduceLoop apply π₂) := by
  induction π₁ generalizing st with
  | nil => simp [reduceLoop]
  | cons k ks ih =>
    simp only [List.cons_append, reduceLoop]
    cases reduceStep apply st k with
    | none => simp
    | some st' => simpa using ih st'

theorem idxOf?_split {l : List Nat} {k p : Nat} (h : l.idxOf? k = some p) :
    ∃ pre post, l = pre ++ k :: post ∧ pre.length = p ∧ k ∉ pre := by
  induction l generalizing p with
  | nil => simp at h
  | cons x l ih =>
    rw [List.idxOf?_cons] at h
    split at h
    · rename_i hx
      have hx' : x = k := by simpa using hx
      have hp : p = 0 := by simpa using h.symm
      subst hx'; subst hp
      exact ⟨[], l, rfl, rfl, by simp⟩
    · rename_i hx
      have hx' : x ≠ k := by simpa using hx
      simp only [Option.map_eq_some_iff] at h
      obtain ⟨q, hq, rfl⟩ := h
      obtain ⟨pre, post, rfl, rfl, hn⟩ := ih hq
      refine ⟨x :: pre, post, rfl, rfl, ?_⟩
      simp only [List.mem_cons, not_or]
      exact ⟨fun e => hx' e.symm, hn⟩

theorem reduceStep_inv {α} (apply : Nat → α → α → α) {V : List α} {A : List Nat} {j : Nat}
    {V1 : List α} {A1 : List Nat} (h : reduceStep apply (V, A) j = some (V1, A1)) :
    ∃ pre post X a b Y, A = pre ++ j :: post ∧ j ∉ pre ∧ V = X ++ a :: b :: Y ∧
      X.length = pre.length ∧ V1 = X ++ apply j a b :: Y ∧ A1 = pre ++ post := by
  have h0 := h
  unfold reduceStep at h
  simp only at h
  split at h
  · simp at h
  · rename_i p hp
    split at h
    · rename_i a b ha hb
      obtain ⟨pre, post, rfl, rfl, hn⟩ := idxOf?_split hp
      obtain ⟨X, Y', rfl, hX⟩ := EvalOrderAux.split_at _ _ _ ha
      rw [List.getElem?_append_right (by omega)] at hb
      have hb' : Y'[0]? = some b := by
        have : pre.length + 1 - X.length = 0 + 1 := by omega
        rw [this] at hb; simpa using hb
      obtain ⟨Y, rfl⟩ : ∃ Y, Y' = b :: Y := by
        cases Y' with
        | nil => simp at hb'
        | cons c Y => simp at hb'; subst hb'; exact ⟨Y, rfl⟩
      rw [EvalOrderAux.reduceStep_split apply X Y a b pre post j hn hX.symm] at h0
      simp only [Option.some.injEq, Prod.mk.injEq] at h0
      exact ⟨pre, post, X, a, b, Y, rfl, hn, rfl, hX, h0.1.symm, h0.2.symm⟩
    · simp at h

/-- operators left of `k` and operators right of `k` do not interact as long as `k` itself is
    not applied: an interleaved order can be split into its two sides -/
theorem reduceLoop_indep {α} (apply : Nat → α → α → α) (k : Nat) (π : List Nat) :
    ∀ (V W : List α) (A B : List Nat) (V' : List α) (A' : List Nat) (W' : List α) (B' : List Nat),
      (∀ x ∈ π, x ≠ k) → (∀ a ∈ A, a < k) → (∀ b ∈ B, k < b) → V.length = A.length + 1 →
      reduceLoop apply (π.filter (· < k)) (V, A) = some (V', A') →
      reduceLoop apply (π.filter (k < ·)) (W, B) = some (W', B') →
      reduceLoop apply π (V ++ W, A ++ k :: B) = some (V' ++ W', A' ++ k :: B') := by
  induction π with
  | nil =>
    intro V W A B V' A' W' B' _ _ _ _ h1 h2
    simp only [List.filter_nil, reduceLoop, Option.some.injEq, Prod.mk.injEq] at h1 h2
    obtain ⟨rfl, rfl⟩ := h1
    obtain ⟨rfl, rfl⟩ := h2
    rfl
  | cons j π ih =>
    intro V W A B V' A' W' B' hπ hA hB hlen h1 h2
    have hjk : j ≠ k := hπ j List.mem_cons_self
    have hπ' : ∀ x ∈ π, x ≠ k := fun x hx => hπ x (List.mem_cons_of_mem _ hx)
    rcases Nat.lt_or_gt_of_ne hjk with hlt | hgt
    · have hng : ¬ k < j := by omega
      rw [List.filter_cons_of_pos (by simpa using hlt)] at h1
      rw [List.filter_cons_of_neg (by simpa using hng)] at h2
      simp only [reduceLoop] at h1 ⊢
      cases hstep : reduceStep apply (V, A) j with
      | none => rw [hstep] at h1; simp at h1
      | some st1 =>
        obtain ⟨V1, A1⟩ := st1
        rw [hstep] at h1
        simp only at h1
        obtain ⟨pre, post, X, a, b, Y, rfl, hn, rfl, hX, rfl, rfl⟩ := reduceStep_inv apply hstep
        have e := EvalOrderAux.reduceStep_split apply X (Y ++ W) a b pre (post ++ k :: B) j hn
          hX.symm
        have e1 : (X ++ a :: b :: Y) ++ W = X ++ a :: b :: (Y ++ W) := by simp
        have e2 : (pre ++ j :: post) ++ k :: B = pre ++ j :: (post ++ k :: B) := by simp
        rw [e1, e2, e]
        simp only
        have e3 : X ++ apply j a b :: (Y ++ W) = (X ++ apply j a b :: Y) ++ W := by simp
        have e4 : pre ++ (post ++ k :: B) = (pre ++ post) ++ k :: B := by simp
        rw [e3, e4]
        refine ih _ _ _ _ _ _ _ _ hπ' ?_ hB ?_ h1 h2
        · intro z hz
          apply hA
          simp only [List.mem_append, List.mem_cons] at hz ⊢
          rcases hz with hz | hz
          · exact Or.inl hz
          · exact Or.inr (Or.inr hz)
        · simp at hlen ⊢; omega
    · have hng : ¬ j < k := by omega
      rw [List.filter_cons_of_neg (by simpa using hng)] at h1
      rw [List.filter_cons_of_pos (by simpa using hgt)] at h2
      simp only [reduceLoop] at h2 ⊢
      cases hstep : reduceStep apply (W, B) j with
      | none => rw [hstep] at h2; simp at h2
      | some st1 =>
        obtain ⟨W1, B1⟩ := st1
        rw [hstep] at h2
        simp only at h2
        obtain ⟨pre, post, X, a, b, Y, rfl, hn, rfl, hX, rfl, rfl⟩ := reduceStep_inv apply hstep
        have hn' : j ∉ A ++ k :: pre := by
          simp only [List.mem_append, List.mem_cons, not_or]
          exact ⟨fun hj => by have := hA j hj; omega, hjk, hn⟩
        have e := EvalOrderAux.reduceStep_split apply (V ++ X) Y a b (A ++ k :: pre) post j hn'
          (by simp; omega)
        have e1 : V ++ (X ++ a :: b :: Y) = (V ++ X) ++ a :: b :: Y := by simp
        have e2 : A ++ k :: (pre ++ j :: post) = (A ++ k :: pre) ++ j :: post := by simp
        rw [e1, e2, e]
        simp only
        have e3 : (V ++ X) ++ apply j a b :: Y = V ++ (X ++ apply j a b :: Y) := by simp
        have e4 : (A ++ k :: pre) ++ post = A ++ k :: (pre ++ post) := by simp
        rw [e3, e4]
        refine ih _ _ _ _ _ _ _ _ hπ' hA ?_ hlen h1 h2
        intro z hz
        apply hB
        simp only [List.mem_append, List.mem_cons] at hz ⊢
        rcases hz with hz | hz
        · exact Or.inl hz
        · exact Or.inr (Or.inr hz)

theorem eq_nil_or_snoc {β} (l : List β) : l = [] ∨ ∃ l' b, l = l' ++ [b] := by
  rcases List.eq_nil_or_concat l with h | ⟨l', b, h⟩
  · exact Or.inl h
  · exact Or.inr ⟨l', b, by simpa using h⟩

/-- generalized L3: any duplicate-free order `π` of the remaining operators `os` (ascending
    original indices) that is sorted by descending key with ties in ascending index order
    reduces the chain to the value of the split tree -/
theorem reduce_split {α} (apply : Nat → α → α → α) (key : Nat → Int) :
    ∀ (n fuel : Nat) (vs : List α) (os π : List Nat),
      os.length = n → n ≤ fuel → vs.length = n + 1 → os.Pairwise (· < ·) → π.Nodup →
      (∀ x, x ∈ π ↔ x ∈ os) → π.Pairwise (R key) →
      ∃ v, reduceLoop apply π (vs, os) = some ([v], []) ∧
        splitEval apply key fuel vs os = some v := by
  intro n
  induction n using Nat.strongRecOn with
  | _ n ih =>
    intro fuel vs os π hn hfuel hvs hos hnd hmem hsorted
    rcases eq_nil_or_snoc π with rfl | ⟨π', k, rfl⟩
    · -- no operators left
      have hos0 : os = [] := by
        apply List.eq_nil_iff_forall_not_mem.2
        intro x hx; exact absurd ((hmem x).2 hx) (by simp)
      subst hos0
      simp only [List.length_nil] at hn
      subst hn
      obtain ⟨v, rfl⟩ : ∃ v, vs = [v] := by
        match vs, hvs with
        | [v], _ => exact ⟨v, rfl⟩
      exact ⟨v, rfl, splitEval.eq_1 apply key fuel v⟩
    · -- `k` is applied last
      have hk : k ∈ os := (hmem k).1 (by simp)
      obtain ⟨A, B, rfl⟩ := List.append_of_mem hk
      have hos' := List.pairwise_append.1 hos
      have hAk : ∀ a ∈ A, a < k := fun a ha => hos'.2.2 a ha k List.mem_cons_self
      have hBk : ∀ b ∈ B, k < b := fun b hb => (List.pairwise_cons.1 hos'.2.1).1 b hb
      have hnd' := List.nodup_append.1 hnd
      have hπk : ∀ x ∈ π', x ≠ k := fun x hx => hnd'.2.2 x hx k (by simp)
      have hs' := List.pairwise_append.1 hsorted
      have hRk : ∀ x ∈ π', R key x k := fun x hx => hs'.2.2 x hx k (by simp)
      have hmem' : ∀ x, x ∈ π' ↔ (x ∈ A ∨ x ∈ B) := by
        intro x
        have := hmem x
        simp only [List.mem_append, List.mem_cons, List.not_mem_nil, or_false] at this
        constructor
        · intro hx
          rcases this.1 (Or.inl hx) with h | h | h
          · exact Or.inl h
          · exact absurd h (hπk x hx)
          · exact Or.inr h
        · intro hx
          have hxk : x ≠ k := by
            rcases hx with h | h
            · have := hAk x h; omega
            · have := hBk x h; omega
          rcases hx with h | h
          · rcases this.2 (Or.inl h) with h' | h'
            · exact h'
            · exact absurd h' hxk
          · rcases this.2 (Or.inr (Or.inr h)) with h' | h'
            · exact h'
            · exact absurd h' hxk
      simp only [List.length_append, List.length_cons] at hn
      obtain ⟨fuel', rfl⟩ : ∃ f, fuel = f + 1 := ⟨fuel - 1, by omega⟩
      -- the two sides
      have hVW : vs = vs.take (A.length + 1) ++ vs.drop (A.length + 1) :=
        (List.take_append_drop _ _).symm
      have hVlen : (vs.take (A.length + 1)).length = A.length + 1 := by
        rw [List.length_take]; omega
      have hWlen : (vs.drop (A.length + 1)).length = B.length + 1 := by
        rw [List.length_drop]; omega
      obtain ⟨l, hl1, hl2⟩ := ih A.length (by omega) fuel' (vs.take (A.length + 1)) A
        (π'.filter (· < k)) rfl (by omega) hVlen hos'.1 (hnd'.1.filter _)
        (by
          intro x
          simp only [List.mem_filter, decide_eq_true_eq, hmem']
          constructor
          · rintro ⟨h | h, hlt⟩
            · exact h
            · have := hBk x h; omega
          · intro h; exact ⟨Or.inl h, hAk x h⟩)
        (hs'.1.sublist List.filter_sublist)
      obtain ⟨r, hr1, hr2⟩ := ih B.length (by omega) fuel' (vs.drop (A.length + 1)) B
        (π'.filter (k < ·)) rfl (by omega) hWlen (List.pairwise_cons.1 hos'.2.1).2
        (hnd'.1.filter _)
        (by
          intro x
          simp only [List.mem_filter, decide_eq_true_eq, hmem']
          constructor
          · rintro ⟨h | h, hlt⟩
            · have := hAk x h; omega
            · exact h
          · intro h; exact ⟨Or.inr h, hBk x h⟩)
        (hs'.1.sublist List.filter_sublist)
      have hloop := reduceLoop_indep apply k π' _ _ A B _ _ _ _ hπk hAk hBk hVlen hl1 hr1
      rw [← hVW] at hloop
      refine ⟨apply k l r, ?_, ?_⟩
      · rw [reduceLoop_append, hloop]
        have := EvalOrderAux.reduceStep_split apply [] [] l r [] [] k (by simp) rfl
        simp only [List.nil_append] at this
        simp [reduceLoop, this]
      · have hp : argminR (List.map key (A ++ k :: B)) = A.length := by
          rw [List.map_append, List.map_cons]
          have := argminR_mid (A.map key) (key k) (B.map key) (by
            intro a ha
            obtain ⟨a', ha', rfl⟩ := List.mem_map.1 ha
            exact (hRk a' ((hmem' a').2 (Or.inl ha'))).1) (by
            intro b hb
            obtain ⟨b', hb', rfl⟩ := List.mem_map.1 hb
            have h1 := hRk b' ((hmem' b').2 (Or.inr hb'))
            have h2 := hBk b' hb'
            rcases Int.lt_or_eq_of_le h1.1 with h | h
            · exact h
            · have := h1.2 h.symm; omega)
          simpa using this
        rw [splitEval.eq_3 _ _ _ _ _ (by intro v _ h; simp at h), hp]
        have e1 : (A ++ k :: B)[A.length]? = some k := by simp
        have e2 : (A ++ k :: B).take A.length = A := by simp
        have e3 : (A ++ k :: B).drop (A.length + 1) = B := by
          have : A ++ k :: B = (A ++ [k]) ++ B := by simp
          rw [this, List.drop_left' (by simp)]
        rw [e1, e2, e3, hl2, hr2]

end SortSplitAux
end Exmex
