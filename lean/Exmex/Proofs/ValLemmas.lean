/-
  Helper lemmas for the value model (C16, C17): dispatch of `valBin`/`valUn` on literal names,
  32-bit range lemmas for the integer primitives, totality of every operator function.
-/
import Exmex.Model.ValModel
namespace Exmex.ValLemmas
open Exmex

section dispatch
variable {F : Type} (O : FloatOps F)

/-! ### dispatch on literal operator names -/

theorem valBin_pow (a b : Val F) : valBin O "^" a b = vPow O a b := rfl
theorem valBin_add (a b : Val F) : valBin O "+" a b = vAdd O a b := rfl
theorem valBin_sub (a b : Val F) : valBin O "-" a b = vSub O a b := rfl
theorem valBin_cross (a b : Val F) : valBin O "cross" a b = vCross O a b := rfl
theorem valBin_dot (a b : Val F) : valBin O "dot" a b = vDot O a b := rfl
theorem valBin_mul (a b : Val F) : valBin O "*" a b = vMul O a b := rfl
theorem valBin_div (a b : Val F) : valBin O "/" a b = vDiv O a b := rfl
theorem valBin_atan2 (a b : Val F) : valBin O "atan2" a b = vAtan2 O a b := rfl
theorem valBin_rem (a b : Val F) : valBin O "%" a b = vRem a b := rfl
theorem valBin_bitor (a b : Val F) : valBin O "|" a b = vBitOr a b := rfl
theorem valBin_bitand (a b : Val F) : valBin O "&" a b = vBitAnd a b := rfl
theorem valBin_xor (a b : Val F) : valBin O "XOR" a b = vBitXor a b := rfl
theorem valBin_shr (a b : Val F) : valBin O ">>" a b = vShr a b := rfl
theorem valBin_shl (a b : Val F) : valBin O "<<" a b = vShl a b := rfl
theorem valBin_and (a b : Val F) : valBin O "&&" a b = vAnd O a b := rfl
theorem valBin_or (a b : Val F) : valBin O "||" a b = vOr O a b := rfl
theorem valBin_eq (a b : Val F) : valBin O "==" a b = .ok (.bool (valEq O a b)) := rfl
theorem valBin_ge (a b : Val F) : valBin O ">=" a b = .ok (.bool (valGe O a b)) := rfl
theorem valBin_gt (a b : Val F) : valBin O ">" a b = .ok (.bool (valGt O a b)) := rfl
theorem valBin_le (a b : Val F) : valBin O "<=" a b = .ok (.bool (valLe O a b)) := rfl
theorem valBin_lt (a b : Val F) : valBin O "<" a b = .ok (.bool (valLt O a b)) := rfl
theorem valBin_ne (a b : Val F) : valBin O "!=" a b = .ok (.bool (!valEq O a b)) := rfl
theorem valBin_if (a b : Val F) : valBin O "if" a b = vIf O a b := rfl
theorem valBin_else (a b : Val F) : valBin O "else" a b = vElse a b := rfl
theorem valBin_min (a b : Val F) : valBin O "min" a b = vMin O a b := rfl
theorem valBin_max (a b : Val F) : valBin O "max" a b = vMax O a b := rfl
theorem valBin_comp (a b : Val F) : valBin O "." a b = vComponent a b := rfl

theorem valUn_plus (a : Val F) : valUn O "+" a = .ok a := rfl
theorem valUn_minus (a : Val F) : valUn O "-" a = vMinus O a := rfl
theorem valUn_signum (a : Val F) : valUn O "signum" a = vSignum O a := rfl
theorem valUn_abs (a : Val F) : valUn O "abs" a = vAbs O a := rfl
theorem valUn_log (a : Val F) : valUn O "log" a = vFloatFn O "ln" a := rfl
theorem valUn_swap_bytes (a : Val F) : valUn O "swap_bytes" a = vIntFn swapBytes a := rfl
theorem valUn_to_le (a : Val F) : valUn O "to_le" a = vIntFn id a := rfl
theorem valUn_to_be (a : Val F) : valUn O "to_be" a = vIntFn swapBytes a := rfl
theorem valUn_fact (a : Val F) : valUn O "fact" a = vFact a := rfl
theorem valUn_to_int (a : Val F) : valUn O "to_int" a = vToInt O a := rfl
theorem valUn_to_float (a : Val F) : valUn O "to_float" a = vToFloat O a := rfl
theorem valUn_length (a : Val F) : valUn O "length" a = vLength O a := rfl
theorem valUn_sin (a : Val F) : valUn O "sin" a = vFloatFn O "sin" a := rfl
theorem valUn_cos (a : Val F) : valUn O "cos" a = vFloatFn O "cos" a := rfl
theorem valUn_tan (a : Val F) : valUn O "tan" a = vFloatFn O "tan" a := rfl
theorem valUn_asin (a : Val F) : valUn O "asin" a = vFloatFn O "asin" a := rfl
theorem valUn_acos (a : Val F) : valUn O "acos" a = vFloatFn O "acos" a := rfl
theorem valUn_atan (a : Val F) : valUn O "atan" a = vFloatFn O "atan" a := rfl
theorem valUn_sinh (a : Val F) : valUn O "sinh" a = vFloatFn O "sinh" a := rfl
theorem valUn_cosh (a : Val F) : valUn O "cosh" a = vFloatFn O "cosh" a := rfl
theorem valUn_tanh (a : Val F) : valUn O "tanh" a = vFloatFn O "tanh" a := rfl
theorem valUn_asinh (a : Val F) : valUn O "asinh" a = vFloatFn O "asinh" a := rfl
theorem valUn_acosh (a : Val F) : valUn O "acosh" a = vFloatFn O "acosh" a := rfl
theorem valUn_atanh (a : Val F) : valUn O "atanh" a = vFloatFn O "atanh" a := rfl
theorem valUn_floor (a : Val F) : valUn O "floor" a = vFloatFn O "floor" a := rfl
theorem valUn_ceil (a : Val F) : valUn O "ceil" a = vFloatFn O "ceil" a := rfl
theorem valUn_trunc (a : Val F) : valUn O "trunc" a = vFloatFn O "trunc" a := rfl
theorem valUn_fract (a : Val F) : valUn O "fract" a = vFloatFn O "fract" a := rfl
theorem valUn_exp (a : Val F) : valUn O "exp" a = vFloatFn O "exp" a := rfl
theorem valUn_sqrt (a : Val F) : valUn O "sqrt" a = vFloatFn O "sqrt" a := rfl
theorem valUn_cbrt (a : Val F) : valUn O "cbrt" a = vFloatFn O "cbrt" a := rfl
theorem valUn_round (a : Val F) : valUn O "round" a = vFloatFn O "round" a := rfl
theorem valUn_ln (a : Val F) : valUn O "ln" a = vFloatFn O "ln" a := rfl
theorem valUn_log10 (a : Val F) : valUn O "log10" a = vFloatFn O "log10" a := rfl
theorem valUn_log2 (a : Val F) : valUn O "log2" a = vFloatFn O "log2" a := rfl

theorem valUn_float (n : String) (hn : n ∈ floatUnaryNames) (a : Val F) :
    valUn O n a = vFloatFn O n a := by
  simp only [floatUnaryNames, List.mem_cons, List.not_mem_nil, or_false] at hn
  rcases hn with rfl | rfl | rfl | rfl | rfl | rfl | rfl | rfl | rfl | rfl | rfl | rfl | rfl | rfl | rfl | rfl | rfl | rfl | rfl | rfl | rfl | rfl | rfl <;> rfl

end dispatch

/-! ### 32-bit range lemmas -/

theorem inI32_iff (i : Int) : inI32 i = true ↔ (-2147483648 ≤ i ∧ i ≤ 2147483647) := by
  rw [inI32, Bool.and_eq_true, decide_eq_true_iff, decide_eq_true_iff]
  exact Iff.rfl

theorem chk_some {i r : Int} (h : chk i = some r) : inI32 r = true := by
  unfold chk at h
  split at h
  · cases h; assumption
  · cases h

theorem chk_eq (i : Int) : chk i = if inI32 i then some i else Option.none := rfl

theorem inI32_min {a b : Int} (ha : inI32 a = true) (hb : inI32 b = true) : inI32 (min a b) = true := by
  rw [inI32_iff] at *; omega

theorem inI32_max {a b : Int} (ha : inI32 a = true) (hb : inI32 b = true) : inI32 (max a b) = true := by
  rw [inI32_iff] at *; omega

theorem inI32_tmod {a : Int} (b : Int) (ha : inI32 a = true) : inI32 (tmod a b) = true := by
  have h1 : (tmod a b).natAbs ≤ a.natAbs := by
    unfold tmod; rw [Int.natAbs_tmod]; exact Nat.mod_le _ _
  have h2 : 0 ≤ a → 0 ≤ tmod a b := fun h => Int.tmod_nonneg b h
  have h3 : a ≤ 0 → tmod a b ≤ 0 := fun h => by
    have h4 : 0 ≤ Int.tmod (-a) b := Int.tmod_nonneg b (by omega)
    rw [Int.neg_tmod] at h4
    unfold tmod; omega
  rw [inI32_iff] at *; omega

theorem toU32_lt (i : Int) : toU32 i < 2 ^ 32 := by
  unfold toU32; omega

theorem inI32_ofU32 {n : Nat} (h : n < 2 ^ 32) : inI32 (ofU32 n) = true := by
  rw [inI32_iff]; unfold ofU32; split <;> omega

theorem inI32_bitOr (a b : Int) : inI32 (bitOr a b) = true :=
  inI32_ofU32 (Nat.or_lt_two_pow (toU32_lt a) (toU32_lt b))

theorem inI32_bitAnd (a b : Int) : inI32 (bitAnd a b) = true :=
  inI32_ofU32 (Nat.and_lt_two_pow _ (toU32_lt b))

theorem inI32_bitXor (a b : Int) : inI32 (bitXor a b) = true :=
  inI32_ofU32 (Nat.xor_lt_two_pow (toU32_lt a) (toU32_lt b))

theorem inI32_shl32 (a : Int) (n : Nat) : inI32 (shl32 a n) = true := by
  apply inI32_ofU32
  have : (2:Nat) ^ 32 = 4294967296 := by decide
  omega

theorem inI32_shr32 {a : Int} (n : Nat) (ha : inI32 a = true) : inI32 (shr32 a n) = true := by
  have hp : (0 : Int) < 2 ^ n := Int.pow_pos (by decide)
  have hp1 : (1 : Int) ≤ 2 ^ n := hp
  rw [inI32_iff] at *
  unfold shr32
  constructor
  · rw [Int.le_ediv_iff_mul_le hp]
    have : (-2147483648 : Int) * 2 ^ n ≤ -2147483648 * 1 :=
      Int.mul_le_mul_of_nonpos_left (by decide) hp1
    omega
  · have : a / 2 ^ n < 2147483648 := by
      rw [Int.ediv_lt_iff_lt_mul hp]
      have : (2147483648 : Int) * 1 ≤ 2147483648 * 2 ^ n :=
        Int.mul_le_mul_of_nonneg_left hp1 (by decide)
      omega
    omega

theorem inI32_swapBytes (a : Int) : inI32 (swapBytes a) = true := by
  unfold swapBytes
  apply inI32_ofU32
  have h1 : (toU32 a &&& 0xFF) <<< 24 < 2 ^ 32 := by
    have := @Nat.and_le_right (toU32 a) 0xFF
    rw [Nat.shiftLeft_eq]; omega
  have h2 : (toU32 a &&& 0xFF00) <<< 8 < 2 ^ 32 := by
    have := @Nat.and_le_right (toU32 a) 0xFF00
    rw [Nat.shiftLeft_eq]; omega
  have h3 : (toU32 a >>> 8) &&& 0xFF00 < 2 ^ 32 := by
    have := @Nat.and_le_right (toU32 a >>> 8) 0xFF00
    omega
  have h4 : (toU32 a >>> 24) &&& 0xFF < 2 ^ 32 := by
    have := @Nat.and_le_right (toU32 a >>> 24) 0xFF
    omega
  exact Nat.or_lt_two_pow (Nat.or_lt_two_pow (Nat.or_lt_two_pow h1 h2) h3) h4

theorem inI32_neg {a : Int} (ha : inI32 a = true) (hm : a ≠ I32_MIN) : inI32 (-a) = true := by
  rw [inI32_iff] at *; unfold I32_MIN at hm; omega

theorem inI32_abs {a : Int} (ha : inI32 a = true) (hm : a ≠ I32_MIN) :
    inI32 (if a < 0 then -a else a) = true := by
  rw [inI32_iff] at *; unfold I32_MIN at hm; split <;> omega

theorem checkedPow_some {x : Int} {n : Nat} {r : Int} (h : checkedPow x n = some r) :
    inI32 r = true := by
  unfold checkedPow at h
  split at h
  · split at h <;> cases h <;> decide
  · split at h
    · cases h; decide
    · split at h
      · cases h; split <;> decide
      · split at h
        · cases h
        · exact chk_some h

theorem factChecked_some {n : Nat} {r : Int} (h : factChecked n = some r) : inI32 r = true := by
  unfold factChecked at h
  split at h
  · cases h
  · exact chk_some h

theorem checkedDiv_some {a b r : Int} (h : checkedDiv a b = some r) : inI32 r = true := by
  unfold checkedDiv at h
  split at h
  · cases h
  · exact chk_some h

/-! ### totality of the operator functions -/

/-- integers of a value are 32-bit integers (same as `C17.Val.WF`) -/
def VWF {F} : Val F → Prop
  | .int i => inI32 i = true
  | _ => True

/-- the operator result is a value (no panic) and well-formed -/
def Tot {F} (r : VR F) : Prop := ∃ v, r = .ok v ∧ VWF v

theorem tot_ok {F} {v : Val F} (h : VWF v) : Tot (.ok v : VR F) := ⟨v, rfl, h⟩
theorem tot_int {F} {i : Int} (h : inI32 i = true) : Tot (.ok (.int i) : VR F) := ⟨_, rfl, h⟩
theorem tot_err {F} : Tot (.ok .err : VR F) := ⟨_, rfl, trivial⟩

section total
variable {F : Type} (O : FloatOps F)

theorem baseArith_total (fop : F → F → F) (iop : Int → Int → Option Int)
    (hiop : ∀ x y r, inI32 x = true → inI32 y = true → iop x y = some r → inI32 r = true)
    (a b : Val F) (ha : VWF a) (hb : VWF b) : Tot (baseArith O fop iop a b) := by
  cases a <;> cases b <;> try exact tot_ok trivial
  rename_i x y
  show Tot (.ok (match iop x y with | some r => .int r | Option.none => .err))
  apply tot_ok
  split
  · next r h => exact hiop x y r ha hb h
  · trivial

theorem vAdd_total (a b : Val F) (ha : VWF a) (hb : VWF b) : Tot (vAdd O a b) :=
  baseArith_total O _ _ (fun _ _ _ _ _ h => chk_some h) a b ha hb
theorem vSub_total (a b : Val F) (ha : VWF a) (hb : VWF b) : Tot (vSub O a b) :=
  baseArith_total O _ _ (fun _ _ _ _ _ h => chk_some h) a b ha hb
theorem vMul_total (a b : Val F) (ha : VWF a) (hb : VWF b) : Tot (vMul O a b) :=
  baseArith_total O _ _ (fun _ _ _ _ _ h => chk_some h) a b ha hb
theorem vDivBase_total (a b : Val F) (ha : VWF a) (hb : VWF b) : Tot (vDivBase O a b) :=
  baseArith_total O _ _ (fun _ _ _ _ _ h => checkedDiv_some h) a b ha hb
theorem vMin_total (a b : Val F) (ha : VWF a) (hb : VWF b) : Tot (vMin O a b) :=
  baseArith_total O _ _ (fun _ _ _ hx hy h => by cases h; exact inI32_min hx hy) a b ha hb
theorem vMax_total (a b : Val F) (ha : VWF a) (hb : VWF b) : Tot (vMax O a b) :=
  baseArith_total O _ _ (fun _ _ _ hx hy h => by cases h; exact inI32_max hx hy) a b ha hb

theorem vDiv_total (a b : Val F) (ha : VWF a) (hb : VWF b) : Tot (vDiv O a b) := by
  unfold vDiv
  split
  · exact tot_err
  · exact vDivBase_total O a b ha hb

theorem vPow_total (a b : Val F) : Tot (vPow O a b) := by
  cases a <;> cases b <;> try exact tot_ok trivial
  rename_i x y
  show Tot (.ok (if y < 0 then .err else match checkedPow x y.toNat with | some r => .int r | Option.none => .err))
  apply tot_ok
  split
  · trivial
  · split
    · next r h => exact checkedPow_some h
    · trivial

theorem intOnly_total (f : Int → Int → VR F)
    (hf : ∀ x y, inI32 x = true → inI32 y = true → Tot (f x y))
    (a b : Val F) (ha : VWF a) (hb : VWF b) : Tot (intOnly f a b) := by
  cases a <;> cases b <;> try exact tot_err
  exact hf _ _ ha hb

theorem vRem_total (a b : Val F) (ha : VWF a) (hb : VWF b) : Tot (vRem a b) := by
  refine intOnly_total _ (fun x y hx _ => ?_) a b ha hb
  show Tot (if y == 0 then .ok .err else if x == I32_MIN && y == -1 then .ok .err
    else match remPrim x y with | some r => .ok (.int r) | Option.none => .error "value.rs:rem a % b")
  split
  · exact tot_err
  · next h1 =>
    split
    · exact tot_err
    · next h2 =>
      have : remPrim x y = some (tmod x y) := by
        unfold remPrim; rw [if_neg h1, if_neg h2]
      rw [this]
      exact tot_ok (inI32_tmod y hx)

theorem vBitOr_total (a b : Val F) (ha : VWF a) (hb : VWF b) : Tot (vBitOr a b) :=
  intOnly_total _ (fun x y _ _ => tot_int (inI32_bitOr x y)) a b ha hb
theorem vBitAnd_total (a b : Val F) (ha : VWF a) (hb : VWF b) : Tot (vBitAnd a b) :=
  intOnly_total _ (fun x y _ _ => tot_int (inI32_bitAnd x y)) a b ha hb
theorem vBitXor_total (a b : Val F) (ha : VWF a) (hb : VWF b) : Tot (vBitXor a b) :=
  intOnly_total _ (fun x y _ _ => tot_int (inI32_bitXor x y)) a b ha hb
theorem vShr_total (a b : Val F) (ha : VWF a) (hb : VWF b) : Tot (vShr a b) := by
  refine intOnly_total _ (fun x y hx _ => ?_) a b ha hb
  apply tot_ok
  split
  · exact inI32_shr32 _ hx
  · trivial
theorem vShl_total (a b : Val F) (ha : VWF a) (hb : VWF b) : Tot (vShl a b) := by
  refine intOnly_total _ (fun x y _ _ => ?_) a b ha hb
  apply tot_ok
  split
  · exact inI32_shl32 _ _
  · trivial

theorem vAnd_total (a b : Val F) (ha : VWF a) (hb : VWF b) : Tot (vAnd O a b) := by
  unfold vAnd
  split
  · exact tot_ok trivial
  · apply tot_ok; split <;> assumption

theorem vOr_total (a b : Val F) (ha : VWF a) (hb : VWF b) : Tot (vOr O a b) := by
  unfold vOr
  split
  · exact tot_ok trivial
  · apply tot_ok; split <;> assumption

theorem vAtan2_total (a b : Val F) : Tot (vAtan2 O a b) := by
  unfold vAtan2
  split <;> exact tot_ok trivial

theorem vDot_total (a b : Val F) : Tot (vDot O a b) := by
  cases a <;> cases b <;> try exact tot_err
  apply tot_ok
  split <;> trivial

theorem vCross_total (a b : Val F) : Tot (vCross O a b) := by
  cases a <;> cases b <;> try exact tot_err
  simp only [vCross]
  split
  · exact tot_ok (v := .arr _) trivial
  · exact tot_err

theorem vComponent_total (a b : Val F) : Tot (vComponent a b) := by
  cases a <;> cases b <;> try exact tot_err
  rename_i l i
  simp only [vComponent]
  split
  · exact tot_err
  · next h =>
    have h' : ¬ ((l.length : Int) ≤ i) ∧ ¬ (i < 0) := by simpa using h
    have hlt : i.toNat < l.length := by omega
    rw [List.getElem?_eq_getElem hlt]
    exact tot_ok trivial

theorem vIf_total (a b : Val F) (ha : VWF a) : Tot (vIf O a b) := by
  unfold vIf
  split
  · exact tot_err
  · exact tot_ok ha
  · exact tot_ok trivial

theorem vElse_total (a b : Val F) (ha : VWF a) (hb : VWF b) : Tot (vElse a b) := by
  unfold vElse
  split
  · exact tot_ok hb
  · exact tot_ok ha

theorem vMinus_total (a : Val F) (ha : VWF a) : Tot (vMinus O a) := by
  cases a <;> try exact tot_ok trivial
  rename_i x
  simp only [vMinus]
  split
  · exact tot_err
  · next h =>
    have hx : inI32 (-x) = true := inI32_neg ha (by simpa using h)
    simp only [negPrim, chk_eq, hx, if_true]
    exact tot_ok hx

theorem vAbs_total (a : Val F) (ha : VWF a) : Tot (vAbs O a) := by
  cases a <;> try exact tot_ok trivial
  rename_i x
  simp only [vAbs]
  split
  · exact tot_err
  · next h =>
    have hx : inI32 (if x < 0 then -x else x) = true := inI32_abs ha (by simpa using h)
    simp only [absPrim, chk_eq, hx, if_true]
    exact tot_ok hx

theorem vSignum_total (a : Val F) : Tot (vSignum O a) := by
  cases a <;> try exact tot_ok trivial
  apply tot_ok
  show inI32 _ = true
  split
  · decide
  · split <;> decide

theorem vFloatFn_total (n : String) (a : Val F) : Tot (vFloatFn O n a) := by
  cases a <;> exact tot_ok trivial

theorem vIntFn_total (f : Int → Int) (hf : ∀ x, inI32 x = true → inI32 (f x) = true)
    (a : Val F) (ha : VWF a) : Tot (vIntFn f a) := by
  cases a <;> try exact tot_ok trivial
  exact tot_ok (hf _ ha)

theorem vFact_total (a : Val F) : Tot (vFact a) := by
  cases a <;> try exact tot_ok trivial
  apply tot_ok
  split
  · exact (by decide : inI32 1 = true)
  · split
    · trivial
    · split
      · next r h => exact factChecked_some h
      · trivial

theorem vToInt_total (hO : ∀ x r, O.toI32 x = some r → inI32 r = true) (a : Val F) (ha : VWF a) :
    Tot (vToInt O a) := by
  cases a <;> try exact tot_ok trivial
  · exact tot_ok ha
  · apply tot_ok
    split
    · next r h => exact hO _ _ h
    · trivial
  · apply tot_ok
    show inI32 _ = true
    split <;> decide

theorem vToFloat_total (a : Val F) : Tot (vToFloat O a) := by
  cases a <;> exact tot_ok trivial

theorem vLength_total (a : Val F) : Tot (vLength O a) := by
  obtain ⟨v, hv, _⟩ := vDot_total O a a
  unfold vLength
  rw [hv]
  cases v <;> exact tot_ok trivial

end total

end Exmex.ValLemmas
